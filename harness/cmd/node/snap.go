// Snapshot install: chunks of a real Pebble snapshot whose commit offset is c, sent through the real
// SendSnapshot handler on an in-process stream.
package main

import (
	"context"
	"fmt"
	"os"
	"strconv"
	"time"

	"google.golang.org/grpc/metadata"

	oxtime "github.com/oxia-db/oxia/common/time"
	"github.com/oxia-db/oxia/proto"
	"github.com/oxia-db/oxia/server/kv"

	"verif/harness/internal/hx"
	"verif/harness/internal/kvsafe"
)

type chunkRec struct {
	name         string
	index, count int32
	content      []byte
}

var snapCache = map[int64][]chunkRec{}

func snapshotChunks(c int64) []chunkRec {
	if r, ok := snapCache[c]; ok {
		return r
	}
	base := os.Getenv("VERIF_TMP")
	if base == "" {
		base = "/var/tmp"
	}
	dir, err := os.MkdirTemp(base, "snap-")
	hx.Must(err)
	defer os.RemoveAll(dir)
	f, err := kvsafe.New(&kv.FactoryOptions{DataDir: dir, CacheSizeMB: 1})
	hx.Must(err)
	db, err := kv.NewDB(namespace, shardId, f, time.Hour, oxtime.SystemClock)
	hx.Must(err)
	for i := int64(0); i <= c; i++ {
		_, err := db.ProcessWrite(&proto.WriteRequest{Puts: []*proto.PutRequest{{Key: "k", Value: []byte(strconv.FormatInt(1000+i, 10))}}},
			i, 1, kv.NoOpCallback)
		hx.Must(err)
	}
	s, err := db.Snapshot()
	hx.Must(err)
	var res []chunkRec
	for ; s.Valid(); s.Next() {
		ch, err := s.Chunk()
		hx.Must(err)
		res = append(res, chunkRec{ch.Name(), ch.Index(), ch.TotalCount(), append([]byte(nil), ch.Content()...)})
	}
	_ = s.Close()
	_ = db.Close()
	_ = f.Close()
	snapCache[c] = res
	return res
}

type snapStream struct {
	ctx    context.Context
	term   int64
	chunks []chunkRec
	next   int
	resp   *proto.SnapshotResponse
}

func (s *snapStream) SendAndClose(r *proto.SnapshotResponse) error { s.resp = r; return nil }
func (s *snapStream) Recv() (*proto.SnapshotChunk, error) {
	if s.next >= len(s.chunks) {
		return nil, nil
	}
	c := s.chunks[s.next]
	s.next++
	return &proto.SnapshotChunk{Term: s.term, Name: c.name, ChunkIndex: c.index, ChunkCount: c.count, Content: c.content}, nil
}
func (s *snapStream) SetHeader(metadata.MD) error  { return nil }
func (s *snapStream) SendHeader(metadata.MD) error { return nil }
func (s *snapStream) SetTrailer(metadata.MD)       {}
func (s *snapStream) Context() context.Context     { return s.ctx }
func (s *snapStream) SendMsg(any) error            { return fmt.Errorf("not implemented") }
func (s *snapStream) RecvMsg(any) error            { return fmt.Errorf("not implemented") }

func (h *H) doSnapshot(sid int, t, c int64) {
	md := metadata.Pairs("shard-id", strconv.FormatInt(shardId, 10), "namespace", namespace, "term", strconv.FormatInt(t, 10))
	st := &snapStream{ctx: metadata.NewIncomingContext(context.Background(), md), term: t, chunks: snapshotChunks(c)}
	err := safe(func() error { return h.rpc.SendSnapshot(st) })
	res := errKind(err)
	if err == nil {
		if st.resp != nil {
			res = fmt.Sprintf("snap:%d", st.resp.AckOffset)
			h.termActionAccepted(t)
		} else {
			res = "err:noresponse"
		}
	}
	h.record(fmt.Sprintf("SN:%d:%d:%d", sid, t, c), res)
}
