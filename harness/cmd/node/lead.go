// Leader with followers: a real LeaderController at replication factor 2 or 3 whose followers are replicate streams held by
// the harness (the cursor's Appends are observed, every Ack is delivered when the schedule says so), and client writes whose
// context is cancelled at a chosen stage: before the call, after the entry reached the leader's log and before the
// acknowledgement that commits it, after the commit.  Judged by the specification alone (case kind "spec"): "replicas agree on
// every entry at or below the commit offset and the state they apply from it is the same" - the followers apply every committed
// entry of the log whatever became of the client, so after every step the LEADER's DB (read back through the KV handle of the
// controller) must be the fold of its own log up to the commit offset stored in the DB, that offset must not lie beyond the
// commit offset the leader reports, and once the write callbacks have run it must have reached it.
//
// Every write puts key "k": after entries 0..c have been applied the key holds the payload of entry c, version id c,
// modifications count c.  An entry that was skipped shows in the modifications count (and, if it is the last one, in the DB
// commit offset staying behind).
package main

import (
	"bytes"
	"context"
	"fmt"
	"io"
	"os"
	"sort"
	"strconv"
	"strings"
	"sync"
	"time"

	"google.golang.org/grpc/metadata"

	"github.com/oxia-db/oxia/common/concurrent"
	"github.com/oxia-db/oxia/proto"
	"github.com/oxia-db/oxia/server"
	"github.com/oxia-db/oxia/server/kv"
	"github.com/oxia-db/oxia/server/wal"

	"verif/harness/internal/hx"
	"verif/harness/internal/kvsafe"
)

const leadWait = 5 * time.Second

// one follower as the leader sees it: the Appends its cursor sent, the Acks the schedule lets through
type heldFollower struct {
	name string
	mu   sync.Mutex
	sent map[int64]bool
	got  chan struct{} // signalled on every Append
	acks chan *proto.Ack
	next int64 // next offset this follower acknowledges
}

func (f *heldFollower) waitSent(off int64) bool {
	deadline := time.After(leadWait)
	for {
		f.mu.Lock()
		ok := f.sent[off]
		f.mu.Unlock()
		if ok {
			return true
		}
		select {
		case <-f.got:
		case <-deadline:
			return false
		}
	}
}

type heldStream struct {
	f   *heldFollower
	ctx context.Context
}

func (s heldStream) Send(a *proto.Append) error {
	s.f.mu.Lock()
	s.f.sent[a.Entry.Offset] = true
	s.f.mu.Unlock()
	select {
	case s.f.got <- struct{}{}:
	default:
	}
	return nil
}
func (s heldStream) Recv() (*proto.Ack, error) {
	select {
	case a := <-s.f.acks:
		return a, nil
	case <-s.ctx.Done():
		return nil, io.EOF
	}
}
func (s heldStream) Header() (metadata.MD, error) { return nil, nil }
func (s heldStream) Trailer() metadata.MD         { return nil }
func (s heldStream) CloseSend() error             { return nil }
func (s heldStream) Context() context.Context     { return s.ctx }
func (s heldStream) SendMsg(any) error            { return fmt.Errorf("not implemented") }
func (s heldStream) RecvMsg(any) error            { return fmt.Errorf("not implemented") }

type heldRpc struct{ followers map[string]*heldFollower }

func (r *heldRpc) Close() error { return nil }
func (r *heldRpc) Truncate(_ string, req *proto.TruncateRequest) (*proto.TruncateResponse, error) {
	return &proto.TruncateResponse{HeadEntryId: req.HeadEntryId}, nil
}
func (r *heldRpc) GetReplicateStream(ctx context.Context, follower string, _ string, _ int64, _ int64) (proto.OxiaLogReplication_ReplicateClient, error) {
	f := r.followers[follower]
	if f == nil {
		return nil, fmt.Errorf("unknown follower %s", follower)
	}
	return heldStream{f, ctx}, nil
}
func (r *heldRpc) SendSnapshot(context.Context, string, string, int64, int64) (proto.OxiaLogReplication_SendSnapshotClient, error) {
	return nil, fmt.Errorf("snapshot not expected in this scenario")
}

type leadWrite struct {
	off    int64
	pay    int64
	done   chan error
	cancel context.CancelFunc
	stage  int
	waited bool
}

type leadSc struct {
	o      *hx.Out
	rf     int
	lc     server.LeaderController
	kvf    *capKvFactory
	rpc    *heldRpc
	names  []string
	log    []int64 // payload of the entry at each offset of the leader's log
	writes []*leadWrite
	nacks  map[int64]int
	acts   []string
	viol   map[string]string
	fatal  string
	quiet  bool // every write at or below the reported commit offset has had its callback (always, between two steps)
	alone  bool // after RL: no followers, a write commits by itself
}

func (s *leadSc) violate(sig, det string) {
	if _, ok := s.viol[sig]; !ok {
		s.viol[sig] = det
	}
}

func (s *leadSc) dbCommit() int64 {
	v, _, _, found := s.kvf.readKey("__oxia/commit-offset")
	if !found {
		return -1
	}
	c, err := strconv.ParseInt(strings.TrimSpace(string(v)), 10, 64)
	if err != nil {
		return -1
	}
	return c
}

// check: the fold monitor on the leader's DB
func (s *leadSc) check(where string) {
	st, err := s.lc.GetStatus(&proto.GetStatusRequest{Shard: shardId})
	if err != nil {
		return
	}
	c := st.CommitOffset
	dbc := s.dbCommit()
	val, version, mods, found := s.kvf.readKey("k")
	desc := fmt.Sprintf("leader (rf %d) after %s: reports commit offset %d, DB commit offset %d, key k found=%v value=%q version=%d modifications=%d",
		s.rf, where, c, dbc, found, val, version, mods)
	switch {
	case dbc > c:
		s.violate("apply:db-not-fold-of-log-prefix", desc+": the DB is ahead of the commit offset")
	case dbc >= int64(len(s.log)):
		s.violate("apply:db-not-fold-of-log-prefix", desc+": the DB commit offset is beyond the log")
	case dbc < 0 && found:
		s.violate("apply:db-not-fold-of-log-prefix", desc+": nothing applied yet, the key must not exist")
	case dbc >= 0:
		want := payBytes(s.log[dbc])
		if !found || !bytes.Equal(val, want) || version != dbc || mods != dbc {
			s.violate("apply:db-not-fold-of-log-prefix", fmt.Sprintf(
				"%s: not the fold of the leader's own log 0..%d (expected value=%q version=%d modifications=%d): a committed entry was not applied by the leader",
				desc, dbc, want, dbc, dbc))
		}
	}
	if s.quiet && dbc < c && dbc < int64(len(s.log)) {
		s.violate("apply:db-not-fold-of-log-prefix", fmt.Sprintf(
			"%s: every write up to offset %d has been answered, entries %d..%d are committed (the followers apply them) but the leader has not applied them",
			desc, c, dbc+1, c))
	}
}

func (s *leadSc) status() *proto.GetStatusResponse {
	st, err := s.lc.GetStatus(&proto.GetStatusRequest{Shard: shardId})
	hx.Must(err)
	return st
}

// write: W:<stage>  stage 0 = the client stays, 1 = context cancelled before the call, 2 = cancelled after the entry reached
// the leader's log (before any acknowledgement), 3 = cancelled after the write was answered
func (s *leadSc) write(pay int64, stage int) {
	ctx, cancel := context.WithCancel(context.Background())
	off := int64(len(s.log))
	w := &leadWrite{off: off, pay: pay, done: make(chan error, 1), cancel: cancel, stage: stage}
	if stage == 1 {
		cancel()
	}
	sh := shardId
	s.lc.Write(ctx, &proto.WriteRequest{Shard: &sh, Puts: []*proto.PutRequest{{Key: "k", Value: payBytes(pay)}}},
		concurrent.NewOnce(func(*proto.WriteResponse) { w.done <- nil }, func(err error) { w.done <- err }))
	// the entry is in the leader's log once the head offset covers it (the sync callback advances it)
	deadline := time.Now().Add(leadWait)
	for s.status().HeadOffset < off {
		select {
		case err := <-w.done:
			// refused before it reached the log
			s.acts = append(s.acts, fmt.Sprintf("W:%d:%d=%s", pay, stage, errKind(err)))
			cancel()
			return
		default:
		}
		if time.Now().After(deadline) {
			s.fatal = "write did not reach the leader's log"
			return
		}
		time.Sleep(100 * time.Microsecond)
	}
	s.log = append(s.log, pay)
	s.writes = append(s.writes, w)
	if stage == 2 {
		cancel()
	}
	if s.alone {
		select {
		case <-w.done:
			w.waited = true
		case <-time.After(leadWait):
			s.fatal = "a write of a leader without followers was never answered"
			return
		}
	}
	s.acts = append(s.acts, fmt.Sprintf("W:%d:%d", pay, stage))
}

// ack: A:<follower index>  the follower acknowledges its next offset (it must have been sent to it)
func (s *leadSc) ack(i int) {
	f := s.rpc.followers[s.names[i]]
	off := f.next
	if s.alone || off >= int64(len(s.log)) {
		return
	}
	if !f.waitSent(off) {
		s.fatal = fmt.Sprintf("entry %d was never sent to follower %s", off, f.name)
		return
	}
	f.next++
	f.acks <- &proto.Ack{Offset: off}
	s.nacks[off]++
	if s.nacks[off] == s.rf/2 {
		// this acknowledgement commits the entry: its write is answered (whatever the answer) before the next step
		w := s.writes[off]
		select {
		case <-w.done:
			w.waited = true
			if w.stage == 3 {
				w.cancel()
			}
		case <-time.After(leadWait):
			s.fatal = fmt.Sprintf("the write at offset %d was never answered after the acknowledgement that commits it", off)
			return
		}
	}
	s.acts = append(s.acts, fmt.Sprintf("A:%d:%d", i, off))
}

func runLeaderWithFollowers(o *hx.Out, rf int, script string) {
	base := os.Getenv("VERIF_TMP")
	if base == "" {
		base = "/var/tmp"
	}
	dir, err := os.MkdirTemp(base, "lead-")
	hx.Must(err)
	defer os.RemoveAll(dir)
	wf := wal.NewWalFactory(&wal.FactoryOptions{BaseWalDir: dir + "/wal", SegmentSize: 256 * 1024, Retention: time.Hour, SyncData: true})
	inner, err := kvsafe.New(&kv.FactoryOptions{DataDir: dir + "/db", CacheSizeMB: 1})
	hx.Must(err)
	kvf := &capKvFactory{Factory: inner}
	s := &leadSc{o: o, rf: rf, kvf: kvf, rpc: &heldRpc{followers: map[string]*heldFollower{}}, nacks: map[int64]int{}, viol: map[string]string{}, quiet: true}
	fm := map[string]*proto.EntryId{}
	for i := 1; i < rf; i++ {
		n := fmt.Sprintf("f%d", i)
		s.names = append(s.names, n)
		s.rpc.followers[n] = &heldFollower{name: n, sent: map[int64]bool{}, got: make(chan struct{}, 1), acks: make(chan *proto.Ack, 256)}
		fm[n] = &proto.EntryId{Term: -1, Offset: -1}
	}
	sort.Strings(s.names)
	open := func(t int64, rf int, fm map[string]*proto.EntryId) {
		lc, err := server.NewLeaderController(server.Config{}, namespace, shardId, s.rpc, wf, kvf)
		hx.Must(err)
		s.lc = lc
		_, err = lc.NewTerm(&proto.NewTermRequest{Namespace: namespace, Shard: shardId, Term: t})
		hx.Must(err)
		ctx, cancel := context.WithTimeout(context.Background(), 10*time.Second)
		_, err = lc.BecomeLeader(ctx, &proto.BecomeLeaderRequest{Namespace: namespace, Shard: shardId, Term: t, ReplicationFactor: uint32(rf), FollowerMaps: fm})
		cancel()
		hx.Must(err)
	}
	open(2, rf, fm)
	s.check("BecomeLeader")
	pay := int64(5000)
	for _, a := range strings.Split(script, ";") {
		if s.fatal != "" {
			break
		}
		f := strings.Split(a, ":")
		switch f[0] {
		case "W":
			pay++
			s.write(pay, int(atoi(f[1])))
		case "A":
			if i := int(atoi(f[1])); i < len(s.names) {
				s.ack(i)
			}
		case "RL":
			// the node restarts and leads alone: it applies the rest of its log (every entry above the DB commit offset)
			for _, w := range s.writes {
				w.cancel()
			}
			hx.Must(s.lc.Close())
			open(4, 1, nil)
			s.acts = append(s.acts, "RL")
			s.alone = true
		}
		if s.fatal == "" {
			s.check(a)
		}
	}
	name := fmt.Sprintf("leader-with-held-followers(rf=%d)", rf)
	if s.fatal != "" {
		o.Count("leader-with-held-followers:not-realised(" + s.fatal + ")")
	}
	o.Case("spec", name+" "+strings.Join(s.acts, ";"), "spec-only", name+"/"+strings.Join(s.acts, ";"))
	for sig, det := range s.viol {
		o.Violation(sig, det+"  [scenario "+name+": "+strings.Join(s.acts, ";")+"]")
	}
	o.Count("schedules:spec-only")
	o.Count("leader-with-held-followers")
	for _, w := range s.writes {
		w.cancel()
	}
	_ = s.lc.Close()
	_ = kvf.Close()
	_ = wf.Close()
}

// genLeaderScript: writes with every cancellation stage, acknowledgements of the followers in any interleaving
func genLeaderScript(r *hx.Rng, rf int) string {
	var a []string
	n := 4 + r.Intn(8)
	pending := 0
	for i := 0; i < n; i++ {
		switch {
		case pending == 0 || r.Chance(45):
			a = append(a, fmt.Sprintf("W:%d", r.Intn(4)))
			pending++
		default:
			a = append(a, fmt.Sprintf("A:%d", r.Intn(rf-1)))
			if pending > 0 && r.Chance(70) {
				pending--
			}
		}
	}
	// everything gets acknowledged by every follower, one more ordinary write moves the DB on
	for i := 0; i < n; i++ {
		for f := 0; f < rf-1; f++ {
			a = append(a, fmt.Sprintf("A:%d", f))
		}
	}
	a = append(a, "W:0", "A:0")
	if r.Chance(50) {
		a = append(a, "RL")
	}
	return strings.Join(a, ";")
}
