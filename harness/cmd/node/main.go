// harness node: drives one real node (ShardsDirector + FollowerController / LeaderController of /repo/server)
// through schedules of the actions of Oxia.Node.Model, forcing the interleavings with the gating WAL and the
// in-process replicate stream, and writes the realised schedule + observables for the extracted model.
//
//	sched <id> <variant> <a1;a2;...> <leader logs>   ->  <out1;out2;...> #wal=<entries>
//	trunc <id> <leader terms> <lt:lo> <ft:fo>        ->  none:<t>:<o> | invalid | trunc:<t>:<o>
//
// args: -focus c03|c04 (bias of the generator), -variant fixed|old (which model variant the case lines name).
package main

import (
	"context"
	"flag"
	"fmt"
	"os"
	"sort"
	"strconv"
	"strings"
	"time"

	"github.com/oxia-db/oxia/proto"
	"github.com/oxia-db/oxia/server"
	"github.com/oxia-db/oxia/server/wal"

	"verif/harness/internal/hx"
)

var (
	focus   = flag.String("focus", "c03", "c03|c04")
	variant = flag.String("variant", "fixed", "fixed|old")
)

// ---------------------------------------------------------------- leader logs / environment

func (h *H) leaderLogsField() string {
	var ts []int64
	for t := range h.terms {
		ts = append(ts, t)
	}
	sort.Slice(ts, func(i, j int) bool { return ts[i] < ts[j] })
	var parts []string
	for _, t := range ts {
		ti := h.terms[t]
		var es []string
		for _, e := range ti.log {
			es = append(es, e.String())
		}
		ok := "ok"
		if !ti.envOK {
			ok = "bad"
		}
		parts = append(parts, fmt.Sprintf("%d=%s=%s", t, ok, strings.Join(es, ",")))
	}
	if len(parts) == 0 {
		return "-"
	}
	return strings.Join(parts, "/")
}

func parseEnt(s string) ent {
	f := strings.Split(s, ":")
	t, _ := strconv.ParseInt(f[0], 10, 64)
	o, _ := strconv.ParseInt(f[1], 10, 64)
	p, _ := strconv.ParseInt(f[2], 10, 64)
	return ent{t, o, p}
}

func (h *H) loadLeaderLogs(field string) {
	if field == "-" || field == "" {
		return
	}
	for _, part := range strings.Split(field, "/") {
		f := strings.SplitN(part, "=", 3)
		t, _ := strconv.ParseInt(f[0], 10, 64)
		ti := &termInfo{envOK: f[1] == "ok"}
		if len(f) > 2 && f[2] != "" {
			for _, es := range strings.Split(f[2], ",") {
				ti.log = append(ti.log, parseEnt(es))
			}
		}
		h.terms[t] = ti
	}
}

// what truncateFollowerIfNeeded decides (re-stated here only to generate honest leaders; the real function is
// compared with the model in the "trunc" cases)
func leaderDecision(llog []ent, ft, fo int64) (kind string, t, o int64) {
	lt, lo := int64(-1), int64(-1)
	if n := len(llog); n > 0 {
		lt, lo = llog[n-1].term, llog[n-1].off
	}
	if ft == lt && fo <= lo {
		return "none", ft, fo
	}
	if ft > lt {
		return "invalid", 0, 0
	}
	ht, ho := int64(-1), int64(-1)
	for i := len(llog) - 1; i >= 0; i-- {
		if llog[i].term <= ft {
			ht, ho = llog[i].term, llog[i].off
			break
		}
	}
	if ft == ht && fo <= ho {
		return "none", ft, fo
	}
	return "trunc", ht, ho
}

func isPrefixMatch(sub []ent, llog []ent) bool {
	for _, e := range sub {
		if e.off < 0 || e.off >= int64(len(llog)) || llog[e.off] != e {
			return false
		}
	}
	return true
}

// ---------------------------------------------------------------- generator

type gen struct {
	h       *H
	r       *hx.Rng
	term    int64 // highest term used in a NewTerm request
	nextSid int
	raced   bool // one NewTerm-vs-in-flight-request race per schedule (each costs a bounded wait)
	raced2  bool // one generic handler race per schedule
	pay     int64
	seen    int64 // the term the node was last seen in while its shard was loaded
	inc     int   // h.incarnation the plans below belong to
	plan    map[int64][3]int64 // term -> honest decision: kind (0 none,1 invalid,2 trunc), t, o
	done    map[int64]bool     // term -> the follower's log has been brought in line (truncate done or not needed)
}

func (g *gen) fresh() int64 { g.pay++; return g.pay }

func (g *gen) shadowCopy() []ent {
	g.h.mu.Lock()
	defer g.h.mu.Unlock()
	return append([]ent(nil), g.h.shadow...)
}

// after NewTerm(t) answered with head (ht,ho): invent the log of the leader of term t
func (g *gen) electLeader(t, ht, ho int64) {
	g.sync()
	sh := g.shadowCopy()
	d := len(sh)
	if g.r.Chance(45) {
		d = g.r.Intn(len(sh) + 1)
	}
	if g.r.Chance(15) && ho >= 0 {
		// the leader knows exactly the reported head
		for i, e := range sh {
			if e.off == ho {
				d = i + 1
			}
		}
	}
	var ll []ent
	if len(sh) > 0 {
		// the follower's log may start after a snapshot: the leader holds some entries below it
		for i := int64(0); i < sh[0].off; i++ {
			ll = append(ll, ent{0, i, g.fresh()})
		}
	}
	ll = append(ll, sh[:d]...)
	if g.r.Chance(45) {
		n := 1 + g.r.Intn(3)
		for i := 0; i < n; i++ {
			ll = append(ll, ent{t - 1, int64(len(ll)), g.fresh()})
		}
	}
	ti := &termInfo{log: ll, envOK: true}
	g.h.terms[t] = ti
	kind, dt, do := leaderDecision(ll, ht, ho)
	switch kind {
	case "none":
		g.plan[t] = [3]int64{0, dt, do}
		var upto []ent
		for _, e := range sh {
			if e.off <= ho {
				upto = append(upto, e)
			}
		}
		ti.envOK = isPrefixMatch(upto, ll)
		g.done[t] = true
	case "invalid":
		g.plan[t] = [3]int64{1, 0, 0}
		ti.envOK = false
	case "trunc":
		g.plan[t] = [3]int64{2, dt, do}
		var kept []ent
		for _, e := range sh {
			if entLeq(e, dt, do) {
				kept = append(kept, e)
			}
		}
		ti.envOK = isPrefixMatch(kept, ll)
	}
	if !ti.envOK {
		g.h.o.Count("env:leader-obligation-not-met(monitor off for the term)")
	}
}

func (g *gen) curStatus() (role string, term int64, st string, head int64) {
	v := strings.Split(g.h.statusView(), ",")
	if len(v) < 5 {
		return v[0], -1, "", -1
	}
	t, _ := strconv.ParseInt(v[1], 10, 64)
	hd, _ := strconv.ParseInt(v[3], 10, 64)
	return v[0], t, v[2], hd
}

func lastHeadOf(out string) (int64, int64, bool) {
	res := strings.SplitN(out, "|", 2)[0]
	if !strings.HasPrefix(res, "head:") {
		return 0, 0, false
	}
	f := strings.Split(res, ":")
	t, _ := strconv.ParseInt(f[1], 10, 64)
	o, _ := strconv.ParseInt(f[2], 10, 64)
	return t, o, true
}

func (g *gen) known(t int64) bool {
	ti := g.h.terms[t]
	return ti != nil && !ti.stale
}

// sync: the plans made for the leaders of an earlier incarnation of the node are void
func (g *gen) sync() {
	if g.inc != g.h.incarnation {
		g.inc = g.h.incarnation
		g.plan, g.done = map[int64][3]int64{}, map[int64]bool{}
	}
}

func (g *gen) newTerm(t int64) {
	n := len(g.h.outs)
	g.h.doNewTerm(t)
	g.sync()
	if t > g.term {
		g.term = t
	}
	if len(g.h.outs) > n {
		if ht, ho, ok := lastHeadOf(g.h.outs[len(g.h.outs)-1]); ok {
			if !g.known(t) {
				g.electLeader(t, ht, ho)
			}
		}
	}
}

func (g *gen) aliveStreams() (recv []*streamH, busy []*streamH, any []*streamH) {
	var ids []int
	for id := range g.h.streams {
		ids = append(ids, id)
	}
	sort.Ints(ids)
	for _, id := range ids {
		s := g.h.streams[id]
		if s.recvAlive {
			recv = append(recv, s)
		}
		if s.syncState == 2 {
			busy = append(busy, s)
		}
		if s.recvAlive || s.syncState != 0 {
			any = append(any, s)
		}
	}
	return
}

func (g *gen) breakAll() {
	_, _, any := g.aliveStreams()
	for _, s := range any {
		g.h.doStreamBreak(s.sid)
		g.h.settle()
	}
}

// one entry of the leader log of term t at offset off (the log grows on demand)
func (g *gen) leaderEntry(t, off int64) (ent, bool) {
	ti := g.h.terms[t]
	if ti == nil {
		ti = &termInfo{envOK: false}
		g.h.terms[t] = ti
	}
	ti.stale = false // (a leader of the term is active in this incarnation: monitor off, no second leader for the term)
	for int64(len(ti.log)) <= off && off-int64(len(ti.log)) < 4 {
		ti.log = append(ti.log, ent{t, int64(len(ti.log)), g.fresh()})
	}
	if off < 0 || off >= int64(len(ti.log)) {
		return ent{}, false
	}
	return ti.log[off], true
}

// openStream: a leader that attaches before the follower's log was brought in line does not meet its obligations
func (g *gen) openStream(t int64) {
	if ti := g.h.terms[t]; ti != nil {
		if !g.done[t] {
			ti.envOK = false
		}
		ti.stale = false
	}
	g.nextSid++
	g.h.doReplicateOpen(g.nextSid, t)
}

// staleFirstRequest: the first request after a restart (the shard is on disk, not loaded) is one of an older term
func (g *gen) staleFirstRequest() {
	h, r := g.h, g.r
	if h.fatal != "" || !r.Chance(60) {
		return
	}
	t := noTermBelow(g.term - 2 - int64(2*r.Intn(2)))
	switch r.Intn(6) {
	case 0:
		h.doDeleteShard(t)
	case 1:
		h.doTruncate(t, -1, -1)
	case 2:
		h.doBecomeLeader(t)
	case 3:
		g.nextSid++
		h.doReplicateOpen(g.nextSid, t)
	case 4:
		g.nextSid++
		h.doSnapshot(g.nextSid, t, 1, 0)
	default:
		h.doNewTerm(t)
	}
	h.checkFence("stale first request")
	h.settle()
}

// afterRace: bookkeeping of the generator for the actions a race realised (from index n on)
func (g *gen) afterRace(n int) {
	h := g.h
	g.sync()
	for i := n; i < len(h.acts) && i < len(h.outs); i++ {
		f := strings.Split(h.acts[i], ":")
		ht, ho, ok := lastHeadOf(h.outs[i])
		if !ok {
			continue
		}
		switch f[0] {
		case "NT":
			t := atoi(f[1])
			if !g.known(t) {
				g.electLeader(t, ht, ho)
			}
		case "TR":
			t := atoi(f[1])
			if p, okp := g.plan[t]; okp && p[0] == 2 && p[1] == atoi(f[2]) && p[2] == atoi(f[3]) {
				g.done[t] = true
			} else if ti := h.terms[t]; ti != nil {
				ti.envOK = false
			}
		}
	}
}

// requests carry a term >= -1 (-1 = no term; the code gives it a meaning of its own, lower numbers have none)
func noTermBelow(t int64) int64 {
	if t < -1 {
		return -1
	}
	return t
}

type choice struct {
	w int
	f func()
}

func (g *gen) step() {
	h := g.h
	r := g.r
	g.sync()
	role, term, st, head := g.curStatus()
	// a shard that is on disk but not loaded (after a restart) reports no term: requests keep coming in the term it was in
	if role != "N" {
		g.seen = term
	} else if term < 0 {
		term = g.seen
	}
	recv, busy, any := g.aliveStreams()
	c04 := *focus == "c04"
	var cs []choice
	add := func(w int, f func()) {
		if w > 0 {
			cs = append(cs, choice{w, f})
		}
	}
	// new-term requests: higher, same, lower
	wnt := 5
	if c04 {
		wnt = 9
	}
	add(wnt, func() { g.newTerm(g.term + 2) })
	add(1, func() { g.newTerm(g.term) })
	add(1, func() { g.newTerm(g.term - 2) })
	if role != "L" {
		if p, ok := g.plan[term]; ok && st == "fenced" {
			if p[0] == 2 {
				add(14, func() { h.doTruncate(term, p[1], p[2]); g.done[term] = true })
			} else {
				add(1, func() { h.doTruncate(term, p[1], p[2]) })
			}
		}
		// truncation requests with arbitrary entry ids (below / at / above the head, dead terms), other terms
		add(2, func() {
			t := term
			if r.Chance(25) {
				t = noTermBelow(term + int64(r.Intn(5)) - 2)
			}
			ht := int64(r.Intn(int(g.term)+3)) - 1
			ho := head + int64(r.Intn(6)) - 3
			if r.Chance(10) {
				ht, ho = -1, -1
			}
			if ti := h.terms[t]; ti != nil {
				ti.envOK = false
			}
			h.doTruncate(t, ht, ho)
		})
		// one handler parked at a WAL call, another request delivered there
		if !g.raced2 {
			add(2, func() {
				g.raced2 = true
				nt := g.term + 2
				sh := g.shadowCopy()
				trunc := fmt.Sprintf("TR:%d:-1:-1", term)
				if p, ok := g.plan[term]; ok && r.Chance(50) {
					trunc = fmt.Sprintf("TR:%d:%d:%d", term, p[1], p[2])
				} else if len(sh) >= 2 {
					e := sh[len(sh)-2]
					trunc = fmt.Sprintf("TR:%d:%d:%d", term, e.term, e.off)
				}
				app := ""
				if len(recv) > 0 {
					s0 := recv[0]
					_, _, _, hd := g.curStatus()
					if e, ok := g.leaderEntry(s0.term, hd+1); ok {
						app = fmt.Sprintf("AP:%d:%d:%d:%d:-1", s0.sid, e.term, e.off, e.pay)
					}
				}
				var race string
				switch x := r.Intn(3); {
				case x == 0 || app == "":
					race = fmt.Sprintf("RACE/%s/%s/NT:%d", trunc, hx.Pick(r, []string{"rev", "read", "trunc", "last"}), nt)
				case x == 1:
					race = fmt.Sprintf("RACE/NT:%d/%s/%s", nt, hx.Pick(r, []string{"rev", "read", "sync"}), hx.Pick(r, []string{app, trunc}))
				default:
					race = fmt.Sprintf("RACE/%s/append/NT:%d", app, nt)
				}
				g.term = nt
				n := len(h.acts)
				h.exec(race)
				g.afterRace(n)
			})
		}
		// a Truncate of the current term when the node is already FOLLOWER (retry / late request), with or without a stream
		// attached, with or without acknowledged entries: same id as planned, just below the head, or at the head
		if st == "follower" {
			add(5, func() {
				ht, ho := int64(-1), int64(-1)
				sh := g.shadowCopy()
				switch x := r.Intn(3); {
				case x == 0:
					if p, ok := g.plan[term]; ok {
						ht, ho = p[1], p[2]
					}
				case x == 1 && len(sh) >= 2:
					ht, ho = sh[len(sh)-2].term, sh[len(sh)-2].off
				case len(sh) >= 1:
					ht, ho = sh[len(sh)-1].term, sh[len(sh)-1].off
				}
				n := len(h.outs)
				h.doTruncate(term, ht, ho)
				if len(h.outs) > n && strings.HasPrefix(h.outs[len(h.outs)-1], "head:") {
					if ti := h.terms[term]; ti != nil {
						ti.envOK = false
					}
				}
			})
		}
		// open a replicate stream
		wro := 1
		if len(recv) == 0 && (st == "fenced" || st == "follower") {
			wro = 12
		}
		add(wro, func() {
			t := term
			if r.Chance(8) {
				t = noTermBelow(term - 2)
			} else if r.Chance(4) {
				t = term + 2
			}
			g.openStream(t)
		})
		for _, s := range recv {
			s := s
			add(16/len(recv)+1, func() {
				_, _, _, hd := g.curStatus()
				off := hd + 1
				switch x := r.Intn(100); {
				case x < 22 && hd >= 0: // duplicate / re-delivery of an earlier offset
					off = hd - int64(r.Intn(3))
					if off < 0 {
						off = 0
					}
				case x < 27: // gap
					off = hd + 2
				}
				e, ok := g.leaderEntry(s.term, off)
				if !ok {
					e = ent{s.term, off, g.fresh()}
					if ti := h.terms[s.term]; ti != nil {
						ti.envOK = false
					}
				}
				commit := int64(-1) // the apply loop is not part of the model (see Node/Model.v)
				h.doAppend(s.sid, e, commit)
			})
		}
		for _, s := range recv {
			s := s
			if g.raced {
				break
			}
			add(1, func() {
				_, _, _, hd := g.curStatus()
				e, ok := g.leaderEntry(s.term, hd+1)
				if !ok {
					return
				}
				g.raced = true
				t := g.term + 2
				g.term = t
				n := len(h.outs)
				h.doNewTermRacingAppend(t, s.sid, e)
				for _, out := range h.outs[n:] {
					if ht, ho, ok := lastHeadOf(out); ok {
						if !g.known(t) {
							g.electLeader(t, ht, ho)
						}
					}
				}
			})
		}
		for _, s := range busy {
			s := s
			add(9, func() { h.doSyncEnd(s.sid) })
		}
		for _, s := range any {
			s := s
			add(2, func() { h.doStreamBreak(s.sid) })
		}
		add(2, func() { h.doCrashRestart(r.Intn(8)); g.staleFirstRequest() })
		wsn := 2
		if len(recv) > 0 {
			wsn = 1
		}
		add(wsn, func() {
			t := term
			if r.Chance(25) {
				t = noTermBelow(term - 2)
			}
			c := int64(r.Intn(4))
			g.nextSid++
			n := len(h.outs)
			fail := 0
			if t >= 0 && r.Chance(35) { // (a term -1 disables the chunk term check altogether)
				fail = 1 + r.Intn(3)
			}
			h.doSnapshot(g.nextSid, t, c, fail)
			if len(h.outs) > n && strings.HasPrefix(h.outs[len(h.outs)-1], "snap:") {
				// the leader's log holds the snapshot's entries (never compared: the follower keeps none of them)
				ti := h.terms[t]
				if ti == nil {
					ti = &termInfo{envOK: true}
					h.terms[t] = ti
				}
				ti.stale = false
				for int64(len(ti.log)) <= c {
					ft := int64(0) // filler entries keep the leader log term-sorted
					if n := len(ti.log); n > 0 {
						ft = ti.log[n-1].term
					}
					ti.log = append(ti.log, ent{ft, int64(len(ti.log)), g.fresh()})
				}
				g.done[t] = true
			}
		})
		if st == "fenced" {
			w := 1
			if c04 {
				w = 3
			}
			add(w, func() { g.breakAll(); h.doBecomeLeader(term) })
		}
		add(1, func() { h.doClientWrite(g.fresh()) })
	} else {
		add(12, func() { h.doClientWrite(g.fresh()) })
		if h.gw != nil && h.gw.nPending() > 0 {
			add(7, func() { h.doLeaderSync() })
		}
		add(3, func() {
			t := g.term + 2
			g.term = t
			n := len(h.outs)
			h.doWriteRacingNewTerm(g.fresh(), t)
			if len(h.outs) > n {
				if ht, ho, ok := lastHeadOf(h.outs[len(h.outs)-1]); ok {
					g.electLeader(t, ht, ho)
				}
			}
		})
		if st == "leader" && !g.raced2 {
			add(1, func() {
				g.raced2 = true
				nt := g.term + 2
				g.term = nt
				n := len(h.acts)
				h.exec(fmt.Sprintf("RACE/CW:%d/appendsync/NT:%d", g.fresh(), nt))
				g.afterRace(n)
			})
		}
		if st == "fenced" && !g.raced2 {
			add(1, func() {
				g.raced2 = true
				nt := g.term + 2
				g.term = nt
				n := len(h.acts)
				h.exec(fmt.Sprintf("RACE/BL:%d/rev/NT:%d", term, nt))
				g.afterRace(n)
			})
		}
		if st == "leader" && !g.raced {
			add(1, func() {
				g.raced = true
				t := g.term + 2
				g.term = t
				n := len(h.outs)
				h.doNewTermRacingWrite(t, g.fresh())
				for _, out := range h.outs[n:] {
					if ht, ho, ok := lastHeadOf(out); ok {
						if !g.known(t) {
							g.electLeader(t, ht, ho)
						}
					}
				}
			})
		}
		if st == "fenced" {
			add(4, func() { h.doBecomeLeader(term) })
			add(3, func() {
				if p, ok := g.plan[term]; ok {
					h.doTruncate(term, p[1], p[2])
					g.done[term] = true
				}
			})
			add(2, func() { g.openStream(term) })
		}
		add(1, func() { h.doBecomeLeader(noTermBelow(term + int64(r.Intn(3)) - 1)) })
		add(1, func() { g.openStream(noTermBelow(term - 2)) })
		add(1, func() { h.doTruncate(term+2, 0, 0) })
		add(1, func() { h.doCrashRestart(r.Intn(8)) })
	}
	// DeleteShard through the director: older term (must be refused), current / newer term (removes the shard)
	add(2, func() { h.doDeleteShard(noTermBelow(g.term - 2 - int64(2*r.Intn(2)))) })
	add(1, func() {
		h.doDeleteShard(term + int64(2*r.Intn(2)))
	})
	total := 0
	for _, c := range cs {
		total += c.w
	}
	x := r.Intn(total)
	for _, c := range cs {
		if x < c.w {
			c.f()
			break
		}
		x -= c.w
	}
}

// ---------------------------------------------------------------- running a schedule

func finish(o *hx.Out, h *H, kindKey string) {
	h.checkFence("end")
	walStr := h.finalWal()
	input := *variant + " " + strings.Join(h.acts, ";") + " " + h.leaderLogsField()
	res := strings.Join(h.outs, ";") + " #wal=" + walStr
	if h.fatal != "" {
		res = "FATAL " + h.fatal + " after " + res
	}
	key := ""
	if len(h.acts) > 3 {
		key = strings.Join(h.acts, ";")
	}
	o.Case("sched", input, res, key)
	for sig, det := range h.viol {
		// each property reports its own verdicts: C04 the fence/head ones, C03 the ack/truncate ones
		mine := strings.HasPrefix(sig, "fenced:") || strings.HasPrefix(sig, "fence:") || strings.HasPrefix(sig, "newterm:") || strings.HasPrefix(sig, "restart:term-")
		if *focus == "c03" {
			mine = strings.HasPrefix(sig, "ack:") || strings.HasPrefix(sig, "truncate:") || strings.HasPrefix(sig, "attach:") ||
				(strings.HasPrefix(sig, "restart:") && !strings.HasPrefix(sig, "restart:term-")) || strings.HasPrefix(sig, "apply:")
		}
		if !mine {
			o.Count("other-property-verdict:" + sig)
			continue
		}
		o.Violation(sig, det+"  [schedule: "+strings.Join(h.acts, ";")+"]")
	}
	for _, a := range h.acts {
		o.Count("action:" + strings.SplitN(a, ":", 2)[0])
	}
	for _, out := range h.outs {
		r := strings.SplitN(out, "|", 2)[0]
		if strings.HasPrefix(r, "head:") {
			r = "head"
		}
		o.Count("result:" + r)
		f := strings.Split(out, "|")
		if len(f) > 1 && f[1] != "-" {
			o.CountN("acks", strings.Count(f[1], ",")+1)
		}
	}
	if h.probeTimeouts > 0 {
		o.CountN("probe-timeouts", h.probeTimeouts)
	}
	o.Count(kindKey)
	h.close()
}

func runGenerated(o *hx.Out, r *hx.Rng, steps int) {
	h := newH(o)
	g := &gen{h: h, r: r, seen: -1, plan: map[int64][3]int64{}, done: map[int64]bool{}}
	g.newTerm(2)
	h.settle()
	for i := 0; i < steps && h.fatal == ""; i++ {
		g.step()
		h.checkFence("step")
		h.settle()
	}
	finish(o, h, "schedules:generated")
}

func atoi(s string) int64 { v, _ := strconv.ParseInt(s, 10, 64); return v }

// exec runs one action of a schedule (the textual form of the case lines)
func (h *H) exec(a string) {
	if strings.HasPrefix(a, "RACE/") {
		p := strings.Split(a, "/")
		if len(p) == 4 {
			h.doRace(p[1], p[2], p[3])
		}
		return
	}
	f := strings.Split(a, ":")
	switch f[0] {
	case "NT":
		h.doNewTerm(atoi(f[1]))
	case "TR":
		h.doTruncate(atoi(f[1]), atoi(f[2]), atoi(f[3]))
	case "RO":
		h.doReplicateOpen(int(atoi(f[1])), atoi(f[2]))
	case "AP":
		h.doAppend(int(atoi(f[1])), ent{atoi(f[2]), atoi(f[3]), atoi(f[4])}, atoi(f[5]))
	case "SB": // realised automatically by settle()
		return
	case "SE":
		h.doSyncEnd(int(atoi(f[1])))
	case "BR":
		h.doStreamBreak(int(atoi(f[1])))
	case "SN":
		fail := 0
		if len(f) > 4 {
			fail = int(atoi(f[4]))
		}
		h.doSnapshot(int(atoi(f[1])), atoi(f[2]), atoi(f[3]), fail)
	case "CR":
		h.doCrashRestart(int(atoi(f[1])))
	case "BL":
		h.doBecomeLeader(atoi(f[1]))
	case "CW":
		h.doClientWrite(atoi(f[1]))
	case "NTAP": // NewTerm parked after its wal.Sync, an Append delivered meanwhile
		h.doNewTermRacingAppend(atoi(f[1]), int(atoi(f[2])), ent{atoi(f[3]), atoi(f[4]), atoi(f[5])})
	case "NTCW": // NewTerm (leader) parked after its wal.Sync, a client write issued meanwhile
		h.doNewTermRacingWrite(atoi(f[1]), atoi(f[2]))
	case "CWNT": // client write stopped before its WAL append, NewTerm, then the append
		h.doWriteRacingNewTerm(atoi(f[1]), atoi(f[2]))
	case "LS":
		h.doLeaderSync()
	case "DS":
		h.doDeleteShard(atoi(f[1]))
	case "KL":
		h.doKill(int(atoi(f[1])), false)
	}
}

func runScript(o *hx.Out, actions string, logs string, key string) {
	h := newH(o)
	h.loadLeaderLogs(logs)
	for _, a := range strings.Split(actions, ";") {
		if h.fatal != "" {
			break
		}
		h.exec(a)
		h.checkFence(a)
		h.settle()
	}
	finish(o, h, key)
}

// the schedules behind the design-time observations O-3, O-4, O-5 (+ the in-flight sync round) and the leader half
var builtin = [][2]string{
	// O-3: follower holds entries of a dead term 4 at/below the safe offset
	{"NT:2;RO:1:2;AP:1:2:0:1:-1;AP:1:2:1:2:-1;SE:1;BR:1;NT:4;RO:2:4;AP:2:4:2:3:-1;AP:2:4:3:4:-1;SE:2;BR:2;NT:6;TR:6:2:3;RO:3:6;AP:3:6:4:9:-1;SE:3",
		"2=ok=2:0:1,2:1:2/4=ok=2:0:1,2:1:2,4:2:3,4:3:4/6=ok=2:0:1,2:1:2,2:2:7,2:3:8,6:4:9"},
	// O-4: duplicate of an appended-but-unsynced entry
	{"NT:2;RO:1:2;AP:1:2:0:1:-1;AP:1:2:0:1:-1;SE:1", "2=ok=2:0:1"},
	// O-5: NewTerm between append and sync; the next leader's different entry at that offset is shadowed
	// (a leader that is told the true head (2,0) would truncate first: its log is marked as not honest)
	{"NT:2;RO:1:2;AP:1:2:0:1:-1;NT:4;SE:1;BR:1;RO:2:4;AP:2:4:0:5:-1;SE:2", "2=ok=2:0:1/4=bad=4:0:5"},
	// in-flight sync round completing after NewTerm, truncation and new entries
	{"NT:2;RO:1:2;AP:1:2:0:1:-1;AP:1:2:1:2:-1;NT:4;TR:4:-1:-1;RO:2:4;AP:2:4:0:5:-1;AP:2:4:1:6:-1;SE:1;SE:2", "2=ok=2:0:1,2:1:2/4=ok=4:0:5,4:1:6"},
	// leader: writes in flight (appended, sync pending) when NewTerm arrives; write racing NewTerm
	{"NT:2;BL:2;CW:1;LS;CW:2;CW:3;NT:4;LS;BL:4;CW:4;CWNT:5:6;LS;NT:8;BL:8;CW:6;LS", "-"},
	// NewTerm's flush must be in the same critical section as the head report: an Append of the old term handled between
	// the two is missed by the report, becomes durable later and shadows the new leader's entry at that offset
	{"NT:2;RO:1:2;AP:1:2:0:1:-1;SE:1;NTAP:4:1:2:1:2;BR:1;RO:2:4;AP:2:4:1:7:-1;SE:2", "2=ok=2:0:1,2:1:2/4=ok=2:0:1,4:1:7"},
	// ... same for the leader controller: a client write accepted between NewTerm's flush and its critical section
	{"NT:2;BL:2;CW:1;LS;NTCW:4:2;LS;BL:4;CW:3;LS", "-"},
	// one handler parked at a WAL call it makes, another request delivered there: Truncate's scan / cut vs NewTerm,
	// NewTerm's head read vs Append, Append vs NewTerm (the controller lock must cover each handler's check-and-act)
	{"NT:2;RO:1:2;AP:1:2:0:1:-1;AP:1:2:1:2:-1;AP:1:2:2:3:-1;AP:1:2:3:4:-1;SE:1;BR:1;NT:4;RACE/TR:4:2:1/rev/NT:6;NT:6", "2=ok=2:0:1,2:1:2,2:2:3,2:3:4/4=bad=/6=bad="},
	{"NT:2;RO:1:2;AP:1:2:0:1:-1;AP:1:2:1:2:-1;AP:1:2:2:3:-1;SE:1;BR:1;NT:4;RACE/TR:4:2:0/read2/NT:6;RACE/TR:6:2:0/trunc/NT:8;NT:8", "2=ok=2:0:1,2:1:2,2:2:3/4=bad=/6=bad=/8=bad="},
	{"NT:2;RO:1:2;AP:1:2:0:1:-1;SE:1;RACE/NT:4/rev/AP:1:2:1:2:-1;RACE/NT:6/read/TR:4:2:0;BR:1;RO:2:6;RACE/AP:2:6:1:7:-1/append/NT:8;SE:2", "2=ok=2:0:1,2:1:2/4=bad=/6=ok=2:0:1,6:1:7/8=bad="},
	// restart after a truncation followed by appends of the same size: the log that comes back is the log that was there
	{"NT:2;RO:1:2;AP:1:2:0:1:-1;AP:1:2:1:2:-1;AP:1:2:2:3:-1;AP:1:2:3:4:-1;AP:1:2:4:5:-1;SE:1;BR:1;NT:4;TR:4:2:1;RO:2:4;AP:2:4:2:21:-1;SE:2;BR:2;CR:0;NT:6;RO:3:6;AP:3:6:3:22:-1;AP:3:6:4:23:-1;SE:3;CR:0;NT:8",
		"2=ok=2:0:1,2:1:2,2:2:3,2:3:4,2:4:5/4=ok=2:0:1,2:1:2,4:2:21/6=ok=2:0:1,2:1:2,4:2:21,6:3:22,6:4:23/8=bad="},
	// snapshot installs that fail (before the first chunk, after it, with a chunk of another term), followed by NewTerm,
	// Replicate, Truncate, another snapshot, a restart; the last one loses the stored term (known finding)
	{"NT:2;RO:1:2;AP:1:2:0:1:-1;AP:1:2:1:2:-1;SE:1;BR:1;SN:2:2:1:1;NT:2;SN:3:2:1:2;NT:4;SN:4:4:2:3;TR:4:-1:-1;RO:5:4;SN:6:4:1;NT:6;SN:7:6:2;CR:0;NT:8",
		"2=ok=2:0:1,2:1:2/4=bad=/6=bad=/8=bad="},
	{"NT:6;TR:6:-1:-1;SN:1:6:0:2;CR:0;NT:2;NT:8", "6=bad=/2=bad=/8=bad="},
	{"NT:2;RO:1:2;AP:1:2:0:1:-1;SE:1;BR:1;RACE/SN:2:2:1/recv1/NT:4;RACE/SN:3:4:1/recv2/NT:6;NT:6", "2=ok=2:0:1/4=bad=/6=bad="},
	// DeleteShard through the director in each residency state: not loaded (after a restart), loaded as follower, as leader;
	// older terms are refused, the current term removes the shard
	{"NT:6;TR:6:-1:-1;RO:1:6;AP:1:6:0:1:-1;SE:1;CR:0;DS:4;NT:4;NT:6;TR:6:6:0;DS:2;NT:8;BL:8;CW:2;LS;DS:6;NT:8;DS:8;NT:2;BL:2;CW:3;LS",
		"6=ok=6:0:1/4=bad=/8=bad=/2=bad="},
	// a Truncate of the same term is refused once the node follows (with a stream, without, after acks)
	{"NT:2;TR:2:-1:-1;TR:2:-1:-1;RO:1:2;AP:1:2:0:1:-1;AP:1:2:1:2:-1;SE:1;TR:2:2:0;BR:1;TR:2:2:0;TR:2:-1:-1;RO:2:2;AP:2:2:2:3:-1;SE:2",
		"2=ok=2:0:1,2:1:2,2:2:3"},
	// residual hole of one-round truncation by entry id (known finding): follower [a(2);b(2);c(2);d(6)] vs
	// leader [x(4);w(8)]: the honest request (4,0) leaves a,b,c which the leader does not have
	{"NT:2;RO:1:2;AP:1:2:0:1:-1;AP:1:2:1:2:-1;AP:1:2:2:3:-1;SE:1;BR:1;NT:6;RO:2:6;AP:2:6:3:4:-1;SE:2;BR:2;NT:10;TR:10:4:0;RO:3:10;AP:3:10:2:13:-1;AP:3:10:3:14:-1;SE:3",
		"2=ok=2:0:1,2:1:2,2:2:3/6=ok=2:0:1,2:1:2,2:2:3,6:3:4/10=ok=4:0:11,8:1:12,10:2:13,10:3:14"},
	// role changes: leader -> follower for the same term only; restart
	{"NT:2;BL:2;CW:1;LS;RO:1:4;TR:4:0:0;NT:4;RO:2:2;TR:4:2:0;RO:3:4;AP:3:4:1:7:-1;SE:3;CR:0;NT:4;NT:6;BL:6;CW:9;CR:3;NT:8", "4=bad=2:0:1,4:1:7"},
}

// ---------------------------------------------------------------- truncateFollowerIfNeeded

type truncRpc struct{ got *proto.EntryId }

func (t *truncRpc) Close() error { return nil }
func (t *truncRpc) GetReplicateStream(context.Context, string, string, int64, int64) (proto.OxiaLogReplication_ReplicateClient, error) {
	return nil, fmt.Errorf("unused")
}
func (t *truncRpc) SendSnapshot(context.Context, string, string, int64, int64) (proto.OxiaLogReplication_SendSnapshotClient, error) {
	return nil, fmt.Errorf("unused")
}
func (t *truncRpc) Truncate(_ string, req *proto.TruncateRequest) (*proto.TruncateResponse, error) {
	t.got = req.HeadEntryId
	return &proto.TruncateResponse{HeadEntryId: req.HeadEntryId}, nil
}

func runTrunc(o *hx.Out, terms []int64, lt, lo, ft, fo int64) {
	base := os.Getenv("VERIF_TMP")
	if base == "" {
		base = "/var/tmp"
	}
	dir, err := os.MkdirTemp(base, "trunc-")
	hx.Must(err)
	defer os.RemoveAll(dir)
	wf := wal.NewWalFactory(&wal.FactoryOptions{BaseWalDir: dir, SegmentSize: 64 * 1024, Retention: time.Hour, SyncData: false})
	w, err := wf.NewWal(namespace, 0, nil)
	hx.Must(err)
	var ts []string
	for i, t := range terms {
		hx.Must(w.Append(&proto.LogEntry{Term: t, Offset: int64(i), Value: makeValue(int64(i)), Timestamp: 1}))
		ts = append(ts, strconv.FormatInt(t, 10))
	}
	rpc := &truncRpc{}
	var res string
	err = safe(func() error {
		hd, err := server.VerifTruncateDecision(w, rpc, 99, &proto.EntryId{Term: lt, Offset: lo}, "f", &proto.EntryId{Term: ft, Offset: fo})
		switch {
		case err != nil && errKind(err) == "err:status":
			res = "invalid"
		case err != nil:
			res = errKind(err)
		case rpc.got != nil:
			res = fmt.Sprintf("trunc:%d:%d", rpc.got.Term, rpc.got.Offset)
		default:
			res = fmt.Sprintf("none:%d:%d", hd.Term, hd.Offset)
		}
		return nil
	})
	if err != nil {
		res = "panic"
	}
	_ = w.Close()
	tl := "-"
	if len(ts) > 0 {
		tl = strings.Join(ts, ",")
	}
	in := fmt.Sprintf("%s %d:%d %d:%d", tl, lt, lo, ft, fo)
	// the specification of the decision, evaluated on the implementation's answer
	if *focus == "c03" && strings.HasPrefix(res, "none") && !headConsistent(mkLog(terms...), ft, fo) {
		o.Violation("attach:no-truncate-although-head-not-in-leader-log", fmt.Sprintf(
			"truncateFollowerIfNeeded(leader terms [%s], leader head (%d,%d), follower head (%d,%d)) sent no Truncate although the leader holds no entry of term %d at an offset >= %d",
			tl, lt, lo, ft, fo, ft, fo))
	}
	o.Case("trunc", in, res, in)
	o.Count("trunc:" + strings.SplitN(res, ":", 2)[0])
}

func genTrunc(o *hx.Out, r *hx.Rng) {
	n := r.Intn(9)
	var terms []int64
	t := int64(r.Intn(3))
	for i := 0; i < n; i++ {
		if r.Chance(40) {
			t += int64(1 + r.Intn(2))
		}
		terms = append(terms, t)
	}
	lt, lo := int64(-1), int64(-1)
	if n > 0 {
		lt, lo = terms[n-1], int64(n-1)
	}
	ft := int64(r.Intn(int(t)+3)) - 1
	fo := int64(r.Intn(n+3)) - 1
	if r.Chance(30) && n > 0 {
		i := r.Intn(n)
		ft, fo = terms[i], int64(i)
	}
	runTrunc(o, terms, lt, lo, ft, fo)
}

func main() {
	f := hx.ParseFlags()
	o := hx.NewOut(f.OutDir)
	defer o.Close()
	r := hx.NewRng(f.Seed)
	t0 := time.Now()
	lap := func(what string) { // VERIF_NODE_TIMING=1: where the time goes
		if os.Getenv("VERIF_NODE_TIMING") != "" {
			fmt.Fprintf(os.Stderr, "%-28s %6.2fs\n", what, time.Since(t0).Seconds())
		}
		t0 = time.Now()
	}

	lines := hx.CorpusLines(f.Corpus)
	if f.Replay != "" {
		lines = hx.ReadLines(f.Replay)
	}
	for _, line := range lines {
		t := strings.Fields(line)
		switch {
		case t[0] == "sched" && len(t) >= 4:
			logs := "-"
			if len(t) >= 5 {
				logs = t[4]
			}
			runScript(o, t[3], logs, "schedules:replayed")
		case t[0] == "trunc" && len(t) >= 5:
			var terms []int64
			if t[2] != "-" {
				for _, s := range strings.Split(t[2], ",") {
					terms = append(terms, atoi(s))
				}
			}
			l := strings.Split(t[3], ":")
			fo := strings.Split(t[4], ":")
			runTrunc(o, terms, atoi(l[0]), atoi(l[1]), atoi(fo[0]), atoi(fo[1]))
		}
	}
	if f.Replay != "" {
		return
	}
	lap("corpus")
	for _, b := range builtin {
		runScript(o, b[0], b[1], "schedules:builtin")
	}
	lap("builtin")
	for i := 0; i < f.N; i++ {
		steps := 25 + r.Intn(30)
		runGenerated(o, r.Fork(), steps)
	}
	lap("generated")
	// decisions at the boundary of the two "no truncation needed" tests
	runTrunc(o, []int64{1, 1, 3, 3}, 3, 3, 2, 1)
	runTrunc(o, []int64{1, 1, 3, 3}, 3, 3, 1, 1)
	runTrunc(o, []int64{1, 1, 3, 3}, 3, 3, 1, 2)
	runTrunc(o, []int64{1, 1, 3, 3}, 3, 3, 2, 5)
	runTrunc(o, []int64{2, 2}, 2, 1, 0, 0)
	for i := 0; i < f.N/2+10; i++ {
		genTrunc(o, r)
	}
	lap("trunc")
	// snapshot install as a multi-step operation with faults and concurrent requests (spec verdicts only)
	runSnapFailThenNewTerm(o, 2)
	runSnapFailThenNewTerm(o, 3)
	runSnapshotVsBusyApply(o)
	lap("snapshot scenarios")
	// kill -9 at the moment of an answer: the node goes on from an image of its directories
	for _, kind := range []int{0, 1} {
		runKillAfterNewTerm(o, false, kind)
		runKillAfterNewTerm(o, true, kind)
	}
	runAppendDuringFlush(o)
	lap("kill scenarios")
	for i := 0; i < f.N/5+2; i++ {
		runGeneratedKills(o, r.Fork(), 25+r.Intn(25))
	}
	lap("generated with kills")
	// leader attaches a real follower: decision + replication end to end
	if *focus == "c03" {
		runAttach(o, mkLog(1, 2), mkLog(1, 1, 3, 3), 4)
		runAttach(o, mkLog(1), mkLog(1, 1, 3), 4)
		runAttach(o, mkLog(1, 1, 1), mkLog(1, 1, 3), 4)
		runAttach(o, nil, mkLog(1, 2), 4)
		runAttach(o, mkLog(1, 1, 2, 2), mkLog(1, 1, 2, 2, 2, 5), 6)
		lap("attach")
		// leader with followers held by the harness, client contexts cancelled at every stage: the leader's applied state
		for _, sc := range [][2]string{
			{"2", "W:0;A:0;W:2;A:0;W:0;A:0;W:0;A:0"},
			{"2", "W:1;A:0;W:0;A:0;W:3;A:0;W:0;A:0"},
			{"2", "W:0;W:2;W:1;W:0;A:0;A:0;A:0;A:0;W:0;A:0;RL"},
			{"2", "W:0;A:0;W:2;A:0;RL;W:0"},
			{"3", "W:0;A:1;A:0;W:2;A:0;W:0;A:1;A:1;A:0;W:0;A:1;A:0"},
			{"3", "W:2;W:2;A:1;A:1;W:0;A:0;A:0;A:0;A:1;RL"},
		} {
			runLeaderWithFollowers(o, int(atoi(sc[0])), sc[1])
		}
		for i := 0; i < f.N/10+4; i++ {
			rf := 2 + r.Intn(2)
			runLeaderWithFollowers(o, rf, genLeaderScript(r.Fork(), rf))
		}
		lap("leader with held followers")
	}
}
