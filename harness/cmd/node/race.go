// Generic handler races: the handler of one request (the primary) is parked at one of the WAL calls it makes, and a second
// request is delivered at that point.  Whether the second request can run is decided by probing the controller lock with a
// read-only request (GetStatus) under a bounded wait: if the primary's handler holds the lock the second request is delivered
// after the primary finished (counted, no alarm); if the lock is free it is delivered right there and completes before the
// primary resumes, and the realised order (secondary, primary) is what the model and the monitors get.
package main

import (
	"bytes"
	"context"
	"runtime"
	"strconv"
	"strings"
	"sync"
	"time"

	"github.com/oxia-db/oxia/proto"
)

func curGID() int64 {
	var buf [64]byte
	n := runtime.Stack(buf[:], false)
	f := bytes.Fields(buf[:n])
	if len(f) < 2 {
		return -1
	}
	id, _ := strconv.ParseInt(string(f[1]), 10, 64)
	return id
}

type callPark struct {
	gid              int64
	kind             string
	n                int
	arrived, release chan struct{}
}

var parkMu sync.Mutex

// onCall: a WAL call of the given kind is about to be made
func (h *H) onCall(kind string) {
	parkMu.Lock()
	p := h.callPark
	if p == nil || p.kind != kind {
		parkMu.Unlock()
		return
	}
	if curGID() != p.gid {
		parkMu.Unlock()
		return
	}
	p.n--
	if p.n > 0 {
		parkMu.Unlock()
		return
	}
	h.callPark = nil
	parkMu.Unlock()
	close(p.arrived)
	<-p.release
}

// doRace: "RACE/<primary action>/<call kind>[<n>]/<secondary action>"
func (h *H) doRace(primary, at, secondary string) {
	kind := strings.TrimRight(at, "0123456789")
	n := 1
	if len(kind) < len(at) {
		n = int(atoi(at[len(kind):]))
	}
	h.racing = true
	defer func() { h.racing = false }()
	pk := &callPark{kind: kind, n: n, arrived: make(chan struct{}), release: make(chan struct{})}
	pDone := make(chan struct{})
	go func() {
		defer close(pDone)
		pk.gid = curGID()
		parkMu.Lock()
		h.callPark = pk
		parkMu.Unlock()
		h.exec(primary)
		parkMu.Lock()
		if h.callPark == pk {
			h.callPark = nil
		}
		parkMu.Unlock()
	}()
	select {
	case <-pDone: // the handler never made that call
		h.o.Count("race:primary-did-not-reach-the-call")
		h.checkFence(primary)
		h.exec(secondary)
		h.checkFence(secondary)
		return
	case <-pk.arrived:
	}
	probe := make(chan struct{})
	go func() {
		_, _ = h.rpc.GetStatus(context.Background(), &proto.GetStatusRequest{Shard: shardId})
		close(probe)
	}()
	select {
	case <-probe:
		h.o.Count("race:lock-free-at-" + kind + "(secondary delivered inside the primary)")
		h.exec(secondary)
		h.checkFence(secondary)
		close(pk.release)
		<-pDone
		h.checkFence(primary)
	case <-time.After(raceWait):
		h.o.Count("race:handler-holds-the-lock-at-" + kind)
		close(pk.release)
		<-pDone
		<-probe
		h.checkFence(primary)
		h.exec(secondary)
		h.checkFence(secondary)
	}
}
