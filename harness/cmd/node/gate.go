// Gating wrappers owned by the harness: a wal.Factory/wal.Wal wrapper that blocks the follower's sync
// goroutine inside Sync until the schedule releases it and that holds the leader's sync callbacks,
// and an in-process replicate stream whose context tells the harness when the sync goroutine parks.
package main

import (
	"context"
	"errors"
	"fmt"
	"io"
	"strconv"
	"sync"
	"sync/atomic"
	"time"

	"google.golang.org/grpc/metadata"
	pb "google.golang.org/protobuf/proto"

	"github.com/oxia-db/oxia/proto"
	"github.com/oxia-db/oxia/server"
	"github.com/oxia-db/oxia/server/wal"
)

type ent struct{ term, off, pay int64 }

func (e ent) String() string {
	return strconv.FormatInt(e.term, 10) + ":" + strconv.FormatInt(e.off, 10) + ":" + strconv.FormatInt(e.pay, 10)
}

func makeValue(pay int64) []byte {
	v := &proto.LogEntryValue{Value: &proto.LogEntryValue_Requests{Requests: &proto.WriteRequests{Writes: []*proto.WriteRequest{
		{Puts: []*proto.PutRequest{{Key: "k", Value: payBytes(pay)}}}}}}}
	b, err := pb.Marshal(v)
	if err != nil {
		panic(err)
	}
	return b
}

// payBytes: payload ids are written with a fixed width, so that entries have the same encoded size and record
// boundaries line up again after a truncation followed by new appends
func payBytes(pay int64) []byte { return []byte(fmt.Sprintf("%08d", pay)) }

func payOf(value []byte) int64 {
	v := &proto.LogEntryValue{}
	if err := pb.Unmarshal(value, v); err != nil {
		return -1
	}
	ws := v.GetRequests().GetWrites()
	if len(ws) == 0 || len(ws[0].Puts) == 0 {
		return -1
	}
	p, err := strconv.ParseInt(string(ws[0].Puts[0].Value), 10, 64)
	if err != nil {
		return -1
	}
	return p
}

// ---------------------------------------------------------------- WAL wrapper

const (
	relOK = iota
	relCancelSync
	relCancelNoSync
)

type arrival struct {
	sh  *streamH
	old int64
	rel chan int
}

type pendingWrite struct {
	seq int
	off int64
	cb  func(error)
}

type walEvents interface {
	onNewWal(g *gateWal)
	onAppended(g *gateWal, e ent, leader bool)
	onTruncated(g *gateWal, head int64)
	onCleared(g *gateWal)
	// onCall is invoked before every WAL call (kind: append, appendsync, sync, trunc, rev, reader, read, last, first, clear):
	// the schedule can park the handler that makes the call right there
	onCall(kind string)
	// onFlush is the hook of the WAL's current segment: "cur.Flush:pre" / "cur.Flush:post"
	onFlush(point string)
}

type gateFactory struct {
	inner wal.Factory
	ev    walEvents
}

func (f *gateFactory) Close() error { return f.inner.Close() }
func (f *gateFactory) NewWal(namespace string, shard int64, p wal.CommitOffsetProvider) (wal.Wal, error) {
	w, err := f.inner.NewWal(namespace, shard, p)
	if err != nil {
		return nil, err
	}
	g := &gateWal{inner: w, ev: f.ev, arrivals: make(chan *arrival, 64)}
	g.instrument()
	f.ev.onNewWal(g)
	return g, nil
}

type gateWal struct {
	inner    wal.Wal
	ev       walEvents
	arrivals chan *arrival

	mu       sync.Mutex
	pending  []pendingWrite
	writeSeq int           // set by the harness before a client write
	gateA    chan struct{} // when non-nil, AppendAndSync blocks here first
	atGateA  chan struct{}
	lastTag  int
	park     *parkT
}

func (g *gateWal) Close() error { return g.inner.Close() }

// instrument (re-)installs the Flush hook on the current segment (rollover, truncation and clear replace the segment)
func (g *gateWal) instrument() { wal.VerifInstrumentFlush(g.inner, g.ev.onFlush) }
func (g *gateWal) Append(e *proto.LogEntry) error {
	err := g.inner.Append(e)
	if err == nil {
		g.ev.onAppended(g, ent{e.Term, e.Offset, payOf(e.Value)}, false)
	}
	return err
}
func (g *gateWal) AppendAsync(e *proto.LogEntry) error {
	g.ev.onCall("append")
	err := g.inner.AppendAsync(e)
	g.instrument()
	if err == nil {
		g.ev.onAppended(g, ent{e.Term, e.Offset, payOf(e.Value)}, false)
	}
	return err
}
func (g *gateWal) AppendAndSync(e *proto.LogEntry, cb func(error)) {
	g.mu.Lock()
	ga, at := g.gateA, g.atGateA
	g.mu.Unlock()
	if ga != nil {
		close(at)
		<-ga
	}
	g.ev.onCall("appendsync")
	g.mu.Lock()
	seq := g.writeSeq
	g.mu.Unlock()
	err0 := g.inner.AppendAsync(e)
	g.instrument()
	if err := err0; err != nil {
		g.mu.Lock()
		g.lastTag = seq
		g.mu.Unlock()
		writeOffsets.Store(seq, e.Offset)
		cb(err)
		return
	}
	writeOffsets.Store(seq, e.Offset)
	g.ev.onAppended(g, ent{e.Term, e.Offset, payOf(e.Value)}, true)
	g.mu.Lock()
	g.pending = append(g.pending, pendingWrite{seq: seq, off: e.Offset, cb: cb})
	g.mu.Unlock()
}

// offsets the leader assigned to the client writes, by harness sequence number
var writeOffsets sync.Map

func (g *gateWal) flushPending(err error) {
	g.mu.Lock()
	p := g.pending
	g.pending = nil
	g.mu.Unlock()
	for _, w := range p {
		w.cb(err)
	}
}

type sidKey struct{}

func (g *gateWal) Sync(ctx context.Context) error {
	if sh, ok := ctx.Value(sidKey{}).(*streamH); ok {
		a := &arrival{sh: sh, old: g.inner.LastOffset(), rel: make(chan int, 1)}
		g.arrivals <- a
		switch <-a.rel {
		case relOK:
			err := g.inner.Sync(context.Background())
			g.flushPending(err)
			return err
		case relCancelSync:
			_ = g.inner.Sync(context.Background())
			return sh.probe
		default:
			return sh.probe
		}
	}
	err := g.inner.Sync(ctx)
	g.flushPending(err)
	// a NewTerm whose own Sync is to be parked (right after the flush, before it goes on)
	g.mu.Lock()
	pk := g.park
	g.park = nil
	g.mu.Unlock()
	if pk != nil {
		close(pk.arrived)
		<-pk.release
	}
	g.ev.onCall("sync")
	return err
}

type parkT struct{ arrived, release chan struct{} }

func (g *gateWal) armPark() *parkT {
	pk := &parkT{arrived: make(chan struct{}), release: make(chan struct{})}
	g.mu.Lock()
	g.park = pk
	g.mu.Unlock()
	return pk
}
func (g *gateWal) disarmPark() {
	g.mu.Lock()
	g.park = nil
	g.mu.Unlock()
}

// leaderSync is the completion of the WAL's background sync for the leader's AppendAndSync calls.
func (g *gateWal) leaderSync() {
	err := g.inner.Sync(context.Background())
	g.flushPending(err)
}

func (g *gateWal) nPending() int {
	g.mu.Lock()
	defer g.mu.Unlock()
	return len(g.pending)
}

func (g *gateWal) TruncateLog(o int64) (int64, error) {
	g.ev.onCall("trunc")
	h, err := g.inner.TruncateLog(o)
	g.instrument()
	if err == nil {
		g.ev.onTruncated(g, h)
	}
	return h, err
}

type gateReader struct {
	inner wal.Reader
	ev    walEvents
}

func (r *gateReader) Close() error  { return r.inner.Close() }
func (r *gateReader) HasNext() bool { return r.inner.HasNext() }
func (r *gateReader) ReadNext() (*proto.LogEntry, error) {
	r.ev.onCall("read")
	return r.inner.ReadNext()
}

func (g *gateWal) NewReader(after int64) (wal.Reader, error) {
	g.ev.onCall("reader")
	r, err := g.inner.NewReader(after)
	if err != nil {
		return nil, err
	}
	return &gateReader{r, g.ev}, nil
}
func (g *gateWal) NewReverseReader() (wal.Reader, error) {
	g.ev.onCall("rev")
	r, err := g.inner.NewReverseReader()
	if err != nil {
		return nil, err
	}
	return &gateReader{r, g.ev}, nil
}
func (g *gateWal) LastOffset() int64  { g.ev.onCall("last"); return g.inner.LastOffset() }
func (g *gateWal) FirstOffset() int64 { g.ev.onCall("first"); return g.inner.FirstOffset() }
func (g *gateWal) Clear() error {
	g.ev.onCall("clear")
	err := g.inner.Clear()
	g.instrument()
	if err == nil {
		g.ev.onCleared(g)
	}
	return err
}
func (g *gateWal) Delete() error {
	err := g.inner.Delete()
	if err == nil {
		g.ev.onCleared(g)
	}
	return err
}

// ---------------------------------------------------------------- stream mock

// probeErr is the error a dead stream hands to the controller; errors.Is on it (closeStream classifies
// the error under the controller lock) tells the harness that the goroutine reached closeStream.
type probeErr struct {
	base  error
	fired chan struct{}
	once  sync.Once
}

func newProbe(base error) *probeErr { return &probeErr{base: base, fired: make(chan struct{})} }
func (p *probeErr) Error() string   { return p.base.Error() }
func (p *probeErr) Is(t error) bool {
	p.once.Do(func() { close(p.fired) })
	return t == p.base
}

type ackRec struct {
	sid int
	off int64
}

type streamH struct {
	sid   int
	term  int64
	h     *H
	fc    server.FollowerController
	gw    *gateWal
	ctx   *streamCtx
	probe *probeErr
	idle  chan struct{} // one token per time the sync goroutine enters syncCond.Wait
	done  chan error    // Replicate returned
	park  chan struct{} // Recv blocks here for ever

	returned  atomic.Bool
	openTerm  int64
	recvAlive bool
	syncState int // 0 dead, 1 idle, 2 busy
	arr       *arrival
}

type streamCtx struct {
	parent context.Context
	cancel context.CancelFunc
	sh     *streamH
}

func (c *streamCtx) Deadline() (time.Time, bool) { return time.Time{}, false }
func (c *streamCtx) Done() <-chan struct{} {
	select {
	case c.sh.idle <- struct{}{}:
	default:
	}
	return c.parent.Done()
}
func (c *streamCtx) Err() error {
	if c.parent.Err() != nil {
		return c.sh.probe
	}
	return nil
}
func (c *streamCtx) Value(k any) any {
	if _, ok := k.(sidKey); ok {
		return c.sh
	}
	return c.parent.Value(k)
}

func (h *H) newStream(sid int, term int64) *streamH {
	sh := &streamH{sid: sid, term: term, h: h, probe: newProbe(context.Canceled),
		idle: make(chan struct{}, 16), done: make(chan error, 1), park: make(chan struct{})}
	md := metadata.Pairs("shard-id", strconv.FormatInt(shardId, 10), "namespace", namespace,
		"term", strconv.FormatInt(term, 10))
	parent, cancel := context.WithCancel(metadata.NewIncomingContext(context.Background(), md))
	sh.ctx = &streamCtx{parent: parent, cancel: cancel, sh: sh}
	return sh
}

func (s *streamH) Send(a *proto.Ack) error {
	s.h.onAck(s, a.Offset)
	return nil
}
func (s *streamH) Recv() (*proto.Append, error) {
	<-s.park
	return nil, io.EOF
}
func (s *streamH) SetHeader(metadata.MD) error  { return nil }
func (s *streamH) SendHeader(metadata.MD) error { return nil }
func (s *streamH) SetTrailer(metadata.MD)       {}
func (s *streamH) Context() context.Context     { return s.ctx }
func (s *streamH) SendMsg(any) error            { return errors.New("not implemented") }
func (s *streamH) RecvMsg(any) error            { return errors.New("not implemented") }

func waitCh(ch <-chan struct{}, d time.Duration) bool {
	select {
	case <-ch:
		return true
	default:
	}
	t := time.NewTimer(d)
	defer t.Stop()
	select {
	case <-ch:
		return true
	case <-t.C:
		return false
	}
}
