// Scenarios judged by the specification monitors alone (case kind "spec"): they advertise commit offsets, so the follower's
// apply loop runs (its timing is not part of the model), and check the node's DB against the fold of the leader's log.
package main

import (
	"bytes"
	"fmt"
	"strings"
	"time"

	"verif/harness/internal/hx"
)

func (h *H) waitApplied(target int64) bool {
	fc := h.follower()
	if fc == nil {
		return false
	}
	deadline := time.Now().Add(3 * time.Second)
	for fc.CommitOffset() < target {
		if time.Now().After(deadline) {
			return false
		}
		time.Sleep(200 * time.Microsecond)
	}
	return true
}

// checkDbFold: every entry of the leader's log of term t puts key "k"; after the node applied up to commit offset c its DB
// must hold the value of entry c, written by entry c (version id c), after c modifications since entry 0 created the key.
func (h *H) checkDbFold(t int64, where string) {
	fc := h.follower()
	ti := h.terms[t]
	if fc == nil || ti == nil {
		return
	}
	c := fc.CommitOffset()
	if c < 0 || c >= int64(len(ti.log)) {
		return
	}
	val, version, mods, found := h.kvf0.readKey("k")
	want := payBytes(ti.log[c].pay)
	if !found || !bytes.Equal(val, want) || version != c || mods != c {
		h.violate("apply:db-not-fold-of-log-prefix", fmt.Sprintf(
			"%s: the node reports commit offset %d but its DB is not the fold of the leader's log 0..%d: key k found=%v value=%q version=%d modifications=%d, expected value=%q version=%d modifications=%d",
			where, c, c, found, val, version, mods, want, c, c))
	}
}

func finishSpec(o *hx.Out, h *H, name string, mine func(sig string) bool) {
	h.checkFence("end")
	o.Case("spec", name+" "+strings.Join(h.acts, ";"), "spec-only", name)
	for sig, det := range h.viol {
		if !mine(sig) {
			o.Count("other-property-verdict:" + sig)
			continue
		}
		o.Violation(sig, det+"  [scenario "+name+": "+strings.Join(h.acts, ";")+"]")
	}
	o.Count("schedules:spec-only")
	h.killStreams(relCancelNoSync)
	h.close()
}

func mineFor(focusName string) func(string) bool {
	return func(sig string) bool {
		if focusName == "c03" {
			return strings.HasPrefix(sig, "ack:") || strings.HasPrefix(sig, "truncate:") || strings.HasPrefix(sig, "attach:") ||
				(strings.HasPrefix(sig, "restart:") && !strings.HasPrefix(sig, "restart:term-")) || strings.HasPrefix(sig, "apply:")
		}
		return strings.HasPrefix(sig, "fenced:") || strings.HasPrefix(sig, "fence:") || strings.HasPrefix(sig, "newterm:") || strings.HasPrefix(sig, "restart:term-")
	}
}

// leader log of a term: entry i has payload 1000+i (as the entries inside the snapshots the harness sends)
func specLog(h *H, t int64, terms ...int64) {
	ti := &termInfo{envOK: true}
	for i, et := range terms {
		ti.log = append(ti.log, ent{et, int64(i), 1000 + int64(i)})
	}
	h.terms[t] = ti
}

// runSnapFailThenNewTerm: a snapshot install breaks after its first chunk; NewTerm; the next leader acts on the head the node
// reports (full snapshot if it reports an empty log, plain replication otherwise); the node's DB must be the fold of the log.
func runSnapFailThenNewTerm(o *hx.Out, failMode int) {
	h := newH(o)
	specLog(h, 2, 2, 2, 2, 2)
	specLog(h, 4, 2, 2, 2, 2, 4, 4)
	h.doNewTerm(2)
	h.doReplicateOpen(1, 2)
	h.settle()
	for i := int64(0); i < 4; i++ {
		h.doAppend(1, h.terms[2].log[i], i-1)
		h.settle()
	}
	h.doSyncEnd(1)
	h.settle()
	h.waitApplied(2)
	h.checkDbFold(2, "after replicating 0..3 with commit 2")
	h.doStreamBreak(1)
	h.doSnapshot(9, 2, 3, failMode) // the leader of term 2 tries to install a snapshot; the transfer breaks
	h.doNewTerm(4)
	rep := h.reported[4]
	if rep[1] < 3 {
		// the node reports less than the leader's committed prefix: full snapshot, then the log
		h.doSnapshot(10, 4, 3, 0)
	}
	h.doReplicateOpen(2, 4)
	h.settle()
	h.doAppend(2, h.terms[4].log[4], 3)
	h.settle()
	h.doAppend(2, h.terms[4].log[5], 4)
	h.settle()
	for _, s := range h.streams {
		if s.syncState == 2 {
			h.doSyncEnd(s.sid)
			h.settle()
		}
	}
	h.waitApplied(4)
	h.checkDbFold(4, "after the failed snapshot install, NewTerm(4) and replication up to commit 4")
	finishSpec(o, h, fmt.Sprintf("snapshot-fails(%d)-then-newterm", failMode), mineFor(*focus))
}

// runSnapshotVsBusyApply: the follower's apply loop is parked inside a DB call (it holds the apply mutex); a snapshot of the
// current term arrives; NewTerm of the next term is answered; the apply loop resumes.  The fenced node's log must stay.
func runSnapshotVsBusyApply(o *hx.Out) {
	h := newH(o)
	specLog(h, 2, 2, 2, 2, 2)
	h.doNewTerm(2)
	h.doReplicateOpen(1, 2)
	h.settle()
	for i := int64(0); i < 3; i++ {
		h.doAppend(1, h.terms[2].log[i], i-1)
		h.settle()
	}
	pk := h.kvf0.armBatchPark()
	h.doSyncEnd(1) // the apply loop wakes up and starts applying entry 0
	h.settle()
	select {
	case <-pk.arrived:
	case <-time.After(3 * time.Second):
		h.kvf0.disarm()
		o.Count("spec:apply-loop-did-not-reach-the-db")
		finishSpec(o, h, "snapshot-vs-busy-apply", mineFor(*focus))
		return
	}
	h.doStreamBreak(1)
	h.racing = true
	snapDone := make(chan struct{})
	go func() {
		h.doSnapshotQuiet(9, 2, 3)
		close(snapDone)
	}()
	// the handler either waits for the apply mutex right away, or first reads (and checks) its first chunk: give it the
	// time to get there (bounded; nothing is asserted on the wait itself)
	time.Sleep(raceWait)
	h.doNewTerm(4)
	close(pk.release)
	<-snapDone
	h.checkFence("snapshot of term 2 resumed after NewTerm(4) answered")
	h.doNewTerm(4)
	finishSpec(o, h, "snapshot-vs-busy-apply", mineFor(*focus))
}

// ---- kill -9 at the moment of an answer (spec verdicts only)

// runKillAfterNewTerm: the node answers NewTerm(4) and is killed at once; restarted on the image it must still be in term 4
// and must refuse the old leader.
func runKillAfterNewTerm(o *hx.Out, leader bool, kind int) {
	h := newH(o)
	h.captureFlush = true
	specLog(h, 2, 2, 2, 2)
	if leader {
		h.doNewTerm(2)
		h.doBecomeLeader(2)
		h.doClientWrite(1000)
		h.doLeaderSync()
		h.doNewTerm(4)
		h.doKill(kind, true)
		h.doClientWrite(1001) // must be refused: fenced
		h.doBecomeLeader(2)   // a late BecomeLeader of the old term
		h.doClientWrite(1002)
		h.doLeaderSync()
	} else {
		h.doNewTerm(2)
		h.doReplicateOpen(1, 2)
		h.settle()
		h.doAppend(1, h.terms[2].log[0], -1)
		h.settle()
		h.doAppend(1, h.terms[2].log[1], -1)
		h.settle()
		h.doSyncEnd(1)
		h.settle()
		h.doNewTerm(4)
		h.doKill(kind, true)
		// the deposed leader of term 2 re-attaches and goes on
		h.doReplicateOpen(2, 2)
		h.settle()
		if s := h.streams[2]; s != nil {
			h.doAppend(2, h.terms[2].log[2], -1)
			h.settle()
			if s.syncState == 2 {
				h.doSyncEnd(2)
			}
		}
	}
	h.checkFence("after the kill")
	finishSpec(o, h, fmt.Sprintf("kill-after-newterm(leader=%v,image=%d)", leader, kind), mineFor(*focus))
}

// runAppendDuringFlush: entry 1 is appended while the flush of entry 0 is in progress; the sync round ends (acks); kill; the
// node restarts on the WAL as it was when that flush started.  Every acknowledged entry must be there.
func runAppendDuringFlush(o *hx.Out) {
	h := newH(o)
	h.captureFlush = true
	specLog(h, 2, 2, 2, 2)
	h.doNewTerm(2)
	h.doReplicateOpen(1, 2)
	h.settle()
	h.doAppend(1, h.terms[2].log[0], -1)
	h.settle() // the sync goroutine is at its wal.Sync
	pk := &parkT{arrived: make(chan struct{}), release: make(chan struct{})}
	h.mu.Lock()
	h.flushPark = pk
	h.mu.Unlock()
	seDone := make(chan struct{})
	go func() { h.doSyncEnd(1); close(seDone) }()
	select {
	case <-pk.arrived: // the segment's Flush has started (its image is taken)
		h.doAppend(1, h.terms[2].log[1], -1)
		close(pk.release)
	case <-seDone:
		o.Count("spec:flush-not-reached")
	}
	<-seDone
	h.settle()
	h.doKill(1, true)
	finishSpec(o, h, "append-during-flush-then-kill", mineFor(*focus))
}

// runGeneratedKills: a generated schedule in which the node is killed right after answers (NewTerm, sync round with acks,
// Truncate, snapshot, client write completion) and goes on from the image.
func runGeneratedKills(o *hx.Out, r *hx.Rng, steps int) {
	h := newH(o)
	h.captureFlush = true
	g := &gen{h: h, r: r, seen: -1, plan: map[int64][3]int64{}, done: map[int64]bool{}, raced: true, raced2: true}
	g.newTerm(2)
	h.settle()
	kills := 0
	for i := 0; i < steps && h.fatal == ""; i++ {
		n := len(h.acts)
		g.step()
		h.checkFence("step")
		h.settle()
		answered := false
		for j := n; j < len(h.acts) && j < len(h.outs); j++ {
			a, out := h.acts[j], h.outs[j]
			res := strings.SplitN(out, "|", 2)[0]
			switch {
			case strings.HasPrefix(a, "NT:") && strings.HasPrefix(res, "head:"),
				strings.HasPrefix(a, "TR:") && strings.HasPrefix(res, "head:"),
				strings.HasPrefix(a, "SN:") && strings.HasPrefix(res, "snap:"),
				strings.HasPrefix(a, "SE:") && strings.Split(out, "|")[1] != "-",
				strings.HasPrefix(a, "AP:") && strings.Split(out, "|")[1] != "-",
				strings.HasPrefix(a, "LS") && strings.Contains(strings.Split(out, "|")[2], "+"):
				answered = true
			}
		}
		if answered && kills < 4 && r.Chance(40) {
			kills++
			h.doKill(r.Intn(2), r.Bool())
			g.staleFirstRequest()
			// the generator's bookkeeping of streams is gone with the node
			g.nextSid += 100
			h.settle()
		}
	}
	finishSpec(o, h, "generated-with-kills", mineFor(*focus))
}
