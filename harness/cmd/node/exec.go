// Execution of one schedule, action by action, on the real controllers (through the real ShardsDirector and
// the routing of internalRpcServer), with the specification monitors evaluated on what the implementation does.
package main

import (
	"context"
	"fmt"
	"io"
	"os"
	"strings"
	"sync"
	"time"

	"google.golang.org/grpc/status"

	"github.com/oxia-db/oxia/common/concurrent"
	"github.com/oxia-db/oxia/common/constant"
	"github.com/oxia-db/oxia/proto"
	"github.com/oxia-db/oxia/server"
	"github.com/oxia-db/oxia/server/kv"
	"github.com/oxia-db/oxia/server/wal"

	"verif/harness/internal/hx"
	"verif/harness/internal/kvsafe"
)

const (
	namespace       = "default"
	shardId   int64 = 0
)

type termInfo struct {
	log   []ent // the log of the leader of this term (offset = index); grows within the term
	envOK bool  // the leader-side obligations towards this follower hold (see Node/Proofs.v, env_ok)
	stale bool  // belongs to an earlier incarnation of the node (see newIncarnation): a new leader is elected when the term comes again
}

// H is the harness side of one schedule.
type H struct {
	o   *hx.Out
	dir string

	kvf      kv.Factory
	realWf   wal.Factory
	wf       *gateFactory
	sd       server.ShardsDirector
	rpc      *server.VerifInternalRpc
	gw       *gateWal
	streams  map[int]*streamH
	callPark *callPark

	mu        sync.Mutex
	acks      []ackRec
	shadow    []ent // every entry in the WAL, including appended-but-unsynced ones
	token     bool  // syncCond holds a signal
	adv       int64 // commit offset of the last appended request
	writeRes  map[int]bool
	refused   map[int]string
	writeDone []int

	reqTerm    int64 // term of the Append request being delivered
	fencedTerm int64 // highest term for which NewTerm answered OK
	fenceOpen  bool  // no action carrying a term >= fencedTerm has been accepted since
	fenceLen   int   // len(shadow) when NewTerm answered
	terms      map[int64]*termInfo
	walBroken  bool
	snapFailed bool // a snapshot install failed after its first chunk and no NewTerm has stored the term since
	termLost   bool // ... and the node was restarted in that state
	kvf0       *capKvFactory
	// kill-at-the-answer images
	captureFlush  bool               // take an image of the WAL directory at the start of every flush
	flushTmp      string             // image taken at the start of the flush in progress
	flushImage    string             // image taken at the start of the last completed flush ("" = none / invalidated)
	flushPark     *parkT             // when set, the next flush parks right after its image was taken
	ackedEnts     map[ent]bool       // entries the node acknowledged (and that no later request removed)
	killed        bool               // the node was killed (KL) since the last answered NewTerm
	racing        bool               // a handler may outlive the request that started it (parked handler, stream closed by another request)
	reported      map[int64][2]int64 // head reported in the NewTerm response, by term
	ackedIn       map[int64]int64    // highest offset acknowledged on a stream of the term
	hasReported   map[int64]bool
	incarnation   int // see newIncarnation
	acts          []string
	outs          []string
	viol          map[string]string
	nWrites       int
	fatal         string
	probeTimeouts int
}

func scratchBase() string {
	base := os.Getenv("VERIF_TMP")
	if base == "" {
		base = "/var/tmp"
	}
	return base
}

func newH(o *hx.Out) *H {
	dir, err := os.MkdirTemp(scratchBase(), "node-")
	hx.Must(err)
	h := &H{o: o, dir: dir, streams: map[int]*streamH{}, terms: map[int64]*termInfo{}, viol: map[string]string{},
		ackedEnts: map[ent]bool{}, ackedIn: map[int64]int64{}, reported: map[int64][2]int64{}, hasReported: map[int64]bool{}, writeRes: map[int]bool{}, refused: map[int]string{}, fencedTerm: -1, adv: 0}
	hx.Must(h.openFactories())
	h.openDirector()
	return h
}

// openFactories: the KV and WAL factories of a node whose data live in h.dir
func (h *H) openFactories() error {
	inner, err := kvsafe.New(&kv.FactoryOptions{DataDir: h.dir + "/db", CacheSizeMB: 1})
	if err != nil {
		return err
	}
	h.kvf0 = &capKvFactory{Factory: inner}
	h.kvf = h.kvf0
	h.realWf = wal.NewWalFactory(&wal.FactoryOptions{BaseWalDir: h.dir + "/wal", SegmentSize: 256 * 1024, Retention: time.Hour, SyncData: true})
	h.wf = &gateFactory{inner: h.realWf, ev: h}
	return nil
}

func (h *H) openDirector() {
	h.sd = server.NewShardsDirector(server.Config{}, h.wf, h.kvf, nil)
	h.rpc = server.NewVerifInternalRpc(h.sd)
}

func (h *H) close() {
	h.killStreams(relCancelNoSync)
	_ = h.sd.Close()
	_ = h.kvf.Close()
	_ = os.RemoveAll(h.dir)
	if h.flushImage != "" {
		_ = os.RemoveAll(h.flushImage)
	}
	if h.flushTmp != "" {
		_ = os.RemoveAll(h.flushTmp)
	}
}

// ---- events from the WAL wrapper
func (h *H) onNewWal(g *gateWal) {
	h.mu.Lock()
	defer h.mu.Unlock()
	h.gw = g
	h.token = false
	h.adv = 0
	h.invalidateFlushImage() // images of an earlier WAL instance say nothing about this one
}
func (h *H) onAppended(g *gateWal, e ent, leader bool) {
	h.mu.Lock()
	defer h.mu.Unlock()
	h.shadow = append(h.shadow, e)
	if !leader {
		h.token = true
	}
	// on behalf of which term: the term of the Append request (follower) / of the entry itself (leader write)
	onBehalf := e.term
	if !leader {
		onBehalf = h.reqTerm
	}
	if onBehalf < h.fencedTerm && h.fencedTerm >= 0 {
		h.violate("fenced:wal-grew-with-old-term-entry",
			fmt.Sprintf("entry %v appended to the WAL on behalf of term %d after NewTerm(%d) answered OK", e, onBehalf, h.fencedTerm))
	}
}
func (h *H) onTruncated(g *gateWal, head int64) {
	h.mu.Lock()
	defer h.mu.Unlock()
	var s []ent
	for _, e := range h.shadow {
		if e.off <= head {
			s = append(s, e)
		} else {
			delete(h.ackedEnts, e) // removed by a request: no longer promised
		}
	}
	h.shadow = s
	h.invalidateFlushImage()
}
func (h *H) onCleared(g *gateWal) {
	h.mu.Lock()
	defer h.mu.Unlock()
	h.ackedEnts = map[ent]bool{}
	h.invalidateFlushImage()
	h.shadow = nil
}

func (h *H) violate(sig, detail string) {
	if _, ok := h.viol[sig]; !ok {
		h.viol[sig] = detail
	}
}

// onAck runs inside stream.Send: the monitors of C03/C04 on acknowledgements.
func (h *H) onAck(s *streamH, off int64) {
	h.mu.Lock()
	defer h.mu.Unlock()
	h.acks = append(h.acks, ackRec{s.sid, off})
	if cur, ok := h.ackedIn[s.term]; !ok || off > cur {
		h.ackedIn[s.term] = off
	}
	for _, e := range h.shadow {
		if e.off <= off {
			h.ackedEnts[e] = true
		}
	}
	// a negative term = a stream that does not announce its term (pre-term-metadata leaders): assumed away
	if s.term >= 0 && s.term < h.fencedTerm {
		h.violate("fenced:ack-after-newterm-for-old-term",
			fmt.Sprintf("Ack(%d) sent on the stream of term %d after NewTerm(%d) answered OK", off, s.term, h.fencedTerm))
	}
	synced := s.gw.inner.LastOffset()
	commit := s.fc.CommitOffset()
	ti := h.terms[s.term]
	for _, e := range h.shadow {
		if e.off > off {
			continue
		}
		if e.off > synced && e.off > commit {
			h.violate("ack:not-durable", fmt.Sprintf("Ack(%d) on stream of term %d while entry %v is not synced (last synced %d)",
				off, s.term, e, synced))
		}
		// (a stream without a term belongs to no particular leader: there is no leader log to compare with)
		if ti != nil && ti.envOK && s.term >= 0 {
			if e.off >= int64(len(ti.log)) || ti.log[e.off] != e {
				le := "none"
				if e.off < int64(len(ti.log)) {
					le = ti.log[e.off].String()
				}
				h.violate("ack:follower-entry-differs-from-leader",
					fmt.Sprintf("Ack(%d) to the leader of term %d: follower holds %v, leader holds %s", off, s.term, e, le))
			}
		}
	}
}

// ---- helpers
func errKind(err error) string {
	if err == nil {
		return "ok"
	}
	switch status.Code(err) {
	case constant.CodeInvalidTerm:
		return "err:term"
	case constant.CodeInvalidStatus:
		return "err:status"
	case constant.CodeLeaderAlreadyConnected:
		return "err:connected"
	case constant.CodeNodeIsNotLeader:
		return "err:notleader"
	case constant.CodeAlreadyClosed:
		return "err:closed"
	}
	s := err.Error()
	switch {
	case strings.Contains(s, "invalid next offset"):
		return "err:nextoffset"
	case strings.Contains(s, "out of bounds"):
		return "err:bounds"
	case strings.Contains(s, "entry not found"):
		return "err:notfound"
	case strings.Contains(s, "snapshot stream reset by harness"):
		return "err:stream"
	}
	return "err:other(" + strings.ReplaceAll(s, " ", "_") + ")"
}

func safe(f func() error) (err error) {
	defer func() {
		if r := recover(); r != nil {
			err = fmt.Errorf("panic: %v", r)
		}
	}()
	return f()
}

func (h *H) follower() server.FollowerController {
	f, err := h.sd.GetFollower(shardId)
	if err != nil {
		return nil
	}
	return f
}
func (h *H) leader() server.LeaderController {
	l, err := h.sd.GetLeader(shardId)
	if err != nil {
		return nil
	}
	return l
}

var statusNames = map[proto.ServingStatus]string{proto.ServingStatus_NOT_MEMBER: "notmember", proto.ServingStatus_FENCED: "fenced",
	proto.ServingStatus_FOLLOWER: "follower", proto.ServingStatus_LEADER: "leader"}

func (h *H) statusView() string {
	role := "N"
	if h.follower() != nil {
		role = "F"
	} else if h.leader() != nil {
		role = "L"
	}
	st, err := h.rpc.GetStatus(context.Background(), &proto.GetStatusRequest{Shard: shardId})
	if err != nil {
		return role + ",?"
	}
	return fmt.Sprintf("%s,%d,%s,%d,%d", role, st.Term, statusNames[st.Status], st.HeadOffset, st.CommitOffset)
}

func (h *H) drainAcks() string {
	h.mu.Lock()
	defer h.mu.Unlock()
	if len(h.acks) == 0 {
		return "-"
	}
	var p []string
	for _, a := range h.acks {
		p = append(p, fmt.Sprintf("%d:%d", a.sid, a.off))
	}
	h.acks = nil
	return strings.Join(p, ",")
}

func (h *H) drainWrites() string {
	h.mu.Lock()
	defer h.mu.Unlock()
	if len(h.writeDone) == 0 {
		return "-"
	}
	var p []string
	for _, seq := range h.writeDone {
		off := int64(-9)
		if v, ok := writeOffsets.Load(seq); ok {
			off = v.(int64)
		}
		sign := "-"
		if h.writeRes[seq] {
			sign = "+"
		}
		p = append(p, fmt.Sprintf("%d%s", off, sign))
	}
	h.writeDone = nil
	return strings.Join(p, ",")
}

// olderAccepted: "after a node has answered a new-term request for term T it never again accepts ... on behalf of any term
// lower than T": a request of kind k carrying term t was accepted
func (h *H) olderAccepted(kind string, t int64) {
	if t >= h.fencedTerm || h.fencedTerm < 0 || (kind != "DS" && t < 0) {
		return // (no NewTerm answered since the shard was created: nothing is fenced)
	}
	if h.snapFailed || h.termLost {
		// the open finding (stored term lost by a snapshot install that failed half-way) explains it
		h.violate("newterm:older-term-accepted-after-failed-snapshot-and-restart", fmt.Sprintf(
			"%s of term %d accepted after NewTerm(%d) had been answered: a snapshot install failed after its first chunk and the stored term is gone", kind, t, h.fencedTerm))
		h.fencedTerm = t // the node has forgotten the fence: the consequences are not reported again
		h.newIncarnation()
		return
	}
	h.violate("fence:older-term-request-accepted", fmt.Sprintf("%s of term %d accepted after NewTerm(%d) had been answered", kind, t, h.fencedTerm))
}

// newIncarnation: the node has forgotten the terms it had answered (its shard was deleted, or by a defect that has been
// reported): what the leaders of those terms knew about its log no longer describes it.  Their logs stop being compared; a
// term that is announced again gets a new leader (the generator follows through the counter).
func (h *H) newIncarnation() {
	h.mu.Lock()
	defer h.mu.Unlock()
	h.incarnation++
	for _, ti := range h.terms {
		ti.envOK, ti.stale = false, true
	}
	h.reported = map[int64][2]int64{}
	h.hasReported = map[int64]bool{}
	h.ackedIn = map[int64]int64{}
}

// checkTermRegress: the node is in a term lower than one it answered NewTerm for
func (h *H) checkTermRegress(view string) {
	v := strings.Split(view, ",")
	if len(v) < 2 || v[0] == "N" {
		return
	}
	term := atoi(v[1])
	if term >= h.fencedTerm || h.fencedTerm < 0 {
		return
	}
	switch {
	case h.snapFailed || h.termLost:
		h.o.Count("term-lost-after-failed-snapshot(known finding)")
	case h.killed:
		h.violate("restart:term-regressed-after-kill", fmt.Sprintf(
			"the node had answered NewTerm(%d); killed right after an answer and restarted on the image it is in term %d", h.fencedTerm, term))
	default:
		h.violate("fence:term-regressed", fmt.Sprintf("the node had answered NewTerm(%d) and is now in term %d", h.fencedTerm, term))
	}
	h.fencedTerm = term // reported once
	h.newIncarnation()
}

func (h *H) record(act, res string) {
	h.checkTermRegress(h.statusView())
	h.acts = append(h.acts, act)
	h.outs = append(h.outs, res+"|"+h.drainAcks()+"|"+h.drainWrites()+"|"+h.statusView())
}

// an action carrying term t has been accepted by the node
func (h *H) termActionAccepted(t int64) {
	if t >= h.fencedTerm {
		h.fenceOpen = false
	}
}

// "its log does not grow [or change] until it receives entries or a truncation from the leader of a term >= T"
func (h *H) checkFence(where string) {
	h.mu.Lock()
	defer h.mu.Unlock()
	if !h.fenceOpen {
		return
	}
	if len(h.shadow) != h.fenceLen {
		h.violate("fenced:log-changed-without-newer-term", fmt.Sprintf("after NewTerm(%d) answered, the log went from %d to %d entries at %s",
			h.fencedTerm, h.fenceLen, len(h.shadow), where))
		h.fenceLen = len(h.shadow)
	}
}

func (h *H) lastShadow() (ent, bool) {
	h.mu.Lock()
	defer h.mu.Unlock()
	if len(h.shadow) == 0 {
		return ent{-1, -1, 0}, false
	}
	return h.shadow[len(h.shadow)-1], true
}

// settle: a pending syncCond signal wakes one parked sync goroutine; wait for it at the Sync gate.
func (h *H) settle() {
	for {
		h.mu.Lock()
		tok := h.token
		gw := h.gw
		h.mu.Unlock()
		if !tok || gw == nil || h.follower() == nil {
			return
		}
		anyIdle := false
		for _, s := range h.streams {
			if s.syncState == 1 && s.gw == gw {
				anyIdle = true
			}
		}
		if !anyIdle {
			return
		}
		select {
		case a := <-gw.arrivals:
			a.sh.syncState = 2
			a.sh.arr = a
			h.mu.Lock()
			h.token = false
			h.mu.Unlock()
			h.record(fmt.Sprintf("SB:%d", a.sh.sid), "ok")
		case <-time.After(3 * time.Second):
			h.fatal = "schedule not realisable: no sync goroutine reached wal.Sync although syncCond was signalled"
			return
		}
	}
}

// ---- actions

func (h *H) newTermCall(t int64) (*proto.NewTermResponse, error) {
	return h.rpc.NewTerm(context.Background(), &proto.NewTermRequest{Namespace: namespace, Shard: shardId, Term: t})
}

func (h *H) doNewTerm(t int64) {
	resp, err := h.newTermCall(t)
	h.newTermRecord(t, resp, err)
}

// newTermRecord: the monitors of C04 on a NewTerm answer, and the observable of the action
func (h *H) newTermRecord(t int64, resp *proto.NewTermResponse, err error) {
	res := errKind(err)
	if err == nil {
		hd := resp.HeadEntryId
		res = fmt.Sprintf("head:%d:%d", hd.Term, hd.Offset)
		last, ok := h.lastShadow()
		if (ok && (hd.Term != last.term || hd.Offset != last.off)) || (!ok && hd.Offset != -1) {
			h.violate("newterm:head-not-end-of-log", fmt.Sprintf("NewTerm(%d) reported head (%d,%d) while the last entry of the log is (%d,%d)",
				t, hd.Term, hd.Offset, last.term, last.off))
		}
		if t < h.fencedTerm {
			// "after a node has answered a new-term request for term T it never again accepts ... a term lower than T"
			if h.termLost || h.snapFailed {
				h.violate("newterm:older-term-accepted-after-failed-snapshot-and-restart", fmt.Sprintf(
					"NewTerm(%d) answered OK after NewTerm(%d): a snapshot install failed after its first chunk (DB directory emptied, stored term gone) and the node restarted or re-created its controller", t, h.fencedTerm))
			} else {
				h.violate("newterm:older-term-accepted-after-fence", fmt.Sprintf("NewTerm(%d) answered OK after NewTerm(%d) had been answered", t, h.fencedTerm))
			}
			h.fencedTerm = t // the node has forgotten the fence: the consequences are not reported again
			h.newIncarnation()
		}
		h.snapFailed, h.termLost, h.killed = false, false, false
		if t > h.fencedTerm {
			h.fencedTerm = t
		}
		h.reported[t] = [2]int64{hd.Term, hd.Offset}
		h.hasReported[t] = true
		h.mu.Lock()
		h.fenceOpen = true
		h.fenceLen = len(h.shadow)
		h.mu.Unlock()
	}
	h.record(fmt.Sprintf("NT:%d", t), res)
}

const raceWait = 100 * time.Millisecond

// doNewTermRacingAppend: NewTerm(t) is parked right after its wal.Sync returned; an Append is delivered on the stream's
// receiving goroutine meanwhile.  Whether the Append can complete while NewTerm is parked is observed (bounded wait:
// on a controller that syncs under its lock the Append is blocked by the mutex, which is counted, not alarmed).
func (h *H) doNewTermRacingAppend(t int64, sid int, e ent) {
	sh := h.streams[sid]
	g := h.gw
	act := fmt.Sprintf("AP:%d:%d:%d:%d:%d", sid, e.term, e.off, e.pay, -1)
	if sh == nil || !sh.recvAlive || g == nil || h.follower() == nil || sh.gw != g {
		h.doNewTerm(t)
		h.doAppend(sid, e, -1)
		return
	}
	pk := g.armPark()
	type ntRes struct {
		resp *proto.NewTermResponse
		err  error
	}
	ntDone := make(chan ntRes, 1)
	go func() {
		resp, err := h.newTermCall(t)
		ntDone <- ntRes{resp, err}
	}()
	select {
	case r := <-ntDone: // answered without syncing the WAL
		g.disarmPark()
		h.newTermRecord(t, r.resp, r.err)
		h.doAppend(sid, e, -1)
		return
	case <-pk.arrived:
	}
	h.mu.Lock()
	before := len(h.shadow)
	h.mu.Unlock()
	apDone := make(chan error, 1)
	go func() { apDone <- h.appendCall(sh, e, -1) }()
	select {
	case err := <-apDone:
		// the Append was handled between NewTerm's flush and NewTerm's critical section
		h.o.Count("newterm-race:append-completed-while-newterm-parked-after-sync")
		h.appendRecord(act, sh, before, -1, err)
		close(pk.release)
		r := <-ntDone
		h.newTermRecord(t, r.resp, r.err)
	case <-time.After(raceWait):
		h.o.Count("newterm-race:append-blocked-by-controller-lock")
		close(pk.release)
		r := <-ntDone
		h.newTermRecord(t, r.resp, r.err)
		err := <-apDone
		h.appendRecord(act, sh, before, -1, err)
	}
}

// doNewTermRacingWrite: the same for the leader controller: a client write issued while NewTerm is parked after its sync.
func (h *H) doNewTermRacingWrite(t, p int64) {
	lc := h.leader()
	g := h.gw
	if lc == nil || g == nil {
		h.doNewTerm(t)
		h.doClientWrite(p)
		return
	}
	pk := g.armPark()
	type ntRes struct {
		resp *proto.NewTermResponse
		err  error
	}
	ntDone := make(chan ntRes, 1)
	go func() {
		resp, err := h.newTermCall(t)
		ntDone <- ntRes{resp, err}
	}()
	select {
	case r := <-ntDone:
		g.disarmPark()
		h.newTermRecord(t, r.resp, r.err)
		h.doClientWrite(p)
		return
	case <-pk.arrived:
	}
	cwDone := make(chan int, 1)
	go func() { cwDone <- h.clientWriteCall(lc, p) }()
	select {
	case seq := <-cwDone:
		h.o.Count("newterm-race:write-completed-while-newterm-parked-after-sync")
		h.clientWriteRecord(p, seq)
		close(pk.release)
		r := <-ntDone
		h.newTermRecord(t, r.resp, r.err)
	case <-time.After(raceWait):
		h.o.Count("newterm-race:write-blocked-by-controller-lock")
		close(pk.release)
		r := <-ntDone
		h.newTermRecord(t, r.resp, r.err)
		seq := <-cwDone
		h.clientWriteRecord(p, seq)
	}
}

func termSorted(l []ent) bool {
	for i := 1; i < len(l); i++ {
		if l[i].term < l[i-1].term {
			return false
		}
	}
	return true
}

func entLeq(e ent, t, o int64) bool { return e.term < t || (e.term == t && e.off <= o) }

func (h *H) doTruncate(t, ht, ho int64) {
	// status of the follower controller before the request (a controller created by the request starts FENCED or NOT_MEMBER)
	statusBefore := ""
	if v := strings.Split(h.statusView(), ","); v[0] == "F" && len(v) >= 3 {
		statusBefore = v[2]
	}
	h.mu.Lock()
	shadowBefore := append([]ent(nil), h.shadow...)
	ackedBefore, hasAcked := h.ackedIn[t]
	h.mu.Unlock()
	resp, err := h.rpc.Truncate(context.Background(), &proto.TruncateRequest{Namespace: namespace, Shard: shardId, Term: t,
		HeadEntryId: &proto.EntryId{Term: ht, Offset: ho}})
	res := errKind(err)
	if err == nil {
		res = fmt.Sprintf("head:%d:%d", resp.HeadEntryId.Term, resp.HeadEntryId.Offset)
		h.olderAccepted("Truncate", t)
		h.termActionAccepted(t)
		h.mu.Lock()
		// Truncate is only legal while FENCED (TLA+ NodeHandlesTruncateRequest; afterwards the node follows the leader of
		// the term and what it acknowledged must stay)
		if statusBefore != "" && statusBefore != "fenced" {
			h.violate("truncate:accepted-while-following", fmt.Sprintf(
				"Truncate(term %d, head (%d,%d)) answered OK although the node was %s (log before %v, after %v)",
				t, ht, ho, strings.ToUpper(statusBefore), shadowBefore, h.shadow))
		}
		// ... and then it may cut what the node already acknowledged to the leader it follows (a FENCED node, e.g. after a
		// restart, may legitimately be truncated by whatever the leader asks for)
		if hasAcked && statusBefore != "" && statusBefore != "fenced" {
			kept := map[ent]bool{}
			for _, e := range h.shadow {
				kept[e] = true
			}
			for _, e := range shadowBefore {
				if !kept[e] && e.off <= ackedBefore {
					h.violate("truncate:cut-acknowledged-entry", fmt.Sprintf(
						"Truncate(term %d, head (%d,%d)) removed %v although offset %d had been acknowledged to the leader of term %d (node status before: %s)",
						t, ht, ho, e, ackedBefore, t, statusBefore))
					break
				}
			}
		}
		// "what is kept is exactly what is <= the requested id" presumes a term-sorted log (entry terms non-decreasing
		// along the log), which every log produced by real leaders is; on an unsorted log (byzantine leader) no verdict
		sorted := termSorted(shadowBefore)
		if !sorted {
			h.o.Count("truncate:unsorted-log(no-verdict)")
		}
		regress := false
		for _, e := range h.shadow {
			if !sorted {
				break
			}
			if !entLeq(e, ht, ho) {
				h.violate("truncate:kept-dead-term-entries", fmt.Sprintf("Truncate(term %d, head (%d,%d)) answered OK but the log still holds %v",
					t, ht, ho, e))
				regress = true
				break
			}
		}
		// residual hole of the one-round truncation (known finding): the request is the one an honest leader sends
		// for the head this node reported, and still the node keeps entries the leader does not have
		if ti, rep := h.terms[t], h.reported[t]; ti != nil && !regress && sorted && h.hasReported[t] {
			var elect []ent
			for _, e := range ti.log {
				if e.term < t {
					elect = append(elect, e)
				}
			}
			kind, dt, do := leaderDecision(elect, rep[0], rep[1])
			if kind == "trunc" && dt == ht && do == ho && !isPrefixMatch(h.shadow, ti.log) {
				h.violate("truncate:kept-lower-term-entries-not-in-leader-log", fmt.Sprintf(
					"honest Truncate(term %d, head (%d,%d)) for reported head (%d,%d): follower keeps %v, leader log %v", t, ht, ho, rep[0], rep[1], h.shadow, ti.log))
				ti.envOK = false
			}
		}
		h.mu.Unlock()
	}
	h.record(fmt.Sprintf("TR:%d:%d:%d", t, ht, ho), res)
}

func (h *H) doReplicateOpen(sid int, t int64) {
	sh := h.newStream(sid, t)
	go func() {
		err := safe(func() error { return h.rpc.Replicate(sh) })
		sh.returned.Store(true)
		sh.done <- err
	}()
	res := ""
	select {
	case err := <-sh.done:
		res = errKind(err)
		if err == nil {
			res = "err:returned-nil"
		}
	case <-sh.idle:
		res = "ok"
		h.olderAccepted("Replicate", t)
		sh.fc = h.follower()
		sh.gw = h.gw
		sh.recvAlive = true
		sh.syncState = 1
		h.streams[sid] = sh
		sh.openTerm = sh.fc.Term()
	case <-time.After(10 * time.Second):
		h.fatal = "schedule not realisable: Replicate neither failed nor started its sync goroutine"
		return
	}
	h.record(fmt.Sprintf("RO:%d:%d", sid, t), res)
}

func (h *H) doAppend(sid int, e ent, commit int64) {
	sh := h.streams[sid]
	act := fmt.Sprintf("AP:%d:%d:%d:%d:%d", sid, e.term, e.off, e.pay, commit)
	if sh == nil || !sh.recvAlive {
		h.record(act, "imp")
		return
	}
	h.mu.Lock()
	before := len(h.shadow)
	h.mu.Unlock()
	err := h.appendCall(sh, e, commit)
	h.appendRecord(act, sh, before, commit, err)
}

// appendCall: what handleServerStream does with one received request
func (h *H) appendCall(sh *streamH, e ent, commit int64) error {
	req := &proto.Append{Term: sh.term, CommitOffset: commit,
		Entry: &proto.LogEntry{Term: e.term, Offset: e.off, Value: makeValue(e.pay), Timestamp: 1}}
	h.mu.Lock()
	h.reqTerm = sh.term
	h.mu.Unlock()
	return safe(func() error { return server.VerifFollowerAppend(sh.fc, req, sh) })
}

func (h *H) appendRecord(act string, sh *streamH, before int, commit int64, err error) {
	if err != nil {
		// handleServerStream: closeStream(err) and the receiving goroutine ends
		server.VerifFollowerCloseStream(sh.fc, err)
		sh.recvAlive = false
	} else {
		h.termActionAccepted(sh.term)
		h.mu.Lock()
		if len(h.shadow) > before {
			h.adv = commit
		}
		h.mu.Unlock()
	}
	h.record(act, errKind(err))
}

// sameTerm: the controller is still in the term it had when the stream was accepted
func (h *H) sameTerm(sh *streamH) bool {
	return sh.fc.Term() == sh.openTerm
}

func (h *H) doSyncEnd(sid int) {
	sh := h.streams[sid]
	act := fmt.Sprintf("SE:%d", sid)
	if sh == nil || sh.syncState != 2 {
		h.record(act, "imp")
		return
	}
	sh.arr.rel <- relOK
	sh.arr = nil
	if h.sameTerm(sh) {
		select {
		case <-sh.idle:
			sh.syncState = 1
		case <-time.After(10 * time.Second):
			h.fatal = "schedule not realisable: sync goroutine of the current stream did not come back to syncCond.Wait"
			return
		}
	} else {
		// the node moved to another term meanwhile: the goroutine either parks again or ends silently
		if waitCh(sh.idle, 40*time.Millisecond) {
			sh.syncState = 1
		} else {
			sh.syncState = 0
			h.o.Count("sync-end:closed-stream-goroutine-ended")
		}
	}
	h.record(act, "ok")
}

// killSync ends the sync goroutine of a stream (context cancelled) and waits until it went through closeStream.
func (h *H) killSync(sh *streamH, mode int) {
	if sh.syncState == 0 {
		return
	}
	sh.ctx.cancel()
	if sh.syncState == 2 && sh.arr != nil {
		sh.arr.rel <- mode
		sh.arr = nil
	}
	if !waitCh(sh.probe.fired, 3*time.Second) {
		h.probeTimeouts++
	}
	_, _ = sh.fc.GetStatus(&proto.GetStatusRequest{Shard: shardId}) // passes the controller lock after closeStream
	sh.syncState = 0
}

func (h *H) doStreamBreak(sid int) {
	sh := h.streams[sid]
	act := fmt.Sprintf("BR:%d", sid)
	if sh == nil || (!sh.recvAlive && sh.syncState == 0) {
		h.record(act, "imp")
		return
	}
	if sh.recvAlive {
		server.VerifFollowerCloseStream(sh.fc, io.EOF)
		sh.recvAlive = false
	}
	h.killSync(sh, relCancelSync)
	h.record(act, "ok")
}

func (h *H) killStreams(mode int) {
	for _, sh := range h.streams {
		sh.recvAlive = false
		h.killSync(sh, mode)
	}
	h.streams = map[int]*streamH{}
}

func (h *H) doCrashRestart(choice int) {
	h.killStreams(relCancelNoSync)
	if h.snapFailed {
		h.termLost = true
	}
	synced := int64(-1)
	if h.gw != nil && (h.follower() != nil || h.leader() != nil) {
		synced = h.gw.inner.LastOffset()
	} else {
		synced = -2 // no controller: everything on disk counts as synced
	}
	_ = h.sd.Close()
	raw, err := h.realWf.NewWal(namespace, shardId, nil)
	if err != nil {
		// the node cannot come back: its WAL does not reopen
		h.violate("restart:wal-unusable", fmt.Sprintf("after a clean stop the WAL does not reopen: %v (log before the stop %v)", err, h.shadow))
		h.acts = append(h.acts, "CR:0")
		h.outs = append(h.outs, "reopen-failed|-|-|N,?")
		h.walBroken = true
		h.fatal = "wal does not reopen"
		return
	}
	last, first := raw.LastOffset(), raw.FirstOffset()
	// the recovered log is the log before the stop, cut at some point at or after the synced prefix
	recovered := readWal(raw)
	h.mu.Lock()
	okPrefix := len(recovered) <= len(h.shadow)
	for i := 0; okPrefix && i < len(recovered); i++ {
		okPrefix = recovered[i] == h.shadow[i]
	}
	nSynced := 0
	for _, e := range h.shadow {
		if e.off <= synced || synced == -2 {
			nSynced++
		}
	}
	if !okPrefix || len(recovered) < nSynced {
		h.violate("restart:log-differs-from-synced-prefix", fmt.Sprintf(
			"log before the stop %v (synced up to offset %d), log after reopening %v", h.shadow, synced, recovered))
		h.shadow = append([]ent(nil), recovered...)
		synced = -2 // what came back is kept as it is: its consequences stay visible to the other monitors
	}
	h.mu.Unlock()
	if synced == -2 || synced > last {
		synced = last
	}
	// keep everything up to cut, synced <= cut <= last
	cut := last
	if last > synced {
		cut = synced + int64(choice)%(last-synced+1)
	}
	if cut < last {
		_, err = raw.TruncateLog(cut)
		hx.Must(err)
		h.onTruncated(nil, cut)
	}
	k := int64(0)
	if cut >= 0 && first >= 0 {
		k = cut - first + 1
	}
	hx.Must(raw.Close())
	h.mu.Lock()
	h.gw = nil
	h.token = false
	h.mu.Unlock()
	h.openDirector()
	h.record(fmt.Sprintf("CR:%d", k), "ok")
}

// doDeleteShard: DeleteShard through the shards director.  A refusal closes the controller that handled the request; if
// that was the loaded one it stays in the director, unusable (every later request is answered "already closed", Replicate +
// Append would run on a nil WAL): the node is then restarted, which is what the model's step says.
func (h *H) doDeleteShard(t int64) {
	h.killStreams(relCancelNoSync)
	loaded := h.follower() != nil || h.leader() != nil
	err := safe(func() error {
		_, e := h.sd.DeleteShard(&proto.DeleteShardRequest{Namespace: namespace, Shard: shardId, Term: t})
		return e
	})
	res := errKind(err)
	panicked := err != nil && strings.HasPrefix(err.Error(), "panic:")
	if panicked {
		// the process died inside DeleteShard (after the WAL was deleted): restart
		res = "err:panic"
		h.o.Count("delete-shard:process-died(nil DB after a failed snapshot install)")
		_ = safe(func() error { return h.sd.Close() })
		h.openDirector()
	}
	if err == nil || panicked {
		h.olderAccepted("DS", t)
		// the shard is gone, fence included
		h.mu.Lock()
		h.shadow = nil
		h.ackedEnts = map[ent]bool{}
		h.fenceOpen = false
		h.gw = nil
		h.token = false
		h.mu.Unlock()
		h.fencedTerm = -1
		h.snapFailed, h.termLost, h.killed = false, false, false
		h.newIncarnation()
	} else if loaded {
		_ = h.sd.Close()
		h.mu.Lock()
		h.gw = nil
		h.token = false
		h.mu.Unlock()
		h.openDirector()
		if h.snapFailed {
			h.termLost = true
		}
	}
	h.record(fmt.Sprintf("DS:%d", t), res)
}

func (h *H) doBecomeLeader(t int64) {
	_, err := h.rpc.BecomeLeader(context.Background(), &proto.BecomeLeaderRequest{Namespace: namespace, Shard: shardId, Term: t, ReplicationFactor: 1})
	if err == nil {
		h.olderAccepted("BecomeLeader", t)
		h.termActionAccepted(t)
		// this node is the leader of term t: a generated "leader log of term t" is fictitious from now on
		if ti := h.terms[t]; ti != nil {
			ti.envOK = false
		} else {
			h.terms[t] = &termInfo{envOK: false}
		}
	}
	h.record(fmt.Sprintf("BL:%d", t), errKind(err))
}

func (h *H) writeCallback(seq int) concurrent.Callback[*proto.WriteResponse] {
	return concurrent.NewOnce(func(_ *proto.WriteResponse) {
		h.mu.Lock()
		h.writeRes[seq] = true
		h.writeDone = append(h.writeDone, seq)
		if off, ok := writeOffsets.Load(seq); ok {
			for _, e := range h.shadow {
				if e.off <= off.(int64) {
					h.ackedEnts[e] = true
				}
			}
			for _, e := range h.shadow {
				if e.off == off.(int64) && e.term < h.fencedTerm {
					h.violate("fenced:write-completed-for-old-term", fmt.Sprintf("client write at %v completed OK after NewTerm(%d) answered", e, h.fencedTerm))
				}
			}
		}
		h.mu.Unlock()
	}, func(err error) {
		h.mu.Lock()
		h.writeRes[seq] = false
		if _, ok := writeOffsets.Load(seq); ok {
			h.writeDone = append(h.writeDone, seq)
		} else {
			h.refused[seq] = errKind(err) // refused before an offset was assigned
		}
		h.mu.Unlock()
	})
}

var writeSeqGen int

func (h *H) doClientWrite(p int64) {
	lc := h.leader()
	if lc == nil {
		h.record(fmt.Sprintf("CW:%d", p), "err:notleader")
		return
	}
	seq := h.clientWriteCall(lc, p)
	h.clientWriteRecord(p, seq)
}

func (h *H) clientWriteCall(lc server.LeaderController, p int64) int {
	h.mu.Lock()
	writeSeqGen++
	seq := writeSeqGen
	h.mu.Unlock()
	h.gw.mu.Lock()
	h.gw.writeSeq = seq
	h.gw.mu.Unlock()
	req := &proto.WriteRequest{Shard: pbInt64(shardId), Puts: []*proto.PutRequest{{Key: "k", Value: payBytes(p)}}}
	lc.Write(context.Background(), req, h.writeCallback(seq))
	return seq
}

func (h *H) clientWriteRecord(p int64, seq int) {
	res := "ok"
	h.mu.Lock()
	if k, refused := h.refused[seq]; refused {
		res = k
	}
	h.mu.Unlock()
	h.record(fmt.Sprintf("CW:%d", p), res)
}

func pbInt64(v int64) *int64 { return &v }

// doWriteRacingNewTerm: a client write is stopped right before the WAL append; if the controller lock is free at
// that point (offset allocated, lock released) NewTerm runs first and the append lands afterwards.
func (h *H) doWriteRacingNewTerm(p, t int64) {
	lc := h.leader()
	if lc == nil {
		h.doClientWrite(p)
		h.doNewTerm(t)
		return
	}
	writeSeqGen++
	seq := writeSeqGen
	g := h.gw
	g.mu.Lock()
	g.writeSeq = seq
	g.gateA = make(chan struct{})
	g.atGateA = make(chan struct{})
	ga, at := g.gateA, g.atGateA
	g.mu.Unlock()
	doneW := make(chan struct{})
	req := &proto.WriteRequest{Shard: pbInt64(shardId), Puts: []*proto.PutRequest{{Key: "k", Value: payBytes(p)}}}
	go func() {
		lc.Write(context.Background(), req, h.writeCallback(seq))
		close(doneW)
	}()
	select {
	case <-at:
	case <-doneW: // refused before reaching the WAL
	}
	g.mu.Lock()
	g.gateA, g.atGateA = nil, nil
	g.mu.Unlock()
	select {
	case <-doneW:
		res := "ok"
		h.mu.Lock()
		if k, refused := h.refused[seq]; refused {
			res = k
		}
		h.mu.Unlock()
		h.record(fmt.Sprintf("CW:%d", p), res)
		h.doNewTerm(t)
		return
	default:
	}
	if server.VerifLeaderLockFree(lc) {
		// offset allocation and WAL append are not one critical section: let NewTerm in between
		h.o.Count("leader:write-append-outside-lock")
		h.acts = append(h.acts, fmt.Sprintf("CW:%d", p))
		h.outs = append(h.outs, "ok|-|-|"+h.statusView())
		h.doNewTerm(t)
		close(ga)
		<-doneW
		h.checkFence("in-flight client write")
		return
	}
	close(ga)
	<-doneW
	h.record(fmt.Sprintf("CW:%d", p), "ok")
	h.doNewTerm(t)
}

func (h *H) doLeaderSync() {
	if h.leader() == nil || h.gw == nil {
		h.record("LS", "imp")
		return
	}
	h.gw.leaderSync()
	h.record("LS", "ok")
}

// finalWal closes everything and reads the WAL from the disk.
func (h *H) finalWal() string {
	h.killStreams(relCancelNoSync)
	_ = h.sd.Close()
	if h.walBroken {
		return "unreadable"
	}
	raw, err := h.realWf.NewWal(namespace, shardId, nil)
	if err != nil {
		h.violate("restart:wal-unusable", fmt.Sprintf("at the end of the schedule the WAL does not reopen: %v", err))
		return "unreadable"
	}
	defer raw.Close()
	var p []string
	if raw.FirstOffset() >= 0 {
		r, err := raw.NewReader(raw.FirstOffset() - 1)
		hx.Must(err)
		for r.HasNext() {
			e, err := r.ReadNext()
			if err != nil {
				h.violate("restart:wal-unusable", fmt.Sprintf("at the end of the schedule the WAL cannot be read back: %v", err))
				break
			}
			p = append(p, ent{e.Term, e.Offset, payOf(e.Value)}.String())
		}
		_ = r.Close()
	}
	h.openDirector()
	if len(p) == 0 {
		return "-"
	}
	return strings.Join(p, ",")
}
