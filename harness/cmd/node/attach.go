// Attach: a real LeaderController (BecomeLeader with one follower in the follower map) and a real follower node
// behind an in-process ReplicationRpcProvider.  The leader decides whether to truncate the follower
// (truncateFollowerIfNeeded), attaches a cursor and replicates its log; the follower's acks are checked against the
// leader's log entry by entry, and the decision itself is checked against the specification:
// "no Truncate sent => the leader holds an entry of the follower's head term at or after the follower's head offset".
package main

import (
	"context"
	"fmt"
	"io"
	"os"
	"strconv"
	"strings"
	"sync"
	"time"

	"google.golang.org/grpc/metadata"

	"github.com/oxia-db/oxia/proto"
	"github.com/oxia-db/oxia/server"
	"github.com/oxia-db/oxia/server/kv"
	"github.com/oxia-db/oxia/server/wal"

	"verif/harness/internal/hx"
	"verif/harness/internal/kvsafe"
)

// headConsistent is the specification of "the follower needs no truncation": its head (ft,fo) lies in the
// leader's log, i.e. (log matching) the leader holds an entry of term ft at an offset >= fo; an empty follower is fine.
func headConsistent(leader []ent, ft, fo int64) bool {
	if ft == -1 && fo == -1 {
		return true
	}
	for _, e := range leader {
		if e.term == ft && e.off >= fo {
			return true
		}
	}
	return false
}

type capFactory struct {
	inner wal.Factory
	mu    sync.Mutex
	last  wal.Wal
}

func (f *capFactory) Close() error { return f.inner.Close() }
func (f *capFactory) NewWal(ns string, shard int64, p wal.CommitOffsetProvider) (wal.Wal, error) {
	w, err := f.inner.NewWal(ns, shard, p)
	if err == nil {
		f.mu.Lock()
		f.last = w
		f.mu.Unlock()
	}
	return w, err
}
func (f *capFactory) cur() wal.Wal { f.mu.Lock(); defer f.mu.Unlock(); return f.last }

func readWal(w wal.Wal) []ent {
	var res []ent
	if w == nil || w.FirstOffset() < 0 {
		return nil
	}
	r, err := w.NewReader(w.FirstOffset() - 1)
	if err != nil {
		return nil
	}
	defer r.Close()
	for r.HasNext() {
		e, err := r.ReadNext()
		if err != nil {
			break
		}
		res = append(res, ent{e.Term, e.Offset, payOf(e.Value)})
	}
	return res
}

func fillWal(wf wal.Factory, log []ent) {
	w, err := wf.NewWal(namespace, shardId, nil)
	hx.Must(err)
	for _, e := range log {
		hx.Must(w.Append(&proto.LogEntry{Term: e.term, Offset: e.off, Value: makeValue(e.pay), Timestamp: 1}))
	}
	hx.Must(w.Close())
}

// one replicate stream between the leader's cursor (client side) and the follower (server side)
type pipe struct {
	ctx    context.Context
	cancel context.CancelFunc
	reqs   chan *proto.Append
	acks   chan *proto.Ack
	onAck  func(off int64)
}

type pipeClient struct{ p *pipe }

func (c pipeClient) Send(a *proto.Append) error {
	select {
	case c.p.reqs <- a:
		return nil
	case <-c.p.ctx.Done():
		return io.EOF
	}
}
func (c pipeClient) Recv() (*proto.Ack, error) {
	select {
	case a := <-c.p.acks:
		return a, nil
	case <-c.p.ctx.Done():
		return nil, io.EOF
	}
}
func (c pipeClient) Header() (metadata.MD, error) { return nil, nil }
func (c pipeClient) Trailer() metadata.MD         { return nil }
func (c pipeClient) CloseSend() error             { c.p.cancel(); return nil }
func (c pipeClient) Context() context.Context     { return c.p.ctx }
func (c pipeClient) SendMsg(any) error            { return fmt.Errorf("not implemented") }
func (c pipeClient) RecvMsg(any) error            { return fmt.Errorf("not implemented") }

type pipeServer struct{ p *pipe }

func (s pipeServer) Send(a *proto.Ack) error {
	s.p.onAck(a.Offset)
	select {
	case s.p.acks <- a:
		return nil
	case <-s.p.ctx.Done():
		return io.EOF
	}
}
func (s pipeServer) Recv() (*proto.Append, error) {
	select {
	case r := <-s.p.reqs:
		return r, nil
	case <-s.p.ctx.Done():
		return nil, io.EOF
	}
}
func (s pipeServer) SetHeader(metadata.MD) error  { return nil }
func (s pipeServer) SendHeader(metadata.MD) error { return nil }
func (s pipeServer) SetTrailer(metadata.MD)       {}
func (s pipeServer) Context() context.Context     { return s.p.ctx }
func (s pipeServer) SendMsg(any) error            { return fmt.Errorf("not implemented") }
func (s pipeServer) RecvMsg(any) error            { return fmt.Errorf("not implemented") }

type attachRpc struct {
	follower  *server.VerifInternalRpc
	truncated *proto.EntryId
	onAck     func(off int64)
	mu        sync.Mutex
	pipes     []*pipe
	wg        sync.WaitGroup
}

func (a *attachRpc) Close() error { return nil }
func (a *attachRpc) Truncate(_ string, req *proto.TruncateRequest) (*proto.TruncateResponse, error) {
	a.truncated = req.HeadEntryId
	return a.follower.Truncate(context.Background(), req)
}
func (a *attachRpc) GetReplicateStream(ctx context.Context, _ string, ns string, shard int64, term int64) (proto.OxiaLogReplication_ReplicateClient, error) {
	md := metadata.Pairs("shard-id", strconv.FormatInt(shard, 10), "namespace", ns, "term", strconv.FormatInt(term, 10))
	pctx, cancel := context.WithCancel(metadata.NewIncomingContext(ctx, md))
	p := &pipe{ctx: pctx, cancel: cancel, reqs: make(chan *proto.Append, 64), acks: make(chan *proto.Ack, 64), onAck: a.onAck}
	a.mu.Lock()
	a.pipes = append(a.pipes, p)
	a.mu.Unlock()
	a.wg.Add(1)
	go func() {
		defer a.wg.Done()
		_ = safe(func() error { return a.follower.Replicate(pipeServer{p}) })
		cancel()
	}()
	return pipeClient{p}, nil
}
func (a *attachRpc) SendSnapshot(context.Context, string, string, int64, int64) (proto.OxiaLogReplication_SendSnapshotClient, error) {
	return nil, fmt.Errorf("snapshot not expected in this scenario")
}

func entsString(l []ent) string {
	var p []string
	for _, e := range l {
		p = append(p, e.String())
	}
	return "[" + strings.Join(p, " ") + "]"
}

// runAttach: follower node holding fLog, leader node holding lLog, election term t (> every term in the logs).
func runAttach(o *hx.Out, fLog, lLog []ent, t int64) {
	base := os.Getenv("VERIF_TMP")
	if base == "" {
		base = "/var/tmp"
	}
	dir, err := os.MkdirTemp(base, "attach-")
	hx.Must(err)
	defer os.RemoveAll(dir)
	opts := func(d string) *wal.FactoryOptions {
		return &wal.FactoryOptions{BaseWalDir: d, SegmentSize: 256 * 1024, Retention: time.Hour, SyncData: true}
	}
	fWf := &capFactory{inner: wal.NewWalFactory(opts(dir + "/fwal"))}
	lWf := &capFactory{inner: wal.NewWalFactory(opts(dir + "/lwal"))}
	fillWal(fWf.inner, fLog)
	fillWal(lWf.inner, lLog)
	fKv, err := kvsafe.New(&kv.FactoryOptions{DataDir: dir + "/fdb", CacheSizeMB: 1})
	hx.Must(err)
	lKv, err := kvsafe.New(&kv.FactoryOptions{DataDir: dir + "/ldb", CacheSizeMB: 1})
	hx.Must(err)
	fSd := server.NewShardsDirector(server.Config{}, fWf, fKv, nil)
	fRpc := server.NewVerifInternalRpc(fSd)

	desc := fmt.Sprintf("follower %s, leader %s, election term %d", entsString(fLog), entsString(lLog), t)
	var vmu sync.Mutex
	viol := map[string]string{}
	rpc := &attachRpc{follower: fRpc}
	rpc.onAck = func(off int64) {
		fw := readWal(fWf.cur())
		vmu.Lock()
		defer vmu.Unlock()
		for _, e := range fw {
			if e.off > off {
				continue
			}
			if e.off >= int64(len(lLog)) || lLog[e.off] != e {
				le := "none"
				if e.off < int64(len(lLog)) {
					le = lLog[e.off].String()
				}
				if _, ok := viol["ack:follower-entry-differs-from-leader"]; !ok {
					viol["ack:follower-entry-differs-from-leader"] = fmt.Sprintf(
						"Ack(%d) to the leader of term %d after attach (real BecomeLeader + real follower): follower holds %v, leader holds %s  [%s]",
						off, t, e, le, desc)
				}
			}
		}
	}

	// the follower node answers NewTerm(t) with its head
	resp, err := fRpc.NewTerm(context.Background(), &proto.NewTermRequest{Namespace: namespace, Shard: shardId, Term: t})
	hx.Must(err)
	fh := resp.HeadEntryId

	lc, err := server.NewLeaderController(server.Config{}, namespace, shardId, rpc, lWf, lKv)
	hx.Must(err)
	_, err = lc.NewTerm(&proto.NewTermRequest{Namespace: namespace, Shard: shardId, Term: t})
	hx.Must(err)
	ctx, cancel := context.WithTimeout(context.Background(), 10*time.Second)
	_, blErr := lc.BecomeLeader(ctx, &proto.BecomeLeaderRequest{Namespace: namespace, Shard: shardId, Term: t, ReplicationFactor: 2,
		FollowerMaps: map[string]*proto.EntryId{"f": fh}})
	cancel()

	// the decision, as a case for the model's truncate_follower_if_needed
	decision := ""
	switch {
	case rpc.truncated != nil:
		decision = fmt.Sprintf("trunc:%d:%d", rpc.truncated.Term, rpc.truncated.Offset)
	case blErr != nil && errKind(blErr) == "err:status":
		decision = "invalid"
	case blErr != nil:
		decision = errKind(blErr)
	default:
		decision = fmt.Sprintf("none:%d:%d", fh.Term, fh.Offset)
	}
	var ts []string
	for _, e := range lLog {
		ts = append(ts, strconv.FormatInt(e.term, 10))
	}
	lt, lo := int64(-1), int64(-1)
	if n := len(lLog); n > 0 {
		lt, lo = lLog[n-1].term, lLog[n-1].off
	}
	tl := "-"
	if len(ts) > 0 {
		tl = strings.Join(ts, ",")
	}
	in := fmt.Sprintf("%s %d:%d %d:%d", tl, lt, lo, fh.Term, fh.Offset)
	o.Case("trunc", in, decision, "attach/"+in)
	o.Count("attach:" + strings.SplitN(decision, ":", 2)[0])

	if strings.HasPrefix(decision, "none") && !headConsistent(lLog, fh.Term, fh.Offset) {
		o.Violation("attach:no-truncate-although-head-not-in-leader-log", fmt.Sprintf(
			"BecomeLeader attached the follower without Truncate although its head (%d,%d) is not in the leader's log  [%s]", fh.Term, fh.Offset, desc))
	}
	vmu.Lock()
	for sig, det := range viol {
		o.Violation(sig, det)
	}
	vmu.Unlock()

	_ = lc.Close()
	rpc.mu.Lock()
	for _, p := range rpc.pipes {
		p.cancel()
	}
	rpc.mu.Unlock()
	// the follower's stream handlers have returned before its controller is closed
	waited := make(chan struct{})
	go func() { rpc.wg.Wait(); close(waited) }()
	select {
	case <-waited:
	case <-time.After(3 * time.Second):
	}
	_ = fSd.Close()
	_ = fKv.Close()
	_ = lKv.Close()
}

func mkLog(terms ...int64) []ent {
	var l []ent
	for i, t := range terms {
		l = append(l, ent{t, int64(i), int64(100 + i)})
	}
	return l
}
