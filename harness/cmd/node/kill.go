// Hard kill (KL): the node is abandoned without closing anything and a fresh node is started on an image of its data
// directories, taken at that instant.  Image kinds:
//
//	0  the files as they are now (everything written so far reaches the disk: the kindest crash)
//	1  DB as it is now, WAL as it was when the last completed flush STARTED (what that msync is guaranteed to have
//	   covered): an entry acknowledged after that flush must be in it.
//
// The monitors after the kill are specification verdicts only (the model's crash step keeps the stored term and a cut
// of the log that covers the synced prefix, which is what they enforce).
package main

import (
	"context"
	"fmt"
	"io"
	"os"
	"path/filepath"

	"github.com/oxia-db/oxia/proto"

	"verif/harness/internal/hx"
)

func copyTree(src, dst string) error {
	return filepath.Walk(src, func(p string, info os.FileInfo, err error) error {
		if err != nil {
			if os.IsNotExist(err) {
				return nil
			}
			return err
		}
		rel, _ := filepath.Rel(src, p)
		target := filepath.Join(dst, rel)
		if info.IsDir() {
			return os.MkdirAll(target, 0o755)
		}
		in, err := os.Open(p)
		if err != nil {
			if os.IsNotExist(err) {
				return nil
			}
			return err
		}
		defer in.Close()
		out, err := os.Create(target)
		if err != nil {
			return err
		}
		defer out.Close()
		_, err = io.Copy(out, in)
		return err
	})
}

func (h *H) invalidateFlushImage() {
	if h.flushImage != "" {
		_ = os.RemoveAll(h.flushImage)
		h.flushImage = ""
	}
}

// onFlush: hook of the WAL's current segment
func (h *H) onFlush(point string) {
	if !h.captureFlush {
		return
	}
	switch point {
	case "cur.Flush:pre":
		tmp, err := os.MkdirTemp(scratchBase(), "walimg-")
		if err != nil {
			return
		}
		if copyTree(h.dir+"/wal", tmp) != nil {
			_ = os.RemoveAll(tmp)
			return
		}
		h.mu.Lock()
		if h.flushTmp != "" {
			_ = os.RemoveAll(h.flushTmp)
		}
		h.flushTmp = tmp
		pk := h.flushPark
		h.flushPark = nil
		h.mu.Unlock()
		if pk != nil {
			close(pk.arrived)
			<-pk.release
		}
	case "cur.Flush:post":
		h.mu.Lock()
		if h.flushTmp != "" {
			h.invalidateFlushImage()
			h.flushImage, h.flushTmp = h.flushTmp, ""
		}
		h.mu.Unlock()
	}
}

// doKill: kind 0 / 1 as above.  Returns false when no usable image could be taken (counted, no verdict).
func (h *H) doKill(kind int, probe bool) bool {
	img, err := os.MkdirTemp(scratchBase(), "node-img-")
	hx.Must(err)
	h.mu.Lock()
	walSrc := h.dir + "/wal"
	if kind == 1 && h.flushImage != "" {
		walSrc = h.flushImage
	} else {
		kind = 0
	}
	h.mu.Unlock()
	if copyTree(walSrc, img+"/wal") != nil || copyTree(h.dir+"/db", img+"/db") != nil {
		_ = os.RemoveAll(img)
		h.o.Count("kill:image-copy-failed(no-verdict)")
		return false
	}
	synced := int64(-2)
	if h.gw != nil && (h.follower() != nil || h.leader() != nil) {
		synced = h.gw.inner.LastOffset()
	}
	// abandon the old node (its goroutines only ever touch the old directories, which are removed)
	h.killStreams(relCancelNoSync)
	_ = h.sd.Close()
	_ = h.kvf.Close()
	_ = os.RemoveAll(h.dir)
	h.mu.Lock()
	h.invalidateFlushImage()
	if h.flushTmp != "" {
		_ = os.RemoveAll(h.flushTmp)
		h.flushTmp = ""
	}
	h.gw = nil
	h.token = false
	h.mu.Unlock()
	h.dir = img
	if err := h.openFactories(); err != nil {
		h.o.Count("kill:image-does-not-open(no-verdict)")
		h.fatal = "image does not open: " + err.Error()
		return false
	}
	// what came back
	raw, err := h.realWf.NewWal(namespace, shardId, nil)
	if err != nil {
		h.violate("restart:wal-unusable", fmt.Sprintf("after a kill (image kind %d) the WAL does not reopen: %v", kind, err))
		h.walBroken = true
		h.fatal = "wal does not reopen"
		return false
	}
	recovered := readWal(raw)
	_ = raw.Close()
	h.mu.Lock()
	have := map[ent]bool{}
	for _, e := range recovered {
		have[e] = true
	}
	for e := range h.ackedEnts {
		if !have[e] {
			h.violate("restart:acked-entry-missing-after-kill", fmt.Sprintf(
				"entry %v had been acknowledged (follower Ack / completed client write) but is not in the log recovered after a kill (image kind %d: %s); log before the kill %v (synced up to %d), recovered %v",
				e, kind, map[int]string{0: "files as they were", 1: "WAL as it was when the last completed flush started"}[kind], h.shadow, synced, recovered))
			break
		}
	}
	okPrefix := len(recovered) <= len(h.shadow)
	for i := 0; okPrefix && i < len(recovered); i++ {
		okPrefix = recovered[i] == h.shadow[i]
	}
	if !okPrefix {
		h.violate("restart:log-differs-from-synced-prefix", fmt.Sprintf("log before the kill %v, log recovered from the image (kind %d) %v", h.shadow, kind, recovered))
	}
	h.shadow = append([]ent(nil), recovered...)
	for e := range h.ackedEnts {
		if !have[e] {
			delete(h.ackedEnts, e)
		}
	}
	h.mu.Unlock()
	h.openDirector()
	h.killed = true
	if h.snapFailed {
		h.termLost = true
	}
	if probe {
		// the term the restarted node has: a controller is created by a request that is refused (Truncate of term -7);
		// without the probe the shard stays NOT loaded and the term is looked at after the next request
		_, _ = h.rpc.Truncate(context.Background(), &proto.TruncateRequest{Namespace: namespace, Shard: shardId, Term: -7,
			HeadEntryId: &proto.EntryId{Term: -1, Offset: -1}})
		h.checkTermRegress(h.statusView())
	}
	h.acts = append(h.acts, fmt.Sprintf("KL:%d", kind))
	h.outs = append(h.outs, "ok|-|-|"+h.statusView())
	return true
}
