package main

import (
	"context"
	"fmt"
	"path/filepath"
	"sort"
	"strconv"
	"strings"
	"time"

	"google.golang.org/grpc/metadata"

	"github.com/oxia-db/oxia/common/constant"
	"github.com/oxia-db/oxia/coordinator/model"
	"github.com/oxia-db/oxia/proto"
)

// ------------------------------------------------------------------------------------------------ quiescence

// quiescent: nothing more will happen on the real cluster without a scheduler decision (or a timer the harness
// knows about).  Evaluated repeatedly by settle(); returns the reason when it does not hold.
func (c *cluster) quiescent() (bool, string) {
	c.mu.Lock()
	streams := append([]*rstream(nil), c.streams...)
	calls := append([]*asyncCall(nil), c.calls...)
	cursors := append([]*cursor(nil), c.cursors...)
	ops := append([]*op(nil), c.ops...)
	cur := c.curOp
	c.mu.Unlock()

	for _, s := range streams {
		s.mu.Lock()
		closing := s.broken || s.cliClosed || s.srvCtx.Err() != nil
		cliGone := s.broken || s.cliClosed || s.cliCtx.Err() != nil
		srvDone := s.srvDone
		nDel, srvRecvs := s.nDelivered, s.srvRecvs
		ackedDelivered := s.maxAckedOff >= s.lastDelivOff
		nAckDel, cliRecvs, cliDead := s.nAckDeliv, s.cliRecvs, s.cliRecvDead
		s.mu.Unlock()
		if closing && !srvDone {
			return false, fmt.Sprintf("handler of stream %d>%d to return", s.from, s.to)
		}
		if s.serverStarted && !srvDone && srvRecvs == 0 {
			// the follower's Replicate handler has been launched but has not started reading yet (a crash or a role
			// change of that node right now would race with its first lines)
			return false, fmt.Sprintf("handler of stream %d>%d to start", s.from, s.to)
		}
		if !srvDone && !closing && nDel > 0 && (srvRecvs < nDel+1 || !ackedDelivered) {
			// (a follower whose flush the schedule holds has appended the entry and waits for the flush)
			held := false
			if srvRecvs >= nDel+1 {
				fn := c.node(s.to)
				c.mu.Lock()
				appended := int64(len(fn.log)+len(fn.pending)) - 1
				held = fn.parked != nil && appended >= s.lastDelivOff
				c.mu.Unlock()
			}
			if !held {
				return false, fmt.Sprintf("follower %d to acknowledge append %d of stream from %d", s.to, nDel, s.from)
			}
		}
		if nAckDel > 0 && !cliDead && cliRecvs < nAckDel+1 {
			return false, fmt.Sprintf("leader %d to process ack %d from %d", s.from, nAckDel, s.to)
		}
		if cliGone && !cliDead && s.clientAttached() {
			return false, fmt.Sprintf("cursor %d>%d to notice that its stream ended", s.from, s.to)
		}
	}
	for _, call := range calls {
		c.mu.Lock()
		done := call.done
		c.mu.Unlock()
		if done {
			// the cursors it created contact their followers even if the call has already returned
			if call.finished {
				continue
			}
			ln := c.node(call.node)
			for _, f := range call.followers {
				if call.attached[f] && c.findCursor(call.node, f) != nil {
					continue
				}
				if ln.up && ln.leaderHasCursor(c.node(f)) && c.findGate(func(g *gate) bool {
					return (g.kind == "open" || g.kind == "snap") && g.from == call.node && g.to == f && g.term == call.term
				}) == nil {
					return false, fmt.Sprintf("cursor %d>%d created by %s to contact its follower", call.node, f, call.kind)
				}
			}
			continue
		}
		if c.findGate(func(g *gate) bool { return g.kind == "trunc" && g.from == call.node && g.term == call.term }) != nil {
			continue
		}
		all := true
		for _, f := range call.followers {
			if call.attached[f] && c.findCursor(call.node, f) != nil {
				continue
			}
			if c.findGate(func(g *gate) bool {
				return (g.kind == "open" || g.kind == "snap") && g.from == call.node && g.to == f && g.term == call.term
			}) == nil {
				all = false
			}
		}
		if !all {
			return false, fmt.Sprintf("%s on node %d to contact its followers", call.kind, call.node)
		}
		if call.kind == "af" {
			return false, fmt.Sprintf("AddFollower on node %d to return", call.node)
		}
		if c.node(call.node).leaderCommitOffset() >= call.headOff {
			return false, fmt.Sprintf("BecomeLeader on node %d to return (election head committed)", call.node)
		}
	}
	for _, k := range cursors {
		if !k.alive {
			continue
		}
		if k.snapping != nil {
			c.mu.Lock()
			fin := k.snapping.finished
			c.mu.Unlock()
			if !fin {
				return false, fmt.Sprintf("snapshot %d>%d to finish", k.l, k.f)
			}
		}
		s := k.stream
		if s == nil || !s.alive() {
			continue
		}
		last := c.lastOff(k.l)
		s.mu.Lock()
		ok := last <= s.startOff || (s.nSent > 0 && s.lastSent >= last)
		s.mu.Unlock()
		if !ok {
			return false, fmt.Sprintf("cursor %d>%d to push up to offset %d", k.l, k.f, last)
		}
	}
	for _, n := range c.nodes {
		c.mu.Lock()
		want := n.advertised
		if last := int64(len(n.log)) - 1; last < want {
			want = last
		}
		have, up := n.dbCommit, n.up
		held := n.parked != nil // its sync goroutine (which applies what commits) waits for the parked flush
		c.mu.Unlock()
		if up && want > have && !held {
			if fcm := n.followerCommit(); fcm != -2 && fcm < want {
				return false, fmt.Sprintf("follower %d to apply entries up to the advertised commit offset %d", n.id, want)
			}
		}
	}
	for _, o := range ops {
		c.mu.Lock()
		done, appended, must, off, nd, aerr := o.done, o.appended, o.mustFinish, o.off, o.node, o.appendErr
		c.mu.Unlock()
		if done {
			continue
		}
		if o == cur && !appended && aerr == nil {
			return false, fmt.Sprintf("operation %d to reach the WAL or fail", o.id)
		}
		if !o.isWrite() || must || aerr != nil {
			return false, fmt.Sprintf("operation %d to return", o.id)
		}
		if appended && c.node(nd).leaderCommitOffset() >= off {
			return false, fmt.Sprintf("operation %d (offset %d committed) to return", o.id, off)
		}
	}
	return true, ""
}

func (c *cluster) settle() {
	for i := 0; i < 40 && c.unreal == ""; i++ {
		reason := ""
		ok := c.waitFor("quiescence", shortWait, func() bool {
			q, r := c.quiescent()
			reason = r
			return q
		})
		if !ok {
			c.unreal += " [" + reason + "]"
			return
		}
		if !c.harvest() {
			return
		}
	}
}

// ------------------------------------------------------------------------------------------------ harvest

// harvest reports, in a canonical order, what the real goroutines did since the last harvest. Returns true if
// something was reported (new expectations may follow).
func (c *cluster) harvest() bool {
	did := false
	if c.pendingStores() > 0 {
		c.harvestStores()
		did = true
	}
	// BecomeLeader request emitted by the coordinator: the election decision
	if c.el != nil && (c.el.phase == "await-bl" || c.el.phase == "quorum" || c.el.phase == "grace") {
		if g := c.findGate(func(g *gate) bool { return g.kind == "becomeleader" && g.term == c.el.term && g.fromInc == c.coordInc }); g != nil {
			c.harvestElect(g)
			did = true
		}
	}
	// first contacts of new cursors (attach)
	calls := append([]*asyncCall(nil), c.calls...)
	for _, call := range calls {
		if call.finished {
			continue
		}
		fs := append([]int(nil), call.followers...)
		sort.Ints(fs)
		for _, f := range fs {
			if c.findCursor(call.node, f) != nil && call.attached[f] {
				continue
			}
			g := c.findGate(func(g *gate) bool {
				return (g.kind == "open" || g.kind == "snap") && g.from == call.node && g.to == f && g.term == call.term
			})
			if g == nil {
				continue
			}
			c.emitBL(call)
			if !call.attached[f] {
				call.attached[f] = true
				c.emitAttach(call, f, false)
				c.mon.onAttachWithoutTruncate(call, f)
			}
			if c.findCursor(call.node, f) == nil {
				c.cursors = append(c.cursors, &cursor{l: call.node, f: f, term: call.term, lInc: c.node(call.node).inc, ackOff: call.startAck[f], alive: true})
			}
			did = true
		}
		if c.findGate(func(g *gate) bool { return g.kind == "trunc" && g.from == call.node && g.term == call.term }) != nil {
			if !call.blEmitted {
				c.emitBL(call)
				did = true
			}
		}
	}
	// messages
	for _, s := range c.streamsCopy() {
		s.mu.Lock()
		newSent := append([]*proto.Append(nil), s.sentLog[s.harvested:]...)
		s.harvested = len(s.sentLog)
		newAcks := append([]int64(nil), s.ackLog[s.ackHarv:]...)
		newSynced := append([]int64(nil), s.ackSynced[s.ackHarv:]...)
		s.ackHarv = len(s.ackLog)
		s.mu.Unlock()
		for _, a := range newSent {
			c.event("send-append %d>%d term=%d offset=%d commit=%d", s.from, s.to, a.Term, a.Entry.Offset, a.CommitOffset)
			c.tok(fmt.Sprintf("SA:%d:%d:%d", s.from, s.to, a.Entry.Offset))
			did = true
		}
		for i, off := range newAcks {
			c.harvestAckEmitted(s, off, newSynced[i])
			did = true
		}
	}
	// followers whose database advanced (LearnCommit)
	for _, n := range c.nodes {
		if !n.up {
			continue
		}
		fcm := n.followerCommit()
		c.mu.Lock()
		adv := fcm > n.dbCommit
		if adv {
			n.dbCommit = fcm
		}
		term := n.term
		c.mu.Unlock()
		if !adv {
			continue
		}
		did = true
		// the leader whose Append carried that commit offset: the model's LearnCommit needs it still leading
		l := c.mon.blStarted[term]
		ln := c.node(l)
		ok := false
		if ln != nil && l != n.id {
			c.mu.Lock()
			ok = ln.up && ln.term == term && (ln.status == proto.ServingStatus_LEADER || ln.asyncRPC > 0 || ln.electing)
			c.mu.Unlock()
		}
		c.event("follower %d applied entries up to offset %d", n.id, fcm)
		if ok && int64(fcm)+1 > n.mcommit {
			c.tok(fmt.Sprintf("LC:%d:%d:%d", n.id, l, fcm+1))
			n.mcommit = fcm + 1
		}
	}
	// finished calls
	for _, call := range calls {
		c.mu.Lock()
		done, err := call.done, call.err
		c.mu.Unlock()
		if !done || call.finished {
			continue
		}
		call.finished = true
		did = true
		c.finishCall(call, err)
	}
	// finished client operations
	if c.harvestOps() {
		did = true
	}
	return did
}

func (c *cluster) emitBL(call *asyncCall) {
	if call.blEmitted || call.kind != "bl" {
		call.blEmitted = true
		return
	}
	call.blEmitted = true
	c.event("become-leader starts on %d term=%d head=%d", call.node, call.term, call.headOff)
	c.tok(fmt.Sprintf("BL:%d", call.node))
	c.mu.Lock()
	c.node(call.node).electing = true
	c.mu.Unlock()
	if n := c.node(call.node); call.initCommit+1 > n.mcommit {
		// the node's database is ahead of what the model knows: it applied, as a follower, a commit offset carried by
		// an Append that was delivered after its leader had been fenced (LearnCommit needs the leader still leading)
		c.stats["model-gap:follower-commit-learnt-from-fenced-leader"]++
		if call.initCommit >= call.headOff {
			c.skipModel("follower applied a commit offset advertised by a leader that was fenced before the Append arrived (no LearnCommit possible); its BecomeLeader now finishes without waiting")
		}
	}
	c.mon.onBecomeLeaderStart(call)
	// the tracker of the new leader starts at its database's commit offset: it must not be beyond its log
	if n := c.node(call.node); n.up {
		if real := n.leaderCommitOffset(); real > call.headOff {
			c.mu.Lock()
			n.aheadTerm, n.aheadUpTo, n.aheadHead = call.term, real, call.headOff
			c.mu.Unlock()
			c.mon.onCommitAhead(call, real)
		}
	}
}

// emitAttach reports addFollower on the leader: the follower's log as it reported it, and whether the leader sent a
// Truncate RPC (the model's attach_decide is compared with that by the model driver).
func (c *cluster) emitAttach(call *asyncCall, f int, truncated bool) {
	r := call.resps[f]
	var lg []entry
	if r != nil {
		lg = r.log
	}
	did := "N"
	if truncated {
		did = "T"
	}
	c.event("attach %d>%d (reported log %s, truncate sent: %v)", call.node, f, logTok(lg), truncated)
	c.tok(fmt.Sprintf("AT:%d:%d:%s:%s", call.node, f, logTok(lg), did))
}

func (c *cluster) harvestElect(g *gate) {
	el := c.el
	req := g.req.(*proto.BecomeLeaderRequest)
	el.leader = g.to
	el.followers = map[int]eid{}
	var fs []int
	for name, h := range req.FollowerMaps {
		n := c.nodeByName(name)
		if n == nil {
			continue
		}
		el.followers[n.id] = eid{h.Term, h.Offset}
		fs = append(fs, n.id)
	}
	sort.Ints(fs)
	cands := []string{}
	all := append([]int{el.leader}, fs...)
	sort.Ints(all)
	for _, x := range all {
		r := el.resp[x]
		lg := "-"
		if r != nil && r.ok {
			lg = logTok(r.log)
		} else {
			c.violate("election:candidate-without-response", fmt.Sprintf("term %d: node %d is leader/follower of the BecomeLeader request without a successful NewTerm response", el.term, x))
		}
		cands = append(cands, fmt.Sprintf("%d=%s", x, lg))
	}
	var rrs []int
	for _, x := range el.removed {
		if r := el.resp[x]; r != nil && r.ok && !contains(all, x) {
			rrs = append(rrs, x)
		}
	}
	c.event("elect term=%d leader=%d followers=%s rf=%d removed-responders=%s", el.term, el.leader, intsTok(fs), req.ReplicationFactor, intsTok(rrs))
	c.tok(fmt.Sprintf("EL:%d:%s:%s", el.leader, strings.Join(cands, "|"), intsTok(rrs)))
	el.phase = "bl-pending"
	c.steps = append(c.steps, fmt.Sprintf("elected:%d", el.leader))
	c.mon.onElect(el, all)
}

func (c *cluster) harvestAckEmitted(s *rstream, off int64, synced int64) {
	lg := c.shadowLog(s.to)
	// an acknowledgement says "durable here": the follower's WAL must have reported the offset as synced when the ack
	// was sent (a power loss right after the ack would otherwise take an acknowledged entry away)
	if synced != -2 && synced < off && off >= 0 {
		c.mu.Lock()
		fn := c.node(s.to)
		pend := append([]entry(nil), fn.pending...)
		virtual := off < fn.walFirst
		c.mu.Unlock()
		if !virtual {
			what := "the entry is not in its WAL at all"
			var pe *entry
			for i := range pend {
				if pend[i].off == off {
					pe = &pend[i]
					what = fmt.Sprintf("entry %s is appended, no completed sync covers it", pend[i].tok())
				}
			}
			if pe == nil {
				// Nothing was appended.  A follower that starts on an EMPTY WAL takes its database's commit offset for
				// its head ("restored from a snapshot") and acknowledges every offset up to it as a duplicate.  When the
				// WAL is empty because the entries the database had applied were rolled back (figure 8: the database's
				// commit offset stays), that is a consequence of the rollback, judged where it happened.
				dbc := fn.followerCommit()
				violMu.Lock()
				judged := c.figure8 || c.tainted != "" || c.diskSoft
				if judged && dbc >= off {
					c.secondary = append(c.secondary, "ack:follower-acked-unsynced-entry(database-ahead-of-rolled-back-log)")
					if c.tainted == "" {
						c.tainted = "consequence:follower-database-ahead-of-rolled-back-log"
					}
				}
				violMu.Unlock()
				if judged && dbc >= off {
					c.event("ack-emitted %d>%d term=%d offset=%d: the follower's WAL is empty, its database's commit offset is %d (entries it had applied were rolled back): acknowledged as a duplicate without being stored", s.to, s.from, s.term, off, dbc)
					return
				}
				if dbc >= off {
					what = fmt.Sprintf("the entry is not in its WAL at all; its database's commit offset is %d: it takes the offset for a duplicate of what a snapshot gave it", dbc)
				}
			}
			c.violate("ack:follower-acked-unsynced-entry", fmt.Sprintf(
				"term %d: follower %d sent the acknowledgement of offset %d to leader %d while its WAL was synced up to offset %d only (%s; synced log %s, appended and not synced %s): the leader counts this copy for the quorum, a power loss of the follower before its next sync completes takes the entry away",
				s.term, s.to, off, s.from, synced, what, logTok(lg), logTok(pend)))
			if pe != nil && off == int64(len(lg)) {
				lg = append(lg, *pe) // reported below as what the follower claims to hold
			}
		}
	}
	if off < 0 || off >= int64(len(lg)) {
		c.violate("ack:offset-not-in-follower-log", fmt.Sprintf("follower %d acknowledged offset %d in term %d but its log has %d entries", s.to, off, s.term, len(lg)))
		return
	}
	e := lg[off]
	c.event("ack-emitted %d>%d term=%d offset=%d entry=%s", s.to, s.from, s.term, off, e.tok())
	c.mu.Lock()
	virtual := off < c.node(s.to).walFirst
	c.mu.Unlock()
	if virtual {
		// an offset the follower holds only as part of an installed snapshot (never sent on this stream): the
		// snapshot install was already reported as the appends of these entries
		c.stats["acks-of-snapshot-offsets"]++
		c.mon.onAckEmitted(s.from, s.to, s.term, off)
		return
	}
	c.tok(fmt.Sprintf("RA:%d:%d:%d:%s", s.to, mterm(s.term), off, e.tok()))
	c.mu.Lock()
	c.node(s.to).snapFenced = false
	c.node(s.to).status = proto.ServingStatus_FOLLOWER
	c.mu.Unlock()
	c.mon.onAckEmitted(s.from, s.to, s.term, off)
}

func (c *cluster) finishCall(call *asyncCall, err error) {
	n := c.node(call.node)
	c.mu.Lock()
	n.asyncRPC--
	c.mu.Unlock()
	switch call.kind {
	case "bl":
		if err == nil {
			c.emitBL(call)
			c.event("become-leader done on %d term=%d", call.node, call.term)
			c.tok(fmt.Sprintf("FB:%d", call.node))
			c.mu.Lock()
			n.status = proto.ServingStatus_LEADER
			n.electing = false
			c.mu.Unlock()
			c.mon.onLeader(call.node, call.term)
			if c.el != nil && c.el.call == call && c.el.phase == "bl-inflight" {
				c.el.phase = "deleting"
				if call.lose {
					c.event("become-leader to %d term=%d: the answer is lost on its way to the coordinator", call.node, call.term)
					c.el.phase = "failed"
				}
				if call.crashCoord {
					c.el.phase = "crash-in-store"
				}
			}
		} else {
			c.mu.Lock()
			c.parkSteadyStore = false
			c.mu.Unlock()
			if !call.blEmitted && n.up && n.leaderHasTracker() {
				c.emitBL(call)
			}
			c.event("become-leader FAILED on %d term=%d: %v", call.node, call.term, err)
			if c.el != nil && c.el.call == call && c.el.phase == "bl-inflight" {
				c.el.phase = "failed"
			}
		}
	case "af":
		for _, cu := range c.catchups {
			if cu.call == call {
				if err == nil {
					cu.stage = "done"
					cu.alive = false
					c.event("add-follower %d>%d done", call.node, cu.f)
				} else {
					cu.stage = "sleeping"
					c.event("add-follower %d>%d FAILED: %v", call.node, cu.f, err)
				}
			}
		}
	}
}

// ------------------------------------------------------------------------------------------------ steps

func atoi(s string) int {
	v, err := strconv.Atoi(s)
	if err != nil {
		return -1
	}
	return v
}

func pair(s string) (int, int) {
	p := strings.Split(s, ">")
	if len(p) != 2 {
		p = strings.Split(s, "-")
	}
	if len(p) != 2 {
		return -1, -1
	}
	return atoi(p[0]), atoi(p[1])
}

// step executes one scheduler choice. Returns false if the step was not enabled (nothing was done).
func (c *cluster) step(st string) bool {
	if c.unreal != "" {
		return false
	}
	c.stepNo++
	c.cur = st
	pos := len(c.steps)
	c.steps = append(c.steps, st)
	f := strings.Split(st, ":")
	ok := false
	switch f[0] {
	case "start":
		ok = c.stepStart()
	case "nt", "ntfail":
		ok = c.stepNewTerm(atoi(f[1]), f[0] == "ntfail")
	case "ntall":
		ok = c.stepNewTermAll()
	case "grace":
		ok = c.stepGrace()
	case "bl", "blfail":
		ok = c.stepBecomeLeader(f[0] == "blfail")
	case "bllost":
		ok = c.stepBecomeLeaderX(false, true, false)
	case "blcrash":
		ok = c.stepBecomeLeaderX(false, false, true)
	case "ntlost":
		ok = c.stepNewTermX(atoi(f[1]), false, true)
	case "bltimeout":
		ok = c.stepBLTimeout()
	case "ds", "dsfail":
		ok = c.stepDeleteShard(atoi(f[1]), f[0] == "dsfail")
	case "cu", "cufail":
		ok = c.stepCatchupNewTerm(atoi(f[1]), f[0] == "cufail")
	case "cuwait":
		ok = c.stepCatchupWait(atoi(f[1]))
	case "af", "affail":
		ok = c.stepAddFollower(f[0] == "affail")
	case "tr", "trfail":
		l, fo := pair(f[1])
		ok = c.stepTruncate(l, fo, f[0] == "trfail")
	case "open":
		l, fo := pair(f[1])
		ok = c.stepOpen(l, fo)
	case "snap":
		l, fo := pair(f[1])
		ok = c.stepSnapshot(l, fo)
	case "app":
		l, fo := pair(f[1])
		ok = c.stepDeliverAppend(l, fo)
	case "ack":
		l, fo := pair(f[1])
		ok = c.stepDeliverAck(l, fo)
	case "w", "r", "wc":
		ok = c.stepClient(f)
	case "cancel":
		ok = c.stepCancel(atoi(f[1]))
	case "retr", "redeliver-truncate":
		ok = c.stepRedeliverTruncate(atoi(f[1]))
	case "crash":
		ok = c.stepCrash(atoi(f[1]))
	case "restart":
		ok = c.stepRestart(atoi(f[1]))
	case "diskloss":
		ok = c.stepDiskLoss(atoi(f[1]))
	case "cut", "heal":
		a, b := pair(f[1])
		ok = c.stepLink(a, b, f[0] == "cut")
	case "fail":
		ok = c.stepNodeFailure(atoi(f[1]))
	case "swap":
		a, b := pair(f[1])
		ok = c.stepSwap(a, b)
	case "powerloss":
		ok = c.stepPowerLoss(atoi(f[1]))
	case "fpark":
		ok = c.stepFlushPark(atoi(f[1]))
	case "fnext":
		ok = c.stepFlushRelease(atoi(f[1]), true)
	case "frelease":
		ok = c.stepFlushRelease(atoi(f[1]), false)
	case "crestart":
		ok = c.stepCoordRestart()
	case "drain":
		ok = c.stepDrain()
	case "audit":
		ok = c.stepAudit(atoi(f[1]))
	default:
		c.unrealisable("unknown step " + st)
		return false
	}
	if !ok {
		c.steps = c.steps[:pos]
		c.stepNo--
		return false
	}
	c.settle()
	c.afterCoordinator()
	c.purgeDeadQueues()
	c.checkCoordinatorRequests()
	if c.unreal == "" {
		c.checkpoints(false)
		c.mon.afterStep()
	}
	c.stats["steps"]++
	c.stats["step:"+f[0]]++
	return true
}

// purgeDeadQueues drops the in-flight messages of streams that cannot deliver them any more.
func (c *cluster) purgeDeadQueues() {
	for _, s := range c.streamsCopy() {
		s.mu.Lock()
		if s.broken || s.srvDone || s.cliClosed {
			s.toF = nil
		}
		if s.broken || s.cliClosed || s.cliRecvDead {
			s.toL = nil
		}
		s.mu.Unlock()
	}
	for _, k := range c.cursors {
		if k.stream != nil && !k.stream.alive() {
			k.stream.mu.Lock()
			empty := len(k.stream.toL) == 0
			k.stream.mu.Unlock()
			if empty {
				k.stream.wake()
				k.stream = nil
			}
		}
	}
}

func (c *cluster) stepStart() bool {
	if c.ctl != nil {
		return false
	}
	c.event("coordinator starts")
	c.startCoordinator()
	c.expectElectionStart()
	return true
}

// expectElectionStart waits for the beginning of an election attempt and for its NewTerm requests.  An attempt begins
// with the Store of {Election, term+1}; the two other observable beginnings are reported to the model as gaps and
// followed like any other election (the monitors judge what the nodes do afterwards):
//   - the Store of {Election, same term}: an attempt that re-uses the term of the previous one;
//   - NewTerm requests of a term that the metadata store does not hold (no Store before them).
func (c *cluster) expectElectionStart() bool {
	before := c.lastMeta.Term
	floor := before
	if c.el != nil && c.el.inc == c.coordInc && c.el.term > floor {
		floor = c.el.term
	}
	attemptOver := c.el == nil || c.el.inc != c.coordInc || c.el.phase == "failed" || c.el.phase == "abandoned" || c.el.phase == "idle" || c.el.phase == "done"
	unstored := int64(-1)
	has := false
	if !c.waitFor("election store", timerWait, func() bool {
		c.failCatchupGates()
		c.mu.Lock()
		defer c.mu.Unlock()
		top := before
		for _, md := range c.stores[c.storesSeen:] {
			if md.Term > before {
				return true
			}
			if md.Term == before && md.Status == model.ShardStatusElection && attemptOver {
				return true
			}
			if md.Term > top {
				top = md.Term
			}
		}
		for _, g := range c.gates {
			if g.kind != "newterm" || g.fromInc != c.coordInc || g.ctx.Err() != nil || g.term <= top {
				continue
			}
			if g.term > floor || c.el == nil || c.el.inc != c.coordInc {
				unstored, has = g.term, true
				return true
			}
		}
		return false
	}) {
		return false
	}
	c.harvestStores()
	if has && (c.el == nil || c.el.term != unstored || c.el.inc != c.coordInc || c.el.phase == "abandoned" || c.el.phase == "failed") {
		c.beginUnstoredElection(unstored)
	}
	return c.expectNewTermGates()
}

// beginUnstoredElection: NewTerm requests of a term the metadata store does not hold.
func (c *cluster) beginUnstoredElection(term int64) {
	ens, rem := c.ids(c.lastMeta.Ensemble), c.ids(c.lastMeta.RemovedNodes)
	if c.swapInFlight && c.swapFrom != 0 {
		var e2 []int
		for _, x := range ens {
			if x != c.swapFrom {
				e2 = append(e2, x)
			}
		}
		ens = append(e2, c.swapTo)
		rem = append(rem, c.swapFrom)
	}
	c.event("election of term %d begins without a store (the metadata store holds term %d, status %v)", term, c.lastMeta.Term, c.lastMeta.Status)
	c.stats["model-gap:election-term-not-stored"]++
	c.skipModel("the coordinator hands out a term that its metadata store does not hold (the model's elections own a durable term)")
	c.stats["elections"]++
	c.killCatchups()
	sz := len(ens) + len(rem)
	c.el = &election{term: term, ens: ens, removed: rem, size: sz, majority: sz/2 + 1, resp: map[int]*ntResp{},
		phase: "quorum", deleted: map[int]bool{}, swap: c.swapInFlight, inc: c.coordInc, unstored: true}
}

func (c *cluster) expectNewTermGates() bool {
	el := c.el
	if el == nil {
		return false
	}
	return c.waitFor("NewTerm requests of the election", shortWait, func() bool {
		cnt := 0
		c.mu.Lock()
		for _, g := range c.gates {
			if g.kind == "newterm" && g.term == el.term && g.fromInc == c.coordInc && g.ctx.Err() == nil {
				cnt++
			}
		}
		c.mu.Unlock()
		return cnt+el.total >= el.size
	})
}

func (c *cluster) ntGate(n int) *gate {
	if c.el == nil {
		return nil
	}
	// (an attempt that re-uses the term of the previous one: a request of the old attempt that is still pending is not
	// a request of this attempt: the newest one is)
	var best *gate
	n0 := n
	for {
		g := c.findGate(func(g *gate) bool {
			return g.kind == "newterm" && g.to == n0 && g.term == c.el.term && g.fromInc == c.coordInc && (best == nil || g.seq > best.seq)
		})
		if g == nil {
			return best
		}
		best = g
	}
}

// deliverNewTerm runs the NewTerm request on the node and reports it. Returns the response for the caller.
func (c *cluster) deliverNewTerm(n *node, req *proto.NewTermRequest) (*proto.NewTermResponse, *ntResp, error) {
	if !c.reachable(0, n.id) {
		c.event("new-term to %d term=%d: unreachable", n.id, req.Term)
		return nil, &ntResp{}, errUnavailable
	}
	c.mu.Lock()
	busy := n.asyncRPC > 0
	c.mu.Unlock()
	if busy {
		// the controller lock is held by BecomeLeader/AddFollower: the request would block; treat as not deliverable
		return nil, nil, nil
	}
	res, err := n.rpcNewTerm(req)
	if err != nil {
		c.event("new-term to %d term=%d: error %v", n.id, req.Term, err)
		return nil, &ntResp{}, err
	}
	lg := c.shadowLog(n.id)
	r := &ntResp{ok: true, head: eid{res.HeadEntryId.Term, res.HeadEntryId.Offset}, log: lg}
	c.mu.Lock()
	n.term, n.status = req.Term, proto.ServingStatus_FENCED
	n.electing = false
	for _, o := range c.ops {
		if !o.done && o.node == n.id {
			o.mustFinish = true
		}
	}
	c.mu.Unlock()
	c.killCursorsOf(n.id)
	c.event("new-term to %d term=%d: head=(%d,%d) log=%s", n.id, req.Term, r.head.term, r.head.off, logTok(lg))
	c.tok(fmt.Sprintf("NT:%d:%d", n.id, mterm(req.Term)))
	c.mon.onNewTermResponse(n.id, req.Term, r)
	return res, r, nil
}

func (c *cluster) stepNewTerm(id int, fail bool) bool { return c.stepNewTermX(id, fail, false) }

// stepNewTermX: lose = the node handles the request, the answer never reaches the coordinator (its call fails).
func (c *cluster) stepNewTermX(id int, fail bool, lose bool) bool {
	el := c.el
	n := c.node(id)
	if el == nil || n == nil || (el.phase != "quorum" && el.phase != "grace") {
		return false
	}
	g := c.ntGate(id)
	if g == nil {
		return false
	}
	var res *proto.NewTermResponse
	var r *ntResp
	var err error
	if fail {
		if el.phase == "grace" {
			// An error ends the grace loop of newTermQuorum at once.  The per-node goroutines of the coordinator hand
			// their results over a channel: give the previously released response a moment to get there first
			// (either order is a legal behaviour and the BecomeLeader request is reported as it is; this only makes
			// the usual order the common one).
			time.Sleep(300 * time.Microsecond)
		}
		c.event("new-term to %d term=%d: failed by the network", id, el.term)
		r, err = &ntResp{}, errUnavailable
	} else {
		res, r, err = c.deliverNewTerm(n, g.req.(*proto.NewTermRequest))
		if r == nil {
			return false
		}
		if lose && err == nil {
			c.event("new-term to %d term=%d: the answer is lost on its way to the coordinator", id, el.term)
			res, r, err = nil, &ntResp{}, errUnavailable
		}
	}
	el.resp[id] = r
	el.total++
	if err == nil {
		el.succ++
	} else {
		el.hadErr = true
	}
	if err != nil {
		c.release(g, nil, err)
	} else {
		c.release(g, res, nil)
	}
	c.afterNewTermResponse(err != nil)
	return true
}

// stepNewTermAll: every node the coordinator can reach handles its NewTerm request (the requests were sent in parallel:
// the handlers, some of which have to open the WAL and the database first, run before any answer is handed back), then
// the answers are handed to the coordinator back to back, successes first, failures (unreachable nodes) last.
func (c *cluster) stepNewTermAll() bool {
	el := c.el
	if el == nil || (el.phase != "quorum" && el.phase != "grace") {
		return false
	}
	type answer struct {
		id  int
		g   *gate
		res *proto.NewTermResponse
		r   *ntResp
		err error
	}
	var oks, fails []answer
	all := append(append([]int(nil), el.ens...), el.removed...)
	sort.Ints(all)
	for _, id := range all {
		g := c.ntGate(id)
		if g == nil {
			continue
		}
		if !c.reachable(0, id) {
			c.event("new-term to %d term=%d: failed by the network", id, el.term)
			fails = append(fails, answer{id, g, nil, &ntResp{}, errUnavailable})
			continue
		}
		res, r, err := c.deliverNewTerm(c.node(id), g.req.(*proto.NewTermRequest))
		if r == nil {
			continue // the node is busy (BecomeLeader / AddFollower holds its lock): its request stays pending
		}
		if err != nil {
			fails = append(fails, answer{id, g, nil, r, err})
		} else {
			oks = append(oks, answer{id, g, res, r, nil})
		}
	}
	if len(oks)+len(fails) == 0 {
		return false
	}
	for i, a := range append(oks, fails...) {
		if el.phase != "quorum" && el.phase != "grace" {
			break // the coordinator has stopped listening (the remaining answers are lost)
		}
		if a.err != nil && i > 0 {
			time.Sleep(300 * time.Microsecond)
		}
		el.resp[a.id] = a.r
		el.total++
		if a.err == nil {
			el.succ++
			c.release(a.g, a.res, nil)
		} else {
			el.hadErr = true
			c.release(a.g, nil, a.err)
		}
		c.afterNewTermResponse(a.err != nil)
	}
	return true
}

// afterNewTermResponse mirrors the control flow of newTermQuorum to know what the coordinator does next.
func (c *cluster) afterNewTermResponse(wasErr bool) {
	el := c.el
	switch el.phase {
	case "quorum":
		if el.succ >= el.majority || el.total >= el.size {
			if el.succ < el.majority {
				c.electionFailed("no majority of NewTerm responses")
				return
			}
			if el.hadErr || el.total >= el.size {
				el.phase = "await-bl"
			} else {
				el.phase = "grace"
			}
		}
	case "grace":
		if wasErr || el.total >= el.size {
			el.phase = "await-bl"
		}
	}
	if el.phase == "await-bl" {
		c.waitFor("BecomeLeader request", shortWait, func() bool {
			return c.findGate(func(g *gate) bool { return g.kind == "becomeleader" && g.term == el.term && g.fromInc == c.coordInc }) != nil
		})
	}
}

func (c *cluster) stepGrace() bool {
	el := c.el
	if el == nil || el.phase != "grace" {
		return false
	}
	c.event("grace period of the NewTerm quorum expires")
	el.phase = "await-bl"
	c.waitFor("BecomeLeader request after the grace period", timerWait, func() bool {
		return c.findGate(func(g *gate) bool { return g.kind == "becomeleader" && g.term == el.term && g.fromInc == c.coordInc }) != nil
	})
	return true
}

// electionFailed: electLeader returned an error; electLeaderWithRetries starts a new election after its backoff.
func (c *cluster) electionFailed(why string) {
	el := c.el
	el.phase = "failed"
	c.event("election of term %d failed: %s; waiting for the retry", el.term, why)
	c.stats["elections-failed"]++
	el.retried = true
	if c.swapInFlight || el.swap {
		// swapNode does not retry: SwapNode returns the error and the shard stays without a leader until
		// something else starts an election (coordinator restart, another swap)
		c.waitFor("SwapNode to return", shortWait, func() bool { return !c.swapRunning() })
		el.phase = "idle"
		return
	}
	c.retryElections++
	c.expectElectionStart()
}

func (c *cluster) stepBecomeLeader(fail bool) bool { return c.stepBecomeLeaderX(fail, false, false) }

// stepBecomeLeaderX: lose = the node processes BecomeLeader, the coordinator's call fails (answer lost / timeout);
// crash = the coordinator process dies inside the final store that follows the successful BecomeLeader and is restarted.
func (c *cluster) stepBecomeLeaderX(fail, lose, crash bool) bool {
	el := c.el
	if el == nil || el.phase != "bl-pending" {
		return false
	}
	if crash && len(el.removed) > 0 {
		return false
	}
	g := c.findGate(func(g *gate) bool { return g.kind == "becomeleader" && g.term == el.term && g.fromInc == c.coordInc })
	if g == nil {
		return false
	}
	n := c.node(g.to)
	if fail || !c.reachable(0, n.id) {
		c.event("become-leader to %d term=%d: unreachable", n.id, el.term)
		c.release(g, nil, errUnavailable)
		c.electionFailed("BecomeLeader not delivered")
		return true
	}
	req := g.req.(*proto.BecomeLeaderRequest)
	var fs []int
	resps := map[int]*ntResp{}
	startAck := map[int]int64{}
	for name, h := range req.FollowerMaps {
		if x := c.nodeByName(name); x != nil {
			fs = append(fs, x.id)
			resps[x.id] = el.resp[x.id]
			startAck[x.id] = h.Offset
			if !contains(el.ens, x.id) {
				c.violate("attach:follower-not-in-ensemble", fmt.Sprintf(
					"the BecomeLeader request of term %d to node %d names node %d as a follower; the ensemble of that term is %s (removed: %s)",
					el.term, n.id, x.id, intsTok(el.ens), intsTok(el.removed)))
			}
		}
	}
	sort.Ints(fs)
	c.mu.Lock()
	c.pendLose, c.pendCrash = lose, crash
	if crash {
		c.parkSteadyStore, c.storeParked = true, false
	}
	c.mu.Unlock()
	call := c.startCall("bl", n, el.term, fs, resps, startAck, g, func(ctx context.Context) (any, error) {
		return n.rpcBecomeLeader(ctx, req)
	})
	el.call = call
	el.phase = "bl-inflight"
	c.event("become-leader delivered to %d term=%d followers=%s", n.id, el.term, intsTok(fs))
	return true
}

func (c *cluster) startCall(kind string, n *node, term int64, fs []int, resps map[int]*ntResp, startAck map[int]int64, g *gate,
	fn func(ctx context.Context) (any, error)) *asyncCall {
	ctx, cancel := context.WithCancel(g.ctx)
	call := &asyncCall{kind: kind, node: n.id, term: term, followers: fs, g: g, cancel: cancel, headOff: c.lastOff(n.id),
		attached: map[int]bool{}, resps: resps, startAck: startAck, initCommit: -1}
	c.mu.Lock()
	if n.dbCommit > call.initCommit {
		call.initCommit = n.dbCommit
	}
	if kind == "bl" {
		call.lose, call.crashCoord = c.pendLose, c.pendCrash
		c.pendLose, c.pendCrash = false, false
	}
	c.mu.Unlock()
	c.mu.Lock()
	n.asyncRPC++
	c.calls = append(c.calls, call)
	c.mu.Unlock()
	if !c.removeGate(g) {
		// the coordinator withdrew the request (context cancelled) in the meantime
		c.mu.Lock()
		n.asyncRPC--
		call.done, call.finished, call.err = true, true, context.Canceled
		c.mu.Unlock()
		cancel()
		return call
	}
	go func() {
		var res any
		var err error
		c.guard(kind, func() { res, err = fn(ctx) }, func() { res, err = nil, errUnavailable })
		cancel()
		c.mu.Lock()
		call.done, call.err = true, err
		lose := call.lose
		c.mu.Unlock()
		if lose && err == nil {
			g.done <- gateResult{nil, errUnavailable}
			return
		}
		g.done <- gateResult{res, err}
	}()
	return call
}

func (c *cluster) stepBLTimeout() bool {
	el := c.el
	if el == nil || el.phase != "bl-inflight" || el.call == nil {
		return false
	}
	c.mu.Lock()
	done := el.call.done
	c.mu.Unlock()
	if done {
		return false
	}
	if g := c.findGate(func(g *gate) bool { return g.kind == "trunc" && g.from == el.call.node }); g != nil {
		return false
	}
	c.event("become-leader rpc to %d times out", el.call.node)
	el.call.cancel()
	c.waitFor("BecomeLeader to return after the timeout", shortWait, func() bool {
		c.mu.Lock()
		defer c.mu.Unlock()
		return el.call.done
	})
	return true
}

// afterCoordinator follows the coordinator after an election step: failed election -> retry; BecomeLeader done ->
// DeleteShard requests / final store / catch-up loops.
func (c *cluster) afterCoordinator() {
	for i := 0; i < 6 && c.unreal == ""; i++ {
		el := c.el
		if el == nil {
			return
		}
		switch el.phase {
		case "crash-in-store":
			c.coordinatorDiesInFinalStore()
			c.settle()
			return
		case "failed":
			if el.retried {
				return
			}
			el.retried = true
			if c.swapInFlight || el.swap {
				c.waitFor("SwapNode to return", shortWait, func() bool { return !c.swapRunning() })
				el.phase = "idle"
				return
			}
			if c.coordStopped {
				return
			}
			c.retryElections++
			c.stats["elections-failed"]++
			c.event("election of term %d failed; waiting for the retry", el.term)
			c.expectElectionStart()
			return
		case "deleting":
			var todo []int
			for _, r := range el.removed {
				if !el.deleted[r] {
					todo = append(todo, r)
				}
			}
			if len(todo) > 0 {
				c.waitFor("DeleteShard request", shortWait, func() bool {
					return c.findGate(func(g *gate) bool { return g.kind == "deleteshard" && g.fromInc == c.coordInc }) != nil
				})
				return
			}
			el.phase = "await-steady"
		case "await-steady":
			c.waitFor("store of the elected leader", shortWait, func() bool { return c.pendingStores() > 0 || el.phase == "done" })
			c.harvestStores()
			if el.phase != "done" {
				return
			}
		case "done":
			c.waitFor("LeaderElected notification", shortWait, func() bool {
				c.mu.Lock()
				defer c.mu.Unlock()
				return c.leaderElectedCalls > c.leaderElectedSeen
			})
			c.mu.Lock()
			c.leaderElectedSeen = c.leaderElectedCalls
			c.mu.Unlock()
			// catch-up loops for the ensemble members that are not followers yet
			for _, x := range el.ens {
				if x == el.leader {
					continue
				}
				if _, ok := el.followers[x]; ok {
					continue
				}
				c.catchups = append(c.catchups, &catchup{f: x, term: el.term, alive: true, stage: "newterm"})
			}
			if len(c.catchups) > 0 && !el.swap {
				c.waitFor("NewTerm request of a catch-up loop", shortWait, func() bool { return c.catchupGate() != nil })
			}
			el.phase = "idle"
			return
		default:
			return
		}
	}
}

// failCatchupGates: the NewTerm requests of the catch-up loops (keepFencingFollower) occupy the controller's main
// loop while they are pending; when the harness needs that loop (node failure, swap) they are failed the way a
// request to an unreachable node fails; the loops retry after their backoff unless the new election cancels them.
func (c *cluster) failCatchupGates() {
	for {
		g := c.findGate(func(g *gate) bool {
			if g.kind != "newterm" || g.fromInc != c.coordInc {
				return false
			}
			if g.term > c.lastMeta.Term {
				return false
			}
			if g.term < c.lastMeta.Term || c.lastMeta.Status == model.ShardStatusSteadyState {
				return true
			}
			// the shard is in an election of this very term: the request belongs to a catch-up loop only if one is known
			// (an election attempt that re-uses the term of the previous attempt sends such requests too)
			for _, cu := range c.catchups {
				if cu.alive && cu.f == g.to {
					return true
				}
			}
			return false
		})
		if g == nil {
			return
		}
		for _, cu := range c.catchups {
			if cu.f == g.to && cu.alive {
				cu.stage = "sleeping"
			}
		}
		c.event("catch-up new-term to %d: failed (the harness needs the controller's main loop)", g.to)
		c.release(g, nil, errUnavailable)
	}
}

func (c *cluster) catchupGate() *gate {
	if c.el == nil {
		return nil
	}
	return c.findGate(func(g *gate) bool {
		if g.kind != "newterm" || g.fromInc != c.coordInc || g.term != c.el.term {
			return false
		}
		for _, cu := range c.catchups {
			if cu.alive && cu.f == g.to {
				return true
			}
		}
		return false
	})
}

// partialDeletion: the coordinator gave up deleting the removed nodes after it had deleted some of them (the model
// deletes them in one action once the election is complete).
func (c *cluster) partialDeletion(el *election) {
	if el == nil || len(el.deleted) == 0 {
		return
	}
	for _, r := range el.removed {
		if !el.deleted[r] {
			c.stats["model-gap:removed-nodes-deleted-partially"]++
			c.skipModel("DeleteShard reached only some of the removed nodes before the election was abandoned (the model's DeleteRemoved is one action)")
			return
		}
	}
}

func (c *cluster) stepDeleteShard(id int, fail bool) bool {
	el := c.el
	if el == nil || el.phase != "deleting" {
		return false
	}
	g := c.findGate(func(g *gate) bool { return g.kind == "deleteshard" && g.to == id && g.fromInc == c.coordInc })
	if g == nil || (!fail && c.busy(id)) {
		return false
	}
	n := c.node(id)
	if fail || !c.reachable(0, id) {
		c.event("delete-shard to %d: unreachable", id)
		c.release(g, nil, errUnavailable)
		el.phase = "failed"
		c.partialDeletion(el)
		return true
	}
	before := c.shadowLog(id)
	res, err := n.rpcDeleteShard(g.req.(*proto.DeleteShardRequest))
	if err != nil {
		c.event("delete-shard to %d: error %v", id, err)
		c.release(g, nil, err)
		el.phase = "failed"
		c.partialDeletion(el)
		return true
	}
	c.mu.Lock()
	n.term, n.status = -1, proto.ServingStatus_NOT_MEMBER
	n.log, n.pending, n.walFirst = nil, nil, 0
	n.dbCommit, n.advertised, n.mcommit, n.electing = -1, -1, 0, false
	c.mu.Unlock()
	c.killCursorsOf(id)
	c.mon.onDeleted(id, before)
	el.deleted[id] = true
	c.event("delete-shard to %d: wiped", id)
	last := true
	for _, r := range el.removed {
		if !el.deleted[r] {
			last = false
		}
	}
	if last {
		// (the model's DeleteRemoved is enabled once BecomeLeader has run for the elected leader of the term,
		// whatever became of that leader since: the coordinator acts on the RPC's return)
		c.tok("DR")
	}
	c.release(g, res, nil)
	return true
}

func (c *cluster) findCatchup(f int) *catchup {
	for _, cu := range c.catchups {
		if cu.alive && cu.f == f {
			return cu
		}
	}
	return nil
}

// ensembleOfTerm: the ensemble the coordinator is installing (or has installed) for the term.
func (c *cluster) ensembleOfTerm(term int64) []int {
	if c.el != nil && c.el.term == term {
		return c.el.ens
	}
	return c.ids(c.lastMeta.Ensemble)
}

// checkCoordinatorRequests: every AddFollower request the coordinator sends names a member of the shard's ensemble (a
// leader attaches whoever it is told to attach, up to rf-1 followers, and counts its acks for the quorum).
func (c *cluster) checkCoordinatorRequests() {
	c.mu.Lock()
	var gs []*gate
	for _, g := range c.gates {
		if g.from == 0 && g.kind == "addfollower" && !g.checked && g.fromInc == c.coordInc {
			g.checked = true
			gs = append(gs, g)
		}
	}
	c.mu.Unlock()
	for _, g := range gs {
		req := g.req.(*proto.AddFollowerRequest)
		fn := c.nodeByName(req.FollowerName)
		if fn == nil {
			continue
		}
		ens := c.ensembleOfTerm(req.Term)
		if !contains(ens, fn.id) {
			c.violate("attach:follower-not-in-ensemble", fmt.Sprintf(
				"the coordinator sends AddFollower(follower %d, term %d, head (%d,%d)) to leader %d; the ensemble of the shard is %s (stored: term %d, status %v, removed %s): node %d is not a member; a leader that attaches it gives it one of the rf-1 follower slots (a real member is then refused) and counts its acknowledgements for the quorum",
				fn.id, req.Term, req.FollowerHeadEntryId.Term, req.FollowerHeadEntryId.Offset, g.to, intsTok(ens), c.lastMeta.Term, c.lastMeta.Status, intsTok(c.ids(c.lastMeta.RemovedNodes)), fn.id))
		}
	}
}

// strayCatchup: a NewTerm request of the current term to a node for which no catch-up loop of the current election
// exists (the election is over): a retry loop left over from an older election.  It is followed like a catch-up loop.
func (c *cluster) strayCatchup(f int) *catchup {
	if c.el == nil || c.el.phase != "idle" || f == c.el.leader || c.findCatchup(f) != nil {
		return nil
	}
	if _, isFollower := c.el.followers[f]; isFollower && contains(c.el.ens, f) {
		return nil
	}
	term := c.el.term
	if c.findGate(func(g *gate) bool { return g.kind == "newterm" && g.to == f && g.term == term && g.fromInc == c.coordInc }) == nil {
		return nil
	}
	cu := &catchup{f: f, term: term, alive: true, stage: "newterm", stray: true}
	c.catchups = append(c.catchups, cu)
	c.event("a NewTerm request of term %d to node %d arrives outside any election and any catch-up loop of the current election (ensemble %s)", term, f, intsTok(c.el.ens))
	c.stats["stray-fencing-retries"]++
	return cu
}

// stepCatchupWait: like cu, after giving a left-over retry loop the time of its back-off to show up (bounded).
func (c *cluster) stepCatchupWait(f int) bool {
	if c.el == nil || c.el.phase != "idle" {
		return false
	}
	if c.findCatchup(f) == nil {
		term := c.el.term
		deadline := time.Now().Add(strayWait)
		for time.Now().Before(deadline) {
			if c.findGate(func(g *gate) bool { return g.kind == "newterm" && g.to == f && g.term == term && g.fromInc == c.coordInc }) != nil {
				break
			}
			time.Sleep(5 * time.Millisecond)
		}
	}
	return c.stepCatchupNewTerm(f, false)
}

func (c *cluster) stepCatchupNewTerm(f int, fail bool) bool {
	cu := c.findCatchup(f)
	if cu == nil {
		cu = c.strayCatchup(f)
	}
	if cu == nil || c.el == nil || c.el.phase != "idle" || c.el.term != cu.term {
		return false
	}
	if cu.stage == "sleeping" {
		// the loop retries after its backoff (1 s initial): wait for the request
		if !c.waitFor("retry of the catch-up loop", timerWait, func() bool {
			return c.findGate(func(g *gate) bool { return g.kind == "newterm" && g.to == f && g.term == cu.term && g.fromInc == c.coordInc }) != nil
		}) {
			return true
		}
		cu.stage = "newterm"
	}
	find := func() *gate {
		return c.findGate(func(g *gate) bool { return g.kind == "newterm" && g.to == f && g.term == cu.term && g.fromInc == c.coordInc })
	}
	g := find()
	if g == nil && cu.stage == "newterm" {
		// the controller's main loop serves one catch-up loop at a time: if it is busy with the request to a node that
		// cannot be reached, that request fails (connection refused) and this node's request follows
		for i := 0; i < 4 && g == nil; i++ {
			og := c.findGate(func(g *gate) bool {
				return g.kind == "newterm" && g.to != f && g.term == cu.term && g.fromInc == c.coordInc
			})
			if og == nil || c.reachable(0, og.to) || c.findCatchup(og.to) == nil {
				break
			}
			c.event("catch-up new-term to %d: unreachable", og.to)
			c.findCatchup(og.to).stage = "sleeping"
			c.release(og, nil, errUnavailable)
			c.waitFor("the next catch-up request", shortWait, func() bool {
				return find() != nil || c.findGate(func(g *gate) bool { return g.kind == "newterm" && g.fromInc == c.coordInc }) != nil
			})
			g = find()
		}
	}
	if g == nil || cu.stage != "newterm" {
		return false
	}
	if fail {
		c.event("catch-up new-term to %d: failed by the network", f)
		c.release(g, nil, errUnavailable)
		cu.stage = "sleeping"
		return true
	}
	res, r, err := c.deliverNewTerm(c.node(f), g.req.(*proto.NewTermRequest))
	if r == nil {
		return false
	}
	if err != nil {
		c.release(g, nil, err)
		cu.stage = "sleeping"
		return true
	}
	cu.resp = r
	cu.stage = "addfollower"
	c.release(g, res, nil)
	c.waitFor("AddFollower request", shortWait, func() bool {
		return c.findGate(func(g *gate) bool { return g.kind == "addfollower" && g.fromInc == c.coordInc }) != nil
	})
	c.checkCoordinatorRequests()
	return true
}

func (c *cluster) stepAddFollower(fail bool) bool {
	g := c.findGate(func(g *gate) bool { return g.kind == "addfollower" && g.fromInc == c.coordInc })
	if g == nil {
		return false
	}
	req := g.req.(*proto.AddFollowerRequest)
	fn := c.nodeByName(req.FollowerName)
	var cu *catchup
	if fn != nil {
		cu = c.findCatchup(fn.id)
	}
	if cu == nil || cu.stage != "addfollower" {
		return false
	}
	l := c.node(g.to)
	if fail || !c.reachable(0, l.id) {
		c.event("add-follower to %d: unreachable", l.id)
		c.release(g, nil, errUnavailable)
		cu.stage = "sleeping"
		return true
	}
	cu.stage = "inflight"
	cu.call = c.startCall("af", l, req.Term, []int{cu.f}, map[int]*ntResp{cu.f: cu.resp}, map[int]int64{cu.f: req.FollowerHeadEntryId.Offset}, g,
		func(context.Context) (any, error) { return l.rpcAddFollower(req) })
	c.event("add-follower delivered to %d follower=%d head=(%d,%d)", l.id, cu.f, req.FollowerHeadEntryId.Term, req.FollowerHeadEntryId.Offset)
	return true
}

func (c *cluster) stepTruncate(l, f int, fail bool) bool {
	g := c.findGate(func(g *gate) bool { return g.kind == "trunc" && g.from == l && g.to == f })
	if g == nil || c.busy(f) {
		return false
	}
	var call *asyncCall
	for _, x := range c.calls {
		if !x.finished && x.node == l {
			call = x
		}
	}
	req := g.req.(*proto.TruncateRequest)
	n := c.node(f)
	// every Truncate request a leader issues is kept: the network may deliver a copy of it again later
	c.truncs[f] = append(c.truncs[f], sentTruncate{from: l, req: &proto.TruncateRequest{Namespace: req.Namespace, Shard: req.Shard, Term: req.Term,
		HeadEntryId: &proto.EntryId{Term: req.HeadEntryId.Term, Offset: req.HeadEntryId.Offset}}, toInc: c.node(f).inc})
	if fail || !c.reachable(l, f) {
		c.event("truncate %d>%d: unreachable", l, f)
		c.release(g, nil, errUnavailable)
		return true
	}
	logBefore := c.shadowLog(f)
	res, err := n.rpcTruncate(req)
	if err != nil {
		c.event("truncate %d>%d to (%d,%d): error %v", l, f, req.HeadEntryId.Term, req.HeadEntryId.Offset, err)
		c.release(g, nil, err)
		return true
	}
	c.mu.Lock()
	n.status = proto.ServingStatus_FOLLOWER
	c.mu.Unlock()
	c.event("truncate %d>%d to (%d,%d): head now %d, log=%s", l, f, req.HeadEntryId.Term, req.HeadEntryId.Offset, res.HeadEntryId.Offset, logTok(c.shadowLog(f)))
	if call != nil {
		c.emitBL(call)
		// (a leader whose own prefix is a snapshot decides on its WAL only: known finding, reported before the Attach
		// so that the model, whose leader consults its whole log, is not asked about it)
		c.mon.onTruncateDecision(call, l, f, req)
		if !call.attached[f] {
			call.attached[f] = true
			call.startAck[f] = res.HeadEntryId.Offset
			c.emitAttach(call, f, true)
		}
	}
	c.mon.onTruncate(call, l, f, req, res)
	c.mon.onRolledBack(l, f, req.Term, logBefore, c.shadowLog(f))
	c.mon.afterTruncate()
	c.release(g, res, nil)
	return true
}

// redeliverable: the most recent Truncate request issued to the node in the term the node is in now.
func (c *cluster) redeliverable(f int) *sentTruncate {
	n := c.node(f)
	if n == nil {
		return nil
	}
	c.mu.Lock()
	up, term := n.up, n.term
	c.mu.Unlock()
	if !up || c.busy(f) {
		return nil
	}
	l := c.truncs[f]
	for i := len(l) - 1; i >= 0; i-- {
		// (a copy that is still in the network belongs to a connection of the process the original was sent to: it
		// does not reach the process that replaces it after a crash)
		if l[i].req.Term == term && l[i].toInc == n.inc {
			return &l[i]
		}
	}
	return nil
}

// stepRedeliverTruncate: a copy of an earlier Truncate request of the follower's current term reaches it again (a
// stalled first attempt, a retransmission), at any later point: also after the follower has started following and
// acknowledged entries.  A follower that is no longer FENCED must refuse it (ErrInvalidStatus).
func (c *cluster) stepRedeliverTruncate(f int) bool {
	st := c.redeliverable(f)
	if st == nil {
		return false
	}
	n := c.node(f)
	_, before := c.projection(n)
	logBefore := c.shadowLog(f)
	req := &proto.TruncateRequest{Namespace: st.req.Namespace, Shard: st.req.Shard, Term: st.req.Term,
		HeadEntryId: &proto.EntryId{Term: st.req.HeadEntryId.Term, Offset: st.req.HeadEntryId.Offset}}
	res, err := n.rpcTruncate(req)
	if err != nil {
		c.event("redelivered truncate %d>%d to (%d,%d) term=%d: refused (%v), status %v", st.from, f, req.HeadEntryId.Term, req.HeadEntryId.Offset, req.Term, err, before)
		c.stats["truncate-redelivered:refused"]++
		return true
	}
	logAfter := c.shadowLog(f)
	c.mu.Lock()
	n.status = proto.ServingStatus_FOLLOWER
	c.mu.Unlock()
	c.event("redelivered truncate %d>%d to (%d,%d) term=%d: ACCEPTED in status %v, head now %d, log=%s", st.from, f, req.HeadEntryId.Term,
		req.HeadEntryId.Offset, req.Term, before, res.HeadEntryId.Offset, logTok(logAfter))
	c.stats["truncate-redelivered:accepted"]++
	if before == proto.ServingStatus_FOLLOWER {
		c.violate("truncate:accepted-while-following", fmt.Sprintf(
			"node %d was FOLLOWER in term %d with log %s when a copy of the Truncate request (entry id (%d,%d)) that leader %d had issued earlier in that term was delivered again: it accepted it and now holds %s (a node that has started following must refuse Truncate: its log above the requested entry may be acknowledged and committed)",
			f, req.Term, logTok(logBefore), req.HeadEntryId.Term, req.HeadEntryId.Offset, st.from, logTok(logAfter)))
	} else {
		// a FENCED node takes the duplicate as it would have taken the original: legal, but the model has no action for
		// a truncation that is not part of an Attach
		c.stats["model-gap:duplicate-truncate-on-fenced-node"]++
		c.skipModel("a duplicate of a Truncate request was accepted by a node that was (again) FENCED in that term")
	}
	c.mon.onRolledBack(st.from, f, req.Term, logBefore, logAfter)
	return true
}

// busy: a BecomeLeader / AddFollower call is running on the node and holds its controller lock (and the director's
// lock while the controller is being replaced): any other request to the node would just block behind it.
func (c *cluster) busy(id int) bool {
	n := c.node(id)
	if n == nil {
		return false
	}
	c.mu.Lock()
	defer c.mu.Unlock()
	return n.asyncRPC > 0
}

func (c *cluster) stepOpen(l, f int) bool {
	k := c.findCursor(l, f)
	if k == nil || c.busy(f) {
		return false
	}
	find := func() *gate {
		return c.findGate(func(g *gate) bool { return g.kind == "open" && g.from == l && g.to == f && g.term == k.term })
	}
	g := find()
	if g == nil {
		if k.stream != nil && k.stream.alive() {
			return false
		}
		if c.findGate(func(g *gate) bool { return g.kind == "snap" && g.from == l && g.to == f }) != nil {
			return false
		}
		// the cursor is between two attempts (backoff timer): wait for its request
		if !c.waitFor(fmt.Sprintf("cursor %d>%d to reconnect", l, f), timerWait, func() bool {
			return find() != nil || c.findGate(func(g *gate) bool { return g.kind == "snap" && g.from == l && g.to == f }) != nil
		}) {
			return true
		}
		g = find()
		if g == nil {
			return true // it wants to send a snapshot first
		}
	}
	n := c.node(f)
	if !c.reachable(l, f) {
		c.event("open-stream %d>%d term=%d: unreachable", l, f, k.term)
		c.release(g, nil, errUnavailable)
		return true
	}
	follower, err := n.director.GetOrCreateFollower(namespace, shardId, g.term)
	if err != nil {
		c.event("open-stream %d>%d term=%d: rejected %v", l, f, k.term, err)
		c.release(g, nil, err)
		return true
	}
	s := c.newStream(l, f, g.term, g.ctx, k.lInc, n.inc)
	// the stream carries the same metadata as server/rpc_provider.go puts on the real one
	s.srvCtx = metadata.NewIncomingContext(s.srvCtx, metadata.Pairs(constant.MetadataNamespace, namespace,
		constant.MetadataShardId, fmt.Sprintf("%d", shardId), constant.MetadataTerm, fmt.Sprintf("%d", g.term)))
	s.startOff = k.ackOff
	s.serverStarted = true
	go func() {
		var err error
		c.guard("Replicate", func() { err = follower.Replicate(s.server()) }, func() { err = errUnavailable })
		s.mu.Lock()
		s.srvDone, s.srvErr = true, err
		s.cond.Broadcast()
		s.mu.Unlock()
		s.srvCancel()
	}()
	k.stream = s
	c.event("open-stream %d>%d term=%d from offset %d", l, f, k.term, k.ackOff+1)
	c.release(g, s, nil)
	return true
}

func (c *cluster) stepSnapshot(l, f int) bool {
	k := c.findCursor(l, f)
	if k == nil || c.busy(f) {
		return false
	}
	g := c.findGate(func(g *gate) bool { return g.kind == "snap" && g.from == l && g.to == f && g.term == k.term })
	if g == nil {
		return false
	}
	n := c.node(f)
	if !c.reachable(l, f) {
		c.event("snapshot %d>%d: unreachable", l, f)
		c.release(g, nil, errUnavailable)
		return true
	}
	follower, err := n.director.GetOrCreateFollower(namespace, shardId, g.term)
	if err != nil {
		c.event("snapshot %d>%d: rejected %v", l, f, err)
		c.release(g, nil, err)
		return true
	}
	lenBefore := int64(len(c.shadowLog(f)))
	c.mu.Lock()
	termBefore := n.term
	c.mu.Unlock()
	ss := c.newSnapStream(l, f, g.term, g.ctx)
	ss.srvCtx = metadata.NewIncomingContext(ss.srvCtx, metadata.Pairs(constant.MetadataNamespace, namespace,
		constant.MetadataShardId, fmt.Sprintf("%d", shardId), constant.MetadataTerm, fmt.Sprintf("%d", g.term)))
	go func() {
		var err error
		c.guard("SendSnapshot", func() { err = follower.SendSnapshot(ss.server()) }, func() { err = errUnavailable })
		ss.srvErr = err
		close(ss.srvDone)
		ss.cancel()
	}()
	k.snapping = ss
	c.release(g, ss, nil)
	if !c.waitFor("snapshot transfer", shortWait, func() bool {
		c.mu.Lock()
		defer c.mu.Unlock()
		return ss.finished
	}) {
		return true
	}
	c.mu.Lock()
	failed, ack := ss.failed, ss.ackOff
	c.mu.Unlock()
	k.snapping = nil
	if failed {
		c.event("snapshot %d>%d term=%d: failed", l, f, k.term)
		return true
	}
	// the follower now holds the state after entries 0..ack of the leader's log, and nothing in its WAL
	src := c.shadowLog(l)
	c.mu.Lock()
	if termBefore != k.term {
		// handleSnapshot accepts the chunks' term when the node has none (a node that was deleted, or never a member):
		// a deposed leader's cursor can re-populate a node that a swap removed; the model's followers only take data
		// from the leader of the term they were fenced in
		c.stats["model-gap:snapshot-adopts-term-on-termless-node"]++
		c.skipModel("a snapshot was installed on a node that was not in the sender's term (it had no term: deleted or never a member)")
	}
	if lenBefore > ack+1 {
		// the install replaces a longer log by the shorter snapshot: the model has no action that shrinks a log this way
		c.stats["snapshot:shrinks-log(unmapped)"]++
		c.mu.Unlock()
		c.skipModel("a snapshot install replaced a longer follower log")
		c.mu.Lock()
	}
	if ack+1 <= int64(len(src)) {
		n.log = append([]entry(nil), src[:ack+1]...)
	}
	n.walFirst = ack + 1
	n.pending = nil
	n.term = k.term
	n.snapFenced = true
	n.dbCommit, n.advertised = ack, ack
	if ack+1 > n.mcommit {
		n.mcommit = ack + 1
	}
	c.mu.Unlock()
	k.ackOff = ack
	c.event("snapshot %d>%d term=%d installed up to offset %d", l, f, k.term, ack)
	c.tok(fmt.Sprintf("IS:%d:%d:%d", l, f, ack+1))
	c.stats["snapshots"]++
	// the cursor goes on to open the replication stream
	c.waitFor("cursor to open its stream after the snapshot", shortWait, func() bool {
		return c.findGate(func(g *gate) bool { return g.kind == "open" && g.from == l && g.to == f && g.term == k.term }) != nil
	})
	return true
}

func (c *cluster) stepDeliverAppend(l, f int) bool {
	s := c.liveStream(l, f)
	if s == nil || !s.alive() {
		return false
	}
	s.mu.Lock()
	if len(s.toF) == 0 {
		s.mu.Unlock()
		return false
	}
	a := s.toF[0]
	s.toF = s.toF[1:]
	s.handF = append(s.handF, a)
	s.nDelivered++
	s.lastDelivOff = a.Entry.Offset
	adv := a.CommitOffset
	newEntry := a.Entry.Offset
	s.cond.Broadcast()
	s.mu.Unlock()
	c.mu.Lock()
	if fn := c.node(f); newEntry >= int64(len(fn.log)) && fn.term == a.Term {
		fn.advertised = adv
	}
	c.mu.Unlock()
	c.event("deliver-append %d>%d term=%d offset=%d commit=%d", l, f, a.Term, a.Entry.Offset, a.CommitOffset)
	return true
}

func (c *cluster) stepDeliverAck(l, f int) bool {
	k := c.findCursor(l, f)
	if k == nil || k.stream == nil {
		return false
	}
	s := k.stream
	s.mu.Lock()
	if len(s.toL) == 0 || s.broken || s.cliClosed || s.cliRecvDead {
		s.mu.Unlock()
		return false
	}
	a := s.toL[0]
	s.toL = s.toL[1:]
	s.handL = append(s.handL, a)
	s.nAckDeliv++
	s.cond.Broadcast()
	s.mu.Unlock()
	k.ackOff = a.Offset
	c.event("deliver-ack %d>%d term=%d offset=%d", f, l, s.term, a.Offset)
	c.tok(fmt.Sprintf("RK:%d:%d:%d", l, f, a.Offset))
	c.mon.onAckDelivered(l, f, s.term, a.Offset)
	return true
}

func (c *cluster) stepDrain() bool {
	any := false
	for i := 0; i < 2000 && c.unreal == ""; i++ {
		st := c.nextDelivery()
		if st == "" {
			break
		}
		ok := c.subStep(st)
		if !ok {
			break
		}
		any = true
	}
	_ = any
	return true
}

// subStep runs a step inside a macro step (settling after it, but without counting it as a scheduler choice).
func (c *cluster) subStep(st string) bool {
	f := strings.Split(st, ":")
	ok := false
	l, fo := -1, -1
	if len(f) > 1 {
		l, fo = pair(f[1])
	}
	switch f[0] {
	case "tr":
		ok = c.stepTruncate(l, fo, false)
	case "open":
		ok = c.stepOpen(l, fo)
	case "snap":
		ok = c.stepSnapshot(l, fo)
	case "app":
		ok = c.stepDeliverAppend(l, fo)
	case "ack":
		ok = c.stepDeliverAck(l, fo)
	}
	if ok {
		c.settle()
		c.stats["substeps"]++
	}
	return ok
}

// nextDelivery: the first enabled delivery (truncate, snapshot, open, append, ack) in canonical order.
func (c *cluster) nextDelivery() string {
	for _, st := range c.enabledDeliveries() {
		return st
	}
	return ""
}

func (c *cluster) enabledDeliveries() []string {
	var res []string
	c.mu.Lock()
	gs := append([]*gate(nil), c.gates...)
	c.mu.Unlock()
	sort.Slice(gs, func(i, j int) bool { return gs[i].key() < gs[j].key() })
	for _, g := range gs {
		if g.ctx != nil && g.ctx.Err() != nil {
			continue
		}
		if c.busy(g.to) {
			continue
		}
		switch g.kind {
		case "trunc":
			if c.reachable(g.from, g.to) {
				res = append(res, fmt.Sprintf("tr:%d>%d", g.from, g.to))
			}
		case "snap", "open":
			if k := c.findCursor(g.from, g.to); k != nil && k.term == g.term && c.reachable(g.from, g.to) {
				res = append(res, fmt.Sprintf("%s:%d>%d", g.kind, g.from, g.to))
			}
		}
	}
	ks := append([]*cursor(nil), c.cursors...)
	sort.Slice(ks, func(i, j int) bool {
		if ks[i].l != ks[j].l {
			return ks[i].l < ks[j].l
		}
		return ks[i].f < ks[j].f
	})
	for _, k := range ks {
		if !k.alive || k.stream == nil {
			continue
		}
		s := k.stream
		s.mu.Lock()
		nf, nl := len(s.toF), len(s.toL)
		okF := !s.broken && !s.srvDone && !s.cliClosed
		okL := !s.broken && !s.cliClosed && !s.cliRecvDead
		s.mu.Unlock()
		if nf > 0 && okF {
			res = append(res, fmt.Sprintf("app:%d>%d", k.l, k.f))
		}
		if nl > 0 && okL {
			res = append(res, fmt.Sprintf("ack:%d>%d", k.l, k.f))
		}
	}
	return res
}

// ------------------------------------------------------------------------------------------------ faults

func (c *cluster) stepCrash(id int) bool { return c.crashNode(id, nil, false) }

// crashNode: survive (power loss only) = the entries that had been appended and not synced and are in the WAL the node
// comes back with; a process death keeps them all (the page cache survives).
func (c *cluster) crashNode(id int, survive []entry, power bool) bool {
	n := c.node(id)
	if n == nil || !n.up {
		return false
	}
	c.event("crash %d", id)
	// calls running on the node die with the process; so do its outgoing calls
	for _, call := range c.calls {
		if call.node == id && !call.finished {
			call.cancel()
		}
	}
	c.failGatesFrom(id)
	c.waitFor("calls on the crashed node to end", shortWait, func() bool {
		c.mu.Lock()
		defer c.mu.Unlock()
		for _, call := range c.calls {
			if call.node == id && !call.done {
				return false
			}
		}
		return true
	})
	c.failGatesFrom(id)
	for _, s := range c.streamsCopy() {
		if s.from == id || s.to == id {
			s.breakLink()
		}
	}
	c.mu.Lock()
	for _, o := range c.ops {
		if !o.done && o.node == id {
			o.mustFinish = true
		}
	}
	c.mu.Unlock()
	c.killCursorsOf(id)
	// a flush that the schedule holds goes on now (nothing it lets through can reach anybody: the links are gone)
	c.mu.Lock()
	if !power {
		survive = append([]entry(nil), n.pending...)
	}
	synced := append([]entry(nil), n.log...)
	fterm := n.term
	n.park = nil
	held := n.parked != nil
	c.mu.Unlock()
	if held {
		c.releaseFlush(id, false)
	}
	// the model's follower appends and syncs in one action, which the harness reports when the follower acknowledges;
	// entries that were appended, never acknowledged and are in the WAL the node comes back with are reported now
	for _, e := range survive {
		c.event("node %d keeps entry %s (offset %d), which it had appended and not yet synced", id, e.tok(), e.off)
		c.tok(fmt.Sprintf("RA:%d:%d:%d:%s", id, mterm(fterm), e.off, e.tok()))
		c.stats["crash:unsynced-entry-kept"]++
	}
	stopped := make(chan struct{})
	go func() { n.stop(); close(stopped) }()
	c.waitFor("node to stop", shortWait, func() bool {
		select {
		case <-stopped:
			return true
		default:
			return false
		}
	})
	c.mu.Lock()
	n.up = false
	n.log = append(synced, survive...)
	n.pending = nil
	n.pendAtCrash = nil
	n.advertised = -1 // (what the last Append advertised is gone with the process)
	n.electing = false
	if n.term >= 0 {
		n.status = proto.ServingStatus_FENCED
	} else {
		n.status = proto.ServingStatus_NOT_MEMBER
	}
	n.snapFenced = false
	c.mu.Unlock()
	c.tok(fmt.Sprintf("CR:%d", id))
	c.stats["crashes"]++
	c.mon.onCrash(id)
	return true
}

// stepDiskLoss: the node's disk is replaced: the process stops, its WAL and database directories are gone, it comes
// back with nothing (no shard directory: no term, no log, no database).  The coordinator is not told.
func (c *cluster) stepDiskLoss(id int) bool {
	n := c.node(id)
	if n == nil {
		return false
	}
	if n.up && !c.stepCrash(id) {
		return false
	}
	if c.unreal != "" {
		return true
	}
	before := c.shadowLog(id)
	removeAll(filepath.Join(n.dir, "wal"))
	removeAll(filepath.Join(n.dir, "db"))
	c.mu.Lock()
	n.log, n.pending, n.walFirst = nil, nil, 0
	n.pendAtCrash = nil
	n.invalidateImageLocked()
	n.term, n.status = -1, proto.ServingStatus_NOT_MEMBER
	n.dbCommit, n.advertised, n.mcommit, n.electing, n.snapFenced = -1, -1, 0, false, false
	n.curWal = nil
	c.mu.Unlock()
	delete(c.truncs, id)
	c.event("disk-loss %d (it held %s)", id, logTok(before))
	c.tok(fmt.Sprintf("DL:%d", id))
	c.stats["disk-losses"]++
	c.mon.onDiskLoss(id, before)
	if err := n.start(); err != nil {
		c.unrealisable(fmt.Sprintf("restart of node %d after its disk loss failed: %v", id, err))
	}
	return true
}

func (c *cluster) stepRestart(id int) bool {
	n := c.node(id)
	if n == nil || n.up {
		return false
	}
	if err := n.start(); err != nil {
		c.unrealisable(fmt.Sprintf("restart of node %d failed: %v", id, err))
		return true
	}
	c.event("restart %d", id)
	c.mon.onRestart(id)
	return true
}

func (c *cluster) stepLink(a, b int, cut bool) bool {
	if a < 0 || b < 0 || a == b {
		return false
	}
	k := linkKey(a, b)
	c.mu.Lock()
	was := c.cut[k]
	c.cut[k] = cut
	c.mu.Unlock()
	if was == cut {
		return false
	}
	if cut {
		c.event("cut %s", k)
		for _, s := range c.streamsCopy() {
			if (s.from == a && s.to == b) || (s.from == b && s.to == a) {
				s.breakLink()
			}
		}
	} else {
		c.event("heal %s", k)
	}
	return true
}

func (c *cluster) coordIdle() bool {
	if c.ctl == nil || c.coordStopped || c.swapInFlight {
		return false
	}
	if c.el != nil && c.el.phase != "idle" {
		return false
	}
	if c.findGate(func(g *gate) bool { return g.from == 0 && g.fromInc == c.coordInc && g.kind != "newterm" }) != nil {
		return false
	}
	for _, cu := range c.catchups {
		if cu.alive && (cu.stage == "addfollower" || cu.stage == "inflight") {
			return false
		}
	}
	return true
}

func (c *cluster) stepNodeFailure(id int) bool {
	n := c.node(id)
	if n != nil && c.scripted && c.swapInFlight && c.el != nil && c.el.phase == "idle" {
		// scripted schedules: SwapNode returns by itself once the new member has caught up (it polls with a back-off)
		c.waitFor("SwapNode to return", shortWait, func() bool { return !c.swapRunning() })
	}
	if n == nil || !c.coordIdle() {
		return false
	}
	leader := 0
	if c.lastMeta.Leader != nil {
		leader = c.idOf(*c.lastMeta.Leader)
	}
	c.event("coordinator is told that node %d is unavailable", id)
	c.failCatchupGates()
	c.ctl.NodeBecameUnavailable(srv(n))
	if leader == id {
		c.expectElectionStart()
	}
	return true
}

func (c *cluster) swapRunning() bool {
	if !c.swapInFlight {
		return false
	}
	select {
	case err := <-c.swapDone:
		c.swapInFlight = false
		c.event("swap-node returned: %v", err)
		if c.el != nil && c.el.phase == "idle" && len(c.catchups) > 0 {
			// the catch-up loops can use the controller's main loop now
		}
		return false
	default:
		return true
	}
}

func (c *cluster) stepSwap(from, to int) bool {
	a, b := c.node(from), c.node(to)
	if a == nil || b == nil || !c.coordIdle() {
		return false
	}
	ens := c.ids(c.lastMeta.Ensemble)
	if !contains(ens, from) || contains(ens, to) || contains(c.ids(c.lastMeta.RemovedNodes), to) {
		return false
	}
	c.event("swap-node %d -> %d", from, to)
	c.failCatchupGates()
	c.swapDone = make(chan error, 1)
	c.swapInFlight = true
	c.swapFrom, c.swapTo = from, to
	ctl := c.ctl
	go func() { c.swapDone <- ctl.SwapNode(srv(a), srv(b)) }()
	c.expectElectionStart()
	return true
}

// coordinatorDiesInFinalStore: BecomeLeader has succeeded; the coordinator is about to store {SteadyState, leader};
// the process dies inside that Store call (nothing is stored) and a new coordinator starts from the stored metadata.
func (c *cluster) coordinatorDiesInFinalStore() {
	if !c.waitFor("the coordinator to reach its final store", shortWait, func() bool {
		c.mu.Lock()
		defer c.mu.Unlock()
		return c.storeParked
	}) {
		return
	}
	c.event("coordinator dies inside the final store of the election of term %d", c.el.term)
	c.stats["coordinator-crashes-in-final-store"]++
	c.restartCoordinator(true)
}

func (c *cluster) stepCoordRestart() bool {
	if c.ctl == nil {
		return false
	}
	c.event("coordinator restarts")
	return c.restartCoordinator(false)
}

// restartCoordinator: abandon = the old incarnation is stuck inside a call that never returns (it died there).
func (c *cluster) restartCoordinator(abandon bool) bool {
	c.stats["coordinator-restarts"]++
	old := c.ctl
	c.coordStopped = true
	c.mu.Lock()
	c.parkSteadyStore = false
	c.mu.Unlock()
	closed := make(chan struct{})
	go func() { _ = old.Close(); close(closed) }()
	if !abandon {
		c.waitFor("old coordinator to stop", shortWait, func() bool {
			select {
			case <-closed:
				return true
			default:
				return false
			}
		})
	}
	// requests of the old incarnation die with it (their contexts are cancelled); running BecomeLeader calls
	// see the cancellation too
	c.waitFor("calls of the old coordinator to end", shortWait, func() bool {
		c.mu.Lock()
		defer c.mu.Unlock()
		for _, call := range c.calls {
			// BecomeLeader follows its context; AddFollower does not (it goes on server-side, e.g. blocked in Truncate)
			if !call.done && call.g.from == 0 && call.kind == "bl" {
				blockedOnTrunc := false
				for _, g := range c.gates {
					if g.kind == "trunc" && g.from == call.node {
						blockedOnTrunc = true
					}
				}
				if !blockedOnTrunc {
					return false
				}
			}
		}
		for _, g := range c.gates {
			if g.from == 0 && g.ctx.Err() == nil {
				return false
			}
		}
		return true
	})
	c.settle()
	c.swapRunning()
	c.swapInFlight = false
	c.killCatchups()
	if c.el != nil && c.el.phase != "idle" {
		if c.el.phase == "deleting" {
			c.partialDeletion(c.el)
		}
		c.el.phase = "abandoned"
	}
	md := c.lastMeta
	c.coordStopped = false
	c.startCoordinator()
	if md.Leader == nil || md.Status.String() != "SteadyState" {
		c.expectElectionStart()
		return true
	}
	// verifyCurrentEnsemble: one GetStatus per ensemble member, stops at the first bad answer
	leader := c.idOf(*md.Leader)
	expectElection := false
	for _, s := range md.Ensemble {
		id := c.idOf(s)
		n := c.node(id)
		c.mu.Lock()
		busy := n.asyncRPC > 0
		c.mu.Unlock()
		if !c.reachable(0, id) || busy {
			expectElection = true
			break
		}
		res, err := n.rpcGetStatus(&proto.GetStatusRequest{Shard: shardId})
		if err != nil || res.Term != md.Term || (id == leader && res.Status != proto.ServingStatus_LEADER) ||
			(id != leader && res.Status != proto.ServingStatus_FOLLOWER) {
			expectElection = true
			break
		}
	}
	if expectElection {
		c.expectElectionStart()
	} else {
		c.waitFor("coordinator to verify the ensemble", shortWait, func() bool {
			c.mu.Lock()
			defer c.mu.Unlock()
			return c.getStatusCalls >= len(md.Ensemble)
		})
		c.event("coordinator verified the ensemble: no election")
		if c.el != nil {
			c.el.phase = "idle"
		}
	}
	return true
}

var _ = time.Second
