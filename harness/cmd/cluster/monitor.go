package main

// Monitors: the properties evaluated DIRECTLY on the real cluster, independent of the Coq model.
//   C01  acked-write-lost / swap:committed-copy-only-on-removed-node, ack:follower-log-differs-from-leader,
//        commit:not-on-quorum, election:leader-without-max-head, election:two-leaders-one-term,
//        truncate:follower-keeps-entries-the-leader-lacks, newterm:reported-head-differs-from-log,
//        leader:db-differs-from-its-log
//   C02  witness-based linearizability: the linearization is the WAL offset order; every completed write must
//        have returned the response of its position (lin:write-response-mismatch), every completed read must equal
//        the state after a prefix of the serving node's log that is committed (read:uncommitted-data), recent
//        enough when served by the current leader (lin:stale-read-from-current-leader) and never rolled back later
//        (read:rolled-back-data / figure8:old-term-entry-committed-by-count-then-overwritten), no write applied
//        twice (write:applied-twice), committed prefixes never lost (commit:committed-entry-lost).

import (
	"context"
	"fmt"
	"sort"
	"strings"

	"github.com/oxia-db/oxia/proto"
)

type ackedWrite struct {
	o    *op
	term int64
	off  int64
	vid  int
	// acknowledged by a leader whose tracker started at a database commit offset beyond its log (after a figure-8
	// rollback): the offset counted as committed before the entry existed, the answer was given without any copy
	stale bool
}

type readRec struct {
	o        *op
	prefix   []entry
	servTerm int64
}

type monitor struct {
	c           *cluster
	belowSnap   string // pending: a Truncate went below the follower's snapshot prefix (detail)
	acked       []ackedWrite
	blStarted   map[int64]int
	leaders     map[int64]int
	termLog     map[int64][]entry
	termEns     map[int64][]int
	termRemoved map[int64][]int
	removedLogs map[int64]map[int][]entry // term -> removed responder -> log it reported
	commitSeen  map[int64]int64
	committed   map[int64][]entry
	reads       []readRec
	latest      int64 // highest term in which a node finished BecomeLeader
	hasLatest   bool
	readsOK     int
	deletedLogs map[int][]entry // logs of the removed nodes at the moment a swap deleted them
	diskLost    map[int][]entry // node -> the log it held when it lost its disk (latest loss)
}

func newMonitor(c *cluster) *monitor {
	return &monitor{c: c, blStarted: map[int64]int{}, leaders: map[int64]int{}, termLog: map[int64][]entry{}, termEns: map[int64][]int{},
		termRemoved: map[int64][]int{}, removedLogs: map[int64]map[int][]entry{}, commitSeen: map[int64]int64{}, committed: map[int64][]entry{}, deletedLogs: map[int][]entry{}, diskLost: map[int][]entry{}}
}

func (m *monitor) opOf(vid int) *op {
	if vid >= 1 && vid <= len(m.c.ops) {
		return m.c.ops[vid-1]
	}
	return nil
}

// fold replays the first k entries of a log through the sequential specification.
func (m *monitor) fold(lg []entry, k int) *kvState {
	s := newKV()
	for i := 0; i < k && i < len(lg); i++ {
		if o := m.opOf(lg[i].vid); o != nil {
			s.apply(o)
		}
	}
	return s
}

func firstDiff(a, b []entry) int {
	for i := 0; i < len(a); i++ {
		if i >= len(b) || !sameEntry(a[i], b[i]) {
			return i
		}
	}
	return -1
}

// ------------------------------------------------------------------------------------------------ elections

func (m *monitor) onNewTermResponse(n int, term int64, r *ntResp) {
	actual := eid{-1, -1}
	if len(r.log) > 0 {
		e := r.log[len(r.log)-1]
		actual = eid{e.term, e.off}
	}
	if actual != r.head {
		c := m.c
		c.mu.Lock()
		first := c.node(n).walFirst
		c.mu.Unlock()
		if first > 0 && int(first) == len(r.log) && r.head == (eid{-1, -1}) {
			// the node's log was installed as a snapshot and nothing was appended since: its WAL is empty
			c.violate("newterm:snapshot-installed-node-reports-empty-head", fmt.Sprintf(
				"node %d holds the state after entries 0..%d (installed as a snapshot, its WAL is empty) and answered NewTerm(%d) with head (-1,-1) instead of (%d,%d): the election treats it as an empty node",
				n, first-1, term, actual.term, actual.off))
		} else {
			c.violate("newterm:reported-head-differs-from-log", fmt.Sprintf("node %d answered NewTerm(%d) with head (%d,%d) while its log head is (%d,%d)",
				n, term, r.head.term, r.head.off, actual.term, actual.off))
		}
		c.skipModel("a node reported a head that is not the head of its log; the model's nodes report their log")
	}
}

func (m *monitor) onElect(el *election, all []int) {
	lr := el.resp[el.leader]
	if lr == nil {
		return
	}
	for _, x := range all {
		r := el.resp[x]
		if r == nil || !r.ok {
			continue
		}
		if !r.head.le(lr.head) {
			m.c.violate("election:leader-without-max-head", fmt.Sprintf("term %d: node %d elected with head (%d,%d) although responder %d reported (%d,%d)",
				el.term, el.leader, lr.head.term, lr.head.off, x, r.head.term, r.head.off))
		}
		if !contains(el.ens, x) {
			m.c.violate("election:removed-node-as-candidate", fmt.Sprintf("term %d: removed node %d is leader/follower of the BecomeLeader request", el.term, x))
		}
	}
	m.termEns[el.term] = append([]int(nil), el.ens...)
	m.termRemoved[el.term] = append([]int(nil), el.removed...)
	rl := map[int][]entry{}
	for _, x := range el.removed {
		if r := el.resp[x]; r != nil && r.ok {
			rl[x] = r.log
		}
	}
	m.removedLogs[el.term] = rl
}

// leaderOf: the node that led term t (or that was running BecomeLeader for it when it never finished).
func (m *monitor) leaderOf(t int64) int {
	if n, ok := m.leaders[t]; ok {
		return n
	}
	return m.blStarted[t]
}

// statusOf reads the status of a node that was given BecomeLeader(term) earlier (from the node itself when it can answer).
func (m *monitor) statusOf(id int, term int64) string {
	c := m.c
	n := c.node(id)
	if n == nil {
		return ""
	}
	c.mu.Lock()
	up, busy := n.up, n.asyncRPC > 0
	c.mu.Unlock()
	if !up {
		return fmt.Sprintf("; node %d is down now", id)
	}
	if busy {
		return ""
	}
	var res *proto.GetStatusResponse
	var err error
	c.guard("getstatus", func() { res, err = n.rpcGetStatus(&proto.GetStatusRequest{Shard: shardId}) }, func() { err = errUnavailable })
	if err != nil || res == nil {
		return ""
	}
	if res.Status == proto.ServingStatus_LEADER && res.Term == term {
		return fmt.Sprintf("; node %d answers GetStatus with LEADER, term %d: it was never fenced (it refuses a NewTerm of its own term) and goes on serving reads and writes next to the new leader", id, term)
	}
	return fmt.Sprintf("; node %d answers GetStatus with %v, term %d", id, res.Status, res.Term)
}

func (m *monitor) onBecomeLeaderStart(call *asyncCall) {
	if prev, ok := m.blStarted[call.term]; ok && prev != call.node {
		m.c.violate("election:two-leaders-one-term", fmt.Sprintf("nodes %d and %d both ran BecomeLeader for term %d%s", prev, call.node, call.term, m.statusOf(prev, call.term)))
	}
	m.blStarted[call.term] = call.node
	m.termLog[call.term] = m.c.shadowLog(call.node)
}

func (m *monitor) onLeaderAppend(n int, term, off int64) {
	if prev, ok := m.blStarted[term]; ok && prev != n {
		m.c.violate("election:two-leaders-one-term", fmt.Sprintf("node %d appended in term %d, the leader of that term is %d", n, term, prev))
	}
	m.termLog[term] = m.c.shadowLog(n)
}

// onRolledBack: a Truncate removed entries from a follower; none of them may belong to a prefix that an earlier leader
// had committed (and served).
func (m *monitor) onRolledBack(l, f int, term int64, before, after []entry) {
	if len(after) >= len(before) {
		return
	}
	var terms []int64
	for t := range m.committed {
		if t < term {
			terms = append(terms, t)
		}
	}
	sort.Slice(terms, func(i, j int) bool { return terms[i] < terms[j] })
	for _, t := range terms {
		pre := m.committed[t]
		for i := len(after); i < len(before) && i < len(pre); i++ {
			if !sameEntry(pre[i], before[i]) {
				break
			}
			e := pre[i]
			if m.diskConsequence("commit:committed-entry-lost", i, e) {
				return
			}
			if e.term < t {
				m.c.violate("figure8:old-term-entry-committed-by-count-then-overwritten", fmt.Sprintf(
					"entry %s (written in term %d) was counted as committed at offset %d by leader %d of term %d (no entry of term %d covered it) and served; leader %d of term %d (head of a higher term) truncated it off follower %d",
					e.tok(), e.term, i, m.leaderOf(t), t, t, l, term, f))
			} else {
				sig := "commit:committed-entry-lost"
				detail := fmt.Sprintf("offset %d (entry %s) was committed by the leader of term %d; leader %d of term %d truncated it off follower %d", i, e.tok(), t, l, term, f)
				for x, dl := range m.deletedLogs {
					if i < len(dl) && sameEntry(dl[i], e) {
						sig = "swap:removed-node-deleted-before-new-member-caught-up"
						detail += fmt.Sprintf("; node %d held it when a swap deleted it", x)
						break
					}
				}
				for x, rl := range m.removedLogs[term] {
					if i < len(rl) && sameEntry(rl[i], e) {
						sig = "swap:committed-copy-only-on-removed-node"
						detail += fmt.Sprintf("; the removed node %d answered NewTerm(%d) with a log containing it", x, term)
						break
					}
				}
				m.c.violate(sig, detail)
			}
			return
		}
	}
}

// attachDecide is truncateFollowerIfNeeded's decision (leader_controller.go) on (term, length) heads:
// 0 = no truncation needed, 1 = truncate to (tk, k), 2 = error (follower head term above the leader's).
func attachDecide(llog []entry, lhTerm int64, lhLen int, fhTerm int64, fhLen int) (int, int64, int) {
	if fhTerm == lhTerm && fhLen <= lhLen {
		return 0, 0, 0
	}
	if lhTerm < fhTerm {
		return 2, 0, 0
	}
	tk, k := int64(-1), 0
	for i, e := range llog {
		if e.term <= fhTerm {
			tk, k = e.term, i+1
		}
	}
	if fhTerm == tk && fhLen <= k {
		return 0, 0, 0
	}
	return 1, tk, k
}

func headOf(l []entry) (int64, int) {
	if len(l) == 0 {
		return -1, 0
	}
	return l[len(l)-1].term, len(l)
}

// onTruncateDecision: what truncateFollowerIfNeeded decides on the leader's whole log vs what it asked for.
func (m *monitor) onTruncateDecision(call *asyncCall, l, f int, req *proto.TruncateRequest) {
	ll, fl := m.c.shadowLog(l), m.c.shadowLog(f)
	if call == nil || call.resps[f] == nil {
		return
	}
	n := int(call.headOff) + 1
	if n > len(ll) {
		n = len(ll)
	}
	lhT, lhL := headOf(ll[:n])
	fhT, fhL := headOf(call.resps[f].log)
	d, tk, k := attachDecide(ll, lhT, lhL, fhT, fhL)
	m.c.mu.Lock()
	first := m.c.node(l).walFirst
	m.c.mu.Unlock()
	if (d == 0 || (d == 1 && (tk != req.HeadEntryId.Term || int64(k-1) != req.HeadEntryId.Offset))) && first > 0 {
		m.c.violate("truncate:snapshot-installed-leader-over-truncates-follower", fmt.Sprintf(
			"term %d: leader %d holds log %s but its WAL starts at offset %d (the prefix was installed as a snapshot); follower %d reported head (%d,%d), which the leader's log contains up to entry id (%d,%d), but the leader looked only at its WAL and sent Truncate(%d,%d): the follower now holds %s",
			req.Term, l, logTok(ll), first, f, fhT, fhL-1, tk, k-1, req.HeadEntryId.Term, req.HeadEntryId.Offset, logTok(fl)))
		m.c.skipModel("a leader whose log prefix is a snapshot truncates by looking at its WAL only; the model's leader consults its whole log")
	}
}

// onAttachWithoutTruncate: the leader attached the follower's cursor without sending a Truncate: the follower's log
// must then be a prefix of the leader's log (it is going to be extended from its head, and its head is credited to it).
func (m *monitor) onAttachWithoutTruncate(call *asyncCall, f int) {
	l := call.node
	ll, fl := m.c.shadowLog(l), m.c.shadowLog(f)
	i := firstDiff(fl, ll)
	if i < 0 {
		return
	}
	n := int(call.headOff) + 1
	if n > len(ll) {
		n = len(ll)
	}
	lhT, lhL := headOf(ll[:n])
	fhT, fhL := headOf(fl)
	d, tk, k := attachDecide(ll, lhT, lhL, fhT, fhL)
	want := "attach without truncation"
	if d == 1 {
		want = fmt.Sprintf("Truncate to entry id (%d,%d)", tk, k-1)
	} else if d == 2 {
		want = "refuse the follower (its head term is above the leader's)"
	}
	m.c.violate("truncate:follower-keeps-entries-the-leader-lacks", fmt.Sprintf(
		"term %d: Attach %d>%d: leader %d (log %s, election head offset %d) attached follower %d with head (%d,%d) WITHOUT sending a Truncate and credits its cursor with offset %d; the follower's log %s differs from the leader's at offset %d (truncateFollowerIfNeeded on these logs must: %s)",
		call.term, l, f, l, logTok(ll), call.headOff, f, fhT, fhL-1, int64(fhL)-1, logTok(fl), i, want))
}

func (m *monitor) onTruncate(call *asyncCall, l, f int, req *proto.TruncateRequest, res *proto.TruncateResponse) {
	ll, fl := m.c.shadowLog(l), m.c.shadowLog(f)
	if m.c.tainted != "" && strings.HasPrefix(m.c.tainted, "truncate:snapshot-installed-leader") {
		return
	}
	m.c.mu.Lock()
	ffirst := m.c.node(f).walFirst
	m.c.mu.Unlock()
	if req.HeadEntryId.Offset+1 < ffirst {
		// The follower holds offsets below ffirst only as an installed snapshot (its database; a snapshot holds committed
		// entries only) and is asked to roll back into it: the WAL is emptied, the snapshot stays.  Entries of a committed
		// prefix are being rolled back here, which the monitors of committed data judge (onRolledBack, acked writes);
		// the model's follower has a log without a snapshot part: no comparison from here on.
		m.c.stats["model-gap:truncate-below-follower-snapshot-prefix"]++
		m.c.skipModel("a Truncate below the prefix that the follower holds as an installed snapshot (the snapshot stays; the model's follower truncates its whole log)")
		m.belowSnap = fmt.Sprintf("term %d: leader %d (log %s) sent Truncate(%d,%d) to follower %d, which holds the offsets below %d only as an installed snapshot (committed entries, in its database): its WAL is emptied, the snapshot's content stays (%s) and is never rolled back, the entries the leader sends for those offsets are never applied on it",
			req.Term, l, logTok(ll), req.HeadEntryId.Term, req.HeadEntryId.Offset, f, ffirst, logTok(fl))
		return
	}
	// the hypothesis of the proved theorem: after its single Truncate round the follower's head is an entry the
	// leader would accept without truncating again
	if call != nil {
		n := int(call.headOff) + 1
		if n > len(ll) {
			n = len(ll)
		}
		lhT, lhL := headOf(ll[:n])
		fhT, fhL := headOf(fl)
		if d, _, _ := attachDecide(ll, lhT, lhL, fhT, fhL); d != 0 {
			m.c.inconsistentAttaches++
			m.c.violate("truncate:single-round-leaves-inconsistent-follower", fmt.Sprintf(
				"term %d: leader %d (log %s) truncated follower %d to entry id (%d,%d); the follower kept %s whose head (%d,%d) the leader would have to truncate again, but it credits the cursor with offset %d",
				req.Term, l, logTok(ll), f, req.HeadEntryId.Term, req.HeadEntryId.Offset, logTok(fl), fhT, fhL-1, res.HeadEntryId.Offset))
			return
		}
	}
	if i := firstDiff(fl, ll); i >= 0 {
		m.c.violate("truncate:follower-keeps-entries-the-leader-lacks", fmt.Sprintf(
			"term %d: leader %d (log %s) truncated follower %d to entry id (%d,%d); the follower kept %s, which differs from the leader's log at offset %d, and the cursor starts at offset %d",
			req.Term, l, logTok(ll), f, req.HeadEntryId.Term, req.HeadEntryId.Offset, logTok(fl), i, res.HeadEntryId.Offset+1))
	}
}

// afterTruncate (after onTruncate and onRolledBack): a follower was asked to roll back into its snapshot prefix.  A
// snapshot holds committed entries only, so this happens only after committed entries were lost; when that loss has been
// judged (disk loss, figure 8, another root cause) the state of this follower is its consequence and the rest of the trace
// is not judged; otherwise it is reported.
func (m *monitor) afterTruncate() {
	if m.belowSnap == "" {
		return
	}
	detail := m.belowSnap
	m.belowSnap = ""
	c := m.c
	violMu.Lock()
	judged := c.tainted != "" || c.figure8 || c.diskSoft
	if judged {
		c.secondary = append(c.secondary, "truncate:follower-snapshot-prefix-rolled-back")
		if c.tainted == "" {
			c.tainted = "consequence:truncate-below-follower-snapshot-prefix"
		}
	}
	violMu.Unlock()
	if !judged {
		c.violate("truncate:follower-snapshot-prefix-rolled-back", detail)
	}
}

func (m *monitor) onAckEmitted(l, f int, term, off int64) {
	ref := m.termLog[term]
	fl := m.c.shadowLog(f)
	n := int(off) + 1
	if len(ref) < n || len(fl) < n {
		if len(fl) < n {
			return
		}
		ref = m.c.shadowLog(l)
		if len(ref) < n {
			return
		}
	}
	if !samePrefix(ref, fl, n) {
		i := firstDiff(fl[:n], ref)
		m.c.violate("ack:follower-log-differs-from-leader", fmt.Sprintf(
			"term %d: follower %d acknowledged offset %d to leader %d while its log %s differs from the leader's %s at offset %d",
			term, f, off, l, logTok(fl[:n]), logTok(ref[:n]), i))
	}
}

func (m *monitor) onAckDelivered(l, f int, term, off int64) {}
func (m *monitor) onDeleted(n int, lg []entry)              { m.deletedLogs[n] = lg }

// onRestart: the log a node recovers from its directory after a restart must be the log it had before, cut to what
// was synced (the harness never leaves an unsynced tail behind: it must be the same log).
func (m *monitor) onRestart(n int) {
	c := m.c
	nd := c.node(n)
	rec, ok := nd.recoveredLog()
	if !ok {
		return
	}
	c.stats["restart-log-checks"]++
	c.mu.Lock()
	lg := append([]entry(nil), nd.log...)
	first := nd.walFirst
	pend := append([]entry(nil), nd.pendAtCrash...)
	nd.pendAtCrash = nil
	nd.invalidateImageLocked()
	c.mu.Unlock()
	want := lg
	if int(first) <= len(lg) {
		want = lg[first:]
	}
	// the recovered WAL is the synced log, possibly followed by entries that had been appended and not synced when the
	// node went down (process death: all of them; power loss: whatever part of them had reached the disk)
	same := func(a, b entry) bool { return a.term == b.term && a.off == b.off && a.sum == b.sum }
	bad := len(rec) < len(want) || len(rec) > len(want)+len(pend)
	for i := 0; !bad && i < len(rec); i++ {
		if i < len(want) {
			bad = !same(rec[i], want[i])
		} else {
			bad = !same(rec[i], pend[i-len(want)])
		}
	}
	if !bad && len(rec) > len(want) {
		c.stats["restart:unsynced-entries-recovered"]++
		c.mu.Lock()
		nd.log = append(nd.log, pend[:len(rec)-len(want)]...)
		c.mu.Unlock()
	}
	if !bad {
		return
	}
	show := func(l []entry) string {
		if len(l) == 0 {
			return "-"
		}
		var p []string
		for _, e := range l {
			vid := "?"
			c.mu.Lock()
			if k, ok := c.eids[[2]int64{e.term, e.off}]; ok && k.sum == e.sum {
				vid = fmt.Sprint(k.vid)
			}
			c.mu.Unlock()
			p = append(p, fmt.Sprintf("%d:(t%d,%s)", e.off, mterm(e.term), vid))
		}
		return strings.Join(p, " ")
	}
	c.violate("restart:log-differs-from-synced-prefix", fmt.Sprintf(
		"node %d was restarted; before the restart its WAL held %s; the WAL recovered from its directory holds %s (entries that were truncated or never written are back, or synced entries are gone)",
		n, show(want), show(rec)))
}

// onDiskLoss: the node lost its disk; what it held is remembered (longest log over its losses) so that a later loss
// of data can be attributed to it or not.
func (m *monitor) onDiskLoss(n int, lg []entry) {
	if old, ok := m.diskLost[n]; !ok || len(lg) >= len(old) {
		m.diskLost[n] = lg
	}
}

// lostWithDisk: did a node that lost its disk hold this entry at that offset when it lost it?
func (m *monitor) lostWithDisk(i int, e entry) (int, bool) {
	var ns []int
	for x := range m.diskLost {
		ns = append(ns, x)
	}
	sort.Ints(ns)
	for _, x := range ns {
		dl := m.diskLost[x]
		if i < len(dl) && dl[i].term == e.term && dl[i].vid == e.vid {
			return x, true
		}
	}
	return 0, false
}

// majorityKeepsDisk: "a majority of the shard's ensemble keeps its disk" for the current ensemble.
func (m *monitor) majorityKeepsDisk() (bool, []int, []int) {
	ens := m.c.ids(m.c.lastMeta.Ensemble)
	keep := 0
	var lost []int
	for _, x := range ens {
		if _, l := m.diskLost[x]; l {
			lost = append(lost, x)
		} else {
			keep++
		}
	}
	return len(ens) < 2*keep, lost, ens
}

// diskConsequence: a committed / served entry is missing and a node that lost its disk held it: consequence of the
// disk loss (the acknowledged-write verdict is given by checkAcked), not an independent finding.
func (m *monitor) diskConsequence(sig string, i int, e entry) bool {
	if _, ok := m.lostWithDisk(i, e); !ok {
		return false
	}
	violMu.Lock()
	m.c.diskSoft = true
	m.c.secondary = append(m.c.secondary, sig+"(after-disk-loss)")
	violMu.Unlock()
	return true
}
func (m *monitor) onCrash(n int)                            {}
func (m *monitor) onOpFailed(o *op)                         {}

// ------------------------------------------------------------------------------------------------ commit

// afterStep: look at the commit offset of every leading node and check what it claims.
func (m *monitor) afterStep() {
	c := m.c
	for _, n := range c.nodes {
		c.mu.Lock()
		up, term := n.up, n.term
		c.mu.Unlock()
		if !up || m.blStarted[term] != n.id {
			continue
		}
		if _, ok := m.blStarted[term]; !ok {
			continue
		}
		co := n.leaderCommitOffset()
		c.mu.Lock()
		if co+1 > n.mcommit {
			n.mcommit = co + 1
		}
		if co > n.dbCommit && n.status == proto.ServingStatus_LEADER {
			n.dbCommit = co
		}
		c.mu.Unlock()
		seen, ok := m.commitSeen[term]
		if co < 0 || (ok && co <= seen) {
			continue
		}
		lg := c.shadowLog(n.id)
		if int(co) >= len(lg) {
			continue
		}
		m.commitSeen[term] = co
		// a serving leader's database is the replay of its log up to its commit offset (it applies every entry when
		// the entry commits, whoever is or is not still waiting for the answer)
		c.mu.Lock()
		serving := n.status == proto.ServingStatus_LEADER && n.asyncRPC == 0
		c.mu.Unlock()
		if serving {
			m.auditLeaderDB(n.id, term, lg[:co+1], fmt.Sprintf("is LEADER of term %d with commit offset %d; the committed part of its log is", term, co))
		}
		pre := lg[:co+1]
		m.committed[term] = append([]entry(nil), pre...)
		ens := m.termEns[term]
		cnt := 0
		var holders []int
		// a removed node that has not been deleted yet still counts (the prefix was committed with it)
		for _, x := range append(append([]int(nil), ens...), m.termRemoved[term]...) {
			if samePrefix(c.shadowLog(x), pre, len(pre)) {
				cnt++
				holders = append(holders, x)
			}
		}
		if len(ens) > 0 && cnt < len(ens)/2+1 {
			// copies that went away with a disk are not the protocol's doing: if the prefix was on a quorum counting
			// the nodes that held it when they lost their disk, this is the (already judged) disk loss, not a new finding
			lostHolders := 0
			for x, dl := range m.diskLost {
				if contains(ens, x) && !contains(holders, x) && samePrefix(dl, pre, len(pre)) {
					lostHolders++
				}
			}
			if lostHolders > 0 && cnt+lostHolders >= len(ens)/2+1 {
				c.stats["diskloss:commit-quorum-includes-lost-disk"]++
				violMu.Lock()
				c.diskSoft = true
				violMu.Unlock()
				continue
			}
			sig := "commit:not-on-quorum"
			detail := fmt.Sprintf("term %d: leader %d advanced its commit offset to %d but only nodes %v of the ensemble %v (+ removed %v) hold that prefix %s",
				term, n.id, co, holders, ens, m.termRemoved[term], logTok(pre))
			for x, dl := range m.deletedLogs {
				if samePrefix(dl, pre, len(pre)) {
					sig = "swap:removed-node-deleted-before-new-member-caught-up"
					detail += fmt.Sprintf("; node %d held it when a swap deleted it, the members that replaced it have not caught up", x)
					break
				}
			}
			if sig == "commit:not-on-quorum" && pre[len(pre)-1].term < term {
				// the entry at the commit offset is of an older term: the leader re-replicated it and counted
				// acknowledgements, one of them from a follower that a newer leader has truncated since (figure 8)
				sig = "figure8:old-term-entry-counted-as-committed-without-quorum"
				detail += "; the entry at the commit offset was written in an older term and is committed by counting acknowledgements of re-replicated copies"
			}
			c.violate(sig, detail)
		}
	}
}

// ------------------------------------------------------------------------------------------------ leaders

func (m *monitor) invocationContext(n int, term int64) (int, bool) {
	kmin := 0
	for _, a := range m.acked {
		if int(a.off)+1 > kmin {
			kmin = int(a.off) + 1
		}
	}
	cur := m.hasLatest && term == m.latest && m.leaders[term] == n
	return kmin, cur
}

func (m *monitor) onLeader(n int, term int64) {
	c := m.c
	if prev, ok := m.leaders[term]; ok && prev != n {
		c.violate("election:two-leaders-one-term", fmt.Sprintf("nodes %d and %d both became LEADER in term %d", prev, n, term))
	}
	m.leaders[term] = n
	if !m.hasLatest || term > m.latest {
		m.latest, m.hasLatest = term, true
	}
	lg := c.shadowLog(n)
	m.checkAcked(n, term, lg)
	var terms []int64
	for t := range m.committed {
		if t < term {
			terms = append(terms, t)
		}
	}
	sort.Slice(terms, func(i, j int) bool { return terms[i] < terms[j] })
	for _, t := range terms {
		pre := m.committed[t]
		if i := firstDiff(pre, lg); i >= 0 {
			e := pre[i]
			if m.diskConsequence("commit:committed-entry-lost", i, e) {
				continue
			}
			if e.term < t {
				c.violate("figure8:old-term-entry-committed-by-count-then-overwritten", fmt.Sprintf(
					"entry %s (written in term %d) was counted as committed at offset %d by leader %d of term %d (no entry of term %d covered it), that leader served it; leader %d of term %d has log %s: the entry is gone",
					e.tok(), e.term, i, m.leaderOf(t), t, t, n, term, logTok(lg)))
			} else {
				sig := "commit:committed-entry-lost"
				detail := fmt.Sprintf("offset %d (entry %s) was committed by the leader of term %d; leader %d of term %d has log %s", i, e.tok(), t, n, term, logTok(lg))
				for x, rl := range m.removedLogs[term] {
					if i < len(rl) && sameEntry(rl[i], e) {
						sig = "swap:committed-copy-only-on-removed-node"
						detail += fmt.Sprintf("; the removed node %d answered NewTerm(%d) with a log containing it, counted for the majority, not as a candidate", x, term)
						break
					}
				}
				if sig == "commit:committed-entry-lost" {
					for x, dl := range m.deletedLogs {
						if i < len(dl) && sameEntry(dl[i], e) {
							sig = "swap:removed-node-deleted-before-new-member-caught-up"
							detail += fmt.Sprintf("; node %d held it when a swap deleted it", x)
							break
						}
					}
				}
				c.violate(sig, detail)
			}
		}
	}
	for _, r := range m.reads {
		if r.servTerm >= term {
			continue
		}
		if i := firstDiff(r.prefix, lg); i >= 0 {
			e := r.prefix[i]
			if m.diskConsequence("read:rolled-back-data", i, e) {
				continue
			}
			if e.term < r.servTerm {
				c.violate("figure8:old-term-entry-committed-by-count-then-overwritten", fmt.Sprintf(
					"%s served by node %d in term %d returned %s, which rests on entry %s at offset %d (an entry of the older term %d, never acknowledged to its writer, committed by counting copies); leader %d of term %d has log %s: the data was rolled back",
					r.o, r.o.node, r.servTerm, r.o.resultString(), e.tok(), i, e.term, n, term, logTok(lg)))
			} else {
				c.violate("read:rolled-back-data", fmt.Sprintf("%s served by node %d in term %d returned %s, which rests on entry %s at offset %d; leader %d of term %d has log %s",
					r.o, r.o.node, r.servTerm, r.o.resultString(), e.tok(), i, n, term, logTok(lg)))
			}
		}
	}
	m.auditLeaderDB(n, term, lg, fmt.Sprintf("became LEADER of term %d with log", term))
}

// checkAcked: C01 on one leader.
func (m *monitor) checkAcked(n int, term int64, lg []entry) {
	c := m.c
	for _, a := range m.acked {
		if a.term > term {
			continue
		}
		if int(a.off) < len(lg) && lg[a.off].term == a.term && lg[a.off].vid == a.vid {
			continue
		}
		have := "nothing"
		if int(a.off) < len(lg) {
			have = lg[a.off].tok()
		}
		violMu.Lock()
		c.lost = true
		violMu.Unlock()
		if a.stale {
			// the consequence of the stale commit offset reported above (figure8:database-commit-offset-beyond-log-head)
			violMu.Lock()
			c.secondary = append(c.secondary, "acked-write-lost(answered-on-stale-commit-offset)")
			violMu.Unlock()
			continue
		}
		detail := fmt.Sprintf("%s was acknowledged in term %d at offset %d (entry %d.%d); node %d is LEADER in term %d with log %s and has %s at that offset",
			a.o, a.term, a.off, mterm(a.term), a.vid, n, term, logTok(lg), have)
		// classification: the only surviving copies sat on a node that the election consulted for the
		// majority but not for the logs (removed by a swap)
		sig := "acked-write-lost"
		for x, rl := range m.removedLogs[term] {
			if int(a.off) < len(rl) && rl[a.off].term == a.term && rl[a.off].vid == a.vid {
				sig = "swap:committed-copy-only-on-removed-node"
				detail += fmt.Sprintf("; the removed node %d answered NewTerm(%d) with a log containing it, counted for the majority, not as a candidate", x, term)
				break
			}
		}
		if sig == "acked-write-lost" {
			if x, ok := m.lostWithDisk(int(a.off), entry{term: a.term, vid: a.vid}); ok {
				okMaj, lost, ens := m.majorityKeepsDisk()
				if !okMaj {
					// more than a minority of the ensemble lost its disk: the property's clause does not apply
					violMu.Lock()
					c.diskSoft = true
					violMu.Unlock()
					c.stats["diskloss:write-lost-after-majority-lost-disks(no-verdict)"]++
					c.event("note: %s is lost after nodes %v of the ensemble %v lost their disks (no majority kept its disk: no verdict)", a.o, lost, ens)
					continue
				}
				sig = "diskloss:acked-write-lost-after-minority-disk-loss"
				detail += fmt.Sprintf("; the write was acknowledged with a copy on node %d, which then lost its disk and came back empty (nodes that lost a disk: %v, a strict minority of the ensemble %v: a majority kept its disk); the fresh node answered NewTerm with head (-1,-1) like a node that never held anything and counted for the election's majority",
					x, lost, ens)
			}
		}
		if sig == "acked-write-lost" && len(m.termRemoved[term]) > 0 {
			// the election that produced this leader ran during a swap: its majority was counted over ensemble + removed
			// nodes %v, so it need not intersect the quorum that acknowledged the write in the old ensemble
			sig = "swap:election-majority-over-merged-set-misses-ack-quorum"
			detail += fmt.Sprintf("; the election of term %d ran during a swap: its NewTerm majority is counted over the new ensemble plus the removed nodes %v, which does not have to intersect the quorum of the old ensemble that acknowledged the write",
				term, m.termRemoved[term])
		}
		if sig == "acked-write-lost" {
			for x, dl := range m.deletedLogs {
				if int(a.off) < len(dl) && dl[a.off].term == a.term && dl[a.off].vid == a.vid {
					sig = "swap:removed-node-deleted-before-new-member-caught-up"
					detail += fmt.Sprintf("; node %d held it when a swap deleted it (right after the swap's election, before the members that replaced it had caught up): from then on a single crash loses the write", x)
					break
				}
			}
		}
		c.violate(sig, detail)
	}
}

// auditLeaderDB: a node that has just become LEADER must expose exactly the effects of its log.
func (m *monitor) auditLeaderDB(n int, term int64, lg []entry, when string) {
	c := m.c
	nd := c.node(n)
	lc, err := nd.director.GetLeader(shardId)
	if err != nil {
		return
	}
	sh := shardId
	col := &getCollector{done: make(chan error, 1)}
	lc.RangeScan(context.Background(), &proto.RangeScanRequest{Shard: &sh, StartInclusive: "a", EndExclusive: "z"}, col)
	if err := <-col.done; err != nil {
		return
	}
	o := &op{kind: "scan", key: "a", key2: "z", node: n}
	for _, r := range col.res {
		g := getRes{status: r.Status, vid: vidOf(r.Value)}
		if r.Key != nil {
			g.key = *r.Key
		}
		if r.Version != nil {
			g.ver, g.mod = r.Version.VersionId, r.Version.ModificationsCount
		}
		o.gets = append(o.gets, g)
	}
	st := m.fold(lg, len(lg))
	c.stats["leader-db-audits"]++
	if !st.matches(o) {
		c.violate("leader:db-differs-from-its-log", fmt.Sprintf("node %d %s %s; replaying it gives %s but its database shows %s",
			n, when, logTok(lg), st, o.resultString()))
	}
}

// ------------------------------------------------------------------------------------------------ client history

// onCommitAhead: BecomeLeader created the quorum tracker with the node's database commit offset, which is beyond the
// node's log head: the database has applied entries that were later truncated off its log (committed by counting,
// then rolled back: figure 8) and its commit offset was not taken back.
func (m *monitor) onCommitAhead(call *asyncCall, commit int64) {
	m.c.violate("figure8:database-commit-offset-beyond-log-head", fmt.Sprintf(
		"node %d starts leading term %d with log head offset %d and a database commit offset %d: its database applied entries that a later leader truncated off its log, the commit offset stayed; every write it appends at an offset <= %d counts as committed at once and is answered without any copy on a follower",
		call.node, call.term, call.headOff, commit, commit))
}

func (m *monitor) onWriteAcked(o *op) {
	c := m.c
	aw := ackedWrite{o: o, term: o.term, off: o.off, vid: o.id}
	c.mu.Lock()
	if ln := c.node(o.node); ln != nil && ln.aheadTerm == o.term && o.off > ln.aheadHead && o.off <= ln.aheadUpTo {
		aw.stale = true
	}
	c.mu.Unlock()
	if aw.stale {
		c.stats["acks-on-stale-commit-offset(figure8-consequence)"]++
		c.event("note: %s at offset %d was answered at once: the leader's commit offset was already beyond it (stale database commit offset)", o, o.off)
	}
	m.acked = append(m.acked, aw)
	lg := c.shadowLog(o.node)
	// the response must be the one of the write's position in the log
	if int(o.off) < len(lg) {
		st := m.fold(lg, int(o.off))
		es, ev, em := st.apply(o)
		if es != o.wStatus || (es == proto.Status_OK && (o.kind == "put" || o.kind == "cput") && (ev != o.wVer || em != o.wMod)) {
			c.violate("lin:write-response-mismatch", fmt.Sprintf("%s at offset %d returned %v version=%d modifications=%d; its position in the log %s prescribes %v version=%d modifications=%d",
				o, o.off, o.wStatus, o.wVer, o.wMod, logTok(lg[:o.off+1]), es, ev, em))
		}
	}
	// it must be committed where it was acknowledged, and every LEADER of its term or later must hold it
	co := c.node(o.node).leaderCommitOffset()
	if co >= 0 && co < o.off {
		c.violate("ack:before-commit", fmt.Sprintf("%s acknowledged at offset %d while the leader's commit offset is %d", o, o.off, co))
	}
	for _, n := range c.nodes {
		c.mu.Lock()
		st, term, up := n.status, n.term, n.up
		c.mu.Unlock()
		if up && st == proto.ServingStatus_LEADER && term >= o.term {
			m.checkAcked(n.id, term, c.shadowLog(n.id))
		}
	}
	m.checkDuplicates(lg, o.node)
}

func (m *monitor) checkDuplicates(lg []entry, n int) {
	seen := map[int]int{}
	for i, e := range lg {
		if j, ok := seen[e.vid]; ok && e.vid < 900000 {
			m.c.violate("write:applied-twice", fmt.Sprintf("%s is in the log of node %d at offsets %d and %d (%s)", m.opOf(e.vid), n, j, i, logTok(lg)))
		}
		seen[e.vid] = i
	}
}

func (m *monitor) onReadDone(o *op) {
	c := m.c
	lg := c.shadowLog(o.node)
	committed := int(c.node(o.node).leaderCommitOffset()) + 1
	st := newKV()
	var feasible []int
	for k := 0; k <= len(lg); k++ {
		if k > 0 {
			if w := m.opOf(lg[k-1].vid); w != nil {
				st.apply(w)
			}
		}
		if st.matches(o) {
			feasible = append(feasible, k)
		}
	}
	c.stats["reads-checked"]++
	if len(feasible) == 0 {
		c.violate("lin:read-matches-no-prefix", fmt.Sprintf("%s in term %d returned %s, which is the state after no prefix of the serving node's log %s",
			o, o.nodeTerm, o.resultString(), logTok(lg)))
		return
	}
	var fc []int
	for _, k := range feasible {
		if k <= committed {
			fc = append(fc, k)
		}
	}
	if len(fc) == 0 {
		c.violate("read:uncommitted-data", fmt.Sprintf("%s in term %d returned %s: that is the state after %d entries of %s but only %d are committed",
			o, o.nodeTerm, o.resultString(), feasible[0], logTok(lg), committed))
		fc = feasible
	}
	wit := fc[0]
	if o.isCurrent {
		ok := false
		for _, k := range fc {
			if k >= o.kmin {
				ok = true
				wit = k
				break
			}
		}
		if !ok {
			c.violate("lin:stale-read-from-current-leader", fmt.Sprintf(
				"%s was invoked on the current leader (term %d) after writes up to offset %d had been acknowledged, and returned %s, the state after only %d entries of %s",
				o, o.nodeTerm, o.kmin-1, o.resultString(), fc[len(fc)-1], logTok(lg)))
		}
	}
	m.reads = append(m.reads, readRec{o: o, prefix: append([]entry(nil), lg[:wit]...), servTerm: o.nodeTerm})
	m.readsOK++
}

// finalChecks: at the end of a trace.
func (m *monitor) finalChecks() {
	c := m.c
	for _, n := range c.nodes {
		lg := c.shadowLog(n.id)
		m.checkDuplicates(lg, n.id)
		real, ok := n.readRealLog()
		if !ok {
			continue
		}
		c.mu.Lock()
		first := n.walFirst
		c.mu.Unlock()
		c.stats["wal-readbacks"]++
		want := lg
		if int(first) <= len(lg) {
			want = lg[first:]
		}
		bad := len(real) != len(want)
		for i := 0; !bad && i < len(real); i++ {
			if real[i].term != want[i].term || real[i].off != want[i].off || real[i].sum != want[i].sum {
				bad = true
			}
		}
		if bad {
			c.violate("wal:content-differs-from-recorded-appends", fmt.Sprintf("node %d: the WAL holds %d entries from offset %d, the recorded successful appends/truncations give %d (%s)",
				n.id, len(real), first, len(want), logTok(want)))
		}
	}
}
