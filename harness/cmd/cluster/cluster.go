package main

// The cluster under test and the step interpreter.  A trace is a list of STEPS (scheduler choices); every step
// performs one externally visible thing on the real cluster (deliver one message, release one gate, start one
// client operation, crash a node, ...), then waits until the real goroutines have done everything that follows
// from it without further scheduler decisions ("settle"), then reports what happened, in a canonical order, into
// ONE totally ordered event log and into the list of model actions ("harvest"), then runs the monitors.

import (
	"context"
	"fmt"
	"os"
	"path/filepath"
	"runtime/debug"
	"strconv"
	"strings"
	"sync"
	"time"

	"github.com/oxia-db/oxia/coordinator/controllers"
	"github.com/oxia-db/oxia/coordinator/model"
	"github.com/oxia-db/oxia/proto"
)

type eid struct{ term, off int64 }

func (a eid) le(b eid) bool { return a.term < b.term || (a.term == b.term && a.off <= b.off) }

type ntResp struct {
	ok   bool
	head eid
	log  []entry
}

type election struct {
	term        int64
	ens         []int
	removed     []int
	size        int
	majority    int
	resp        map[int]*ntResp
	succ, total int
	hadErr      bool
	phase       string // quorum | grace | await-bl | bl-pending | bl-inflight | deleting | await-steady | done | failed
	leader      int
	followers   map[int]eid
	call        *asyncCall
	deleted     map[int]bool
	swap        bool
	retried     bool
	inc         int  // coordinator incarnation that runs this attempt
	unstored    bool // the attempt began without a Store of its term
}

// asyncCall: a BecomeLeader / AddFollower request running on a node (it holds the controller lock and may block on
// Truncate gates and, for BecomeLeader, on the commit of the election head).
type asyncCall struct {
	kind      string // bl | af
	node      int
	term      int64
	followers []int
	g         *gate
	cancel    context.CancelFunc
	headOff   int64 // leader's head offset when the call started
	done      bool
	err       error
	blEmitted bool
	lose      bool // the node processes the request, the coordinator gets an error (response lost / timeout)
	crashCoord bool // the coordinator dies in its final store after this BecomeLeader succeeded
	finished  bool // result harvested
	attached  map[int]bool
	resps     map[int]*ntResp
	startAck  map[int]int64 // where each follower's cursor starts (follower head, or the head after Truncate)
	initCommit int64        // the node's database commit offset when the call started (tracker's initial commit)
}

type cursor struct {
	l, f     int
	term     int64
	lInc     int
	ackOff   int64
	alive    bool
	stream   *rstream
	snapping *snapStream
}

type catchup struct {
	stray bool // not a loop of the current election: a retry left over from an older one
	f     int
	term  int64
	alive bool
	resp  *ntResp
	stage string // newterm | addfollower | inflight | sleeping | done
	call  *asyncCall
}

type violation struct{ sig, detail string }

// sentTruncate: a Truncate request a leader issued (kept for redelivery).
type sentTruncate struct {
	from  int
	req   *proto.TruncateRequest
	toInc int // incarnation of the receiving process (a copy in the network reaches that process or nobody)
}

type cluster struct {
	mu   sync.Mutex
	id   string
	mode string
	tmp  string
	dead chan struct{}

	nodes   []*node
	ens0    []int
	gates   []*gate
	gateSeq int

	streams   []*rstream
	streamSeq int
	cursors   []*cursor
	truncs    map[int][]sentTruncate
	cut       map[string]bool

	eids         map[[2]int64]entry
	nextInternal int
	curOp        *op
	ops          []*op

	// coordinator
	ctl                controllers.ShardController
	crpc               *coordRPC
	coordInc           int
	stores             []model.ShardMetadata
	storesSeen         int
	lastMeta           model.ShardMetadata
	el                 *election
	catchups           []*catchup
	calls              []*asyncCall
	swapDone           chan error
	swapInFlight       bool
	coordStopped       bool
	parkSteadyStore    bool // the next final store of an election parks (the coordinator dies inside it)
	storeParked        bool
	leaderElectedCalls int
	leaderElectedSeen  int
	getStatusCalls     int
	getStatusBad       bool
	lastStatus         map[int]*proto.GetStatusResponse
	retryElections     int
	scripted            bool // the trace follows a scripted schedule
	captureFlush        bool // real WAL syncs, flush images and parks (power loss)
	pendLose, pendCrash bool // flags of the BecomeLeader call about to start
	swapFrom, swapTo    int

	// outputs
	steps    []string
	events   []string
	toks     []string
	viols    []violation
	violSeen map[string]bool
	tainted   string
	lost      bool // an acknowledged write was found missing from a leader
	figure8   bool
	diskSoft  bool // a loss attributed to a disk loss happened: its consequences are not reported again
	secondary []string
	unreal   string
	stats    map[string]int
	lastCK   map[int]string
	stepNo   int
	cur      string
	t0       time.Time

	pickSeed             uint64
	roles                map[string]int
	perm                 map[int]int // replay: recorded node id -> node id of this run
	modelSkip            string // model validation stops at tokCut (a real behaviour without model counterpart)
	tokCut               int
	c01AtCut             bool
	inconsAtCut          int
	inconsistentAttaches int

	mon *monitor
}

func linkKey(a, b int) string {
	if a > b {
		a, b = b, a
	}
	return fmt.Sprintf("%d-%d", a, b)
}

func srv(n *node) model.Server { return model.Server{Public: "p" + n.name, Internal: n.name} }

func newCluster(id string, mode string, nNodes int, rf int) (*cluster, error) {
	base := os.Getenv("VERIF_CLUSTER_RUNDIR")
	if base == "" {
		base = os.Getenv("VERIF_TMP")
	}
	if base == "" {
		base = "/var/tmp"
	}
	tmp, err := os.MkdirTemp(base, "cluster-")
	if err != nil {
		return nil, err
	}
	c := &cluster{id: id, mode: mode, tmp: tmp, dead: make(chan struct{}), cut: map[string]bool{}, truncs: map[int][]sentTruncate{}, eids: map[[2]int64]entry{},
		stats: map[string]int{}, lastCK: map[int]string{}, violSeen: map[string]bool{}, lastStatus: map[int]*proto.GetStatusResponse{}}
	c.captureFlush = os.Getenv("VERIF_CLUSTER_NOSYNC") == ""
	c.mon = newMonitor(c)
	c.t0 = time.Now()
	for i := 1; i <= nNodes; i++ {
		n := &node{c: c, id: i, name: fmt.Sprintf("n%d", i), dir: filepath.Join(tmp, fmt.Sprintf("n%d", i)), term: -1,
			status: proto.ServingStatus_NOT_MEMBER, advertised: -1, dbCommit: -1, aheadTerm: -2}
		if err := n.start(); err != nil {
			return nil, err
		}
		c.nodes = append(c.nodes, n)
	}
	for i := 1; i <= rf; i++ {
		c.ens0 = append(c.ens0, i)
	}
	var ens []model.Server
	for _, i := range c.ens0 {
		ens = append(ens, srv(c.node(i)))
	}
	c.lastMeta = model.ShardMetadata{Status: model.ShardStatusUnknown, Term: -1, Leader: nil, Ensemble: ens}
	return c, nil
}

func (c *cluster) node(id int) *node {
	if id < 1 || id > len(c.nodes) {
		return nil
	}
	return c.nodes[id-1]
}

func (c *cluster) idOf(s model.Server) int {
	n := c.nodeByName(s.Internal)
	if n == nil {
		return 0
	}
	return n.id
}

func (c *cluster) ids(l []model.Server) []int {
	var r []int
	for _, s := range l {
		r = append(r, c.idOf(s))
	}
	return r
}

func (c *cluster) startCoordinator() {
	c.mu.Lock()
	c.coordInc++
	c.crpc = &coordRPC{c: c, inc: c.coordInc}
	md := c.lastMeta.Clone()
	c.getStatusCalls, c.getStatusBad = 0, false
	c.mu.Unlock()
	nc := &model.NamespaceConfig{Name: namespace, InitialShardCount: 1, ReplicationFactor: uint32(len(md.Ensemble))}
	c.ctl = controllers.NewShardController(namespace, shardId, nc, md, cfgStub{}, &statusRes{c: c, inc: c.coordInc}, listenerStub{c}, c.crpc)
}

func (c *cluster) teardown() {
	select {
	case <-c.dead:
	default:
		close(c.dead)
	}
	done := make(chan struct{})
	go func() {
		defer close(done)
		for _, call := range c.calls {
			if call.cancel != nil {
				call.cancel()
			}
		}
		c.failGatesFrom(-1)
		if c.ctl != nil {
			_ = c.ctl.Close()
		}
		for _, s := range c.streamsCopy() {
			s.breakLink()
		}
		for _, n := range c.nodes {
			c.failGatesFrom(n.id)
			n.stop()
		}
	}()
	select {
	case <-done:
	case <-time.After(10 * time.Second):
	}
	removeAll(c.tmp)
}

func (c *cluster) streamsCopy() []*rstream {
	c.mu.Lock()
	defer c.mu.Unlock()
	return append([]*rstream(nil), c.streams...)
}

// failGatesFrom releases with an error every pending gate whose caller is the given node (-1: all).
func (c *cluster) failGatesFrom(from int) {
	for {
		g := c.findGate(func(g *gate) bool { return from == -1 || g.from == from })
		if g == nil {
			return
		}
		c.release(g, nil, errUnavailable)
	}
}

// ------------------------------------------------------------------------------------------------ output helpers

func (c *cluster) event(format string, a ...any) {
	if os.Getenv("VERIF_CLUSTER_TIMES") != "" {
		c.events = append(c.events, fmt.Sprintf("%d [%dms] %s", c.stepNo, time.Since(c.t0).Milliseconds(), fmt.Sprintf(format, a...)))
		return
	}
	c.events = append(c.events, fmt.Sprintf("%d %s", c.stepNo, fmt.Sprintf(format, a...)))
}

func (c *cluster) tok(t string) {
	c.toks = append(c.toks, t)
	i := strings.IndexByte(t, ':')
	k := t
	if i > 0 {
		k = t[:i]
	}
	c.stats["act:"+k]++
}

// violate may be called with c.mu held or not: it only touches fields owned by the violation list's own lock.
var violMu sync.Mutex

// Root causes after which the cluster is outside the protocol's invariants: what the monitors report later in the
// same trace is a consequence, not an independent finding (it is counted, not reported).
var tainting = []string{"attach:", "swap:", "newterm:", "truncate:", "acked-write-lost", "ack:", "commit:not-on-quorum", "election:", "wal:", "restart:", "panic:", "harness:"}

func (c *cluster) violate(sig, detail string) {
	violMu.Lock()
	defer violMu.Unlock()
	if c.violSeen[sig] {
		return
	}
	c.violSeen[sig] = true
	if c.tainted != "" {
		c.secondary = append(c.secondary, sig)
		return
	}
	if c.figure8 && (strings.HasPrefix(sig, "commit:") || strings.HasPrefix(sig, "read:") || strings.HasPrefix(sig, "lin:") || strings.HasPrefix(sig, "leader:")) &&
		!strings.HasPrefix(sig, "figure8:database-commit-offset-beyond-log-head") {
		// a served-then-rolled-back entry (figure 8) leaves a node whose database has applied an entry that no longer
		// exists in any log (the entries that later take its offset are never applied there: the database's commit
		// offset is already past them); what that node's commit offset, database or readers show afterwards is a
		// consequence, not a new finding
		c.secondary = append(c.secondary, sig)
		return
	}
	if c.diskSoft && (strings.HasPrefix(sig, "commit:committed") || strings.HasPrefix(sig, "read:") || strings.HasPrefix(sig, "lin:") || strings.HasPrefix(sig, "leader:")) {
		// an acknowledged write went away with a disk (judged by its own signature, or not judged when a majority lost
		// disks): what readers, committed prefixes and databases show afterwards follows from it; losses of OTHER
		// acknowledged writes and protocol anomalies (acked-write-lost, swap:, truncate:, ack:, election:) are still reported
		c.secondary = append(c.secondary, sig)
		return
	}
	c.viols = append(c.viols, violation{sig, fmt.Sprintf("[step %d] %s", c.stepNo, detail)})
	if strings.HasPrefix(sig, "diskloss:") {
		c.diskSoft = true
	}
	for _, p := range tainting {
		if strings.HasPrefix(sig, p) {
			c.tainted = sig
		}
	}
	if (c.tainted != "" || strings.HasPrefix(sig, "figure8:")) && c.modelSkip == "" {
		// from here on the real cluster is outside the invariants the model's transitions rely on (e.g. a database
		// commit offset beyond the log): comparing it with the model any further says nothing
		c.modelSkip = "first violation of the trace: " + sig
		c.tokCut = len(c.toks)
		c.c01AtCut = !c.lost
		c.inconsAtCut = c.inconsistentAttaches
	}
	if strings.HasPrefix(sig, "figure8:") {
		c.figure8 = true
	}
}

// guard runs real code on a harness goroutine; a panic there (in production: in a gRPC handler goroutine, which
// kills the server process) is recorded and turned into an error for the caller.
func (c *cluster) guard(what string, fn func(), onPanic func()) {
	defer func() {
		if r := recover(); r != nil {
			st := strings.Split(string(debug.Stack()), "\n")
			var where []string
			for _, l := range st {
				if strings.Contains(l, "/repo/") {
					where = append(where, strings.TrimSpace(l))
				}
			}
			if len(where) > 3 {
				where = where[:3]
			}
			c.violate("panic:"+what, fmt.Sprintf("%v at %s", r, strings.Join(where, " <- ")))
			onPanic()
		}
	}()
	fn()
}

func (c *cluster) unrealisable(what string) {
	if c.unreal == "" {
		c.unreal = what
	}
}

// waitFor polls a condition that the real goroutines are expected to make true without any further scheduler
// decision.  A timeout is not a violation: the schedule is reported as not realisable.
func (c *cluster) waitFor(what string, timeout time.Duration, cond func() bool) bool {
	if c.unreal != "" {
		return false
	}
	deadline := time.Now().Add(timeout)
	d := 20 * time.Microsecond
	for {
		if cond() {
			return true
		}
		if time.Now().After(deadline) {
			c.unrealisable(fmt.Sprintf("step %d (%s): timed out waiting for %s", c.stepNo, c.curStep(), what))
			return false
		}
		time.Sleep(d)
		if d < 2*time.Millisecond {
			d *= 2
		}
	}
}

func (c *cluster) curStep() string { return c.cur }

const shortWait = 4 * time.Second
const timerWait = 8 * time.Second

// strayWait: how long a schedule gives a left-over retry loop (1 s initial back-off, growing) to show up
const strayWait = 3 * time.Second

func mterm(t int64) int64 { return t + 1 }

func statusLetter(s proto.ServingStatus) string {
	switch s {
	case proto.ServingStatus_NOT_MEMBER:
		return "N"
	case proto.ServingStatus_FENCED:
		return "F"
	case proto.ServingStatus_FOLLOWER:
		return "O"
	case proto.ServingStatus_LEADER:
		return "L"
	}
	return "?"
}

func intsTok(l []int) string {
	if len(l) == 0 {
		return "-"
	}
	s := make([]string, len(l))
	for i, x := range l {
		s[i] = strconv.Itoa(x)
	}
	return strings.Join(s, ",")
}

func contains(l []int, x int) bool {
	for _, y := range l {
		if y == x {
			return true
		}
	}
	return false
}

func (c *cluster) reachable(a, b int) bool {
	c.mu.Lock()
	defer c.mu.Unlock()
	if c.cut[linkKey(a, b)] {
		return false
	}
	if a != 0 && !c.node(a).up {
		return false
	}
	if b != 0 && !c.node(b).up {
		return false
	}
	return true
}

func (c *cluster) shadowLog(n int) []entry {
	c.mu.Lock()
	defer c.mu.Unlock()
	return append([]entry(nil), c.node(n).log...)
}

func (c *cluster) lastOff(n int) int64 {
	c.mu.Lock()
	defer c.mu.Unlock()
	return int64(len(c.node(n).log)) - 1
}

// ------------------------------------------------------------------------------------------------ projection / checkpoints

func (c *cluster) projection(n *node) (int64, proto.ServingStatus) {
	c.mu.Lock()
	busy := n.asyncRPC > 0
	up := n.up
	c.mu.Unlock()
	if up && !busy {
		if res, err := n.rpcGetStatus(&proto.GetStatusRequest{Shard: shardId}); err == nil {
			c.mu.Lock()
			n.term, n.status = res.Term, res.Status
			c.mu.Unlock()
			return res.Term, res.Status
		}
	}
	c.mu.Lock()
	defer c.mu.Unlock()
	return n.term, n.status
}

func (c *cluster) checkpoints(force bool) {
	for _, n := range c.nodes {
		if el := c.el; el != nil && el.deleted[n.id] {
			// several removed nodes are deleted one DeleteShard at a time, the model deletes them in one action
			// (emitted at the last one): no checkpoint for an already deleted node until then
			all := true
			for _, r := range el.removed {
				if !el.deleted[r] {
					all = false
				}
			}
			if !all {
				continue
			}
		}
		t, st := c.projection(n)
		letter := statusLetter(st)
		c.mu.Lock()
		lg := logTok(n.log)
		if n.snapFenced && st == proto.ServingStatus_FENCED {
			letter = "X"
		}
		c.mu.Unlock()
		ck := fmt.Sprintf("CK:%d:%d:%s:%s", n.id, mterm(t), letter, lg)
		if force || c.lastCK[n.id] != ck {
			c.lastCK[n.id] = ck
			c.toks = append(c.toks, ck)
			c.stats["checkpoints"]++
		}
	}
}

// ------------------------------------------------------------------------------------------------ stores

func (c *cluster) newStores() []model.ShardMetadata {
	c.mu.Lock()
	defer c.mu.Unlock()
	res := append([]model.ShardMetadata(nil), c.stores[c.storesSeen:]...)
	c.storesSeen = len(c.stores)
	return res
}

func (c *cluster) pendingStores() int {
	c.mu.Lock()
	defer c.mu.Unlock()
	return len(c.stores) - c.storesSeen
}

func (c *cluster) harvestStores() {
	for _, md := range c.newStores() {
		last := c.lastMeta
		ens, rem := c.ids(md.Ensemble), c.ids(md.RemovedNodes)
		leader := 0
		if md.Leader != nil {
			leader = c.idOf(*md.Leader)
		}
		c.event("store term=%d status=%v leader=%d ens=%s removed=%s", md.Term, md.Status, leader, intsTok(ens), intsTok(rem))
		if md.Term > last.Term && c.el != nil && c.el.unstored && c.el.inc == c.coordInc && c.el.term == md.Term {
			// the (only) store of an election that began without one
			if md.Status == model.ShardStatusSteadyState {
				c.el.phase = "done"
			}
		} else if md.Term == last.Term && md.Status == model.ShardStatusElection && last.Term >= 0 {
			// another attempt in the term of the previous one
			c.event("election attempt re-uses term %d", md.Term)
			c.stats["model-gap:election-term-reused"]++
			c.skipModel("an election attempt re-uses the term of the previous attempt (every election of the model has its own term)")
			c.stats["elections"]++
			c.killCatchups()
			sz := len(ens) + len(rem)
			c.el = &election{term: md.Term, ens: ens, removed: rem, size: sz, majority: sz/2 + 1, resp: map[int]*ntResp{},
				phase: "quorum", deleted: map[int]bool{}, swap: c.swapInFlight, inc: c.coordInc}
		} else if md.Term > last.Term {
			oldEns := c.ids(last.Ensemble)
			from, to := 0, 0
			for _, x := range oldEns {
				if !contains(ens, x) {
					from = x
				}
			}
			for _, x := range ens {
				if !contains(oldEns, x) {
					to = x
				}
			}
			if md.Term != last.Term+1 {
				c.violate("coordinator:term-skipped", fmt.Sprintf("stored term %d after %d", md.Term, last.Term))
			}
			if from != 0 && to != 0 {
				c.tok(fmt.Sprintf("SW:%d:%d", from, to))
				c.stats["swaps"]++
			} else {
				c.tok("NE")
			}
			c.stats["elections"]++
			c.killCatchups()
			if c.el != nil && c.el.call != nil && !c.el.call.done {
				// cannot happen: the coordinator is blocked in the BecomeLeader call
				c.event("note: new election while BecomeLeader in flight")
			}
			sz := len(ens) + len(rem)
			c.el = &election{term: md.Term, ens: ens, removed: rem, size: sz, majority: sz/2 + 1, resp: map[int]*ntResp{},
				phase: "quorum", deleted: map[int]bool{}, swap: c.swapInFlight, inc: c.coordInc}
		} else if md.Status == model.ShardStatusSteadyState && c.el != nil && md.Term == c.el.term {
			c.el.phase = "done"
		}
		c.lastMeta = md.Clone()
	}
}

func (c *cluster) killCatchups() {
	for _, cu := range c.catchups {
		cu.alive = false
	}
	c.catchups = nil
}

// ------------------------------------------------------------------------------------------------ cursors

func (c *cluster) findCursor(l, f int) *cursor {
	for _, k := range c.cursors {
		if k.alive && k.l == l && k.f == f {
			return k
		}
	}
	return nil
}

// killCursorsOf: the leader controller of node l closed its cursors (NewTerm, close, crash).
func (c *cluster) killCursorsOf(l int) {
	for _, k := range c.cursors {
		if k.l == l {
			k.alive = false
		}
	}
}

func (c *cluster) liveStream(l, f int) *rstream {
	k := c.findCursor(l, f)
	if k == nil || k.stream == nil {
		return nil
	}
	return k.stream
}
