package main

// In-process replacement of the server<->server gRPC layer (server.ReplicationRpcProvider).  Every stream is a pair
// of in-memory queues OWNED BY THE SCHEDULER: an Append sent by a leader's cursor sits in the queue until the
// scheduler delivers it, the same for the follower's Acks.  Opening a stream, sending a snapshot and the synchronous
// Truncate RPC are gates the scheduler releases.  The routing on the receiving side replicates
// server/internal_rpc_server.go (GetOrCreateFollower(namespace, shard, term) + handler).
//
// gRPC semantics that the protocol code relies on and that are reproduced here:
//   * a stream is FIFO and loss-free until it breaks; when it breaks both ends get an error from Recv;
//   * when the server handler returns, the client's Recv yields the remaining messages and then io.EOF (nil error)
//     or the handler's error; Send on a finished stream returns io.EOF;
//   * the server stream's context is cancelled when the handler returns, the client cancels or the link breaks.

import (
	"context"
	"fmt"
	"io"
	"sync"

	"google.golang.org/grpc/codes"
	"google.golang.org/grpc/metadata"
	"google.golang.org/grpc/status"

	"github.com/oxia-db/oxia/proto"
)

var errUnavailable = status.Error(codes.Unavailable, "verif: node unreachable")

type gateResult struct {
	v   any
	err error
}

// gate: a blocked call of the real code waiting for the scheduler.
type gate struct {
	kind     string // open | snap | trunc | newterm | becomeleader | addfollower | deleteshard
	from, to int    // node ids (from = 0: coordinator)
	term     int64
	req      any
	ctx      context.Context
	done     chan gateResult
	seq      int
	fromInc  int // incarnation of the calling node/coordinator when the call was made
	checked  bool // coordinator request: looked at by checkCoordinatorRequests
}

func (g *gate) key() string { return fmt.Sprintf("%s:%d>%d@%d", g.kind, g.from, g.to, g.term) }

// addGate registers a blocked call and waits for the scheduler's verdict (or for the caller's context).
func (c *cluster) addGate(g *gate) gateResult {
	g.done = make(chan gateResult, 1)
	c.mu.Lock()
	c.gateSeq++
	g.seq = c.gateSeq
	c.gates = append(c.gates, g)
	c.mu.Unlock()
	var ctxDone <-chan struct{}
	if g.ctx != nil {
		ctxDone = g.ctx.Done()
	}
	select {
	case r := <-g.done:
		return r
	case <-ctxDone:
		if c.removeGate(g) {
			return gateResult{nil, g.ctx.Err()} // withdrawn while still pending
		}
		if g.kind == "becomeleader" || g.kind == "addfollower" {
			// the request is running on the node (it goes on there); the caller stops waiting, as a gRPC client does
			return gateResult{nil, g.ctx.Err()}
		}
		// the scheduler has already taken the call: its verdict is on the way
		select {
		case r := <-g.done:
			return r
		case <-c.dead:
			return gateResult{nil, errUnavailable}
		}
	case <-c.dead:
		c.removeGate(g)
		return gateResult{nil, errUnavailable}
	}
}

// removeGate takes the gate off the pending list; false if somebody else already did.
func (c *cluster) removeGate(g *gate) bool {
	c.mu.Lock()
	defer c.mu.Unlock()
	for i, x := range c.gates {
		if x == g {
			c.gates = append(c.gates[:i], c.gates[i+1:]...)
			return true
		}
	}
	return false
}

// findGate returns the oldest pending gate matching the predicate (nil if none). Caller must not hold c.mu.
func (c *cluster) findGate(pred func(*gate) bool) *gate {
	c.mu.Lock()
	defer c.mu.Unlock()
	for _, g := range c.gates {
		if (g.ctx == nil || g.ctx.Err() == nil) && pred(g) {
			return g
		}
	}
	return nil
}

func (c *cluster) release(g *gate, v any, err error) {
	if !c.removeGate(g) {
		return // withdrawn by its caller (context cancelled) in the meantime
	}
	g.done <- gateResult{v, err}
}

// ------------------------------------------------------------------------------------------------ provider

type replProvider struct {
	c    *cluster
	from *node
	inc  int
}

func (p *replProvider) Close() error { return nil }

func (p *replProvider) Truncate(follower string, req *proto.TruncateRequest) (*proto.TruncateResponse, error) {
	to := p.c.nodeByName(follower)
	if to == nil {
		return nil, errUnavailable
	}
	r := p.c.addGate(&gate{kind: "trunc", from: p.from.id, to: to.id, term: req.Term, req: req, fromInc: p.inc})
	if r.err != nil {
		return nil, r.err
	}
	return r.v.(*proto.TruncateResponse), nil
}

func (p *replProvider) GetReplicateStream(ctx context.Context, follower string, namespace string, shard int64, term int64) (
	proto.OxiaLogReplication_ReplicateClient, error) {
	to := p.c.nodeByName(follower)
	if to == nil {
		return nil, errUnavailable
	}
	r := p.c.addGate(&gate{kind: "open", from: p.from.id, to: to.id, term: term, ctx: ctx, fromInc: p.inc})
	if r.err != nil {
		return nil, r.err
	}
	s := r.v.(*rstream)
	s.mu.Lock()
	s.handedOver = true
	s.mu.Unlock()
	return s.client(), nil
}

func (p *replProvider) SendSnapshot(ctx context.Context, follower string, namespace string, shard int64, term int64) (
	proto.OxiaLogReplication_SendSnapshotClient, error) {
	to := p.c.nodeByName(follower)
	if to == nil {
		return nil, errUnavailable
	}
	r := p.c.addGate(&gate{kind: "snap", from: p.from.id, to: to.id, term: term, ctx: ctx, fromInc: p.inc})
	if r.err != nil {
		return nil, r.err
	}
	return r.v.(*snapStream).client(), nil
}

// ------------------------------------------------------------------------------------------------ replicate stream

type rstream struct {
	c        *cluster
	id       int
	from, to int
	term     int64
	fromInc  int
	toInc    int

	cliCtx    context.Context
	srvCtx    context.Context
	srvCancel context.CancelFunc

	mu          sync.Mutex
	cond        *sync.Cond
	toF         []*proto.Append // in flight leader -> follower
	toL         []*proto.Ack    // in flight follower -> leader
	handF       []*proto.Append // handed to the follower's Recv by the scheduler
	handL       []*proto.Ack    // handed to the leader's Recv by the scheduler
	broken      bool            // link broke / an endpoint died
	srvDone     bool            // follower handler returned
	srvErr      error
	cliClosed   bool // CloseSend or client context cancelled
	nSent       int  // appends sent by the cursor
	firstSent   int64
	lastSent    int64
	nDelivered  int // appends handed to the follower
	nAcked      int // acks emitted by the follower
	nAckDeliv   int // acks handed to the leader
	srvRecvs    int // Recv calls entered on the follower side
	cliRecvs    int // Recv calls entered on the leader side
	cliRecvDead bool
	harvested   int // appends already reported in the event log
	ackHarv     int // acks already reported in the event log
	startOff    int64
	sentLog     []*proto.Append // every append the cursor sent on this stream
	ackLog      []int64         // every ack the follower emitted on this stream
	ackSynced   []int64         // the follower's WAL synced offset (real wal.LastOffset()) when it sent that ack
	serverStarted bool
	handedOver    bool // GetReplicateStream returned this stream to the cursor
	lastDelivOff  int64 // offset of the last append handed to the follower
	maxAckedOff   int64 // highest offset the follower acknowledged on this stream
}

func (c *cluster) newStream(from, to int, term int64, cliCtx context.Context, fromInc, toInc int) *rstream {
	s := &rstream{c: c, from: from, to: to, term: term, cliCtx: cliCtx, fromInc: fromInc, toInc: toInc, firstSent: -2, lastSent: -2, lastDelivOff: -2, maxAckedOff: -2}
	s.cond = sync.NewCond(&s.mu)
	s.srvCtx, s.srvCancel = context.WithCancel(context.Background())
	c.mu.Lock()
	c.streamSeq++
	s.id = c.streamSeq
	c.streams = append(c.streams, s)
	c.mu.Unlock()
	// the client's context ends the stream (cursor closed / leader controller closed)
	go func() {
		select {
		case <-cliCtx.Done():
			s.mu.Lock()
			s.cliClosed = true
			s.cond.Broadcast()
			s.mu.Unlock()
			s.srvCancel()
		case <-c.dead:
		}
	}()
	return s
}

func (s *rstream) wake() {
	s.mu.Lock()
	s.cond.Broadcast()
	s.mu.Unlock()
}

// breakLink: the network between the two ends is gone (cut, crash of an endpoint).
func (s *rstream) breakLink() {
	s.mu.Lock()
	s.broken = true
	s.toF, s.toL = nil, nil
	s.cond.Broadcast()
	s.mu.Unlock()
	s.srvCancel()
}

// clientAttached: the cursor received this stream object (its receiver goroutine exists or is about to).
func (s *rstream) clientAttached() bool { return s.handedOver }

func (s *rstream) alive() bool {
	s.mu.Lock()
	defer s.mu.Unlock()
	return !s.broken && !s.srvDone && !s.cliClosed
}

type streamCommon struct{}

func (streamCommon) Header() (metadata.MD, error) { return nil, nil }
func (streamCommon) Trailer() metadata.MD         { return nil }
func (streamCommon) SendMsg(any) error            { return nil }
func (streamCommon) RecvMsg(any) error            { return nil }
func (streamCommon) SetHeader(metadata.MD) error  { return nil }
func (streamCommon) SendHeader(metadata.MD) error { return nil }
func (streamCommon) SetTrailer(metadata.MD)       {}

type rClient struct {
	streamCommon
	s *rstream
}
type rServer struct {
	streamCommon
	s *rstream
}

func (s *rstream) client() *rClient { return &rClient{s: s} }
func (s *rstream) server() *rServer { return &rServer{s: s} }

func (x *rClient) Context() context.Context { return x.s.cliCtx }
func (x *rClient) CloseSend() error {
	s := x.s
	s.mu.Lock()
	s.cliClosed = true
	s.cond.Broadcast()
	s.mu.Unlock()
	return nil
}

func (x *rClient) Send(a *proto.Append) error {
	s := x.s
	s.mu.Lock()
	defer s.mu.Unlock()
	if s.cliCtx.Err() != nil {
		return status.FromContextError(s.cliCtx.Err()).Err()
	}
	if s.broken || s.srvDone || s.cliClosed {
		return io.EOF
	}
	s.toF = append(s.toF, a)
	s.sentLog = append(s.sentLog, a)
	if s.nSent == 0 {
		s.firstSent = a.Entry.Offset
	}
	s.nSent++
	s.lastSent = a.Entry.Offset
	return nil
}

func (x *rClient) Recv() (*proto.Ack, error) {
	s := x.s
	s.mu.Lock()
	defer s.mu.Unlock()
	s.cliRecvs++
	for {
		if len(s.handL) > 0 {
			a := s.handL[0]
			s.handL = s.handL[1:]
			return a, nil
		}
		if s.cliCtx.Err() != nil {
			s.cliRecvDead = true
			return nil, status.FromContextError(s.cliCtx.Err()).Err()
		}
		if s.broken {
			s.cliRecvDead = true
			return nil, errUnavailable
		}
		if s.srvDone && len(s.toL) == 0 {
			s.cliRecvDead = true
			if s.srvErr == nil {
				return nil, io.EOF
			}
			return nil, s.srvErr
		}
		s.cond.Wait()
	}
}

func (x *rServer) Context() context.Context { return x.s.srvCtx }

func (x *rServer) Send(a *proto.Ack) error {
	s := x.s
	synced := int64(-2)
	if fn := s.c.node(s.to); fn != nil {
		if w := fn.realWal.Load(); w != nil {
			synced = w.Wal.LastOffset()
		}
	}
	s.mu.Lock()
	defer s.mu.Unlock()
	if s.broken || s.cliClosed || s.srvCtx.Err() != nil {
		return status.Error(codes.Canceled, "verif: stream closed")
	}
	s.toL = append(s.toL, a)
	s.ackLog = append(s.ackLog, a.Offset)
	s.ackSynced = append(s.ackSynced, synced)
	if a.Offset > s.maxAckedOff {
		s.maxAckedOff = a.Offset
	}
	s.nAcked++
	return nil
}

func (x *rServer) Recv() (*proto.Append, error) {
	s := x.s
	s.mu.Lock()
	defer s.mu.Unlock()
	s.srvRecvs++
	for {
		if len(s.handF) > 0 {
			a := s.handF[0]
			s.handF = s.handF[1:]
			return a, nil
		}
		if s.broken {
			return nil, status.Error(codes.Canceled, "verif: link broken")
		}
		if s.cliClosed {
			return nil, io.EOF
		}
		if s.srvCtx.Err() != nil {
			return nil, status.Error(codes.Canceled, "verif: stream context cancelled")
		}
		s.cond.Wait()
	}
}

// ------------------------------------------------------------------------------------------------ snapshot stream

type snapStream struct {
	c        *cluster
	from, to int
	term     int64
	cliCtx   context.Context
	srvCtx   context.Context
	cancel   context.CancelFunc
	chunks   chan *proto.SnapshotChunk
	resp     chan *proto.SnapshotResponse
	srvDone  chan struct{}
	srvErr   error
	finished bool // CloseAndRecv returned (set under c.mu)
	ackOff   int64
	failed   bool
	closeOne sync.Once
}

func (c *cluster) newSnapStream(from, to int, term int64, cliCtx context.Context) *snapStream {
	s := &snapStream{c: c, from: from, to: to, term: term, cliCtx: cliCtx,
		chunks: make(chan *proto.SnapshotChunk), resp: make(chan *proto.SnapshotResponse, 1), srvDone: make(chan struct{})}
	s.srvCtx, s.cancel = context.WithCancel(context.Background())
	return s
}

type snapClient struct {
	streamCommon
	s *snapStream
}
type snapServer struct {
	streamCommon
	s *snapStream
}

func (s *snapStream) client() *snapClient { return &snapClient{s: s} }
func (s *snapStream) server() *snapServer { return &snapServer{s: s} }

func (x *snapClient) Context() context.Context { return x.s.cliCtx }
func (x *snapClient) CloseSend() error {
	x.s.closeOne.Do(func() { close(x.s.chunks) })
	return nil
}
func (x *snapClient) Send(ch *proto.SnapshotChunk) error {
	var err error
	select {
	case x.s.chunks <- ch:
		return nil
	case <-x.s.srvDone:
		err = io.EOF
	case <-x.s.cliCtx.Done():
		err = status.FromContextError(x.s.cliCtx.Err()).Err()
	}
	// the sender gives up on this transfer (sendSnapshot returns the error)
	x.s.c.mu.Lock()
	x.s.finished, x.s.failed = true, true
	x.s.c.mu.Unlock()
	return err
}
func (x *snapClient) CloseAndRecv() (*proto.SnapshotResponse, error) {
	s := x.s
	s.closeOne.Do(func() { close(s.chunks) })
	var res *proto.SnapshotResponse
	var err error
	select {
	case res = <-s.resp:
	case <-s.srvDone:
		select {
		case res = <-s.resp:
		default:
			err = s.srvErr
			if err == nil {
				err = status.Error(codes.Internal, "verif: snapshot handler returned without a response")
			}
		}
	case <-s.cliCtx.Done():
		err = status.FromContextError(s.cliCtx.Err()).Err()
	}
	s.c.mu.Lock()
	s.finished = true
	if err != nil {
		s.failed = true
	} else {
		s.ackOff = res.AckOffset
	}
	s.c.mu.Unlock()
	return res, err
}

func (x *snapServer) Context() context.Context { return x.s.srvCtx }
func (x *snapServer) Recv() (*proto.SnapshotChunk, error) {
	select {
	case ch, ok := <-x.s.chunks:
		if !ok {
			return nil, io.EOF
		}
		return ch, nil
	case <-x.s.srvCtx.Done():
		return nil, status.Error(codes.Canceled, "verif: snapshot stream cancelled")
	case <-x.s.cliCtx.Done():
		return nil, status.Error(codes.Canceled, "verif: snapshot client cancelled")
	}
}
func (x *snapServer) SendAndClose(r *proto.SnapshotResponse) error {
	select {
	case x.s.resp <- r:
	default:
	}
	return nil
}
