package main

// The coordinator side: the REAL controllers.ShardController driven through a harness rpc.Provider (every
// NewTerm / BecomeLeader / AddFollower / DeleteShard is a gate the scheduler releases or fails; GetStatus is
// answered at once by the node) and a recording in-memory StatusResource (every UpdateShardMetadata is an event).

import (
	"context"
	"io"
	"sync"

	"github.com/emirpasic/gods/v2/sets/linkedhashset"
	"google.golang.org/grpc/health/grpc_health_v1"

	"github.com/oxia-db/oxia/coordinator/metadata"
	"github.com/oxia-db/oxia/coordinator/model"
	"github.com/oxia-db/oxia/proto"
)

// ------------------------------------------------------------------------------------------------ rpc.Provider

type coordRPC struct {
	c   *cluster
	inc int
}

func (r *coordRPC) nodeOf(s model.Server) *node { return r.c.nodeByName(s.Internal) }

func (r *coordRPC) PushShardAssignments(context.Context, model.Server) (proto.OxiaCoordination_PushShardAssignmentsClient, error) {
	return nil, errUnavailable
}

func (r *coordRPC) NewTerm(ctx context.Context, s model.Server, req *proto.NewTermRequest) (*proto.NewTermResponse, error) {
	n := r.nodeOf(s)
	if n == nil {
		return nil, errUnavailable
	}
	res := r.c.addGate(&gate{kind: "newterm", from: 0, to: n.id, term: req.Term, req: req, ctx: ctx, fromInc: r.inc})
	if res.err != nil {
		return nil, res.err
	}
	return res.v.(*proto.NewTermResponse), nil
}

func (r *coordRPC) BecomeLeader(ctx context.Context, s model.Server, req *proto.BecomeLeaderRequest) (*proto.BecomeLeaderResponse, error) {
	n := r.nodeOf(s)
	if n == nil {
		return nil, errUnavailable
	}
	res := r.c.addGate(&gate{kind: "becomeleader", from: 0, to: n.id, term: req.Term, req: req, ctx: ctx, fromInc: r.inc})
	if res.err != nil {
		return nil, res.err
	}
	return res.v.(*proto.BecomeLeaderResponse), nil
}

func (r *coordRPC) AddFollower(ctx context.Context, s model.Server, req *proto.AddFollowerRequest) (*proto.AddFollowerResponse, error) {
	n := r.nodeOf(s)
	if n == nil {
		return nil, errUnavailable
	}
	res := r.c.addGate(&gate{kind: "addfollower", from: 0, to: n.id, term: req.Term, req: req, ctx: ctx, fromInc: r.inc})
	if res.err != nil {
		return nil, res.err
	}
	return res.v.(*proto.AddFollowerResponse), nil
}

func (r *coordRPC) DeleteShard(ctx context.Context, s model.Server, req *proto.DeleteShardRequest) (*proto.DeleteShardResponse, error) {
	n := r.nodeOf(s)
	if n == nil {
		return nil, errUnavailable
	}
	res := r.c.addGate(&gate{kind: "deleteshard", from: 0, to: n.id, term: req.Term, req: req, ctx: ctx, fromInc: r.inc})
	if res.err != nil {
		return nil, res.err
	}
	return res.v.(*proto.DeleteShardResponse), nil
}

// GetStatus is read-only: answered immediately by the node (error if it is down or cut off from the coordinator).
func (r *coordRPC) GetStatus(ctx context.Context, s model.Server, req *proto.GetStatusRequest) (*proto.GetStatusResponse, error) {
	n := r.nodeOf(s)
	c := r.c
	if n == nil {
		return nil, errUnavailable
	}
	c.mu.Lock()
	ok := n.up && !c.cut[linkKey(0, n.id)] && r.inc == c.coordInc
	busy := n.asyncRPC > 0
	c.getStatusCalls++
	c.mu.Unlock()
	if !ok || busy {
		c.mu.Lock()
		c.getStatusBad = true
		c.mu.Unlock()
		return nil, errUnavailable
	}
	res, err := n.rpcGetStatus(req)
	c.mu.Lock()
	if err != nil {
		c.getStatusBad = true
	} else {
		c.lastStatus[n.id] = res
	}
	c.mu.Unlock()
	return res, err
}

func (r *coordRPC) GetHealthClient(model.Server) (grpc_health_v1.HealthClient, io.Closer, error) {
	return nil, nil, errUnavailable
}
func (r *coordRPC) ClearPooledConnections(model.Server) {}

// ------------------------------------------------------------------------------------------------ resources

// statusRes: resources.StatusResource that keeps the "durable" shard metadata of the coordinator and records
// every store as an event.
type statusRes struct {
	c   *cluster
	inc int
	mu sync.Mutex
}

func (s *statusRes) Load() *model.ClusterStatus { return model.NewClusterStatus() }
func (s *statusRes) LoadWithVersion() (*model.ClusterStatus, metadata.Version) {
	return model.NewClusterStatus(), ""
}
func (s *statusRes) Swap(*model.ClusterStatus, metadata.Version) bool { return true }
func (s *statusRes) Update(*model.ClusterStatus)                      {}
func (s *statusRes) DeleteShardMetadata(string, int64)                {}

func (s *statusRes) UpdateShardMetadata(_ string, _ int64, md model.ShardMetadata) {
	c := s.c
	c.mu.Lock()
	park := c.parkSteadyStore && md.Status == model.ShardStatusSteadyState && s.inc == c.coordInc
	if park {
		// the coordinator process dies inside this Store call: nothing is stored, the call never returns
		c.parkSteadyStore = false
		c.storeParked = true
	}
	c.mu.Unlock()
	if park {
		<-c.dead
		return
	}
	c.mu.Lock()
	if s.inc == c.coordInc {
		c.stores = append(c.stores, md.Clone())
	}
	c.mu.Unlock()
}

type cfgStub struct{}

func (cfgStub) Close() error               { return nil }
func (cfgStub) Load() *model.ClusterConfig { return &model.ClusterConfig{} }
func (cfgStub) Nodes() *linkedhashset.Set[string] {
	return linkedhashset.New[string]()
}
func (cfgStub) NodesWithMetadata() (*linkedhashset.Set[string], map[string]model.ServerMetadata) {
	return linkedhashset.New[string](), map[string]model.ServerMetadata{}
}
func (cfgStub) NamespaceConfig(string) (*model.NamespaceConfig, bool) { return nil, false }
func (cfgStub) Node(string) (*model.Server, bool)                     { return nil, false }

type listenerStub struct{ c *cluster }

func (l listenerStub) LeaderElected(int64, model.Server, []model.Server) {
	l.c.mu.Lock()
	l.c.leaderElectedCalls++
	l.c.mu.Unlock()
}
func (listenerStub) ShardDeleted(int64) {}
