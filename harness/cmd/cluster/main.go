// harness cluster: an in-process REAL oxia cluster (server.ShardsDirector per node over a real WAL and a real on-disk
// Pebble, the real coordinator ShardController) under fault schedules chosen by a seeded scheduler.  Every trace is
//   (1) translated into a list of actions of the Coq World model (Oxia.Cluster.Model) with checkpoints of the real
//       nodes' (term, status, log); the extracted model replays it (ocaml/cluster_main.ml): a refused action or a
//       checkpoint mismatch is a correspondence failure;
//   (2) checked directly, independent of the model, by the monitors of monitor.go (C01 / C02 predicates on the real
//       cluster after every event);
//   (3) counted (evidence).
//
// Case line:   trace <id> <ensemble> <universe> <model tokens ...> #cfg=<nodes>,<rf> #script=<step;step;...>
// Corpus line: script <name> <nodes> <rf> <step> <step> ...
package main

import (
	"bufio"
	"encoding/json"
	"flag"
	"fmt"
	"hash/fnv"
	"os"
	"os/exec"
	"regexp"
	"runtime"
	"runtime/debug"
	"runtime/pprof"
	"sort"
	"strings"
	"sync"
	"time"

	"github.com/oxia-db/oxia/proto"

	"verif/harness/internal/hx"
)

type traceSpec struct {
	Name   string
	Nodes  int
	Rf     int
	Steps  []string // scripted; nil = random
	Seed   uint64
	Length int
	// Profile "minority": histories in which leaders write entries that reach nobody or a minority, are then passed over
	// by the next election (they do not answer NewTerm) and come back later as late followers: logs whose heads sit in
	// terms the next leader's log skipped (what truncateFollowerIfNeeded / Truncate / the election's max-head rule exist for)
	Profile string
}

type traceResult struct {
	Spec    traceSpec
	Id      string
	Input   string
	Impl    string
	Viols   [][2]string
	Stats   map[string]int
	Unreal  string
	Steps   []string
	Events  []string
	WallMs  int64
	Skipped string
}

// Which monitor signatures a run reports: the root causes that put the cluster outside the protocol's invariants
// (cluster.go: tainting) are reported by both properties, the rest by the property they state.
var c01Sigs = []string{"leader:", "coordinator:"}
var c02Sigs = []string{"lin:", "read:", "write:", "figure8:", "commit:committed-entry-lost"}

func sigInMode(sig, mode string) bool {
	if mode == "all" {
		return true
	}
	for _, p := range tainting {
		if strings.HasPrefix(sig, p) && !strings.HasPrefix(sig, "panic:") {
			return true
		}
	}
	if strings.HasPrefix(sig, "diskloss:") || strings.HasPrefix(sig, "figure8:database-commit-offset-beyond-log-head") {
		return true
	}
	set := c01Sigs
	if mode == "c02" {
		set = c02Sigs
	}
	for _, p := range set {
		if strings.HasPrefix(sig, p) {
			return true
		}
	}
	return false
}

func (c *cluster) skipModel(why string) {
	if c.modelSkip == "" {
		c.modelSkip = why
		c.tokCut = len(c.toks)
		c.c01AtCut = !c.lostAcked()
		c.inconsAtCut = c.inconsistentAttaches
	}
}

func (c *cluster) lostAcked() bool {
	violMu.Lock()
	defer violMu.Unlock()
	return c.lost
}

func (c *cluster) stepAudit(n int) bool { return false }

var numRe = regexp.MustCompile(`[0-9]+`)

func (c *cluster) permute(n int) int {
	if c.perm == nil {
		c.perm = map[int]int{}
		for _, x := range c.nodes {
			c.perm[x.id] = x.id
		}
	}
	if v, ok := c.perm[n]; ok {
		return v
	}
	return n
}

// permuteStep renames the node ids of a recorded step (client steps: only the serving node).
func (c *cluster) permuteStep(st string) string {
	f := strings.Split(st, ":")
	ren := func(x string) string {
		return numRe.ReplaceAllStringFunc(x, func(d string) string { return fmt.Sprint(c.permute(atoi(d))) })
	}
	switch f[0] {
	case "w", "r", "wc":
		if len(f) > 1 {
			f[1] = ren(f[1])
		}
	case "cancel":
	default:
		for i := 1; i < len(f); i++ {
			f[i] = ren(f[i])
		}
	}
	return strings.Join(f, ":")
}

var roleRe = regexp.MustCompile(`\b[A-Z]\b`)

// resolve handles the role letters of scripted traces: selectNewLeader picks at random among equal heads, so scripts
// name nodes by role (A..E) and bind a role when the choice is known: bind:A=L (the leader just elected),
// bind:B=rest (lowest unbound ensemble member), bind:D=spare (lowest unbound node outside the initial ensemble).
func (c *cluster) resolve(st string) (string, bool) {
	if c.roles == nil {
		c.roles = map[string]int{}
	}
	bound := func(n int) bool {
		for _, v := range c.roles {
			if v == n {
				return true
			}
		}
		return false
	}
	if strings.HasPrefix(st, "bind:") {
		kv := strings.SplitN(st[5:], "=", 2)
		if len(kv) != 2 {
			return "", false
		}
		// "<source>-<Role>" excludes the node bound to <Role> from the candidates of F1..F4
		excl := 0
		if i := strings.IndexByte(kv[1], '-'); i > 0 {
			excl = c.roles[kv[1][i+1:]]
			kv[1] = kv[1][:i]
		}
		switch kv[1] {
		case "none":
			delete(c.roles, kv[0])
			return "", false
		case "L":
			if c.el == nil || c.el.leader == 0 {
				c.unrealisable("bind: no elected leader")
				return "", false
			}
			c.roles[kv[0]] = c.el.leader
		case "rest":
			for _, n := range c.ens0 {
				if !bound(n) {
					c.roles[kv[0]] = n
					break
				}
			}
		case "spare":
			for _, n := range c.nodes {
				if !contains(c.ens0, n.id) && !bound(n.id) {
					c.roles[kv[0]] = n.id
					break
				}
			}
		case "F1", "F2", "F3", "F4":
			// the followers of the BecomeLeader request of the current election, by node id
			var fs []int
			if c.el != nil {
				for f := range c.el.followers {
					if f != excl {
						fs = append(fs, f)
					}
				}
			}
			sort.Ints(fs)
			i := int(kv[1][1] - '1')
			if i >= len(fs) {
				c.unrealisable("bind: no such follower " + kv[1])
				return "", false
			}
			c.roles[kv[0]] = fs[i]
		default:
			if v, ok := c.roles[kv[1]]; ok {
				c.roles[kv[0]] = v
			} else {
				c.unrealisable("bind: unknown source " + kv[1])
				return "", false
			}
		}
		c.event("role %s = node %d", kv[0], c.roles[kv[0]])
		return "", false
	}
	if strings.HasPrefix(st, "elected:") {
		// recorded outcome of selectNewLeader's random pick among equal heads: if this run picked another of the
		// tied nodes, the two swap their roles in the rest of the recorded schedule
		want := c.permute(atoi(st[8:]))
		if c.el != nil && c.el.leader != 0 && c.el.leader != want {
			got := c.el.leader
			for k, v := range c.perm {
				if v == want {
					c.perm[k] = got
				} else if v == got {
					c.perm[k] = want
				}
			}
			c.event("replay: node %d was elected where the recorded run had node %d; roles swapped", got, want)
		}
		return "", false
	}
	i := strings.IndexByte(st, ':')
	if i < 0 {
		return st, true
	}
	if c.perm != nil {
		st = c.permuteStep(st)
	}
	ok := true
	rest := roleRe.ReplaceAllStringFunc(st[i:], func(r string) string {
		if v, has := c.roles[r]; has {
			return fmt.Sprint(v)
		}
		ok = false
		return r
	})
	if !ok {
		c.unrealisable("unbound role in step " + st)
		return "", false
	}
	return st[:i] + rest, true
}

func runTrace(spec traceSpec, mode string, verbose bool) (res traceResult) {
	t0 := time.Now()
	res.Spec = spec
	res.Id = spec.Name
	c, err := newCluster(spec.Name, mode, spec.Nodes, spec.Rf)
	if err != nil {
		res.Unreal = "cluster setup failed: " + err.Error()
		res.Impl = "setup-failed"
		return res
	}
	c.pickSeed = spec.Seed
	defer func() {
		if r := recover(); r != nil {
			c.violate("harness:panic", fmt.Sprintf("%v | %s", r, strings.ReplaceAll(string(debug.Stack()), "\n", " | ")))
			res.Viols = nil
			for _, v := range c.viols {
				res.Viols = append(res.Viols, [2]string{v.sig, v.detail})
			}
		}
		c.teardown()
		res.WallMs = time.Since(t0).Milliseconds()
	}()
	if spec.Steps != nil {
		c.scripted = true
		for _, raw := range spec.Steps {
			if strings.HasPrefix(raw, "expect:") || raw == "" {
				continue
			}
			if strings.HasPrefix(raw, "elected:") {
				c.permute(0)
			}
			// "?step": a step that the schedule takes if it is enabled (e.g. the delivery of a message that only some
			// behaviours produce) and skips otherwise
			optional := strings.HasPrefix(raw, "?")
			raw = strings.TrimPrefix(raw, "?")
			st, run := c.resolve(raw)
			if !run {
				if c.unreal != "" {
					break
				}
				continue
			}
			cut := len(c.toks)
			if !c.step(st) {
				if optional && c.unreal == "" {
					c.event("optional step %s: not enabled, skipped", st)
					continue
				}
				if c.unreal == "" {
					c.unrealisable(fmt.Sprintf("scripted step %q (%s) is not enabled at step %d", raw, st, c.stepNo+1))
				}
			}
			if c.unreal != "" {
				c.toks = c.toks[:cut]
				break
			}
		}
	} else {
		r := hx.NewRng(spec.Seed)
		sch := newScheduler(c, r, spec)
		for i := 0; i < spec.Length*3 && c.stats["steps"] < spec.Length && c.unreal == ""; i++ {
			st := sch.pick()
			if st == "" {
				break
			}
			cut := len(c.toks)
			c.step(st)
			if c.unreal != "" {
				c.toks = c.toks[:cut]
			}
		}
	}
	if c.unreal == "" {
		c.checkpoints(true)
		c.mon.finalChecks()
	}
	toks := c.toks
	c01 := !c.lostAcked()
	if c.modelSkip != "" {
		toks = toks[:min(c.tokCut, len(toks))]
		c01 = c.c01AtCut
		c.inconsistentAttaches = c.inconsAtCut
		res.Skipped = c.modelSkip
	}
	univ := make([]int, spec.Nodes)
	for i := range univ {
		univ[i] = i + 1
	}
	res.Input = fmt.Sprintf("%s %s %s #cfg=%d,%d #script=%s", intsTok(c.ens0), intsTok(univ), strings.Join(toks, " "), spec.Nodes, spec.Rf, strings.Join(c.steps, ";"))
	res.Impl = fmt.Sprintf("ok c01=%v inconsistent_attaches=%d", c01, c.inconsistentAttaches)
	for _, v := range c.viols {
		res.Viols = append(res.Viols, [2]string{v.sig, v.detail})
	}
	for _, sg := range c.secondary {
		c.stats["secondary-after-root-cause:"+sg]++
	}
	res.Stats = c.stats
	res.Unreal = c.unreal
	res.Steps = c.steps
	res.Events = c.events
	if verbose {
		fmt.Fprintf(os.Stderr, "=== trace %s (%d nodes, rf %d) %.2fs unreal=%q skip=%q\n", spec.Name, spec.Nodes, spec.Rf, time.Since(t0).Seconds(), c.unreal, c.modelSkip)
		for _, e := range c.events {
			fmt.Fprintln(os.Stderr, "   ", e)
		}
		fmt.Fprintln(os.Stderr, "    toks:", strings.Join(toks, " "))
		for _, v := range c.viols {
			fmt.Fprintf(os.Stderr, "    VIOLATION %s: %s\n", v.sig, v.detail)
		}
	}
	return res
}

// ------------------------------------------------------------------------------------------------ random scheduler

type scheduler struct {
	c       *cluster
	r       *hx.Rng
	spec    traceSpec
	keys    []string
	crashes int
	swaps   int
	cuts    int
	faulty  bool
	warm    []string
	curLead int
	prevLead int
	parks     int
	heldSteps int
}

func newScheduler(c *cluster, r *hx.Rng, spec traceSpec) *scheduler {
	s := &scheduler{c: c, r: r, spec: spec, keys: []string{"a", "b", "c", "d"}, faulty: r.Intn(100) < 80}
	if spec.Profile == "minority" {
		s.faulty = true
		// warm-up: everybody holds one committed entry (no empty follower later: no snapshot transfers in the way)
		s.warm = []string{"start", "ntall", "bl", "drain", "W", "drain"}
	}
	return s
}

// reweigh adapts the weights of the enabled steps to the trace's profile.
func (s *scheduler) reweigh(ch []choice) []choice {
	if s.spec.Profile == "diskloss" {
		if len(s.c.mon.diskLost) > 0 {
			for i := range ch {
				st := ch[i].st
				switch {
				case strings.HasPrefix(st, "fail:"):
					ch[i].w *= 4
				case strings.HasPrefix(st, "crash:") && atoi(st[6:]) == s.curLead:
					ch[i].w *= 3
				case strings.HasPrefix(st, "swap:"):
					ch[i].w = 0
				}
			}
		}
		return ch
	}
	if s.spec.Profile != "minority" {
		return ch
	}
	c := s.c
	el := c.el
	inflight := el != nil && el.phase == "bl-inflight"
	for i := range ch {
		st := ch[i].st
		w := ch[i].w * 4
		switch {
		case strings.HasPrefix(st, "app:") || strings.HasPrefix(st, "ack:"):
			if !inflight {
				w = w * 3 / 10
			}
		case strings.HasPrefix(st, "w:"):
			w = w * 3 / 2
		case strings.HasPrefix(st, "fail:"):
			w *= 4
		case strings.HasPrefix(st, "crash:"):
			if atoi(st[6:]) == s.curLead {
				w *= 3
			} else {
				w /= 2
			}
		case strings.HasPrefix(st, "restart:"):
			w *= 2
		case strings.HasPrefix(st, "swap:"):
			w = 0
		case st == "crestart" || strings.HasPrefix(st, "cut:"):
			w = w * 3 / 10
		case strings.HasPrefix(st, "nt:") && atoi(st[3:]) == s.prevLead:
			w = w * 3 / 10
		case strings.HasPrefix(st, "ntfail:") && atoi(st[7:]) == s.prevLead && el != nil && el.phase == "quorum":
			w *= 8
		case strings.HasPrefix(st, "cu:") || st == "af":
			w *= 2
		}
		ch[i].w = w
	}
	return ch
}

type choice struct {
	st string
	w  int
}

// pickHeld: a flush of node h is held by the schedule (armed or parked).  Until it is released only the traffic around
// it goes on: deliveries of appends and acks, client operations on the leader, and the fate of the held flush.
func (s *scheduler) pickHeld(h int) string {
	c := s.c
	var ch []choice
	add := func(st string, w int) { ch = append(ch, choice{st, w}) }
	for _, d := range c.enabledDeliveries() {
		switch {
		case d == fmt.Sprintf("app:%d>%d", s.curLead, h) || strings.HasSuffix(d, fmt.Sprintf(">%d", h)) && strings.HasPrefix(d, "app:"):
			add(d, 14)
		case strings.HasPrefix(d, "app:") || strings.HasPrefix(d, "ack:"):
			add(d, 8)
		}
	}
	if el := c.el; el != nil && el.leader != 0 && el.leader != h {
		c.mu.Lock()
		ln := c.node(el.leader)
		ok := ln.up && ln.status == proto.ServingStatus_LEADER && ln.asyncRPC == 0
		c.mu.Unlock()
		if ok {
			st := s.clientStep(el.leader)
			if strings.HasPrefix(st, "w:") {
				add(st, 14)
			} else {
				add(st, 4)
			}
		}
	}
	c.mu.Lock()
	parked := c.node(h).parked != nil
	c.mu.Unlock()
	s.heldSteps++
	if parked {
		add(fmt.Sprintf("fnext:%d", h), 5)
		add(fmt.Sprintf("frelease:%d", h), 5)
		add(fmt.Sprintf("powerloss:%d", h), 5)
		add(fmt.Sprintf("crash:%d", h), 1)
	} else {
		add(fmt.Sprintf("frelease:%d", h), 2)
	}
	if s.heldSteps > 30 {
		s.heldSteps = 0
		return fmt.Sprintf("frelease:%d", h)
	}
	tot := 0
	for _, x := range ch {
		tot += x.w
	}
	v := s.r.Intn(tot)
	for _, x := range ch {
		if v < x.w {
			if !strings.HasPrefix(x.st, "app:") && !strings.HasPrefix(x.st, "ack:") && !strings.HasPrefix(x.st, "w:") && !strings.HasPrefix(x.st, "r:") && !strings.HasPrefix(x.st, "fnext:") {
				s.heldSteps = 0
			}
			if strings.HasPrefix(x.st, "powerloss:") || strings.HasPrefix(x.st, "crash:") {
				s.crashes++
			}
			return x.st
		}
		v -= x.w
	}
	return fmt.Sprintf("frelease:%d", h)
}

func (s *scheduler) pick() string {
	c := s.c
	var ch []choice
	add := func(st string, w int) {
		if w > 0 {
			ch = append(ch, choice{st, w})
		}
	}
	if len(s.warm) > 0 {
		st := s.warm[0]
		s.warm = s.warm[1:]
		if st == "W" {
			if c.el == nil || c.el.leader == 0 {
				s.warm = nil
				return s.pick()
			}
			st = fmt.Sprintf("w:%d:put:d", c.el.leader)
		}
		return st
	}
	if c.ctl == nil {
		return "start"
	}
	if h := c.anyFlushHeld(); h != 0 {
		return s.pickHeld(h)
	}
	el := c.el
	if el != nil && el.leader != 0 && el.phase == "idle" {
		s.curLead = el.leader
	}
	if el != nil && el.phase == "quorum" && el.total == 0 {
		s.prevLead = s.curLead
	}
	elActive := false
	if el != nil {
		switch el.phase {
		case "quorum", "grace":
			elActive = true
			all := append(append([]int(nil), el.ens...), el.removed...)
			sort.Ints(all)
			for _, n := range all {
				if c.ntGate(n) == nil {
					continue
				}
				if c.reachable(0, n) {
					c.mu.Lock()
					busy := c.node(n).asyncRPC > 0
					c.mu.Unlock()
					if !busy {
						add(fmt.Sprintf("nt:%d", n), 12)
						if s.faulty {
							// the node handles the request, its answer is lost
							add(fmt.Sprintf("ntlost:%d", n), 1)
						}
					}
					if el.phase == "grace" {
						add(fmt.Sprintf("ntfail:%d", n), 8)
					} else {
						add(fmt.Sprintf("ntfail:%d", n), 1)
					}
				} else {
					add(fmt.Sprintf("ntfail:%d", n), 12)
				}
			}
			if el.phase == "grace" {
				add("grace", 1)
			}
		case "bl-pending":
			elActive = true
			add("bl", 30)
			add("blfail", 1)
			if s.faulty {
				// faults between the steps of the election: the new leader processes BecomeLeader, its answer is
				// lost; the coordinator dies in the final store of the election
				add("bllost", 2)
				if len(el.removed) == 0 {
					add("blcrash", 2)
				}
			}
		case "bl-inflight":
			elActive = true
		case "deleting":
			elActive = true
			for _, n := range el.removed {
				if !el.deleted[n] {
					if c.reachable(0, n) && !c.busy(n) {
						add(fmt.Sprintf("ds:%d", n), 30)
					} else {
						add(fmt.Sprintf("dsfail:%d", n), 10)
					}
					break
				}
			}
		}
	}
	// catch-up loops
	if el != nil && el.phase == "idle" && !c.swapRunning() {
		for _, cu := range c.catchups {
			if !cu.alive {
				continue
			}
			switch cu.stage {
			case "newterm", "sleeping":
				if c.findGate(func(g *gate) bool { return g.kind == "newterm" && g.to == cu.f && g.term == cu.term && g.fromInc == c.coordInc }) != nil {
					if c.reachable(0, cu.f) {
						add(fmt.Sprintf("cu:%d", cu.f), 8)
					}
				}
			case "addfollower":
				add("af", 12)
			}
		}
	}
	// a NewTerm request of the current term to a node that no catch-up loop of the current election stands for (a
	// retry loop left over from an older election)
	if el != nil && el.phase == "idle" && !c.swapRunning() {
		c.mu.Lock()
		var strays []int
		for _, g := range c.gates {
			if g.kind == "newterm" && g.fromInc == c.coordInc && g.term == el.term && g.ctx.Err() == nil && g.to != el.leader {
				strays = append(strays, g.to)
			}
		}
		c.mu.Unlock()
		sort.Ints(strays)
		for _, x := range strays {
			if _, fol := el.followers[x]; c.findCatchup(x) == nil && !(fol && contains(el.ens, x)) && c.reachable(0, x) && !c.busy(x) {
				add(fmt.Sprintf("cu:%d", x), 8)
			}
		}
	}
	dels := c.enabledDeliveries()
	for _, d := range dels {
		add(d, 8)
	}
	if el != nil && el.phase == "bl-inflight" && len(dels) == 0 {
		add("bltimeout", 10)
	}
	// client operations
	var leaders, ups []int
	for _, n := range c.nodes {
		c.mu.Lock()
		up, st, busy := n.up, n.status, n.asyncRPC > 0
		c.mu.Unlock()
		if up && !busy {
			ups = append(ups, n.id)
			if st == proto.ServingStatus_LEADER {
				leaders = append(leaders, n.id)
			}
		}
	}
	if len(ups) > 0 {
		target := 0
		if len(leaders) > 0 && s.r.Intn(100) < 92 {
			target = hx.Pick(s.r, leaders)
		} else if s.r.Intn(100) < 30 {
			target = hx.Pick(s.r, ups)
		}
		if target != 0 {
			st := s.clientStep(target)
			if strings.HasPrefix(st, "w:") && s.r.Intn(100) < 10 {
				st = "wc" + st[1:]
			}
			add(st, 14)
		}
	}
	// a node loses its disk (profile diskloss only)
	if s.spec.Profile == "diskloss" && c.stats["steps"] > 12 {
		lost := map[int]bool{}
		for x := range c.mon.diskLost {
			lost[x] = true
		}
		if len(lost) < (s.spec.Rf-1)/2 {
			for _, x := range c.ids(c.lastMeta.Ensemble) {
				if n := c.node(x); n != nil && !lost[x] && !c.busy(x) {
					w := 1
					if len(c.shadowLog(x)) > 0 && (c.lastMeta.Leader == nil || c.idOf(*c.lastMeta.Leader) != x) {
						w = 3 // a follower that holds entries
					}
					add(fmt.Sprintf("diskloss:%d", x), w)
				}
			}
		}
	}
	// the schedule holds the next WAL flush of a follower that is being replicated to (appends land while it is in flight)
	if s.faulty && c.captureFlush && el != nil && el.phase == "idle" && el.leader != 0 && !c.swapRunning() && s.parks < 3 {
		for _, k := range c.cursors {
			if k.alive && k.l == el.leader && k.stream != nil && k.stream.alive() && !c.busy(k.f) {
				c.mu.Lock()
				fol := c.node(k.f).up && c.node(k.f).status == proto.ServingStatus_FOLLOWER
				c.mu.Unlock()
				if fol {
					add(fmt.Sprintf("fpark:%d", k.f), 2)
				}
			}
		}
	}
	// the network delivers a copy of an earlier Truncate request again
	for _, n := range c.nodes {
		if c.redeliverable(n.id) != nil {
			add(fmt.Sprintf("retr:%d", n.id), 2)
		}
	}
	// a client gives up on a write that is in flight
	for _, o := range c.ops {
		c.mu.Lock()
		inflight := o.isWrite() && o.appended && !o.done && !o.cancelled
		c.mu.Unlock()
		if inflight {
			add(fmt.Sprintf("cancel:%d", o.id), 2)
			break
		}
	}
	// faults
	if s.faulty {
		down := 0
		for _, n := range c.nodes {
			if !n.up {
				down++
				add(fmt.Sprintf("restart:%d", n.id), 4)
			}
		}
		if s.crashes < 4 && down < (len(c.nodes)+1)/2 {
			for _, n := range c.nodes {
				if n.up {
					w := 1
					if n.status == proto.ServingStatus_LEADER {
						w = 2
					}
					add(fmt.Sprintf("crash:%d", n.id), w)
				}
			}
		}
		if c.coordIdle() && !elActive {
			if c.lastMeta.Leader != nil {
				add(fmt.Sprintf("fail:%d", c.idOf(*c.lastMeta.Leader)), 3)
			}
			if s.swaps < 2 {
				ens := c.ids(c.lastMeta.Ensemble)
				for _, n := range c.nodes {
					if !contains(ens, n.id) && !contains(c.ids(c.lastMeta.RemovedNodes), n.id) && n.up {
						add(fmt.Sprintf("swap:%d>%d", hx.Pick(s.r, ens), n.id), 2)
					}
				}
			}
		}
		if c.ctl != nil && (el == nil || el.phase != "bl-inflight" || len(dels) == 0) {
			add("crestart", 1)
		}
		if s.cuts < 6 {
			a, b := s.r.Intn(len(c.nodes)+1), 1+s.r.Intn(len(c.nodes))
			if a != b {
				c.mu.Lock()
				isCut := c.cut[linkKey(a, b)]
				c.mu.Unlock()
				if isCut {
					add(fmt.Sprintf("heal:%d-%d", a, b), 3)
				} else {
					add(fmt.Sprintf("cut:%d-%d", a, b), 1)
				}
			}
		}
		c.mu.Lock()
		var cuts []string
		for k, v := range c.cut {
			if v {
				cuts = append(cuts, k)
			}
		}
		c.mu.Unlock()
		sort.Strings(cuts)
		for _, k := range cuts {
			add("heal:"+k, 2)
		}
	}
	ch = s.reweigh(ch)
	if len(ch) == 0 {
		return ""
	}
	tot := 0
	for _, x := range ch {
		tot += x.w
	}
	if tot == 0 {
		return ""
	}
	v := s.r.Intn(tot)
	for _, x := range ch {
		if v < x.w {
			switch {
			case strings.HasPrefix(x.st, "crash:"):
				s.crashes++
			case strings.HasPrefix(x.st, "swap:"):
				s.swaps++
			case strings.HasPrefix(x.st, "cut:"):
				s.cuts++
			}
			return x.st
		}
		v -= x.w
	}
	return ch[0].st
}

func (s *scheduler) clientStep(n int) string {
	k := hx.Pick(s.r, s.keys)
	k2 := hx.Pick(s.r, []string{"b", "c", "d", "e"})
	if k2 <= k {
		k2 = k + "~"
	}
	switch v := s.r.Intn(100); {
	case v < 38:
		return fmt.Sprintf("w:%d:put:%s", n, k)
	case v < 50:
		exp := int64(-1)
		if s.r.Intn(100) < 70 {
			exp = int64(s.r.Intn(8))
		}
		return fmt.Sprintf("w:%d:cput:%s:%d", n, k, exp)
	case v < 58:
		return fmt.Sprintf("w:%d:del:%s", n, k)
	case v < 62:
		return fmt.Sprintf("w:%d:delr:%s:%s", n, k, k2)
	case v < 86:
		return fmt.Sprintf("r:%d:get:%s", n, k)
	case v < 93:
		return fmt.Sprintf("r:%d:list:%s:%s", n, "a", "z")
	default:
		return fmt.Sprintf("r:%d:scan:%s:%s", n, k, k2)
	}
}

// ------------------------------------------------------------------------------------------------ main

func parseScriptLine(line string) (traceSpec, bool) {
	f := strings.Fields(line)
	if len(f) >= 4 && f[0] == "script" {
		return traceSpec{Name: f[1], Nodes: atoi(f[2]), Rf: atoi(f[3]), Steps: f[4:], Seed: 1}, true
	}
	if len(f) >= 4 && f[0] == "trace" {
		sp := traceSpec{Name: "replay-" + f[1], Nodes: 3, Rf: 3, Seed: 1}
		for _, t := range f[4:] {
			if strings.HasPrefix(t, "#cfg=") {
				p := strings.Split(t[5:], ",")
				if len(p) == 2 {
					sp.Nodes, sp.Rf = atoi(p[0]), atoi(p[1])
				}
			}
			if strings.HasPrefix(t, "#script=") {
				sp.Steps = strings.Split(t[8:], ";")
			}
			if strings.HasPrefix(t, "#seed=") {
				fmt.Sscan(t[6:], &sp.Seed)
			}
		}
		if sp.Steps != nil {
			return sp, true
		}
	}
	return traceSpec{}, false
}

// workerLoop: one trace at a time, specs as JSON lines on stdin, results as JSON lines on stdout.
func workerLoop(mode string, verbose bool) {
	in := bufio.NewReaderSize(os.Stdin, 1<<20)
	out := bufio.NewWriter(os.Stdout)
	for {
		line, err := in.ReadBytes('\n')
		if len(line) > 1 {
			var sp traceSpec
			if json.Unmarshal(line, &sp) == nil {
				done := make(chan traceResult, 1)
				go func() { done <- runTrace(sp, mode, verbose) }()
				var r traceResult
				select {
				case r = <-done:
				case <-time.After(60 * time.Second):
					r = traceResult{Spec: sp, Id: sp.Name, Unreal: "trace did not finish within 60 s", Impl: "timeout"}
					if os.Getenv("VERIF_CLUSTER_DUMP") != "" {
						fmt.Fprintf(os.Stderr, "=== TIMEOUT trace %s\n", sp.Name)
						_ = pprof.Lookup("goroutine").WriteTo(os.Stderr, 1)
					}
				}
				b, _ := json.Marshal(r)
				out.Write(b)
				out.WriteByte('\n')
				out.Flush()
				if r.Impl == "timeout" {
					os.Exit(3) // goroutines of the stuck trace would disturb the next one
				}
			}
		}
		if err != nil {
			return
		}
	}
}

func runWorkers(specs []traceSpec, nw int, mode string, verbose bool) []traceResult {
	results := make([]traceResult, len(specs))
	next := make(chan int, len(specs))
	for i := range specs {
		next <- i
	}
	close(next)
	var wg sync.WaitGroup
	for w := 0; w < nw; w++ {
		wg.Add(1)
		go func() {
			defer wg.Done()
			var cmd *exec.Cmd
			var stdin *bufio.Writer
			var stdout *bufio.Reader
			start := func() bool {
				args := []string{"-worker", "-mode", mode, "-out", os.TempDir()}
				if verbose {
					args = append(args, "-v")
				}
				cmd = exec.Command(os.Args[0], args...)
				cmd.Stderr = os.Stderr
				ip, e1 := cmd.StdinPipe()
				op, e2 := cmd.StdoutPipe()
				if e1 != nil || e2 != nil || cmd.Start() != nil {
					return false
				}
				stdin, stdout = bufio.NewWriter(ip), bufio.NewReaderSize(op, 1<<20)
				return true
			}
			stop := func() {
				if cmd != nil && cmd.Process != nil {
					_ = cmd.Process.Kill()
					_ = cmd.Wait()
				}
				cmd = nil
			}
			defer stop()
			for i := range next {
				if cmd == nil && !start() {
					results[i] = traceResult{Spec: specs[i], Id: specs[i].Name, Unreal: "worker process could not be started", Impl: "setup-failed"}
					continue
				}
				b, _ := json.Marshal(specs[i])
				stdin.Write(b)
				stdin.WriteByte('\n')
				stdin.Flush()
				line, err := stdout.ReadBytes('\n')
				var r traceResult
				if err != nil || json.Unmarshal(line, &r) != nil {
					r = traceResult{Spec: specs[i], Id: specs[i].Name, Unreal: "worker process died", Impl: "worker-died"}
					stop()
				} else if r.Impl == "timeout" {
					stop()
				}
				results[i] = r
			}
		}()
	}
	wg.Wait()
	return results
}

func main() {
	mode := flag.String("mode", "c01", "c01 | c02 | all: which monitor signatures are reported")
	verbose := flag.Bool("v", false, "print the event log of every trace on stderr")
	workers := flag.Int("workers", 0, "parallel worker processes (0 = number of CPUs, at most 12)")
	worker := flag.Bool("worker", false, "internal: run as a worker process")
	only := flag.String("only", "", "debugging: run only the generated traces with these names (comma separated)")
	repeat := flag.Int("repeat", 1, "debugging: run every selected trace this many times")
	fl := hx.ParseFlags()
	if *worker {
		workerLoop(*mode, *verbose)
		return
	}
	o := hx.NewOut(fl.OutDir)
	defer o.Close()

	var specs []traceSpec
	if fl.Replay != "" {
		for _, l := range hx.ReadLines(fl.Replay) {
			if sp, ok := parseScriptLine(l); ok {
				specs = append(specs, sp)
			}
		}
	} else {
		for _, l := range hx.CorpusLines(fl.Corpus) {
			if strings.HasPrefix(strings.TrimSpace(l), "#") {
				continue
			}
			if sp, ok := parseScriptLine(l); ok {
				specs = append(specs, sp)
			}
		}
		r := hx.NewRng(fl.Seed)
		for i := 0; i < fl.N; i++ {
			sp := traceSpec{Name: fmt.Sprintf("r%d-%d", fl.Seed, i), Seed: r.U64() >> 1, Length: 60 + r.Intn(91)}
			switch v := r.Intn(100); {
			case v < 50:
				sp.Nodes, sp.Rf = 3, 3
			case v < 80:
				sp.Nodes, sp.Rf = 4, 3
			case v < 90:
				sp.Nodes, sp.Rf = 5, 3
			default:
				sp.Nodes, sp.Rf = 5, 5
			}
			if *mode == "c02" && r.Intn(100) < 30 {
				sp.Length += 40
			}
			if sp.Nodes != 4 && r.Intn(100) < 45 {
				sp.Profile = "minority"
			}
			specs = append(specs, sp)
		}
		// a separate profile, drawn from its own generator so that the traces above stay what they are: a node loses its
		// disk (at most one node of an rf-3 ensemble, at most (rf-1)/2 in all: a majority keeps its disk)
		rd := hx.NewRng(fl.Seed*7919 + 13)
		nd := fl.N / 8
		if fl.N > 0 && nd < 3 {
			nd = 3
		}
		for i := 0; i < nd; i++ {
			sp := traceSpec{Name: fmt.Sprintf("d%d-%d", fl.Seed, i), Seed: rd.U64() >> 1, Length: 60 + rd.Intn(61), Profile: "diskloss"}
			if rd.Intn(100) < 70 {
				sp.Nodes, sp.Rf = 3, 3
			} else {
				sp.Nodes, sp.Rf = 5, 5
			}
			specs = append(specs, sp)
		}
	}

	if *only != "" {
		var sel []traceSpec
		for _, sp := range specs {
			for _, nm := range strings.Split(*only, ",") {
				if sp.Name == nm {
					for i := 0; i < *repeat; i++ {
						sel = append(sel, sp)
					}
				}
			}
		}
		specs = sel
	}
	nw := *workers
	if nw <= 0 {
		nw = runtime.NumCPU()
		if nw > 12 {
			nw = 12
		}
	}
	if nw > len(specs) {
		nw = len(specs)
	}
	// all scratch directories of this run live under one directory that is removed at the end, whatever the workers do
	base := os.Getenv("VERIF_TMP")
	if base == "" {
		base = "/var/tmp"
	}
	runDir, err := os.MkdirTemp(base, "clusterrun-")
	if err == nil {
		os.Setenv("VERIF_CLUSTER_RUNDIR", runDir)
		defer os.RemoveAll(runDir)
	}
	results := runWorkers(specs, nw, *mode, *verbose)

	var evf *bufio.Writer
	if os.Getenv("VERIF_KEEP") != "" || os.Getenv("VERIF_CLUSTER_EVENTS") != "" {
		if f, err := os.Create(fl.OutDir + "/events.txt"); err == nil {
			defer f.Close()
			evf = bufio.NewWriterSize(f, 1<<20)
			defer evf.Flush()
		}
	}
	kinds := map[string]bool{}
	unreal := map[string]int{}
	var wallMs int64
	for _, r := range results {
		wallMs += r.WallMs
		if r.Input == "" {
			o.Count("traces:aborted")
			unreal[r.Unreal]++
			continue
		}
		h := fnv.New64a()
		_, _ = h.Write([]byte(r.Input))
		o.Case("trace", r.Input+fmt.Sprintf(" #seed=%d", r.Spec.Seed), r.Impl, fmt.Sprintf("%x", h.Sum64()))
		o.Count("traces")
		if evf != nil {
			fmt.Fprintf(evf, "=== case %d trace %s (%d nodes, rf %d, seed %d) unreal=%q skipped=%q\n", o.NCases, r.Id, r.Spec.Nodes, r.Spec.Rf, r.Spec.Seed, r.Unreal, r.Skipped)
			for _, e := range r.Events {
				fmt.Fprintln(evf, "   ", e)
			}
			for _, v := range r.Viols {
				fmt.Fprintf(evf, "    VIOLATION %s: %s\n", v[0], v[1])
			}
		}
		if r.Spec.Steps != nil {
			o.Count("traces:scripted")
		} else {
			o.Count(fmt.Sprintf("traces:random:%dnodes-rf%d", r.Spec.Nodes, r.Spec.Rf))
		}
		for k, v := range r.Stats {
			o.CountN(k, v)
			if strings.HasPrefix(k, "act:") {
				kinds[k] = true
			}
		}
		if r.Unreal != "" {
			o.Count("schedule-not-realisable")
			unreal[r.Unreal]++
		}
		if r.Skipped != "" {
			o.Count("model-validation-cut-short")
		}
		for _, v := range r.Viols {
			sig, detail := v[0], v[1]
			if !sigInMode(sig, *mode) {
				o.Count("other-property-signature:" + sig)
				continue
			}
			det := fmt.Sprintf("trace %s (%d nodes, rf %d, seed %d): %s || replay: script %s %d %d %s", r.Id, r.Spec.Nodes, r.Spec.Rf, r.Spec.Seed, detail,
				r.Id, r.Spec.Nodes, r.Spec.Rf, strings.Join(r.Steps, " "))
			o.Violation(sig, strings.ReplaceAll(det, "\n", " | "))
			if r.Spec.Steps != nil {
				o.Count("scenario:" + r.Id + ":" + sig)
			}
		}
	}
	o.Stats["distinct-action-kinds"] = len(kinds)
	o.Stats["trace-wall-ms-total"] = int(wallMs)
	var us []string
	for k, v := range unreal {
		us = append(us, fmt.Sprintf("%dx %s", v, k))
	}
	sort.Strings(us)
	if len(us) > 8 {
		us = us[:8]
	}
	o.Extra["not_realisable"] = us
}
