package main

// One node of the in-process cluster: a REAL server.ShardsDirector over a real WAL (scratch directory) and a real
// on-disk Pebble, plus the harness' recording wrapper around the WAL (every successful append / sync / truncate /
// clear updates a shadow copy of the log as (term, value id) pairs) and the routing of incoming RPCs exactly as
// server/internal_rpc_server.go does it.

import (
	"context"
	"fmt"
	"hash/fnv"
	"os"
	"path/filepath"
	"sync/atomic"
	"time"

	"google.golang.org/grpc/status"

	"github.com/oxia-db/oxia/common/constant"
	"github.com/oxia-db/oxia/proto"
	"github.com/oxia-db/oxia/server"
	"github.com/oxia-db/oxia/server/kv"
	"github.com/oxia-db/oxia/server/wal"

	"verif/harness/internal/kvsafe"
)

const (
	namespace       = "default"
	shardId   int64 = 0
)

type entry struct {
	term int64 // oxia term
	off  int64
	vid  int
	sum  uint64
}

func (e entry) tok() string { return fmt.Sprintf("%d.%d", e.term+1, e.vid) }

func logTok(l []entry) string {
	if len(l) == 0 {
		return "-"
	}
	b := make([]byte, 0, len(l)*6)
	for i, e := range l {
		if i > 0 {
			b = append(b, ',')
		}
		b = append(b, e.tok()...)
	}
	return string(b)
}

func sameEntry(a, b entry) bool { return a.term == b.term && a.vid == b.vid && a.sum == b.sum }

func samePrefix(a, b []entry, n int) bool {
	if len(a) < n || len(b) < n {
		return false
	}
	for i := 0; i < n; i++ {
		if !sameEntry(a[i], b[i]) {
			return false
		}
	}
	return true
}

type node struct {
	c    *cluster
	id   int
	name string
	dir  string

	up       bool
	inc      int
	walF     wal.Factory
	kvF      kv.Factory
	director server.ShardsDirector
	repl     *replProvider

	// shadow state (protected by c.mu)
	log      []entry // index = offset, the whole log from offset 0
	walFirst int64   // first offset physically present in the WAL (entries below exist only as a loaded snapshot)
	pending  []entry // appended with AppendAsync, not yet synced
	term     int64   // last term the node is known to have stored
	status   proto.ServingStatus
	curWal   *walWrap
	asyncRPC int // BecomeLeader / AddFollower calls running on this node (they hold the controller lock)
	wiped    bool
	// a snapshot was installed and no entry was appended since: the real status is still FENCED while the model,
	// which replays the snapshot as appends, says FOLLOWER
	snapFenced bool
	advertised int64 // commit offset advertised by the last non-duplicate Append (what the follower will apply)
	dbCommit   int64 // commit offset of the follower's database as last observed
	electing   bool  // BecomeLeader got past its checks in the current term and did not complete (model: nelect)
	aheadTerm  int64 // term in which the node started leading with a database commit offset beyond its log head (-2: none)
	aheadUpTo  int64 // that stale commit offset
	aheadHead  int64 // the log head offset at that BecomeLeader
	mcommit    int64 // number of committed entries the model knows for this node (see LearnCommit)

	// power loss (power.go; protected by c.mu)
	flushImage  string     // WAL directory as it was when the last completed flush started ("" = none / invalidated)
	flushTmp    string     // image taken at the start of the flush in progress
	flushTmpGen int
	imgGen      int        // bumped by TruncateLog / Clear / Delete / restart
	imgSeq      int
	flushing    bool       // a flush is between its pre and post hooks
	park        *flushPark // armed: the next flush parks
	parked      *flushPark // a flush is parked
	pendAtCrash []entry    // appended and not synced when the node went down (may or may not be in the files)
	realWal     atomic.Pointer[walWrap]
}

func (c *cluster) nodeByName(name string) *node {
	for _, n := range c.nodes {
		if n.name == name {
			return n
		}
	}
	return nil
}

func (n *node) start() error {
	walF := wal.NewWalFactory(&wal.FactoryOptions{
		BaseWalDir:  filepath.Join(n.dir, "wal"),
		Retention:   time.Hour,
		SegmentSize: 128 * 1024,
		SyncData:    n.c.captureFlush, // real syncs: the synced offset lags the appended one while a flush is running
	})
	kvF, err := kvsafe.New(&kv.FactoryOptions{DataDir: filepath.Join(n.dir, "db"), CacheSizeMB: 4})
	if err != nil {
		return err
	}
	n.inc++
	n.walF = &walFactoryWrap{Factory: walF, n: n, inc: n.inc}
	n.kvF = kvF
	n.repl = &replProvider{c: n.c, from: n, inc: n.inc}
	n.director = server.NewShardsDirector(server.Config{NotificationsRetentionTime: time.Hour}, n.walF, n.kvF, n.repl)
	n.up = true
	return nil
}

// stop closes the director (controllers close their WAL and flush + close their DB, as the code does on shutdown).
func (n *node) stop() {
	if !n.up {
		return
	}
	n.up = false
	_ = n.director.Close()
	_ = n.kvF.Close()
	_ = n.walF.Close()
}

// ------------------------------------------------------------------------------------------------ WAL wrapper

type walFactoryWrap struct {
	wal.Factory
	n   *node
	inc int
}

func (f *walFactoryWrap) NewWal(ns string, shard int64, p wal.CommitOffsetProvider) (wal.Wal, error) {
	w, err := f.Factory.NewWal(ns, shard, p)
	if err != nil {
		return nil, err
	}
	ww := &walWrap{Wal: w, n: f.n, inc: f.inc}
	c := f.n.c
	c.mu.Lock()
	f.n.curWal = ww
	// what was appended but never synced by the previous owner of the WAL is visible after reopening
	// (the file is memory mapped)
	ww.promoteLocked()
	f.n.pending = nil
	c.mu.Unlock()
	f.n.realWal.Store(ww)
	ww.instrument()
	return ww, nil
}

type walWrap struct {
	wal.Wal
	n      *node
	inc    int
	closed bool
}

func sum64(b []byte) uint64 {
	h := fnv.New64a()
	_, _ = h.Write(b)
	return h.Sum64()
}

// entryOf maps a WAL entry to its value id.  A leader's own append takes the id of the client operation that is
// being started (the harness starts one at a time); a follower's append is looked up by (term, offset).
func (c *cluster) entryOfLocked(le *proto.LogEntry, own bool) entry {
	e := entry{term: le.Term, off: le.Offset, sum: sum64(le.Value)}
	k := [2]int64{le.Term, le.Offset}
	if known, ok := c.eids[k]; ok {
		if known.sum != e.sum {
			c.violate("election:two-leaders-one-term", fmt.Sprintf("two different payloads were written for entry id (term %d, offset %d)", le.Term, le.Offset))
			c.nextInternal++
			e.vid = 900000 + c.nextInternal
			return e
		}
		e.vid = known.vid
		return e
	}
	if own && c.curOp != nil && !c.curOp.appended {
		e.vid = c.curOp.id
	} else {
		c.nextInternal++
		e.vid = 900000 + c.nextInternal
	}
	c.eids[k] = e
	return e
}

func (w *walWrap) AppendAndSync(le *proto.LogEntry, cb func(err error)) {
	c := w.n.c
	le2 := &proto.LogEntry{Term: le.Term, Offset: le.Offset, Value: append([]byte(nil), le.Value...), Timestamp: le.Timestamp}
	defer w.instrument()
	w.Wal.AppendAndSync(le, func(err error) {
		if err == nil {
			c.mu.Lock()
			e := c.entryOfLocked(le2, true)
			w.n.appendShadowLocked(e, "leader-append")
			var giveUp *op
			if c.curOp != nil && c.curOp.id == e.vid {
				c.curOp.appended = true
				c.curOp.off = e.off
				c.curOp.term = e.term
				c.curOp.node = w.n.id
				if c.curOp.cancelAtSync {
					giveUp = c.curOp
				}
			}
			c.mu.Unlock()
			if giveUp != nil {
				// the client's context ends exactly now: the entry is durable on the leader, the leader has not yet
				// registered its wait for the commit
				giveUp.cancelled = true
				giveUp.cancel()
			}
		} else {
			c.mu.Lock()
			if c.curOp != nil && !c.curOp.appended {
				c.curOp.appendErr = err
			}
			c.mu.Unlock()
		}
		cb(err)
	})
}

func (n *node) appendShadowLocked(e entry, what string) {
	if e.off != int64(len(n.log)) {
		n.c.violate("wal:non-contiguous-append", fmt.Sprintf("node %d %s of offset %d on a log of %d entries", n.id, what, e.off, len(n.log)))
		return
	}
	n.log = append(n.log, e)
}

func (w *walWrap) Append(le *proto.LogEntry) error {
	err := w.AppendAsync(le)
	if err != nil {
		return err
	}
	return w.Sync(context.Background())
}

func (w *walWrap) AppendAsync(le *proto.LogEntry) error {
	err := w.Wal.AppendAsync(le)
	w.instrument()
	if err == nil {
		c := w.n.c
		c.mu.Lock()
		w.n.pending = append(w.n.pending, c.entryOfLocked(le, false))
		c.mu.Unlock()
	}
	return err
}

// promoteLocked: the entries the real WAL reports as synced move from the pending tail to the shadow log.
func (w *walWrap) promoteLocked() {
	synced := w.Wal.LastOffset()
	k := 0
	for k < len(w.n.pending) && w.n.pending[k].off <= synced {
		k++
	}
	for _, e := range w.n.pending[:k] {
		w.n.appendShadowLocked(e, "follower-append")
	}
	w.n.pending = w.n.pending[k:]
}

func (w *walWrap) Sync(ctx context.Context) error {
	c := w.n.c
	err := w.Wal.Sync(ctx)
	if err == nil {
		c.mu.Lock()
		if w.inc == w.n.inc && w.n.curWal == w {
			w.promoteLocked()
		}
		c.mu.Unlock()
	}
	return err
}

func (w *walWrap) TruncateLog(lastSafe int64) (int64, error) {
	head, err := w.Wal.TruncateLog(lastSafe)
	w.instrument()
	if err == nil {
		c := w.n.c
		c.mu.Lock()
		w.n.invalidateImageLocked()
		w.n.pending = nil
		if head+1 < int64(len(w.n.log)) {
			if head+1 < w.n.walFirst {
				w.n.log = w.n.log[:w.n.walFirst]
			} else {
				w.n.log = w.n.log[:head+1]
			}
		}
		c.mu.Unlock()
	}
	return head, err
}

func (w *walWrap) Clear() error {
	err := w.Wal.Clear()
	w.instrument()
	if err == nil {
		c := w.n.c
		c.mu.Lock()
		w.n.invalidateImageLocked()
		w.n.pending = nil
		w.n.log = nil
		w.n.walFirst = 0
		c.mu.Unlock()
	}
	return err
}

func (w *walWrap) Delete() error {
	err := w.Wal.Delete()
	c := w.n.c
	c.mu.Lock()
	w.n.invalidateImageLocked()
	w.n.pending = nil
	w.n.log = nil
	w.n.walFirst = 0
	w.n.wiped = true
	c.mu.Unlock()
	return err
}

func (w *walWrap) Close() error {
	w.closed = true
	return w.Wal.Close()
}

// readRealLog reads the entries physically present in the node's WAL through the currently open WAL object.
func (n *node) readRealLog() (res []entry, ok bool) {
	n.c.mu.Lock()
	w := n.curWal
	n.c.mu.Unlock()
	if w == nil || w.closed || w.inc != n.inc || !n.up {
		return nil, false
	}
	defer func() {
		if r := recover(); r != nil {
			ok = false
		}
	}()
	first := w.Wal.FirstOffset()
	if first < 0 {
		return nil, true
	}
	r, err := w.Wal.NewReader(first - 1)
	if err != nil {
		return nil, false
	}
	defer r.Close()
	for r.HasNext() {
		le, err := r.ReadNext()
		if err != nil {
			return nil, false
		}
		res = append(res, entry{term: le.Term, off: le.Offset, sum: sum64(le.Value)})
	}
	return res, true
}

// ------------------------------------------------------------------------------------------------ RPC routing (as internal_rpc_server.go)

func (n *node) rpcNewTerm(req *proto.NewTermRequest) (*proto.NewTermResponse, error) {
	d := n.director
	follower, err := d.GetFollower(req.Shard)
	if err != nil {
		if status.Code(err) != constant.CodeNodeIsNotFollower {
			return nil, err
		}
	} else {
		return follower.NewTerm(req)
	}
	leader, err := d.GetOrCreateLeader(req.Namespace, req.Shard)
	if err != nil {
		return nil, err
	}
	return leader.NewTerm(req)
}

func (n *node) rpcBecomeLeader(ctx context.Context, req *proto.BecomeLeaderRequest) (*proto.BecomeLeaderResponse, error) {
	leader, err := n.director.GetOrCreateLeader(req.Namespace, req.Shard)
	if err != nil {
		return nil, err
	}
	return leader.BecomeLeader(ctx, req)
}

func (n *node) rpcAddFollower(req *proto.AddFollowerRequest) (*proto.AddFollowerResponse, error) {
	leader, err := n.director.GetLeader(req.Shard)
	if err != nil {
		return nil, err
	}
	return leader.AddFollower(req)
}

func (n *node) rpcTruncate(req *proto.TruncateRequest) (*proto.TruncateResponse, error) {
	follower, err := n.director.GetOrCreateFollower(req.Namespace, req.Shard, req.Term)
	if err != nil {
		return nil, err
	}
	return follower.Truncate(req)
}

func (n *node) rpcGetStatus(req *proto.GetStatusRequest) (*proto.GetStatusResponse, error) {
	d := n.director
	follower, err := d.GetFollower(req.Shard)
	if err == nil {
		return follower.GetStatus(req)
	}
	if status.Code(err) != constant.CodeNodeIsNotFollower {
		return nil, err
	}
	leader, err := d.GetLeader(req.Shard)
	if err != nil {
		return nil, err
	}
	return leader.GetStatus(req)
}

func (n *node) rpcDeleteShard(req *proto.DeleteShardRequest) (*proto.DeleteShardResponse, error) {
	return n.director.DeleteShard(req)
}

// leaderCommitOffset: the tracker commit offset of the node's leader controller (-1 if none); lock free.
func (n *node) leaderCommitOffset() int64 {
	if !n.up {
		return -1
	}
	lc, err := n.director.GetLeader(shardId)
	if err != nil {
		return -1
	}
	return server.VerifClusterLeaderCommitOffset(lc)
}

func (n *node) leaderHasCursor(f *node) bool {
	if !n.up {
		return false
	}
	lc, err := n.director.GetLeader(shardId)
	if err != nil {
		return false
	}
	return server.VerifClusterLeaderHasCursor(lc, f.name)
}

// followerCommit: commit offset applied by the node's follower controller (-2 if it has none).
func (n *node) followerCommit() int64 {
	if !n.up {
		return -2
	}
	fc, err := n.director.GetFollower(shardId)
	if err != nil {
		return -2
	}
	return fc.CommitOffset()
}

func (n *node) leaderHasTracker() bool {
	if !n.up {
		return false
	}
	lc, err := n.director.GetLeader(shardId)
	if err != nil {
		return false
	}
	return server.VerifClusterLeaderHasTracker(lc)
}

func removeAll(dir string) { _ = os.RemoveAll(dir) }

type noCommitOffset struct{}

func (noCommitOffset) CommitOffset() int64 { return wal.InvalidOffset }

// recoveredLog opens the node's WAL from its directory exactly as a controller will (index recovery included), reads
// every entry and closes it again.  Only called right after a restart, before any controller exists.
func (n *node) recoveredLog() (res []entry, ok bool) {
	if ents, err := os.ReadDir(filepath.Join(n.dir, "wal")); err != nil || len(ents) == 0 {
		return nil, false // the node never had a WAL
	}
	defer func() {
		if r := recover(); r != nil {
			ok = false
		}
	}()
	w, err := n.walF.(*walFactoryWrap).Factory.NewWal(namespace, shardId, noCommitOffset{})
	if err != nil {
		return nil, false
	}
	defer w.Close()
	first := w.FirstOffset()
	if first < 0 {
		return nil, true
	}
	r, err := w.NewReader(first - 1)
	if err != nil {
		return nil, false
	}
	defer r.Close()
	for r.HasNext() {
		le, err := r.ReadNext()
		if err != nil {
			return nil, false
		}
		res = append(res, entry{term: le.Term, off: le.Offset, sum: sum64(le.Value)})
	}
	return res, true
}
