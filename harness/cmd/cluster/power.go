package main

// Power loss.  `crash:` is the death of the process: the files stay as they are (the page cache survives).  A node
// that loses POWER comes back with what its last COMPLETED flush is guaranteed to have covered: its database as it is
// and its WAL as it was when that flush STARTED (the image is taken in the "pre" hook of the current segment's Flush,
// server/wal/zz_verif_node_wal.go, promoted at "post" and dropped by TruncateLog / Clear / Delete: after those the
// files as they are stand in).  A flush can be parked right after its image was taken (fpark / fnext / frelease) so
// that a schedule can land appends while the flush is in flight.

import (
	"fmt"
	"io"
	"os"
	"path/filepath"
	"time"

	"github.com/oxia-db/oxia/server/wal"
)

type flushPark struct {
	arrived chan struct{}
	release chan struct{}
}

func copyTree(src, dst string) error {
	return filepath.Walk(src, func(p string, info os.FileInfo, err error) error {
		if err != nil {
			if os.IsNotExist(err) {
				return nil
			}
			return err
		}
		rel, _ := filepath.Rel(src, p)
		target := filepath.Join(dst, rel)
		if info.IsDir() {
			return os.MkdirAll(target, 0o755)
		}
		in, err := os.Open(p)
		if err != nil {
			if os.IsNotExist(err) {
				return nil
			}
			return err
		}
		defer in.Close()
		out, err := os.Create(target)
		if err != nil {
			return err
		}
		defer out.Close()
		_, err = io.Copy(out, in)
		return err
	})
}

func (w *walWrap) instrument() {
	if w.n.c.captureFlush {
		wal.VerifInstrumentFlush(w.Wal, func(point string) { w.n.onFlush(w, point) })
	}
}

// onFlush runs on the WAL's sync goroutine, around the msync of the current segment.
func (n *node) onFlush(w *walWrap, point string) {
	c := n.c
	switch point {
	case "cur.Flush:pre":
		c.mu.Lock()
		stale := w.inc != n.inc || !n.up
		gen := n.imgGen
		n.imgSeq++
		seq := n.imgSeq
		// images are taken while the schedule holds flushes of this node (stepFlushPark takes the first one); at any
		// other time every appended entry is synced before the next scheduler decision and the files as they are stand in
		capture := n.park != nil
		c.mu.Unlock()
		if stale {
			return
		}
		tmp := ""
		if capture {
			tmp = filepath.Join(c.tmp, fmt.Sprintf("walimg-%d-%d", n.id, seq))
			if copyTree(filepath.Join(n.dir, "wal"), tmp) != nil {
				removeAll(tmp)
				tmp = ""
			}
		}
		c.mu.Lock()
		if n.flushTmp != "" {
			removeAll(n.flushTmp)
		}
		n.flushTmp, n.flushTmpGen = tmp, gen
		n.flushing = true
		pk := n.park
		if pk != nil {
			n.park = nil
			n.parked = pk
		}
		c.mu.Unlock()
		if pk != nil {
			close(pk.arrived)
			select {
			case <-pk.release:
			case <-c.dead:
			}
			c.mu.Lock()
			if n.parked == pk {
				n.parked = nil
			}
			c.mu.Unlock()
		}
	case "cur.Flush:post":
		c.mu.Lock()
		if n.flushTmp == "" && w.inc == n.inc {
			// a flush completed without an image of its start: an older image is not the last completed flush any more
			n.invalidateImageLocked()
		}
		if n.flushTmp != "" {
			if n.flushTmpGen == n.imgGen && w.inc == n.inc {
				if n.flushImage != "" {
					removeAll(n.flushImage)
				}
				n.flushImage, n.flushTmp = n.flushTmp, ""
			} else {
				removeAll(n.flushTmp)
				n.flushTmp = ""
			}
		}
		n.flushing = false
		c.mu.Unlock()
	}
}

// invalidateImageLocked: the WAL was truncated / cleared / deleted: an older image would bring removed entries back.
func (n *node) invalidateImageLocked() {
	n.imgGen++
	if n.flushImage != "" {
		removeAll(n.flushImage)
		n.flushImage = ""
	}
}

// flushHeld: a flush of the node is parked (or armed to park): the node's sync goroutine does not make progress.
func (c *cluster) flushHeld(id int) bool {
	n := c.node(id)
	if n == nil {
		return false
	}
	c.mu.Lock()
	defer c.mu.Unlock()
	return n.park != nil || n.parked != nil
}

func (c *cluster) anyFlushHeld() int {
	for _, n := range c.nodes {
		if c.flushHeld(n.id) {
			return n.id
		}
	}
	return 0
}

// stepFlushPark: the next flush of the node's WAL parks right after its image was taken.
func (c *cluster) stepFlushPark(id int) bool {
	n := c.node(id)
	if n == nil || !n.up || !c.captureFlush || c.flushHeld(id) || c.busy(id) {
		return false
	}
	// the node is quiescent (no flush in flight, everything it appended is synced): its files are what its last
	// completed flush covered
	c.mu.Lock()
	idle := !n.flushing && len(n.pending) == 0
	n.imgSeq++
	seq := n.imgSeq
	c.mu.Unlock()
	if !idle {
		return false
	}
	img := filepath.Join(c.tmp, fmt.Sprintf("walimg-%d-%d", n.id, seq))
	if copyTree(filepath.Join(n.dir, "wal"), img) != nil {
		removeAll(img)
		return false
	}
	c.mu.Lock()
	n.invalidateImageLocked()
	n.flushImage = img
	n.park = &flushPark{arrived: make(chan struct{}), release: make(chan struct{})}
	c.mu.Unlock()
	c.event("flush-park armed on %d", id)
	return true
}

// releaseFlush lets the parked flush of the node go on and waits for it to complete; next: the following flush parks.
func (c *cluster) releaseFlush(id int, next bool) bool {
	n := c.node(id)
	if n == nil {
		return false
	}
	c.mu.Lock()
	pk := n.parked
	armed := n.park
	if pk == nil && armed != nil && !next {
		n.park = nil // armed, never reached
	}
	if pk != nil && next {
		n.park = &flushPark{arrived: make(chan struct{}), release: make(chan struct{})}
	}
	c.mu.Unlock()
	if pk == nil {
		return armed != nil && !next
	}
	close(pk.release)
	c.waitFor(fmt.Sprintf("the parked flush of node %d to complete", id), shortWait, func() bool {
		c.mu.Lock()
		defer c.mu.Unlock()
		return n.parked != pk && (!n.flushing || n.parked != nil)
	})
	return true
}

func (c *cluster) stepFlushRelease(id int, next bool) bool {
	if !c.flushHeld(id) {
		return false
	}
	c.mu.Lock()
	parked := c.node(id).parked != nil
	c.mu.Unlock()
	if next && !parked {
		return false
	}
	if next {
		c.event("flush of %d released; its next flush parks", id)
	} else {
		c.event("flush of %d released", id)
	}
	return c.releaseFlush(id, next)
}

// stepPowerLoss: the node loses power and comes back (after `restart`) with its database as it is and the WAL image of
// its last completed flush.
func (c *cluster) stepPowerLoss(id int) bool {
	n := c.node(id)
	if n == nil || !n.up {
		return false
	}
	img := filepath.Join(c.tmp, fmt.Sprintf("power-%d-%d", id, c.stepNo))
	c.mu.Lock()
	src, kind := n.flushImage, 1
	if src == "" || !c.captureFlush {
		src, kind = filepath.Join(n.dir, "wal"), 0
	}
	lg := append([]entry(nil), n.log...)
	pend := append([]entry(nil), n.pending...)
	c.mu.Unlock()
	if err := copyTree(src, img); err != nil {
		removeAll(img)
		c.unrealisable(fmt.Sprintf("power loss of node %d: the WAL image could not be taken: %v", id, err))
		return true
	}
	what := "the files as they are (no flush has completed since the WAL was opened / truncated)"
	if kind == 1 {
		what = "its WAL as it was when the last completed flush started"
	}
	c.event("power-loss %d: synced log %s, appended and not synced %s; it comes back with %s", id, logTok(lg), logTok(pend), what)
	c.stats[fmt.Sprintf("power-losses(image kind %d)", kind)]++
	if len(pend) > 0 {
		c.stats["power-losses:with-unsynced-entries"]++
	}
	// what the node will find: the image, opened as the node will open it
	rec, ok := readWalDir(img)
	if !ok {
		removeAll(img)
		c.unrealisable(fmt.Sprintf("power loss of node %d: the WAL image does not open", id))
		return true
	}
	c.mu.Lock()
	first := int(n.walFirst)
	c.mu.Unlock()
	want := lg
	if first <= len(lg) {
		want = lg[first:]
	}
	same := func(a, b entry) bool { return a.term == b.term && a.off == b.off && a.sum == b.sum }
	bad := len(rec) < len(want) || len(rec) > len(want)+len(pend)
	for i := 0; !bad && i < len(rec); i++ {
		if i < len(want) {
			bad = !same(rec[i], want[i])
		} else {
			bad = !same(rec[i], pend[i-len(want)])
		}
	}
	if bad {
		var got []string
		for _, e := range rec {
			got = append(got, fmt.Sprintf("%d:(t%d)", e.off, mterm(e.term)))
		}
		c.violate("restart:log-differs-from-synced-prefix", fmt.Sprintf(
			"node %d loses power with synced log %s (WAL from offset %d) and unsynced tail %s; the WAL of its last completed flush (image kind %d) recovers as %v: synced entries are gone or entries that were never written are there",
			id, logTok(lg), first, logTok(pend), kind, got))
		removeAll(img)
		return c.crashNode(id, nil, true)
	}
	survive := pend[:len(rec)-len(want)]
	if !c.crashNode(id, survive, true) {
		removeAll(img)
		return false
	}
	if c.unreal != "" {
		return true
	}
	// what the crash procedure let reach the files after the power was gone does not count
	removeAll(filepath.Join(n.dir, "wal"))
	if err := os.Rename(img, filepath.Join(n.dir, "wal")); err != nil {
		c.unrealisable(fmt.Sprintf("power loss of node %d: %v", id, err))
		return true
	}
	c.mu.Lock()
	n.invalidateImageLocked()
	c.mu.Unlock()
	return true
}

// readWalDir opens a copy of a WAL directory exactly as a controller will and reads every entry.
func readWalDir(dir string) (res []entry, ok bool) {
	defer func() {
		if r := recover(); r != nil {
			ok = false
		}
	}()
	f := wal.NewWalFactory(&wal.FactoryOptions{BaseWalDir: dir, Retention: time.Hour, SegmentSize: 128 * 1024, SyncData: false})
	defer f.Close()
	if ents, err := os.ReadDir(dir); err != nil || len(ents) == 0 {
		return nil, true
	}
	w, err := f.NewWal(namespace, shardId, noCommitOffset{})
	if err != nil {
		return nil, false
	}
	defer w.Close()
	first := w.FirstOffset()
	if first < 0 {
		return nil, true
	}
	r, err := w.NewReader(first - 1)
	if err != nil {
		return nil, false
	}
	defer r.Close()
	for r.HasNext() {
		le, err := r.ReadNext()
		if err != nil {
			return nil, false
		}
		res = append(res, entry{term: le.Term, off: le.Offset, sum: sum64(le.Value)})
	}
	return res, true
}
