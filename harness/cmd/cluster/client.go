package main

// Client operations: issued on a node's LeaderController exactly as server/public_rpc_server.go does
// (director.GetLeader(shard) then WriteBlock / Read / List / RangeScan), recorded with invocation and return
// step, serving node and its term.  The sequential specification of the shard (a versioned key-value map, as
// server/kv/db.go implements it for puts, conditional puts, deletes, delete-ranges, gets, lists, range scans)
// lives here too: the monitors replay logs through it.

import (
	"context"
	"fmt"
	"sort"
	"strings"
	"sync"

	"github.com/oxia-db/oxia/proto"
)

type getRes struct {
	key    string
	status proto.Status
	vid    int
	ver    int64
	mod    int64
}

type op struct {
	id   int
	kind string // put cput del delr | get list scan
	key  string
	key2 string
	exp  int64

	node       int
	nodeTerm   int64
	invokeStep int
	returnStep int

	// progress (under c.mu)
	appended   bool
	off, term  int64
	appendErr  error
	mustFinish bool
	done       bool
	err        error

	// results
	wStatus proto.Status
	wVer    int64
	wMod    int64
	gets    []getRes
	keys    []string

	// context for the history check
	ctx          context.Context
	cancel       context.CancelFunc
	cancelAtSync bool // the client gives up right when the entry becomes durable on the leader (before the commit wait is registered)
	cancelled    bool

	kmin      int  // entries of the committed log that were acknowledged before the invocation
	isCurrent bool // the serving node was the most recent leader at invocation
	harvested bool
}

func (o *op) isWrite() bool {
	return o.kind == "put" || o.kind == "cput" || o.kind == "del" || o.kind == "delr"
}

func (o *op) String() string {
	switch o.kind {
	case "cput":
		return fmt.Sprintf("op%d cput(%s, expected-version=%d)@node%d", o.id, o.key, o.exp, o.node)
	case "delr", "list", "scan":
		return fmt.Sprintf("op%d %s[%s,%s)@node%d", o.id, o.kind, o.key, o.key2, o.node)
	}
	return fmt.Sprintf("op%d %s(%s)@node%d", o.id, o.kind, o.key, o.node)
}

// valueOf: the value of a put carries the operation's id in a fixed width, so that all puts of one kind encode to WAL
// records of one size (record boundaries line up when a log is truncated and re-written).
func valueOf(vid int) []byte { return []byte(fmt.Sprintf("v%06d", vid)) }
func vidOf(b []byte) int {
	if len(b) < 2 || b[0] != 'v' {
		return -1
	}
	return atoi(string(b[1:]))
}

func (o *op) request() *proto.WriteRequest {
	sh := shardId
	w := &proto.WriteRequest{Shard: &sh}
	switch o.kind {
	case "put":
		w.Puts = []*proto.PutRequest{{Key: o.key, Value: valueOf(o.id)}}
	case "cput":
		e := o.exp
		w.Puts = []*proto.PutRequest{{Key: o.key, Value: valueOf(o.id), ExpectedVersionId: &e}}
	case "del":
		w.Deletes = []*proto.DeleteRequest{{Key: o.key}}
	case "delr":
		w.DeleteRanges = []*proto.DeleteRangeRequest{{StartInclusive: o.key, EndExclusive: o.key2}}
	}
	return w
}

type getCollector struct {
	mu   sync.Mutex
	res  []*proto.GetResponse
	done chan error
}

func (g *getCollector) OnNext(r *proto.GetResponse) error {
	g.mu.Lock()
	g.res = append(g.res, r)
	g.mu.Unlock()
	return nil
}
func (g *getCollector) OnComplete(err error) { g.done <- err }

type keyCollector struct {
	mu   sync.Mutex
	res  []string
	done chan error
}

func (g *keyCollector) OnNext(k string) error {
	g.mu.Lock()
	g.res = append(g.res, k)
	g.mu.Unlock()
	return nil
}
func (g *keyCollector) OnComplete(err error) { g.done <- err }

// stepCancel: the client of an in-flight write (appended on the leader, not answered yet) cancels its context.
func (c *cluster) stepCancel(id int) bool {
	if id < 1 || id > len(c.ops) {
		return false
	}
	o := c.ops[id-1]
	c.mu.Lock()
	ok := o.isWrite() && o.appended && !o.done && !o.cancelled
	c.mu.Unlock()
	if !ok {
		return false
	}
	o.cancelled = true
	c.event("client cancels the context of %s (in flight at offset %d)", o, o.off)
	o.cancel()
	return true
}

// stepClient: w:<node>:<kind>:<key>[:<arg>]  |  wc:... (the same, context cancelled when the entry is synced)  |  r:<node>:<kind>:<key>[:<key2>]
func (c *cluster) stepClient(f []string) bool {
	if len(f) < 4 {
		return false
	}
	n := c.node(atoi(f[1]))
	if n == nil || !n.up {
		return false
	}
	c.mu.Lock()
	busy := n.asyncRPC > 0
	c.mu.Unlock()
	if busy {
		return false // the controller lock is held by BecomeLeader / AddFollower: the call would just block
	}
	o := &op{id: len(c.ops) + 1, kind: f[2], key: f[3], node: n.id, invokeStep: c.stepNo, off: -1, cancelAtSync: f[0] == "wc"}
	o.ctx, o.cancel = context.WithCancel(context.Background())
	if len(f) > 4 {
		if o.kind == "cput" {
			o.exp = int64(atoi(f[4]))
			if f[4] == "-1" {
				o.exp = -1
			}
		} else {
			o.key2 = f[4]
		}
	}
	t, _ := c.projection(n)
	o.nodeTerm = t
	o.kmin, o.isCurrent = c.mon.invocationContext(n.id, t)
	c.mu.Lock()
	c.ops = append(c.ops, o)
	if o.isWrite() {
		c.curOp = o
	}
	c.mu.Unlock()
	c.event("invoke %s (term %d)", o, t)
	go c.runOp(n, o)
	if o.isWrite() {
		c.waitFor("the write to reach the WAL or fail", shortWait, func() bool {
			c.mu.Lock()
			defer c.mu.Unlock()
			return o.done || o.appended || o.appendErr != nil
		})
		c.mu.Lock()
		c.curOp = nil
		app, off, term := o.appended, o.off, o.term
		c.mu.Unlock()
		if app {
			c.event("leader-append node=%d term=%d offset=%d entry=%d.%d (%s)", n.id, term, off, mterm(term), o.id, o)
			c.tok(fmt.Sprintf("CW:%d:%d", n.id, o.id))
			c.mon.onLeaderAppend(n.id, term, off)
		}
	}
	return true
}

func (c *cluster) runOp(n *node, o *op) {
	var err error
	defer func() {
		if r := recover(); r != nil {
			err = fmt.Errorf("panic: %v", r)
		}
		c.mu.Lock()
		o.done, o.err = true, err
		c.mu.Unlock()
	}()
	lc, e := n.director.GetLeader(shardId)
	if e != nil {
		err = e
		return
	}
	ctx := o.ctx
	sh := shardId
	switch o.kind {
	case "put", "cput", "del", "delr":
		var res *proto.WriteResponse
		res, err = lc.WriteBlock(ctx, o.request())
		if err == nil {
			switch {
			case len(res.Puts) == 1:
				o.wStatus = res.Puts[0].Status
				if res.Puts[0].Version != nil {
					o.wVer, o.wMod = res.Puts[0].Version.VersionId, res.Puts[0].Version.ModificationsCount
				}
			case len(res.Deletes) == 1:
				o.wStatus = res.Deletes[0].Status
			case len(res.DeleteRanges) == 1:
				o.wStatus = res.DeleteRanges[0].Status
			default:
				err = fmt.Errorf("malformed write response %v", res)
			}
		}
	case "get":
		col := &getCollector{done: make(chan error, 1)}
		lc.Read(ctx, &proto.ReadRequest{Shard: &sh, Gets: []*proto.GetRequest{{Key: o.key, IncludeValue: true}}}, col)
		err = <-col.done
		if err == nil {
			for _, r := range col.res {
				g := getRes{key: o.key, status: r.Status, vid: vidOf(r.Value)}
				if r.Version != nil {
					g.ver, g.mod = r.Version.VersionId, r.Version.ModificationsCount
				}
				o.gets = append(o.gets, g)
			}
		}
	case "list":
		col := &keyCollector{done: make(chan error, 1)}
		lc.List(ctx, &proto.ListRequest{Shard: &sh, StartInclusive: o.key, EndExclusive: o.key2}, col)
		err = <-col.done
		o.keys = col.res
	case "scan":
		col := &getCollector{done: make(chan error, 1)}
		lc.RangeScan(ctx, &proto.RangeScanRequest{Shard: &sh, StartInclusive: o.key, EndExclusive: o.key2}, col)
		err = <-col.done
		if err == nil {
			for _, r := range col.res {
				g := getRes{status: r.Status, vid: vidOf(r.Value)}
				if r.Key != nil {
					g.key = *r.Key
				}
				if r.Version != nil {
					g.ver, g.mod = r.Version.VersionId, r.Version.ModificationsCount
				}
				o.gets = append(o.gets, g)
			}
		}
	default:
		err = fmt.Errorf("unknown operation kind %s", o.kind)
	}
}

// harvestOps reports the operations that returned since the last harvest (in id order).
func (c *cluster) harvestOps() bool {
	did := false
	c.mu.Lock()
	ops := append([]*op(nil), c.ops...)
	c.mu.Unlock()
	for _, o := range ops {
		c.mu.Lock()
		done := o.done
		c.mu.Unlock()
		if !done || o.harvested {
			continue
		}
		o.harvested = true
		o.returnStep = c.stepNo
		did = true
		if o.err != nil {
			c.event("return %s: ERROR %v (appended=%v)", o, o.err, o.appended)
			c.stats["ops:error"]++
			c.mon.onOpFailed(o)
			continue
		}
		if o.isWrite() {
			c.mu.Lock()
			lateAck := c.node(o.node).status != proto.ServingStatus_LEADER || c.node(o.node).term != o.term
			c.mu.Unlock()
			if lateAck {
				c.event("INTERNAL: %s returned OK but was harvested after its leader was fenced", o)
				c.unrealisable(fmt.Sprintf("internal: the return of %s was observed late (after its leader had been fenced)", o))
			}
			c.event("return %s: %v version=%d modifications=%d (term %d offset %d)", o, o.wStatus, o.wVer, o.wMod, o.term, o.off)
			c.tok(fmt.Sprintf("AC:%d:%d", o.node, o.off))
			c.stats["acked-writes"]++
			c.mon.onWriteAcked(o)
		} else {
			c.event("return %s: %s", o, o.resultString())
			c.stats["reads"]++
			c.mon.onReadDone(o)
		}
	}
	return did
}

func (o *op) resultString() string {
	if o.kind == "list" {
		return "[" + strings.Join(o.keys, ",") + "]"
	}
	var p []string
	for _, g := range o.gets {
		if g.status != proto.Status_OK {
			p = append(p, fmt.Sprintf("%s:%v", g.key, g.status))
		} else {
			p = append(p, fmt.Sprintf("%s=v%d(ver %d, mod %d)", g.key, g.vid, g.ver, g.mod))
		}
	}
	return strings.Join(p, " ")
}

// ------------------------------------------------------------------------------------------------ sequential specification

type kvRec struct {
	vid int
	ver int64
	mod int64
}

type kvState struct {
	m       map[string]kvRec
	lastVer int64
}

func newKV() *kvState { return &kvState{m: map[string]kvRec{}, lastVer: -1} }

// apply runs one write of the log on the state and returns the response the specification prescribes.
func (s *kvState) apply(o *op) (proto.Status, int64, int64) {
	switch o.kind {
	case "put", "cput":
		old, ok := s.m[o.key]
		if o.kind == "cput" {
			if o.exp == -1 {
				if ok {
					return proto.Status_UNEXPECTED_VERSION_ID, 0, 0
				}
			} else if !ok || old.ver != o.exp {
				return proto.Status_UNEXPECTED_VERSION_ID, 0, 0
			}
		}
		s.lastVer++
		r := kvRec{vid: o.id, ver: s.lastVer}
		if ok {
			r.mod = old.mod + 1
		}
		s.m[o.key] = r
		return proto.Status_OK, r.ver, r.mod
	case "del":
		if _, ok := s.m[o.key]; !ok {
			return proto.Status_KEY_NOT_FOUND, 0, 0
		}
		delete(s.m, o.key)
		return proto.Status_OK, 0, 0
	case "delr":
		for k := range s.m {
			if k >= o.key && k < o.key2 {
				delete(s.m, k)
			}
		}
		return proto.Status_OK, 0, 0
	}
	return proto.Status_OK, 0, 0
}

// matches: does the read's result equal what the state prescribes?
func (s *kvState) matches(o *op) bool {
	switch o.kind {
	case "get":
		if len(o.gets) != 1 {
			return false
		}
		g := o.gets[0]
		r, ok := s.m[o.key]
		if !ok {
			return g.status == proto.Status_KEY_NOT_FOUND
		}
		return g.status == proto.Status_OK && g.vid == r.vid && g.ver == r.ver && g.mod == r.mod
	case "list", "scan":
		var keys []string
		for k := range s.m {
			if k >= o.key && k < o.key2 {
				keys = append(keys, k)
			}
		}
		sort.Strings(keys)
		if o.kind == "list" {
			if len(keys) != len(o.keys) {
				return false
			}
			for i := range keys {
				if keys[i] != o.keys[i] {
					return false
				}
			}
			return true
		}
		if len(keys) != len(o.gets) {
			return false
		}
		for i, k := range keys {
			g, r := o.gets[i], s.m[k]
			if g.key != k || g.status != proto.Status_OK || g.vid != r.vid || g.ver != r.ver || g.mod != r.mod {
				return false
			}
		}
		return true
	}
	return false
}

func (s *kvState) String() string {
	var ks []string
	for k := range s.m {
		ks = append(ks, k)
	}
	sort.Strings(ks)
	var p []string
	for _, k := range ks {
		r := s.m[k]
		p = append(p, fmt.Sprintf("%s=v%d(ver %d, mod %d)", k, r.vid, r.ver, r.mod))
	}
	return "{" + strings.Join(p, " ") + "}"
}
