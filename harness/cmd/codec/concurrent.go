package main

// What "synced" promises under concurrency: several AppendAndSync / AppendAsync+Sync callers racing ONE flush.
//
// The current segment's Flush (msync) is instrumented with wal.VerifInstrumentFlush (add-only hook of the
// node harness): inside "cur.Flush:pre" the harness copies that segment's file -- what a power loss after
// this flush is guaranteed to find -- and at "cur.Flush:post" promotes the copy to the segment's durable
// content.  One flush is parked right after its copy was taken; while it is parked 1..k more sync requests
// (with their entries, possibly across a rollover) are issued; then it is released.  Every call that
// RETURNED nil (callback invoked with nil / Sync returned nil) promises its entries in every image a crash
// after that instant can leave; the harness records, at the instant of the acknowledgement, the pessimistic
// image (every segment as of the start of its last COMPLETED flush, a rolled-over segment as of its Close,
// a fresh segment zero-filled) and reopens each of them.  The codec/WAL model's crash relation is
// sequential: concurrent sync completion is covered by this leg only (spec verdict, no model).

import (
	"context"
	"fmt"
	"os"
	"path/filepath"
	"sort"
	"strings"
	"sync"
	"sync/atomic"
	"time"

	pb "google.golang.org/protobuf/proto"

	"github.com/oxia-db/oxia/proto"
	"github.com/oxia-db/oxia/server/wal"

	"verif/harness/internal/hx"
)

type ackEvent struct {
	upto int   // number of leading entries this acknowledgement promises
	img  files // pessimistic crash image at the instant of the acknowledgement
	what string
	ver  string // fingerprint of the durable state (to reopen each distinct image once)
}

type concRun struct {
	*walRun
	mu         sync.Mutex
	capSeq     int            // capture clock
	durSeq     map[string]int // capture time of durable[name]
	acks       []ackEvent
	failed     []string // acknowledgements with an error (no promise)
	armed      bool
	arrived    chan struct{}
	release    chan struct{}
	flushes    int
	used       int  // bytes of the current segment in use (to predict a rollover: size field+crcs 12 + marshalled entry)
	blind      bool // a segment may have been flushed before the hook was on it: no verdicts for this scenario
	lastRec    int  // size of the last record appended
	inPark     bool // a flush is parked right now
	rollInPark int  // rollovers that happened while a flush was parked
}

func (c *concRun) dir() string { return walDir(c.root) }

// setDurable (mu held): the content captured at time seq is on disk for sure
func (c *concRun) setDurable(name string, content []byte, seq int) {
	if seq > c.durSeq[name] {
		c.durSeq[name] = seq
		c.durable[name] = content
	}
}

// instrument (re-)arms the Flush hook on the current segment; the hook closure knows which file it flushes
// (VerifInstrumentFlush keeps the first wrapper of a segment, so the name captured at wrap time stays right)
func (c *concRun) instrument() {
	name := currentTxn(readDirNames(c.dir()))
	var snap []byte
	var seq int
	wal.VerifInstrumentFlush(c.w, func(point string) {
		switch point {
		case "cur.Flush:pre":
			b, err := os.ReadFile(filepath.Join(c.dir(), name))
			c.mu.Lock()
			c.capSeq++
			seq, snap = c.capSeq, b
			if err != nil {
				snap = nil
			}
			c.flushes++
			park := c.armed
			c.armed = false
			arrived, release := c.arrived, c.release
			c.mu.Unlock()
			if park {
				close(arrived)
				<-release
			}
		case "cur.Flush:post":
			c.mu.Lock()
			if snap != nil {
				c.setDurable(name, snap, seq)
			}
			c.mu.Unlock()
		}
	})
}

// pessimistic (mu held): the directory a power loss right now is only guaranteed to contain
func (c *concRun) pessimistic() (files, string) {
	img := files{}
	var ver []string
	for n, b := range readDir(c.dir()) {
		if !strings.HasSuffix(n, ".txnx") {
			img[n] = b // idx files: written at Close; recovery rebuilds them when they are damaged
			continue
		}
		d, ok := c.durable[n]
		if !ok || len(d) != len(b) {
			d = make([]byte, len(b))
		}
		img[n] = d
		ver = append(ver, fmt.Sprintf("%s@%d", n, c.durSeq[n]))
	}
	sort.Strings(ver)
	return img, strings.Join(ver, ",")
}

func (c *concRun) ack(upto int, what string, err error) {
	c.mu.Lock()
	defer c.mu.Unlock()
	if err != nil {
		c.failed = append(c.failed, what+":"+err.Error())
		return
	}
	img, ver := c.pessimistic()
	c.acks = append(c.acks, ackEvent{upto: upto, img: img, what: what, ver: ver})
}

// appendOne: AppendAsync or AppendAndSync of the next entry (from the harness goroutine; neither blocks on the flush)
func (c *concRun) appendOne(r *hx.Rng, size int, andSync bool, done *sync.WaitGroup) bool {
	off := len(c.log)
	v := randBytes(r, size)
	e := &proto.LogEntry{Term: 1, Offset: int64(off), Value: v, Timestamp: uint64(off)}
	before := currentTxn(readDirNames(c.dir()))
	// A rollover installs a fresh, uninstrumented segment.  AppendAndSync would queue its sync request
	// before the harness can put the hook on it (the flush would go unobserved), so an append that
	// is going to roll over is issued as AppendAsync, the hook is installed, and then Sync is requested.
	rec := 12 + pb.Size(e)
	willRoll := c.used+rec > int(c.segSize)
	viaSync := andSync && willRoll
	if viaSync {
		andSync = false
	}
	if andSync {
		done.Add(1)
		appendErr := make(chan error, 1)
		var first atomic.Bool
		first.Store(true)
		c.w.AppendAndSync(e, func(err error) {
			// the callback is invoked synchronously with the append error, or later by the sync goroutine
			if first.Load() && err != nil {
				select {
				case appendErr <- err:
				default:
				}
			}
			c.ack(off+1, fmt.Sprintf("AppendAndSync(%d)", off), err)
			done.Done()
		})
		first.Store(false)
		select {
		case err := <-appendErr:
			c.script = append(c.script, "appendsync-failed:"+err.Error())
			return false
		default:
		}
	} else if err := c.w.AppendAsync(e); err != nil {
		c.script = append(c.script, "append-failed:"+err.Error())
		return false
	}
	c.log = append(c.log, v)
	c.hist[off] = append(c.hist[off], v)
	c.mu.Lock()
	for n, b := range readDir(c.dir()) {
		if _, ok := c.durable[n]; !ok && strings.HasSuffix(n, ".txnx") {
			c.durable[n] = make([]byte, len(b)) // initFileWithZeroes syncs the new file
		}
	}
	rolled := false
	if after := currentTxn(readDirNames(c.dir())); after != before {
		rolled = true
		if closeFlushes {
			// rollover: readWriteSegment.Close() flushed the segment it closed, as of now
			if b, err := os.ReadFile(filepath.Join(c.dir(), before)); err == nil {
				c.capSeq++
				c.setDurable(before, b, c.capSeq)
			}
		}
		c.script = append(c.script, "(rollover)")
	}
	c.lastRec = rec
	if rolled && c.inPark {
		c.rollInPark++
	}
	if rolled {
		c.used = rec
		if andSync {
			c.blind = true // not predicted: the new segment's first flush may already be over
		}
	} else {
		c.used += rec
	}
	c.mu.Unlock()
	c.instrument()
	if viaSync {
		c.script = append(c.script, fmt.Sprintf("AppendAsync(%d)", off))
		c.syncAsync(done)
		return true
	}
	if andSync {
		c.script = append(c.script, fmt.Sprintf("AppendAndSync(%d)", off))
	} else {
		c.script = append(c.script, fmt.Sprintf("AppendAsync(%d)", off))
	}
	return true
}

// syncAsync: Sync() from another goroutine; promises everything appended before the call
func (c *concRun) syncAsync(done *sync.WaitGroup) {
	upto := len(c.log)
	done.Add(1)
	started := make(chan struct{})
	go func() {
		defer done.Done()
		ctx, cancel := context.WithTimeout(context.Background(), 20*time.Second)
		defer cancel()
		close(started)
		err := c.w.Sync(ctx)
		c.ack(upto, fmt.Sprintf("Sync(upto %d)", upto), err)
	}()
	<-started
	c.script = append(c.script, "Sync&")
}

func waitWG(wg *sync.WaitGroup, d time.Duration) bool {
	ch := make(chan struct{})
	go func() { wg.Wait(); close(ch) }()
	select {
	case <-ch:
		return true
	case <-time.After(d):
		return false
	}
}

func concurrentScenario(o *hx.Out, r *hx.Rng, id int) {
	seg := int32(hx.Pick(r, []int{2 * pageSize, 3 * pageSize, 16 * 1024, 64 * 1024}))
	size := hx.Pick(r, []int{40, 300, 1000, 1500})
	// aimed: fill the segment so that the parked flush's own entry is the last one that fits: the first
	// request issued while the flush is parked rolls the segment over (and closes the one being flushed)
	aimed := r.Chance(60)
	if aimed {
		seg = int32(hx.Pick(r, []int{2 * pageSize, 3 * pageSize}))
		size = hx.Pick(r, []int{300, 1000, 1500})
	}
	c := &concRun{walRun: newWalRun(r, seg), durSeq: map[string]int{}}
	defer os.RemoveAll(c.root)
	c.instrument()
	var wg sync.WaitGroup
	ok := true
	// a few sequential, fully acknowledged writes first
	for i, n := 0, r.Intn(4); i < n && ok; i++ {
		ok = c.appendOne(r, size, true, &wg)
		if ok && !waitWG(&wg, 20*time.Second) {
			hung = true
			return
		}
	}
	rounds := 1 + r.Intn(3)
	for rd := 0; rd < rounds && ok && !hung; rd++ {
		if aimed {
			rec := c.lastRec
			if rec == 0 {
				rec = size + 40
			}
			for ok && c.used+2*rec <= int(seg) {
				ok = c.appendOne(r, size, true, &wg)
				if ok && !waitWG(&wg, 20*time.Second) {
					hung = true
					return
				}
				rec = c.lastRec
			}
			if !ok {
				break
			}
		}
		// park the next flush right after its image was taken
		c.mu.Lock()
		c.armed, c.arrived, c.release = true, make(chan struct{}), make(chan struct{})
		arrived, release := c.arrived, c.release
		c.mu.Unlock()
		if !c.appendOne(r, size, true, &wg) {
			ok = false
			c.mu.Lock()
			c.armed = false
			c.mu.Unlock()
			break
		}
		parked := false
		select {
		case <-arrived:
			parked = true
			c.mu.Lock()
			c.inPark = true
			c.mu.Unlock()
			c.script = append(c.script, "[flush parked")
		case <-time.After(3 * time.Second):
			c.mu.Lock()
			c.armed = false
			c.mu.Unlock()
			o.Count("wal:concurrent:flush-did-not-start(no-park)")
		}
		// requests that arrive while the flush is in progress
		k := 1 + r.Intn(4)
		for i := 0; i < k && ok; i++ {
			switch r.Intn(4) {
			case 0:
				if ok = c.appendOne(r, size, false, &wg); ok {
					c.syncAsync(&wg)
				}
			case 1:
				ok = c.appendOne(r, hx.Pick(r, []int{size, 1500}), true, &wg)
			default:
				ok = c.appendOne(r, size, true, &wg)
			}
		}
		if parked {
			c.script = append(c.script, "released]")
			c.mu.Lock()
			c.inPark = false
			c.mu.Unlock()
			close(release)
		}
		if !waitWG(&wg, 30*time.Second) {
			hung = true
			o.Violation("wal:sync:callback-never-invoked", strings.Join(c.script, " "))
			return
		}
	}
	c.closeLive()
	o.Count("wal:concurrent-scenarios")
	c.mu.Lock()
	acks, failed := c.acks, c.failed
	c.mu.Unlock()
	if c.rollInPark > 0 {
		o.Count("wal:concurrent-scenarios-with-rollover-during-the-parked-flush")
	}
	if len(failed) > 0 {
		// no fault was injected and every entry is durable (appended, the segment flushed by its
		// Close or by the next round): a sync request must not fail
		sig := "wal:sync-error"
		if c.rollInPark > 0 {
			sig = "wal:sync-error-at-rollover"
		}
		o.Violation(sig, fmt.Sprintf("%s | %d of the sync requests returned an error although nothing failed: %s",
			strings.Join(c.script, " "), len(failed), strings.Join(failed, "; ")))
	}
	if c.blind {
		o.Count("wal:concurrent:unpredicted-rollover(no-verdict)")
		o.Case("wal", fmt.Sprintf("conc#%d %s", id, strings.Join(c.script, " ")), "no-verdict", "")
		return
	}
	// reopen every distinct pessimistic image once, with the strongest promise made on it
	best := map[string]ackEvent{}
	var order []string
	for _, a := range acks {
		if b, ok := best[a.ver]; !ok {
			best[a.ver] = a
			order = append(order, a.ver)
		} else if a.upto > b.upto {
			a.img = b.img
			best[a.ver] = a
		}
	}
	lost := 0
	for _, ver := range order {
		a := best[ver]
		root := scratchDir()
		writeDir(walDir(root), a.img)
		w2, _, res := openWal(root, seg, int64(a.upto)-1)
		v := &walView{open: res}
		if res == "ok" {
			v = viewWal(w2)
			guard(func() string { w2.Close(); return "ok" })
		}
		os.RemoveAll(root)
		nv := o.NViol
		c.verdict(o, v, c.log, a.upto, fmt.Sprintf("power loss right after %s returned nil: every segment as of the start of its last completed flush [%s]", a.what, ver), true)
		if o.NViol > nv {
			lost++
		}
	}
	o.Case("wal", fmt.Sprintf("conc#%d %s", id, strings.Join(c.script, " ")),
		fmt.Sprintf("acks=%d images-violating=%d", len(acks), lost), fmt.Sprintf("conc%d", id))
}
