package main

// The second half of O-13: which commit offset does the server hand to the WAL when it opens it?
// A real FollowerController / LeaderController is started (public constructors) over a database whose
// durable commit offset is K and a WAL whose committed entry j <= K is damaged.  A spying wal.Factory
// records what provider.CommitOffset() answers at the moment the WAL is opened.

import (
	"fmt"
	"os"
	"path/filepath"
	"strings"
	"time"

	ctime "github.com/oxia-db/oxia/common/time"
	"github.com/oxia-db/oxia/proto"
	"github.com/oxia-db/oxia/server"
	"github.com/oxia-db/oxia/server/kv"
	"github.com/oxia-db/oxia/server/wal"

	"verif/harness/internal/hx"
	"verif/harness/internal/kvsafe"
)

type spyFactory struct {
	inner    wal.Factory
	atOpen   []int64
	lastOpen wal.Wal
	openErr  error
}

func (s *spyFactory) NewWal(namespace string, shard int64, provider wal.CommitOffsetProvider) (wal.Wal, error) {
	s.atOpen = append(s.atOpen, provider.CommitOffset())
	w, err := s.inner.NewWal(namespace, shard, provider)
	s.lastOpen, s.openErr = w, err
	return w, err
}
func (s *spyFactory) Close() error { return s.inner.Close() }

func wiringScenario(o *hx.Out, r *hx.Rng, id int, leader bool) {
	dataDir, walRoot := scratchDir(), scratchDir()
	defer os.RemoveAll(dataDir)
	defer os.RemoveAll(walRoot)
	n := 6 + r.Intn(10)
	K := int64(2 + r.Intn(n-2)) // durable commit offset
	j := 1 + r.Intn(int(K))     // damaged committed entry, 1 <= j <= K
	role := "follower"
	if leader {
		role = "leader"
	}
	desc := fmt.Sprintf("wiring#%d %s: db commit offset %d, wal with %d entries, payload of committed entry %d damaged", id, role, K, n, j)

	kvf, err := kvsafe.New(&kv.FactoryOptions{DataDir: filepath.Join(dataDir, "db"), CacheSizeMB: 4})
	hx.Must(err)
	defer kvf.Close()
	db, err := kv.NewDB("ns", 1, kvf, time.Hour, ctime.SystemClock)
	hx.Must(err)
	hx.Must(db.UpdateTerm(1, kv.TermOptions{}))
	_, err = db.ProcessWrite(&proto.WriteRequest{Puts: []*proto.PutRequest{{Key: "k", Value: []byte("v")}}}, K, 1, kv.NoOpCallback)
	hx.Must(err)
	hx.Must(db.Close())

	// the WAL, written through the public API, then damaged
	w, _, res := openWal(walRoot, 64*1024, -1)
	if res != "ok" {
		panic("cannot create wal: " + res)
	}
	var vals [][]byte
	for i := 0; i < n; i++ {
		v := randBytes(r, 200)
		vals = append(vals, v)
		hx.Must(w.Append(&proto.LogEntry{Term: 1, Offset: int64(i), Value: v, Timestamp: uint64(i)}))
	}
	hx.Must(w.Close())
	p := filepath.Join(walDir(walRoot), "0.txnx")
	b, err := os.ReadFile(p)
	hx.Must(err)
	offs, sizes := parseTxn(b)
	if len(offs) != n {
		o.Violation("wal:harness:layout-not-understood", desc)
		return
	}
	b[offs[j]+12+r.Intn(sizes[j]-12)] ^= 0x10
	hx.Must(os.WriteFile(p, b, 0o644))

	spy := &spyFactory{inner: wal.NewWalFactory(&wal.FactoryOptions{BaseWalDir: walRoot, Retention: time.Hour, SegmentSize: 64 * 1024, SyncData: true})}
	var closer interface{ Close() error }
	openRes := guard(func() string {
		var err error
		if leader {
			var lc server.LeaderController
			lc, err = server.NewLeaderController(server.Config{NotificationsRetentionTime: time.Hour}, "ns", 1, nil, spy, kvf)
			if err == nil {
				closer = lc
			}
		} else {
			var fc server.FollowerController
			fc, err = server.NewFollowerController(server.Config{NotificationsRetentionTime: time.Hour}, "ns", 1, spy, kvf)
			if err == nil {
				closer = fc
			}
		}
		if err != nil {
			return "err:" + errClass(err)
		}
		return "ok"
	})
	at := "never-opened"
	if len(spy.atOpen) > 0 {
		at = fmt.Sprint(spy.atOpen[0])
	}
	last := int64(-2)
	if spy.lastOpen != nil {
		last = spy.lastOpen.LastOffset()
	}
	result := fmt.Sprintf("%s commit-at-wal-open=%s wal-last-offset=%d", openRes, at, last)
	if closer != nil {
		guard(func() string { closer.Close(); return "ok" })
	}
	o.Case("wal", desc, result, fmt.Sprintf("wiring%d", id))
	o.Count("wal:wiring:" + role)
	if openRes == "panic" || openRes == "hang" {
		o.Violation("wiring:"+role+":"+openRes, desc+" => "+result)
		return
	}
	if len(spy.atOpen) > 0 && spy.atOpen[0] != K {
		o.Violation("wiring:"+role+":commit-offset-at-wal-open-is-not-the-durable-one", desc+" => "+result)
	}
	if strings.HasPrefix(openRes, "ok") && last < K {
		o.Violation("wiring:"+role+":committed-damage-discarded-silently",
			desc+" => "+result+fmt.Sprintf(" : the controller started, its log now ends at %d < commit offset %d, no error", last, K))
	}
}
