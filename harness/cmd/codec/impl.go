package main

// Calls into the real oxia code, each under recover() and a deadline, with canonical result strings
// (the same grammar the OCaml driver of the Coq model prints, see /verif/ocaml/codec_main.ml).

import (
	"errors"
	"fmt"
	"os"
	"path/filepath"
	"strconv"
	"strings"
	"sync/atomic"
	"time"

	"github.com/oxia-db/oxia/server/util/crc"
	"github.com/oxia-db/oxia/server/wal"
	"github.com/oxia-db/oxia/server/wal/codec"

	"verif/harness/internal/hx"
)

// codec.SupportedCodecs = {latest (v2), v1}
func codecOf(ver int) codec.Codec {
	for _, c := range codec.SupportedCodecs {
		if (ver == 2 && c.GetTxnExtension() == ".txnx") || (ver == 1 && c.GetTxnExtension() == ".txn") {
			return c
		}
	}
	panic("codec version not found")
}

const hangDeadline = 1500 * time.Millisecond

// guard runs f; a Go panic is the outcome "panic", no return within the deadline is "hang".
func guard(f func() string) string {
	done := make(chan string, 1)
	go func() {
		defer func() {
			if r := recover(); r != nil {
				done <- "panic"
			}
		}()
		done <- f()
	}()
	t := time.NewTimer(hangDeadline)
	defer t.Stop()
	select {
	case s := <-done:
		return s
	case <-t.C:
		hung = true
		return "hang"
	}
}

func errKind(err error) string {
	switch {
	case errors.Is(err, codec.ErrOffsetOutOfBounds):
		return "err:oob"
	case errors.Is(err, codec.ErrEmptyPayload):
		return "err:empty"
	case errors.Is(err, codec.ErrDataCorrupted):
		return "err:corrupt"
	default:
		return "err:other"
	}
}

// exact returns a copy with cap == len (the model's buffers have no spare capacity, like an mmap)
func exact(b []byte) []byte {
	c := make([]byte, len(b))
	copy(c, b)
	return c[:len(b):len(b)]
}

func implCrc(prev uint32, b []byte) string {
	raw := crc.Checksum(prev).Update(b)
	return fmt.Sprintf("%d,%d", uint32(raw), raw.Value())
}

func implHdr(ver int, start uint32, buf []byte) string {
	c, b := codecOf(ver), exact(buf)
	return guard(func() string {
		s, p, k, err := c.ReadHeaderWithValidation(b, start)
		if err != nil {
			return errKind(err)
		}
		return fmt.Sprintf("ok:%d,%d,%d", s, p, k)
	})
}

func implRec(ver int, start uint32, buf []byte) string {
	c, b := codecOf(ver), exact(buf)
	return guard(func() string {
		p, err := c.ReadRecordWithValidation(b, start)
		if err != nil {
			return errKind(err)
		}
		return "ok:" + hx.Hex(p)
	})
}

func implSize(ver int, start uint32, buf []byte) string {
	c, b := codecOf(ver), exact(buf)
	return guard(func() string {
		n, err := c.GetRecordSize(b, start)
		if err != nil {
			return errKind(err)
		}
		return fmt.Sprintf("ok:%d", n)
	})
}

func implWrite(ver int, start, prev uint32, payload, buf []byte) string {
	c, b := codecOf(ver), exact(buf)
	return guard(func() string {
		rs, k := c.WriteRecord(b, start, prev, payload)
		return fmt.Sprintf("ok:%s;%d;%d", hx.Hex(b), rs, k)
	})
}

type recOut struct {
	kind      string // ok | err:<k> | panic | hang
	idx       []uint32
	lastCrc   uint32
	fileOff   uint32
	lastEntry int64
}

func (r *recOut) String() string {
	if r.kind != "ok" {
		return r.kind
	}
	s := make([]string, len(r.idx))
	for i, x := range r.idx {
		s[i] = strconv.FormatUint(uint64(x), 10)
	}
	ix := "-"
	if len(s) > 0 {
		ix = strings.Join(s, ",")
	}
	return fmt.Sprintf("ok:%s;%d;%d;%d", ix, r.lastCrc, r.fileOff, r.lastEntry)
}

func implRecover(ver int, start uint32, base int64, commit *int64, buf []byte) *recOut {
	c, b := codecOf(ver), exact(buf)
	res := &recOut{}
	res.kind = guard(func() string {
		var cm *int64
		if commit != nil {
			v := *commit
			cm = &v
		}
		index, lastCrc, fo, le, err := c.RecoverIndex(b, start, base, cm)
		if err != nil {
			return errKind(err)
		}
		for i := 0; i+4 <= len(index); i += 4 {
			res.idx = append(res.idx, codec.ReadInt(index, uint32(i)))
		}
		if len(index)%4 != 0 {
			return "ok-but-index-length-not-multiple-of-4"
		}
		res.lastCrc, res.fileOff, res.lastEntry = lastCrc, fo, le
		return "ok"
	})
	return res
}

var scratch string // directory for the files of idx / segment cases
var scratchN int

func scratchDir() string {
	if scratch == "" {
		base := os.Getenv("VERIF_TMP")
		if base == "" {
			base = "/var/tmp"
		}
		d, err := os.MkdirTemp(base, "codec-")
		hx.Must(err)
		scratch = d
	}
	scratchN++
	d := filepath.Join(scratch, strconv.Itoa(scratchN))
	hx.Must(os.MkdirAll(d, 0o755))
	return d
}

func cleanupScratch() {
	if scratch != "" {
		os.RemoveAll(scratch)
	}
}

func implRidx(ver int, file []byte, present bool) string {
	c := codecOf(ver)
	d := scratchDir()
	defer os.RemoveAll(d)
	p := filepath.Join(d, "0"+c.GetIdxExtension())
	if present {
		hx.Must(os.WriteFile(p, file, 0o644))
	}
	return guard(func() string {
		ix, err := c.ReadIndex(p)
		if err != nil {
			return errKind(err)
		}
		return "ok:" + hx.Hex(ix)
	})
}

func implWidx(ver int, index []byte) string {
	c := codecOf(ver)
	d := scratchDir()
	defer os.RemoveAll(d)
	p := filepath.Join(d, "0"+c.GetIdxExtension())
	return guard(func() string {
		if err := c.WriteIndex(p, index); err != nil {
			return errKind(err)
		}
		b, err := os.ReadFile(p)
		hx.Must(err)
		return hx.Hex(b)
	})
}

type commitProvider struct{ v atomic.Int64 }

func (c *commitProvider) CommitOffset() int64 { return c.v.Load() }

// segOut: what a segment shows after opening: last offset, last crc, and the result of reading
// every offset base-1 .. last+1
type segOut struct {
	kind    string
	last    int64
	lastCrc uint32
	reads   []string // "ok:<hex>" | "err:<k>" | "panic"
}

func (s *segOut) String() string {
	if s.kind != "ok" {
		return s.kind
	}
	return fmt.Sprintf("ok:%d;%d;%s", s.last, s.lastCrc, strings.Join(s.reads, ","))
}

func readAll(seg wal.ReadOnlySegment, base int64, out *segOut) {
	out.last, out.lastCrc = seg.LastOffset(), seg.LastCrc()
	n := out.last - base + 3
	if n < 0 {
		n = 0
	}
	if n > 100000 {
		n = 100000
	}
	for i := int64(0); i < n; i++ {
		off := base - 1 + i
		out.reads = append(out.reads, guard(func() string {
			p, err := seg.Read(off)
			if err != nil {
				return errKind(err)
			}
			return "ok:" + hx.Hex(p)
		}))
	}
}

func implRo(ver int, base int64, txn, idx []byte, idxPresent bool) *segOut {
	c := codecOf(ver)
	d := scratchDir()
	defer os.RemoveAll(d)
	name := strconv.FormatInt(base, 10)
	hx.Must(os.WriteFile(filepath.Join(d, name+c.GetTxnExtension()), txn, 0o644))
	if idxPresent {
		hx.Must(os.WriteFile(filepath.Join(d, name+c.GetIdxExtension()), idx, 0o644))
	}
	out := &segOut{}
	out.kind = guard(func() string {
		seg, err := wal.VerifOpenReadOnlySegment(d, base)
		if err != nil {
			return errKind(err)
		}
		defer seg.Close()
		readAll(seg, base, out)
		return "ok"
	})
	return out
}

func implRw(ver int, base int64, commit *int64, txn []byte) *segOut {
	c := codecOf(ver)
	d := scratchDir()
	defer os.RemoveAll(d)
	name := strconv.FormatInt(base, 10)
	// like initFileWithZeroes: the file is one byte longer than the mapped segment
	hx.Must(os.WriteFile(filepath.Join(d, name+c.GetTxnExtension()), append(exact(txn), 0), 0o644))
	out := &segOut{}
	out.kind = guard(func() string {
		var cp wal.CommitOffsetProvider
		if commit != nil {
			p := &commitProvider{}
			p.v.Store(*commit)
			cp = p
		}
		seg, err := wal.VerifOpenReadWriteSegment(d, base, uint32(len(txn)), 0, cp)
		if err != nil {
			return errKind(err)
		}
		defer seg.Close()
		readAll(seg, base, out)
		return "ok"
	})
	return out
}
