package main

// Case generation for the codec leg, replay of case lines, and the specification verdicts that are
// evaluated directly on the implementation's results.

import (
	"bytes"
	"encoding/binary"
	"fmt"
	"hash/crc32"
	"hash/fnv"
	"math"
	"strconv"
	"strings"

	"verif/harness/internal/hx"
)

// ---------------------------------------------------------------- an independent encoder (not the code under test)

var castagnoli = crc32.MakeTable(crc32.Castagnoli)

func crcValue(prev uint32, p []byte) uint32 {
	c := crc32.Update(prev, castagnoli, p)
	return (c>>15 | c<<17) + 0xa282ead8
}

func hdrSize(ver int) int {
	if ver == 1 {
		return 4
	}
	return 12
}

// encodeChain returns the bytes of the records and their start offsets (first record at 0)
func encodeChain(ver int, prev uint32, pays [][]byte) (img []byte, offs []uint32, lastCrc uint32) {
	lastCrc = prev
	for _, p := range pays {
		offs = append(offs, uint32(len(img)))
		img = binary.BigEndian.AppendUint32(img, uint32(len(p)))
		if ver == 2 {
			img = binary.BigEndian.AppendUint32(img, lastCrc)
			lastCrc = crcValue(lastCrc, p)
			img = binary.BigEndian.AppendUint32(img, lastCrc)
		}
		img = append(img, p...)
	}
	if ver == 1 {
		lastCrc = 0
	}
	return
}

func idxBytes(offs []uint32) []byte {
	var b []byte
	for _, o := range offs {
		b = binary.BigEndian.AppendUint32(b, o)
	}
	return b
}

func idxFile(ver int, index []byte) []byte {
	if ver == 1 {
		return append([]byte(nil), index...)
	}
	return append(binary.BigEndian.AppendUint32(nil, crcValue(0, index)), index...)
}

// ---------------------------------------------------------------- ground truth of a generated image

type truth struct {
	ver     int
	base    int64
	commit  *int64   // nil = no provider: every entry counts as committed
	offs    []uint32 // record offsets of the reference log
	pays    [][]byte // its payloads
	damaged int      // number of leading records that are intact in the image (== len(pays): none damaged)
	class   string   // mutation class (statistics)
	zeroSz  bool     // the first damaged record has an all-zero size field in the image
	stale   [][]byte // payloads of an older version of the file whose intact records may survive page-wise
	dirtyTl bool     // bytes after the reference log are not all zero
}

func (t *truth) committed(i int) bool {
	return t.commit == nil || t.base+int64(i) <= *t.commit
}

// sig: v2:<what>; for format v1 the failures that follow from the missing checksum (and from
// v1's RecoverIndex ignoring the commit offset) get the prefix v1:no-checksum: (a recorded
// limitation of the legacy format), every other failure stays v1:<what>
func (t *truth) sig(what string) string {
	if t.ver == 1 {
		for _, k := range []string{"damaged-or-fabricated-entry-accepted", "stale-record-accepted", "committed-damage-not-reported"} {
			if strings.Contains(what, k) {
				return "v1:no-checksum:" + what
			}
		}
		return "v1:" + what
	}
	return "v2:" + what
}

// firstDamaged: number of leading records of the reference that are intact as entries in img: size
// field and payload unchanged and (v2) the record still passes its checksum -- by the harness's own
// CRC, not the code under test.  (Two bit flips confined to the previousCrc and crc fields can
// cancel out: the entry is then still returned, bit-identical, which is not a violation.)
func firstDamaged(ref, img []byte, offs []uint32, pays [][]byte, ver int) int {
	hs := hdrSize(ver)
	for i, o := range offs {
		end := int(o) + hs + len(pays[i])
		if end > len(img) || !bytes.Equal(ref[o:o+4], img[o:o+4]) || !bytes.Equal(ref[int(o)+hs:end], img[int(o)+hs:end]) {
			return i
		}
		if ver == 2 && !bytes.Equal(ref[o:end], img[o:end]) && !validRecord(img, int(o), hs+len(pays[i])) {
			return i
		}
	}
	return len(offs)
}

// formatValid: the v2 record at off in img passes the format's own checksum (harness CRC): damage
// of this kind cannot be detected by any reader of the format as it is (the previousCrc field seeds
// the checksum and is never compared with the predecessor's crc)
func formatValid(ver int, img []byte, off uint32) bool {
	if ver != 2 || int(off)+12 > len(img) {
		return false
	}
	sz := binary.BigEndian.Uint32(img[off:])
	if sz == 0 || uint64(off)+12+uint64(sz) > uint64(len(img)) {
		return false
	}
	return validRecord(img, int(off), 12+int(sz))
}

func short(b []byte) string {
	s := hx.Hex(b)
	if len(s) > 600 {
		s = s[:600] + "..."
	}
	return s
}

func hashKey(s string) string {
	h := fnv.New64a()
	h.Write([]byte(s))
	return strconv.FormatUint(h.Sum64(), 36)
}

func cmStr(c *int64) string {
	if c == nil {
		return "nil"
	}
	return strconv.FormatInt(*c, 10)
}

// ---------------------------------------------------------------- running one case of each kind

func fnName(kind string) string {
	switch kind {
	case "hdr":
		return "ReadHeaderWithValidation"
	case "rec":
		return "ReadRecordWithValidation"
	case "size":
		return "GetRecordSize"
	case "recover":
		return "RecoverIndex"
	case "ridx":
		return "ReadIndex"
	case "ro":
		return "newReadOnlySegment"
	case "rw":
		return "newReadWriteSegment"
	}
	return kind
}

// noPanic: recovery and reads never panic and always terminate, whatever the bytes are
func noPanic(o *hx.Out, kind string, ver int, res string, input string) {
	bad := ""
	switch {
	case res == "panic" || strings.Contains(res, ",panic") || strings.Contains(res, ";panic"):
		bad = "panic"
	case res == "hang" || strings.Contains(res, ",hang") || strings.Contains(res, ";hang"):
		bad = "hang"
	}
	if bad != "" {
		if len(input) > 700 {
			input = input[:700] + "..."
		}
		o.Violation(fmt.Sprintf("v%d:%s:%s", ver, fnName(kind), bad), fmt.Sprintf("%s %s => %.200s", kind, input, res))
	}
}

func runHdrLike(o *hx.Out, kind string, ver int, start uint32, buf []byte) {
	var res string
	switch kind {
	case "hdr":
		res = implHdr(ver, start, buf)
	case "rec":
		res = implRec(ver, start, buf)
	case "size":
		res = implSize(ver, start, buf)
	}
	in := fmt.Sprintf("%d %d %s", ver, start, hx.Hex(buf))
	nt := ""
	if len(buf) >= 4 {
		nt = hashKey(in)
	}
	o.Case(kind, in, res, nt)
	noPanic(o, kind, ver, res, in)
}

func runWrite(o *hx.Out, ver int, start, prev uint32, payload, buf []byte) {
	res := implWrite(ver, start, prev, payload, buf)
	in := fmt.Sprintf("%d %d %d %s %s", ver, start, prev, hx.Hex(payload), hx.Hex(buf))
	o.Case("write", in, res, hashKey(in))
	// WriteRecord may panic when the caller did not check HasSpace: no verdict
	if strings.HasPrefix(res, "ok:") && int(start)+hdrSize(ver)+len(payload) <= len(buf) && len(payload) > 0 {
		// round trip through the real reader
		f := strings.Split(res[3:], ";")
		if got := implRec(ver, start, hx.UnHex(f[0])); got != "ok:"+hx.Hex(payload) {
			o.Violation(fmt.Sprintf("v%d:roundtrip:record-not-read-back", ver), fmt.Sprintf("write %.600s => read %.200s", in, got))
		}
	}
}

func runCrc(o *hx.Out, prev uint32, b []byte) {
	in := fmt.Sprintf("%d %s", prev, hx.Hex(b))
	o.Case("crc", in, implCrc(prev, b), hashKey(in))
}

func runRecover(o *hx.Out, ver int, start uint32, base int64, commit *int64, buf []byte, t *truth) {
	out := implRecover(ver, start, base, commit, buf)
	res := out.String()
	in := fmt.Sprintf("%d %d %d %s %s", ver, start, base, cmStr(commit), hx.Hex(buf))
	nt := ""
	if len(out.idx) > 0 || (t != nil && len(t.pays) > 0) {
		nt = hashKey(in)
	}
	o.Case("recover", in, res, nt)
	noPanic(o, "recover", ver, res, in)
	if t == nil || out.kind == "panic" || out.kind == "hang" {
		return
	}
	o.Count("recover:class:" + t.class)
	viol := func(sig, what string) {
		o.Violation(t.sig(sig), fmt.Sprintf("recover %.900s => %.300s : %s (class %s, %d records, first damaged %d)",
			in, res, what, t.class, len(t.pays), t.damaged))
	}
	d, n := t.damaged, len(t.pays)
	isOk := out.kind == "ok"
	// entries returned as valid must be entries of the reference log, at their offsets
	if isOk {
		for i, off := range out.idx {
			if i < d && off == t.offs[i] {
				continue
			}
			if i < d {
				viol("recover:wrong-offset-for-intact-entry", fmt.Sprintf("entry %d at %d, appended at %d", i, off, t.offs[i]))
			} else if t.stale != nil {
				viol("recover:stale-record-accepted", fmt.Sprintf("entry %d at file offset %d is not part of the log (stale bytes of an older version of the file)", i, off))
			} else if i == d && i < n && off == t.offs[i] && formatValid(ver, buf, off) {
				viol("recover:checksum-valid-damage-accepted", fmt.Sprintf("entry %d at file offset %d is damaged but its checksum still matches (previousCrc field and payload damaged consistently)", i, off))
			} else {
				viol("recover:damaged-or-fabricated-entry-accepted", fmt.Sprintf("entry %d at file offset %d was never appended like this", i, off))
			}
			return
		}
	}
	switch {
	case d == n: // all records intact
		if isOk && len(out.idx) < n {
			viol("recover:intact-entry-lost", fmt.Sprintf("%d of %d intact entries recovered", len(out.idx), n))
		}
		if !isOk && !(t.dirtyTl && t.committed(n)) {
			viol("recover:error-on-valid-log", "all records intact")
		}
		if isOk && len(out.idx) == n && (out.lastEntry != base+int64(n)-1 && base < math.MaxInt64-int64(n)) {
			viol("recover:wrong-last-entry", fmt.Sprintf("lastEntryOffset %d", out.lastEntry))
		}
	case t.committed(d): // damage in a committed entry must be reported
		if isOk {
			cls := "other"
			if t.zeroSz {
				cls = "zeroed-size"
			}
			viol("recover:committed-damage-not-reported:"+cls,
				fmt.Sprintf("entry %d (commit offset %s) is damaged, recovery returned %d entries and no error", base+int64(d), cmStr(commit), len(out.idx)))
		}
	default: // damage in the uncommitted tail is discarded, everything before it is kept
		if !isOk {
			viol("recover:uncommitted-damage-reported-as-error", fmt.Sprintf("first damaged entry %d > commit %s", base+int64(d), cmStr(commit)))
		} else if len(out.idx) < d {
			viol("recover:intact-entry-lost", fmt.Sprintf("%d of %d intact entries recovered", len(out.idx), d))
		}
	}
}

// segment-level verdict: every read returns the appended bytes or an error
func segVerdict(o *hx.Out, kind string, in string, out *segOut, t *truth, img []byte) {
	if t == nil || out.kind == "panic" || out.kind == "hang" {
		return
	}
	o.Count(kind + ":class:" + t.class)
	res := out.String()
	viol := func(sig, what string) {
		o.Violation(t.sig(sig), fmt.Sprintf("%s %.900s => %.300s : %s (class %s, %d records, first damaged %d)",
			kind, in, res, what, t.class, len(t.pays), t.damaged))
	}
	d, n := t.damaged, len(t.pays)
	if out.kind != "ok" {
		if d == n && !(t.dirtyTl && t.committed(n)) {
			viol(kind+":error-on-valid-segment", "all records intact")
		} else if d < n && !t.committed(d) {
			viol(kind+":uncommitted-damage-reported-as-error", fmt.Sprintf("first damaged entry %d", t.base+int64(d)))
		}
		return
	}
	// reads[0] is base-1, reads[len-1] is last+1
	for i, r := range out.reads {
		k := i - 1
		if strings.HasPrefix(r, "panic") || strings.HasPrefix(r, "hang") {
			continue // reported by noPanic
		}
		if k < 0 || i == len(out.reads)-1 {
			if strings.HasPrefix(r, "ok:") {
				viol(kind+":read-outside-range-succeeds", fmt.Sprintf("offset %d", t.base+int64(k)))
			}
			continue
		}
		if !strings.HasPrefix(r, "ok:") {
			if k < d {
				viol(kind+":intact-entry-unreadable", fmt.Sprintf("entry %d: %s", t.base+int64(k), r))
				return
			}
			continue
		}
		if k < n && r == "ok:"+hx.Hex(t.pays[k]) && k != d {
			continue
		}
		if k < n && r == "ok:"+hx.Hex(t.pays[k]) && k == d {
			continue // damage hit only the header's redundancy such that the entry still reads back identically
		}
		switch {
		case t.stale != nil && k >= d:
			viol(kind+":stale-record-accepted", fmt.Sprintf("entry %d reads %.80s which is not what was appended", t.base+int64(k), r))
		case k == d && k < n && formatValid(t.ver, img, t.offs[k]):
			viol(kind+":checksum-valid-damage-accepted", fmt.Sprintf("entry %d reads %.80s: damaged, but its checksum still matches (previousCrc field and payload damaged consistently)", t.base+int64(k), r))
		default:
			viol(kind+":damaged-or-fabricated-entry-accepted", fmt.Sprintf("entry %d reads %.80s which is not what was appended", t.base+int64(k), r))
		}
		return
	}
	cnt := int(out.last - t.base + 1)
	switch {
	case d == n:
		if cnt < n {
			viol(kind+":intact-entry-lost", fmt.Sprintf("%d of %d intact entries", cnt, n))
		}
	case t.committed(d):
		if cnt <= d { // the damaged committed entry silently disappeared
			cls := "other"
			if t.zeroSz {
				cls = "zeroed-size"
			}
			viol(kind+":committed-damage-not-reported:"+cls,
				fmt.Sprintf("entry %d (commit offset %s) is damaged, the segment opened with %d entries and no error", t.base+int64(d), cmStr(t.commit), cnt))
		}
	default:
		if cnt < d {
			viol(kind+":intact-entry-lost", fmt.Sprintf("%d of %d intact entries", cnt, d))
		}
	}
}

func runRo(o *hx.Out, ver int, base int64, txn, idx []byte, idxPresent bool, t *truth) {
	out := implRo(ver, base, txn, idx, idxPresent)
	ix := "none"
	if idxPresent {
		ix = hx.Hex(idx)
	}
	in := fmt.Sprintf("%d %d %s %s", ver, base, hx.Hex(txn), ix)
	res := out.String()
	o.Case("ro", in, res, hashKey(in))
	noPanic(o, "ro", ver, res, in)
	segVerdict(o, "ro", in, out, t, txn)
}

func runRw(o *hx.Out, ver int, base int64, commit *int64, txn []byte, t *truth) {
	out := implRw(ver, base, commit, txn)
	in := fmt.Sprintf("%d %d %s %s", ver, base, cmStr(commit), hx.Hex(txn))
	res := out.String()
	o.Case("rw", in, res, hashKey(in))
	noPanic(o, "rw", ver, res, in)
	segVerdict(o, "rw", in, out, t, txn)
}

func runRidx(o *hx.Out, ver int, file []byte, present bool) {
	res := implRidx(ver, file, present)
	f := "none"
	if present {
		f = hx.Hex(file)
	}
	in := fmt.Sprintf("%d %s", ver, f)
	o.Case("ridx", in, res, hashKey(in))
	noPanic(o, "ridx", ver, res, in)
}

func runWidx(o *hx.Out, ver int, index []byte) {
	res := implWidx(ver, index)
	in := fmt.Sprintf("%d %s", ver, hx.Hex(index))
	o.Case("widx", in, res, hashKey(in))
	if got := implRidx(ver, hx.UnHex(res), true); got != "ok:"+hx.Hex(index) && !(ver == 2 && len(index) == 0 && false) {
		o.Violation(fmt.Sprintf("v%d:roundtrip:index-not-read-back", ver), fmt.Sprintf("widx %s => file %s => %s", in, res, got))
	}
}

// ---------------------------------------------------------------- replay of case lines (corpus / -replay)

func atoiU32(s string) uint32 { v, _ := strconv.ParseUint(s, 10, 32); return uint32(v) }
func atoiI64(s string) int64  { v, _ := strconv.ParseInt(s, 10, 64); return v }
func optI64(s string) *int64 {
	if s == "nil" {
		return nil
	}
	v := atoiI64(s)
	return &v
}

func replayCodecLine(o *hx.Out, line string) {
	t := strings.Fields(line)
	if len(t) < 3 {
		return
	}
	a := t[2:] // t[1] is the id of the recorded run
	switch t[0] {
	case "crc":
		runCrc(o, atoiU32(a[0]), hx.UnHex(a[1]))
	case "hdr", "rec", "size":
		runHdrLike(o, t[0], int(atoiU32(a[0])), atoiU32(a[1]), hx.UnHex(a[2]))
	case "write":
		runWrite(o, int(atoiU32(a[0])), atoiU32(a[1]), atoiU32(a[2]), hx.UnHex(a[3]), hx.UnHex(a[4]))
	case "recover":
		runRecover(o, int(atoiU32(a[0])), atoiU32(a[1]), atoiI64(a[2]), optI64(a[3]), hx.UnHex(a[4]), nil)
	case "ridx":
		if a[1] == "none" {
			runRidx(o, int(atoiU32(a[0])), nil, false)
		} else {
			runRidx(o, int(atoiU32(a[0])), hx.UnHex(a[1]), true)
		}
	case "widx":
		runWidx(o, int(atoiU32(a[0])), hx.UnHex(a[1]))
	case "ro":
		if a[3] == "none" {
			runRo(o, int(atoiU32(a[0])), atoiI64(a[1]), hx.UnHex(a[2]), nil, false, nil)
		} else {
			runRo(o, int(atoiU32(a[0])), atoiI64(a[1]), hx.UnHex(a[2]), hx.UnHex(a[3]), true, nil)
		}
	case "rw":
		runRw(o, int(atoiU32(a[0])), atoiI64(a[1]), optI64(a[2]), hx.UnHex(a[3]), nil)
	}
}

// ---------------------------------------------------------------- generators

var boundary32 = []uint32{0, 1, 2, 3, 4, 11, 12, 13, 1 << 31, 1<<31 - 1, 0xFFFFFFF0, 0xFFFFFFF3, 0xFFFFFFF4, 0xFFFFFFF5, 0xFFFFFFF6,
	0xFFFFFFF7, 0xFFFFFFF8, 0xFFFFFFF9, 0xFFFFFFFA, 0xFFFFFFFB, 0xFFFFFFFC, 0xFFFFFFFD, 0xFFFFFFFE, 0xFFFFFFFF}

func randBytes(r *hx.Rng, n int) []byte {
	b := make([]byte, n)
	for i := range b {
		b[i] = byte(r.U64())
	}
	return b
}

func randPayload(r *hx.Rng, n int) []byte {
	b := randBytes(r, n)
	if r.Chance(20) { // payloads that look like headers / zeros
		for i := range b {
			b[i] = 0
		}
		if n > 0 {
			b[n-1] = 1
		}
	}
	return b
}

func paySize(r *hx.Rng) int {
	switch r.Intn(10) {
	case 0:
		return 1
	case 1:
		return 1 + r.Intn(4)
	case 2:
		return 30 + r.Intn(90)
	default:
		return 1 + r.Intn(24)
	}
}

type image struct {
	ver   int
	prev0 uint32
	pays  [][]byte
	offs  []uint32
	recs  []byte // the records
	img   []byte // records + tail
}

func genImage(r *hx.Rng, ver int, k int, equalSize int) *image {
	im := &image{ver: ver}
	if r.Chance(50) {
		im.prev0 = uint32(r.U64())
	}
	for i := 0; i < k; i++ {
		n := paySize(r)
		if equalSize > 0 {
			n = equalSize
		}
		im.pays = append(im.pays, randPayload(r, n))
	}
	im.recs, im.offs, _ = encodeChain(ver, im.prev0, im.pays)
	tail := 0
	switch r.Intn(6) {
	case 0:
		tail = 0
	case 1:
		tail = 1 + r.Intn(hdrSize(ver)) // less than / exactly one header
	case 2:
		tail = hdrSize(ver) + r.Intn(3)
	default:
		tail = r.Intn(48)
	}
	im.img = append(append([]byte(nil), im.recs...), make([]byte, tail)...)
	return im
}

func pickCommit(r *hx.Rng, base int64, n int, around int) *int64 {
	var c int64
	switch r.Intn(8) {
	case 0:
		return nil
	case 1:
		c = -1
	case 2:
		c = base + int64(around) - 1
	case 3:
		c = base + int64(around)
	case 4:
		c = base + int64(around) + 1
	case 5:
		c = base + int64(n) - 1
	case 6:
		c = base + int64(n) + int64(r.Intn(3))
	default:
		c = base + int64(r.Intn(n+2)) - 1
	}
	return &c
}

func pickBase(r *hx.Rng) int64 {
	switch r.Intn(10) {
	case 0:
		return int64(r.Intn(1000))
	case 1:
		return int64(r.U64() >> 20)
	case 2:
		return math.MaxInt64 - int64(r.Intn(3))
	default:
		return 0
	}
}

// mutate applies one mutation to a copy of im.img; returns the image and the truth
func mutate(r *hx.Rng, im *image) ([]byte, *truth) {
	img := append([]byte(nil), im.img...)
	t := &truth{ver: im.ver, offs: im.offs, pays: im.pays}
	hs := hdrSize(im.ver)
	k := len(im.pays)
	kind := r.Intn(12)
	if k == 0 && kind != 9 && kind != 10 {
		kind = 0
	}
	switch kind {
	case 0:
		t.class = "valid"
	case 1, 2, 3: // one header field to a boundary value
		j := r.Intn(k)
		field := 0
		if im.ver == 2 {
			field = r.Intn(3)
		}
		pos := int(im.offs[j]) + 4*field
		sz := uint32(len(im.pays[j]))
		rem := uint32(len(img)) - im.offs[j]
		cand := append([]uint32{sz - 1, sz + 1, rem - uint32(hs), rem - uint32(hs) + 1, rem - uint32(hs) - 1, rem, uint32(r.U64())}, boundary32...)
		v := hx.Pick(r, cand)
		binary.BigEndian.PutUint32(img[pos:], v)
		t.class = []string{"field:size", "field:prevCrc", "field:crc"}[field]
	case 4, 5: // byte flip
		p := r.Intn(len(img))
		if r.Bool() {
			img[p] ^= 1 << uint(r.Intn(8))
		} else {
			img[p] = byte(r.U64())
		}
		t.class = "flip"
	case 6: // zeroed range
		a := r.Intn(len(img))
		b := a + 1 + r.Intn(16)
		if r.Chance(30) && k > 0 { // exactly the size field of a record
			a = int(im.offs[r.Intn(k)])
			b = a + 4
		}
		for i := a; i < b && i < len(img); i++ {
			img[i] = 0
		}
		t.class = "zero-range"
	case 7: // random garbage range
		a := r.Intn(len(img))
		b := a + 1 + r.Intn(16)
		for i := a; i < b && i < len(img); i++ {
			img[i] = byte(r.U64())
		}
		t.class = "garbage-range"
	case 8: // the buffer ends in the middle of the log (a smaller segment size)
		img = img[:r.Intn(len(img)+1)]
		t.class = "cut"
	case 9: // stale / random bytes after the log
		n := 1 + r.Intn(40)
		g := randBytes(r, n)
		if r.Chance(40) && n >= 4 {
			binary.BigEndian.PutUint32(g, hx.Pick(r, boundary32))
		}
		img = append(img[:len(im.recs)], g...)
		t.class = "tail-garbage"
	case 10: // torn write of the last record: only a prefix of its bytes reached the file
		if k > 0 {
			from := int(im.offs[k-1]) + 1 + r.Intn(hs+len(im.pays[k-1])-1)
			for i := from; i < len(im.recs); i++ {
				img[i] = 0
			}
		}
		t.class = "torn-last"
	case 11: // two byte flips
		for i := 0; i < 2; i++ {
			img[r.Intn(len(img))] ^= 1 << uint(r.Intn(8))
		}
		t.class = "flip2"
	}
	finishTruth(t, im, img)
	return img, t
}

func finishTruth(t *truth, im *image, img []byte) {
	ref := im.img
	t.damaged = firstDamaged(ref, img, im.offs, im.pays, im.ver)
	if t.damaged < len(im.pays) {
		o := int(im.offs[t.damaged])
		t.zeroSz = o+4 <= len(img) && bytes.Equal(img[o:o+4], []byte{0, 0, 0, 0})
	}
	for i := len(im.recs); i < len(img); i++ {
		if img[i] != 0 {
			t.dirtyTl = true
		}
	}
}

// pageMix: the file went through versions A (k records), Z (A truncated after j records: tail zeroed)
// and B (Z + new records of the same size); the image takes every page from one of them, the pages
// holding the first `synced` records of B from B.  Reference log = B.
func pageMix(r *hx.Rng, ver int) ([]byte, *truth) {
	sz := 1 + r.Intn(12)
	k := 3 + r.Intn(6)
	a := genImage(r, ver, k, sz)
	j := r.Intn(k)
	m := j + r.Intn(k-j+1)
	b := &image{ver: ver, prev0: a.prev0}
	b.pays = append(b.pays, a.pays[:j]...)
	for i := j; i < m; i++ {
		b.pays = append(b.pays, randPayload(r, sz))
	}
	b.recs, b.offs, _ = encodeChain(ver, b.prev0, b.pays)
	total := len(a.img)
	b.img = append(append([]byte(nil), b.recs...), make([]byte, total-len(b.recs))...)
	z := append(append([]byte(nil), a.recs[:int(uint32(len(a.recs)))]...), make([]byte, total-len(a.recs))...)
	cut := len(a.recs)
	if j < k {
		cut = int(a.offs[j])
	}
	for i := cut; i < len(z); i++ {
		z[i] = 0
	}
	page := hx.Pick(r, []int{4, 8, 16, 32})
	synced := r.Intn(len(b.pays) + 1)
	syncedEnd := 0
	if synced > 0 {
		syncedEnd = int(b.offs[synced-1]) + hdrSize(ver) + len(b.pays[synced-1])
	}
	img := make([]byte, total)
	for p := 0; p < total; p += page {
		e := p + page
		if e > total {
			e = total
		}
		src := b.img
		if p >= syncedEnd {
			src = hx.Pick(r, [][]byte{a.img, z, b.img, b.img})
		}
		copy(img[p:e], src[p:e])
	}
	t := &truth{ver: ver, offs: b.offs, pays: b.pays, class: "pagemix", stale: a.pays}
	finishTruth(t, b, img)
	return img, t
}

func genCodecLeg(o *hx.Out, r *hx.Rng, n int) {
	defer cleanupScratch()
	// ---- fixed structured sweep (independent of the seed)
	sweep(o)
	if hung {
		return
	}
	// ---- seeded cases; n is the number of rounds
	for i := 0; i < n && !hung; i++ {
		ver := 2
		if r.Chance(30) {
			ver = 1
		}
		k := r.Intn(7)
		if r.Chance(5) {
			k = 8 + r.Intn(30)
		}
		im := genImage(r, ver, k, 0)
		// recover on several mutations of the same image
		for m := 0; m < 6 && !hung; m++ {
			var img []byte
			var t *truth
			if m == 5 {
				img, t = pageMix(r, ver)
			} else {
				img, t = mutate(r, im)
			}
			t.base = pickBase(r)
			t.commit = pickCommit(r, t.base, len(t.pays), t.damaged)
			start := uint32(0)
			tt := t
			if t.class == "cut" {
				tt = nil // a shorter buffer is not a corruption of the file: only "no panic" is claimed
			}
			if t.base > math.MaxInt64-1000 {
				tt = nil // entry offsets wrap around int64: compared with the model, no prefix verdict
			}
			if m == 3 && t.base > math.MaxInt64-1000 {
				t.base = 11 // segments: no int64 wrap-around of the entry offsets (covered by the recover cases)
				t.commit = pickCommit(r, t.base, len(t.pays), t.damaged)
			}
			if r.Chance(12) { // recovery from another start offset: no ground truth
				tt = nil
				if len(t.offs) > 0 && r.Bool() {
					start = hx.Pick(r, t.offs)
				} else {
					start = hx.Pick(r, []uint32{uint32(r.Intn(len(img) + 2)), uint32(len(img)), uint32(len(img)) - 1, hx.Pick(r, boundary32)})
				}
			}
			switch {
			case m == 3 && len(img) > 0:
				runRw(o, ver, t.base, t.commit, img, tt0(tt, start))
			default:
				runRecover(o, ver, start, t.base, t.commit, img, tt)
			}
			// header / record / size reads at interesting offsets of the mutated image
			if m < 2 {
				offsets := []uint32{0, uint32(len(img)), uint32(len(img)) - 1, uint32(len(img)) - 3, uint32(len(img)) - 4, uint32(len(img)) - 12,
					uint32(len(img)) - 13, hx.Pick(r, boundary32), uint32(r.Intn(len(img) + 1))}
				offsets = append(offsets, t.offs...)
				for q := 0; q < 3; q++ {
					runHdrLike(o, hx.Pick(r, []string{"hdr", "rec", "size"}), ver, hx.Pick(r, offsets), img)
				}
			}
		}
		if hung {
			return
		}
		// read-only segment: txn (+1 byte like the real files) with a good / damaged / missing / empty idx file
		if len(im.pays) > 0 || r.Chance(20) {
			txn, t := mutate(r, im)
			if r.Chance(50) {
				txn, t = append([]byte(nil), im.img...), &truth{ver: ver, offs: im.offs, pays: im.pays, class: "valid"}
				finishTruth(t, im, txn)
			}
			t.class = "txn-" + t.class
			t.base = pickBase(r)
			if t.base > math.MaxInt64-100 {
				t.base = 7
			}
			txn = append(txn, 0)
			idx := idxFile(ver, idxBytes(im.offs))
			present := true
			switch r.Intn(9) {
			case 0, 1, 2:
				t.class += "/idx-good"
			case 3:
				if len(idx) > 0 {
					idx[r.Intn(len(idx))] ^= 1 << uint(r.Intn(8))
				}
				t.class += "/idx-flip"
			case 4:
				idx = idx[:r.Intn(len(idx)+1)]
				t.class += "/idx-cut"
			case 5:
				idx = nil
				t.class += "/idx-empty"
			case 6:
				idx = make([]byte, len(idx))
				t.class += "/idx-zeroed"
			case 7:
				idx = append(idx, randBytes(r, 1+r.Intn(6))...)
				t.class += "/idx-extended"
			default:
				present = false
				t.class += "/idx-missing"
			}
			tt := t
			if strings.HasPrefix(t.class, "txn-cut") || len(t.pays) == 0 {
				tt = nil
			}
			if ver == 1 && !strings.HasSuffix(t.class, "/idx-good") {
				tt = nil // a v1 idx file has no checksum: no statement beyond "no panic"
			}
			if !present {
				tt = nil // a missing idx file is an open error by design of the code; no verdict
			}
			runRo(o, ver, t.base, txn, idx, present, tt)
			if r.Chance(40) {
				runRidx(o, ver, idx, present)
			}
		}
		// write: a record into a buffer (enough room / exactly enough / not enough)
		if r.Chance(60) {
			p := randPayload(r, paySize(r))
			room := hx.Pick(r, []int{hdrSize(ver) + len(p), hdrSize(ver) + len(p) + r.Intn(9), r.Intn(hdrSize(ver) + len(p) + 1), hdrSize(ver) + len(p) - 1})
			st := r.Intn(9)
			buf := randBytes(r, st+room)
			if r.Bool() {
				buf = make([]byte, st+room)
			}
			start := uint32(st)
			if r.Chance(8) {
				start = hx.Pick(r, []uint32{uint32(len(buf)), uint32(len(buf)) + 1, 0xFFFFFFFC, 0xFFFFFFF8, 0xFFFFFFFF})
			}
			runWrite(o, ver, start, uint32(r.U64()), p, buf)
		}
		if r.Chance(30) {
			runWidx(o, ver, idxBytes(im.offs))
		}
		if r.Chance(50) {
			runCrc(o, hx.Pick(r, []uint32{0, 1, 0xFFFFFFFF, uint32(r.U64())}), randBytes(r, r.Intn(40)))
		}
	}
}

func tt0(t *truth, start uint32) *truth {
	if start != 0 {
		return nil
	}
	return t
}

// sweep: small images, every byte position, every boundary value of every header field, every start offset
func sweep(o *hx.Out) {
	r := hx.NewRng(424242)
	for _, ver := range []int{2, 1} {
		pays := [][]byte{{0xAA, 0xBB, 0xCC}, {0x01}, {0, 0, 0, 0, 7}}
		recs, offs, _ := encodeChain(ver, 0, pays)
		ref := &image{ver: ver, pays: pays, offs: offs, recs: recs, img: append(append([]byte(nil), recs...), make([]byte, 15)...)}
		// the witnesses of O-6 and friends
		for _, v := range boundary32 {
			b := make([]byte, 16)
			binary.BigEndian.PutUint32(b, v)
			runHdrLike(o, "hdr", ver, 0, b)
			runHdrLike(o, "rec", ver, 0, b)
			runRecover(o, ver, 0, 0, nil, b, nil)
			if hung {
				return
			}
			c := int64(-1)
			runRecover(o, ver, 0, 0, &c, b, nil)
		}
		// every start offset on the valid image and on short buffers
		for s := 0; s <= len(ref.img)+1; s++ {
			runHdrLike(o, "hdr", ver, uint32(s), ref.img)
			runHdrLike(o, "rec", ver, uint32(s), ref.img)
			runHdrLike(o, "size", ver, uint32(s), ref.img)
			runRecover(o, ver, uint32(s), 3, nil, ref.img, nil)
		}
		for l := 0; l <= 14; l++ {
			runRecover(o, ver, 0, 0, nil, ref.img[:l], nil)
			nz := bytes.Repeat([]byte{0, 0, 0, 1}, 4)[:l]
			runRecover(o, ver, 0, 0, nil, nz, nil)
			for s := 0; s <= l; s++ {
				runHdrLike(o, "hdr", ver, uint32(s), nz)
			}
		}
		// every segment size around the end of the log (a record that ends 0..hdr bytes before the end)
		for extra := 0; extra <= hdrSize(ver)+1; extra++ {
			img := append(append([]byte(nil), recs...), make([]byte, extra)...)
			t := &truth{ver: ver, offs: offs, pays: pays, class: "sweep:exact-fit"}
			finishTruth(t, ref, img)
			t.damaged = len(pays)
			runRecover(o, ver, 0, 0, nil, img, t)
			runRw(o, ver, 0, nil, img, t)
		}
		// every byte position x {flip lowest bit, flip highest bit, zero}, commit before / at / after the damage
		for p := 0; p < len(ref.img); p++ {
			for _, how := range []int{0, 1, 2} {
				img := append([]byte(nil), ref.img...)
				switch how {
				case 0:
					img[p] ^= 1
				case 1:
					img[p] ^= 0x80
				case 2:
					img[p] = 0
				}
				for _, cm := range []int64{-1, 0, 1, 2, 5} {
					c := cm
					t := &truth{ver: ver, offs: offs, pays: pays, class: "sweep:byte", commit: &c}
					finishTruth(t, ref, img)
					runRecover(o, ver, 0, 0, &c, img, t)
				}
				t := &truth{ver: ver, offs: offs, pays: pays, class: "sweep:byte"}
				finishTruth(t, ref, img)
				runRecover(o, ver, 0, 0, nil, img, t)
				if how == 0 {
					c := int64(r.Intn(4)) - 1
					t := &truth{ver: ver, offs: offs, pays: pays, class: "sweep:byte", commit: &c}
					finishTruth(t, ref, img)
					runRw(o, ver, 0, &c, img, t)
					t2 := &truth{ver: ver, offs: offs, pays: pays, class: "sweep:byte/idx-good"}
					finishTruth(t2, ref, img)
					runRo(o, ver, 0, append(append([]byte(nil), img...), 0), idxFile(ver, idxBytes(offs)), true, t2)
				}
			}
		}
		// two flipped bits that cancel: lowest bit of the previousCrc field and of the first payload byte
		if ver == 2 {
			for j := range pays {
				img := append([]byte(nil), ref.img...)
				img[int(offs[j])+7] ^= 1
				img[int(offs[j])+12] ^= 1
				for _, cm := range []int64{-1, 9} {
					c := cm
					t := &truth{ver: ver, offs: offs, pays: pays, class: "sweep:seed-payload-cancel", commit: &c}
					finishTruth(t, ref, img)
					runRecover(o, ver, 0, 0, &c, img, t)
					runRw(o, ver, 0, &c, img, t)
				}
			}
		}
		// every header field of every record x every boundary value
		for j := range pays {
			nf := 1
			if ver == 2 {
				nf = 3
			}
			for f := 0; f < nf; f++ {
				sz := uint32(len(pays[j]))
				rem := uint32(len(ref.img)) - offs[j]
				hs := uint32(hdrSize(ver))
				vals := append([]uint32{sz - 1, sz, sz + 1, rem - hs - 1, rem - hs, rem - hs + 1, rem - 1, rem, rem + 1}, boundary32...)
				for _, v := range vals {
					img := append([]byte(nil), ref.img...)
					binary.BigEndian.PutUint32(img[int(offs[j])+4*f:], v)
					for _, cm := range []int64{-1, int64(j) - 1, int64(j), 9} {
						c := cm
						t := &truth{ver: ver, offs: offs, pays: pays, class: "sweep:field", commit: &c}
						finishTruth(t, ref, img)
						runRecover(o, ver, 0, 0, &c, img, t)
						if hung {
							return
						}
					}
					runHdrLike(o, "hdr", ver, offs[j], img)
					runHdrLike(o, "rec", ver, offs[j], img)
				}
			}
		}
		// index files: every length 0..9, good and bad checksum
		for l := 0; l <= 9; l++ {
			f := make([]byte, l)
			runRidx(o, ver, f, true)
			g := idxFile(ver, idxBytes(offs))
			if l <= len(g) {
				runRidx(o, ver, g[:l], true)
				t := &truth{ver: ver, offs: offs, pays: pays, class: "sweep:idx-cut"}
				finishTruth(t, ref, ref.img)
				tt := t
				if ver == 1 {
					tt = nil
				}
				runRo(o, ver, 0, append(append([]byte(nil), ref.img...), 0), g[:l], true, tt)
			}
			// a segment whose records are all gone (zeros) with index files of every length
			runRo(o, ver, 0, make([]byte, 40), f, true, nil)
			runRo(o, ver, 0, make([]byte, 40), idxFile(ver, make([]byte, l)), true, nil)
		}
		runRidx(o, ver, nil, false)
		runWidx(o, ver, nil)
		runWidx(o, ver, idxBytes(offs))
	}
	for _, s := range []string{"", "a", "123456789", "\x00\x00\x00\x00"} {
		for _, p := range []uint32{0, 1, 0xFFFFFFFF, 0xa282ead8} {
			runCrc(o, p, []byte(s))
		}
	}
}
