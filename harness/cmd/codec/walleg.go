package main

// -mode wal: whole-WAL reopen through the public API (wal.NewWalFactory(...).NewWal) over crash images
// and corrupted copies of real WAL directories.  No model on this leg: the specification is evaluated
// directly (never panic; what comes back is a prefix of what was appended, bit-identical; everything
// that was synced is there unless an error is returned; damage to committed entries is an error).
//
// Crash model (DESIGN.md section 3): a completed Flush (msync) makes the whole mapping of that segment
// durable; before it any subset of the dirty 4 KiB pages may have reached the disk.  The harness keeps,
// per file, the content at the last completed Flush of that file (D) and the current content (C) and
// builds crash images that take every page from D or from C.

import (
	"bytes"
	"context"
	"encoding/binary"
	"fmt"
	"os"
	"path/filepath"
	"sort"
	"strings"
	"time"

	"github.com/oxia-db/oxia/proto"
	"github.com/oxia-db/oxia/server/wal"

	"verif/harness/internal/hx"
)

const pageSize = 4096

// Which calls msync a segment is read from the code (it cannot be observed from outside):
// wal.Sync -> Flush of the current segment; Truncate -> Flush; readWriteSegment.Close -> Flush
// (the last one since the repair of the rollover durability gap; -closeflush=false gives the
// crash model of the code as found).
var closeFlushes = true

type files map[string][]byte

func readDir(dir string) files {
	res := files{}
	es, err := os.ReadDir(dir)
	if err != nil {
		return res
	}
	for _, e := range es {
		b, err := os.ReadFile(filepath.Join(dir, e.Name()))
		hx.Must(err)
		res[e.Name()] = b
	}
	return res
}

func writeDir(dir string, fs files) {
	hx.Must(os.MkdirAll(dir, 0o755))
	for n, b := range fs {
		hx.Must(os.WriteFile(filepath.Join(dir, n), b, 0o644))
	}
}

func (f files) clone() files {
	r := files{}
	for k, v := range f {
		r[k] = append([]byte(nil), v...)
	}
	return r
}

// currentTxn: the txn file with the highest base offset (the read-write segment)
func currentTxn(fs files) string {
	best, bestBase := "", int64(-1)
	for n := range fs {
		if strings.HasSuffix(n, ".txnx") {
			var b int64
			fmt.Sscanf(n, "%d.txnx", &b)
			if b > bestBase {
				best, bestBase = n, b
			}
		}
	}
	return best
}

type walRun struct {
	root    string // BaseWalDir of the live WAL
	segSize int32
	w       wal.Wal
	cp      *commitProvider
	log     [][]byte            // values of the entries currently in the log (index = offset)
	hist    map[int][][]byte    // every value ever appended at an offset
	synced  int                 // number of leading entries covered by a completed Sync / Truncate
	durable files               // per file: content at the last completed Flush of that file
	script  []string
	rollGap bool // entries acknowledged by Sync live in a segment that was closed (rollover) without a Flush
}

func walDir(root string) string { return filepath.Join(root, "ns", "shard-1") }

func openWal(root string, segSize int32, commit int64) (w wal.Wal, cp *commitProvider, res string) {
	cp = &commitProvider{}
	cp.v.Store(commit)
	res = guard(func() string {
		f := wal.NewWalFactory(&wal.FactoryOptions{BaseWalDir: root, Retention: time.Hour, SegmentSize: segSize, SyncData: true})
		var err error
		w, err = f.NewWal("ns", 1, cp)
		if err != nil {
			return "err:" + errClass(err)
		}
		return "ok"
	})
	return
}

func errClass(err error) string {
	k := errKind(err)
	return strings.TrimPrefix(k, "err:")
}

func newWalRun(r *hx.Rng, segSize int32) *walRun {
	root := scratchDir()
	w, cp, res := openWal(root, segSize, -1)
	if res != "ok" {
		panic("cannot create a fresh wal: " + res)
	}
	run := &walRun{root: root, segSize: segSize, w: w, cp: cp, hist: map[int][][]byte{}, durable: files{}}
	run.noteNewFiles()
	run.script = append(run.script, fmt.Sprintf("seg=%d", segSize))
	return run
}

// files that appeared since the last look: a new txn file is durable as zeroes (initFileWithZeroes
// syncs it), a new idx file has no durable content yet
func (run *walRun) noteNewFiles() {
	for n, b := range readDir(walDir(run.root)) {
		if _, ok := run.durable[n]; !ok {
			if strings.HasSuffix(n, ".txnx") {
				run.durable[n] = make([]byte, len(b))
			} else {
				run.durable[n] = nil
			}
		}
	}
}

func (run *walRun) append(r *hx.Rng, n int, size int) bool {
	for i := 0; i < n; i++ {
		off := len(run.log)
		v := randBytes(r, size)
		before := currentTxn(readDirNames(walDir(run.root)))
		err := run.w.AppendAsync(&proto.LogEntry{Term: 1, Offset: int64(off), Value: v, Timestamp: uint64(off)})
		if err != nil {
			run.script = append(run.script, "append-failed:"+err.Error())
			return false
		}
		run.log = append(run.log, v)
		run.hist[off] = append(run.hist[off], v)
		run.noteNewFiles()
		if after := currentTxn(readDirNames(walDir(run.root))); after != before {
			if closeFlushes {
				// rollover: readWriteSegment.Close() flushes the segment it closes
				b, err := os.ReadFile(filepath.Join(walDir(run.root), before))
				hx.Must(err)
				run.durable[before] = b
			} else if run.synced < off {
				// rollover while entries of the closed segment were not yet flushed
				run.rollGap = true
			}
		}
	}
	run.script = append(run.script, fmt.Sprintf("append(%dx%d)", n, size))
	return true
}

func readDirNames(dir string) files {
	res := files{}
	es, _ := os.ReadDir(dir)
	for _, e := range es {
		res[e.Name()] = nil
	}
	return res
}

func (run *walRun) sync() {
	ctx, cancel := context.WithTimeout(context.Background(), 10*time.Second)
	defer cancel()
	hx.Must(run.w.Sync(ctx))
	cur := readDir(walDir(run.root))
	c := currentTxn(cur)
	run.durable[c] = cur[c] // Flush of the current segment completed
	run.synced = len(run.log)
	run.script = append(run.script, "sync")
}

// truncate inside the current segment; returns false when the target is not in the current segment
func (run *walRun) truncate(k int) bool {
	cur := currentTxn(readDirNames(walDir(run.root)))
	var base int64
	fmt.Sscanf(cur, "%d.txnx", &base)
	if int64(k) < base || k >= len(run.log)-1 {
		return false
	}
	if _, err := run.w.TruncateLog(int64(k)); err != nil {
		run.script = append(run.script, "truncate-failed:"+err.Error())
		return false
	}
	run.log = run.log[:k+1]
	if run.synced > k+1 {
		run.synced = k + 1
	}
	now := readDir(walDir(run.root))
	run.durable[cur] = now[cur] // Truncate ends with a Flush
	run.synced = len(run.log)
	run.script = append(run.script, fmt.Sprintf("truncate(%d)", k))
	return true
}

// crashImage: every page of every file from its durable or its current content
func crashImage(r *hx.Rng, durable, current files, how int) (files, string) {
	img := files{}
	desc := []string{}
	names := make([]string, 0, len(current))
	for n := range current {
		names = append(names, n)
	}
	sort.Strings(names)
	for _, n := range names {
		c := current[n]
		d, has := durable[n]
		if strings.HasSuffix(n, ".idxx") {
			// written by Close() at rollover without fsync
			if has && d != nil && bytes.Equal(d, c) {
				img[n] = c
				continue
			}
			switch r.Intn(4) {
			case 0:
				img[n] = c
				desc = append(desc, n+"=written")
			case 1:
				img[n] = []byte{}
				desc = append(desc, n+"=empty")
			case 2:
				img[n] = append([]byte(nil), c[:r.Intn(len(c)+1)]...)
				desc = append(desc, fmt.Sprintf("%s=first-%d-bytes", n, len(img[n])))
			default:
				img[n] = make([]byte, len(c))
				desc = append(desc, n+"=zero-filled")
			}
			continue
		}
		if !has || len(d) != len(c) {
			d = make([]byte, len(c))
		}
		b := make([]byte, len(c))
		var mask []string
		for p := 0; p < len(c); p += pageSize {
			e := p + pageSize
			if e > len(c) {
				e = len(c)
			}
			fromC := true
			switch how {
			case 0: // nothing of the unsynced pages reached the disk
				fromC = false
			case 1: // everything did
				fromC = true
			default:
				fromC = r.Bool()
			}
			if bytes.Equal(c[p:e], d[p:e]) {
				copy(b[p:e], c[p:e])
				continue
			}
			if fromC {
				copy(b[p:e], c[p:e])
				mask = append(mask, "C")
			} else {
				copy(b[p:e], d[p:e])
				mask = append(mask, "D")
			}
		}
		img[n] = b
		if len(mask) > 0 {
			desc = append(desc, n+":dirty-pages="+strings.Join(mask, ""))
		}
	}
	return img, strings.Join(desc, " ")
}

type walView struct {
	open    string // ok | err:<k> | panic | hang
	first   int64
	last    int64
	entries []string // per offset first..last: hex of the value | "err:<k>" | "panic" | "mismatch-offset"
}

func (v *walView) String() string {
	if v.open != "ok" {
		return v.open
	}
	h := fnvOf(strings.Join(v.entries, ","))
	return fmt.Sprintf("ok:first=%d,last=%d,entries=%s", v.first, v.last, h)
}

func fnvOf(s string) string { return hashKey(s) }

func viewWal(w wal.Wal) *walView {
	v := &walView{}
	v.open = guard(func() string {
		v.first, v.last = w.FirstOffset(), w.LastOffset()
		if v.first < 0 || v.last < v.first {
			return "ok"
		}
		for off := v.first; off <= v.last && off < v.first+100000; off++ {
			rd, err := w.NewReader(off - 1)
			if err != nil {
				v.entries = append(v.entries, "err:"+errClass(err))
				continue
			}
			e, err := rd.ReadNext()
			rd.Close()
			switch {
			case err != nil:
				v.entries = append(v.entries, "err:"+errClass(err))
			case e.Offset != off:
				v.entries = append(v.entries, "mismatch-offset")
			default:
				v.entries = append(v.entries, hx.Hex(e.Value))
			}
		}
		return "ok"
	})
	return v
}

// check the view of a reopened WAL against the reference: must <= count <= len(may), entries identical
func (run *walRun) verdict(o *hx.Out, v *walView, may [][]byte, must int, what string, crash bool) {
	script := strings.Join(run.script, " ")
	if len(script) > 1200 {
		script = script[:1200] + "..."
	}
	gap := ""
	if run.rollGap {
		gap = ":rollover-without-flush"
	}
	viol := func(sig, detail string) {
		o.Violation(sig, fmt.Sprintf("%s | %s | %s", script, what, detail))
	}
	switch {
	case v.open == "panic" || v.open == "hang":
		viol("wal:reopen:"+v.open+gap, "reopening / reading the WAL "+v.open+"s")
		return
	case v.open != "ok":
		viol("wal:reopen:error-without-committed-damage"+gap, "NewWal failed with "+v.open)
		return
	}
	count := 0
	if v.first >= 0 {
		if v.first != 0 {
			viol("wal:reopen:first-offset-moved", fmt.Sprintf("first offset %d", v.first))
			return
		}
		count = int(v.last + 1)
	}
	for i, e := range v.entries {
		switch {
		case i < len(may) && e == hx.Hex(may[i]):
		case strings.HasPrefix(e, "err:") || e == "panic":
			viol("wal:reopen:entry-unreadable"+gap, fmt.Sprintf("entry %d of %d: %s", i, count, e))
			return
		default:
			stale := false
			for _, h := range run.hist[i] {
				if e == hx.Hex(h) {
					stale = true
				}
			}
			if stale {
				viol("wal:reopen:stale-entry-returned", fmt.Sprintf("entry %d is a value that was truncated away earlier (log has %d entries, %d returned)", i, len(may), count))
			} else {
				viol("wal:reopen:damaged-or-fabricated-entry-returned", fmt.Sprintf("entry %d was never appended like this", i))
			}
			return
		}
	}
	if count < must {
		viol("wal:reopen:synced-entry-lost"+gap, fmt.Sprintf("%d entries were synced, %d came back", must, count))
	}
}

func (run *walRun) closeLive() {
	if run.w != nil {
		guard(func() string { run.w.Close(); return "ok" })
		run.w = nil
	}
}

// ---------------------------------------------------------------- scenarios

func entrySize(r *hx.Rng) int {
	return hx.Pick(r, []int{40, 100, 333, 500, 1000, 1500})
}

// crashScenario: append/sync/truncate phases, crash (page mix), reopen, verify, continue, reopen again
func crashScenario(o *hx.Out, r *hx.Rng, id int) {
	seg := int32(hx.Pick(r, []int{2 * pageSize, 3 * pageSize, 4*pageSize + 100, 16 * 1024}))
	run := newWalRun(r, seg)
	defer os.RemoveAll(run.root)
	size := entrySize(r)
	equal := r.Chance(60)
	sz := func() int {
		if equal {
			return size
		}
		return entrySize(r)
	}
	ok := true
	phases := 1 + r.Intn(4)
	interrupted := false
	var oldLog [][]byte
	oldMust := 0
	var preDur files
	for p := 0; p < phases && ok; p++ {
		switch r.Intn(5) {
		case 0, 1:
			ok = run.append(r, 1+r.Intn(12), sz())
			if ok && r.Chance(70) {
				run.sync()
			}
		case 2:
			ok = run.append(r, 1+r.Intn(6), sz())
		case 3:
			if len(run.log) > 2 {
				run.sync()
				k := r.Intn(len(run.log) - 1)
				oldLog = append([][]byte(nil), run.log...)
				oldMust = run.synced
				preDur = run.durable.clone()
				if run.truncate(k) && p == phases-1 {
					// the crash hits while Truncate's Flush is writing the zeroed pages
					interrupted = true
					if oldMust > k+1 {
						oldMust = k + 1
					}
				}
			}
		default:
			run.sync()
		}
	}
	if !ok {
		run.closeLive()
		return
	}
	current := readDir(walDir(run.root))
	dur, may, must := run.durable, run.log, run.synced
	what := "crash"
	if interrupted {
		dur, may, must = preDur, oldLog, oldMust
		what = "crash during the Flush of TruncateLog"
	}
	img, desc := crashImage(r, dur, current, r.Intn(4))
	run.closeLive()
	o.Count("wal:crash-scenarios")
	if run.rollGap {
		o.Count("wal:crash-scenarios-with-unflushed-rollover")
	}
	if interrupted {
		o.Count("wal:crash-during-truncate")
	}

	root2 := scratchDir()
	defer os.RemoveAll(root2)
	writeDir(walDir(root2), img)
	commit := int64(-1)
	if must > 0 && r.Chance(60) {
		commit = int64(r.Intn(must))
	}
	w2, _, res := openWal(root2, seg, commit)
	v := &walView{open: res}
	if res == "ok" {
		v = viewWal(w2)
	}
	run.script = append(run.script, fmt.Sprintf("CRASH[%s] reopen(commit=%d)", desc, commit))
	o.Case("wal", fmt.Sprintf("crash#%d %s", id, strings.Join(run.script, " ")), v.String(), fmt.Sprintf("crash%d", id))
	run.verdict(o, v, may, must, what, true)
	if v.open != "ok" || hung {
		return
	}
	// ---- continue on the recovered log: what came back is now the log
	count := 0
	if v.first >= 0 {
		count = int(v.last + 1)
	}
	for _, e := range v.entries {
		if strings.HasPrefix(e, "err:") || e == "panic" || e == "mismatch-offset" {
			guard(func() string { w2.Close(); return "ok" })
			return
		}
	}
	if count > len(may) {
		guard(func() string { w2.Close(); return "ok" })
		return
	}
	run.w, run.root = w2, root2
	run.log = append([][]byte(nil), may[:count]...)
	run.synced = count
	run.rollGap = false
	n := 1 + r.Intn(4)
	if !run.append(r, n, sz()) {
		run.closeLive()
		return
	}
	run.sync()
	run.closeLive()
	final := readDir(walDir(root2))
	root3 := scratchDir()
	defer os.RemoveAll(root3)
	writeDir(walDir(root3), final)
	w3, _, res3 := openWal(root3, seg, int64(count)-1)
	v3 := &walView{open: res3}
	if res3 == "ok" {
		v3 = viewWal(w3)
		guard(func() string { w3.Close(); return "ok" })
	}
	run.script = append(run.script, "close reopen")
	o.Case("wal", fmt.Sprintf("crash#%d-continued %s", id, strings.Join(run.script, " ")), v3.String(), fmt.Sprintf("cont%d", id))
	if v3.open == "ok" && v3.first >= 0 && int(v3.last+1) > len(run.log) {
		// more entries than were ever appended to this log: what are they?
		extra := v3.entries[len(run.log):]
		stale := true
		for i, e := range extra {
			found := false
			for _, h := range run.hist[len(run.log)+i] {
				if e == hx.Hex(h) {
					found = true
				}
			}
			stale = stale && found
		}
		sig := "wal:reopen:fabricated-entry-after-log-end"
		if stale {
			sig = "wal:reopen:stale-entry-resurrected"
		}
		o.Violation(sig, fmt.Sprintf("%s | after a clean close the log has %d entries, reopening returns %d: the extra ones are intact stale records of a tail that an earlier crash recovery / truncation had already dropped (previousCrc chain not compared)",
			strings.Join(run.script, " "), len(run.log), int(v3.last+1)))
		return
	}
	run.verdict(o, v3, run.log, len(run.log), "clean close and reopen after the crash recovery", false)
}

// record layout of a v2 txn file (used only to aim the corruption): offsets and sizes of the records
func parseTxn(b []byte) (offs, sizes []int) {
	p := 0
	for p+12 <= len(b) {
		sz := int(binary.BigEndian.Uint32(b[p:]))
		if sz == 0 || p+12+sz > len(b) {
			break
		}
		offs = append(offs, p)
		sizes = append(sizes, 12+sz)
		p += 12 + sz
	}
	return
}

func validRecord(b []byte, p, size int) bool {
	if p+size > len(b) || size < 13 {
		return false
	}
	if int(binary.BigEndian.Uint32(b[p:])) != size-12 {
		return false
	}
	prev := binary.BigEndian.Uint32(b[p+4:])
	return crcValue(prev, b[p+12:p+size]) == binary.BigEndian.Uint32(b[p+8:])
}

// corruptionScenario: clean close, damage bytes of one entry (or of an idx file), reopen with a commit offset
func corruptionScenario(o *hx.Out, r *hx.Rng, id int) {
	seg := int32(hx.Pick(r, []int{2 * pageSize, 3 * pageSize, 16 * 1024}))
	run := newWalRun(r, seg)
	defer os.RemoveAll(run.root)
	n := 3 + r.Intn(25)
	if !run.append(r, n, entrySize(r)) {
		run.closeLive()
		return
	}
	run.sync()
	run.closeLive()
	fs := readDir(walDir(run.root))
	// entry -> (file, offset, size)
	type loc struct {
		file      string
		off, size int
	}
	locs := map[int]loc{}
	var txns []string
	for nme := range fs {
		if strings.HasSuffix(nme, ".txnx") {
			txns = append(txns, nme)
		}
	}
	sort.Strings(txns)
	cur := currentTxn(fs)
	for _, t := range txns {
		var base int64
		fmt.Sscanf(t, "%d.txnx", &base)
		offs, sizes := parseTxn(fs[t])
		for i := range offs {
			locs[int(base)+i] = loc{t, offs[i], sizes[i]}
		}
	}
	if len(locs) != n {
		o.Violation("wal:harness:layout-not-understood", fmt.Sprintf("%d entries appended, %d records found in the files", n, len(locs)))
		return
	}
	j := r.Intn(n)
	l := locs[j]
	mut := fs.clone()
	b := mut[l.file]
	class := ""
	target := "entry"
	switch r.Intn(7) {
	case 0:
		copy(b[l.off:l.off+4], []byte{0, 0, 0, 0})
		class = "zeroed-size"
	case 1:
		binary.BigEndian.PutUint32(b[l.off:], hx.Pick(r, boundary32))
		class = "size-field"
	case 2:
		b[l.off+4+r.Intn(8)] ^= 1 << uint(r.Intn(8))
		class = "crc-field-flip"
	case 3:
		b[l.off+12+r.Intn(l.size-12)] ^= 1 << uint(r.Intn(8))
		class = "payload-flip"
	case 4:
		for i := l.off; i < l.off+l.size; i++ {
			b[i] = 0
		}
		class = "zeroed-record"
	case 5:
		for i := l.off + r.Intn(l.size); i < l.off+l.size; i++ {
			b[i] = byte(r.U64())
		}
		class = "garbage-to-end-of-record"
	default:
		// damage the idx file of a read-only segment (or of the current one, which is ignored)
		target = "idx"
		var idxs []string
		for nme := range mut {
			if strings.HasSuffix(nme, ".idxx") {
				idxs = append(idxs, nme)
			}
		}
		sort.Strings(idxs)
		if len(idxs) == 0 {
			return
		}
		f := hx.Pick(r, idxs)
		ib := mut[f]
		switch r.Intn(4) {
		case 0:
			if len(ib) > 0 {
				ib[r.Intn(len(ib))] ^= 1 << uint(r.Intn(8))
			}
			class = "idx-flip"
		case 1:
			mut[f] = []byte{}
			class = "idx-empty"
		case 2:
			mut[f] = ib[:r.Intn(len(ib)+1)]
			class = "idx-cut"
		default:
			mut[f] = make([]byte, len(ib))
			class = "idx-zeroed"
		}
	}
	commit := int64(hx.Pick(r, []int{-1, j - 1, j, j + 1, n - 1, r.Intn(n)}))
	if commit > int64(n-1) {
		commit = int64(n - 1)
	}
	root2 := scratchDir()
	defer os.RemoveAll(root2)
	writeDir(walDir(root2), mut)
	w2, _, res := openWal(root2, seg, commit)
	v := &walView{open: res}
	if res == "ok" {
		v = viewWal(w2)
		guard(func() string { w2.Close(); return "ok" })
	}
	inCur := l.file == cur
	where := "read-only-segment"
	if inCur {
		where = "current-segment"
	}
	desc := fmt.Sprintf("corrupt#%d seg=%d append(%d) sync close %s:%s entry=%d(%s) commit=%d", id, seg, n, target, class, j, where, commit)
	o.Case("wal", desc, v.String(), fmt.Sprintf("corrupt%d", id))
	o.Count("wal:corrupt:" + target + ":" + class)
	viol := func(sig, detail string) { o.Violation(sig, desc+" => "+v.String()+" | "+detail) }
	if v.open == "panic" || v.open == "hang" {
		viol("wal:reopen:"+v.open, "reopening / reading the WAL "+v.open+"s")
		return
	}
	if target == "idx" {
		// an idx file is redundant: the log must come back complete
		if v.open != "ok" {
			viol("wal:reopen:error-on-idx-damage", "the index can be rebuilt from the txn file")
			return
		}
		run.verdict(o, v, run.log, n, desc, false)
		return
	}
	committed := int64(j) <= commit
	if v.open != "ok" {
		if !committed {
			viol("wal:reopen:uncommitted-damage-reported-as-error", fmt.Sprintf("entry %d > commit %d", j, commit))
		}
		return
	}
	count := 0
	if v.first >= 0 {
		count = int(v.last + 1)
	}
	for i, e := range v.entries {
		if i < n && e == hx.Hex(run.log[i]) {
			continue
		}
		if strings.HasPrefix(e, "err:") {
			if i != j && inCur {
				viol("wal:reopen:intact-entry-unreadable", fmt.Sprintf("entry %d: %s", i, e))
				return
			}
			continue
		}
		viol("wal:reopen:damaged-or-fabricated-entry-returned", fmt.Sprintf("entry %d reads %.60s", i, e))
		return
	}
	if count < j {
		viol("wal:reopen:intact-entry-lost", fmt.Sprintf("%d entries before the damaged one, %d returned", j, count))
		return
	}
	if committed && count <= j {
		cls := "other"
		if bytes.Equal(mut[l.file][l.off:l.off+4], []byte{0, 0, 0, 0}) {
			cls = "zeroed-size"
		}
		viol("wal:reopen:committed-damage-not-reported:"+cls,
			fmt.Sprintf("entry %d <= commit %d is damaged (%s); the WAL opens with %d entries and no error", j, commit, class, count))
	}
}

// staleScenario: aimed at the unchecked previousCrc chain.  Equal-sized entries; the unsynced tail
// spans several pages; the crash keeps a later page and loses an earlier one; after recovery an
// equally sized entry is appended and the WAL is closed and reopened.
func staleScenario(o *hx.Out, r *hx.Rng, id int) {
	seg := int32(4 * pageSize)
	run := newWalRun(r, seg)
	defer os.RemoveAll(run.root)
	size := hx.Pick(r, []int{500, 1000, 1500})
	if !run.append(r, 1+r.Intn(3), size) {
		run.closeLive()
		return
	}
	run.sync()
	if !run.append(r, 4+r.Intn(4), size) {
		run.closeLive()
		return
	}
	current := readDir(walDir(run.root))
	cur := currentTxn(current)
	// first dirty page lost, all later dirty pages kept
	img := current.clone()
	d, c := run.durable[cur], current[cur]
	for p := 0; p < len(c); p += pageSize {
		e := p + pageSize
		if e > len(c) {
			e = len(c)
		}
		if !bytes.Equal(c[p:e], d[p:e]) {
			copy(img[cur][p:e], d[p:e])
			break
		}
	}
	may, must := run.log, run.synced
	run.closeLive()
	o.Count("wal:stale-scenarios")
	root2 := scratchDir()
	defer os.RemoveAll(root2)
	writeDir(walDir(root2), img)
	w2, _, res := openWal(root2, seg, int64(must)-1)
	v := &walView{open: res}
	if res == "ok" {
		v = viewWal(w2)
	}
	run.script = append(run.script, "CRASH[first dirty page lost, later ones kept] reopen")
	o.Case("wal", fmt.Sprintf("stale#%d %s", id, strings.Join(run.script, " ")), v.String(), fmt.Sprintf("stale%d", id))
	run.verdict(o, v, may, must, "crash", true)
	if v.open != "ok" || hung {
		return
	}
	count := 0
	if v.first >= 0 {
		count = int(v.last + 1)
	}
	if count > len(may) {
		guard(func() string { w2.Close(); return "ok" })
		return
	}
	run.w, run.root = w2, root2
	run.log = append([][]byte(nil), may[:count]...)
	run.synced = count
	// how many equally sized entries must be appended so that the new log ends exactly where an
	// intact stale record starts (aiming only; the verdict does not depend on it)
	j := 1
	if offs, sizes := parseTxn(c); len(offs) > count && count < len(may) {
		for k := 1; count+k < len(offs); k++ {
			p := offs[count+k]
			if validRecord(img[cur], p, sizes[count+k]) {
				j = k
				break
			}
		}
	}
	if !run.append(r, j, size) {
		run.closeLive()
		return
	}
	run.sync()
	run.closeLive()
	root3 := scratchDir()
	defer os.RemoveAll(root3)
	writeDir(walDir(root3), readDir(walDir(root2)))
	w3, _, res3 := openWal(root3, seg, int64(count)-1)
	v3 := &walView{open: res3}
	if res3 == "ok" {
		v3 = viewWal(w3)
		guard(func() string { w3.Close(); return "ok" })
	}
	run.script = append(run.script, "close reopen")
	o.Case("wal", fmt.Sprintf("stale#%d-continued %s", id, strings.Join(run.script, " ")), v3.String(), fmt.Sprintf("stalec%d", id))
	if v3.open == "ok" && v3.first >= 0 && int(v3.last+1) > len(run.log) {
		o.Violation("wal:reopen:stale-entry-resurrected", fmt.Sprintf("%s | after a clean close the log has %d entries, reopening returns %d: the extra ones are intact stale records of a tail that an earlier crash recovery had already dropped (previousCrc chain not compared)",
			strings.Join(run.script, " "), len(run.log), int(v3.last+1)))
		return
	}
	run.verdict(o, v3, run.log, len(run.log), "clean close and reopen after the crash recovery", false)
}

func runWalLeg(o *hx.Out, r *hx.Rng, f hx.Flags, replay []string) {
	defer cleanupScratch()
	// replay: a wal case line is "wal <id> <crash#N|corrupt#N> ..." generated from (seed, N): re-run scenario N
	// of the same seed (the scenario is a pure function of the forked generator)
	one := func(i int) {
		rr := hx.NewRng(f.Seed*1000003 + uint64(i))
		if i%100 == 50 {
			wiringScenario(o, rr, i, (i/100)%2 == 1)
		} else if i%10 == 4 {
			concurrentScenario(o, rr, i)
		} else if i%3 == 2 {
			corruptionScenario(o, rr, i)
		} else if i%15 == 7 {
			staleScenario(o, rr, i)
		} else {
			crashScenario(o, rr, i)
		}
	}
	if f.Replay != "" {
		done := map[int]bool{}
		for _, line := range replay {
			t := strings.Fields(line)
			if len(t) < 3 || t[0] != "wal" {
				continue
			}
			if strings.HasPrefix(t[2], "wiring#") && len(t) > 3 {
				// "wiring#N leader:" / "wiring#N follower:"
				var i int
				fmt.Sscanf(t[2], "wiring#%d", &i)
				if !done[i] {
					done[i] = true
					one(i)
				}
				continue
			}
			var kind string
			var i int
			if k := strings.Index(t[2], "#"); k > 0 {
				kind = t[2][:k]
				fmt.Sscanf(strings.TrimSuffix(t[2][k+1:], "-continued"), "%d", &i)
			}
			if kind != "" && !done[i] && !hung {
				done[i] = true
				one(i)
			}
		}
		return
	}
	for i := 0; i < f.N && !hung; i++ {
		one(i)
	}
	_ = r
}
