// harness wal -mode crash: crash points inside the multi-step file operations of the WAL.
//
// The same generated operation sequences are run on the real WAL with two kinds of hooks, neither of
// which changes any logic: the CommitOffsetProvider (newReadWriteSegment consults it right after the
// new segment file has been created: inside rolloverSegment, TruncateLog across segments, Clear, the
// first append of a cleared log, recoverWal) and delegating wrappers around the current segment and the
// read-only group (wal.VerifInstrument: before/after Close, Delete, Truncate, TrimSegments,
// PollHighestSegment, AddedNewSegment).  Inside a hook the WAL directory is copied: the copy is what a
// crash (kill -9) at that instant leaves behind (mmap'ed files are MAP_SHARED, the copy sees every byte
// written so far).  After an index file has been written, the states "index file created but empty" and
// "index half written" are derived from the copy as well.  A directory is also copied between API calls (sampled).
//
// Calls that unlink several files (segment Delete, TrimSegments, the RemoveAll of Clear) have crash points
// between two unlinks that no hook reaches.  For those the directory is watched with inotify for the
// duration of the call (the hook before it and the first hook after it bracket the window): the kernel queues
// the directory events in the order they happened, so the ORDER of the unlinks is known exactly afterwards,
// and the directory after the first j unlinks is the copy taken at the opening hook minus those j files.
// Nothing is polled and nothing races: the events are read after the call has returned.
//
// For every distinct directory state a WAL is opened on the copy and judged against the list
// specification (no model involved):
//
//	crash:reopen-failed         NewWal fails
//	crash:not-contiguous        the log cannot be read from FirstOffset to LastOffset (error / gap / reverse differs)
//	crash:entry-mismatch        an entry differs from the one appended at that offset
//	crash:entry-from-nowhere    an entry at an offset the list never had (e.g. a resurrected truncated tail)
//	crash:synced-entry-lost     an entry that was synced before the interrupted call, and that the call does not
//	                            remove, is not in the recovered log
//	crash:next-append-rejected  the recovered log refuses the append at last+1
//
// case line:  crash <id> <seg_size> <retention_ms> <op>;<op>;...   (same ops as kind seq)
// result:     <n snapshots>/<n distinct states verified>
package main

import (
	"encoding/binary"
	"flag"
	"fmt"
	"hash/fnv"
	"io"
	"math"
	"os"
	"path/filepath"
	"sort"
	"strings"
	"sync"
	"syscall"
	"time"

	time2 "github.com/oxia-db/oxia/common/time"
	"github.com/oxia-db/oxia/server/wal"

	"verif/harness/internal/hx"
)

var mode = flag.String("mode", "seq", "seq: op sequences against the model | crash: crash points inside the operations")

// crash mode generates no entry outside the specified domain (larger than a segment)
var noUnfit bool

type snapshot struct {
	point string
	base  string // BaseWalDir of the copy
}

type crashRunner struct {
	r        *runner
	snapRoot string
	shard    int64
	mu       sync.Mutex
	n        int
	seen     map[string]bool
	ifd      int    // inotify descriptor (-1: not available)
	winBase  string // BaseWalDir of the copy taken at the hook that opened an unlink window ("" = no window)
	winPoint string
	pending  []snapshot // taken during the current API call
	points   map[string]int
	nsnap    int
}

// dirSig is the signature copyDir would return, without copying.
func dirSig(src string) (string, error) {
	es, err := os.ReadDir(src)
	if err != nil {
		if os.IsNotExist(err) {
			return "<no directory>", nil
		}
		return "", err
	}
	names := make([]string, 0, len(es))
	for _, e := range es {
		names = append(names, e.Name())
	}
	sort.Strings(names)
	h := fnv.New64a()
	for _, n := range names {
		b, err := os.ReadFile(filepath.Join(src, n))
		if err != nil {
			if os.IsNotExist(err) {
				continue
			}
			return "", err
		}
		fmt.Fprintf(h, "%s\x00", n)
		h.Write(b)
		fmt.Fprintf(h, "\x00%d\x00", len(b))
	}
	return fmt.Sprintf("%d:%x", len(names), h.Sum64()), nil
}

// copyDir copies the WAL directory and returns a signature of its content (names, sizes, bytes).
func copyDir(src, dst string) (string, error) {
	if err := os.MkdirAll(dst, 0o755); err != nil {
		return "", err
	}
	es, err := os.ReadDir(src)
	if err != nil {
		if os.IsNotExist(err) {
			return "<no directory>", nil
		}
		return "", err
	}
	names := make([]string, 0, len(es))
	for _, e := range es {
		names = append(names, e.Name())
	}
	sort.Strings(names)
	h := fnv.New64a()
	for _, n := range names {
		in, err := os.Open(filepath.Join(src, n))
		if err != nil {
			if os.IsNotExist(err) {
				continue // removed between the listing and the copy: cannot happen inside a hook (single writer)
			}
			return "", err
		}
		out, err := os.Create(filepath.Join(dst, n))
		if err != nil {
			in.Close()
			return "", err
		}
		fmt.Fprintf(h, "%s\x00", n)
		sz, err := io.Copy(io.MultiWriter(out, h), in)
		in.Close()
		out.Close()
		if err != nil {
			return "", err
		}
		fmt.Fprintf(h, "\x00%d\x00", sz)
	}
	return fmt.Sprintf("%d:%x", len(names), h.Sum64()), nil
}

func (cr *crashRunner) liveDir() string { return wal.VerifWalPath(cr.r.dir, "v", cr.r.shard) }

func (cr *crashRunner) take(point string) string {
	cr.nsnap++
	kind := strings.TrimRight(point, "-0123456789")
	kind = strings.TrimSuffix(kind, ":")
	cr.points[kind]++
	sig, err := dirSig(cr.liveDir())
	hx.Must(err)
	if cr.seen[sig] { // a directory state already verified in this sequence (recovery depends on nothing else)
		return ""
	}
	cr.seen[sig] = true
	cr.n++
	base := filepath.Join(cr.snapRoot, fmt.Sprintf("s%d", cr.n))
	dst := wal.VerifWalPath(base, "v", cr.shard)
	_, err = copyDir(cr.liveDir(), dst)
	hx.Must(err)
	cr.pending = append(cr.pending, snapshot{point: point, base: base})
	return dst
}

// hook is called by the WAL (from inside the interrupted call) at every crash point.
func (cr *crashRunner) hook(point string) {
	cr.mu.Lock()
	defer cr.mu.Unlock()
	if cr.r.mute {
		return
	}
	cr.closeWindow()
	dst := cr.take(point)
	for _, p := range []string{"ro.TrimSegments:pre", "cur.Delete:pre", "ro.Delete:pre", "ro.Close:post"} {
		if strings.HasPrefix(point, p) {
			cr.openWindow(point)
		}
	}
	// the index file of the segment that was just closed: WriteIndex creates the file, then writes it
	if dst != "" && strings.HasPrefix(point, "cur.Close:post:") {
		idx := filepath.Join(dst, point[len("cur.Close:post:"):]+".idxx")
		if b, err := os.ReadFile(idx); err == nil && len(b) > 0 {
			for _, keep := range []int{0, len(b) / 2} {
				cr.n++
				base := filepath.Join(cr.snapRoot, fmt.Sprintf("s%d", cr.n))
				d2 := wal.VerifWalPath(base, "v", cr.shard)
				if _, err := copyDir(dst, d2); err != nil {
					hx.Must(err)
				}
				hx.Must(os.WriteFile(filepath.Join(d2, filepath.Base(idx)), b[:keep], 0o644))
				cr.nsnap++
				cr.points[fmt.Sprintf("cur.Close:index-partly-written(%d/2)", map[bool]int{true: 0, false: 1}[keep == 0])]++
				cr.pending = append(cr.pending, snapshot{point: fmt.Sprintf("%s+index-truncated-to-%d-bytes", point, keep), base: base})
			}
		}
	}
}

type dirEvent struct {
	mask uint32
	name string
}

func (cr *crashRunner) drainEvents() []dirEvent {
	var evs []dirEvent
	if cr.ifd < 0 {
		return nil
	}
	buf := make([]byte, 64*1024)
	for {
		n, err := syscall.Read(cr.ifd, buf)
		if n <= 0 || err != nil {
			return evs
		}
		for off := 0; off+syscall.SizeofInotifyEvent <= n; {
			mask := binary.LittleEndian.Uint32(buf[off+4:])
			l := int(binary.LittleEndian.Uint32(buf[off+12:]))
			name := strings.TrimRight(string(buf[off+syscall.SizeofInotifyEvent:off+syscall.SizeofInotifyEvent+l]), "\x00")
			evs = append(evs, dirEvent{mask, name})
			off += syscall.SizeofInotifyEvent + l
		}
	}
}

// openWindow: a call that unlinks files starts; keep a copy of the directory as it is now and watch it.
func (cr *crashRunner) openWindow(point string) {
	if cr.ifd < 0 {
		return
	}
	if _, err := syscall.InotifyAddWatch(cr.ifd, cr.liveDir(), syscall.IN_CREATE|syscall.IN_DELETE|syscall.IN_MODIFY|
		syscall.IN_MOVED_FROM|syscall.IN_MOVED_TO); err != nil {
		return
	}
	cr.drainEvents()
	cr.n++
	cr.winBase = filepath.Join(cr.snapRoot, fmt.Sprintf("win%d", cr.n))
	cr.winPoint = point
	_, err := copyDir(cr.liveDir(), wal.VerifWalPath(cr.winBase, "v", cr.shard))
	hx.Must(err)
}

// closeWindow: first hook after the call; derive the directory after each unlink from the event order.
func (cr *crashRunner) closeWindow() {
	if cr.winBase == "" {
		return
	}
	base, point := cr.winBase, cr.winPoint
	cr.winBase = ""
	defer os.RemoveAll(base)
	evs := cr.drainEvents()
	const changed = syscall.IN_CREATE | syscall.IN_MODIFY | syscall.IN_MOVED_FROM | syscall.IN_MOVED_TO
	touched := map[string]bool{} // created / written in the window before the unlinks: content at that time not known
	var unlinked []string
	for _, e := range evs {
		switch {
		case e.mask&syscall.IN_DELETE != 0:
			unlinked = append(unlinked, e.name)
		case e.mask&changed != 0 && len(unlinked) == 0:
			touched[e.name] = true
		case e.mask&changed != 0:
			goto done // something was written between two unlinks: the later states are not derivable
		}
	}
done:
	cr.points["unlink-window:"+strings.TrimRight(strings.TrimRight(point, "-0123456789"), ":")]++
	// the state after all unlinks is the directory at the hook that follows (copied there); the ones in between:
	for j := 1; j < len(unlinked); j++ {
		gone := map[string]bool{}
		for _, n := range unlinked[:j] {
			gone[n] = true
		}
		derivable := true
		for n := range touched {
			// a file rewritten in the window matters only while its segment file is still there
			seg := strings.TrimSuffix(strings.TrimSuffix(n, ".idxx"), ".idx")
			if !gone[n] && !(gone[seg+".txnx"] || gone[seg+".txn"]) {
				derivable = false
			}
		}
		if !derivable {
			continue
		}
		cr.n++
		sb := filepath.Join(cr.snapRoot, fmt.Sprintf("s%d", cr.n))
		d2 := wal.VerifWalPath(sb, "v", cr.shard)
		_, err := copyDir(wal.VerifWalPath(base, "v", cr.shard), d2)
		hx.Must(err)
		for n := range gone {
			os.Remove(filepath.Join(d2, n))
		}
		sig, err := dirSig(d2)
		hx.Must(err)
		cr.nsnap++
		cr.points["unlink-window:state-between-two-unlinks"]++
		if cr.seen[sig] {
			os.RemoveAll(sb)
			continue
		}
		cr.seen[sig] = true
		cr.pending = append(cr.pending, snapshot{point: fmt.Sprintf("%s+%d of %d files unlinked (%s)", point, j, len(unlinked),
			strings.Join(unlinked[:j], ",")), base: sb})
	}
}

func cloneSpec(s *specState) *specState {
	c := *s
	c.ents = append([]ent(nil), s.ents...)
	return &c
}

// mustHave: the offsets that were synced (visible) before the call and that the call does not remove.
func mustHave(o opT, pre, post *specState) (lo, hi int64, any bool) {
	if pre.first == -1 || pre.synced < pre.first {
		return 0, 0, false
	}
	lo, hi = pre.first, pre.synced
	switch o.kind {
	case 'c':
		return 0, 0, false
	case 't':
		switch {
		case o.o == -1 || o.o < pre.first:
			return 0, 0, false
		case o.o <= pre.last():
			hi = min(hi, o.o)
		}
	case 'T':
		lo = max(lo, post.first)
	}
	return lo, hi, lo <= hi
}

// verify opens a WAL on the copy and judges it.
func (cr *crashRunner) verify(c caseT, o opT, pre, post *specState, sn snapshot) (sig, detail string) {
	defer os.RemoveAll(sn.base)
	known := map[int64]ent{}
	for _, e := range pre.ents {
		known[e.off] = e
	}
	for _, e := range post.ents {
		known[e.off] = e
	}
	var res [2]string
	done := make(chan struct{})
	go func() {
		defer close(done)
		defer func() {
			if p := recover(); p != nil {
				res = [2]string{"crash:reopen-failed", fmt.Sprintf("panic: %v", p)}
			}
		}()
		w, err := wal.VerifNewWal("v", cr.shard, &wal.FactoryOptions{BaseWalDir: sn.base,
			Retention: time.Duration(c.ret) * time.Millisecond, SegmentSize: c.seg, SyncData: false},
			&commitProvider{v: math.MaxInt64}, &time2.MockedClock{})
		if err != nil {
			res = [2]string{"crash:reopen-failed", errKind(err)}
			return
		}
		defer w.Close()
		first, last := w.FirstOffset(), w.LastOffset()
		rd, err := w.NewReader(max(first-1, -1))
		es, rdErr, openErr := drain(rd, err)
		if openErr != "" || rdErr != "" {
			res = [2]string{"crash:not-contiguous", fmt.Sprintf("first/last %d/%d, forward read: %d entries then %s%s", first, last, len(es), openErr, rdErr)}
			return
		}
		// first = last+1 is an empty log positioned at `first` (a crash inside the first append of a cleared
		// log at a non-zero offset leaves the empty segment file of that offset): nothing to read, next append at first
		if (first == -1) != (last == -1) || last < first-1 {
			res = [2]string{"crash:not-contiguous", fmt.Sprintf("first/last %d/%d", first, last)}
			return
		}
		want := int64(0)
		if first != -1 {
			want = last - first + 1
		}
		if int64(len(es)) != want {
			res = [2]string{"crash:not-contiguous", fmt.Sprintf("first/last %d/%d but %d entries read", first, last, len(es))}
			return
		}
		for i, e := range es {
			if e.off != first+int64(i) {
				res = [2]string{"crash:not-contiguous", fmt.Sprintf("entry #%d after first=%d has offset %d", i, first, e.off)}
				return
			}
			k, ok := known[e.off]
			if !ok {
				res = [2]string{"crash:entry-from-nowhere", fmt.Sprintf("offset %d (term %d ts %d) was never part of the list (list: %d..%d)", e.off, e.term, e.ts, pre.first, max(pre.last(), post.last()))}
				return
			}
			if k.term != e.term || k.ts != e.ts || k.pay != e.pay {
				res = [2]string{"crash:entry-mismatch", fmt.Sprintf("offset %d: read %d.%d.%d.%d, appended %d.%d.%d.%d", e.off, e.term, e.off, e.ts, e.pay, k.term, k.off, k.ts, k.pay)}
				return
			}
		}
		rr, err := w.NewReverseReader()
		bs, rdErr, openErr := drain(rr, err)
		if openErr != "" || rdErr != "" || len(bs) != len(es) {
			res = [2]string{"crash:not-contiguous", fmt.Sprintf("first/last %d/%d, reverse read: %d entries then %s%s", first, last, len(bs), openErr, rdErr)}
			return
		}
		for i := range bs {
			if bs[i] != es[len(es)-1-i] {
				res = [2]string{"crash:not-contiguous", fmt.Sprintf("reverse read differs from forward read at offset %d", bs[i].off)}
				return
			}
		}
		if lo, hi, any := mustHave(o, pre, post); any {
			if len(es) == 0 || first > lo || last < hi {
				res = [2]string{"crash:synced-entry-lost", fmt.Sprintf("offsets %d..%d were synced before the call and are not removed by it; recovered log is %d..%d", lo, hi, first, last)}
				return
			}
		}
		next := last + 1
		probe := ent{term: 99, off: next, ts: 5000, vlen: 3, pay: 7}
		if err := w.Append(probe.proto()); err != nil {
			res = [2]string{"crash:next-append-rejected", fmt.Sprintf("append at %d on the recovered log %d..%d: %s", next, first, last, errKind(err))}
			return
		}
		if w.LastOffset() != next {
			res = [2]string{"crash:next-append-rejected", fmt.Sprintf("after the append at %d LastOffset is %d", next, w.LastOffset())}
		}
	}()
	select {
	case <-done:
	case <-time.After(15 * time.Second):
		return "crash:reopen-failed", "opening / reading the recovered WAL does not return"
	}
	return res[0], res[1]
}

type crashResult struct {
	nsnap, nverified int
	points           map[string]int
	sig, detail      string
	opIndex          int
}

func runCrashCase(c caseT, root string, k int) (res crashResult) {
	live := filepath.Join(root, fmt.Sprintf("w%d", k))
	snapRoot := filepath.Join(root, fmt.Sprintf("snap%d", k))
	os.RemoveAll(live)
	os.RemoveAll(live + "x")
	defer os.RemoveAll(live + "x")
	os.RemoveAll(snapRoot)
	defer os.RemoveAll(live)
	defer os.RemoveAll(snapRoot)
	cr := &crashRunner{snapRoot: snapRoot, shard: int64(100 + k), points: map[string]int{}, seen: map[string]bool{}, ifd: -1}
	if fd, err := syscall.InotifyInit1(syscall.IN_NONBLOCK | syscall.IN_CLOEXEC); err == nil {
		cr.ifd = fd
		defer syscall.Close(fd)
	}
	cp := &commitProvider{v: -1}
	cr.r = &runner{dir: live, shard: int64(k + 1), cp: cp, clock: &time2.MockedClock{},
		opts: &wal.FactoryOptions{BaseWalDir: live, Retention: time.Duration(c.ret) * time.Millisecond,
			SegmentSize: c.seg, SyncData: false}}
	hx.Must(cr.r.open())
	cp.hook = cr.hook
	res.points = cr.points
	res.opIndex = -1
	s := &specState{}
	s.reset()
	finished := make(chan struct{})
	go func() {
		defer close(finished)
		for i, o := range c.ops {
			wal.VerifInstrument(cr.r.w, cr.hook)
			pre := cloneSpec(s)
			x := cr.r.do(o)
			// between two calls (the directory a kill -9 leaves when nothing is in flight): sampled, the states
			// inside the calls are all taken
			if o.kind != 'f' && o.kind != 'F' && o.kind != 'b' && i%4 == 0 {
				cr.hook("api:after-call")
			}
			cr.mu.Lock()
			cr.closeWindow()
			pending := cr.pending
			cr.pending = nil
			cr.mu.Unlock()
			sig, det := s.judge(c, o, x)
			if sig != "" {
				res.sig, res.detail, res.opIndex = sig, det, i
				for _, sn := range pending {
					os.RemoveAll(sn.base)
				}
				return
			}
			for _, sn := range pending {
				res.nverified++
				if sig, det := cr.verify(c, o, pre, s, sn); sig != "" {
					res.sig, res.opIndex = sig, i
					res.detail = fmt.Sprintf("crash point %s: %s", sn.point, det)
					return
				}
			}
		}
		cp.hook = nil
		cr.r.w.Close()
	}()
	select {
	case <-finished:
	case <-time.After(60 * time.Second):
		hangs.Add(1)
		res.sig, res.detail = "op:hang", "the sequence did not finish"
	}
	res.nsnap = cr.nsnap
	return res
}

func crashMain(f hx.Flags, o *hx.Out) {
	noUnfit = true
	r := hx.NewRng(f.Seed ^ 0xC4A5)
	tmp := os.Getenv("VERIF_TMP")
	if tmp == "" {
		tmp = "/var/tmp"
	}
	root, err := os.MkdirTemp(tmp, "walc-")
	hx.Must(err)
	defer os.RemoveAll(root)

	type cjob struct {
		c   caseT
		res crashResult
		ran bool
	}
	var jobs []*cjob
	lines := hx.CorpusLines(f.Corpus)
	if f.Replay != "" {
		lines = hx.ReadLines(f.Replay)
	}
	for _, l := range lines {
		t := strings.Fields(l)
		if len(t) != 5 || (t[0] != "seq" && t[0] != "crash") {
			continue
		}
		c := parseCase(t[2:])
		fit := true
		for _, op := range c.ops {
			if (op.kind == 'a' || op.kind == 'A') && (op.e.psize == 0 || op.e.psize+headerSize > int(c.seg)) {
				fit = false
			}
		}
		if fit {
			jobs = append(jobs, &cjob{c: c})
		}
	}
	if f.Replay == "" {
		for i := 0; i < f.N; i++ {
			c := genCase(r.Fork(), o)
			if c.seg > 4096 { // keep the directory copies small
				c.seg = 1024
				for j := range c.ops {
					if c.ops[j].kind == 'a' || c.ops[j].kind == 'A' {
						e := c.ops[j].e
						if e.psize+headerSize > 1024 {
							e.vlen, e.pay = 900, e.pay%maxID(900)
							e.psize = psizeOf(e)
							c.ops[j].e = e
						}
					}
				}
			}
			jobs = append(jobs, &cjob{c: c})
		}
	}
	workers := 8
	var wg sync.WaitGroup
	ch := make(chan int)
	for k := 0; k < workers; k++ {
		wg.Add(1)
		go func(k int) {
			defer wg.Done()
			for i := range ch {
				if hangs.Load() >= 2 {
					continue
				}
				jobs[i].res = runCrashCase(jobs[i].c, root, k)
				jobs[i].ran = true
			}
		}(k)
	}
	for i := range jobs {
		ch <- i
	}
	close(ch)
	wg.Wait()
	for _, j := range jobs {
		if !j.ran {
			o.Count("not-run-after-repeated-hangs")
			continue
		}
		nt := ""
		if j.res.nverified > 0 {
			nt = j.c.line()
		}
		o.Case("crash", j.c.line(), fmt.Sprintf("%d/%d", j.res.nsnap, j.res.nverified), nt)
		o.CountN("crash:snapshots", j.res.nsnap)
		o.CountN("crash:distinct-directory-states-verified", j.res.nverified)
		for p, n := range j.res.points {
			o.CountN("crash-point:"+p, n)
		}
		if j.res.sig != "" {
			upto := len(j.c.ops)
			if j.res.opIndex >= 0 {
				upto = j.res.opIndex + 1
			}
			parts := make([]string, upto)
			for k := 0; k < upto; k++ {
				parts[k] = j.c.ops[k].String()
			}
			opname := "-"
			if j.res.opIndex >= 0 {
				opname = j.c.ops[j.res.opIndex].String()
			}
			o.Violation(j.res.sig, fmt.Sprintf("seg_size=%d retention=%dms during op #%d %s: %s | replay: crash 0 %d %d %s",
				j.c.seg, j.c.ret, j.res.opIndex, opname, j.res.detail, j.c.seg, j.c.ret, strings.Join(parts, ";")))
		}
	}
}
