// harness wal: drives the real write-ahead log (server/wal) through generated operation
// sequences and writes, per sequence, the input line for the Coq model (Oxia.Wal.Model.run)
// and the canonical observables.  Independently of the model, a plain slice implements the
// list specification and every observable of the implementation is judged against it
// (spec verdicts with stable signatures in specviol.txt).
//
// case line:  seq <id> <seg_size> <retention_ms> <op>;<op>;...
//   a:<psize>:<term>:<off>:<ts>:<pay>:<len>   AppendAsync      A:...  Append
//   s  Sync      t:<o>  TruncateLog      c  Clear      T:<now_ms>:<commit>  one trimmer round
//   r  Close + reopen      R  crash + reopen (the directory is copied as it is, no Close; the run goes on on the copy)
//   f:<after>  forward read      F  forward read from max(FirstOffset()-1,-1)      b  reverse read
// observable per op:  <out>@<FirstOffset>,<LastOffset>
//   out = ok | err:<kind> | tr:<offset> | rd:<term.off.ts.pay>,...[!<kind>]
package main

import (
	"context"
	"encoding/binary"
	"errors"
	"fmt"
	"hash/fnv"
	"os"
	"path/filepath"
	"strconv"
	"strings"
	"sync"
	"sync/atomic"
	"time"

	pb "google.golang.org/protobuf/proto"

	time2 "github.com/oxia-db/oxia/common/time"
	"github.com/oxia-db/oxia/proto"
	"github.com/oxia-db/oxia/server/wal"
	"github.com/oxia-db/oxia/server/wal/codec"

	"verif/harness/internal/hx"
)

const headerSize = 12 // codec v2; checked against the running code in main()

type ent struct {
	term, off int64
	ts        uint64
	pay       uint64
	psize     int
	vlen      int
}

type opT struct {
	kind  byte // a A s t c T r f b
	e     ent
	o     int64 // truncate target / reader "after"
	now   int64
	commit int64
}

type caseT struct {
	seg int32
	ret int64
	ops []opT
}

// ---------------------------------------------------------------- payloads

// value of length n whose content is determined by the id; the id is recoverable from the
// bytes (payID), so a read-back payload maps to the id it was generated from iff it is intact.
func mkValue(id uint64, n int) []byte {
	if n == 0 {
		return nil
	}
	b := make([]byte, n)
	var idb [4]byte
	binary.BigEndian.PutUint32(idb[:], uint32(id))
	k := n
	if k > 4 {
		k = 4
	}
	copy(b, idb[4-k:])
	s := id*0x9E3779B97F4A7C15 + 1
	for i := 4; i < n; i++ {
		s = s*6364136223846793005 + 1442695040888963407
		b[i] = byte(s >> 56)
	}
	return b
}

func payID(v []byte) uint64 {
	n := len(v)
	if n == 0 {
		return 0
	}
	k := n
	if k > 4 {
		k = 4
	}
	var idb [4]byte
	copy(idb[4-k:], v[:k])
	id := uint64(binary.BigEndian.Uint32(idb[:]))
	w := mkValue(id, n)
	for i := range v {
		if v[i] != w[i] {
			h := fnv.New32a()
			h.Write(v)
			return 1<<40 + uint64(h.Sum32()) // damaged payload: an id no generated entry has
		}
	}
	return id
}

func maxID(n int) uint64 {
	switch {
	case n == 0:
		return 1
	case n < 4:
		return 1 << (8 * uint(n))
	}
	return 1 << 32
}

func (e ent) proto() *proto.LogEntry {
	return &proto.LogEntry{Term: e.term, Offset: e.off, Timestamp: e.ts, Value: mkValue(e.pay, e.vlen)}
}

func psizeOf(e ent) int {
	b, err := pb.Marshal(e.proto())
	hx.Must(err)
	return len(b)
}

// ---------------------------------------------------------------- case lines

func (o opT) String() string {
	switch o.kind {
	case 'a', 'A':
		return fmt.Sprintf("%c:%d:%d:%d:%d:%d:%d", o.kind, o.e.psize, o.e.term, o.e.off, o.e.ts, o.e.pay, o.e.vlen)
	case 't':
		return fmt.Sprintf("t:%d", o.o)
	case 'f':
		return fmt.Sprintf("f:%d", o.o)
	case 'T':
		return fmt.Sprintf("T:%d:%d", o.now, o.commit)
	}
	return string(o.kind)
}

func (c caseT) line() string {
	parts := make([]string, len(c.ops))
	for i, o := range c.ops {
		parts[i] = o.String()
	}
	ops := strings.Join(parts, ";")
	if ops == "" {
		ops = "-"
	}
	return fmt.Sprintf("%d %d %s", c.seg, c.ret, ops)
}

func atoi(s string) int64 {
	v, err := strconv.ParseInt(s, 10, 64)
	hx.Must(err)
	return v
}

// parseCase parses "<seg> <ret> <ops>" (the part of a case line after kind and id).
func parseCase(fields []string) caseT {
	c := caseT{seg: int32(atoi(fields[0])), ret: atoi(fields[1])}
	if fields[2] == "-" {
		return c
	}
	for _, s := range strings.Split(fields[2], ";") {
		f := strings.Split(s, ":")
		o := opT{kind: f[0][0]}
		switch o.kind {
		case 'a', 'A':
			ts, err := strconv.ParseUint(f[4], 10, 64)
			hx.Must(err)
			pay, err := strconv.ParseUint(f[5], 10, 64)
			hx.Must(err)
			o.e = ent{term: atoi(f[2]), off: atoi(f[3]), ts: ts, pay: pay, psize: int(atoi(f[1])), vlen: int(atoi(f[6]))}
			if ps := psizeOf(o.e); ps != o.e.psize {
				panic(fmt.Sprintf("case line: psize %d of %s is not the protobuf size %d", o.e.psize, s, ps))
			}
		case 't', 'f':
			o.o = atoi(f[1])
		case 'T':
			o.now, o.commit = atoi(f[1]), atoi(f[2])
		}
		c.ops = append(c.ops, o)
	}
	return c
}

// ---------------------------------------------------------------- running the implementation

type commitProvider struct {
	mu   sync.Mutex
	v    int64
	hook func(point string) // crash mode: newReadWriteSegment asks for the commit offset right after creating the segment file
}

func (c *commitProvider) CommitOffset() int64 {
	if c.hook != nil {
		c.hook("commitOffset")
	}
	c.mu.Lock()
	defer c.mu.Unlock()
	return c.v
}
func (c *commitProvider) set(v int64)         { c.mu.Lock(); c.v = v; c.mu.Unlock() }

func errKind(err error) string {
	switch {
	case err == nil:
		return "ok"
	case errors.Is(err, wal.ErrInvalidNextOffset):
		return "err:invalid-next"
	case errors.Is(err, wal.ErrSegmentFull):
		return "err:segment-full"
	case errors.Is(err, codec.ErrEmptyPayload):
		return "err:empty-payload"
	case errors.Is(err, codec.ErrOffsetOutOfBounds):
		return "err:out-of-bounds"
	case errors.Is(err, wal.ErrEntryNotFound):
		return "err:entry-not-found"
	case errors.Is(err, codec.ErrDataCorrupted):
		return "err:data-corrupted"
	case errors.Is(err, os.ErrNotExist):
		return "err:io"
	case strings.Contains(err.Error(), "should be > 0"):
		return "err:neg-offset"
	}
	return "err:other(" + strings.ReplaceAll(strings.ReplaceAll(err.Error(), " ", "_"), ";", ",") + ")"
}

type rdEnt struct {
	term, off int64
	ts, pay   uint64
}

type implObs struct {
	out         string // canonical
	first, last int64
	ents        []rdEnt // for reads
	rdErr       string  // "" or kind
}

func fmtEnts(es []rdEnt, rdErr string) string {
	var sb strings.Builder
	sb.WriteString("rd:")
	if len(es) == 0 {
		sb.WriteByte('-')
	}
	for i, e := range es {
		if i > 0 {
			sb.WriteByte(',')
		}
		fmt.Fprintf(&sb, "%d.%d.%d.%d", e.term, e.off, e.ts, e.pay)
	}
	if rdErr != "" {
		sb.WriteString("!" + strings.TrimPrefix(rdErr, "err:"))
	}
	return sb.String()
}

func drain(r wal.Reader, err error) ([]rdEnt, string, string) {
	if err != nil {
		return nil, "", errKind(err)
	}
	defer r.Close()
	var es []rdEnt
	for n := 0; r.HasNext(); n++ {
		if n > 100000 {
			return es, "err:endless", ""
		}
		e, err := r.ReadNext()
		if err != nil {
			return es, errKind(err), ""
		}
		es = append(es, rdEnt{e.Term, e.Offset, e.Timestamp, payID(e.Value)})
	}
	return es, "", ""
}

type runner struct {
	dir    string
	shard  int64
	opts   *wal.FactoryOptions
	cp     *commitProvider
	clock  *time2.MockedClock
	w      wal.Wal
	mute   bool // crash mode: no crash points while the harness itself tears down an abandoned WAL
}

func (r *runner) open() error {
	w, err := wal.VerifNewWal("v", r.shard, r.opts, r.cp, r.clock)
	if err == nil {
		r.w = w
	}
	return err
}

func (r *runner) do(o opT) (res implObs) {
	defer func() {
		if p := recover(); p != nil {
			res = implObs{out: "err:panic", first: r.w.FirstOffset(), last: r.w.LastOffset()}
		}
	}()
	w := r.w
	switch o.kind {
	case 'a':
		res.out = errKind(w.AppendAsync(o.e.proto()))
	case 'A':
		res.out = errKind(w.Append(o.e.proto()))
	case 's':
		ctx, cancel := context.WithTimeout(context.Background(), 15*time.Second)
		res.out = errKind(w.Sync(ctx))
		cancel()
	case 't':
		v, err := w.TruncateLog(o.o)
		if err != nil {
			res.out = errKind(err)
		} else {
			res.out = fmt.Sprintf("tr:%d", v)
		}
	case 'c':
		res.out = errKind(w.Clear())
	case 'T':
		r.clock.Set(o.now)
		r.cp.set(o.commit)
		res.out = errKind(wal.VerifDoTrim(w))
	case 'r':
		if err := w.Close(); err != nil {
			res.out = errKind(err)
			break
		}
		res.out = errKind(r.open())
		w = r.w
	case 'R':
		// what a kill -9 leaves: the directory as it is now (the mapped files are MAP_SHARED, the copy sees every
		// appended byte), no Close, hence no index file for the current segment other than one written by an
		// earlier clean Close.  The next lifetime runs on the copy.
		newDir := strings.TrimSuffix(r.dir, "x")
		if newDir == r.dir {
			newDir = r.dir + "x"
		}
		os.RemoveAll(newDir)
		_, err := copyDir(wal.VerifWalPath(r.dir, "v", r.shard), wal.VerifWalPath(newDir, "v", r.shard))
		hx.Must(err)
		r.mute = true
		w.Close() // only to stop the goroutines of the abandoned WAL; what it writes goes to the abandoned directory
		os.RemoveAll(r.dir)
		r.mute = false
		opts := *r.opts
		opts.BaseWalDir = newDir
		r.dir, r.opts = newDir, &opts
		res.out = errKind(r.open())
		w = r.w
	case 'f':
		rd, err := w.NewReader(o.o)
		es, rdErr, openErr := drain(rd, err)
		if openErr != "" {
			res.out = openErr
		} else {
			res.ents, res.rdErr = es, rdErr
			res.out = fmtEnts(es, rdErr)
		}
	case 'F':
		rd, err := w.NewReader(max(w.FirstOffset()-1, -1))
		es, rdErr, openErr := drain(rd, err)
		if openErr != "" {
			res.out = openErr
		} else {
			res.ents, res.rdErr = es, rdErr
			res.out = fmtEnts(es, rdErr)
		}
	case 'b':
		rd, err := w.NewReverseReader()
		es, rdErr, openErr := drain(rd, err)
		if openErr != "" {
			res.out = openErr
		} else {
			res.ents, res.rdErr = es, rdErr
			res.out = fmtEnts(es, rdErr)
		}
	}
	res.first, res.last = w.FirstOffset(), w.LastOffset()
	return res
}

// runCase runs the sequence on a fresh WAL in dir.  An operation that does not return within the
// watchdog period is the outcome "hang"; the rest of the sequence is not run.
func runCase(c caseT, dir string, shard int64, line string) []implObs {
	os.RemoveAll(dir)
	os.RemoveAll(dir + "x")
	defer os.RemoveAll(dir + "x")
	h := fnv.New32a()
	h.Write([]byte(line))
	r := &runner{dir: dir, shard: shard, cp: &commitProvider{v: -1}, clock: &time2.MockedClock{},
		opts: &wal.FactoryOptions{BaseWalDir: dir, Retention: time.Duration(c.ret) * time.Millisecond,
			SegmentSize: c.seg, SyncData: h.Sum32()%4 == 0}}
	hx.Must(r.open())
	var mu sync.Mutex
	var obs []implObs
	done := make(chan struct{})
	go func() {
		defer close(done)
		for _, o := range c.ops {
			x := r.do(o)
			mu.Lock()
			obs = append(obs, x)
			mu.Unlock()
			if x.out == "err:panic" {
				return
			}
		}
		r.w.Close()
	}()
	select {
	case <-done:
	case <-time.After(10 * time.Second):
		hangs.Add(1)
	}
	mu.Lock()
	res := append([]implObs(nil), obs...)
	mu.Unlock()
	if len(res) < len(c.ops) && (len(res) == 0 || res[len(res)-1].out != "err:panic") {
		res = append(res, implObs{out: "err:hang", first: -9, last: -9})
	}
	os.RemoveAll(dir)
	return res
}

func fmtObs(xs []implObs) string {
	parts := make([]string, len(xs))
	for i, x := range xs {
		parts[i] = fmt.Sprintf("%s@%d,%d", x.out, x.first, x.last)
	}
	if len(parts) == 0 {
		return "-"
	}
	return strings.Join(parts, ";")
}

// ---------------------------------------------------------------- the list specification, judged directly

type specState struct {
	ents          []ent // retained entries, contiguous; ents[0] is the oldest one that may still be there
	first, synced int64
	lastMut       byte
	unfit         bool // an entry outside the domain (larger than a segment / empty record) was offered
}

func (s *specState) last() int64 {
	if len(s.ents) == 0 {
		return -1
	}
	return s.ents[len(s.ents)-1].off
}

func (s *specState) reset() { s.ents, s.first, s.synced = nil, -1, -1 }

func (s *specState) visible(lo int64) []ent {
	var res []ent
	for _, e := range s.ents {
		if e.off >= lo && e.off >= s.first && e.off <= s.synced {
			res = append(res, e)
		}
	}
	return res
}

func sameEnts(want []ent, got []rdEnt) (bool, string) {
	if len(want) != len(got) {
		return false, "range"
	}
	for i := range want {
		if want[i].off != got[i].off {
			return false, "range"
		}
		if want[i].term != got[i].term || want[i].ts != got[i].ts || want[i].pay != got[i].pay {
			return false, "entry"
		}
	}
	return true, ""
}

// judge compares one observable with the list specification; returns the signature of the
// contradiction ("" = none) and whether verdicts can go on after this op.
func (s *specState) judge(c caseT, o opT, x implObs) (sig string, detail string) {
	if s.unfit && (x.out == "err:io" || x.out == "err:data-corrupted" || x.out == "err:panic") {
		// known finding: after an entry that cannot fit a segment was offered twice in a row (or to an empty
		// segment) the read-only group lists a phantom segment; see Wal/Witness.v oversize_entry_wrecks_refuted
		return "oversize-entry:wal-unusable", fmt.Sprintf("%s after an entry larger than a segment was refused", x.out)
	}
	if x.out == "err:panic" {
		return "op:panic", "the operation panicked"
	}
	if x.out == "err:hang" {
		return "op:hang", "the operation did not return"
	}
	adopt := false
	switch o.kind {
	case 'a', 'A':
		fits := o.e.psize > 0 && o.e.psize+headerSize <= int(c.seg)
		validNext := o.e.off >= 0 && (len(s.ents) == 0 || o.e.off == s.last()+1)
		switch {
		case !fits:
			// outside the specified domain (entry that cannot fit a segment / empty record): must be refused, nothing changes
			if x.out == "ok" {
				return "append:unfit-entry-accepted", "entry accepted"
			}
			s.unfit = true
		case validNext && x.out != "ok":
			if s.lastMut == 't' {
				return "truncate:next-append-rejected", fmt.Sprintf("append at %d after a truncation to %d answered %s", o.e.off, s.last(), x.out)
			}
			return "append:valid-next-rejected", fmt.Sprintf("append at %d on a log ending at %d answered %s", o.e.off, s.last(), x.out)
		case !validNext && x.out == "ok":
			return "append:invalid-next-accepted", fmt.Sprintf("append at %d on a log ending at %d was accepted", o.e.off, s.last())
		case !validNext && x.out != "err:invalid-next" && x.out != "err:neg-offset":
			return "append:wrong-error", x.out
		case validNext:
			s.ents = append(s.ents, o.e)
			if s.first == -1 {
				s.first = o.e.off
			}
			if o.kind == 'A' {
				s.synced = s.last()
			}
			s.lastMut = 'a'
		}
	case 's':
		if x.out != "ok" {
			return "sync:error", x.out
		}
		s.synced = s.last()
	case 'c':
		if x.out != "ok" {
			return "clear:error", x.out
		}
		s.reset()
		s.lastMut = 'c'
	case 't':
		want := ""
		switch {
		case o.o == -1:
			s.reset()
			want = "tr:-1"
		case len(s.ents) == 0:
			want = "tr:-1"
		case o.o < s.first:
			s.reset()
			want = "tr:-1"
		case o.o > s.last():
			want = "err:out-of-bounds"
		default:
			s.ents = s.ents[:len(s.ents)-int(s.last()-o.o)]
			s.synced = o.o
			want = fmt.Sprintf("tr:%d", o.o)
		}
		if x.out != want {
			return "truncate:wrong-result", fmt.Sprintf("TruncateLog(%d) answered %s, the list says %s", o.o, x.out, want)
		}
		if x.last != s.synced || x.first != s.first {
			return "truncate:offsets-not-updated", fmt.Sprintf("after TruncateLog(%d)=%s first/last are %d/%d, the list says %d/%d", o.o, x.out, x.first, x.last, s.first, s.synced)
		}
		s.lastMut = 't'
	case 'T':
		if x.out != "ok" {
			return "trim:error", x.out
		}
		f := x.first
		switch {
		case f < s.first:
			return "trim:first-moved-backwards", fmt.Sprintf("first %d -> %d", s.first, f)
		case f > s.first && f > o.commit:
			return "trim:removed-above-commit", fmt.Sprintf("first %d -> %d with commit offset %d", s.first, f, o.commit)
		case f > s.first && f > s.synced:
			return "trim:removed-beyond-last", fmt.Sprintf("first %d -> %d with last %d", s.first, f, s.synced)
		}
		if f > s.first {
			mono := true
			for i := 1; i < len(s.ents); i++ {
				if s.ents[i].ts < s.ents[i-1].ts {
					mono = false
				}
			}
			for _, e := range s.ents {
				if mono && e.off >= s.first && e.off < f && int64(e.ts) > o.now-c.ret {
					return "trim:removed-unexpired", fmt.Sprintf("entry %d (ts %d) trimmed at now=%d retention=%d", e.off, e.ts, o.now, c.ret)
				}
			}
		}
		s.first = f
	case 'r', 'R':
		if x.out != "ok" {
			return "reopen:error", x.out
		}
		if len(s.ents) == 0 {
			if x.first != -1 || x.last != -1 {
				return "reopen:entries-from-nowhere", fmt.Sprintf("first/last %d/%d on an empty log", x.first, x.last)
			}
			break
		}
		if x.last != s.last() {
			return "reopen:lost-entries", fmt.Sprintf("last offset %d after reopen, the list ends at %d", x.last, s.last())
		}
		if x.first < s.ents[0].off || x.first > s.first {
			return "reopen:first-out-of-range", fmt.Sprintf("first offset %d after reopen, was %d, oldest retained %d", x.first, s.first, s.ents[0].off)
		}
		s.ents = s.ents[x.first-s.ents[0].off:]
		s.first = x.first
		s.synced = s.last()
	case 'f', 'b', 'F':
		pfx := "read"
		var want []ent
		if o.kind == 'F' {
			o.o = max(s.first-1, -1)
		}
		if o.kind != 'b' {
			if o.o+1 < s.first {
				if x.out != "err:entry-not-found" {
					return "read:below-first-not-refused", x.out[:min(len(x.out), 80)]
				}
				break
			}
			want = s.visible(o.o + 1)
		} else {
			pfx = "read-reverse"
			if s.first != -1 {
				v := s.visible(s.first)
				for i := len(v) - 1; i >= 0; i-- {
					want = append(want, v[i])
				}
			}
		}
		if !strings.HasPrefix(x.out, "rd:") {
			return pfx + ":error", x.out
		}
		if x.rdErr != "" {
			return pfx + ":error", fmt.Sprintf("after %d entries: %s", len(x.ents), x.rdErr)
		}
		if ok, what := sameEnts(want, x.ents); !ok {
			if what == "entry" {
				return pfx + ":entry-mismatch", fmt.Sprintf("read %.200s", x.out)
			}
			return pfx + ":wrong-range", fmt.Sprintf("want %d entries from %d, read %.200s", len(want), o.o+1, x.out)
		}
	}
	_ = adopt
	if x.first != s.first {
		return "offsets:first-mismatch", fmt.Sprintf("FirstOffset %d, the list says %d", x.first, s.first)
	}
	if x.last != s.synced {
		return "offsets:last-mismatch", fmt.Sprintf("LastOffset %d, the list says %d", x.last, s.synced)
	}
	return "", ""
}

// ---------------------------------------------------------------- generator

// gen mirrors just enough of the segment layout to aim record ends and truncation targets at
// segment boundaries; it is a generator heuristic only (nothing is judged with it).
type gen struct {
	r      *hx.Rng
	seg    int
	sizes  []int   // record sizes of the live entries
	offs   []int64 // their offsets
	starts []bool  // entry starts a segment
	fo     int     // bytes used in the current segment
	first  int64
	synced int64
	term   int64
	ts     uint64
	mono   bool
	// the next append must not fit what is left of the current segment (rollover as the first append of a lifetime)
	forceRoll bool
}

func (g *gen) last() int64 {
	if len(g.offs) == 0 {
		return -1
	}
	return g.offs[len(g.offs)-1]
}

func (g *gen) reset() {
	g.sizes, g.offs, g.starts, g.fo, g.first, g.synced = nil, nil, nil, 0, -1, -1
}

// value length whose record ends as close as possible to `target` bytes of record size
func (g *gen) vlenFor(e ent, target int) int {
	e.vlen = 0
	base := psizeOf(e) + headerSize
	want := target - base
	if want <= 0 {
		return 0
	}
	for _, hdr := range []int{2, 3, 4} { // tag + varint length
		l := want - hdr
		if l >= 1 {
			e.vlen = l
			e.pay = 0
			if psizeOf(e)+headerSize == target {
				return l
			}
		}
	}
	if want-2 >= 1 {
		return want - 2
	}
	return 0
}

func (g *gen) mkAppend(o int64, oversize bool) opT {
	r := g.r
	if r.Chance(15) {
		g.term += int64(r.Intn(3))
	}
	if g.mono {
		g.ts += uint64(r.Intn(4))
	} else {
		g.ts = uint64(1000 + r.Intn(60))
	}
	e := ent{term: g.term, off: o, ts: g.ts}
	room := g.seg - g.fo
	maxRec := g.seg
	switch {
	case oversize:
		e.vlen = g.seg + r.Intn(20)
	case g.forceRoll && g.fo > 0:
		e.vlen = g.vlenFor(e, min(g.seg, room+1+r.Intn(6)))
	case r.Chance(35): // aim at the boundary of the current segment: ends on it, one before, one after
		e.vlen = g.vlenFor(e, room+hx.Pick(r, []int{0, 0, -1, 1, -2, 2}))
	case r.Chance(15): // aim at filling a fresh segment exactly / almost
		e.vlen = g.vlenFor(e, maxRec+hx.Pick(r, []int{0, -1, -2}))
	case r.Chance(50):
		e.vlen = r.Intn(12)
	default:
		e.vlen = r.Intn(max(1, min(g.seg/2, 300)))
	}
	e.pay = r.U64() % maxID(e.vlen)
	e.psize = psizeOf(e)
	if !oversize && e.psize+headerSize > g.seg { // keep it inside the domain
		e.vlen = g.vlenFor(e, g.seg)
		e.pay = r.U64() % maxID(e.vlen)
		e.psize = psizeOf(e)
		for e.psize+headerSize > g.seg && e.vlen > 0 {
			e.vlen--
			e.pay = e.pay % maxID(e.vlen)
			e.psize = psizeOf(e)
		}
	}
	k := byte('A')
	if r.Chance(30) && !g.forceRoll {
		k = 'a'
	}
	g.forceRoll = false
	return opT{kind: k, e: e}
}

// note records what a successful append does to the layout
func (g *gen) note(o opT) {
	rs := o.e.psize + headerSize
	start := false
	if len(g.offs) == 0 || g.fo+rs > g.seg {
		start = true
		g.fo = 0
	}
	g.fo += rs
	g.sizes = append(g.sizes, rs)
	g.offs = append(g.offs, o.e.off)
	g.starts = append(g.starts, start)
	if g.first == -1 {
		g.first = o.e.off
	}
	if o.kind == 'A' {
		g.synced = o.e.off
	}
}

func (g *gen) truncateTo(t int64) {
	if t == -1 || len(g.offs) == 0 && true {
		if t == -1 {
			g.reset()
		}
		return
	}
	if t < g.first {
		g.reset()
		return
	}
	if t > g.last() {
		return
	}
	n := len(g.offs) - int(g.last()-t)
	g.sizes, g.offs, g.starts = g.sizes[:n], g.offs[:n], g.starts[:n]
	g.fo = 0
	for i := n - 1; i >= 0; i-- {
		g.fo += g.sizes[i]
		if g.starts[i] {
			break
		}
	}
	g.synced = t
}

// offsets at which a segment starts (of the live entries)
func (g *gen) boundaries() []int64 {
	var b []int64
	for i, s := range g.starts {
		if s {
			b = append(b, g.offs[i])
		}
	}
	return b
}

func genCase(r *hx.Rng, o *hx.Out) caseT {
	seg := hx.Pick(r, []int{128, 128, 128, 256, 256, 1024, 1024, 64, 96, 65536})
	c := caseT{seg: int32(seg), ret: int64(hx.Pick(r, []int{1, 5, 20, 100}))}
	g := &gen{r: r, seg: seg, term: int64(r.Intn(3)), ts: uint64(1000 + r.Intn(5)), mono: !r.Chance(15)}
	g.reset()
	nops := 30 + r.Intn(31)
	prevAppendOK := false
	for len(c.ops) < nops {
		p := r.Intn(100)
		okAppend := false
		switch {
		case p < 56:
			// append
			next := g.last() + 1
			if len(g.offs) == 0 {
				next = 0
				if r.Chance(30) {
					next = int64(1 + r.Intn(40))
				}
			}
			valid := true
			if r.Chance(7) {
				valid = false
				next = hx.Pick(r, []int64{g.last(), g.last() + 2, -1, 0, g.last() + 1 + int64(r.Intn(5)), -3})
				valid = next >= 0 && (len(g.offs) == 0 || next == g.last()+1)
			}
			oversize := prevAppendOK && r.Chance(2) && !noUnfit
			op := g.mkAppend(next, oversize)
			if op.e.psize == 0 || op.e.psize+headerSize > seg {
				valid = false
				if op.e.psize == 0 {
					o.Count("op:append-empty-record")
				} else {
					o.Count("op:append-oversize")
				}
			}
			c.ops = append(c.ops, op)
			if valid {
				before := len(g.boundaries())
				endExact := g.fo+op.e.psize+headerSize == seg
				g.note(op)
				okAppend = true
				if len(g.boundaries()) > before && len(g.offs) > 1 {
					o.Count("append:rollover")
				}
				if endExact {
					o.Count("append:record-ends-exactly-at-segment-end")
				}
			} else {
				o.Count("op:append-to-be-refused")
			}
		case p < 61:
			c.ops = append(c.ops, opT{kind: 's'})
			g.synced = g.last()
		case p < 70:
			// truncate: around segment boundaries, first, last
			var cands []int64
			for _, b := range g.boundaries() {
				cands = append(cands, b, b-1, b+1)
			}
			cands = append(cands, g.last(), g.last()-1, g.first, g.first-1, g.last()+1, -1, g.last()-int64(r.Intn(12)))
			t := hx.Pick(r, cands)
			if r.Chance(85) && len(g.offs) > 0 && (t < g.first || t > g.last()) { // mostly inside the log
				t = g.first + int64(r.Intn(int(g.last()-g.first+1)))
			}
			if t < -1 {
				t = -1
			}
			if len(g.offs) > 0 && t >= g.first && t <= g.last() {
				cur := int64(-1)
				for _, b := range g.boundaries() {
					cur = b
				}
				switch {
				case t < cur:
					o.Count("truncate:into-read-only-segment")
					for _, b := range g.boundaries() {
						if t == b {
							o.Count("truncate:target-is-first-of-a-segment")
						}
						if t == b-1 {
							o.Count("truncate:target-is-last-of-a-segment")
						}
					}
				default:
					o.Count("truncate:inside-current-segment")
				}
			} else {
				o.Count("truncate:outside-the-log")
			}
			c.ops = append(c.ops, opT{kind: 't', o: t})
			g.truncateTo(t)
		case p < 72:
			c.ops = append(c.ops, opT{kind: 'c'})
			g.reset()
		case p < 81:
			// trimmer round: cutoff around an entry's timestamp, commit around everything
			now := int64(g.ts) + c.ret + int64(r.Intn(5)) - 2
			if r.Chance(30) {
				now = int64(1000+r.Intn(int(g.ts)-1000+8)) + c.ret
			}
			commit := hx.Pick(r, []int64{g.last(), g.last() + 5, g.first, g.first + 1, -1, g.synced, g.synced - 1,
				g.first + int64(r.Intn(int(max(1, g.last()-g.first+1))))})
			for _, b := range g.boundaries() {
				if r.Chance(20) {
					commit = b + int64(r.Intn(3)) - 1
				}
			}
			c.ops = append(c.ops, opT{kind: 'T', now: now, commit: commit})
		case p < 87:
			// a new process lifetime: clean restart or crash; state left on disk by one lifetime (index files of the
			// current segment, stale segments) is consumed by the next ones
			if r.Chance(40) {
				// chain: clean restart, a few small synced appends into the same segment (optionally a truncation),
				// crash, and a first append that does not fit: the segment is finalised with nothing appended in between
				c.ops = append(c.ops, opT{kind: 'r'})
				g.synced = g.last()
				o.Count("lifetimes:chain")
				for k := 1 + r.Intn(3); k > 0 && len(g.offs) > 0; k-- {
					e := ent{term: g.term, off: g.last() + 1, ts: g.ts, vlen: r.Intn(6)}
					e.pay = r.U64() % maxID(e.vlen)
					e.psize = psizeOf(e)
					if e.psize+headerSize > seg {
						break
					}
					op := opT{kind: 'A', e: e}
					c.ops = append(c.ops, op)
					g.note(op)
				}
				if r.Chance(30) && len(g.offs) > 1 {
					t := g.last() - int64(1+r.Intn(2))
					if t >= g.first {
						c.ops = append(c.ops, opT{kind: 't', o: t})
						g.truncateTo(t)
						o.Count("lifetimes:truncate-before-crash")
					}
				}
				c.ops = append(c.ops, opT{kind: hx.Pick(r, []byte{'R', 'R', 'R', 'r'})})
				g.synced = g.last()
				if len(g.offs) > 0 && r.Chance(75) {
					g.forceRoll = true
					op := g.mkAppend(g.last()+1, false)
					c.ops = append(c.ops, op)
					if op.e.psize+headerSize <= seg {
						g.note(op)
						o.Count("lifetimes:first-append-of-a-lifetime-rolls-over")
					}
				}
				c.ops = append(c.ops, opT{kind: 'F'}, opT{kind: 'b'})
				if r.Chance(40) {
					c.ops = append(c.ops, opT{kind: hx.Pick(r, []byte{'r', 'R'})}, opT{kind: 'F'})
				}
				break
			}
			c.ops = append(c.ops, opT{kind: hx.Pick(r, []byte{'r', 'r', 'R'})})
			g.synced = g.last()
		case p < 94:
			after := g.first - 1
			if r.Chance(50) {
				after = hx.Pick(r, []int64{-1, g.first - 2, g.first, g.last() - 1, g.last(), g.last() + 1, g.first + int64(r.Intn(20))})
			}
			if after < -1 {
				after = -1
			}
			c.ops = append(c.ops, opT{kind: 'f', o: after})
		default:
			c.ops = append(c.ops, opT{kind: 'b'})
		}
		prevAppendOK = okAppend
		if len(c.ops)%9 == 0 {
			c.ops = append(c.ops, opT{kind: 'F'}, opT{kind: 'b'})
		}
	}
	c.ops = append(c.ops, opT{kind: 'F'}, opT{kind: 'b'}, opT{kind: 'r'}, opT{kind: 'F'}, opT{kind: 'b'})
	return c
}

// the generator's idea of "first" is only approximate after trims/reopen (it does not run the WAL):
// full reads use the op F, which starts at the first offset the WAL reports at run time.

// ---------------------------------------------------------------- main

type job struct {
	kind string
	c    caseT
	line string
	obs  []implObs
	ran  bool
}

// number of sequences that hit the watchdog; after a few of them the remaining sequences are not run
// (a hanging operation leaves its goroutine behind, and every further hang costs the whole watchdog period)
var hangs atomic.Int32

func main() {
	f := hx.ParseFlags()
	o := hx.NewOut(f.OutDir)
	defer o.Close()
	if *mode == "crash" {
		crashMain(f, o)
		return
	}
	r := hx.NewRng(f.Seed)
	tmp := os.Getenv("VERIF_TMP")
	if tmp == "" {
		tmp = "/var/tmp"
	}
	root, err := os.MkdirTemp(tmp, "walh-")
	hx.Must(err)
	defer os.RemoveAll(root)

	var jobs []*job
	replay := hx.CorpusLines(f.Corpus)
	if f.Replay != "" {
		replay = hx.ReadLines(f.Replay)
	}
	for _, l := range replay {
		t := strings.Fields(l)
		if len(t) != 5 || (t[0] != "seq" && t[0] != "seqold") {
			continue
		}
		c := parseCase(t[2:])
		jobs = append(jobs, &job{kind: "seq", c: c, line: c.line()})
	}
	if f.Replay == "" {
		for i := 0; i < f.N; i++ {
			c := genCase(r.Fork(), o)
			jobs = append(jobs, &job{kind: "seq", c: c, line: c.line()})
		}
	}

	// check the codec header size the model assumes
	{
		d := filepath.Join(root, "probe")
		w, err := wal.VerifNewWal("v", 0, &wal.FactoryOptions{BaseWalDir: d, Retention: time.Hour, SegmentSize: 1024}, &commitProvider{}, &time2.MockedClock{})
		hx.Must(err)
		if hs := wal.VerifHeaderSize(w); hs != headerSize {
			panic(fmt.Sprintf("codec header size is %d, the model assumes %d", hs, headerSize))
		}
		w.Close()
		os.RemoveAll(d)
	}

	workers := 8
	var wg sync.WaitGroup
	ch := make(chan int)
	for k := 0; k < workers; k++ {
		wg.Add(1)
		go func(k int) {
			defer wg.Done()
			dir := filepath.Join(root, fmt.Sprintf("w%d", k))
			for i := range ch {
				if hangs.Load() >= 3 {
					continue
				}
				jobs[i].obs = runCase(jobs[i].c, dir, int64(k+1), jobs[i].line)
				jobs[i].ran = true
			}
		}(k)
	}
	for i := range jobs {
		ch <- i
	}
	close(ch)
	wg.Wait()

	for _, j := range jobs {
		if !j.ran {
			o.Count("not-run-after-repeated-hangs")
			continue
		}
		// non-trivial: the sequence has a rollover and a truncation or trim or reopen after it
		o.Case(j.kind, j.line, fmtObs(j.obs), j.line)
		s := &specState{}
		s.reset()
		o.CountN("ops", len(j.c.ops))
		for i, x := range j.obs {
			if i >= len(j.c.ops) {
				break
			}
			op := j.c.ops[i]
			o.Count("op:" + map[byte]string{'a': "append-async", 'A': "append", 's': "sync", 't': "truncate", 'c': "clear",
				'T': "trim", 'r': "reopen", 'R': "crash-reopen", 'f': "read-forward", 'F': "read-forward-all", 'b': "read-reverse"}[op.kind])
			before := s.first
			sig, det := s.judge(j.c, op, x)
			if op.kind == 'T' && sig == "" && s.first > before {
				o.Count("trim:moved-first")
			}
			if op.kind == 'r' && sig == "" && s.first < before {
				o.Count("reopen:lowered-first")
			}
			if sig != "" {
				parts := make([]string, i+1)
				for k := 0; k <= i; k++ {
					parts[k] = j.c.ops[k].String()
				}
				o.Violation(sig, fmt.Sprintf("seg_size=%d retention=%dms op #%d %s: %s | replay: seq 0 %d %d %s",
					j.c.seg, j.c.ret, i, op.String(), det, j.c.seg, j.c.ret, strings.Join(parts, ";")))
				break
			}
		}
	}
}
