// harness kvengine (C11, engine-coherence leg): real on-disk Pebble through kv.NewPebbleKVFactory / kv.KV
// (the comparer under test is kv.OxiaSlashSpanComparer).  A case is one data set: batches of puts, deletes,
// range deletes, interleaved Flush / manual compaction / close+reopen, and read phases in which EVERY live key
// is fetched by exact Get and floor / ceiling / lower / higher / range scans / reverse scans / batch reads
// are issued at stored keys, between them and at the extremes.  Every answer is compared
//
//	(a) inside the harness with an independent sorted reference (segment order written from the spec), and
//	(b) by ./check with the extracted Coq SortedMap + kv wrappers model (same op line).
package main

import (
	"bytes"
	"encoding/binary"
	"errors"
	"flag"
	"fmt"
	"os"
	"sort"
	"strconv"
	"strings"
	"sync/atomic"
	"time"

	"github.com/oxia-db/oxia/server/kv"

	"verif/harness/internal/hx"
)

var alphabet = []byte{'.', '/', '0', '-', 'a', 'b', 0x00, 0x01, 0xfe, 0xff, '%'}

// specCompare: the specification order, independent of compare.CompareWithSlash (see harness keyorder).
func specCompare(a, b []byte) int {
	sa, sb := bytes.Split(a, []byte{'/'}), bytes.Split(b, []byte{'/'})
	for i := 0; ; i++ {
		fa, fb := i < len(sa)-1, i < len(sb)-1
		if fa != fb {
			if !fa {
				return -1
			}
			return 1
		}
		if c := bytes.Compare(sa[i], sb[i]); c != 0 {
			return c
		}
		if !fa {
			return 0
		}
	}
}

func less(a, b string) bool { return specCompare([]byte(a), []byte(b)) < 0 }

// ---------------------------------------------------------------- values

func mix(x uint64) uint64 {
	x += 0x9E3779B97F4A7C15
	x = (x ^ (x >> 30)) * 0xBF58476D1CE4E5B9
	x = (x ^ (x >> 27)) * 0x94D049BB133111EB
	return x ^ (x >> 31)
}

// value of a tag: 8 bytes tag, then filler derived from the tag; the length is a function of the tag too.
func makeValue(tag uint64, vmin, vmax int) []byte {
	n := vmin
	if vmax > vmin {
		n += int(mix(tag) % uint64(vmax-vmin))
	}
	if n < 8 {
		n = 8
	}
	v := make([]byte, n)
	binary.BigEndian.PutUint64(v, tag)
	s := mix(tag ^ 0xabcdef)
	for i := 8; i < n; i++ {
		if i%8 == 0 {
			s = mix(s)
		}
		v[i] = byte(s >> (8 * uint(i%8)))
	}
	return v
}

func tagOf(v []byte, vmin, vmax int) string {
	if len(v) < 8 {
		return "corrupt"
	}
	tag := binary.BigEndian.Uint64(v)
	if !bytes.Equal(v, makeValue(tag, vmin, vmax)) {
		return "corrupt"
	}
	return strconv.FormatUint(tag, 10)
}

// ---------------------------------------------------------------- the reference

type ref struct {
	m      map[string]uint64
	sorted []string
	dirty  bool
}

func newRef() *ref { return &ref{m: map[string]uint64{}} }
func (r *ref) clone() *ref {
	c := newRef()
	for k, v := range r.m {
		c.m[k] = v
	}
	c.dirty = true
	return c
}
func (r *ref) put(k string, t uint64) {
	if _, ok := r.m[k]; !ok {
		r.dirty = true
	}
	r.m[k] = t
}
func (r *ref) del(k string) {
	if _, ok := r.m[k]; ok {
		r.dirty = true
		delete(r.m, k)
	}
}
func (r *ref) delRange(lo, hi string) {
	if !less(lo, hi) {
		return
	}
	for k := range r.m {
		if !less(k, lo) && less(k, hi) {
			delete(r.m, k)
			r.dirty = true
		}
	}
}
func (r *ref) keys() []string {
	if r.dirty || r.sorted == nil {
		r.sorted = r.sorted[:0]
		for k := range r.m {
			r.sorted = append(r.sorted, k)
		}
		sort.Slice(r.sorted, func(i, j int) bool { return less(r.sorted[i], r.sorted[j]) })
		r.dirty = false
	}
	return r.sorted
}

// index of the first key >= k
func (r *ref) lowerBound(k string) int {
	ks := r.keys()
	return sort.Search(len(ks), func(i int) bool { return !less(ks[i], k) })
}
func (r *ref) entry(i int) string {
	ks := r.keys()
	if i < 0 || i >= len(ks) {
		return "nf"
	}
	return hx.Hex([]byte(ks[i])) + "=" + strconv.FormatUint(r.m[ks[i]], 10)
}
func (r *ref) get(k string) string {
	if t, ok := r.m[k]; ok {
		return strconv.FormatUint(t, 10)
	}
	return "nf"
}
func (r *ref) ceiling(k string) string { return r.entry(r.lowerBound(k)) }
func (r *ref) lower(k string) string   { return r.entry(r.lowerBound(k) - 1) }
func (r *ref) floor(k string) string {
	if _, ok := r.m[k]; ok {
		return hx.Hex([]byte(k)) + "=" + r.get(k)
	}
	return r.lower(k)
}
func (r *ref) higher(k string) string {
	i := r.lowerBound(k)
	if _, ok := r.m[k]; ok {
		i++
	}
	return r.entry(i)
}

// range [lo,hi); "" = unbounded when emptyUnbounded
func (r *ref) scan(lo, hi string, emptyUnbounded bool) []string {
	ks := r.keys()
	i := 0
	if !(emptyUnbounded && lo == "") {
		i = r.lowerBound(lo)
	}
	j := len(ks)
	if !(emptyUnbounded && hi == "") {
		j = r.lowerBound(hi)
	}
	if j < i {
		j = i
	}
	return ks[i:j]
}
func (r *ref) fmtScan(ks []string, withTags bool) string {
	var sb strings.Builder
	sb.WriteString(strconv.Itoa(len(ks)))
	sb.WriteByte(':')
	for i, k := range ks {
		if i > 0 {
			sb.WriteByte(',')
		}
		sb.WriteString(hx.Hex([]byte(k)))
		if withTags {
			sb.WriteByte('=')
			sb.WriteString(strconv.FormatUint(r.m[k], 10))
		}
	}
	return sb.String()
}

// ---------------------------------------------------------------- running a case on the real engine

type pend struct {
	kind  byte // P D X
	k, k2 string
	tag   uint64
}

type runner struct {
	o          *hx.Out
	dir        string
	factory    kv.Factory
	kv         kv.KV
	ref        *ref
	batch      kv.WriteBatch
	pending    []pend
	vmin, vmax int
	out        []string
	nviol      int
	desc       string // short description of the data set for violation messages
	flushed    bool
	maxFiles   int64
}

func (rn *runner) viol(sig, detail string) {
	rn.nviol++
	if rn.nviol <= 6 {
		rn.o.Violation(sig, rn.desc+": "+detail)
	}
}

func (rn *runner) open() error {
	k, err := rn.factory.NewKV("verif", 1)
	if err != nil {
		return err
	}
	rn.kv = k
	return nil
}

func (rn *runner) phase() string {
	if rn.flushed {
		return "after-flush"
	}
	return "memtable-only"
}

func (rn *runner) point(ct kv.ComparisonType, key string) string {
	rk, v, closer, err := rn.kv.Get(key, ct)
	if errors.Is(err, kv.ErrKeyNotFound) {
		return "nf"
	}
	if err != nil {
		rn.viol("engine:read-error", fmt.Sprintf("Get(%q,%d): %v", key, ct, err))
		return "err"
	}
	t := tagOf(v, rn.vmin, rn.vmax)
	_ = closer.Close()
	if ct == kv.ComparisonEqual {
		return t
	}
	return hx.Hex([]byte(rk)) + "=" + t
}

func (rn *runner) batchView() *ref {
	v := rn.ref.clone()
	for _, p := range rn.pending {
		switch p.kind {
		case 'P':
			v.put(p.k, p.tag)
		case 'D':
			v.del(p.k)
		case 'X':
			v.delRange(p.k, p.k2)
		}
	}
	return v
}

func unhexS(s string) string { return string(hx.UnHex(s)) }

func (rn *runner) collect(it kv.KeyValueIterator) string {
	var sb strings.Builder
	n := 0
	for ; it.Valid(); it.Next() {
		if n > 0 {
			sb.WriteByte(',')
		}
		n++
		sb.WriteString(hx.Hex([]byte(it.Key())))
		sb.WriteByte('=')
		v, err := it.Value()
		if err != nil {
			sb.WriteString("err")
		} else {
			sb.WriteString(tagOf(v, rn.vmin, rn.vmax))
		}
	}
	_ = it.Close()
	return strconv.Itoa(n) + ":" + sb.String()
}

func short(s string) string {
	if len(s) > 300 {
		return s[:300] + "..."
	}
	return s
}

// op executes one op; read ops append their observable to rn.out and are checked against the reference.
func (rn *runner) op(op string) error {
	t := strings.Split(op, ":")
	emit := func(got, want, sig, what string) {
		rn.out = append(rn.out, got)
		if got != want {
			rn.viol(sig, fmt.Sprintf("%s (%s) returned %s, the sorted reference says %s", what, rn.phase(), short(got), short(want)))
		}
	}
	switch t[0] {
	case "V":
		rn.vmin, _ = strconv.Atoi(t[1])
		rn.vmax, _ = strconv.Atoi(t[2])
	case "B":
		rn.batch = rn.kv.NewWriteBatch()
		rn.pending = rn.pending[:0]
	case "P":
		k := unhexS(t[1])
		tag, _ := strconv.ParseUint(t[2], 10, 64)
		if err := rn.batch.Put(k, makeValue(tag, rn.vmin, rn.vmax)); err != nil {
			return err
		}
		rn.pending = append(rn.pending, pend{'P', k, "", tag})
	case "D":
		k := unhexS(t[1])
		if err := rn.batch.Delete(k); err != nil {
			return err
		}
		rn.pending = append(rn.pending, pend{'D', k, "", 0})
	case "X":
		lo, hi := unhexS(t[1]), unhexS(t[2])
		if err := rn.batch.DeleteRange(lo, hi); err != nil {
			return err
		}
		rn.pending = append(rn.pending, pend{'X', lo, hi, 0})
	case "K":
		if err := rn.batch.Commit(); err != nil {
			return err
		}
		if err := rn.batch.Close(); err != nil {
			return err
		}
		rn.batch = nil
		for _, p := range rn.pending {
			switch p.kind {
			case 'P':
				rn.ref.put(p.k, p.tag)
			case 'D':
				rn.ref.del(p.k)
			case 'X':
				rn.ref.delRange(p.k, p.k2)
			}
		}
		rn.pending = rn.pending[:0]
	case "A":
		err := rn.batch.Close()
		rn.batch = nil
		rn.pending = rn.pending[:0]
		return err
	case "F":
		rn.flushed = true
		rn.o.Count("op:flush")
		return rn.kv.Flush()
	case "C":
		rn.flushed = true
		rn.o.Count("op:compact")
		if err := rn.kv.Flush(); err != nil {
			return err
		}
		return kv.VerifCompact(rn.kv)
	case "R":
		rn.flushed = true
		rn.o.Count("op:reopen")
		rn.noteFiles()
		if err := rn.kv.Close(); err != nil {
			return err
		}
		return rn.open()
	case "g":
		k := unhexS(t[1])
		got, want := rn.point(kv.ComparisonEqual, k), rn.ref.get(k)
		sig := "get:wrong-value"
		switch {
		case got == "nf" && want != "nf":
			sig = "get:stored-key-not-found"
		case got != "nf" && want == "nf":
			sig = "get:absent-key-found"
		}
		emit(got, want, sig, fmt.Sprintf("exact Get(%q)", k))
	case "f":
		k := unhexS(t[1])
		emit(rn.point(kv.ComparisonFloor, k), rn.ref.floor(k), "floor:differs-from-reference", fmt.Sprintf("Get(%q, FLOOR)", k))
	case "c":
		k := unhexS(t[1])
		emit(rn.point(kv.ComparisonCeiling, k), rn.ref.ceiling(k), "ceiling:differs-from-reference", fmt.Sprintf("Get(%q, CEILING)", k))
	case "l":
		k := unhexS(t[1])
		emit(rn.point(kv.ComparisonLower, k), rn.ref.lower(k), "lower:differs-from-reference", fmt.Sprintf("Get(%q, LOWER)", k))
	case "h":
		k := unhexS(t[1])
		emit(rn.point(kv.ComparisonHigher, k), rn.ref.higher(k), "higher:differs-from-reference", fmt.Sprintf("Get(%q, HIGHER)", k))
	case "s":
		lo, hi := unhexS(t[1]), unhexS(t[2])
		it, err := rn.kv.RangeScan(lo, hi)
		if err != nil {
			return err
		}
		emit(rn.collect(it), rn.ref.fmtScan(rn.ref.scan(lo, hi, true), true), "scan:differs-from-reference", fmt.Sprintf("RangeScan(%q,%q)", lo, hi))
	case "r":
		lo, hi := unhexS(t[1]), unhexS(t[2])
		it, err := rn.kv.KeyRangeScanReverse(lo, hi)
		if err != nil {
			return err
		}
		var ks []string
		for ; it.Valid(); it.Prev() {
			ks = append(ks, it.Key())
		}
		_ = it.Close()
		want := append([]string(nil), rn.ref.scan(lo, hi, true)...)
		for i, j := 0, len(want)-1; i < j; i, j = i+1, j-1 {
			want[i], want[j] = want[j], want[i]
		}
		emit(rn.ref.fmtScan(ks, false), rn.ref.fmtScan(want, false), "rscan:differs-from-reference", fmt.Sprintf("KeyRangeScanReverse(%q,%q)", lo, hi))
	case "bg":
		k := unhexS(t[1])
		v, closer, err := rn.batch.Get(k)
		got := "nf"
		if err == nil {
			got = tagOf(v, rn.vmin, rn.vmax)
			_ = closer.Close()
		} else if !errors.Is(err, kv.ErrKeyNotFound) {
			return err
		}
		emit(got, rn.batchView().get(k), "batch-get:differs-from-reference", fmt.Sprintf("WriteBatch.Get(%q) with %d pending writes", k, len(rn.pending)))
	case "bl":
		k := unhexS(t[1])
		lk, err := rn.batch.FindLower(k)
		got := "nf"
		if err == nil {
			got = hx.Hex([]byte(lk))
		} else if !errors.Is(err, kv.ErrKeyNotFound) {
			return err
		}
		want := rn.batchView().lower(k)
		if i := strings.IndexByte(want, '='); i >= 0 {
			want = want[:i]
		}
		emit(got, want, "batch-findlower:differs-from-reference", fmt.Sprintf("WriteBatch.FindLower(%q) with %d pending writes", k, len(rn.pending)))
	case "bs":
		lo, hi := unhexS(t[1]), unhexS(t[2])
		it, err := rn.batch.RangeScan(lo, hi)
		if err != nil {
			return err
		}
		v := rn.batchView()
		emit(rn.collect(it), v.fmtScan(v.scan(lo, hi, false), true), "batch-scan:differs-from-reference", fmt.Sprintf("WriteBatch.RangeScan(%q,%q) with %d pending writes", lo, hi, len(rn.pending)))
	case "":
	default:
		return fmt.Errorf("unknown op %q", op)
	}
	return nil
}

func (rn *runner) noteFiles() {
	var n int64
	for _, c := range kv.VerifLevelFiles(rn.kv) {
		n += c
	}
	if n > rn.maxFiles {
		rn.maxFiles = n
	}
}

// runCase executes the op line on a fresh on-disk engine and returns the canonical observable.
func doCase(o *hx.Out, ops []string, desc string, progress *atomic.Int64) (result string) {
	base := os.Getenv("VERIF_TMP")
	if base == "" {
		base = "/var/tmp"
	}
	dir, err := os.MkdirTemp(base, "c11-kvengine-")
	hx.Must(err)
	curDir = dir
	defer os.RemoveAll(dir)
	rn := &runner{o: o, dir: dir, ref: newRef(), vmin: 100, vmax: 2000, desc: desc}
	defer func() {
		if r := recover(); r != nil {
			o.Violation("engine:panic", fmt.Sprintf("%s: %v", desc, r))
			result = "panic"
		}
	}()
	rn.factory, err = kv.NewPebbleKVFactory(&kv.FactoryOptions{DataDir: dir, CacheSizeMB: 8, InMemory: false})
	hx.Must(err)
	defer rn.factory.Close()
	hx.Must(rn.open())
	defer func() {
		if rn.batch != nil {
			_ = rn.batch.Close()
		}
		rn.noteFiles()
		o.CountN("sstables-at-end(sum over data sets)", int(rn.maxFiles))
		_ = rn.kv.Close()
	}()
	for i, op := range ops {
		progress.Store(int64(i))
		if err := rn.op(op); err != nil {
			o.Violation("engine:error", fmt.Sprintf("%s: op %s: %v", desc, short(op), err))
			return "err"
		}
	}
	o.CountN("reads-checked-against-reference", len(rn.out))
	if len(rn.out) == 0 {
		return "-"
	}
	return strings.Join(rn.out, ";")
}

// hung is set when a case did not finish: a goroutine is still spinning inside the engine, so the run stops there.
var hung bool

// curDir is the data directory of the case being run (removed by main when the case hung).
var curDir string

// caseTimeout bounds one data set (a broken comparer can make Pebble's iterators loop forever).
var caseTimeout = 40 * time.Second

// runCase runs doCase under a watchdog.
func runCase(o *hx.Out, ops []string, desc string) string {
	var progress atomic.Int64
	done := make(chan string, 1)
	go func() { done <- doCase(o, ops, desc, &progress) }()
	select {
	case res := <-done:
		return res
	case <-time.After(caseTimeout):
		hung = true
		i := int(progress.Load())
		from := i - 3
		if from < 0 {
			from = 0
		}
		o.Violation("engine:hang", fmt.Sprintf("%s: op #%d %s did not return within %s (preceding ops: %s)",
			desc, i, short(ops[i]), caseTimeout, short(strings.Join(ops[from:i], ";"))))
		return "hang"
	}
}

// ---------------------------------------------------------------- generation of data sets

type gen struct {
	r    *hx.Rng
	ops  []string
	live map[string]bool
	all  []string // every key ever written (live or deleted), for probes
	tag  uint64
}

func (g *gen) key() string {
	r := g.r
	for {
		var k []byte
		if len(g.all) > 0 && r.Chance(45) {
			// neighbour of an existing key: shared prefix, then the bytes around '/'
			p := []byte(g.all[r.Intn(len(g.all))])
			p = p[:r.Intn(len(p)+1)]
			k = append(k, p...)
			n := 1 + r.Intn(3)
			for i := 0; i < n; i++ {
				k = append(k, hx.Pick(r, alphabet))
			}
		} else {
			n := 1 + r.Intn(7)
			for i := 0; i < n; i++ {
				k = append(k, hx.Pick(r, alphabet))
			}
		}
		if len(k) > 0 && len(k) <= 14 {
			return string(k)
		}
	}
}

func hexs(s string) string { return hx.Hex([]byte(s)) }

func (g *gen) add(op string) { g.ops = append(g.ops, op) }

func (g *gen) liveKeys() []string {
	ks := make([]string, 0, len(g.live))
	for k := range g.live {
		ks = append(ks, k)
	}
	sort.Strings(ks) // deterministic order (map iteration is not)
	return ks
}

// probe keys: stored keys, keys between them (mutations), deleted keys and the extremes
func (g *gen) probes(n int) []string {
	r := g.r
	ks := g.liveKeys()
	res := []string{"", "/", ".", "0", "\x00", "\xff", "\xff\xff\xff\xff\xff\xff\xff\xff\xff\xff\xff\xff\xff\xff\xff", "\xff/\xff/\xff", "//", "/\x00"}
	for i := 0; i < n; i++ {
		var base string
		switch {
		case len(ks) > 0 && r.Chance(70):
			base = ks[r.Intn(len(ks))]
		case len(g.all) > 0:
			base = g.all[r.Intn(len(g.all))]
		default:
			base = g.key()
		}
		b := []byte(base)
		switch r.Intn(8) {
		case 0, 1:
		case 2:
			b = append(b, hx.Pick(r, alphabet))
		case 3:
			b = append(b, 0)
		case 4:
			if len(b) > 0 {
				b[len(b)-1]--
			}
		case 5:
			if len(b) > 0 {
				b[len(b)-1]++
			}
		case 6:
			if len(b) > 0 {
				b = b[:len(b)-1]
			}
		case 7:
			if len(b) > 0 {
				b[r.Intn(len(b))] = hx.Pick(r, []byte{'.', '/', '0'})
			}
		}
		res = append(res, string(b))
	}
	return res
}

// readPhase: every live key by exact get; point lookups at nProbe probes; scans.
func (g *gen) readPhase(nProbe int, scans int) {
	r := g.r
	ks := g.liveKeys()
	for _, k := range ks {
		g.add("g:" + hexs(k))
	}
	for _, p := range g.probes(nProbe) {
		h := hexs(p)
		g.add("g:" + h)
		g.add("f:" + h)
		g.add("c:" + h)
		g.add("l:" + h)
		g.add("h:" + h)
	}
	// every stored key is its own floor and ceiling; its lower/higher are its neighbours (sampled)
	for _, k := range ks {
		if r.Chance(25) {
			h := hexs(k)
			g.add(hx.Pick(r, []string{"f:", "c:", "l:", "h:"}) + h)
		}
	}
	g.add("s:-:-")
	g.add("r:-:-")
	ps := g.probes(2 * scans)
	for i := 0; i+1 < len(ps) && i < 2*scans; i += 2 {
		lo, hi := ps[len(ps)-1-i], ps[len(ps)-2-i]
		if specCompare([]byte(lo), []byte(hi)) > 0 {
			lo, hi = hi, lo
		}
		if lo == hi {
			continue
		}
		g.add("s:" + hexs(lo) + ":" + hexs(hi))
		if i%4 == 0 {
			g.add("r:" + hexs(lo) + ":" + hexs(hi))
		}
	}
	if len(ks) > 0 {
		k := ks[r.Intn(len(ks))]
		g.add("s:" + hexs(k) + ":-")
		g.add("s:-:" + hexs(k))
	}
}

func (g *gen) writeBatch(nPut, nDel, nRange int, withReads bool) {
	r := g.r
	g.add("B")
	for i := 0; i < nPut; i++ {
		var k string
		if len(g.all) > 0 && r.Chance(8) {
			k = g.all[r.Intn(len(g.all))] // overwrite or resurrect
		} else {
			k = g.key()
		}
		g.tag++
		g.add("P:" + hexs(k) + ":" + strconv.FormatUint(g.tag, 10))
		if !g.live[k] {
			g.live[k] = true
		}
		g.all = append(g.all, k)
	}
	if nDel > 0 {
		ks := g.liveKeys()
		for i := 0; i < nDel && len(ks) > 0; i++ {
			k := ks[r.Intn(len(ks))]
			if !g.live[k] {
				continue
			}
			g.add("D:" + hexs(k))
			delete(g.live, k)
		}
	}
	for i := 0; i < nRange; i++ {
		ps := g.probes(2)
		lo, hi := ps[len(ps)-1], ps[len(ps)-2]
		if specCompare([]byte(lo), []byte(hi)) > 0 {
			lo, hi = hi, lo
		}
		if lo == hi || lo == "" {
			continue
		}
		// keep range deletes narrow: not more than ~10% of the data
		n := 0
		for k := range g.live {
			if !less(k, lo) && less(k, hi) {
				n++
			}
		}
		if n*10 > len(g.live)+10 {
			continue
		}
		g.add("X:" + hexs(lo) + ":" + hexs(hi))
		for k := range g.live {
			if !less(k, lo) && less(k, hi) {
				delete(g.live, k)
			}
		}
	}
	if withReads {
		// reads through the indexed batch (its skiplist orders by AbbreviatedKey first, then Compare)
		for _, p := range g.probes(12) {
			if p == "" {
				continue
			}
			g.add("bg:" + hexs(p))
			g.add("bl:" + hexs(p))
		}
		ps := g.probes(4)
		lo, hi := ps[len(ps)-1], ps[len(ps)-2]
		if specCompare([]byte(lo), []byte(hi)) > 0 {
			lo, hi = hi, lo
		}
		if lo != hi && lo != "" {
			g.add("bs:" + hexs(lo) + ":" + hexs(hi))
		}
	}
	g.add("K")
}

// dataset builds the op list of one data set.
//
//	nKeys: number of puts; [vmin,vmax): value sizes; probes per read phase.
func dataset(r *hx.Rng, nKeys, vmin, vmax, nProbe int) []string {
	g := &gen{r: r, live: map[string]bool{}}
	g.add(fmt.Sprintf("V:%d:%d", vmin, vmax))
	batch := nKeys / (4 + r.Intn(5))
	if batch < 1 {
		batch = 1
	}
	written := 0
	phase := 0
	for written < nKeys {
		n := batch
		if written+n > nKeys {
			n = nKeys - written
		}
		g.writeBatch(n, n/12, r.Intn(2), phase > 0 && nKeys <= 5000 && r.Chance(50))
		written += n
		phase++
		switch r.Intn(4) {
		case 0, 1:
			g.add("F")
		case 2:
			if r.Chance(40) {
				g.add("C")
			}
		}
		if phase == 1 {
			g.readPhase(nProbe/4, 2) // includes the memtable-only state when no flush was drawn
		}
	}
	g.add("F")
	g.readPhase(nProbe, 8)
	// an aborted batch leaves no trace
	g.add("B")
	g.tag++
	g.add("P:" + hexs(g.key()) + ":" + strconv.FormatUint(g.tag, 10))
	g.add("A")
	g.writeBatch(batch/2+1, batch/6, 1, false)
	g.add("C")
	g.readPhase(nProbe/2, 4)
	g.add("R")
	g.readPhase(nProbe/2, 4)
	return g.ops
}

// pairDataset: the end-to-end form of a separator counter-example (a < b): values so large that every key
// gets its own data block, so that the sstable index holds a separator for every adjacent pair of keys.
func pairDataset(pairs [][2]string) []string {
	ops := []string{"V:66000:70000", "B"}
	seen := map[string]bool{}
	tag := uint64(0)
	var keys []string
	for _, p := range pairs {
		for _, k := range p {
			if k != "" && !seen[k] {
				seen[k] = true
				tag++
				ops = append(ops, "P:"+hexs(k)+":"+strconv.FormatUint(tag, 10))
				keys = append(keys, k)
			}
		}
	}
	ops = append(ops, "K", "F")
	for _, k := range keys {
		ops = append(ops, "g:"+hexs(k))
	}
	for _, k := range keys {
		h := hexs(k)
		ops = append(ops, "f:"+h, "c:"+h, "l:"+h, "h:"+h)
	}
	ops = append(ops, "s:-:-", "C")
	for _, k := range keys {
		ops = append(ops, "g:"+hexs(k))
	}
	ops = append(ops, "s:-:-", "r:-:-")
	return ops
}

func nearSlashPairs(r *hx.Rng, n int) [][2]string {
	var res [][2]string
	for i := 0; i < n; i++ {
		var p []byte
		for j := r.Intn(5); j > 0; j-- {
			p = append(p, hx.Pick(r, alphabet))
		}
		a := append(append([]byte(nil), p...), hx.Pick(r, []byte{'.', '-', '%', 0x00}))
		b := append(append([]byte(nil), p...), hx.Pick(r, []byte{'0', 'a', 0xfe, '/', '.'}))
		for j := r.Intn(3); j > 0; j-- {
			a = append(a, hx.Pick(r, alphabet))
		}
		for j := r.Intn(3); j > 0; j-- {
			b = append(b, hx.Pick(r, alphabet))
		}
		res = append(res, [2]string{string(a), string(b)})
	}
	return res
}

func countKinds(o *hx.Out, ops []string) {
	for _, op := range ops {
		k := op
		if i := strings.IndexByte(op, ':'); i >= 0 {
			k = op[:i]
		}
		o.Count("op:" + k)
	}
}

func run(o *hx.Out, ops []string, desc string) {
	countKinds(o, ops)
	res := runCase(o, ops, desc)
	o.Case("kv", strings.Join(ops, ";"), res, desc)
}

var mode = flag.String("mode", "engine", "engine: kv.KV on Pebble (default) | db: kv.DB list/range-scan/get across the internal keys")

func main() {
	f := hx.ParseFlags()
	o := hx.NewOut(f.OutDir)
	if *mode == "db" {
		mainDB(f, o)
	}
	r := hx.NewRng(f.Seed)
	if f.Tier == "thorough" {
		caseTimeout = 25 * time.Minute
	}
	// a hung case leaves a goroutine spinning inside the engine: write what we have and leave
	finish := func() {
		o.Close()
		if hung && curDir != "" {
			_ = os.RemoveAll(curDir)
		}
		os.Exit(0)
	}

	replay := hx.CorpusLines(f.Corpus)
	if f.Replay != "" {
		replay = hx.ReadLines(f.Replay)
	}
	nrep := 0
	for _, line := range replay {
		if hung {
			break
		}
		t := strings.SplitN(line, " ", 3)
		if len(t) == 3 && t[0] == "big" {
			p := strings.Fields(t[2])
			if len(p) == 2 {
				sd, _ := strconv.ParseUint(p[0], 10, 64)
				n, _ := strconv.Atoi(p[1])
				runBig(o, sd, n)
			}
		}
		if len(t) == 3 && t[0] == "kv" {
			nrep++
			run(o, strings.Split(t[2], ";"), fmt.Sprintf("corpus/replay data set %d", nrep))
		}
	}
	if f.Replay != "" || hung {
		finish()
	}

	// -n = number of generated data sets of each of the two quick shapes
	for i := 0; i < f.N && !hung; i++ {
		rr := r.Fork()
		// (a) ~500 keys, 100..2000-byte values: several 64 KiB blocks per flushed table
		n := 350 + rr.Intn(300)
		run(o, dataset(rr, n, 100, 2000, 120), fmt.Sprintf("seed %d data set %d (%d puts, values 100..2000 B)", f.Seed, i, n))
		o.Count("dataset:small-values")
		if hung {
			break
		}
		// (b) one key per data block: an index separator between every two neighbours
		rr = r.Fork()
		n = 60 + rr.Intn(60)
		run(o, dataset(rr, n, 66000, 70000, 60), fmt.Sprintf("seed %d data set %d (%d puts, values 66..70 kB, one key per block)", f.Seed, i, n))
		o.Count("dataset:one-key-per-block")
		if hung {
			break
		}
		// (c) end-to-end form of separator counter-example candidates: neighbours around '/'
		rr = r.Fork()
		run(o, pairDataset(nearSlashPairs(rr, 40)), fmt.Sprintf("seed %d pair data set %d", f.Seed, i))
		o.Count("dataset:near-slash-pairs")
	}
	if f.Tier == "thorough" {
		for _, n := range []int{5000, 20000, 200000} {
			if !hung {
				runBig(o, r.U64(), n)
			}
		}
	}
	finish()
}

func runBig(o *hx.Out, seed uint64, n int) {
	rr := hx.NewRng(seed)
	countOps := dataset(rr, n, 100, 2000, 400)
	countKinds(o, countOps)
	res := runCase(o, countOps, fmt.Sprintf("large data set (generator seed %d, %d puts, values 100..2000 B)", seed, n))
	// too large for the association-list model: the harness reference is the only oracle
	verdict := "ok"
	if res == "panic" || res == "err" {
		verdict = res
	}
	o.Case("big", fmt.Sprintf("%d %d", seed, n), verdict, fmt.Sprintf("%d/%d", seed, n))
	o.Count("dataset:large")
}
