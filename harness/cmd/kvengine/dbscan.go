// -mode db (C11, DB-layer leg): a real kv.DB (kv.NewDB over on-disk Pebble, wrapped by kvsafe) with its internal
// keys really present (commit offset, last-version-id, term, notifications), user keys written through ProcessWrite
// on BOTH sides of the "__oxia/..." region of the slash order (flat keys and hierarchical keys whose first segment is
// below "__oxia" sort before it; hierarchical keys whose first segment is above "__oxia" sort after it), then
// db.List / db.RangeScan over ranges below, above and ACROSS that region, and db.Get with FLOOR/CEILING/LOWER/HIGHER,
// in memory, after a flush and after close+reopen.  The observable is the projection on user keys (returned keys
// starting with "__oxia/" are ignored and counted: reads do not filter internal keys, DESIGN §9.4, outside C11).
//
//	reference  = the live user keys of the range in the specification order (specCompare, written from the spec)
//	model      = extracted kv_range_scan over the sorted map built from the same keys (c11_range_is_filter,
//	             c11_point_lookups_match_reference) — case kinds dblist / dbrscan
//	verdicts   = dbscan:missing-key, dbscan:unexpected-key, dbscan:out-of-order, dbscan:wrong-value, dbscan:error,
//	             dbget:differs-from-reference
package main

import (
	"bytes"
	"fmt"
	"os"
	"sort"
	"strings"

	"github.com/oxia-db/oxia/common/constant"
	oxiatime "github.com/oxia-db/oxia/common/time"
	"github.com/oxia-db/oxia/proto"
	"github.com/oxia-db/oxia/server/kv"

	"verif/harness/internal/hx"
	"verif/harness/internal/kvsafe"
)

const internalPrefix = constant.InternalKeyPrefix // "__oxia/"

// only ASCII: keys travel in protobuf string fields (notifications are marshalled)
var dbAlphabet = []byte{'.', '/', '0', '-', 'a', 'b', 0x01, '%', '_', 'A', 'z', '~'}

// first segments below, around and above "__oxia"
var firstSegs = []string{"", "A", "Users", "_", "__a", "__oxi", "__oxia-", "__oxia.", "__oxia0", "__oxib", "__p", "a", "users", "zoo", "~", "%", "0", "."}
var flatKeys = []string{"a", "users", "zz", "__oxia", "__oxia0", "__oxi", "__oxib", "__p", "A", "~", "0"}

func isInternal(k string) bool { return strings.HasPrefix(k, internalPrefix) }

type dbEnv struct {
	o       *hx.Out
	dir     string
	factory kv.Factory
	db      kv.DB
	live    map[string]string // user key -> value
	offset  int64
	desc    string
	nviol   int
}

func (e *dbEnv) viol(sig, detail string) {
	e.nviol++
	if e.nviol <= 8 {
		e.o.Violation(sig, e.desc+": "+detail)
	}
}

func (e *dbEnv) open() {
	d, err := kv.NewDB("verif", 1, e.factory, 0, oxiatime.SystemClock)
	hx.Must(err)
	d.EnableNotifications(true)
	e.db = d
}

func newDBEnv(o *hx.Out, desc string) *dbEnv {
	base := os.Getenv("VERIF_TMP")
	if base == "" {
		base = "/var/tmp"
	}
	dir, err := os.MkdirTemp(base, "c11-db-")
	hx.Must(err)
	curDir = dir
	f, err := kvsafe.New(&kv.FactoryOptions{DataDir: dir, CacheSizeMB: 8, InMemory: false})
	hx.Must(err)
	e := &dbEnv{o: o, dir: dir, factory: f, live: map[string]string{}, desc: desc}
	e.open()
	hx.Must(e.db.UpdateTerm(1, kv.TermOptions{NotificationsEnabled: true}))
	return e
}

func (e *dbEnv) close() {
	_ = e.db.Close()
	_ = e.factory.Close()
	_ = os.RemoveAll(e.dir)
}

func (e *dbEnv) write(puts []string, dels []string, delRanges [][2]string) {
	req := &proto.WriteRequest{}
	for _, k := range puts {
		v := fmt.Sprintf("v%d:%s", e.offset, k)
		req.Puts = append(req.Puts, &proto.PutRequest{Key: k, Value: []byte(v)})
	}
	for _, k := range dels {
		req.Deletes = append(req.Deletes, &proto.DeleteRequest{Key: k})
	}
	for _, r := range delRanges {
		req.DeleteRanges = append(req.DeleteRanges, &proto.DeleteRangeRequest{StartInclusive: r[0], EndExclusive: r[1]})
	}
	_, err := e.db.ProcessWrite(req, e.offset, uint64(1000+e.offset), kv.NoOpCallback)
	hx.Must(err)
	// the live set follows the order in which db.applyWriteRequest applies: puts, deletes, delete-ranges
	for _, k := range puts {
		e.live[k] = fmt.Sprintf("v%d:%s", e.offset, k)
	}
	for _, k := range dels {
		delete(e.live, k)
	}
	for _, r := range delRanges {
		for k := range e.live {
			if specCompare([]byte(k), []byte(r[0])) >= 0 && specCompare([]byte(k), []byte(r[1])) < 0 {
				delete(e.live, k)
			}
		}
	}
	e.offset++
}

func (e *dbEnv) sortedLive() []string {
	ks := make([]string, 0, len(e.live))
	for k := range e.live {
		ks = append(ks, k)
	}
	sort.Slice(ks, func(i, j int) bool { return less(ks[i], ks[j]) })
	return ks
}

func inRange(k, lo, hi string) bool {
	return (lo == "" || specCompare([]byte(k), []byte(lo)) >= 0) && (hi == "" || specCompare([]byte(k), []byte(hi)) < 0)
}

func hexList(ks []string) string {
	hs := make([]string, len(ks))
	for i, k := range ks {
		hs[i] = hexs(k)
	}
	return fmt.Sprintf("%d:%s", len(ks), strings.Join(hs, ","))
}

// where a range lies relative to the internal keys ("__oxia/" is the least of them, any key whose first flagged
// segment is above "__oxia" is beyond them)
func rangeSide(lo, hi string) string {
	first, beyond := internalPrefix, "__oxia\x00/"
	startsBefore := lo == "" || specCompare([]byte(lo), []byte(first)) <= 0
	endsAfter := hi == "" || specCompare([]byte(hi), []byte(beyond)) >= 0
	switch {
	case startsBefore && endsAfter:
		return "crossing"
	case startsBefore:
		return "below"
	default:
		return "above-or-inside"
	}
}

// judge compares the user-key projection of a scan with the reference.
func (e *dbEnv) judge(api, phase, lo, hi string, got, want []string) {
	what := fmt.Sprintf("%s[%q, %q) (%s, %s of the internal keys) returned user keys %q, the live keys of the range in slash order are %q",
		api, lo, hi, phase, rangeSide(lo, hi), got, want)
	gs, ws := map[string]bool{}, map[string]bool{}
	for _, k := range got {
		gs[k] = true
	}
	for _, k := range want {
		ws[k] = true
	}
	for _, k := range want {
		if !gs[k] {
			e.viol("dbscan:missing-key", fmt.Sprintf("live key %q is missing: %s", k, short(what)))
			return
		}
	}
	for _, k := range got {
		if !ws[k] {
			e.viol("dbscan:unexpected-key", fmt.Sprintf("key %q is not a live key of the range: %s", k, short(what)))
			return
		}
	}
	if len(got) != len(want) {
		e.viol("dbscan:unexpected-key", "a key is returned twice: "+short(what))
		return
	}
	for i := range got {
		if got[i] != want[i] {
			e.viol("dbscan:out-of-order", short(what))
			return
		}
	}
}

func (e *dbEnv) list(phase, lo, hi string) {
	o := e.o
	want := []string{}
	for _, k := range e.sortedLive() {
		if inRange(k, lo, hi) {
			want = append(want, k)
		}
	}
	side := rangeSide(lo, hi)
	if len(e.live) == 0 {
		return
	}
	hs := []string{}
	for _, k := range e.sortedLive() {
		hs = append(hs, hexs(k))
	}
	in := fmt.Sprintf("%s %s %s %s", phase, strings.Join(hs, ","), hexs(lo), hexs(hi))
	// --- db.List
	it, err := e.db.List(&proto.ListRequest{StartInclusive: lo, EndExclusive: hi})
	if err != nil {
		e.viol("dbscan:error", fmt.Sprintf("List[%q,%q): %v", lo, hi, err))
		return
	}
	got := []string{}
	for ; it.Valid(); it.Next() {
		if isInternal(it.Key()) {
			o.Count("list:internal-key-ignored")
			continue
		}
		got = append(got, it.Key())
	}
	_ = it.Close()
	o.Count("list:" + side)
	o.Case("dblist", in, hexList(got), in)
	e.judge("List", phase, lo, hi, got, want)

	// --- db.RangeScan (internal records are not storage entries: recognised by key and not decoded)
	rit, err := e.db.RangeScan(&proto.RangeScanRequest{StartInclusive: lo, EndExclusive: hi})
	if err != nil {
		e.viol("dbscan:error", fmt.Sprintf("RangeScan[%q,%q): %v", lo, hi, err))
		return
	}
	keyer, hasKey := rit.(interface{ Key() string })
	got = []string{}
	aborted := false
	for ; rit.Valid(); rit.Next() {
		if hasKey && isInternal(keyer.Key()) {
			o.Count("rangescan:internal-key-ignored")
			continue
		}
		gr, err := rit.Value()
		if err != nil {
			if !hasKey {
				// cannot tell an internal record from a user record: the scan is not usable beyond this point
				o.Count("rangescan:skipped(undecodable record, key not exposed)")
				aborted = true
				break
			}
			e.viol("dbscan:error", fmt.Sprintf("RangeScan[%q,%q) at %q: %v", lo, hi, keyer.Key(), err))
			aborted = true
			break
		}
		k := gr.GetKey()
		if isInternal(k) {
			o.Count("rangescan:internal-key-ignored")
			continue
		}
		if v, ok := e.live[k]; ok && !bytes.Equal(gr.Value, []byte(v)) {
			e.viol("dbscan:wrong-value", fmt.Sprintf("RangeScan[%q,%q): key %q has value %q, last written %q", lo, hi, k, gr.Value, v))
		}
		got = append(got, k)
	}
	_ = rit.Close()
	if aborted {
		return
	}
	o.Count("rangescan:" + side)
	o.Case("dbrscan", in, hexList(got), in)
	e.judge("RangeScan", phase, lo, hi, got, want)
}

// point lookups through db.Get: a user key that comes back must be the reference's answer over the user keys
// (an internal key between the probe and that answer would have come back itself, and is ignored)
func (e *dbEnv) gets(phase string, probes []string) {
	ks := e.sortedLive()
	idx := func(k string) int { return sort.Search(len(ks), func(i int) bool { return !less(ks[i], k) }) }
	at := func(i int) string {
		if i < 0 || i >= len(ks) {
			return ""
		}
		return ks[i]
	}
	for _, p := range probes {
		if p == "" {
			continue
		}
		i := idx(p)
		_, stored := e.live[p]
		want := map[proto.KeyComparisonType]string{
			proto.KeyComparisonType_EQUAL:   "",
			proto.KeyComparisonType_CEILING: at(i),
			proto.KeyComparisonType_LOWER:   at(i - 1),
			proto.KeyComparisonType_FLOOR:   at(i - 1),
			proto.KeyComparisonType_HIGHER:  at(i),
		}
		if stored {
			want[proto.KeyComparisonType_EQUAL] = p
			want[proto.KeyComparisonType_FLOOR] = p
			want[proto.KeyComparisonType_HIGHER] = at(i + 1)
		}
		for _, ct := range []proto.KeyComparisonType{proto.KeyComparisonType_EQUAL, proto.KeyComparisonType_FLOOR,
			proto.KeyComparisonType_CEILING, proto.KeyComparisonType_LOWER, proto.KeyComparisonType_HIGHER} {
			res, err := e.db.Get(&proto.GetRequest{Key: p, IncludeValue: true, ComparisonType: ct})
			if err != nil {
				// db.Get does not filter internal records and cannot decode those that are not storage entries
				// (notification batches): admissible only when an internal key can be the answer, i.e. when the
				// internal region lies between the reference's answer and the probe (DESIGN §9.4, outside C11)
				if internalBetween(ct, p, want[ct]) && strings.Contains(err.Error(), "Deserialize") {
					e.o.Count("get:internal-record-undecodable-ignored")
					continue
				}
				e.viol("dbscan:error", fmt.Sprintf("Get(%q,%v): %v", p, ct, err))
				continue
			}
			got := ""
			if res.Status == proto.Status_OK {
				got = p
				if ct != proto.KeyComparisonType_EQUAL {
					got = res.GetKey()
				}
			}
			if isInternal(got) {
				e.o.Count("get:internal-key-ignored")
				continue
			}
			e.o.Count("get:checked")
			if got != want[ct] {
				e.viol("dbget:differs-from-reference", fmt.Sprintf("Get(%q, %v) (%s) returned %q, the reference over the live user keys says %q", p, ct, phase, got, want[ct]))
			} else if got != "" && !bytes.Equal(res.Value, []byte(e.live[got])) {
				e.viol("dbscan:wrong-value", fmt.Sprintf("Get(%q, %v): key %q has value %q, last written %q", p, ct, got, res.Value, e.live[got]))
			}
		}
	}
}

// internalBetween: can a key "__oxia/..." be what a lookup of kind ct at probe p finds before reaching the
// reference's answer w ("" = none) among the user keys?
func internalBetween(ct proto.KeyComparisonType, p, w string) bool {
	first, beyond := []byte(internalPrefix), []byte("__oxia\x00/")
	switch ct {
	case proto.KeyComparisonType_FLOOR, proto.KeyComparisonType_LOWER:
		return specCompare([]byte(p), first) >= 0 && (w == "" || specCompare([]byte(w), beyond) < 0)
	case proto.KeyComparisonType_CEILING, proto.KeyComparisonType_HIGHER:
		return specCompare([]byte(p), beyond) < 0 && (w == "" || specCompare([]byte(w), first) >= 0)
	}
	return false
}

// ---------------------------------------------------------------- generation

func genDBKey(r *hx.Rng) string {
	for {
		var k string
		switch r.Intn(10) {
		case 0, 1:
			k = hx.Pick(r, flatKeys)
			if r.Chance(40) {
				k += string(hx.Pick(r, dbAlphabet))
			}
		case 2:
			n := 1 + r.Intn(5)
			b := make([]byte, n)
			for i := range b {
				b[i] = hx.Pick(r, dbAlphabet)
			}
			k = string(b)
		default:
			k = hx.Pick(r, firstSegs)
			for d := 1 + r.Intn(3); d > 0; d-- {
				k += "/"
				switch r.Intn(4) {
				case 0:
					k += hx.Pick(r, []string{"1", "2", "b", "profile", "c", ""})
				case 1:
					k += hx.Pick(r, firstSegs)
				default:
					for n := r.Intn(3); n >= 0; n-- {
						k += string(hx.Pick(r, []byte{'.', '0', '-', 'a', 'b', 0x01, '%'}))
					}
				}
			}
		}
		if k != "" && !isInternal(k) && len(k) <= 40 {
			return k
		}
	}
}

var fixedRanges = [][2]string{
	{"", ""}, {"a", ""}, {"/", "zzz/zzz"}, {"Users/", "v/"}, {"users/", "users//"}, {"", "__oxia/"}, {"__oxia0/", ""},
	{"A/", "__a/~"}, {"__a/", "a/~"}, {"__oxia", "__p/"}, {"/", ""}, {"__oxi/", "__oxib/"}, {"a/", "zoo/~"}, {"0", "~/~"},
}

func (e *dbEnv) readPhase(r *hx.Rng, phase string, nRandom int) {
	for _, rg := range fixedRanges {
		e.list(phase, rg[0], rg[1])
	}
	ks := e.sortedLive()
	probe := func() string {
		if len(ks) > 0 && r.Chance(60) {
			k := ks[r.Intn(len(ks))]
			switch r.Intn(4) {
			case 0:
				return k
			case 1:
				return k + "\x01"
			case 2:
				return k[:r.Intn(len(k)+1)]
			default:
				return k + "/"
			}
		}
		return genDBKey(r)
	}
	for i := 0; i < nRandom; i++ {
		lo, hi := probe(), probe()
		if specCompare([]byte(lo), []byte(hi)) > 0 {
			lo, hi = hi, lo
		}
		if lo == hi {
			continue
		}
		switch r.Intn(6) {
		case 0:
			lo = ""
		case 1:
			hi = ""
		}
		e.list(phase, lo, hi)
	}
	var ps []string
	for i := 0; i < 12; i++ {
		ps = append(ps, probe())
	}
	ps = append(ps, "a", "a/", "__oxia", "__oxia0", "__oxia0/", "__p/", "users/1", "~/~")
	e.gets(phase, ps)
}

func dbDataset(o *hx.Out, r *hx.Rng, desc string) {
	e := newDBEnv(o, desc)
	defer e.close()
	n := 25 + r.Intn(40)
	var puts []string
	for i := 0; i < n; i++ {
		puts = append(puts, genDBKey(r))
	}
	// the demo's shape is always present: both sides of "__oxia" and flat keys
	puts = append(puts, "A/1", "__a/1", "__oxia0/x", "__p/1", "a/1", "users/1", "users/1/profile", "zoo/b/c", "/a/b", "a", "users")
	e.write(puts[:len(puts)/2], nil, nil)
	e.write(puts[len(puts)/2:], nil, nil)
	e.readPhase(r, "memtable", 10)
	hx.Must(kv.VerifDBStore(e.db).Flush())
	o.Count("op:flush")
	e.readPhase(r, "after-flush", 10)
	// overwrites, deletes, a range delete on each side, then close + reopen
	ks := e.sortedLive()
	var dels, more []string
	for i := 0; i < len(ks)/8; i++ {
		dels = append(dels, ks[r.Intn(len(ks))])
	}
	for i := 0; i < 10; i++ {
		more = append(more, genDBKey(r))
	}
	more = append(more, ks[r.Intn(len(ks))])
	e.write(more, dels, [][2]string{{"zoo/", "zoo/0"}, {"A/", "A/0"}})
	hx.Must(e.db.Close())
	e.open()
	o.Count("op:reopen")
	e.readPhase(r, "after-reopen", 10)
	o.CountN("live-user-keys(sum over data sets)", len(e.live))
}

// dbScaleDataset: a few hundred keys under two prefixes (one on each side of the internal keys), some of them deleted
// one by one, then delete-range requests whose range holds EXACTLY n live keys (counted in the reference) for n around
// db.DeleteRangeThreshold (100: up to it the keys are deleted one by one, above it with one range tombstone):
// every key of the range must be gone, every neighbour alive — list / range-scan of the prefix and the whole key space,
// exact get and floor / ceiling / lower / higher at both ends of the range, in memory, after a flush, after reopen.
func dbScaleDataset(o *hx.Out, r *hx.Rng, desc string, counts []int) {
	e := newDBEnv(o, desc)
	defer e.close()
	prefixes := []string{"A/", "users/"}
	seen := map[string]bool{}
	var puts []string
	needP := []int{30, 30} // per prefix: what its ranges consume, what the single deletes remove, and a margin
	for ci, c := range counts {
		needP[ci%2] += c + c/6 + 10
	}
	for pi, pfx := range prefixes {
		for n := 0; n < needP[pi]; {
			k := pfx
			for m := 1 + r.Intn(5); m > 0; m-- {
				k += string(hx.Pick(r, []byte{'.', '0', '-', 'a', 'b', 0x01, '%', 'z'}))
			}
			if r.Chance(15) {
				k += "/" + string(hx.Pick(r, []byte{'.', '0', 'a'}))
			}
			if !seen[k] {
				seen[k] = true
				puts = append(puts, k)
				n++
			}
		}
	}
	for i := len(puts) - 1; i > 0; i-- { // the write order is not the key order
		j := r.Intn(i + 1)
		puts[i], puts[j] = puts[j], puts[i]
	}
	for i := 0; i < len(puts); i += 120 {
		j := i + 120
		if j > len(puts) {
			j = len(puts)
		}
		e.write(puts[i:j], nil, nil)
	}
	// keys already deleted inside the future ranges
	var dels []string
	for _, k := range puts {
		if r.Chance(8) {
			dels = append(dels, k)
		}
	}
	e.write([]string{"a", "users", "__oxia0/x"}, dels, nil)

	check := func(phase string, around []string) {
		e.list(phase, "A/", "A/~")
		e.list(phase, "users/", "users/~")
		e.list(phase, "", "")
		e.gets(phase, around)
	}
	var around []string
	for ci, n := range counts {
		// the live keys of one prefix, in slash order; the range is [ks[i], ks[i+n]) : exactly n live keys
		pfx := prefixes[ci%2]
		var ks []string
		for _, k := range e.sortedLive() {
			if strings.HasPrefix(k, pfx) {
				ks = append(ks, k)
			}
		}
		if len(ks) < n+2 {
			o.Count("scale:skipped(not enough live keys)")
			continue
		}
		i := 1 + r.Intn(len(ks)-n-1)
		lo, hi := ks[i], ks[i+n]
		cnt := 0
		for k := range e.live {
			if inRange(k, lo, hi) {
				cnt++
			}
		}
		if cnt != n {
			panic(fmt.Sprintf("scale generator: range [%q,%q) holds %d live keys, wanted %d", lo, hi, cnt, n))
		}
		o.Count(fmt.Sprintf("scale:delete-range-holding-exactly-%d-live-keys", n))
		e.desc = fmt.Sprintf("%s, after DeleteRange[%q, %q) holding exactly %d live keys", desc, lo, hi, n)
		e.write(nil, nil, [][2]string{{lo, hi}})
		around = append(around, lo, ks[i+n-1], ks[i-1], hi, ks[i+n-1]+"\x01", ks[i+n/2])
		phase := "memtable"
		if ci > 0 {
			phase = "after-flush+memtable"
		}
		check(phase, around)
		hx.Must(kv.VerifDBStore(e.db).Flush())
		o.Count("op:flush")
		check("after-flush", around)
	}
	hx.Must(e.db.Close())
	e.open()
	o.Count("op:reopen")
	check("after-reopen", around)
	o.CountN("live-user-keys(sum over data sets)", len(e.live))
}

// replay of one dblist / dbrscan case line: the keys are written, the phase action applied, the range scanned
func dbReplay(o *hx.Out, fields []string, n int) {
	if len(fields) < 4 {
		return
	}
	e := newDBEnv(o, fmt.Sprintf("corpus/replay db case %d", n))
	defer e.close()
	var puts []string
	for _, h := range strings.Split(fields[1], ",") {
		if h != "" {
			puts = append(puts, unhexS(h))
		}
	}
	e.write(puts, nil, nil)
	switch fields[0] {
	case "after-flush":
		hx.Must(kv.VerifDBStore(e.db).Flush())
	case "after-reopen":
		hx.Must(e.db.Close())
		e.open()
	}
	e.list(fields[0], unhexS(fields[2]), unhexS(fields[3]))
}

func mainDB(f hx.Flags, o *hx.Out) {
	r := hx.NewRng(f.Seed ^ 0xdb)
	replay := hx.CorpusLines(f.Corpus)
	if f.Replay != "" {
		replay = hx.ReadLines(f.Replay)
	}
	nrep := 0
	for _, line := range replay {
		t := strings.Fields(line)
		if len(t) >= 6 && (t[0] == "dblist" || t[0] == "dbrscan") {
			nrep++
			dbReplay(o, t[2:], nrep)
		}
	}
	if f.Replay == "" {
		for i := 0; i < f.N; i++ {
			dbDataset(o, r.Fork(), fmt.Sprintf("seed %d db data set %d", f.Seed, i))
			o.Count("dataset:db")
			if i%4 == 0 {
				// the threshold itself in every scale data set, the other sizes in turn
				other := [][]int{{1, 99}, {101, 200}}[(i/4)%2]
				dbScaleDataset(o, r.Fork(), fmt.Sprintf("seed %d db scale data set %d", f.Seed, i/4), append([]int{100}, other...))
				o.Count("dataset:db-scale")
			}
		}
	}
	o.Close()
	os.Exit(0)
}
