package main

// End-to-end leg (no model): the real clientImpl (Put/Delete/DeleteRange/Get/List/RangeScan), its batch
// managers, batcher factory, batchers with their own goroutines and timers, and write/read batches, over a fake
// executor that echoes the identity of every operation. Only order-insensitive observables are judged:
// every operation completes exactly once, with its own answer or with the error injected into the very
// request it travelled in (or ErrShuttingDown when the client is closed under it); fan-out results are the
// union / a sorted permutation / the extremum.

import (
	"context"
	"errors"
	"fmt"
	"hash/fnv"
	"io"
	"sort"
	"strconv"
	"strings"
	"sync"
	"time"

	"google.golang.org/grpc"

	"github.com/oxia-db/oxia/common/compare"
	"github.com/oxia-db/oxia/oxia"
	commonbatch "github.com/oxia-db/oxia/oxia/batch"
	"github.com/oxia-db/oxia/proto"

	"verif/harness/internal/hx"
)

type e2eServer struct {
	mu        sync.Mutex
	nshards   int
	failEvery int // every failEvery-th write/read request fails (0 = never)
	nreq      int
	failed    map[int][]int // error code -> op ids of the failed request
	sentIn    map[int]int   // op id -> number of (non-failed) requests it was sent in
	data      [][]string    // per shard: keys in slash order (List / RangeScan)
	floorRank map[int][]int // get op id -> per shard rank (-1 = not found)
}

func opID(key string) int {
	// keys look like "op/<id>/..." or "op/<id>"
	f := strings.Split(key, "/")
	if len(f) < 2 {
		return -1
	}
	id, err := strconv.Atoi(f[1])
	if err != nil {
		return -1
	}
	return id
}

func (s *e2eServer) decide(ids []int) (code int, fail bool) {
	s.mu.Lock()
	defer s.mu.Unlock()
	s.nreq++
	if s.failEvery > 0 && s.nreq%s.failEvery == 0 {
		code = 1000 + s.nreq
		s.failed[code] = append([]int(nil), ids...)
		return code, true
	}
	for _, id := range ids {
		s.sentIn[id]++
	}
	return 0, false
}

func (s *e2eServer) write(_ context.Context, req *proto.WriteRequest) (*proto.WriteResponse, error) {
	var ids []int
	for _, p := range req.Puts {
		ids = append(ids, opID(p.Key))
	}
	for _, p := range req.Deletes {
		ids = append(ids, opID(p.Key))
	}
	for _, p := range req.DeleteRanges {
		ids = append(ids, 1000000+opID(p.StartInclusive)*1000+int(*req.Shard))
	}
	if code, fail := s.decide(ids); fail {
		return nil, &codeErr{code}
	}
	resp := &proto.WriteResponse{}
	for _, p := range req.Puts {
		resp.Puts = append(resp.Puts, &proto.PutResponse{Status: proto.Status_OK, Version: &proto.Version{VersionId: int64(opID(p.Key))}})
	}
	for _, p := range req.Deletes {
		st := proto.Status_OK
		if opID(p.Key)%2 == 1 {
			st = proto.Status_KEY_NOT_FOUND
		}
		resp.Deletes = append(resp.Deletes, &proto.DeleteResponse{Status: st})
	}
	for range req.DeleteRanges {
		resp.DeleteRanges = append(resp.DeleteRanges, &proto.DeleteRangeResponse{Status: proto.Status_OK})
	}
	return resp, nil
}

func (s *e2eServer) read(_ context.Context, req *proto.ReadRequest) (proto.OxiaClient_ReadClient, error) {
	var ids []int
	for _, g := range req.Gets {
		ids = append(ids, 1000000+opID(g.Key)*1000+int(*req.Shard))
	}
	if code, fail := s.decide(ids); fail {
		return nil, &codeErr{code}
	}
	st := &fakeReadStream{err: io.EOF}
	for _, g := range req.Gets {
		id := opID(g.Key)
		r := &proto.GetResponse{Status: proto.Status_OK, Value: []byte(g.Key), Version: &proto.Version{VersionId: int64(id)}}
		if g.ComparisonType != proto.KeyComparisonType_EQUAL {
			s.mu.Lock()
			rank := s.floorRank[id][int(*req.Shard)]
			s.mu.Unlock()
			if rank < 0 {
				r = &proto.GetResponse{Status: proto.Status_KEY_NOT_FOUND}
			} else {
				k := fmt.Sprintf("%s/%02d", g.Key, rank)
				r.Key = &k
				r.Value = []byte(k)
			}
		}
		st.chunks = append(st.chunks, &proto.ReadResponse{Gets: []*proto.GetResponse{r}})
	}
	return st, nil
}

type fakeScanStream struct {
	grpc.ClientStream
	keys []string
}

func (s *fakeScanStream) Recv() (*proto.RangeScanResponse, error) {
	if len(s.keys) == 0 {
		return nil, io.EOF
	}
	n := 1 + len(s.keys)%3
	if n > len(s.keys) {
		n = len(s.keys)
	}
	resp := &proto.RangeScanResponse{}
	for _, k := range s.keys[:n] {
		kk := k
		resp.Records = append(resp.Records, &proto.GetResponse{Status: proto.Status_OK, Key: &kk, Value: []byte(k), Version: &proto.Version{}})
	}
	s.keys = s.keys[n:]
	return resp, nil
}

type fakeKeysStream struct {
	grpc.ClientStream
	keys []string
}

func (s *fakeKeysStream) Recv() (*proto.ListResponse, error) {
	if len(s.keys) == 0 {
		return nil, io.EOF
	}
	n := 1 + len(s.keys)%4
	if n > len(s.keys) {
		n = len(s.keys)
	}
	resp := &proto.ListResponse{Keys: append([]string(nil), s.keys[:n]...)}
	s.keys = s.keys[n:]
	return resp, nil
}

func (s *e2eServer) list(_ context.Context, req *proto.ListRequest) (proto.OxiaClient_ListClient, error) {
	return &fakeKeysStream{keys: append([]string(nil), s.data[int(*req.Shard)]...)}, nil
}

func (s *e2eServer) scan(_ context.Context, req *proto.RangeScanRequest) (proto.OxiaClient_RangeScanClient, error) {
	return &fakeScanStream{keys: append([]string(nil), s.data[int(*req.Shard)]...)}, nil
}

type e2eOp struct {
	id   int
	kind string // put del delrange-all get floor
	key  string
	wait func() (res string, once bool) // blocks for the result; once=false: a second value arrived / channel not closed
	res  string
	once bool
}

func recvOnce[T any](ch <-chan T, format func(T) string) (string, bool) {
	select {
	case v, ok := <-ch:
		if !ok {
			return "closed-without-value", false
		}
		res := format(v)
		select {
		case _, ok2 := <-ch:
			return res, !ok2
		case <-expired():
			expiredWaits.Add(1)
			return res, false
		}
	case <-expired():
		expiredWaits.Add(1)
		return "never", false
	}
}

func errString(err error) string {
	var ce *codeErr
	switch {
	case err == nil:
		return "ok"
	case errors.Is(err, commonbatch.ErrShuttingDown):
		return "shut"
	case errors.Is(err, context.Canceled):
		return "canceled"
	case errors.As(err, &ce):
		return fmt.Sprintf("err%d", ce.code)
	case errors.Is(err, oxia.ErrKeyNotFound):
		return "notfound"
	}
	return "err?" + err.Error()
}

func runE2EScenario(o *hx.Out, r *hx.Rng, idx int) {
	nshards := 1 + r.Intn(4)
	linger := hx.Pick(r, []time.Duration{0, time.Millisecond, 20 * time.Millisecond})
	maxReq := hx.Pick(r, []int{1, 2, 5, 1000})
	maxBytes := hx.Pick(r, []int{48, 256, 128 * 1024})
	failEvery := hx.Pick(r, []int{0, 0, 3, 7})
	closeEarly := linger == 20*time.Millisecond && r.Chance(50)
	nops := 30 + r.Intn(90)
	writers := hx.Pick(r, []int{1, 4})
	desc := fmt.Sprintf("shards=%d linger=%s maxReq=%d maxBytes=%d failEvery=%d closeEarly=%v ops=%d writers=%d",
		nshards, linger, maxReq, maxBytes, failEvery, closeEarly, nops, writers)
	o.Count(fmt.Sprintf("e2e:linger=%s", linger))

	srv := &e2eServer{nshards: nshards, failEvery: failEvery, failed: map[int][]int{}, sentIn: map[int]int{},
		data: make([][]string, nshards), floorRank: map[int][]int{}}
	route := func(key string) int64 {
		h := fnv.New32a()
		_, _ = h.Write([]byte(key))
		return int64(h.Sum32() % uint32(nshards))
	}
	// data set for List / RangeScan: distinct keys rich in '/', each living on one shard, sorted per shard
	var all []string
	seen := map[string]bool{}
	for len(all) < 12+r.Intn(30) {
		k := genKey(r)
		if !seen[k] {
			seen[k] = true
			all = append(all, k)
		}
	}
	for _, k := range all {
		s := int(route(k))
		srv.data[s] = append(srv.data[s], k)
	}
	for s := range srv.data {
		sort.Slice(srv.data[s], func(i, j int) bool {
			return compare.CompareWithSlash([]byte(srv.data[s][i]), []byte(srv.data[s][j])) < 0
		})
	}
	shards := make([]int64, nshards)
	for i := range shards {
		shards[i] = int64(i)
	}
	exec := &oxia.VerifExecutor{Write: srv.write, Read: srv.read, List: srv.list, RangeScan: srv.scan}
	c, closeFn := oxia.NewVerifClient(shards, route, exec, linger, maxReq, maxBytes, 5*time.Second)

	ops := make([]*e2eOp, nops)
	var wg, readers sync.WaitGroup
	per := (nops + writers - 1) / writers
	kinds := make([]string, nops)
	ranks := make([][]int, nops)
	for i := range kinds {
		kinds[i] = hx.Pick(r, []string{"put", "put", "put", "del", "del", "get", "get", "floor", "delrange-all"})
		if kinds[i] == "floor" {
			rk := r.Fork()
			ranks[i] = make([]int, nshards)
			for s := range ranks[i] {
				ranks[i][s] = rk.Intn(nshards+2) - 1 // -1 = not found; ranks may tie only by chance on different shards
			}
			srv.floorRank[i] = ranks[i]
		}
	}
	valLens := make([]int, nops)
	for i := range valLens {
		valLens[i] = r.Intn(40)
	}
	for w := 0; w < writers; w++ {
		lo, hi := w*per, (w+1)*per
		if hi > nops {
			hi = nops
		}
		wg.Add(1)
		go func() {
			defer wg.Done()
			for i := lo; i < hi; i++ {
				id := i
				key := fmt.Sprintf("op/%d", id)
				op := &e2eOp{id: id, kind: kinds[i], key: key}
				switch kinds[i] {
				case "put":
					ch := c.Put(key, make([]byte, valLens[i]))
					op.wait = func() (string, bool) {
						return recvOnce(ch, func(p oxia.PutResult) string {
							if p.Err != nil {
								return errString(p.Err)
							}
							return fmt.Sprintf("ok:%s:%d", p.Key, p.Version.VersionId)
						})
					}
				case "del":
					ch := c.Delete(key)
					op.wait = func() (string, bool) { return recvOnce(ch, errString) }
				case "delrange-all":
					ch := c.DeleteRange(key, key+"/z")
					op.wait = func() (string, bool) { return recvOnce(ch, errString) }
				case "get":
					ch := c.Get(key)
					op.wait = func() (string, bool) {
						return recvOnce(ch, func(g oxia.GetResult) string {
							if g.Err != nil {
								return errString(g.Err)
							}
							return fmt.Sprintf("ok:%s:%s:%d", g.Key, string(g.Value), g.Version.VersionId)
						})
					}
				case "floor":
					ch := c.Get(key, oxia.ComparisonFloor())
					op.wait = func() (string, bool) {
						return recvOnce(ch, func(g oxia.GetResult) string {
							if g.Err != nil {
								return errString(g.Err)
							}
							return fmt.Sprintf("ok:%s", g.Key)
						})
					}
				}
				ops[i] = op
				// the result is consumed at once, as an application would (Get hands its result over an
				// unbuffered channel from the batcher's goroutine)
				readers.Add(1)
				go func() {
					defer readers.Done()
					op.res, op.once = op.wait()
				}()
			}
		}()
	}
	wg.Wait()
	closed := false
	if closeEarly {
		_ = closeFn()
		closed = true
	}
	bad := func(sig, detail string) { o.Violation(sig, desc+" :: "+detail) }
	nres := map[string]int{}
	readers.Wait()
	for _, op := range ops {
		res, once := op.res, op.once
		cls := res
		if strings.HasPrefix(res, "ok:") {
			cls = "ok"
		} else if strings.HasPrefix(res, "err") {
			cls = "err"
		}
		_ = cls
		nres[op.kind]++
		if !once {
			bad("e2e:op-not-completed-exactly-once", fmt.Sprintf("%s op %d: %s", op.kind, op.id, res))
			continue
		}
		switch {
		case res == "shut" || res == "canceled":
			if !closed {
				bad("e2e:shutting-down-without-close", fmt.Sprintf("%s op %d: %s", op.kind, op.id, res))
			}
		case strings.HasPrefix(res, "err") && !strings.HasPrefix(res, "err?"):
			code, _ := strconv.Atoi(res[3:])
			ok := false
			// requests of multi-shard operations may still be executing: read under the server's lock
			srv.mu.Lock()
			held := append([]int(nil), srv.failed[code]...)
			srv.mu.Unlock()
			for _, id := range held {
				if id == op.id || (id >= 1000000 && (id-1000000)/1000 == op.id) {
					ok = true
				}
			}
			if !ok {
				bad("e2e:error-of-another-batch", fmt.Sprintf("%s op %d got %s, that request held %v", op.kind, op.id, res, held))
			}
		case op.kind == "put":
			if res != fmt.Sprintf("ok:%s:%d", op.key, op.id) {
				bad("e2e:result-of-another-operation", fmt.Sprintf("put op %d: %s", op.id, res))
			}
		case op.kind == "del":
			want := "ok"
			if op.id%2 == 1 {
				want = "notfound"
			}
			if res != want {
				bad("e2e:result-of-another-operation", fmt.Sprintf("delete op %d: %s", op.id, res))
			}
		case op.kind == "delrange-all":
			if res != "ok" {
				bad("e2e:result-of-another-operation", fmt.Sprintf("delete-range op %d: %s", op.id, res))
			}
		case op.kind == "get":
			if res != fmt.Sprintf("ok:%s:%s:%d", op.key, op.key, op.id) {
				bad("e2e:result-of-another-operation", fmt.Sprintf("get op %d: %s", op.id, res))
			}
		case op.kind == "floor":
			best := -1
			for _, rk := range ranks[op.id] {
				if rk > best {
					best = rk
				}
			}
			want := "notfound"
			if best >= 0 {
				want = fmt.Sprintf("ok:%s/%02d", op.key, best)
			}
			if res != want {
				bad("e2e:floor-not-the-extremum", fmt.Sprintf("floor op %d: %s, want %s (ranks %v)", op.id, res, want, ranks[op.id]))
			}
		}
	}
	// fan-out reads on a quiet client
	if !closed {
		ctx := context.Background()
		var listed []string
		okList := true
		lch := c.List(ctx, "", "")
		for lr := range lch {
			if lr.Err != nil {
				okList = false
			}
			listed = append(listed, lr.Keys...)
		}
		sort.Strings(listed)
		want := append([]string(nil), all...)
		sort.Strings(want)
		if !okList || strings.Join(listed, "\x00") != strings.Join(want, "\x00") {
			bad("e2e:list-not-the-union", fmt.Sprintf("listed %d keys, expected %d", len(listed), len(want)))
		}
		var scanned []string
		for gr := range c.RangeScan(ctx, "", "") {
			if gr.Err != nil {
				okList = false
			}
			scanned = append(scanned, gr.Key)
		}
		sortedOK := true
		for i := 1; i < len(scanned); i++ {
			if compare.CompareWithSlash([]byte(scanned[i-1]), []byte(scanned[i])) >= 0 {
				sortedOK = false
			}
		}
		s2 := append([]string(nil), scanned...)
		sort.Strings(s2)
		if !sortedOK || strings.Join(s2, "\x00") != strings.Join(want, "\x00") {
			bad("e2e:rangescan-not-a-sorted-permutation", fmt.Sprintf("scanned %q", scanned))
		}
		nres["list+scan"]++
		_ = closeFn()
	}
	// every operation that was answered ok travelled in exactly one request
	for _, op := range ops {
		if op.kind == "put" || op.kind == "del" {
			srv.mu.Lock()
			times := srv.sentIn[op.id]
			srv.mu.Unlock()
			if times > 1 {
				bad("e2e:operation-sent-twice", fmt.Sprintf("%s op %d sent in %d requests", op.kind, op.id, times))
			}
		}
	}
	keys := make([]string, 0, len(nres))
	for k := range nres {
		keys = append(keys, k)
	}
	sort.Strings(keys)
	var sum []string
	for _, k := range keys {
		sum = append(sum, fmt.Sprintf("%s:%d", k, nres[k]))
		o.CountN("e2e:op:"+k, nres[k])
	}
	o.Case("e2e", strings.ReplaceAll(desc, " ", ","), strings.Join(sum, ","), fmt.Sprintf("%d/%s", idx, desc))
}
