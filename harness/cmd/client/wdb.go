package main

// Write-result leg for C12 ("versioning, conditional writes and batch semantics match the sequential spec", as seen by
// the client): the real streamWrapper over an in-memory stream whose server side is a REAL kv.DB. The server is stalled
// on the case script: a request is applied through db.ProcessWrite and answered only when the script says so (r), so that
// caller timeouts (c<f>) fall while requests are on the wire. Requests carry conditional puts / deletes whose outcome
// depends on the versions produced by earlier requests. Every caller must receive exactly the per-operation statuses /
// version ids / modification counts that the DB produced for ITS request, and the DB must end in the state that applying
// the received requests one after the other yields.
//
//	wdb <id> <guard> <events> <ops>     events as for the stream kind;  ops = <f>=<op>+<op>;...   op = p<key>:<ev> | d<key>:<ev>
//	                                    ev = n (unconditional) | -1 (must not exist) | <version id>
//	-> as for the stream kind (payload of a response = its r-event argument)

import (
	"fmt"
	"os"
	"path/filepath"
	"sort"
	"strconv"
	"strings"
	"sync/atomic"

	"github.com/oxia-db/oxia/common/constant"
	time2 "github.com/oxia-db/oxia/common/time"
	"github.com/oxia-db/oxia/proto"
	"github.com/oxia-db/oxia/server/kv"

	"verif/harness/internal/hx"
)

type wdbOp struct {
	del bool
	key string
	ev  string // n | -1 | version id
}

type wdbServer struct {
	db        kv.DB
	ops       map[int][]wdbOp
	received  []int                        // caller ids in the order their requests reached the server
	reqs      map[int]*proto.WriteRequest  // what reached the server for caller f
	answered  int                          // how many received requests have been applied and answered
	produced  map[int]*proto.WriteResponse // what the DB produced for caller f's request
	delivered map[int]*proto.WriteResponse // what caller f was handed
	applyErr  error
}

var wdbFactory kv.Factory
var wdbShard atomic.Int64

func wdbNewDB() (kv.DB, error) {
	if wdbFactory == nil {
		dir := os.Getenv("VERIF_TMP")
		if dir == "" {
			dir = "/var/tmp"
		}
		f, err := kv.NewPebbleKVFactory(&kv.FactoryOptions{DataDir: filepath.Join(dir, fmt.Sprintf("wdb-%d", os.Getpid())), CacheSizeMB: 1, InMemory: true})
		if err != nil {
			return nil, err
		}
		wdbFactory = f
	}
	return kv.NewDB(constant.DefaultNamespace, wdbShard.Add(1), wdbFactory, 0, time2.SystemClock)
}

func buildWriteRequest(ops []wdbOp, tag int) *proto.WriteRequest {
	shard := int64(0)
	req := &proto.WriteRequest{Shard: &shard}
	for i, op := range ops {
		var ev *int64
		if op.ev != "n" {
			v, _ := strconv.ParseInt(op.ev, 10, 64)
			ev = &v
		}
		if op.del {
			req.Deletes = append(req.Deletes, &proto.DeleteRequest{Key: op.key, ExpectedVersionId: ev})
		} else {
			req.Puts = append(req.Puts, &proto.PutRequest{Key: op.key, Value: []byte(fmt.Sprintf("v%d.%d", tag, i)), ExpectedVersionId: ev})
		}
	}
	return req
}

func (s *wdbServer) requestFor(id int) *proto.WriteRequest { return buildWriteRequest(s.ops[id], id) }

func (s *wdbServer) receive(id int, req *proto.WriteRequest) {
	s.received = append(s.received, id)
	s.reqs[id] = req
}

func (s *wdbServer) applyNext() *proto.WriteResponse {
	if s.answered >= len(s.received) {
		return nil // nothing outstanding: the script lets the server send an unsolicited response
	}
	id := s.received[s.answered]
	resp, err := s.db.ProcessWrite(s.reqs[id], int64(s.answered), uint64(1000+s.answered), kv.NoOpCallback)
	s.answered++
	if err != nil {
		s.applyErr = err
		return nil
	}
	s.produced[id] = resp
	return resp
}

func fmtWriteResponse(r *proto.WriteResponse) string {
	if r == nil {
		return "<nil>"
	}
	var parts []string
	for _, p := range r.Puts {
		v, m := int64(-1), int64(-1)
		if p.Version != nil {
			v, m = p.Version.VersionId, p.Version.ModificationsCount
		}
		parts = append(parts, fmt.Sprintf("put:%s/v%d/m%d", p.Status, v, m))
	}
	for _, d := range r.Deletes {
		parts = append(parts, fmt.Sprintf("del:%s", d.Status))
	}
	return strings.Join(parts, ",")
}

func parseWdbOps(s string) map[int][]wdbOp {
	res := map[int][]wdbOp{}
	for _, part := range strings.Split(s, ";") {
		f := strings.SplitN(part, "=", 2)
		if len(f) != 2 {
			continue
		}
		id, _ := strconv.Atoi(f[0])
		for _, o := range strings.Split(f[1], "+") {
			kv := strings.SplitN(o[1:], ":", 2)
			res[id] = append(res[id], wdbOp{del: o[0] == 'd', key: kv[0], ev: kv[1]})
		}
	}
	return res
}

func fmtWdbOps(ops map[int][]wdbOp) string {
	ids := make([]int, 0, len(ops))
	for id := range ops {
		ids = append(ids, id)
	}
	sort.Ints(ids)
	var parts []string
	for _, id := range ids {
		var os []string
		for _, op := range ops[id] {
			k := "p"
			if op.del {
				k = "d"
			}
			os = append(os, fmt.Sprintf("%s%s:%s", k, op.key, op.ev))
		}
		parts = append(parts, fmt.Sprintf("%d=%s", id, strings.Join(os, "+")))
	}
	return strings.Join(parts, ";")
}

func dumpKeys(db kv.DB, keys []string) string {
	var parts []string
	for _, k := range keys {
		g, err := db.Get(&proto.GetRequest{Key: k, IncludeValue: true})
		switch {
		case err != nil:
			parts = append(parts, k+"=ERR")
		case g.Status != proto.Status_OK:
			parts = append(parts, k+"=absent")
		default:
			parts = append(parts, fmt.Sprintf("%s=%s/v%d/m%d", k, g.Value, g.Version.VersionId, g.Version.ModificationsCount))
		}
	}
	return strings.Join(parts, " ")
}

func doWdbCase(o *hx.Out, events []string, ops map[int][]wdbOp) {
	in := "1 " + strings.Join(events, ",") + " " + fmtWdbOps(ops)
	db, err := wdbNewDB()
	if err != nil {
		o.Count("wdb:cannot-create-db")
		return
	}
	defer db.Close()
	srv := &wdbServer{db: db, ops: ops, reqs: map[int]*proto.WriteRequest{}, produced: map[int]*proto.WriteResponse{},
		delivered: map[int]*proto.WriteResponse{}}
	res := runStreamCase(events, srv)
	o.Case("wdb", in, res, in)
	line := "wdb " + in
	checkStreamSpec(o, events, res, line)
	if srv.applyErr != nil {
		o.Violation("write:server-could-not-apply", line+" => "+srv.applyErr.Error())
		return
	}
	// what every caller was told is what the DB produced for its own request
	ids := make([]int, 0, len(srv.delivered))
	for id := range srv.delivered {
		ids = append(ids, id)
	}
	sort.Ints(ids)
	for _, id := range ids {
		got := srv.delivered[id]
		if want, ok := srv.produced[id]; !ok || got != want {
			o.Violation("write:result-of-another-request", fmt.Sprintf("%s => %s (caller %d was told [%s], the DB answered its request with [%s])",
				line, res, id, fmtWriteResponse(got), fmtWriteResponse(srv.produced[id])))
			return
		}
		o.CountN("wdb:results-checked", 1)
	}
	// the shard holds what applying the received requests one after the other yields
	ref, err := wdbNewDB()
	if err != nil {
		return
	}
	defer ref.Close()
	keySet := map[string]bool{}
	for i := 0; i < srv.answered; i++ {
		id := srv.received[i]
		for _, op := range ops[id] {
			keySet[op.key] = true
		}
		if _, err := ref.ProcessWrite(buildWriteRequest(ops[id], id), int64(i), uint64(1000+i), kv.NoOpCallback); err != nil {
			return
		}
	}
	keys := make([]string, 0, len(keySet))
	for k := range keySet {
		keys = append(keys, k)
	}
	sort.Strings(keys)
	if a, b := dumpKeys(db, keys), dumpKeys(ref, keys); a != b {
		o.Violation("write:state-not-sequential", fmt.Sprintf("%s => shard [%s], sequential application of the requests sent [%s]", line, a, b))
	}
}

// genWdbCase: a stream script in which requests are on the wire while callers time out, plus conditional writes whose
// outcome depends on earlier requests (version id of the k-th applied request is k).
func genWdbCase(r *hx.Rng) ([]string, map[int][]wdbOp) {
	events := genStreamCase(r)
	ops := map[int][]wdbOp{}
	keys := []string{"a", "b", "c"}
	for _, ev := range events {
		if ev[0] != 's' {
			continue
		}
		id, _ := strconv.Atoi(strings.Split(ev[1:], ":")[0])
		n := 1 + r.Intn(3)
		for i := 0; i < n; i++ {
			op := wdbOp{del: r.Chance(25), key: hx.Pick(r, keys)}
			switch r.Intn(10) {
			case 0, 1, 2, 3:
				op.ev = "n"
			case 4, 5:
				op.ev = "-1"
			default:
				op.ev = strconv.Itoa(r.Intn(5))
			}
			ops[id] = append(ops[id], op)
		}
	}
	return events, ops
}
