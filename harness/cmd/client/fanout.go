package main

// Fan-out leg: aggregateAndSortRangeScanAcrossShards over scripted per-shard channels, doMultiShardGet with the
// per-shard callbacks invoked in a scripted arrival order, and List through a client wired to a fake executor.

import (
	"context"
	"encoding/hex"
	"errors"
	"fmt"
	"io"
	"runtime"
	"sort"
	"strconv"
	"strings"
	"time"

	"google.golang.org/grpc"
	"google.golang.org/grpc/codes"
	"google.golang.org/grpc/status"

	"github.com/oxia-db/oxia/common/compare"
	"github.com/oxia-db/oxia/oxia"
	"github.com/oxia-db/oxia/proto"

	"verif/harness/internal/hx"
)

type mitem struct {
	isErr   bool
	key     string
	payload int // error code for errors
}

func (m mitem) String() string {
	if m.isErr {
		return fmt.Sprintf("E%d", m.payload)
	}
	return fmt.Sprintf("k%s:%d", hx.Hex([]byte(m.key)), m.payload)
}

func parseItem(s string) mitem {
	if s[0] == 'E' {
		c, _ := strconv.Atoi(s[1:])
		return mitem{isErr: true, payload: c}
	}
	f := strings.Split(s[1:], ":")
	p, _ := strconv.Atoi(f[1])
	return mitem{key: string(hx.UnHex(f[0])), payload: p}
}

func parseChans(s string) [][]mitem {
	var res [][]mitem
	for _, c := range strings.Split(s, "|") {
		var ch []mitem
		for _, t := range splitList(c) {
			ch = append(ch, parseItem(t))
		}
		res = append(res, ch)
	}
	return res
}

func fmtChans(chans [][]mitem) string {
	if len(chans) == 0 {
		return "-"
	}
	parts := make([]string, len(chans))
	for i, ch := range chans {
		if len(ch) == 0 {
			parts[i] = "-"
			continue
		}
		s := make([]string, len(ch))
		for j, it := range ch {
			s[j] = it.String()
		}
		parts[i] = strings.Join(s, ",")
	}
	return strings.Join(parts, "|")
}

func fmtItems(l []mitem) string {
	if len(l) == 0 {
		return "-"
	}
	s := make([]string, len(l))
	for i, it := range l {
		s[i] = it.String()
	}
	return strings.Join(s, ",")
}

// canonRuns orders runs of records with the same key by payload (which of several equal keys the heap pops
// first is not specified).
func canonRuns(l []mitem) []mitem {
	res := append([]mitem(nil), l...)
	i := 0
	for i < len(res) {
		j := i + 1
		for j < len(res) && !res[i].isErr && !res[j].isErr && res[j].key == res[i].key {
			j++
		}
		sort.Slice(res[i:j], func(a, b int) bool { return res[i+a].payload < res[i+b].payload })
		i = j
	}
	return res
}

type scriptErr struct{ code int }

func (e *scriptErr) Error() string { return fmt.Sprintf("scripted shard error %d", e.code) }

// itemErr: error items below 1000 are opaque errors; 1000+c is the gRPC status with code c (1 Canceled,
// 4 DeadlineExceeded, 13 Internal, 14 Unavailable, 100.. the oxia codes), the way a per-shard stream can end.
func itemErr(code int) error {
	if code >= 1000 {
		return status.Error(codes.Code(code-1000), "scripted stream status")
	}
	return &scriptErr{code}
}

func codeOfErr(err error) int {
	var se *scriptErr
	if errors.As(err, &se) {
		return se.code
	}
	if st, ok := status.FromError(err); ok && st.Code() != codes.OK {
		return 1000 + int(st.Code())
	}
	return -1
}

func toGetResult(it mitem) oxia.GetResult {
	if it.isErr {
		return oxia.GetResult{Err: itemErr(it.payload)}
	}
	return oxia.GetResult{Key: it.key, Version: oxia.Version{VersionId: int64(it.payload)}}
}

func fromGetResult(r oxia.GetResult) mitem {
	if r.Err != nil {
		return mitem{isErr: true, payload: codeOfErr(r.Err)}
	}
	return mitem{key: r.Key, payload: int(r.Version.VersionId)}
}

// runMerge feeds the real aggregateAndSortRangeScanAcrossShards from one producer goroutine per shard.
func runMerge(chans [][]mitem, r *hx.Rng) (out []mitem, panicked bool, timedOut bool) {
	channels := make([]chan oxia.GetResult, len(chans))
	done := make(chan struct{})
	defer close(done)
	for i := range chans {
		ch := make(chan oxia.GetResult)
		channels[i] = ch
		items := chans[i]
		yields := r.Intn(3)
		go func() {
			defer close(ch)
			for _, it := range items {
				for y := 0; y < yields; y++ {
					runtime.Gosched()
				}
				select {
				case ch <- toGetResult(it):
				case <-done:
					return
				}
			}
		}()
	}
	outCh := make(chan oxia.GetResult, 4)
	pc := make(chan bool, 1)
	go func() {
		defer func() { pc <- recover() != nil }()
		oxia.VerifAggregateAndSort(channels, outCh)
	}()
	for {
		select {
		case gr, ok := <-outCh:
			if !ok {
				return out, false, false
			}
			out = append(out, fromGetResult(gr))
		case p := <-pc:
			if p {
				return out, true, false
			}
			// returned normally: outCh is closed (drain what is buffered)
			for gr := range outCh {
				out = append(out, fromGetResult(gr))
			}
			return out, false, false
		case <-expired():
			expiredWaits.Add(1)
			return out, false, true
		}
	}
}

// sigOrder / sigLost: the signatures used for an out-of-order and for a lossy merge (the C11 leg reports them as
// scan:... , the C20 legs as merge:...)
var sigOrder, sigLost, sigDup, sigAfterErr = "merge:output-not-in-key-order", "merge:lost-item", "merge:duplicated-or-invented-item", "merge:continues-after-error"

func checkMergeSpec(o *hxOut, chans [][]mitem, out []mitem, line string, res string) {
	// multiset of inputs
	in := map[string]int{}
	hasErr, sortedIn := false, true
	for _, ch := range chans {
		for i, it := range ch {
			in[it.String()]++
			if it.isErr {
				hasErr = true
				if i != len(ch)-1 {
					sortedIn = false
				}
			} else if i > 0 && !ch[i-1].isErr && compare.CompareWithSlash([]byte(ch[i-1].key), []byte(it.key)) > 0 {
				sortedIn = false
			}
		}
	}
	for i, it := range out {
		in[it.String()]--
		if in[it.String()] < 0 {
			o.Violation(sigDup, line+" => "+res)
			return
		}
		if it.isErr && i != len(out)-1 {
			o.Violation(sigAfterErr, line+" => "+res)
			return
		}
	}
	if !hasErr {
		for _, c := range in {
			if c != 0 {
				o.Violation(sigLost, line+" => "+res)
				return
			}
		}
	} else if len(out) == 0 || !out[len(out)-1].isErr {
		// with an error somewhere, the output must end with an error unless every stream was fully consumed
		left := 0
		for _, c := range in {
			left += c
		}
		if left != 0 {
			o.Violation(sigLost, line+" => "+res)
			return
		}
	}
	if sortedIn {
		for i := 1; i < len(out); i++ {
			if out[i].isErr {
				break
			}
			if compare.CompareWithSlash([]byte(out[i-1].key), []byte(out[i].key)) > 0 {
				o.Violation(sigOrder, line+" => "+res)
				return
			}
		}
	}
}

// ---------------------------------------------------------------- multi-shard get

type marrival struct {
	isErr  bool
	code   int
	status byte // o n x
	key    *string
	sec    *string
	pay    int
}

func optHex(p *string) string {
	if p == nil {
		return "*"
	}
	return hx.Hex([]byte(*p))
}

func (a marrival) String() string {
	if a.isErr {
		return fmt.Sprintf("E%d", a.code)
	}
	return fmt.Sprintf("R%c:%s:%s:%d", a.status, optHex(a.key), optHex(a.sec), a.pay)
}

func parseOptHex(s string) *string {
	if s == "*" {
		return nil
	}
	b, _ := hex.DecodeString(strings.ReplaceAll(s, "-", ""))
	v := string(b)
	return &v
}

func parseArrival(s string) marrival {
	if s[0] == 'E' {
		c, _ := strconv.Atoi(s[1:])
		return marrival{isErr: true, code: c}
	}
	f := strings.Split(s[1:], ":")
	p, _ := strconv.Atoi(f[3])
	return marrival{status: f[0][0], key: parseOptHex(f[1]), sec: parseOptHex(f[2]), pay: p}
}

func kcOption(kc string) oxia.GetOption {
	switch kc {
	case "floor":
		return oxia.ComparisonFloor()
	case "lower":
		return oxia.ComparisonLower()
	case "ceil":
		return oxia.ComparisonCeiling()
	case "higher":
		return oxia.ComparisonHigher()
	}
	return oxia.ComparisonEqual()
}

func fmtGetResult(r oxia.GetResult) string {
	var se *scriptErr
	switch {
	case r.Err == nil:
		return fmt.Sprintf("res:%s:%d", hx.Hex([]byte(r.Key)), r.Version.VersionId)
	case errors.Is(r.Err, oxia.ErrKeyNotFound):
		return "notfound"
	case errors.As(r.Err, &se):
		return fmt.Sprintf("err%d", se.code)
	default:
		return "status"
	}
}

// runMultiGet runs the real doMultiShardGet for nshards shards and invokes the per-shard callbacks it registered,
// one per arrival, in the order given by perm.
func runMultiGet(kc string, orig string, nshards int, arr []marrival, perm []int) string {
	shards := make([]int64, nshards)
	for i := range shards {
		shards[i] = int64(i)
	}
	opts := []oxia.GetOption{kcOption(kc)}
	for _, a := range arr {
		if !a.isErr && a.sec != nil {
			// the answers come from a secondary index: the search key is in the index key space, the answers'
			// Key is the primary key
			opts = append(opts, oxia.UseIndex("idx"))
			break
		}
	}
	ch, calls := oxia.VerifMultiShardGet(orig, shards, opts...)
	if len(calls) != nshards {
		return fmt.Sprintf("BAD-CALLS-%d", len(calls))
	}
	var steps []string
	rch := ch // set to nil once the close has been observed
	dead := false
	for i, a := range arr {
		if dead {
			steps = append(steps, "-")
			continue
		}
		var obs []string
		var resp *proto.GetResponse
		var err error
		if a.isErr {
			err = &scriptErr{a.code}
		} else {
			st := proto.Status_OK
			switch a.status {
			case 'n':
				st = proto.Status_KEY_NOT_FOUND
			case 'x':
				st = proto.Status_UNEXPECTED_VERSION_ID
			}
			resp = &proto.GetResponse{Status: st, Key: a.key, SecondaryIndexKey: a.sec,
				Version: &proto.Version{VersionId: int64(a.pay)}}
		}
		cb := calls[perm[i]].Callback
		cbDone := make(chan bool, 1)
		go func() { cbDone <- safely(func() { cb(resp, err) }) }()
		// this goroutine is the reader of the (unbuffered) result channel: a send made by the callback has
		// been received here before the callback can return
		returned, p := false, false
		for !returned {
			select {
			case r, ok := <-rch:
				if ok {
					obs = append(obs, "send:"+fmtGetResult(r))
				} else {
					obs = append(obs, "close")
					rch = nil
				}
			case p = <-cbDone:
				returned = true
			case <-expired():
				expiredWaits.Add(1)
				obs = append(obs, "TIMEOUT")
				returned = true
			}
		}
		// the callback has returned: a close it made is visible now
		if rch != nil {
			select {
			case r, ok := <-rch:
				if ok {
					obs = append(obs, "send:"+fmtGetResult(r))
				} else {
					obs = append(obs, "close")
					rch = nil
				}
			default:
			}
		}
		if p {
			obs = append(obs, "PANIC")
			dead = true
		}
		if len(obs) == 0 {
			steps = append(steps, "-")
		} else {
			steps = append(steps, strings.Join(obs, ","))
		}
	}
	if len(steps) == 0 {
		return "-"
	}
	return strings.Join(steps, ";")
}

func lexLess(a, b marrival) int {
	if a.sec != nil && b.sec != nil {
		if c := compare.CompareWithSlash([]byte(*a.sec), []byte(*b.sec)); c != 0 {
			return c
		}
	}
	ak, bk := "", ""
	if a.key != nil {
		ak = *a.key
	}
	if b.key != nil {
		bk = *b.key
	}
	return compare.CompareWithSlash([]byte(ak), []byte(bk))
}

func checkMultiGetSpec(o *hxOut, kc string, orig string, nshards int, arr []marrival, result string, line string) {
	if strings.Contains(result, "PANIC") {
		o.Violation("mget:panic-send-on-closed-channel", line+" => "+result)
		return
	}
	firstErr := -1
	uniform := true
	var oks []marrival
	nsec := 0
	for i, a := range arr {
		if a.isErr {
			if firstErr < 0 {
				firstErr = i
			}
			continue
		}
		if a.status == 'o' {
			oks = append(oks, a)
		}
		if a.sec != nil {
			nsec++
		}
	}
	if nsec != 0 && nsec != len(oks) {
		uniform = false
	}
	// observations per arrival
	var obs []string
	firstSend := -1
	if result != "-" {
		for i, st := range strings.Split(result, ";") {
			for _, x := range splitList(st) {
				if strings.HasPrefix(x, "send:") && firstSend < 0 {
					firstSend = i
				}
				obs = append(obs, x)
			}
		}
	}
	// a reply while some shard has not answered and no error has occurred
	if firstSend >= 0 && firstSend < nshards-1 && (firstErr < 0 || firstErr > firstSend) {
		o.Violation("mget:answered-before-all-shards-replied", line+" => "+result)
		return
	}
	complete := firstErr >= 0 || len(arr) >= nshards
	if !complete {
		if len(obs) != 0 {
			o.Violation("mget:answered-before-all-shards-replied", line+" => "+result)
		}
		return
	}
	if len(obs) != 2 || !strings.HasPrefix(obs[0], "send:") || obs[1] != "close" {
		o.Violation("mget:not-exactly-one-answer", line+" => "+result)
		return
	}
	got := strings.TrimPrefix(obs[0], "send:")
	if firstErr >= 0 {
		if got != fmt.Sprintf("err%d", arr[firstErr].code) {
			o.Violation("mget:wrong-error", line+" => "+result)
		}
		return
	}
	if len(oks) == 0 {
		if got != "notfound" {
			o.Violation("mget:wrong-answer", line+" => "+result)
		}
		return
	}
	if !uniform {
		return
	}
	best := oks[0]
	for _, a := range oks[1:] {
		c := lexLess(best, a)
		switch kc {
		case "floor", "lower":
			if c < 0 {
				best = a
			}
		case "ceil", "higher":
			if c > 0 {
				best = a
			}
		}
	}
	k := orig
	if best.key != nil {
		k = *best.key
	}
	// ties (same secondary and primary key from two shards) carry different payloads: compare the key only then
	want := fmt.Sprintf("res:%s:", hx.Hex([]byte(k)))
	if !strings.HasPrefix(got, want) {
		o.Violation("mget:not-the-extremum", line+" => "+result+" (want key "+hx.Hex([]byte(k))+")")
	}
}

// ---------------------------------------------------------------- List through the client

type fakeListStream struct {
	grpc.ClientStream
	items []mitem
}

func (s *fakeListStream) Recv() (*proto.ListResponse, error) {
	if len(s.items) == 0 {
		return nil, io.EOF
	}
	it := s.items[0]
	s.items = s.items[1:]
	runtime.Gosched()
	if it.isErr {
		return nil, itemErr(it.payload)
	}
	return &proto.ListResponse{Keys: []string{it.key}}, nil
}

// runList: the real clientImpl.List over len(chans) shards; shard i streams chans[i] (one key per message).
func runList(chans [][]mitem) (out []mitem, timedOut bool) {
	shards := make([]int64, len(chans))
	for i := range shards {
		shards[i] = int64(i)
	}
	exec := &oxia.VerifExecutor{
		List: func(_ context.Context, req *proto.ListRequest) (proto.OxiaClient_ListClient, error) {
			items := chans[int(*req.Shard)]
			if len(items) > 0 && items[0].isErr && items[0].payload%2 == 0 {
				// an even error code in first position: the executor itself fails
				return nil, itemErr(items[0].payload)
			}
			return &fakeListStream{items: append([]mitem(nil), items...)}, nil
		},
	}
	c, closeFn := oxia.NewVerifClient(shards, func(string) int64 { return 0 }, exec, 0, 10, 1<<20, 5*time.Second)
	defer func() { _ = closeFn() }()
	ch := c.List(context.Background(), "", "")
	for {
		select {
		case lr, ok := <-ch:
			if !ok {
				return out, false
			}
			if lr.Err != nil {
				out = append(out, mitem{isErr: true, payload: codeOfErr(lr.Err)})
			}
			for _, k := range lr.Keys {
				out = append(out, mitem{key: k})
			}
		case <-expired():
			expiredWaits.Add(1)
			return out, true
		}
	}
}

// ---------------------------------------------------------------- RangeScan through the client

type scriptScanStream struct {
	grpc.ClientStream
	items []mitem
	chunk int
}

// Recv delivers the records in messages of varying size; an error item ends the stream with that error.
func (s *scriptScanStream) Recv() (*proto.RangeScanResponse, error) {
	if len(s.items) == 0 {
		return nil, io.EOF
	}
	if s.items[0].isErr {
		err := itemErr(s.items[0].payload)
		s.items = nil
		return nil, err
	}
	resp := &proto.RangeScanResponse{}
	n := 1 + s.chunk%3
	s.chunk++
	for len(s.items) > 0 && !s.items[0].isErr && n > 0 {
		it := s.items[0]
		k := it.key
		resp.Records = append(resp.Records, &proto.GetResponse{Status: proto.Status_OK, Key: &k,
			Version: &proto.Version{VersionId: int64(it.payload)}})
		s.items = s.items[1:]
		n--
	}
	runtime.Gosched()
	return resp, nil
}

// runScan: the real clientImpl.RangeScan (rangeScanFromShard per shard + aggregateAndSortRangeScanAcrossShards) over
// len(chans) >= 1 shards; shard i streams chans[i].
func runScan(chans [][]mitem) (out []mitem, timedOut bool) {
	shards := make([]int64, len(chans))
	for i := range shards {
		shards[i] = int64(i)
	}
	exec := &oxia.VerifExecutor{
		RangeScan: func(_ context.Context, req *proto.RangeScanRequest) (proto.OxiaClient_RangeScanClient, error) {
			items := chans[int(*req.Shard)]
			if len(items) > 0 && items[0].isErr && items[0].payload%2 == 0 {
				return nil, itemErr(items[0].payload)
			}
			return &scriptScanStream{items: append([]mitem(nil), items...), chunk: int(*req.Shard)}, nil
		},
	}
	c, closeFn := oxia.NewVerifClient(shards, func(string) int64 { return 0 }, exec, 0, 10, 1<<20, 5*time.Second)
	defer func() { _ = closeFn() }()
	ch := c.RangeScan(context.Background(), "", "")
	for {
		select {
		case gr, ok := <-ch:
			if !ok {
				return out, false
			}
			out = append(out, fromGetResult(gr))
		case <-expired():
			expiredWaits.Add(1)
			return out, true
		}
	}
}

// checkFanoutSpec: the result of a multi-shard List / RangeScan is the union of what the shards streamed, or an error
// is delivered. ordered: the result stops at the first error it delivers (range scan), else every item is delivered.
func checkFanoutSpec(o *hxOut, chans [][]mitem, out []mitem, ordered bool, line string, res string) {
	in := map[string]int{}
	anyErr := false
	total := 0
	for _, ch := range chans {
		for _, it := range ch {
			in[it.String()]++
			total++
			if it.isErr {
				anyErr = true
			}
		}
	}
	outErr := false
	for _, it := range out {
		in[it.String()]--
		if in[it.String()] < 0 {
			o.Violation("fanout:result-not-union", line+" => "+res+" (item "+it.String()+" duplicated or invented)")
			return
		}
		if it.isErr {
			outErr = true
		}
	}
	if anyErr && !outErr {
		o.Violation("fanout:shard-stream-error-swallowed", line+" => "+res)
		return
	}
	if !anyErr && len(out) != total {
		o.Violation("fanout:result-not-union", line+" => "+res+" (items lost)")
		return
	}
	if !ordered && len(out) != total {
		o.Violation("fanout:result-not-union", line+" => "+res+" (items lost)")
	}
}

func sortItems(l []mitem) []mitem {
	res := append([]mitem(nil), l...)
	sort.Slice(res, func(i, j int) bool {
		a, b := res[i], res[j]
		if a.isErr != b.isErr {
			return !a.isErr
		}
		if a.isErr {
			return a.payload < b.payload
		}
		ha, hb := hx.Hex([]byte(a.key)), hx.Hex([]byte(b.key))
		if ha != hb {
			return ha < hb
		}
		return a.payload < b.payload
	})
	return res
}
