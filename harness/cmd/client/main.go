// harness client: drives the client-side batching and fan-out code of oxia (oxia/batch, oxia/internal/batch,
// oxia/internal/write_stream.go, oxia/async_client_impl.go, oxia/results_heap.go) and writes inputs + canonical
// observables for the Coq model (Oxia.Client.Model) to compare, plus direct verdicts of the specification.
//
//	-mode model (default): batch / stream / merge / list / mget cases, compared with the extracted model
//	-mode e2e            : the whole client over a fake executor, specification verdicts only
//	-mode routing        : which shard every kind of operation reaches, with and without partition key (C18)
package main

import (
	"flag"
	"fmt"
	"os"
	"runtime"
	"sort"
	"strconv"
	"strings"
	"time"

	"github.com/oxia-db/oxia/common/compare"

	"verif/harness/internal/hx"
)

type hxOut = hx.Out
type hxRng = hx.Rng

var mode = flag.String("mode", "model", "model|e2e|routing|merge|mget|wsend|wresp")

const tickLinger = 15 * time.Millisecond

// ---------------------------------------------------------------- batch cases

func batchLine(cfg bcfg, script []behaviour, events []bevent) string {
	ss := make([]string, len(script))
	for i, b := range script {
		ss[i] = b.String()
	}
	es := make([]string, len(events))
	for i, e := range events {
		es[i] = e.String()
	}
	sc := "-"
	if len(ss) > 0 {
		sc = strings.Join(ss, ",")
	}
	ev := "-"
	if len(es) > 0 {
		ev = strings.Join(es, ",")
	}
	return fmt.Sprintf("%s %s %s", cfg, sc, ev)
}

func doBatchCase(o *hx.Out, cfg bcfg, script []behaviour, events []bevent) {
	line := batchLine(cfg, script, events)
	var res string
	ok := false
	for try := 0; try < 6 && !ok; try++ {
		if try > 0 {
			o.Count("batch:rerun-after-early-timer")
		}
		res, ok = runBatchOnce(cfg, script, events, tickLinger*time.Duration(1+try))
	}
	if !ok {
		o.Count("batch:abandoned-timing")
		return
	}
	o.Case("batch", line, res, line)
	for _, e := range events {
		o.Count("batch:event:" + string(e.typ))
	}
	o.Count(fmt.Sprintf("batch:cfg:write=%v,linger>0=%v", cfg.write, cfg.lingerPos))
	o.CountN("batch:obs:request-sent", strings.Count(res, "S"))
	o.CountN("batch:obs:callback-ok", strings.Count(res, "=ok"))
	o.CountN("batch:obs:callback-batch-error", strings.Count(res, "=err"))
	o.CountN("batch:obs:callback-shutting-down", strings.Count(res, "=shut"))
	o.CountN("batch:obs:panic", strings.Count(res, "PANIC"))
	if strings.Contains(res, "TIMEOUT") {
		o.Violation("batch:no-progress", "batch "+line+" => "+res)
		return
	}
	checkBatchSpec(o, cfg, script, events, res, "batch "+line)
}

func genBatchCase(r *hx.Rng, nextID *int, allowRetry *int) (bcfg, []behaviour, []bevent) {
	cfg := bcfg{
		write:     r.Chance(70),
		lingerPos: r.Chance(65),
		maxReq:    hx.Pick(r, []int{1, 2, 2, 3, 3, 4, 5, 8, 0, -1, 1000}),
		maxBytes:  hx.Pick(r, []int{0, 6, 8, 10, 12, 16, 20, 32, 64, 1 << 20}),
	}
	nev := 1 + r.Intn(24)
	var events []bevent
	closes := 0
	ticks := 0
	malformed := r.Chance(4)
	// calls of size zero: rare in most cases, the majority in some (batches made only of them, alone, first, last)
	zeroPct := 8
	if r.Chance(15) {
		zeroPct = 60
	}
	zeroRangeUsed := false
	for i := 0; i < nev; i++ {
		x := r.Intn(100)
		switch {
		case x < 8 && cfg.lingerPos && ticks < 3:
			events = append(events, bevent{typ: 'T'})
			ticks++
		case x < 11 && closes == 0 && i > nev/2, x < 13 && closes == 1 && malformed:
			events = append(events, bevent{typ: 'X'})
			closes++
		default:
			*nextID++
			id := *nextID
			var kind byte = 'g'
			if cfg.write {
				kind = hx.Pick(r, []byte{'p', 'p', 'p', 'd', 'd', 'r'})
			}
			if malformed && r.Chance(15) {
				kind = hx.Pick(r, []byte{'p', 'g', 'd'})
			}
			size := 0
			zero := false
			switch {
			case kind == 'g':
				if r.Chance(10) {
					size = 1 // marker: a get of the empty key
				}
			case r.Chance(zeroPct) && (kind != 'r' || !zeroRangeUsed):
				// a call without key material (Delete(""), Put("", nil), DeleteRange("", "")): getByteSize is 0
				zero = true
				if kind == 'r' {
					zeroRangeUsed = true
				}
			}
			if kind != 'g' && !zero {
				size = minSize(id) + hx.Pick(r, []int{0, 0, 1, 2, 3, 4, 6, 8, 10, 14, 30})
				// make exact fits of the byte limit frequent
				if cfg.maxBytes >= minSize(id) && cfg.maxBytes < 100 && r.Chance(25) {
					size = hx.Pick(r, []int{cfg.maxBytes, cfg.maxBytes / 2, cfg.maxBytes + 1, cfg.maxBytes - 1})
					if size < minSize(id) {
						size = minSize(id)
					}
				}
			}
			events = append(events, bevent{typ: 'C', call: bcall{id: id, kind: kind, size: size}})
		}
	}
	if closes == 0 && r.Chance(55) {
		events = append(events, bevent{typ: 'X'})
	}
	var script []behaviour
	for i := 0; i < nev; i++ {
		x := r.Intn(100)
		kinds := []byte{'P', 'D', 'R'}
		if !cfg.write {
			kinds = []byte{'G'}
		}
		switch {
		case x < 70:
			script = append(script, behaviour{typ: 'o'})
		case x < 86:
			script = append(script, behaviour{typ: 'e', code: 1 + r.Intn(9)})
		case x < 91:
			script = append(script, behaviour{typ: 's', kind: hx.Pick(r, kinds), d: 1 + r.Intn(2)})
		case x < 96:
			script = append(script, behaviour{typ: 'l', kind: hx.Pick(r, kinds), d: 1 + r.Intn(2)})
		case *allowRetry > 0 && i < 2:
			// one to three attempts whose stream delivers some answers and then fails with a retriable status
			b := behaviour{typ: 'o'}
			if r.Chance(20) {
				b = behaviour{typ: 'e', code: 1 + r.Intn(9)}
			}
			for a := 0; a < 1+r.Intn(3) && *allowRetry > 0; a++ {
				*allowRetry--
				b.pre = append(b.pre, r.Intn(4))
			}
			script = append(script, b)
		default:
			script = append(script, behaviour{typ: 'o'})
		}
	}
	return cfg, script, events
}

// ---------------------------------------------------------------- stream cases

func doStreamCase(o *hx.Out, events []string) {
	in := "1 " + strings.Join(events, ",")
	res := runStreamCase(events, nil)
	o.Case("stream", in, res, in)
	o.CountN("stream:obs:ok", strings.Count(res, "=ok"))
	o.CountN("stream:obs:eof", strings.Count(res, "=eof"))
	o.CountN("stream:obs:errsend", strings.Count(res, "=errsend"))
	o.CountN("stream:obs:request-context-done", strings.Count(res, "=errctx"))
	checkStreamSpec(o, events, res, "stream "+in)
}

func genStreamCase(r *hx.Rng) []string {
	n := 1 + r.Intn(16)
	var ev []string
	broken := false
	f := 0
	// bookkeeping used only to shape the input: the successfully sent requests not yet answered, in order (an
	// abandoned one keeps its place), whether the receive loop still runs, which sends failed
	type pend struct {
		id        int
		abandoned bool
	}
	var queue []pend
	var failedSends []int
	recvAlive := true
	for i := 0; i < n; i++ {
		x := r.Intn(100)
		switch {
		case x < 40:
			f++
			ok := !broken && r.Chance(95)
			if !ok {
				broken = true
				failedSends = append(failedSends, f)
			} else {
				queue = append(queue, pend{id: f})
			}
			ev = append(ev, fmt.Sprintf("s%d:%d", f, map[bool]int{true: 1, false: 0}[ok]))
		case x < 78:
			if len(queue) == 0 && !r.Chance(12) {
				continue
			}
			if recvAlive {
				if len(queue) > 0 {
					queue = queue[1:]
				} else {
					recvAlive = false // an unsolicited response ends the receive loop
				}
			}
			ev = append(ev, fmt.Sprintf("r%d", 100+i))
		case x < 88:
			// per-request cancellation: of a request still on the wire, or (no effect) of a failed / unknown one
			var live []int
			for qi := range queue {
				if !queue[qi].abandoned {
					live = append(live, qi)
				}
			}
			switch {
			case len(live) > 0 && r.Chance(85):
				qi := hx.Pick(r, live)
				queue[qi].abandoned = true
				ev = append(ev, fmt.Sprintf("c%d", queue[qi].id))
			case len(failedSends) > 0 && r.Bool():
				ev = append(ev, fmt.Sprintf("c%d", hx.Pick(r, failedSends)))
			default:
				ev = append(ev, "c999")
			}
		case x < 91:
			ev = append(ev, "e")
			recvAlive = false
		case x < 95:
			ev = append(ev, "x")
			broken = true
			queue = nil
		default:
			// a burst of responses (possibly more than requests)
			for k := 0; k < 2; k++ {
				ev = append(ev, fmt.Sprintf("r%d", 200+100*k+i))
				if recvAlive {
					if len(queue) > 0 {
						queue = queue[1:]
					} else {
						recvAlive = false
					}
				}
			}
		}
	}
	return append(ev, "x")
}

// ---------------------------------------------------------------- keys

var keyAlphabet = []byte{'a', 'b', '/', '/', '.', '0', '-', '%', 0x01, 0xff}

func genKey(r *hx.Rng) string {
	n := 1 + r.Intn(6)
	b := make([]byte, n)
	for i := range b {
		b[i] = hx.Pick(r, keyAlphabet)
	}
	return string(b)
}

func sortSlash(keys []string) {
	sort.SliceStable(keys, func(i, j int) bool {
		return compare.CompareWithSlash([]byte(keys[i]), []byte(keys[j])) < 0
	})
}

// ---------------------------------------------------------------- merge / list / scan cases

// streamEndCodes: how a per-shard stream can end besides io.EOF: opaque errors (1..50) and every kind of gRPC status
// (1000 + code): Canceled, Unknown, DeadlineExceeded, Internal, Unavailable, and the oxia codes 100..109
var statusEnds = []int{1001, 1001, 1002, 1004, 1013, 1014, 1014, 1100, 1102, 1103, 1104, 1106, 1108}

func streamEnd(r *hx.Rng) int {
	if r.Chance(55) {
		return hx.Pick(r, statusEnds)
	}
	return 1 + r.Intn(50)
}

// stress alphabet for the comparer: depth differences, bytes just below and above '/', long segments
var slashAlphabet = []byte{'a', 'a', 'b', 'c', '/', '/', '/', '-', '.', ' ', '0', '!', '~', 0x01, 0xff}

func genSlashKey(r *hx.Rng) string {
	n := 1 + r.Intn(7)
	if r.Chance(10) {
		n = 8 + r.Intn(12) // long segments
	}
	b := make([]byte, n)
	for i := range b {
		b[i] = hx.Pick(r, slashAlphabet)
	}
	return string(b)
}

// genScanCase: 2..5 shards (1..5 when lone), sorted per-shard streams of globally distinct keys from the stress
// alphabet; errors (incl. gRPC statuses) end some streams, at most one stream is an error from the start
func genScanCase(r *hx.Rng, withErrors bool) [][]mitem {
	k := 2 + r.Intn(4)
	total := 2 + r.Intn(28)
	seen := map[string]bool{}
	per := make([][]string, k)
	// now and then the textbook shape: P < R < N in slash order with N before R bytewise, P and N on one shard
	if r.Chance(30) {
		p, rr, n := "a/a", "a/c", "a-b/c"
		if r.Bool() {
			p, rr, n = "a/a", "a/bc", "a/b/c"
		}
		i := r.Intn(k)
		j := (i + 1 + r.Intn(k-1)) % k
		per[i] = append(per[i], p, n)
		per[j] = append(per[j], rr)
		seen[p], seen[rr], seen[n] = true, true, true
	}
	for c := 0; c < total; c++ {
		key := genSlashKey(r)
		if seen[key] {
			continue
		}
		seen[key] = true
		i := r.Intn(k)
		per[i] = append(per[i], key)
	}
	chans := make([][]mitem, k)
	payload := 0
	startsWithErr := false
	for i := range per {
		sortSlash(per[i])
		for _, key := range per[i] {
			payload++
			chans[i] = append(chans[i], mitem{key: key, payload: payload})
		}
		if withErrors && r.Chance(45) {
			cut := r.Intn(len(chans[i]) + 1)
			if cut == 0 && startsWithErr {
				cut = len(chans[i])
				if cut == 0 {
					continue
				}
			}
			if cut == 0 {
				startsWithErr = true
			}
			chans[i] = append(chans[i][:cut:cut], mitem{isErr: true, payload: streamEnd(r)})
		}
	}
	return chans
}

func doScanCase(o *hx.Out, chans [][]mitem) {
	in := fmtChans(chans)
	out, timedOut := runScan(chans)
	res := fmtItems(canonRuns(out))
	if timedOut {
		res = "TIMEOUT," + res
	}
	o.Case("scan", in, res, in)
	o.Count(fmt.Sprintf("scan:shards=%d", len(chans)))
	if timedOut {
		o.Violation("fanout:no-progress", "scan "+in+" => "+res)
		return
	}
	nv := o.NViol
	checkFanoutSpec(o, chans, out, true, "scan "+in, res)
	if o.NViol == nv {
		checkMergeSpec(o, chans, out, "scan "+in, res)
	}
}

func doMergeCase(o *hx.Out, r *hx.Rng, chans [][]mitem) {
	in := fmtChans(chans)
	out, panicked, timedOut := runMerge(chans, r)
	res := fmtItems(canonRuns(out))
	if panicked {
		res = "PANIC"
	}
	if timedOut {
		res = "TIMEOUT," + res
	}
	nt := ""
	if len(chans) >= 2 {
		nt = in
	}
	o.Case("merge", in, res, nt)
	o.Count(fmt.Sprintf("merge:streams=%d", len(chans)))
	if strings.Contains(res, "E") {
		o.Count("merge:ends-with-error")
	}
	if panicked || timedOut {
		o.Violation("merge:panic-or-hang", "merge "+in+" => "+res)
		return
	}
	checkMergeSpec(o, chans, out, "merge "+in, res)
}

func genMergeCase(r *hx.Rng) [][]mitem {
	k := hx.Pick(r, []int{0, 1, 2, 2, 3, 3, 4, 5, 6, 8})
	total := r.Intn(30)
	withErrors := r.Chance(30)
	unsorted := r.Chance(10)
	// equal keys in several streams: which one the heap pops first is not specified; with sorted, error-free
	// streams the copies still come out next to each other (and are compared as a set), otherwise not
	dups := !withErrors && !unsorted && r.Chance(15)
	seen := map[string]bool{}
	var keys []string
	for len(keys) < total {
		key := genKey(r)
		if seen[key] && !dups {
			continue
		}
		seen[key] = true
		keys = append(keys, key)
	}
	per := make([][]string, k)
	for _, key := range keys {
		if k == 0 {
			break
		}
		i := r.Intn(k)
		per[i] = append(per[i], key)
	}
	chans := make([][]mitem, k)
	payload := 0
	for i := range per {
		if !unsorted {
			sortSlash(per[i])
		}
		for _, key := range per[i] {
			payload++
			chans[i] = append(chans[i], mitem{key: key, payload: payload})
		}
		if withErrors && r.Chance(40) {
			cut := len(chans[i])
			if r.Chance(50) {
				cut = r.Intn(len(chans[i]) + 1)
			}
			code := 1 + r.Intn(50)
			if cut == 0 {
				code = 77 // streams that begin with an error carry the same error (the heap may pop either first)
			}
			chans[i] = append(chans[i][:cut:cut], mitem{isErr: true, payload: code})
		}
	}
	return chans
}

func doListCase(o *hx.Out, chans [][]mitem) {
	in := fmtChans(chans)
	out, timedOut := runList(chans)
	res := fmtItems(sortItems(out))
	if timedOut {
		res = "TIMEOUT," + res
	}
	o.Case("list", in, res, in)
	var want []mitem
	for _, ch := range chans {
		want = append(want, ch...)
	}
	if timedOut {
		o.Violation("fanout:no-progress", "list "+in+" => "+res)
		return
	}
	nv := o.NViol
	checkFanoutSpec(o, chans, out, false, "list "+in, res)
	if o.NViol == nv && res != fmtItems(sortItems(want)) {
		o.Violation("fanout:result-not-union", "list "+in+" => "+res)
	}
}

func genListCase(r *hx.Rng) [][]mitem {
	k := 1 + r.Intn(5)
	chans := make([][]mitem, k)
	for i := range chans {
		n := r.Intn(6)
		for j := 0; j < n; j++ {
			chans[i] = append(chans[i], mitem{key: genKey(r)})
		}
		if r.Chance(30) {
			chans[i] = append(chans[i], mitem{isErr: true, payload: streamEnd(r)})
		}
	}
	return chans
}

// ---------------------------------------------------------------- mget cases

func mgetLine(kc string, orig string, n int, arr []marrival) string {
	as := make([]string, len(arr))
	for i, a := range arr {
		as[i] = a.String()
	}
	al := "-"
	if len(as) > 0 {
		al = strings.Join(as, ",")
	}
	return fmt.Sprintf("1 %s %s %d %s", kc, hx.Hex([]byte(orig)), n, al)
}

func doMgetCase(o *hx.Out, r *hx.Rng, kc string, orig string, n int, arr []marrival) {
	// which shard's callback delivers the i-th arrival: a random permutation (the callbacks are interchangeable)
	perm := make([]int, n)
	for i := range perm {
		perm[i] = i
	}
	for i := n - 1; i > 0; i-- {
		j := r.Intn(i + 1)
		perm[i], perm[j] = perm[j], perm[i]
	}
	if len(arr) > n {
		arr = arr[:n]
	}
	in := mgetLine(kc, orig, n, arr)
	res := runMultiGet(kc, orig, n, arr, perm)
	nt := ""
	if n >= 2 {
		nt = in
	}
	o.Case("mget", in, res, nt)
	o.Count("mget:" + kc)
	switch {
	case strings.Contains(res, "send:err"):
		o.Count("mget:answer=error")
	case strings.Contains(res, "send:res"):
		o.Count("mget:answer=record")
	case strings.Contains(res, "send:notfound"):
		o.Count("mget:answer=notfound")
	case res == "-":
		o.Count("mget:answer=none-yet")
	}
	checkMultiGetSpec(o, kc, orig, n, arr, res, "mget "+in)
}

// mgetStressKeys: candidates of the SAME depth whose non-final segment is a proper prefix of the other's followed by a
// byte below '/' (slash order a/x < a-b/x, byte order a-b/x < a/x), neighbours of different depth, long segments
var mgetStressKeys = []string{
	"a/x", "a-b/x", "a-b/x0", "a.b/x", "a b/x", "a!/x", "a/a", "a/b", "a0/x", "b/x", "a/x/y", "a-b/x/y", "a", "a-b", "a/",
	"zzzzzzzzz/x", "zzzzzzzzz-/x", "zzzzzzzzz./x", "zzzzzzzzzz/x", "zzzzzzzz/x", "abcdefgh/i", "abcdefgh-i/x", "abcdefgh.i/x",
	"longsegment/a", "longsegment-/a", "longsegment./a", "longsegment0/a", "longsegmen/t", "k/1", "k-/1", "k0/1", "k/1/2", "k-1/2/3",
}

func genMgetKey(r *hx.Rng) string {
	switch r.Intn(10) {
	case 0, 1, 2, 3, 4:
		return hx.Pick(r, mgetStressKeys)
	case 5, 6, 7:
		return genSlashKey(r)
	default:
		return genKey(r)
	}
}

// genMgetStressCase: a comparison get over 2..5 shards whose answers (primary or secondary-index flavour) come from the
// comparer-stressing keys; one answer per shard
func genMgetStressCase(r *hx.Rng) (string, string, int, []marrival) {
	kc := hx.Pick(r, []string{"floor", "lower", "ceil", "higher"})
	orig := genMgetKey(r)
	n := 2 + r.Intn(4)
	index := r.Bool()
	seen := map[string]bool{}
	var arr []marrival
	for i := 0; i < n; i++ {
		if r.Chance(6) {
			arr = append(arr, marrival{isErr: true, code: 1 + i})
			continue
		}
		if r.Chance(15) {
			arr = append(arr, marrival{status: 'n', pay: 10 + i})
			continue
		}
		k := genMgetKey(r)
		for seen[k] {
			k = genMgetKey(r)
		}
		seen[k] = true
		a := marrival{status: 'o', pay: 10 + i}
		if index {
			// the ordering key is the secondary key; the primary key is whatever record carries it
			pk := genMgetKey(r)
			a.key, a.sec = &pk, &k
		} else {
			a.key = &k
		}
		arr = append(arr, a)
	}
	return kc, orig, n, arr
}

func genMgetCase(r *hx.Rng) (string, string, int, []marrival) {
	kc := hx.Pick(r, []string{"eq", "floor", "floor", "lower", "ceil", "ceil", "higher"})
	orig := genKey(r)
	n := 1 + r.Intn(6)
	secMode := hx.Pick(r, []int{0, 0, 1, 1, 1, 2}) // none, all (secondary-index get), mixed
	if r.Chance(90) {
		if secMode == 2 {
			secMode = r.Intn(2)
		}
	}
	errPct := hx.Pick(r, []int{0, 0, 0, 15, 40, 100})
	m := n
	if r.Chance(15) {
		m = r.Intn(n + 1)
	}
	var arr []marrival
	for i := 0; i < m; i++ {
		if r.Chance(errPct) {
			arr = append(arr, marrival{isErr: true, code: 1 + i})
			continue
		}
		a := marrival{status: hx.Pick(r, []byte{'o', 'o', 'o', 'o', 'n', 'n', 'x'}), pay: 10 + i}
		if a.status == 'o' {
			if r.Chance(92) {
				k := genKey(r)
				// a record whose (primary) key is the very key that was asked for: the exact match of a plain
				// FLOOR/CEILING get, but only a coincidence when the search key is in an index's key space
				if r.Chance(35) {
					k = orig
				}
				a.key = &k
			}
			if secMode == 1 || (secMode == 2 && r.Bool()) {
				s := genKey(r)
				switch r.Intn(10) {
				case 0, 1, 2:
					s = "s" // equal secondary keys: the primary key decides
				case 3:
					s = orig
				}
				a.sec = &s
			}
		}
		arr = append(arr, a)
	}
	return kc, orig, n, arr
}

// permutations of 0..n-1 (n <= 4 here)
func permutations(n int) [][]int {
	if n == 0 {
		return [][]int{{}}
	}
	var res [][]int
	for _, p := range permutations(n - 1) {
		for pos := 0; pos <= len(p); pos++ {
			q := append(append(append([]int(nil), p[:pos]...), n-1), p[pos:]...)
			res = append(res, q)
		}
	}
	return res
}

// doMgetAllOrders: one set of per-shard answers (one per shard, <= 4 shards), every arrival order.
func doMgetAllOrders(o *hx.Out, r *hx.Rng) {
	kc, orig, n, arr := genMgetCase(r)
	for n > 4 || len(arr) != n {
		kc, orig, n, arr = genMgetCase(r)
	}
	for _, p := range permutations(n) {
		ordered := make([]marrival, n)
		for i, j := range p {
			ordered[i] = arr[j]
		}
		doMgetCase(o, r, kc, orig, n, ordered)
	}
	o.Count("mget:all-arrival-orders")
}

// ---------------------------------------------------------------- replay

func replayLine(o *hx.Out, r *hx.Rng, line string) {
	t := strings.Fields(line)
	if len(t) < 3 {
		return
	}
	switch t[0] {
	case "batch":
		doBatchCase(o, parseCfg(t[2]), parseScript(t[3]), parseEvents(t[4]))
	case "stream":
		doStreamCase(o, splitList(t[3]))
	case "merge":
		doMergeCase(o, r, parseChans(t[2]))
	case "list":
		doListCase(o, parseChans(t[2]))
	case "scan":
		doScanCase(o, parseChans(t[2]))
	case "wdb":
		if len(t) >= 5 {
			doWdbCase(o, splitList(t[3]), parseWdbOps(t[4]))
		}
	case "wsend":
		doWsendCase(o, parseWsend(t[2]))
	case "shutdown":
		if len(t) >= 9 {
			c := parseShut(t[2:9])
			c.k = runtime.GOMAXPROCS(-1) // the capacity of the call queue is fixed by oxia/batch on this machine
			doShutdownCase(o, c)
		}
	case "listc":
		doListcCase(o, parseChans(t[3]), splitList(t[4]))
	case "mget":
		n, _ := strconv.Atoi(t[5])
		var arr []marrival
		for _, a := range splitList(t[6]) {
			arr = append(arr, parseArrival(a))
		}
		doMgetCase(o, r, t[3], string(hx.UnHex(t[4])), n, arr)
	}
}

// a/x (612f78) and a-b/x0 (612d622f7830) on two shards: floor / lower of b/x is a-b/x0, ceiling / higher of a/a is a/x;
// the same with the keys as secondary-index keys
var mgetFixed = []string{
	"mget 0 1 floor 622f78 2 Ro:612f78:*:1,Ro:612d622f7830:*:2",
	"mget 0 1 lower 622f78 2 Ro:612d622f7830:*:2,Ro:612f78:*:1",
	"mget 0 1 ceil 612f61 2 Ro:612d622f7830:*:2,Ro:612f78:*:1",
	"mget 0 1 higher 612f61 2 Ro:612f78:*:1,Ro:612d622f7830:*:2",
	"mget 0 1 floor 622f78 3 Ro:70:612f78:1,Rn:*:*:2,Ro:71:612d622f7830:3",
	"mget 0 1 ceil 612f61 2 Ro:70:612d622f7830:2,Ro:71:612f78:1",
}

func main() {
	if len(os.Args) == 3 && os.Args[1] == "shutc-child" {
		shutcChild(os.Args[2])
		return
	}
	if len(os.Args) == 4 && os.Args[1] == "listc-child" {
		listcChild(os.Args[2], os.Args[3])
		return
	}
	f := hx.ParseFlags()
	o := hx.NewOut(f.OutDir)
	defer o.Close()
	r := hx.NewRng(f.Seed)

	if *mode == "mget" {
		// C11 leg: floor / lower / ceiling / higher across shards follow the slash order
		replay := hx.CorpusLines(f.Corpus)
		if f.Replay != "" {
			replay = hx.ReadLines(f.Replay)
		}
		for _, line := range replay {
			if strings.HasPrefix(line, "mget ") {
				replayLine(o, r.Fork(), line)
			}
		}
		if f.Replay != "" {
			return
		}
		for _, l := range mgetFixed {
			replayLine(o, r.Fork(), l)
		}
		for i := 0; i < f.N && o.NViol < 30; i++ {
			kc, orig, n, arr := genMgetStressCase(r)
			doMgetCase(o, r, kc, orig, n, arr)
			if i%3 == 0 && n <= 4 && len(arr) == n {
				for _, p := range permutations(n) {
					ordered := make([]marrival, n)
					for k, j := range p {
						ordered[k] = arr[j]
					}
					doMgetCase(o, r, kc, orig, n, ordered)
				}
			}
		}
		return
	}
	if *mode == "merge" {
		// C11 leg: multi-shard merge of sorted per-shard streams, keys from the comparer-stressing alphabet
		sigOrder, sigLost, sigDup = "scan:merged-out-of-slash-order", "scan:merge-lost-or-duplicated", "scan:merge-lost-or-duplicated"
		replay := hx.CorpusLines(f.Corpus)
		if f.Replay != "" {
			replay = hx.ReadLines(f.Replay)
		}
		for _, line := range replay {
			if strings.HasPrefix(line, "merge ") || strings.HasPrefix(line, "scan ") {
				replayLine(o, r.Fork(), line)
			}
		}
		if f.Replay != "" {
			return
		}
		for _, l := range []string{
			"merge 0 k612f61:1,k612d622f63:2|k612f63:3", // a/a, a-b/c | a/c
			"scan 0 k612f61:1,k612d622f63:2|k612f63:3",
			"scan 0 k612f61:1,k612f622f63:2|k612f6263:3", // a/a, a/b/c | a/bc
		} {
			replayLine(o, r.Fork(), l)
		}
		for i := 0; i < f.N; i++ {
			chans := genScanCase(r, i%5 == 4)
			doMergeCase(o, r, chans)
			doScanCase(o, chans)
		}
		return
	}
	if *mode == "wresp" {
		// C12 leg: what the client reports for a write is what the shard did with that very write
		replay := hx.CorpusLines(f.Corpus)
		if f.Replay != "" {
			replay = hx.ReadLines(f.Replay)
		}
		for _, line := range replay {
			if strings.HasPrefix(line, "wdb ") || strings.HasPrefix(line, "stream ") || strings.HasPrefix(line, "wsend ") {
				replayLine(o, r.Fork(), line)
			}
		}
		if f.Replay != "" {
			return
		}
		for _, l := range []string{
			// the caller of request 1 times out while the server is stalled; request 2 is a conditional put of an absent key
			"wdb 0 1 s1:1,c1,s2:1,r10,r20,x 1=pa:n;2=pb:7",
			"wdb 0 1 s1:1,s2:1,c1,s3:1,r10,r20,r30,x 1=pa:-1;2=pa:0+pb:n;3=da:1+pb:1",
			"stream 0 1 s1:1,c1,s2:1,r10,r20,x",
			"wsend 0 a1;f14+a9;c13",
		} {
			replayLine(o, r.Fork(), l)
		}
		zero := 0
		for i := 0; i < f.N && o.NViol < 30; i++ {
			ev, ops := genWdbCase(r)
			doWdbCase(o, ev, ops)
			doStreamCase(o, genStreamCase(r))
			if i%4 == 0 {
				doWsendCase(o, genWsendCase(r, &zero))
			}
		}
		return
	}
	if *mode == "wsend" {
		// C02 leg: a write that is on the wire is never sent again
		replay := hx.CorpusLines(f.Corpus)
		if f.Replay != "" {
			replay = hx.ReadLines(f.Replay)
		}
		for _, line := range replay {
			if strings.HasPrefix(line, "wsend ") {
				replayLine(o, r.Fork(), line)
			}
		}
		if f.Replay != "" {
			return
		}
		for _, l := range []string{
			"wsend 0 a1;a2;f14+a9;a3",        // answered twice on one stream, then the stream breaks under the third
			"wsend 0 f104+a9;f102+a8;f13+a7", // AlreadyClosed / InvalidStatus / Internal while in flight
			"wsend 0 c106+s14+a7;c13",        // never sent: retried; not retriable: reported
		} {
			replayLine(o, r.Fork(), l)
		}
		budget := 4 + f.N/6
		for i := 0; i < f.N; i++ {
			doWsendCase(o, genWsendCase(r, &budget))
		}
		return
	}
	if *mode == "routing" {
		if f.Replay != "" {
			return
		}
		for i := 0; i < f.N && o.NViol < 20; i++ {
			runRoutingScenario(o, r.Fork(), i)
		}
		return
	}
	if *mode == "e2e" {
		if f.Replay != "" {
			return
		}
		for i := 0; i < f.N && o.NViol < 4; i++ { // a broken client makes every scenario wait for its time limit
			runE2EScenario(o, r.Fork(), i)
		}
		return
	}

	replay := hx.CorpusLines(f.Corpus)
	if f.Replay != "" {
		replay = hx.ReadLines(f.Replay)
	}
	for _, line := range replay {
		replayLine(o, r.Fork(), line)
	}
	if f.Replay != "" {
		return
	}

	// fixed boundary cases
	for _, l := range []string{
		"batch 0 w:0:2:100 ok C1:p:4,C2:d:4,X",
		"batch 0 w:1:2:100 ok,ok C1:p:4,C2:d:4,C3:r:4,T,X,C4:p:4",
		"batch 0 w:1:1000:10 ok,ok C1:p:5,C2:p:5,C3:p:5,X", // 5+5 <= 10 fits exactly, third does not
		"batch 0 w:1:1000:9 ok,ok C1:p:5,C2:p:5,X",         // 5+5 > 9
		"batch 0 w:1:1000:4 ok,ok C1:p:8,C2:p:8,X",         // a single call above the limit travels alone
		"batch 0 w:1:3:1000 sP1 C1:p:4,C2:p:4,C3:d:4",      // short answer: panic after the first callback
		"batch 0 w:1:3:1000 sD1 C1:p:4,C2:d:4,C3:d:4",
		"batch 0 r:1:2:0 lG2,e3,e4 C1:g:0,C2:g:0,C3:g:0,C4:g:0,C5:g:0,T,X",
		"batch 0 r:1:3:0 p1+ok C1:g:0,C2:g:0,C3:g:0", // one answer streamed, retriable failure, then success
		"batch 0 r:1:4:0 p2+p3+ok,p0+e5 C1:g:0,C2:g:0,C3:g:0,C4:g:0,C5:g:0,T",
		"batch 0 w:0:3:100 p0+ok,p0+p0+e4 C1:p:4,C2:d:4",
		"batch 0 w:0:10:100 - C1:d:0,C2:p:0,C3:r:0",                                // calls without key material, each alone in its batch (linger 0)
		"batch 0 w:1:1:100 - C1:d:0,C2:p:4,C3:p:0",                                 // count limit 1
		"batch 0 w:1:2:100 - C1:d:0,C2:p:4,C3:p:4,C4:p:0,C5:d:0,C6:r:0,T,C7:d:0,X", // first / last / only zero-size calls
		"batch 0 w:1:10:4 - C1:p:0,C2:p:8,C3:d:0,T",                                // a call above the byte limit after a zero-size one
		"batch 0 w:1:10:0 - C1:d:0,C2:d:0,C3:p:4,T",                                // byte limit 0: zero-size calls fit, anything else travels alone
		"batch 0 r:0:10:0 - C1:g:1,C2:g:0",                                         // get of the empty key
		"batch 0 r:1:2:0 e3 C1:g:1,C2:g:1,C3:g:0,T",
		"batch 0 w:1:5:1000 - C1:p:4,X,X", // second Close
		"batch 0 w:1:5:1000 - C1:g:0",     // wrongly typed call
		"stream 0 1 s1:1,x,r7,x",
		"stream 0 1 s1:1,s2:1,r10,s3:0,r20,r30,x",
		"stream 0 1 s1:1,c1,s2:1,r10,r20,x", // abandoned request keeps its place in the FIFO
		"stream 0 1 s1:1,s2:1,s3:1,c2,r10,r20,r30,c1,c999,x",
		"merge 0 -",
		"merge 0 E77|E77",
		"list 0 k61:0,k63:0|k62:0,E1001", // a shard stream that ends with status Canceled after one key
		"list 0 E1014|k62:0|E1001",
		"scan 0 k61:1,k63:2|k62:3,E1001",
		"scan 0 k61:1,k63:2|E1001",
		"scan 0 k612f61:1,k612d622f63:2|k612f63:3",
		"wsend 0 a1;f14+a9;c106+a3",
		"wdb 0 1 s1:1,c1,s2:1,r10,r20,x 1=pa:n;2=pb:7",
		"shutdown 0 0 1000 0 2 1 0 2", // late Add parked in the send when Close comes (K is replaced by the real capacity)
		"shutdown 0 0 1000 0 2 3 2 0",
		"shutdown 0 1 3 0 2 2 1 1",
		"shutdown 0 0 1 0 1 2 1 3",
		"shutdown 0 1 2 0 0 2 1 0",
		"listc 0 1 E5|k63:0,k64:0 F0,C,G1",
		"listc 0 1 k61:0|k63:0,k64:0|k65:0 F1,F0,C,G2,G1",
		"listc 0 1 -|- -",
		"mget 0 1 floor 622f78 2 Ro:612f78:*:1,Ro:612d622f7830:*:2",
		"mget 0 1 ceil 612f61 2 Ro:70:612d622f7830:2,Ro:71:612f78:1",
		"mget 0 1 floor 6b 2 E1,E2",
		"mget 0 1 ceil 6b 3 E1,Ro:61:*:5,E3",
		"mget 0 1 floor 6b 1 Rn:*:*:5",
		// index get: shard A holds m (index key c), shard B holds z (index key k); FLOOR(m) in the index must be z
		"mget 0 1 floor 6d 2 Ro:6d:63:1,Ro:7a:6b:2",
		"mget 0 1 floor 6d 2 Ro:7a:6b:2,Ro:6d:63:1",
		// plain get with an exact match arriving first: the answer still waits for every shard
		"mget 0 1 ceil 6d 3 Ro:6d:*:1,Rn:*:*:2,Ro:7a:*:3",
	} {
		replayLine(o, r.Fork(), l)
	}

	doShutdownStress(o, 6000+12*f.N, 8)
	doShutdownStress(o, 1000+2*f.N, 32)

	nextID := 0
	retries := 10 + f.N/150 // every retry waits for the batch's backoff (100 ms and growing)
	for i := 0; i < f.N; i++ {
		if o.NViol >= 30 {
			break // the code under test is broken in many cases: report what was found instead of waiting on the rest
		}
		cfg, script, events := genBatchCase(r, &nextID, &retries)
		if nextID > 90000 {
			nextID = 0
		}
		doBatchCase(o, cfg, script, events)
		for k := 0; k < 2; k++ {
			doStreamCase(o, genStreamCase(r))
			doMergeCase(o, r, genMergeCase(r))
			kc, orig, n, arr := genMgetCase(r)
			doMgetCase(o, r, kc, orig, n, arr)
		}
		if i%3 == 0 {
			doListCase(o, genListCase(r))
		}
		if i%2 == 0 {
			doScanCase(o, genScanCase(r, i%4 == 0))
		}
		if i%4 == 0 {
			doMgetAllOrders(o, r)
		}
		if i%2 == 0 {
			kc, orig, n, arr := genMgetStressCase(r)
			doMgetCase(o, r, kc, orig, n, arr)
		}
		if i%10 == 0 {
			wb := 0 // no retriable connection failures here: each costs the batch's backoff
			doWsendCase(o, genWsendCase(r, &wb))
		}
		if i%12 == 0 {
			doShutdownCase(o, genShutdownCase(r))
		}
		if i == 0 || i == 250 {
			doShutClientCase(o, 1+i/250)
		}
		if i%25 == 0 { // each of these runs in a child process and waits 60 ms after the cancellation
			chans, ev := genListcCase(r)
			doListcCase(o, chans, ev)
		}
	}
}
