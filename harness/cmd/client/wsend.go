package main

// Write-path leg (C02 "a write whose outcome is unknown to the client takes effect at most once", client side):
// the real writeBatch (its doRequestWithRetries loop and isRetriable) over the real streamWrapper, over in-memory
// gRPC streams whose behaviour the case scripts attempt by attempt. The get-or-create of the shard's stream
// (executorImpl.writeStream: reuse the stream unless it has failed, else open a new one) is re-stated here, because
// oxia/internal is not importable. Observed: every stream.Send that returned nil (the request is on the wire) and
// the outcome handed to the callback. A request that was on the wire must never be sent again.
//
//	wsend <id> <req>;<req>;...     req = attempts joined by "+":
//	     c<code> the stream cannot be opened | s<code> stream.Send fails | a<payload> sent and answered |
//	     f<code> sent, then Recv fails with that status and the stream context ends
//	-> per request: S per successful stream.Send, then ok<payload> | err<code> | erreof

import (
	"context"
	"errors"
	"fmt"
	"io"
	"strconv"
	"strings"
	"sync"
	"time"

	"google.golang.org/grpc"
	"google.golang.org/grpc/codes"
	"google.golang.org/grpc/status"

	"github.com/oxia-db/oxia/oxia"
	"github.com/oxia-db/oxia/proto"

	"verif/harness/internal/hx"
)

type wsFake struct {
	grpc.ClientStream
	ctx     context.Context
	cancel  context.CancelFunc
	sendRes chan error    // result of the next stream.Send
	sent    chan struct{} // stream.Send has returned
	recvC   chan recvItem
	dead    chan struct{}
	onSent  func()
	exits   chan exitMsg
	sw      *oxia.VerifStreamWrapper
}

func (f *wsFake) Context() context.Context { return f.ctx }
func (f *wsFake) Send(*proto.WriteRequest) error {
	err := <-f.sendRes
	if err == nil {
		f.onSent()
	}
	f.sent <- struct{}{}
	return err
}
func (f *wsFake) Recv() (*proto.WriteResponse, error) {
	select {
	case it := <-f.recvC:
		return it.r, it.err
	case <-f.dead:
		return nil, io.EOF
	}
}

type wattempt struct {
	kind byte // c s a f
	arg  int
}

type wsendRun struct {
	mu       sync.Mutex
	cur      *wsFake
	attempts []wattempt
	next     int
	obs      []string
	all      []*wsFake
}

func (w *wsendRun) log(s string) {
	w.mu.Lock()
	w.obs = append(w.obs, s)
	w.mu.Unlock()
}

func (w *wsendRun) newStream() *wsFake {
	ctx, cancel := context.WithCancel(context.Background())
	f := &wsFake{ctx: ctx, cancel: cancel, sendRes: make(chan error, 1), sent: make(chan struct{}, 1),
		recvC: make(chan recvItem), dead: make(chan struct{}), exits: make(chan exitMsg, 4)}
	f.onSent = func() { w.log("S") }
	f.sw = oxia.NewVerifStreamWrapper(f, func(which string, p any) { f.exits <- exitMsg{which, p} })
	w.all = append(w.all, f)
	return f
}

// breakStream ends a stream the way gRPC does when the connection goes away: its context is done.
func breakStream(f *wsFake) {
	f.cancel()
	deadline := time.After(5 * time.Second)
	for !f.sw.Failed() {
		select {
		case <-deadline:
			return
		default:
			time.Sleep(50 * time.Microsecond)
		}
	}
}

// execute is what the write batch calls for every attempt (executorImpl.ExecuteWrite).
func (w *wsendRun) execute(ctx context.Context, req *proto.WriteRequest) (*proto.WriteResponse, error) {
	att := wattempt{kind: 'a', arg: 0}
	if w.next < len(w.attempts) {
		att = w.attempts[w.next]
	}
	w.next++
	// writeStream(shard): the shard's stream is reused unless it has failed
	if att.kind == 'c' && w.cur != nil && !w.cur.sw.Failed() {
		breakStream(w.cur) // the script wants the connection to be gone
	}
	if w.cur == nil || w.cur.sw.Failed() {
		if att.kind == 'c' {
			return nil, status.Error(codes.Code(att.arg), "scripted: cannot open the write stream")
		}
		w.cur = w.newStream()
	} else if att.kind == 'c' {
		return nil, errors.New("harness: could not break the stream")
	}
	f := w.cur
	switch att.kind {
	case 's':
		f.sendRes <- status.Error(codes.Code(att.arg), "scripted: stream.Send fails")
	default:
		f.sendRes <- nil
		go func() {
			select {
			case <-f.sent:
			case <-time.After(10 * time.Second):
				return
			}
			if att.kind == 'a' {
				resp := &proto.WriteResponse{Puts: []*proto.PutResponse{{Status: proto.Status_OK,
					Version: &proto.Version{VersionId: int64(att.arg)}}}}
				select {
				case f.recvC <- recvItem{r: resp}:
				case <-time.After(10 * time.Second):
				}
				return
			}
			// 'f': the stream breaks while the request is in flight: Recv reports the status, the context ends
			select {
			case f.recvC <- recvItem{err: status.Error(codes.Code(att.arg), "scripted: stream broken")}:
			case <-time.After(10 * time.Second):
			}
			select {
			case <-f.exits:
			case <-time.After(10 * time.Second):
			}
			f.cancel()
		}()
	}
	resp, err := f.sw.Send(ctx, req)
	if att.kind == 's' {
		<-f.sent
	}
	return resp, err
}

func parseWsend(s string) [][]wattempt {
	var res [][]wattempt
	for _, r := range strings.Split(s, ";") {
		var atts []wattempt
		for _, a := range strings.Split(r, "+") {
			n, _ := strconv.Atoi(a[1:])
			atts = append(atts, wattempt{kind: a[0], arg: n})
		}
		res = append(res, atts)
	}
	return res
}

func fmtWsend(reqs [][]wattempt) string {
	var rs []string
	for _, atts := range reqs {
		var as []string
		for _, a := range atts {
			as = append(as, fmt.Sprintf("%c%d", a.kind, a.arg))
		}
		rs = append(rs, strings.Join(as, "+"))
	}
	return strings.Join(rs, ";")
}

func runWsend(reqs [][]wattempt) string {
	w := &wsendRun{}
	var out []string
	for i, atts := range reqs {
		w.attempts, w.next = atts, 0
		w.mu.Lock()
		w.obs = nil
		w.mu.Unlock()
		b := oxia.VerifNewWriteBatch(1, 1<<20, 5*time.Second, w.execute)
		done := make(chan string, 2)
		b.Add(oxia.VerifPutCall{Key: fmt.Sprintf("w%d", i), Value: []byte("v"), Callback: func(r *proto.PutResponse, err error) {
			switch {
			case err == nil && r != nil && r.Version != nil:
				done <- fmt.Sprintf("ok%d", r.Version.VersionId)
			case err == nil:
				done <- "ok?"
			case errors.Is(err, io.EOF):
				done <- "erreof"
			default:
				if st, ok := status.FromError(err); ok {
					done <- fmt.Sprintf("err%d", int(st.Code()))
				} else {
					done <- "err?" + strings.ReplaceAll(err.Error(), " ", "_")
				}
			}
		}})
		if safely(b.Complete) {
			w.log("PANIC")
		}
		select {
		case r := <-done:
			w.log(r)
		default:
			w.log("NO-OUTCOME")
		}
		select {
		case r := <-done:
			w.log("AGAIN-" + r)
		default:
		}
		w.mu.Lock()
		out = append(out, strings.Join(w.obs, ","))
		w.mu.Unlock()
	}
	for _, f := range w.all {
		f.cancel()
		close(f.dead)
	}
	return strings.Join(out, ";")
}

func doWsendCase(o *hx.Out, reqs [][]wattempt) {
	in := fmtWsend(reqs)
	res := runWsend(reqs)
	o.Case("wsend", in, res, in)
	for i, r := range strings.Split(res, ";") {
		obs := strings.Split(r, ",")
		sent, outcomes := 0, 0
		for _, x := range obs {
			if x == "S" {
				sent++
			} else {
				outcomes++
			}
		}
		o.CountN("wsend:sends", sent)
		switch {
		case sent > 1:
			o.Violation("write:resent-after-send", fmt.Sprintf("wsend %s => %s (request %d was handed to the transport %d times)", in, res, i, sent))
			return
		case outcomes != 1 || strings.Contains(r, "PANIC") || strings.Contains(r, "NO-OUTCOME") || strings.Contains(r, "AGAIN"):
			o.Violation("write:outcome-not-reported-once", fmt.Sprintf("wsend %s => %s (request %d)", in, res, i))
			return
		}
	}
}

var allCodes = []int{1, 2, 4, 5, 9, 10, 13, 14, 14, 16, 100, 101, 102, 102, 103, 104, 104, 105, 106, 106, 107, 108}
var retriableCodes = map[int]bool{14: true, 102: true, 104: true, 106: true}

func genWsendCase(r *hx.Rng, retryBudget *int) [][]wattempt {
	n := 1 + r.Intn(4)
	var reqs [][]wattempt
	payload := 0
	for i := 0; i < n; i++ {
		var atts []wattempt
		for {
			payload++
			x := r.Intn(100)
			switch {
			case x < 50:
				atts = append(atts, wattempt{'a', payload})
			case x < 78:
				c := hx.Pick(r, allCodes)
				atts = append(atts, wattempt{'f', c})
				// what a (wrong) second attempt would meet
				atts = append(atts, wattempt{'a', 1000 + payload})
			default:
				c := hx.Pick(r, allCodes)
				k := hx.Pick(r, []byte{'c', 's'})
				if retriableCodes[c] {
					if *retryBudget <= 0 {
						continue
					}
					*retryBudget--
					atts = append(atts, wattempt{k, c})
					continue // the loop goes on: another attempt
				}
				atts = append(atts, wattempt{k, c})
			}
			break
		}
		reqs = append(reqs, atts)
	}
	return reqs
}
