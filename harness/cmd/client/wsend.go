package main

// Write-path leg (C02 "a write whose outcome is unknown to the client takes effect at most once", client side):
// the real writeBatch (its doRequestWithRetries loop and isRetriable) over the REAL executor (executorImpl.ExecuteWrite and
// writeStream, through the verif hook) over the real streamWrapper, over in-memory gRPC streams handed out by a fake
// connection pool whose behaviour the case scripts attempt by attempt. The server side is a real kv.DB that applies every
// request that reaches it. Observed: every stream.Send that returned nil (the request is on the wire) and the outcome
// handed to the callback. A request that was on the wire must never be sent again, the caller must be told what the shard
// answered, and the shard must hold every request applied once.
//
//	wsend <id> <req>;<req>;...     req = attempts joined by "+":
//	     c<code> the stream cannot be opened | s<code> stream.Send fails | a<payload> sent and answered |
//	     f<code> sent, then Recv fails with that status and the stream context ends
//	-> per request: S per successful stream.Send, then ok<payload> | err<code> | erreof

import (
	"context"
	"errors"
	"fmt"
	"io"
	"strconv"
	"strings"
	"sync"
	"time"

	"google.golang.org/grpc"
	"google.golang.org/grpc/codes"
	"google.golang.org/grpc/health/grpc_health_v1"
	"google.golang.org/grpc/status"

	"github.com/oxia-db/oxia/oxia"
	"github.com/oxia-db/oxia/proto"
	"github.com/oxia-db/oxia/server/kv"

	"verif/harness/internal/hx"
)

// wsFake is one in-memory gRPC write stream handed out by the fake connection pool.
type wsFake struct {
	grpc.ClientStream
	ctx    context.Context
	cancel context.CancelFunc
	recvC  chan recvItem
	dead   chan struct{}
	run    *wsendRun
}

func (f *wsFake) Context() context.Context { return f.ctx }
func (*wsFake) CloseSend() error           { return nil }

// Send is the transport: it consumes the next scripted attempt.
func (f *wsFake) Send(req *proto.WriteRequest) error {
	w := f.run
	att := w.take()
	switch att.kind {
	case 's', 'c': // (c cannot be honoured on a stream that exists: treat it as a failing Send)
		return status.Error(codes.Code(att.arg), "scripted: stream.Send fails")
	case 'a':
		w.log("S")
		resp := w.server(req)
		w.mu.Lock()
		w.payload[resp] = att.arg
		w.mu.Unlock()
		go func() {
			select {
			case f.recvC <- recvItem{r: resp}:
			case <-f.dead:
			}
		}()
		return nil
	default: // 'f': the request is on the wire, the leader applies it, and the stream breaks before the response
		w.log("S")
		w.server(req)
		go func() {
			select {
			case f.recvC <- recvItem{err: status.Error(codes.Code(att.arg), "scripted: stream broken")}:
			case <-f.dead:
			}
			f.cancel()
		}()
		return nil
	}
}

func (f *wsFake) Recv() (*proto.WriteResponse, error) {
	select {
	case it := <-f.recvC:
		return it.r, it.err
	case <-f.dead:
		return nil, io.EOF
	}
}

// wsClient / wsPool: the connection pool the real executor gets its write streams from.
type wsClient struct {
	proto.OxiaClientClient
	run *wsendRun
}

func (c *wsClient) WriteStream(ctx context.Context, _ ...grpc.CallOption) (proto.OxiaClient_WriteStreamClient, error) {
	w := c.run
	if att, ok := w.peek(); ok && att.kind == 'c' {
		w.take()
		return nil, status.Error(codes.Code(att.arg), "scripted: cannot open the write stream")
	}
	sctx, cancel := context.WithCancel(ctx)
	f := &wsFake{ctx: sctx, cancel: cancel, recvC: make(chan recvItem), dead: make(chan struct{}), run: w}
	w.mu.Lock()
	w.all = append(w.all, f)
	w.cur = f
	w.mu.Unlock()
	return f, nil
}

type wsPool struct{ run *wsendRun }

func (*wsPool) Close() error { return nil }
func (p *wsPool) GetClientRpc(string) (proto.OxiaClientClient, error) {
	return &wsClient{run: p.run}, nil
}
func (*wsPool) GetHealthRpc(string) (grpc_health_v1.HealthClient, io.Closer, error) {
	return nil, nil, errors.New("not used")
}
func (*wsPool) GetCoordinationRpc(string) (proto.OxiaCoordinationClient, error) {
	return nil, errors.New("not used")
}
func (*wsPool) GetReplicationRpc(string) (proto.OxiaLogReplicationClient, error) {
	return nil, errors.New("not used")
}
func (*wsPool) Clear(string) {}

type wattempt struct {
	kind byte // c s a f
	arg  int
}

type wsendRun struct {
	mu       sync.Mutex
	cur      *wsFake
	attempts []wattempt
	next     int
	obs      []string
	all      []*wsFake
	payload  map[*proto.WriteResponse]int
	// the server: a real kv.DB that applies every request that reaches it, in order
	db        kv.DB
	applied   int
	firstResp map[string]*proto.WriteResponse // request tag (its first put's key) -> what the DB produced the first time
	timesSeen map[string]int
	applyErr  error
}

func (w *wsendRun) log(s string) {
	w.mu.Lock()
	w.obs = append(w.obs, s)
	w.mu.Unlock()
}

func (w *wsendRun) peek() (wattempt, bool) {
	w.mu.Lock()
	defer w.mu.Unlock()
	if w.next < len(w.attempts) {
		return w.attempts[w.next], true
	}
	return wattempt{}, false
}

func (w *wsendRun) take() wattempt {
	w.mu.Lock()
	defer w.mu.Unlock()
	att := wattempt{kind: 'a', arg: 0}
	if w.next < len(w.attempts) {
		att = w.attempts[w.next]
	}
	w.next++
	return att
}

// server applies the request to the shard's DB, as the leader does before it answers.
func (w *wsendRun) server(req *proto.WriteRequest) *proto.WriteResponse {
	w.mu.Lock()
	defer w.mu.Unlock()
	resp, err := w.db.ProcessWrite(req, int64(w.applied), uint64(1000+w.applied), kv.NoOpCallback)
	w.applied++
	if err != nil {
		w.applyErr = err
		return &proto.WriteResponse{}
	}
	tag := ""
	if len(req.Puts) > 0 {
		tag = req.Puts[0].Key
	}
	w.timesSeen[tag]++
	if _, ok := w.firstResp[tag]; !ok {
		w.firstResp[tag] = resp
	}
	return resp
}

// wsRequestPuts: request i is an unconditional put (a second application shows in the modification count) and a put that
// requires its key not to exist (a second application is answered UNEXPECTED_VERSION_ID)
func wsRequestPuts(i int) (string, string) { return fmt.Sprintf("u%d", i), fmt.Sprintf("n%d", i) }

func parseWsend(s string) [][]wattempt {
	var res [][]wattempt
	for _, r := range strings.Split(s, ";") {
		var atts []wattempt
		for _, a := range strings.Split(r, "+") {
			n, _ := strconv.Atoi(a[1:])
			atts = append(atts, wattempt{kind: a[0], arg: n})
		}
		res = append(res, atts)
	}
	return res
}

func fmtWsend(reqs [][]wattempt) string {
	var rs []string
	for _, atts := range reqs {
		var as []string
		for _, a := range atts {
			as = append(as, fmt.Sprintf("%c%d", a.kind, a.arg))
		}
		rs = append(rs, strings.Join(as, "+"))
	}
	return strings.Join(rs, ";")
}

type wsendOutcome struct {
	res      string
	resent   string // a request that reached the transport more than once
	wrongRes string // a caller that was not handed what the DB produced for the first application of its request
	state    string // the shard does not hold the sequential application of the requests, each once
}

func runWsend(reqs [][]wattempt) wsendOutcome {
	var oc wsendOutcome
	db, err := wdbNewDB()
	if err != nil {
		oc.res = "NO-DB"
		return oc
	}
	defer db.Close()
	w := &wsendRun{payload: map[*proto.WriteResponse]int{}, db: db, firstResp: map[string]*proto.WriteResponse{}, timesSeen: map[string]int{}}
	ctx, cancelAll := context.WithCancel(context.Background())
	defer cancelAll()
	// the real executor of the client: ExecuteWrite -> writeStream (cached per shard unless failed) -> streamWrapper.Send
	ex := oxia.NewVerifExecutor2(ctx, &wsPool{run: w})
	var out []string
	for i, atts := range reqs {
		if len(atts) > 0 && atts[0].kind == 'c' {
			// the script wants the connection to be gone: the cached stream, if healthy, is broken first
			if cached, failed := ex.WriteStreamState(0); cached && !failed {
				w.mu.Lock()
				cur := w.cur
				w.mu.Unlock()
				if cur != nil {
					cur.cancel()
				}
				waitUntil(5*time.Second, func() bool { _, f := ex.WriteStreamState(0); return f })
			}
		}
		w.mu.Lock()
		w.attempts, w.next, w.obs = atts, 0, nil
		w.mu.Unlock()
		b := oxia.VerifNewWriteBatch(0, 1<<20, 5*time.Second, ex.ExecuteWrite)
		done := make(chan string, 2)
		var got *proto.PutResponse
		ukey, nkey := wsRequestPuts(i)
		notExists := int64(-1)
		report := func(r *proto.PutResponse, err error) string {
			switch {
			case err == nil && r != nil:
				return "ok"
			case err == nil:
				return "ok?"
			case errors.Is(err, io.EOF):
				return "erreof"
			default:
				if st, ok := status.FromError(err); ok {
					return fmt.Sprintf("err%d", int(st.Code()))
				}
				return "err?" + strings.ReplaceAll(err.Error(), " ", "_")
			}
		}
		b.Add(oxia.VerifPutCall{Key: ukey, Value: []byte("v"), Callback: func(r *proto.PutResponse, err error) {
			got = r
			done <- report(r, err)
		}})
		b.Add(oxia.VerifPutCall{Key: nkey, Value: []byte("v"), ExpectedVersionId: &notExists, Callback: func(*proto.PutResponse, error) {}})
		if safely(b.Complete) {
			w.log("PANIC")
		}
		select {
		case r := <-done:
			if r == "ok" {
				// which response was it? the payload of the scripted answer it belongs to
				w.mu.Lock()
				p := -1
				for resp, pl := range w.payload {
					if len(resp.Puts) > 0 && resp.Puts[0] == got {
						p = pl
					}
				}
				first := w.firstResp[ukey]
				w.mu.Unlock()
				r = fmt.Sprintf("ok%d", p)
				if first == nil || len(first.Puts) == 0 || first.Puts[0] != got {
					oc.wrongRes = fmt.Sprintf("request %d: the caller was told [put:%s] which is not what the shard answered when it first applied the request [%s]",
						i, got.Status, fmtWriteResponse(first))
				}
			}
			w.log(r)
		default:
			w.log("NO-OUTCOME")
		}
		select {
		case r := <-done:
			w.log("AGAIN-" + r)
		default:
		}
		w.mu.Lock()
		out = append(out, strings.Join(w.obs, ","))
		if n := w.timesSeen[ukey]; n > 1 && oc.resent == "" {
			oc.resent = fmt.Sprintf("request %d reached the shard %d times", i, n)
		}
		w.mu.Unlock()
	}
	// the shard must hold every request that reached it applied once, in order
	var keys []string
	ref, rerr := wdbNewDB()
	if rerr == nil {
		defer ref.Close()
		k := 0
		for i := range reqs {
			ukey, nkey := wsRequestPuts(i)
			keys = append(keys, ukey, nkey)
			w.mu.Lock()
			seen := w.timesSeen[ukey]
			w.mu.Unlock()
			if seen == 0 {
				continue
			}
			notExists := int64(-1)
			shard := int64(0)
			_, _ = ref.ProcessWrite(&proto.WriteRequest{Shard: &shard, Puts: []*proto.PutRequest{
				{Key: ukey, Value: []byte("v")}, {Key: nkey, Value: []byte("v"), ExpectedVersionId: &notExists}}}, int64(k), uint64(1000+k), kv.NoOpCallback)
			k++
		}
		// version ids depend on how many requests were applied before: compare existence and modification counts
		strip := func(s string) string {
			var parts []string
			for _, f := range strings.Fields(s) {
				if i := strings.Index(f, "/v"); i >= 0 {
					j := strings.Index(f[i+1:], "/")
					f = f[:i] + f[i+1+j:]
				}
				parts = append(parts, f)
			}
			return strings.Join(parts, " ")
		}
		if a, b := strip(dumpKeys(db, keys)), strip(dumpKeys(ref, keys)); a != b {
			oc.state = fmt.Sprintf("shard [%s], every request applied once [%s]", a, b)
		}
	}
	cancelAll()
	w.mu.Lock()
	for _, f := range w.all {
		f.cancel()
		close(f.dead)
	}
	w.mu.Unlock()
	oc.res = strings.Join(out, ";")
	return oc
}

func doWsendCase(o *hx.Out, reqs [][]wattempt) {
	in := fmtWsend(reqs)
	oc := runWsend(reqs)
	res := oc.res
	o.Case("wsend", in, res, in)
	switch {
	case oc.resent != "":
		o.Violation("write:resent-after-send", fmt.Sprintf("wsend %s => %s (%s)", in, res, oc.resent))
		return
	case oc.wrongRes != "":
		o.Violation("write:result-of-another-request", fmt.Sprintf("wsend %s => %s (%s)", in, res, oc.wrongRes))
		return
	case oc.state != "":
		o.Violation("write:state-not-sequential", fmt.Sprintf("wsend %s => %s (%s)", in, res, oc.state))
		return
	}
	for i, r := range strings.Split(res, ";") {
		obs := strings.Split(r, ",")
		sent, outcomes := 0, 0
		for _, x := range obs {
			if x == "S" {
				sent++
			} else {
				outcomes++
			}
		}
		o.CountN("wsend:sends", sent)
		switch {
		case sent > 1:
			o.Violation("write:resent-after-send", fmt.Sprintf("wsend %s => %s (request %d was handed to the transport %d times)", in, res, i, sent))
			return
		case outcomes != 1 || strings.Contains(r, "PANIC") || strings.Contains(r, "NO-OUTCOME") || strings.Contains(r, "AGAIN"):
			o.Violation("write:outcome-not-reported-once", fmt.Sprintf("wsend %s => %s (request %d)", in, res, i))
			return
		}
	}
}

var allCodes = []int{1, 2, 4, 5, 9, 10, 13, 14, 14, 16, 100, 101, 102, 102, 103, 104, 104, 105, 106, 106, 107, 108}
var retriableCodes = map[int]bool{14: true, 102: true, 104: true, 106: true}

func genWsendCase(r *hx.Rng, retryBudget *int) [][]wattempt {
	n := 1 + r.Intn(4)
	var reqs [][]wattempt
	payload := 0
	for i := 0; i < n; i++ {
		var atts []wattempt
		for {
			payload++
			x := r.Intn(100)
			switch {
			case x < 50:
				atts = append(atts, wattempt{'a', payload})
			case x < 78:
				c := hx.Pick(r, allCodes)
				atts = append(atts, wattempt{'f', c})
				// what a (wrong) second attempt would meet
				atts = append(atts, wattempt{'a', 1000 + payload})
			default:
				c := hx.Pick(r, allCodes)
				k := hx.Pick(r, []byte{'c', 's'})
				if retriableCodes[c] {
					if *retryBudget <= 0 {
						continue
					}
					*retryBudget--
					atts = append(atts, wattempt{k, c})
					continue // the loop goes on: another attempt
				}
				atts = append(atts, wattempt{k, c})
			}
			break
		}
		reqs = append(reqs, atts)
	}
	return reqs
}
