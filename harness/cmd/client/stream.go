package main

// Write-stream leg: the real streamWrapper (Send / handleResponses / handleStreamClosed) over an in-memory
// stream whose Send results, received messages and context the case script controls.

import (
	"context"
	"errors"
	"fmt"
	"io"
	"sort"
	"strconv"
	"strings"
	"time"

	"google.golang.org/grpc"

	"github.com/oxia-db/oxia/oxia"
	"github.com/oxia-db/oxia/proto"
)

type recvItem struct {
	r   *proto.WriteResponse
	err error
}

type fakeWriteStream struct {
	grpc.ClientStream
	ctx     context.Context
	sendRes chan error    // result of the next stream.Send
	sendIn  chan struct{} // stream.Send has been entered
	recvC   chan recvItem // what the next stream.Recv returns
	recvIn  chan struct{} // stream.Recv has been entered
	lastReq *proto.WriteRequest
}

func (f *fakeWriteStream) Context() context.Context { return f.ctx }
func (f *fakeWriteStream) Send(req *proto.WriteRequest) error {
	f.lastReq = req
	f.sendIn <- struct{}{}
	return <-f.sendRes
}
func (f *fakeWriteStream) Recv() (*proto.WriteResponse, error) {
	f.recvIn <- struct{}{}
	it := <-f.recvC
	return it.r, it.err
}

var errSendFailed = errors.New("scripted send failure")

type exitMsg struct {
	which    string
	panicked any
}

// runStreamCase: events  s<f>:<0|1> | r<payload> | e | x | c<f> ; a final x is always part of the case.
// c<f>: the context passed to Send for request f is cancelled (per-request timeout) while the request is pending.
func runStreamCase(events []string, srv *wdbServer) string {
	ctx, cancel := context.WithCancel(context.Background())
	defer cancel()
	fs := &fakeWriteStream{ctx: ctx, sendRes: make(chan error, 1), sendIn: make(chan struct{}, 1),
		recvC: make(chan recvItem), recvIn: make(chan struct{}, 1)}
	exits := make(chan exitMsg, 4)
	sw := oxia.NewVerifStreamWrapper(fs, func(which string, p any) { exits <- exitMsg{which, p} })
	type sres struct {
		f   int
		r   *proto.WriteResponse
		err error
	}
	results := make(chan sres, 256)
	payload := map[*proto.WriteResponse]int{}
	recvAlive, closedDone, panicked := true, false, false
	timeout := func(what string) string { return "TIMEOUT-" + what }

	// handleResponses enters Recv first
	select {
	case <-fs.recvIn:
	case <-expired():
		expiredWaits.Add(1)
		return timeout("start")
	}
	var sent []int
	got := map[int][]string{}
	cancels := map[int]context.CancelFunc{}
	record := func(r sres) {
		var s string
		switch {
		case r.err == nil:
			s = fmt.Sprintf("ok%d", payload[r.r])
		case errors.Is(r.err, errSendFailed):
			s = "errsend"
		case errors.Is(r.err, io.EOF):
			s = "eof"
		case errors.Is(r.err, context.Canceled):
			s = "errctx"
		default:
			s = "err?" + r.err.Error()
		}
		got[r.f] = append(got[r.f], s)
		if srv != nil && r.err == nil {
			srv.delivered[r.f] = r.r
		}
	}
	collect := func() {
		for {
			select {
			case r := <-results:
				record(r)
			default:
				return
			}
		}
	}
	for _, ev := range events {
		if panicked {
			break
		}
		switch ev[0] {
		case 's':
			f := strings.Split(ev[1:], ":")
			id, _ := strconv.Atoi(f[0])
			sent = append(sent, id)
			if f[1] == "1" {
				fs.sendRes <- nil
			} else {
				fs.sendRes <- errSendFailed
			}
			sctx, scancel := context.WithCancel(context.Background())
			cancels[id] = scancel
			defer scancel()
			req := &proto.WriteRequest{}
			if srv != nil {
				req = srv.requestFor(id)
			}
			go func() {
				r, err := sw.Send(sctx, req)
				results <- sres{id, r, err}
			}()
			select {
			case <-fs.sendIn:
				if srv != nil && f[1] == "1" {
					srv.receive(id, fs.lastReq) // the request has reached the server
				}
			case <-expired():
				expiredWaits.Add(1)
				return timeout("send")
			}
		case 'r', 'e':
			if !recvAlive {
				continue
			}
			it := recvItem{err: errors.New("scripted recv failure")}
			if ev[0] == 'r' {
				p, _ := strconv.Atoi(ev[1:])
				it = recvItem{r: &proto.WriteResponse{}}
				if srv != nil {
					// the server resumes: it applies the oldest request it has not answered yet and answers it
					if resp := srv.applyNext(); resp != nil {
						it = recvItem{r: resp}
					}
				}
				payload[it.r] = p
			}
			select {
			case fs.recvC <- it:
			case <-expired():
				expiredWaits.Add(1)
				return timeout("recv-deliver")
			}
			select {
			case <-fs.recvIn:
			case m := <-exits:
				if m.which == "responses" {
					recvAlive = false
					if m.panicked != nil {
						panicked = true
					}
				} else {
					closedDone = true
					// still wait for the receive loop
					select {
					case <-fs.recvIn:
					case m2 := <-exits:
						recvAlive = false
						if m2.panicked != nil {
							panicked = true
						}
					case <-expired():
						expiredWaits.Add(1)
						return timeout("recv")
					}
				}
			case <-expired():
				expiredWaits.Add(1)
				return timeout("recv")
			}
		case 'c':
			id, _ := strconv.Atoi(ev[1:])
			cancel1, known := cancels[id]
			collect()
			if !known || len(got[id]) > 0 {
				continue // never sent, or its Send has returned already
			}
			cancel1()
			// Send(id) returns now (with the context error, or with what it had already been given)
			for len(got[id]) == 0 {
				select {
				case r := <-results:
					record(r)
				case <-expired():
					expiredWaits.Add(1)
					return timeout("cancel")
				}
			}
		case 'x':
			if closedDone {
				continue
			}
			cancel()
			for !closedDone {
				select {
				case m := <-exits:
					if m.which == "closed" {
						closedDone = true
						if m.panicked != nil {
							panicked = true
						}
					} else {
						recvAlive = false
						if m.panicked != nil {
							panicked = true
						}
					}
				case <-expired():
					expiredWaits.Add(1)
					return timeout("close")
				}
			}
		}
	}
	// release the receive loop if it is still blocked in Recv
	if recvAlive {
		go func() {
			select {
			case fs.recvC <- recvItem{err: io.EOF}:
			case <-time.After(time.Second):
			}
		}()
	}
	if panicked {
		return "PANIC"
	}
	collect()
	deadline := expired()
	for n := 0; n < len(sent); n++ {
		have := 0
		for _, f := range sent {
			if len(got[f]) > 0 {
				have++
			}
		}
		if have == len(sent) {
			break
		}
		select {
		case r := <-results:
			record(r)
		case <-deadline:
			expiredWaits.Add(1)
			n = len(sent)
		}
	}
	sort.Ints(sent)
	var out []string
	for _, f := range sent {
		switch len(got[f]) {
		case 0:
			out = append(out, fmt.Sprintf("%d=pending", f))
		case 1:
			out = append(out, fmt.Sprintf("%d=%s", f, got[f][0]))
		default:
			out = append(out, fmt.Sprintf("%d=TWICE", f))
		}
	}
	if len(out) == 0 {
		return "-"
	}
	return strings.Join(out, ",")
}

// checkStreamSpec: FIFO matching and exactly-once on the observations, independent of the model.
// The i-th successfully sent request must get the i-th response delivered while the receive loop was alive
// and before closure, every other sent request errsend/eof; nobody pending (every case ends with x).
func checkStreamSpec(o *hxOut, events []string, result string, line string) {
	if result == "PANIC" {
		o.Violation("stream:panic-on-response-after-close", line+" => "+result)
		return
	}
	if strings.Contains(result, "TIMEOUT") || strings.Contains(result, "pending") || strings.Contains(result, "TWICE") {
		o.Violation("stream:send-did-not-return-exactly-once", line+" => "+result)
		return
	}
	var oks, recvs []string
	for _, ev := range events {
		if ev[0] == 's' && strings.HasSuffix(ev, ":1") {
			oks = append(oks, strings.Split(ev[1:], ":")[0])
		}
		if ev[0] == 'r' {
			recvs = append(recvs, ev[1:])
		}
	}
	res := map[string]string{}
	for _, t := range splitList(result) {
		f := strings.SplitN(t, "=", 2)
		res[f[0]] = f[1]
	}
	// every ok completion must pair the i-th ok send with the i-th response
	for i, f := range oks {
		r := res[f]
		if strings.HasPrefix(r, "ok") && (i >= len(recvs) || r != "ok"+recvs[i]) {
			o.Violation("stream:response-of-another-request", line+" => "+result)
			return
		}
	}
}
