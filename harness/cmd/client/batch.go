package main

// Batcher leg: the real batch.Batcher (its Run goroutine, timers, channels) with the real write/read
// batches, an executor scripted per request number, and every event of a case driven through channel
// handshakes so that the observations of one event are complete before the next event is issued.

import (
	"context"
	"errors"
	"fmt"
	"io"
	"strconv"
	"strings"
	"sync"
	"sync/atomic"
	"time"

	"google.golang.org/grpc"
	"google.golang.org/grpc/codes"
	"google.golang.org/grpc/status"

	"github.com/oxia-db/oxia/common/constant"
	"github.com/oxia-db/oxia/oxia"
	commonbatch "github.com/oxia-db/oxia/oxia/batch"
	"github.com/oxia-db/oxia/proto"
)

type codeErr struct{ code int }

func (e *codeErr) Error() string { return fmt.Sprintf("scripted error %d", e.code) }

func resOfErr(err error) string {
	var ce *codeErr
	switch {
	case errors.Is(err, commonbatch.ErrShuttingDown):
		return "shut"
	case errors.As(err, &ce):
		return fmt.Sprintf("err%d", ce.code)
	case errors.Is(err, io.EOF):
		return "eof"
	default:
		return "err?" + strings.ReplaceAll(err.Error(), " ", "_")
	}
}

type bcfg struct {
	write     bool
	lingerPos bool
	maxReq    int
	maxBytes  int
}

func (c bcfg) String() string {
	k, l := "r", 0
	if c.write {
		k = "w"
	}
	if c.lingerPos {
		l = 1
	}
	return fmt.Sprintf("%s:%d:%d:%d", k, l, c.maxReq, c.maxBytes)
}

type bcall struct {
	id   int
	kind byte // p d r g
	size int
}

type bevent struct {
	typ  byte // C T X
	call bcall
}

func (e bevent) String() string {
	if e.typ == 'C' {
		return fmt.Sprintf("C%d:%c:%d", e.call.id, e.call.kind, e.call.size)
	}
	return string(e.typ)
}

// behaviour is the script for one request: attempts that deliver the first pre[a] answers (as stream chunks) and then
// fail with a retriable status, followed by the final attempt.
type behaviour struct {
	pre  []int
	typ  byte // final attempt: o e s l
	kind byte // P D R G for s/l
	d    int
	code int
}

func (b behaviour) String() string {
	var parts []string
	for _, k := range b.pre {
		parts = append(parts, fmt.Sprintf("p%d", k))
	}
	switch b.typ {
	case 'e':
		parts = append(parts, fmt.Sprintf("e%d", b.code))
	case 's', 'l':
		parts = append(parts, fmt.Sprintf("%c%c%d", b.typ, b.kind, b.d))
	default:
		parts = append(parts, "ok")
	}
	return strings.Join(parts, "+")
}

func parseCfg(s string) bcfg {
	f := strings.Split(s, ":")
	mr, _ := strconv.Atoi(f[2])
	mb, _ := strconv.Atoi(f[3])
	return bcfg{write: f[0] == "w", lingerPos: f[1] == "1", maxReq: mr, maxBytes: mb}
}

func splitList(s string) []string {
	if s == "-" || s == "" {
		return nil
	}
	return strings.Split(s, ",")
}

func parseScript(s string) []behaviour {
	var res []behaviour
	for _, entry := range splitList(s) {
		if entry == "y" {
			entry = "p0+ok"
		}
		var b behaviour
		for _, t := range strings.Split(entry, "+") {
			switch {
			case t == "ok":
				b.typ = 'o'
			case t[0] == 'p':
				k, _ := strconv.Atoi(t[1:])
				b.pre = append(b.pre, k)
			case t[0] == 'e':
				b.typ = 'e'
				b.code, _ = strconv.Atoi(t[1:])
			default:
				b.typ, b.kind = t[0], t[1]
				b.d, _ = strconv.Atoi(t[2:])
			}
		}
		res = append(res, b)
	}
	return res
}

func parseEvents(s string) []bevent {
	var res []bevent
	for _, t := range splitList(s) {
		if t == "T" || t == "X" {
			res = append(res, bevent{typ: t[0]})
			continue
		}
		f := strings.Split(t[1:], ":")
		id, _ := strconv.Atoi(f[0])
		sz, _ := strconv.Atoi(f[2])
		res = append(res, bevent{typ: 'C', call: bcall{id: id, kind: f[1][0], size: sz}})
	}
	return res
}

func keyOf(id int) string { return "k" + strconv.Itoa(id) }

// idOf recovers the call id from the key the request carries ("k<id>" optionally followed by padding).
func idOf(key string) int {
	key = strings.TrimPrefix(key, "k")
	if i := strings.IndexByte(key, '_'); i >= 0 {
		key = key[:i]
	}
	id, _ := strconv.Atoi(key)
	return id
}

// minSize is the smallest getByteSize a call with this id can have.
func minSize(id int) int { return len(keyOf(id)) }

const (
	phIdle int32 = iota
	phAwaitCall
	phInCall
	phAwaitTick
	phAwaitFail
)

// brun is the state of one run of one batch case.
type brun struct {
	cfg    bcfg
	script []behaviour
	linger time.Duration

	mu        sync.Mutex
	cur       []string    // observations of the event being processed
	payloads  map[any]int // response object -> payload (responses are matched by pointer identity)
	nexec     int
	attempt   int        // attempts already made at request number nexec
	zeroRange int        // id of the delete-range of this case that has no key material
	open      *wrapBatch // batch that has calls and has been neither completed nor failed

	phase     atomic.Int32
	sizeSeen  atomic.Bool
	earlyTick atomic.Bool
	dead      atomic.Bool
	sizeC     chan int
	compC     chan struct{}
	failC     chan struct{}
}

// logObs records an observation; after a panic the process would be gone: nothing more is observed.
func (h *brun) logObs(s string) {
	h.mu.Lock()
	if !h.dead.Load() {
		h.cur = append(h.cur, s)
	}
	h.mu.Unlock()
}

func (h *brun) logPanic() {
	h.mu.Lock()
	if !h.dead.Load() {
		h.cur = append(h.cur, "PANIC")
		h.dead.Store(true)
	}
	h.mu.Unlock()
}

func (h *brun) take() string {
	h.mu.Lock()
	defer h.mu.Unlock()
	s := "-"
	if len(h.cur) > 0 {
		s = strings.Join(h.cur, ",")
	}
	h.cur = nil
	return s
}

func (h *brun) reg(p any, payload int) {
	h.mu.Lock()
	h.payloads[p] = payload
	h.mu.Unlock()
}

func (h *brun) done(id int, resp any, isNil bool, err error) {
	if err != nil {
		h.logObs(fmt.Sprintf("D%d=%s", id, resOfErr(err)))
		return
	}
	h.mu.Lock()
	p, ok := h.payloads[resp]
	h.mu.Unlock()
	if isNil || !ok {
		h.logObs(fmt.Sprintf("D%d=ok?", id))
		return
	}
	h.logObs(fmt.Sprintf("D%d=ok%d", id, p))
}

func idsOf[T any](l []T, key func(T) string) string {
	if len(l) == 0 {
		return "-"
	}
	s := make([]string, len(l))
	for i, x := range l {
		s[i] = strconv.Itoa(idOf(key(x)))
	}
	return strings.Join(s, ".")
}

// next returns the request number, the attempt number and the behaviour for an executor invocation;
// partial >= 0: this attempt delivers the first `partial` answers and then fails with a retriable status.
func (h *brun) next() (n int, a int, bh behaviour, partial int) {
	h.mu.Lock()
	defer h.mu.Unlock()
	n, a = h.nexec, h.attempt
	bh = behaviour{typ: 'o'}
	if n < len(h.script) {
		bh = h.script[n]
	}
	if a < len(bh.pre) {
		h.attempt++
		return n, a, bh, bh.pre[a]
	}
	h.nexec++
	h.attempt = 0
	return n, a, bh, -1
}

// retriableErr cycles through the statuses the batches retry on.
func retriableErr(i int) error {
	c := []codes.Code{codes.Unavailable, constant.CodeInvalidStatus, constant.CodeAlreadyClosed, constant.CodeNodeIsNotLeader}[i%4]
	return status.Error(c, "scripted retriable error")
}

func payloadOf(n, a, id int) int { return n*1000000 + a*100000 + id }

func tweakLen(bh behaviour, kind byte, n int) int {
	if bh.kind != kind {
		return n
	}
	switch bh.typ {
	case 's':
		if n-bh.d < 0 {
			return 0
		}
		return n - bh.d
	case 'l':
		return n + bh.d
	}
	return n
}

func (h *brun) execWrite(_ context.Context, req *proto.WriteRequest) (*proto.WriteResponse, error) {
	n, a, bh, partial := h.next()
	if a == 0 {
		h.logObs(fmt.Sprintf("S%d:P%s:D%s:R%s:G-", n,
			idsWith(h, req.Puts, idOfPut), idsWith(h, req.Deletes, idOfDelete), idsWith(h, req.DeleteRanges, idOfRange)))
	}
	if partial >= 0 {
		return nil, retriableErr(n + a)
	}
	if bh.typ == 'e' {
		return nil, &codeErr{bh.code}
	}
	resp := &proto.WriteResponse{}
	for i := 0; i < tweakLen(bh, 'P', len(req.Puts)); i++ {
		r := &proto.PutResponse{Status: proto.Status_OK, Version: &proto.Version{}}
		p := 0
		if i < len(req.Puts) {
			p = payloadOf(n, a, idOfPut(h, req.Puts[i]))
		}
		h.reg(r, p)
		resp.Puts = append(resp.Puts, r)
	}
	for i := 0; i < tweakLen(bh, 'D', len(req.Deletes)); i++ {
		r := &proto.DeleteResponse{Status: proto.Status_OK}
		p := 0
		if i < len(req.Deletes) {
			p = payloadOf(n, a, idOfDelete(h, req.Deletes[i]))
		}
		h.reg(r, p)
		resp.Deletes = append(resp.Deletes, r)
	}
	for i := 0; i < tweakLen(bh, 'R', len(req.DeleteRanges)); i++ {
		r := &proto.DeleteRangeResponse{Status: proto.Status_OK}
		p := 0
		if i < len(req.DeleteRanges) {
			p = payloadOf(n, a, idOfRange(h, req.DeleteRanges[i]))
		}
		h.reg(r, p)
		resp.DeleteRanges = append(resp.DeleteRanges, r)
	}
	return resp, nil
}

// fakeReadStream delivers the scripted chunks, then err (io.EOF at the normal end).
type fakeReadStream struct {
	grpc.ClientStream
	chunks []*proto.ReadResponse
	err    error
}

func (s *fakeReadStream) Recv() (*proto.ReadResponse, error) {
	if len(s.chunks) == 0 {
		return nil, s.err
	}
	c := s.chunks[0]
	s.chunks = s.chunks[1:]
	return c, nil
}

func (h *brun) execRead(_ context.Context, req *proto.ReadRequest) (proto.OxiaClient_ReadClient, error) {
	n, a, bh, partial := h.next()
	if a == 0 {
		h.logObs(fmt.Sprintf("S%d:P-:D-:R-:G%s", n, idsWith(h, req.Gets, idOfGet)))
	}
	if partial == 0 && (n+a)%2 == 0 {
		// nothing delivered: the stream cannot even be opened
		return nil, retriableErr(n + a)
	}
	if partial < 0 && bh.typ == 'e' && bh.code%2 == 0 {
		return nil, &codeErr{bh.code}
	}
	count := tweakLen(bh, 'G', len(req.Gets))
	if partial >= 0 {
		count = partial
		if count > len(req.Gets) {
			count = len(req.Gets)
		}
	}
	var all []*proto.GetResponse
	for i := 0; i < count; i++ {
		r := &proto.GetResponse{Status: proto.Status_OK, Version: &proto.Version{}}
		p := 0
		if i < len(req.Gets) {
			p = payloadOf(n, a, idOfGet(h, req.Gets[i]))
		}
		h.reg(r, p)
		all = append(all, r)
	}
	// deliver in chunks of varying size (the batch concatenates them)
	st := &fakeReadStream{err: io.EOF}
	step := 1 + (n+a)%3
	for len(all) > 0 {
		k := step
		if k > len(all) {
			k = len(all)
		}
		st.chunks = append(st.chunks, &proto.ReadResponse{Gets: all[:k]})
		all = all[k:]
		step = step%3 + 1
	}
	switch {
	case partial >= 0:
		st.err = retriableErr(n + a) // after the chunks the stream fails with a retriable status
	case bh.typ == 'e': // odd code: the stream fails for good after the first chunk
		if len(st.chunks) > 1 {
			st.chunks = st.chunks[:1]
		}
		st.err = &codeErr{bh.code}
	}
	return st, nil
}

// wrapBatch forwards to the real batch and tells the harness what Run is doing.
type wrapBatch struct {
	real commonbatch.Batch
	h    *brun
	adds int
	done bool
}

func (w *wrapBatch) panicked() { w.h.logPanic() }

func (w *wrapBatch) CanAdd(c any) (res bool) {
	w.h.phase.CompareAndSwap(phAwaitCall, phInCall)
	defer func() {
		if r := recover(); r != nil {
			w.panicked()
			res = true
		}
	}()
	return w.real.CanAdd(c)
}

func (w *wrapBatch) Add(c any) {
	defer func() {
		if r := recover(); r != nil {
			w.panicked()
		}
	}()
	w.real.Add(c)
	w.h.mu.Lock()
	w.adds++
	w.h.open = w
	w.h.mu.Unlock()
}

func (w *wrapBatch) Size() int {
	s := w.real.Size()
	w.h.sizeSeen.Store(true)
	select {
	case w.h.sizeC <- s:
	default:
	}
	return s
}

func (w *wrapBatch) closeOut() {
	w.h.mu.Lock()
	w.done = true
	if w.h.open == w {
		w.h.open = nil
	}
	w.h.mu.Unlock()
}

func (w *wrapBatch) Complete() {
	ph := w.h.phase.Load()
	if ph == phIdle || ph == phAwaitCall || ph == phAwaitFail {
		// Run took the timer case at a moment the case does not have a Tick: the run is discarded and repeated
		w.h.earlyTick.Store(true)
	}
	signal := w.h.sizeSeen.Load() || ph == phAwaitTick
	defer func() {
		if r := recover(); r != nil {
			w.panicked()
		}
		w.closeOut()
		if signal {
			select {
			case w.h.compC <- struct{}{}:
			default:
			}
		}
	}()
	if w.h.dead.Load() {
		return // the process died in an earlier call of this Run iteration
	}
	w.real.Complete()
}

func (w *wrapBatch) Fail(err error) {
	defer func() {
		if r := recover(); r != nil {
			w.panicked()
		}
		w.closeOut()
		select {
		case w.h.failC <- struct{}{}:
		default:
		}
	}()
	w.real.Fail(err)
}

// Calls of size zero have no key material to carry their id: a put / delete carries it in ExpectedVersionId (passed
// through by ToProto), a get (marked by size 1 in the case line; the model ignores the size of a get) in
// SecondaryIndexName, and a case has at most one delete-range("", ""), known to the run as zeroRange.
func idOfPut(h *brun, p *proto.PutRequest) int {
	if p.Key == "" && p.ExpectedVersionId != nil {
		return int(*p.ExpectedVersionId)
	}
	return idOf(p.Key)
}

func idOfDelete(h *brun, p *proto.DeleteRequest) int {
	if p.Key == "" && p.ExpectedVersionId != nil {
		return int(*p.ExpectedVersionId)
	}
	return idOf(p.Key)
}

func idOfRange(h *brun, p *proto.DeleteRangeRequest) int {
	if p.StartInclusive == "" && p.EndExclusive == "" {
		return h.zeroRange
	}
	return idOf(p.StartInclusive)
}

func idOfGet(h *brun, p *proto.GetRequest) int {
	if p.Key == "" && p.SecondaryIndexName != nil {
		return idOf(*p.SecondaryIndexName)
	}
	return idOf(p.Key)
}

func idsWith[T any](h *brun, l []T, id func(*brun, T) int) string {
	if len(l) == 0 {
		return "-"
	}
	s := make([]string, len(l))
	for i, x := range l {
		s[i] = strconv.Itoa(id(h, x))
	}
	return strings.Join(s, ".")
}

func (h *brun) makeCall(c bcall) any {
	id := c.id
	if c.size == 0 && c.kind != 'g' {
		id64 := int64(id)
		switch c.kind {
		case 'p':
			return oxia.VerifPutCall{Key: "", Value: nil, ExpectedVersionId: &id64, Callback: func(r *proto.PutResponse, err error) {
				h.done(id, r, r == nil, err)
			}}
		case 'd':
			return oxia.VerifDeleteCall{Key: "", ExpectedVersionId: &id64, Callback: func(r *proto.DeleteResponse, err error) {
				h.done(id, r, r == nil, err)
			}}
		default:
			h.zeroRange = id
			return oxia.VerifDeleteRangeCall{MinKeyInclusive: "", MaxKeyExclusive: "",
				Callback: func(r *proto.DeleteRangeResponse, err error) { h.done(id, r, r == nil, err) }}
		}
	}
	if c.kind == 'g' && c.size == 1 {
		carrier := keyOf(id)
		return oxia.VerifGetCall{Key: "", IncludeValue: true, SecondaryIndexName: &carrier, Callback: func(r *proto.GetResponse, err error) {
			h.done(id, r, r == nil, err)
		}}
	}
	key := keyOf(id)
	pad := c.size - len(key)
	if pad < 0 {
		pad = 0
	}
	switch c.kind {
	case 'p':
		return oxia.VerifPutCall{Key: key, Value: make([]byte, pad), Callback: func(r *proto.PutResponse, err error) {
			h.done(id, r, r == nil, err)
		}}
	case 'd':
		k := key
		if pad > 0 {
			k = key + strings.Repeat("_", pad)
		}
		return oxia.VerifDeleteCall{Key: k, Callback: func(r *proto.DeleteResponse, err error) {
			h.done(id, r, r == nil, err)
		}}
	case 'r':
		return oxia.VerifDeleteRangeCall{MinKeyInclusive: key, MaxKeyExclusive: strings.Repeat("_", pad),
			Callback: func(r *proto.DeleteRangeResponse, err error) { h.done(id, r, r == nil, err) }}
	default:
		return oxia.VerifGetCall{Key: key, IncludeValue: true, Callback: func(r *proto.GetResponse, err error) {
			h.done(id, r, r == nil, err)
		}}
	}
}

func safely(f func()) (panicked bool) {
	defer func() {
		if r := recover(); r != nil {
			panicked = true
		}
	}()
	f()
	return false
}

// waitLimit bounds every wait for something the real code is expected to do. It is generous (a loaded machine
// must not cause an alarm); once a few waits have expired the code under test is evidently stuck and the
// remaining cases only get a short limit, so that a broken build is reported in reasonable time.
const waitLimitLong = 20 * time.Second

var expiredWaits atomic.Int32

func waitLimit() time.Duration {
	if expiredWaits.Load() >= 2 {
		return 300 * time.Millisecond
	}
	return waitLimitLong
}

// expired is the channel to select on next to the awaited event (the taker calls noteExpired).
func expired() <-chan time.Time { return time.After(waitLimit()) }

func waitSig[T any](c chan T) (v T, ok bool) {
	t := time.NewTimer(waitLimit())
	defer t.Stop()
	select {
	case v = <-c:
		return v, true
	case <-t.C:
		expiredWaits.Add(1)
		return v, false
	}
}

func drain[T any](c chan T) {
	for {
		select {
		case <-c:
		default:
			return
		}
	}
}

// runBatchOnce drives one case once. timingOK=false: the linger timer fired at a moment the case has no Tick.
func runBatchOnce(cfg bcfg, script []behaviour, events []bevent, tickLinger time.Duration) (result string, timingOK bool) {
	h := &brun{cfg: cfg, script: script, payloads: map[any]int{},
		sizeC: make(chan int, 64), compC: make(chan struct{}, 64), failC: make(chan struct{}, 64)}
	hasTick := false
	for _, e := range events {
		if e.typ == 'T' {
			hasTick = true
		}
	}
	switch {
	case !cfg.lingerPos:
		h.linger = 0
	case hasTick:
		h.linger = tickLinger
	default:
		h.linger = time.Hour
	}
	factory := func() commonbatch.Batch {
		var real commonbatch.Batch
		if cfg.write {
			real = oxia.VerifNewWriteBatch(1, cfg.maxBytes, 5*time.Second, h.execWrite)
		} else {
			real = oxia.VerifNewReadBatch(1, 5*time.Second, h.execRead)
		}
		return &wrapBatch{real: real, h: h}
	}
	bf := commonbatch.BatcherFactory{Linger: h.linger, MaxRequestsPerBatch: cfg.maxReq}
	b := bf.NewBatcher(context.Background(), 1, "verif", factory)
	closed := false
	var out []string
	for _, ev := range events {
		if h.dead.Load() {
			out = append(out, "-")
			continue
		}
		drain(h.sizeC)
		drain(h.compC)
		drain(h.failC)
		h.sizeSeen.Store(false)
		switch ev.typ {
		case 'C':
			call := h.makeCall(ev.call)
			if closed {
				if safely(func() { b.Add(call) }) {
					h.logPanic()
				}
				break
			}
			h.phase.Store(phAwaitCall)
			b.Add(call)
			size, ok := waitSig(h.sizeC)
			if !ok && !h.dead.Load() {
				h.logObs("TIMEOUT-size")
			}
			if ok && !h.dead.Load() && (size == cfg.maxReq || h.linger == 0) {
				if _, ok := waitSig(h.compC); !ok {
					h.logObs("TIMEOUT-complete")
				}
			}
			h.phase.Store(phIdle)
		case 'T':
			h.mu.Lock()
			open := h.open != nil
			h.mu.Unlock()
			if cfg.lingerPos && open {
				h.phase.Store(phAwaitTick)
				if _, ok := waitSig(h.compC); !ok {
					h.logObs("TIMEOUT-tick")
				}
				h.phase.Store(phIdle)
			}
		case 'X':
			h.mu.Lock()
			open := h.open != nil
			h.mu.Unlock()
			if !closed && open {
				h.phase.Store(phAwaitFail)
			}
			if safely(func() { _ = b.Close() }) {
				h.logPanic()
			} else if !closed && open {
				if _, ok := waitSig(h.failC); !ok {
					h.logObs("TIMEOUT-fail")
				}
			}
			h.phase.Store(phIdle)
			closed = true
		}
		out = append(out, h.take())
		if h.earlyTick.Load() {
			break
		}
	}
	timingOK = !h.earlyTick.Load()
	// let the Run goroutine go
	h.phase.Store(phAwaitTick) // whatever happens now is not part of the case
	if !closed {
		safely(func() { _ = b.Close() })
	}
	return strings.Join(out, ";"), timingOK
}

// checkBatchSpec evaluates "every submitted call completed exactly once with its own result" directly on the
// observations (independent of the model).  wellBehaved: the script has no short answers and the case no
// second Close / wrongly typed call, i.e. the hypotheses of c20_exactly_once hold.
func checkBatchSpec(o *hxOut, cfg bcfg, script []behaviour, events []bevent, result string, line string) {
	for _, b := range script {
		if b.typ == 's' {
			return
		}
	}
	closes := 0
	submitted := map[int]bool{}
	for _, e := range events {
		if e.typ == 'X' {
			closes++
		}
		if e.typ == 'C' {
			if (e.call.kind == 'g') == cfg.write {
				return
			}
			submitted[e.call.id] = true
		}
	}
	if closes > 1 {
		return
	}
	if strings.Contains(result, "PANIC") {
		o.Violation("batch:panic-with-well-formed-answers", line+" => "+result)
		return
	}
	// requests sent: number -> set of ids; completions: id -> results
	sent := map[int]map[int]bool{}
	errOf := map[int]int{}
	for n, b := range script {
		if b.typ == 'e' {
			errOf[n] = b.code
		}
	}
	done := map[int][]string{}
	for _, evo := range strings.Split(result, ";") {
		for _, ob := range splitList(evo) {
			switch ob[0] {
			case 'S':
				f := strings.Split(ob[1:], ":")
				n, _ := strconv.Atoi(f[0])
				sent[n] = map[int]bool{}
				for _, part := range f[1:] {
					if part[1:] == "-" {
						continue
					}
					for _, s := range strings.Split(part[1:], ".") {
						id, _ := strconv.Atoi(s)
						sent[n][id] = true
					}
				}
			case 'D':
				f := strings.SplitN(ob[1:], "=", 2)
				id, _ := strconv.Atoi(f[0])
				done[id] = append(done[id], f[1])
			}
		}
	}
	for id, rs := range done {
		if !submitted[id] {
			o.Violation("batch:callback-of-unknown-call", fmt.Sprintf("%s => %s (call %d)", line, result, id))
			return
		}
		if len(rs) > 1 {
			o.Violation("batch:call-completed-twice", fmt.Sprintf("%s => %s (call %d)", line, result, id))
			return
		}
		r := rs[0]
		switch {
		case r == "shut":
		case strings.HasPrefix(r, "ok"):
			// payload = request number, attempt number, call id: it must be this call's answer of the LAST attempt
			// at the request the call travelled in
			p, err := strconv.Atoi(r[2:])
			lastAttempt := 0
			if err == nil && p/1000000 < len(script) {
				lastAttempt = len(script[p/1000000].pre)
			}
			if err != nil || p%100000 != id || (p/100000)%10 != lastAttempt || !sent[p/1000000][id] {
				o.Violation("batch:result-of-another-call", fmt.Sprintf("%s => %s (call %d got %s)", line, result, id, r))
				return
			}
		case strings.HasPrefix(r, "err"):
			code, _ := strconv.Atoi(r[3:])
			found := false
			for n, ids := range sent {
				if ids[id] && errOf[n] == code {
					if _, isErr := errOf[n]; isErr {
						found = true
					}
				}
			}
			if !found {
				o.Violation("batch:error-of-another-batch", fmt.Sprintf("%s => %s (call %d got %s)", line, result, id, r))
				return
			}
		}
	}
	// nothing may be left waiting after Close or with linger = 0
	if closes == 1 || !cfg.lingerPos {
		for id := range submitted {
			if len(done[id]) == 0 {
				o.Violation("batch:call-never-completed", fmt.Sprintf("%s => %s (call %d)", line, result, id))
				return
			}
		}
	}
}
