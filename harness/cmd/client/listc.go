package main

// List with cancellation: the real clientImpl.List over shards whose streams are gated by the case script.
// A send on the closed result channel panics on a goroutine started by List itself, which nothing can recover:
// every case therefore runs in a child process (this binary, first argument "listc-child") and a crash of the
// child is the observation PANIC.
//
//	listc <id> <fixed 0|1> <chans> <events>        events = F<i> | G<i> | C
//	  F<i>: shard i's stream delivers its next item and the consumer takes one value from the result channel
//	  C   : the caller's context is cancelled
//	  G<i>: shard i's stream fails with the context error (what gRPC does after cancellation); nobody is reading
//	result: observations  k<hex>:0 | E<code> | closed | PANIC , "," separated, "-" = none

import (
	"context"
	"errors"
	"fmt"
	"io"
	"os"
	"os/exec"
	"strconv"
	"strings"
	"time"

	"google.golang.org/grpc"

	"github.com/oxia-db/oxia/oxia"
	"github.com/oxia-db/oxia/proto"
)

type gatedListStream struct {
	grpc.ClientStream
	gate chan recvListItem
}

type recvListItem struct {
	keys []string
	err  error
}

func (s *gatedListStream) Recv() (*proto.ListResponse, error) {
	it := <-s.gate
	if it.err != nil {
		return nil, it.err
	}
	return &proto.ListResponse{Keys: it.keys}, nil
}

// listcChild runs one case in this process and prints the observations.
func listcChild(chansArg string, eventsArg string) {
	chans := parseChans(chansArg)
	k := len(chans)
	shards := make([]int64, k)
	gates := make([]chan recvListItem, k)
	for i := range shards {
		shards[i] = int64(i)
		gates[i] = make(chan recvListItem)
	}
	exec := &oxia.VerifExecutor{
		List: func(_ context.Context, req *proto.ListRequest) (proto.OxiaClient_ListClient, error) {
			return &gatedListStream{gate: gates[int(*req.Shard)]}, nil
		},
	}
	c, _ := oxia.NewVerifClient(shards, func(string) int64 { return 0 }, exec, 0, 10, 1<<20, 5*time.Second)
	ctx, cancel := context.WithCancel(context.Background())
	defer cancel()
	ch := c.List(ctx, "", "")
	var obs []string
	flush := func() {
		s := "-"
		if len(obs) > 0 {
			s = strings.Join(obs, ",")
		}
		fmt.Println("RESULT " + s)
		_ = os.Stdout.Sync()
	}
	pos := make([]int, k)
	finished := make([]bool, k)
	closed := false
	var take func()
	take = func() {
		select {
		case lr, ok := <-ch:
			switch {
			case !ok:
				obs = append(obs, "closed")
				closed = true
			case lr.Err != nil:
				code := codeOfErr(lr.Err)
				if errors.Is(lr.Err, context.Canceled) {
					code = 0
				}
				if code == 0 {
					// the context error of a shard that gave up: whether it is still delivered depends on which
					// ready case its select picks; the closure must follow all the same
					take()
					return
				}
				obs = append(obs, fmt.Sprintf("E%d", code))
			default:
				for _, key := range lr.Keys {
					obs = append(obs, mitem{key: key}.String())
				}
			}
		case <-time.After(5 * time.Second):
			obs = append(obs, "TIMEOUT")
		}
	}
	give := func(i int, it recvListItem) bool {
		select {
		case gates[i] <- it:
			return true
		case <-time.After(5 * time.Second):
			return false
		}
	}
	// empty streams end at once
	for i := range chans {
		if len(chans[i]) == 0 {
			give(i, recvListItem{err: io.EOF})
			finished[i] = true
		}
	}
	allDone := func() bool {
		for i := range finished {
			if !finished[i] {
				return false
			}
		}
		return true
	}
	if allDone() {
		take()
	}
	for _, ev := range splitList(eventsArg) {
		switch ev[0] {
		case 'F':
			i, _ := strconv.Atoi(ev[1:])
			if i >= k || finished[i] || pos[i] >= len(chans[i]) {
				continue
			}
			it := chans[i][pos[i]]
			pos[i]++
			if it.isErr {
				give(i, recvListItem{err: itemErr(it.payload)})
				finished[i] = true
			} else {
				give(i, recvListItem{keys: []string{it.key}})
			}
			take()
			if !finished[i] && pos[i] >= len(chans[i]) {
				// the stream ends: the shard goroutine returns
				give(i, recvListItem{err: io.EOF})
				finished[i] = true
			}
		case 'C':
			cancel()
			// The code as found closes the result channel as soon as the context is done; the repaired code only
			// after every shard goroutine has returned (they are all parked in the gated Recv here). Watch for the
			// early close for a moment: on the repaired code nothing can arrive, whatever the margin.
			if !closed {
				select {
				case lr, ok := <-ch:
					if !ok {
						obs = append(obs, "closed")
						closed = true
					} else {
						obs = append(obs, fmt.Sprintf("UNEXPECTED-%v", lr))
					}
				case <-time.After(60 * time.Millisecond):
				}
			}
		case 'G':
			i, _ := strconv.Atoi(ev[1:])
			if i >= k || finished[i] {
				continue
			}
			give(i, recvListItem{err: context.Canceled})
			finished[i] = true
		}
		// the result channel is closed once every shard goroutine has returned (or, in the code as found, as soon
		// as the context is done)
		if allDone() && !closed {
			take()
		}
	}
	// give a goroutine that is about to panic the time to do so before reporting
	time.Sleep(20 * time.Millisecond)
	flush()
}

// runListCancel runs one listc case in a child process.
func runListCancel(chans [][]mitem, events []string) string {
	cmd := exec.Command(os.Args[0], "listc-child", fmtChans(chans), strings.Join(events, ","))
	var out, errb strings.Builder
	cmd.Stdout = &out
	cmd.Stderr = &errb
	done := make(chan error, 1)
	if err := cmd.Start(); err != nil {
		return "SPAWN-FAILED"
	}
	go func() { done <- cmd.Wait() }()
	select {
	case err := <-done:
		if err != nil {
			if strings.Contains(errb.String(), "send on closed channel") {
				return "PANIC"
			}
			return "CRASH"
		}
	case <-time.After(60 * time.Second):
		_ = cmd.Process.Kill()
		return "TIMEOUT"
	}
	for _, l := range strings.Split(out.String(), "\n") {
		if strings.HasPrefix(l, "RESULT ") {
			return strings.TrimPrefix(l, "RESULT ")
		}
	}
	return "NO-RESULT"
}

func doListcCase(o *hxOut, chans [][]mitem, events []string) {
	in := "1 " + fmtChans(chans) + " " + strings.Join(events, ",")
	if len(events) == 0 {
		in = "1 " + fmtChans(chans) + " -"
	}
	res := runListCancel(chans, events)
	o.Case("listc", in, res, in)
	line := "listc " + in
	switch {
	case res == "PANIC":
		o.Violation("list:panic-send-on-closed-channel", line+" => "+res)
		return
	case strings.Contains(res, "TIMEOUT") || strings.Contains(res, "CRASH") || strings.Contains(res, "UNEXPECTED") ||
		res == "NO-RESULT" || res == "SPAWN-FAILED":
		o.Violation("list:no-progress-or-crash", line+" => "+res)
		return
	}
	in2 := map[string]int{}
	for _, ch := range chans {
		for _, it := range ch {
			in2[it.String()]++
		}
	}
	obs := splitList(res)
	for i, x := range obs {
		if x == "closed" {
			if i != len(obs)-1 {
				o.Violation("list:value-after-close", line+" => "+res)
				return
			}
			continue
		}
		in2[x]--
		if in2[x] < 0 {
			o.Violation("list:duplicated-or-invented-item", line+" => "+res)
			return
		}
	}
}

func genListcCase(r *hxRng) ([][]mitem, []string) {
	k := 1 + r.Intn(4)
	chans := make([][]mitem, k)
	for i := range chans {
		n := r.Intn(4)
		for j := 0; j < n; j++ {
			chans[i] = append(chans[i], mitem{key: genKey(r)})
		}
		if r.Chance(30) {
			chans[i] = append(chans[i], mitem{isErr: true, payload: 1 + r.Intn(50)})
		}
	}
	left := make([]int, k)
	total := 0
	for i := range chans {
		left[i] = len(chans[i])
		total += left[i]
	}
	var ev []string
	nf := total
	cancelAt := -1
	if r.Chance(65) {
		cancelAt = r.Intn(total + 1)
		nf = cancelAt
	}
	for n := 0; n < nf; n++ {
		i := r.Intn(k)
		ev = append(ev, fmt.Sprintf("F%d", i))
	}
	if cancelAt >= 0 {
		ev = append(ev, "C")
		perm := make([]int, k)
		for i := range perm {
			perm[i] = i
		}
		for i := k - 1; i > 0; i-- {
			j := r.Intn(i + 1)
			perm[i], perm[j] = perm[j], perm[i]
		}
		for _, i := range perm {
			if r.Chance(85) {
				ev = append(ev, fmt.Sprintf("G%d", i))
			}
		}
	} else {
		// drain every stream
		for i := range chans {
			for j := 0; j < len(chans[i]); j++ {
				ev = append(ev, fmt.Sprintf("F%d", i))
			}
		}
	}
	return chans, ev
}
