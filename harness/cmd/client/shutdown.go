package main

// Shutdown leg: batcher / client shutdown overlapping calls in flight. The real batch.Batcher (its Run goroutine, its
// bounded call queue) with real write batches whose executor can be parked; the queue is filled to capacity, late Adds
// are parked in the channel send (seen in the goroutine dump), Close is issued at a scripted point, further Adds come
// after it, then Run is released. Every call handed to Add must complete exactly once (result or ErrShuttingDown).
//
//	shutdown <id> <linger 0|1> <max> <K> <closeat 0|1|2> <late> <after> <recvs>
//	   pre-calls (1, or max with linger) make Run park in Complete; closeat: 0 before the queue is filled, 1 after,
//	   2 after the late Adds are parked; K = capacity of the call queue (runtime.GOMAXPROCS, fixed by oxia/batch);
//	   recvs only shapes the model's schedule (how many calls Run receives before it notices the close)
//	-> completions per call, in the order the calls were issued:  1,1,1,...
//
// The same through the real async client (Close with puts in flight) runs in a child process: a second completion is
// a send on a closed result channel, i.e. a panic on the batcher's goroutine.

import (
	"context"
	"fmt"
	"os"
	"os/exec"
	"runtime"
	"strconv"
	"strings"
	"sync"
	"sync/atomic"
	"time"

	"github.com/oxia-db/oxia/oxia"
	commonbatch "github.com/oxia-db/oxia/oxia/batch"
	"github.com/oxia-db/oxia/proto"

	"verif/harness/internal/hx"
)

// goroutinesIn counts the goroutines whose stack shows all the given fragments.
// A batcher's Run goroutine is recognised by its "created by ...(*BatcherFactory).NewBatcher" line, which it carries from
// its creation on -- also while it has not been scheduled for the first time (its frames do not show Run yet then).
func goroutinesIn(frags ...string) int {
	buf := make([]byte, 8<<20)
	n := runtime.Stack(buf, true)
	c := 0
	for _, g := range strings.Split(string(buf[:n]), "\n\n") {
		ok := true
		for _, f := range frags {
			if !strings.Contains(g, f) {
				ok = false
			}
		}
		if ok {
			c++
		}
	}
	return c
}

func waitUntil(limit time.Duration, cond func() bool) bool {
	deadline := time.Now().Add(limit)
	for time.Now().Before(deadline) {
		if cond() {
			return true
		}
		time.Sleep(200 * time.Microsecond)
	}
	return cond()
}

type shutCase struct {
	lingerPos            bool
	max, k               int
	closeAt, late, after int
	recvs                int
}

func (c shutCase) String() string {
	l := 0
	if c.lingerPos {
		l = 1
	}
	return fmt.Sprintf("%d %d %d %d %d %d %d", l, c.max, c.k, c.closeAt, c.late, c.after, c.recvs)
}

func parseShut(t []string) shutCase {
	n := func(i int) int { v, _ := strconv.Atoi(t[i]); return v }
	return shutCase{lingerPos: t[0] == "1", max: n(1), k: n(2), closeAt: n(3), late: n(4), after: n(5), recvs: n(6)}
}

func runShutdown(c shutCase) (res string, note string) {
	// the Run goroutines of earlier cases have been closed: wait for them to be gone, this case looks for its own
	waitUntil(5*time.Second, func() bool { return goroutinesIn("BatcherFactory).NewBatcher") == 0 })
	gate := make(chan struct{})
	entered := make(chan struct{}, 1)
	var first atomic.Bool
	execute := func(_ context.Context, req *proto.WriteRequest) (*proto.WriteResponse, error) {
		if first.CompareAndSwap(false, true) {
			entered <- struct{}{}
			<-gate
		}
		resp := &proto.WriteResponse{}
		for range req.Puts {
			resp.Puts = append(resp.Puts, &proto.PutResponse{Status: proto.Status_OK, Version: &proto.Version{}})
		}
		return resp, nil
	}
	linger := time.Duration(0)
	if c.lingerPos {
		linger = time.Hour
	}
	bf := commonbatch.BatcherFactory{Linger: linger, MaxRequestsPerBatch: c.max}
	b := bf.NewBatcher(context.Background(), 1, "verif", func() commonbatch.Batch {
		return oxia.VerifNewWriteBatch(1, 1<<20, 5*time.Second, execute)
	})
	var mu sync.Mutex
	var counts []*atomic.Int32
	newCall := func() oxia.VerifPutCall {
		cnt := &atomic.Int32{}
		mu.Lock()
		counts = append(counts, cnt)
		mu.Unlock()
		return oxia.VerifPutCall{Key: "k", Value: []byte("v"), Callback: func(*proto.PutResponse, error) { cnt.Add(1) }}
	}
	pre := 1
	if c.lingerPos {
		pre = c.max
	}
	for i := 0; i < pre; i++ {
		b.Add(newCall())
	}
	select {
	case <-entered:
	case <-time.After(10 * time.Second):
		close(gate)
		return "NOT-PARKED", ""
	}
	closed := false
	doClose := func() {
		if !closed {
			_ = b.Close()
			closed = true
		}
	}
	if c.closeAt == 0 {
		doClose()
	}
	for i := 0; i < c.k; i++ {
		b.Add(newCall()) // room in the queue, or the batcher is closed: returns at once
	}
	if c.closeAt == 1 {
		doClose()
	}
	var lateWG sync.WaitGroup
	parkedWanted := 0
	for i := 0; i < c.late; i++ {
		call := newCall()
		lateWG.Add(1)
		if !closed {
			parkedWanted++
		}
		go func() {
			defer lateWG.Done()
			b.Add(call)
		}()
	}
	if parkedWanted > 0 {
		if !waitUntil(10*time.Second, func() bool { return goroutinesIn("chan send", "batcherImpl).Add") >= parkedWanted }) {
			note = "late-adds-not-parked"
		}
	}
	if c.closeAt == 2 {
		doClose()
	}
	for i := 0; i < c.after; i++ {
		b.Add(newCall())
	}
	doClose()
	close(gate)
	lateDone := make(chan struct{})
	go func() { lateWG.Wait(); close(lateDone) }()
	select {
	case <-lateDone:
	case <-time.After(5 * time.Second):
		note += " late-add-did-not-return"
	}
	// Run fails / completes what it received and returns; afterwards nothing can complete a call any more
	waitUntil(5*time.Second, func() bool { return goroutinesIn("BatcherFactory).NewBatcher") == 0 })
	waitUntil(2*time.Second, func() bool {
		for _, cnt := range counts {
			if cnt.Load() == 0 {
				return false
			}
		}
		return true
	})
	parts := make([]string, len(counts))
	for i, cnt := range counts {
		parts[i] = strconv.Itoa(int(cnt.Load()))
	}
	return strings.Join(parts, ","), strings.TrimSpace(note)
}

func doShutdownCase(o *hx.Out, c shutCase) {
	in := c.String()
	res, note := runShutdown(c)
	o.Case("shutdown", in, res, in)
	if note != "" {
		o.Count("shutdown:note:" + note)
	}
	line := "shutdown " + in
	for i, x := range strings.Split(res, ",") {
		switch {
		case x == "1":
		case x == "0":
			o.Violation("batch:call-never-completed", fmt.Sprintf("%s => %s (call #%d; waited 2 s after Run had returned)", line, res, i))
			return
		case x == "NOT-PARKED":
			o.Violation("batch:no-progress", line+" => "+res)
			return
		default:
			o.Violation("batch:call-completed-twice", fmt.Sprintf("%s => %s (call #%d)", line, res, i))
			return
		}
	}
}

func genShutdownCase(r *hx.Rng) shutCase {
	c := shutCase{k: runtime.GOMAXPROCS(-1), closeAt: r.Intn(3), late: r.Intn(4), after: r.Intn(3), recvs: r.Intn(6)}
	if r.Chance(40) {
		c.lingerPos = true
		c.max = 1 + r.Intn(4)
	} else {
		c.max = hx.Pick(r, []int{1, 3, 1000})
	}
	if c.closeAt == 2 && c.late == 0 {
		c.late = 1
	}
	return c
}

// ---------------------------------------------------------------- through the real client, in a child process

// shutcChild: blocker put parks the write batcher's Run in the executor; K puts fill the queue; `late` puts are parked
// in Add; the client is closed; the executor is released; every Put channel must deliver exactly one value.
func shutcChild(lateArg string) {
	late, _ := strconv.Atoi(lateArg)
	gate := make(chan struct{})
	entered := make(chan struct{}, 1)
	var first atomic.Bool
	exec := &oxia.VerifExecutor{Write: func(_ context.Context, req *proto.WriteRequest) (*proto.WriteResponse, error) {
		if first.CompareAndSwap(false, true) {
			entered <- struct{}{}
			<-gate
		}
		resp := &proto.WriteResponse{}
		for range req.Puts {
			resp.Puts = append(resp.Puts, &proto.PutResponse{Status: proto.Status_OK, Version: &proto.Version{}})
		}
		return resp, nil
	}}
	c, closeFn := oxia.NewVerifClient([]int64{0}, func(string) int64 { return 0 }, exec, 0, 1000, 1<<20, 5*time.Second)
	var mu sync.Mutex
	var chans []<-chan oxia.PutResult
	put := func(i int) {
		ch := c.Put(fmt.Sprintf("k%d", i), []byte("v"))
		mu.Lock()
		chans = append(chans, ch)
		mu.Unlock()
	}
	put(0)
	<-entered
	k := runtime.GOMAXPROCS(-1)
	for i := 0; i < k; i++ {
		put(1 + i)
	}
	var wg sync.WaitGroup
	for i := 0; i < late; i++ {
		wg.Add(1)
		go func() {
			defer wg.Done()
			put(1 + k + i)
		}()
	}
	parked := waitUntil(10*time.Second, func() bool { return goroutinesIn("chan send", "batcherImpl).Add") >= late })
	_ = closeFn()
	close(gate)
	wg.Wait()
	waitUntil(5*time.Second, func() bool { return goroutinesIn("BatcherFactory).NewBatcher") == 0 })
	var res []string
	for _, ch := range chans {
		n := 0
		timeout := time.After(2 * time.Second)
	loop:
		for {
			select {
			case _, ok := <-ch:
				if !ok {
					break loop
				}
				n++
			case <-timeout:
				n = -1 - n // never closed
				break loop
			}
		}
		res = append(res, strconv.Itoa(n))
	}
	fmt.Printf("RESULT parked=%v %s\n", parked, strings.Join(res, ","))
	_ = os.Stdout.Sync()
}

func runShutClient(late int) string {
	cmd := exec.Command(os.Args[0], "shutc-child", strconv.Itoa(late))
	var out, errb strings.Builder
	cmd.Stdout = &out
	cmd.Stderr = &errb
	if err := cmd.Start(); err != nil {
		return "SPAWN-FAILED"
	}
	done := make(chan error, 1)
	go func() { done <- cmd.Wait() }()
	select {
	case err := <-done:
		if err != nil {
			if strings.Contains(errb.String(), "send on closed channel") || strings.Contains(errb.String(), "close of closed channel") {
				return "PANIC"
			}
			return "CRASH"
		}
	case <-time.After(60 * time.Second):
		_ = cmd.Process.Kill()
		return "TIMEOUT"
	}
	for _, l := range strings.Split(out.String(), "\n") {
		if strings.HasPrefix(l, "RESULT ") {
			return strings.TrimPrefix(l, "RESULT ")
		}
	}
	return "NO-RESULT"
}

// doShutClientCase has no model line: the verdict is on the client's own observable.
func doShutClientCase(o *hx.Out, late int) {
	res := runShutClient(late)
	o.Count("shutdown:client-close-with-puts-in-flight")
	desc := fmt.Sprintf("client closed with 1 put executing, %d queued, %d parked in Add => %s", runtime.GOMAXPROCS(-1), late, res)
	switch {
	case res == "PANIC" || res == "CRASH":
		o.Violation("client:panic-on-close", desc)
	case strings.Contains(res, "TIMEOUT") || res == "NO-RESULT" || res == "SPAWN-FAILED":
		o.Violation("client:close-no-progress", desc)
	default:
		f := strings.Fields(res)
		for _, x := range strings.Split(f[len(f)-1], ",") {
			if x != "1" {
				o.Violation("client:put-not-completed-exactly-once-on-close", desc)
				return
			}
		}
	}
}

// ---------------------------------------------------------------- unforced overlap of Add and Close (observation)

type countBatch struct{ calls []func(error) }

func (*countBatch) CanAdd(any) bool { return true }
func (b *countBatch) Add(c any)     { b.calls = append(b.calls, c.(func(error))) }
func (b *countBatch) Size() int     { return len(b.calls) }
func (b *countBatch) Complete() {
	for _, c := range b.calls {
		c(nil)
	}
}
func (b *countBatch) Fail(err error) {
	for _, c := range b.calls {
		c(err)
	}
}

// doShutdownStress lets goroutines call Add while Close is called, without forcing the interleaving (the window
// between Add's closed-check and its send cannot be held open from outside: Add calls nothing in between).
// Every call must complete exactly once (c20_each_call_completes_exactly_once_with_close): once every Add has returned
// and the Run goroutine is gone nothing can complete a call any more, so a count of 0 then is definitive
// (batch:call-never-completed), whatever the load of the machine; a count of 2 is batch:call-completed-twice.
func doShutdownStress(o *hx.Out, iters int, adders int) {
	lost, twice := 0, 0
	var firstLost string
	for it := 0; it < iters && lost < 3; it++ {
		bf := commonbatch.BatcherFactory{Linger: 0, MaxRequestsPerBatch: 10}
		b := bf.NewBatcher(context.Background(), 1, "verif", func() commonbatch.Batch { return &countBatch{} })
		cnt := make([]atomic.Int32, adders)
		var wg sync.WaitGroup
		barrier := make(chan struct{})
		for i := 0; i < adders; i++ {
			wg.Add(1)
			go func() {
				defer wg.Done()
				<-barrier
				for k := 0; k < i%5; k++ {
					runtime.Gosched()
				}
				b.Add(func(error) { cnt[i].Add(1) })
			}()
		}
		close(barrier)
		for k := it % 40; k > 0; k-- {
			runtime.Gosched()
		}
		_ = b.Close()
		wg.Wait()
		zero := func() int {
			z := 0
			for i := range cnt {
				if cnt[i].Load() == 0 {
					z++
				}
			}
			return z
		}
		if zero() > 0 && !waitUntil(2*time.Millisecond, func() bool { return zero() == 0 }) {
			// not yet completed: decide once Run has returned
			if !waitUntil(30*time.Second, func() bool { return zero() == 0 || goroutinesIn("BatcherFactory).NewBatcher") == 0 }) {
				o.Count("shutdown:stress:run-goroutine-still-alive-after-30s")
				continue
			}
			if z := zero(); z > 0 {
				lost++
				if firstLost == "" {
					firstLost = fmt.Sprintf("iteration %d: %d of %d calls handed to Add while Close was called have no completion although every Add has returned and Run is gone",
						it, z, adders)
				}
			}
		}
		for i := range cnt {
			if cnt[i].Load() > 1 {
				twice++
			}
		}
	}
	o.CountN(fmt.Sprintf("shutdown:stress:iterations(%d Adds racing one Close)", adders), iters)
	if lost > 0 {
		o.Violation("batch:call-never-completed", firstLost)
	}
	if twice > 0 {
		o.Violation("batch:call-completed-twice", fmt.Sprintf("%d calls completed twice in %d iterations of %d concurrent Adds racing Close (unforced)", twice, iters, adders))
	}
}
