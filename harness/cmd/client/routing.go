package main

// Routing leg (no model; spec verdicts for C18 "client and server agree on the shard; every key or partition key
// maps to exactly one shard"): the whole clientImpl over a recording fake executor and a shard manager with 2..8
// shards. For every kind of operation issued with the same partition key pk -- including pk = "" and pk equal to a
// record key -- the request must reach exactly the shard shardManager.Get(pk); without a partition key the
// single-key operations must reach shardManager.Get(key) and the fan-out operations every shard.

import (
	"context"
	"fmt"
	"hash/fnv"
	"io"
	"sort"
	"strings"
	"sync"
	"time"

	"github.com/oxia-db/oxia/oxia"
	"github.com/oxia-db/oxia/proto"

	"verif/harness/internal/hx"
)

type routeRec struct {
	mu   sync.Mutex
	seen map[string][]int64 // operation marker (its key / range start) -> shards that received it
}

func (r *routeRec) note(marker string, shard int64) {
	r.mu.Lock()
	r.seen[marker] = append(r.seen[marker], shard)
	r.mu.Unlock()
}

func (r *routeRec) shards(marker string) []int64 {
	r.mu.Lock()
	defer r.mu.Unlock()
	res := append([]int64(nil), r.seen[marker]...)
	sort.Slice(res, func(i, j int) bool { return res[i] < res[j] })
	return res
}

func runRoutingScenario(o *hx.Out, r *hx.Rng, idx int) {
	nshards := 2 + r.Intn(7)
	rec := &routeRec{seen: map[string][]int64{}}
	route := func(key string) int64 {
		h := fnv.New32a()
		_, _ = h.Write([]byte(key))
		return int64(h.Sum32() % uint32(nshards))
	}
	shards := make([]int64, nshards)
	for i := range shards {
		shards[i] = int64(i)
	}
	exec := &oxia.VerifExecutor{
		Write: func(_ context.Context, req *proto.WriteRequest) (*proto.WriteResponse, error) {
			resp := &proto.WriteResponse{}
			for _, p := range req.Puts {
				rec.note(p.Key, *req.Shard)
				resp.Puts = append(resp.Puts, &proto.PutResponse{Status: proto.Status_OK, Version: &proto.Version{}})
			}
			for _, p := range req.Deletes {
				rec.note(p.Key, *req.Shard)
				resp.Deletes = append(resp.Deletes, &proto.DeleteResponse{Status: proto.Status_OK})
			}
			for _, p := range req.DeleteRanges {
				rec.note(p.StartInclusive, *req.Shard)
				resp.DeleteRanges = append(resp.DeleteRanges, &proto.DeleteRangeResponse{Status: proto.Status_OK})
			}
			return resp, nil
		},
		Read: func(_ context.Context, req *proto.ReadRequest) (proto.OxiaClient_ReadClient, error) {
			st := &fakeReadStream{err: io.EOF}
			for _, g := range req.Gets {
				rec.note(g.Key, *req.Shard)
				k := g.Key
				st.chunks = append(st.chunks, &proto.ReadResponse{Gets: []*proto.GetResponse{
					{Status: proto.Status_OK, Key: &k, Version: &proto.Version{}}}})
			}
			return st, nil
		},
		List: func(_ context.Context, req *proto.ListRequest) (proto.OxiaClient_ListClient, error) {
			rec.note(req.StartInclusive, *req.Shard)
			return &fakeKeysStream{}, nil
		},
		RangeScan: func(_ context.Context, req *proto.RangeScanRequest) (proto.OxiaClient_RangeScanClient, error) {
			rec.note(req.StartInclusive, *req.Shard)
			return &fakeScanStream{}, nil
		},
	}
	c, closeFn := oxia.NewVerifClient(shards, route, exec, 0, 1000, 128*1024, 5*time.Second)
	defer func() { _ = closeFn() }()
	ctx := context.Background()

	recordKeys := []string{genKey(r), genKey(r), "a/b", "x"}
	// partition keys: empty, equal to a record key, arbitrary ones; nil = no partition key
	pks := []*string{nil}
	for _, s := range []string{"", recordKeys[0], recordKeys[2], genKey(r), genKey(r), "pk/" + genKey(r)} {
		v := s
		pks = append(pks, &v)
	}
	usedMarkers := map[string]bool{}
	seq := 0
	marker := func(kind string) string {
		seq++
		// distinct per operation; sometimes a record key is embedded so that pk == key prefixes occur
		return fmt.Sprintf("%s/%d/%d/%s", kind, idx, seq, hx.Pick(r, recordKeys))
	}
	wait := func(what string, f func() bool) {
		if !f() {
			o.Violation("routing:operation-did-not-complete", fmt.Sprintf("shards=%d %s", nshards, what))
		}
	}
	nops := 0
	for _, pk := range pks {
		type opT struct {
			kind   string
			marker string
			fanout bool
		}
		var ops []opT
		pkDesc := "none"
		if pk != nil {
			pkDesc = "hex:" + hx.Hex([]byte(*pk))
			if *pk == "" {
				pkDesc = "\"\" (empty)"
			}
		}
		// for a keyed operation issued WITH a partition key, use the partition key itself as record key now and then
		// (a marker identifies ONE operation instance: a partition key that has already served as a record key --
		// two of the scenario's partition keys can be equal -- is not used as a marker again)
		keyFor := func(kind string) string {
			if pk != nil && *pk != "" && !usedMarkers[*pk] && r.Chance(20) {
				usedMarkers[*pk] = true
				return *pk
			}
			return marker(kind)
		}
		{
			k := keyFor("put")
			var opts []oxia.PutOption
			if pk != nil {
				opts = append(opts, oxia.PartitionKey(*pk))
			}
			ch := c.Put(k, []byte("v"), opts...)
			wait("put "+k, func() bool { _, ok := recvOnce(ch, func(oxia.PutResult) string { return "" }); return ok })
			ops = append(ops, opT{"put", k, false})
		}
		{
			k := marker("delete")
			var opts []oxia.DeleteOption
			if pk != nil {
				opts = append(opts, oxia.PartitionKey(*pk))
			}
			ch := c.Delete(k, opts...)
			wait("delete "+k, func() bool { _, ok := recvOnce(ch, func(error) string { return "" }); return ok })
			ops = append(ops, opT{"delete", k, false})
		}
		for _, cmpOpt := range []oxia.GetOption{nil, oxia.ComparisonFloor()} {
			if pk == nil && cmpOpt != nil {
				continue // a comparison get without partition key asks every shard (covered by C20)
			}
			k := marker("get")
			var opts []oxia.GetOption
			if cmpOpt != nil {
				opts = append(opts, cmpOpt)
			}
			if pk != nil {
				opts = append(opts, oxia.PartitionKey(*pk))
			}
			ch := c.Get(k, opts...)
			wait("get "+k, func() bool { _, ok := recvOnce(ch, func(oxia.GetResult) string { return "" }); return ok })
			ops = append(ops, opT{"get", k, false})
		}
		{
			k := marker("list")
			var opts []oxia.ListOption
			if pk != nil {
				opts = append(opts, oxia.PartitionKey(*pk))
			}
			for range c.List(ctx, k, k+"~", opts...) {
			}
			ops = append(ops, opT{"list", k, true})
		}
		{
			k := marker("range-scan")
			var opts []oxia.RangeScanOption
			if pk != nil {
				opts = append(opts, oxia.PartitionKey(*pk))
			}
			for range c.RangeScan(ctx, k, k+"~", opts...) {
			}
			ops = append(ops, opT{"range-scan", k, true})
		}
		{
			k := marker("delete-range")
			var opts []oxia.DeleteRangeOption
			if pk != nil {
				opts = append(opts, oxia.PartitionKey(*pk))
			}
			ch := c.DeleteRange(k, k+"~", opts...)
			wait("delete-range "+k, func() bool { _, ok := recvOnce(ch, func(error) string { return "" }); return ok })
			ops = append(ops, opT{"delete-range", k, true})
		}
		for _, op := range ops {
			nops++
			all := rec.shards(op.marker)
			o.Count("routing:op:" + op.kind)
			// the verdict is on the SET of shards this operation instance reached; a shard that received the same
			// operation more than once is a duplicate delivery, reported under its own signature
			var got []int64
			for i, sh := range all {
				if i == 0 || sh != all[i-1] {
					got = append(got, sh)
				}
			}
			if len(got) != len(all) {
				o.Violation("routing:request-delivered-twice", fmt.Sprintf(
					"shards=%d partition key %s: %s(%q) was received %d times, by shards %v", nshards, pkDesc, op.kind, op.marker, len(all), all))
			}
			switch {
			case pk != nil:
				want := route(*pk)
				if len(got) != 1 || got[0] != want {
					o.Violation("routing:partition-key-routed-inconsistently", fmt.Sprintf(
						"shards=%d partition key %s: %s(%q) reached shards %v, shardManager.Get(partition key) = %d",
						nshards, pkDesc, op.kind, op.marker, got, want))
				}
			case !op.fanout:
				want := route(op.marker)
				if len(got) != 1 || got[0] != want {
					o.Violation("routing:key-routed-to-wrong-shard", fmt.Sprintf(
						"shards=%d no partition key: %s(%q) reached shards %v, shardManager.Get(key) = %d",
						nshards, op.kind, op.marker, got, want))
				}
			default:
				if fmt.Sprint(got) != fmt.Sprint(shards) {
					o.Violation("routing:fan-out-misses-shards", fmt.Sprintf(
						"shards=%d no partition key: %s(%q) reached shards %v, expected every shard once",
						nshards, op.kind, op.marker, got))
				}
			}
		}
	}
	desc := fmt.Sprintf("shards=%d,partition-keys=%d,ops=%d", nshards, len(pks), nops)
	o.Count(fmt.Sprintf("routing:shards=%d", nshards))
	o.Case("routing", desc, "checked", fmt.Sprintf("%d/%s/%s", idx, desc, strings.Join(recordKeys, "|")))
}
