// quorum cases: "best log wins" on REAL nodes.  The inputs of selectNewLeader are the NewTerm responses of real
// leader / follower controllers, so what a real node reports in every state has to be its true, final log head.
// Three real nodes (own directory, real ShardsDirector, real Pebble, real WAL behind a gating wrapper) are put into
// a state each, all get NewTerm(2), the responses go through the real selectNewLeader (controllers.VerifSelectNewLeader),
// and the nodes' ACTUAL logs are read afterwards (after NewTerm nothing may enter the log in that term before the new
// leader acts, so the log read right after the response, once everything pending has settled, is the log at response time).
//
// Case line:  quorum <id> <node>;<node>;<node>      node = comma separated steps
//
//	e<k>  k entries appended through a leader's replicate stream (term 1), synced and acked
//	u     one more entry appended; the sync round of the stream is parked inside wal.Sync (appended, not synced)
//	b     the leader's stream breaks (Recv fails): no leader attached any more
//	rs    clean restart of the node
//	L<k>  the node is the leader of term 1 (replication factor 1) and has taken k writes
//
// A second case line "sel <id> <true heads>" carries the real selectNewLeader's decision on the REPORTED heads: the
// model (Coord.Model.candidates) is evaluated on the TRUE heads, so the comparison fails unless the elected node has a
// maximal true head and every reported follower head is the true one.
package main

import (
	"context"
	"errors"
	"fmt"
	"os"
	"path/filepath"
	"sort"
	"strconv"
	"strings"
	"sync"
	"time"

	"google.golang.org/grpc/metadata"
	pb "google.golang.org/protobuf/proto"

	"github.com/oxia-db/oxia/coordinator/controllers"
	"github.com/oxia-db/oxia/coordinator/model"
	"github.com/oxia-db/oxia/proto"
	"github.com/oxia-db/oxia/server"
	"github.com/oxia-db/oxia/server/kv"
	"github.com/oxia-db/oxia/server/wal"

	"verif/harness/internal/hx"
	"verif/harness/internal/kvsafe"
)

// ---- WAL wrapper: parks the Sync of a replicate stream's sync round

type syncRoundKey struct{}

type gateWalFactory struct {
	inner wal.Factory
	mu    sync.Mutex
	last  *gateWal
	park  bool
}

func (f *gateWalFactory) Close() error { return f.inner.Close() }
func (f *gateWalFactory) NewWal(namespace string, shardId int64, p wal.CommitOffsetProvider) (wal.Wal, error) {
	w, err := f.inner.NewWal(namespace, shardId, p)
	if err != nil {
		return nil, err
	}
	g := &gateWal{Wal: w, f: f, parked: make(chan struct{}, 8), release: make(chan struct{}), settled: make(chan struct{}, 8)}
	f.mu.Lock()
	f.last = g
	f.mu.Unlock()
	return g, nil
}

type gateWal struct {
	wal.Wal
	f       *gateWalFactory
	parked  chan struct{}
	release chan struct{}
	settled chan struct{}
	nParked int
}

func (g *gateWal) Sync(ctx context.Context) error {
	if ctx.Value(syncRoundKey{}) != nil {
		g.f.mu.Lock()
		park := g.f.park
		if park {
			g.nParked++
		}
		g.f.mu.Unlock()
		if park {
			g.parked <- struct{}{}
			<-g.release
			err := g.Wal.Sync(context.Background())
			g.settled <- struct{}{}
			return err
		}
	}
	return g.Wal.Sync(ctx)
}

// ---- in-process replicate stream (the leader's side is the harness)

type qStream struct {
	ctx    context.Context
	cancel context.CancelFunc
	in     chan *proto.Append
	broken chan struct{}
	acks   chan int64
	once   sync.Once
}

func newQStream() *qStream {
	ctx, cancel := context.WithCancel(context.WithValue(context.Background(), syncRoundKey{}, true))
	return &qStream{ctx: ctx, cancel: cancel, in: make(chan *proto.Append, 16), broken: make(chan struct{}), acks: make(chan int64, 64)}
}
func (s *qStream) Send(a *proto.Ack) error {
	select {
	case s.acks <- a.Offset:
	default:
	}
	return nil
}
func (s *qStream) Recv() (*proto.Append, error) {
	select {
	case a := <-s.in:
		return a, nil
	case <-s.broken:
		return nil, errors.New("connection reset by peer")
	}
}
func (s *qStream) breakIt()                     { s.once.Do(func() { close(s.broken) }) }
func (s *qStream) SetHeader(metadata.MD) error  { return nil }
func (s *qStream) SendHeader(metadata.MD) error { return nil }
func (s *qStream) SetTrailer(metadata.MD)       {}
func (s *qStream) Context() context.Context     { return s.ctx }
func (s *qStream) SendMsg(any) error            { return nil }
func (s *qStream) RecvMsg(any) error            { return nil }

func entryValue(i int64) []byte {
	v := &proto.LogEntryValue{Value: &proto.LogEntryValue_Requests{Requests: &proto.WriteRequests{Writes: []*proto.WriteRequest{
		{Puts: []*proto.PutRequest{{Key: "k", Value: []byte(fmt.Sprintf("%08d", i))}}}}}}}
	b, err := pb.Marshal(v)
	if err != nil {
		panic(err)
	}
	return b
}

// ---- one real node of the mini ensemble

type qNode struct {
	name    string
	dir     string
	gf      *gateWalFactory
	kf      kv.Factory
	sd      server.ShardsDirector
	stream  *qStream
	repDone chan struct{}
	next    int64 // next offset to append
	notes   []string
}

func (n *qNode) open() error {
	kf, err := kvsafe.New(&kv.FactoryOptions{DataDir: filepath.Join(n.dir, "db"), CacheSizeMB: 1})
	if err != nil {
		return err
	}
	n.kf = kf
	n.gf = &gateWalFactory{inner: wal.NewWalFactory(&wal.FactoryOptions{BaseWalDir: filepath.Join(n.dir, "wal"), Retention: time.Hour,
		SegmentSize: 64 * 1024, SyncData: false})}
	n.sd = server.NewShardsDirector(server.Config{NotificationsRetentionTime: time.Hour}, n.gf, kf, noRepl{})
	return nil
}

func (n *qNode) close() {
	if n.stream != nil {
		n.stream.breakIt()
		n.stream.cancel()
	}
	n.releaseParked()
	done := make(chan struct{})
	go func() {
		defer close(done)
		defer func() { _ = recover() }()
		_ = n.sd.Close()
		_ = n.gf.Close()
		_ = n.kf.Close()
	}()
	select {
	case <-done:
	case <-time.After(10 * time.Second):
	}
}

func (n *qNode) releaseParked() {
	n.gf.mu.Lock()
	n.gf.park = false
	g := n.gf.last
	k := 0
	if g != nil {
		k = g.nParked
		g.nParked = 0
	}
	n.gf.mu.Unlock()
	for i := 0; i < k; i++ {
		g.release <- struct{}{}
		select {
		case <-g.settled:
		case <-time.After(3 * time.Second):
		}
	}
}

// attach makes the node a follower of term 1 with the harness as its leader
func (n *qNode) attach() error {
	if n.stream != nil {
		return nil
	}
	if _, _, _, ok := getStatus(n.sd); !ok {
		if err := doNewTerm(n.sd, 1); err != nil {
			return err
		}
	}
	f, err := n.sd.GetOrCreateFollower(ns, shard, 1)
	if err != nil {
		return err
	}
	if f.Status() == proto.ServingStatus_FENCED {
		head := &proto.EntryId{Term: 1, Offset: n.next - 1}
		if n.next == 0 {
			head = &proto.EntryId{Term: -1, Offset: -1}
		}
		if _, err := f.Truncate(&proto.TruncateRequest{Namespace: ns, Shard: shard, Term: 1, HeadEntryId: head}); err != nil {
			return err
		}
	}
	n.stream = newQStream()
	n.repDone = make(chan struct{})
	st, done := n.stream, n.repDone
	go func() {
		defer close(done)
		_ = f.Replicate(st)
	}()
	return nil
}

func (n *qNode) appendOne() {
	off := n.next
	n.next++
	n.stream.in <- &proto.Append{Term: 1, CommitOffset: -1,
		Entry: &proto.LogEntry{Term: 1, Offset: off, Value: entryValue(off), Timestamp: 1}}
}

func (n *qNode) step(s string) error {
	switch {
	case strings.HasPrefix(s, "e"):
		k, _ := strconv.Atoi(s[1:])
		if err := n.attach(); err != nil {
			return err
		}
		for i := 0; i < k; i++ {
			off := n.next
			n.appendOne()
			dl := time.After(3 * time.Second)
		wait:
			for {
				select {
				case a := <-n.stream.acks:
					if a >= off {
						break wait
					}
				case <-dl:
					return fmt.Errorf("entry %d not acked", off)
				}
			}
		}
	case s == "u":
		if err := n.attach(); err != nil {
			return err
		}
		n.gf.mu.Lock()
		n.gf.park = true
		g := n.gf.last
		n.gf.mu.Unlock()
		n.appendOne()
		select {
		case <-g.parked:
		case <-time.After(3 * time.Second):
			return errors.New("sync round did not reach wal.Sync")
		}
	case s == "b":
		if n.stream == nil {
			return nil
		}
		n.stream.breakIt()
		select {
		case <-n.repDone: // Replicate returned: the controller has dropped the stream
		case <-time.After(3 * time.Second):
			return errors.New("Replicate did not return after the stream broke")
		}
	case s == "rs":
		n.close()
		n.stream = nil
		if err := n.open(); err != nil {
			return err
		}
	case strings.HasPrefix(s, "L"):
		k, _ := strconv.Atoi(s[1:])
		if err := doNewTerm(n.sd, 1); err != nil {
			return err
		}
		if err := doBecomeLeader(n.sd, 1); err != nil {
			return err
		}
		l, err := n.sd.GetLeader(shard)
		if err != nil {
			return err
		}
		sh := shard
		for i := 0; i < k; i++ {
			ctx, cancel := context.WithTimeout(context.Background(), 3*time.Second)
			_, err := l.WriteBlock(ctx, &proto.WriteRequest{Shard: &sh, Puts: []*proto.PutRequest{{Key: fmt.Sprintf("k%d", i), Value: []byte("v")}}})
			cancel()
			if err != nil {
				return err
			}
			n.next++
		}
	default:
		return fmt.Errorf("unknown step %q", s)
	}
	return nil
}

// newTerm dispatches NewTerm as internal_rpc_server.go does and returns the reported head
func (n *qNode) newTerm(t int64) (*proto.EntryId, error) {
	req := &proto.NewTermRequest{Namespace: ns, Shard: shard, Term: t, Options: &proto.NewTermOptions{EnableNotifications: false}}
	if f, err := n.sd.GetFollower(shard); err == nil {
		r, err := f.NewTerm(req)
		if err != nil {
			return nil, err
		}
		return r.HeadEntryId, nil
	}
	l, err := n.sd.GetOrCreateLeader(ns, shard)
	if err != nil {
		return nil, err
	}
	r, err := l.NewTerm(req)
	if err != nil {
		return nil, err
	}
	return r.HeadEntryId, nil
}

// trueHead: the node's actual log, everything pending settled
func (n *qNode) trueHead() (int64, int64, bool) {
	n.releaseParked()
	n.gf.mu.Lock()
	g := n.gf.last
	n.gf.mu.Unlock()
	if g == nil {
		return -1, -1, true
	}
	if err := g.Wal.Sync(context.Background()); err != nil {
		return 0, 0, false
	}
	r, err := g.Wal.NewReverseReader()
	if err != nil {
		return 0, 0, false
	}
	defer r.Close()
	if !r.HasNext() {
		return -1, -1, true
	}
	e, err := r.ReadNext()
	if err != nil {
		return 0, 0, false
	}
	return e.Term, e.Offset, true
}

type qResult struct {
	summary  string
	selInput string // true heads of the responders
	selImpl  string // real selectNewLeader on the reported heads
	viols    [][2]string
	stats    map[string]int
}

func runQuorum(tmp string, id int, script string) (res qResult) {
	res.stats = map[string]int{}
	viol := func(sig, f string, a ...any) {
		res.viols = append(res.viols, [2]string{sig, fmt.Sprintf(f, a...) + " (quorum " + script + ")"})
	}
	specs := strings.Split(script, ";")
	nodes := make([]*qNode, len(specs))
	base := filepath.Join(tmp, fmt.Sprintf("quorum-%d", id))
	defer os.RemoveAll(base)
	for i := range specs {
		nodes[i] = &qNode{name: strconv.Itoa(i + 1), dir: filepath.Join(base, fmt.Sprintf("n%d", i+1))}
		hx.Must(os.MkdirAll(nodes[i].dir, 0o755))
		hx.Must(nodes[i].open())
	}
	defer func() {
		for _, n := range nodes {
			n.close()
		}
	}()
	for i, sp := range specs {
		for _, st := range strings.Split(sp, ",") {
			if st == "" || st == "-" {
				continue
			}
			if err := nodes[i].step(st); err != nil {
				res.summary = fmt.Sprintf("setup-failed:n%d:%s:%s", i+1, st, strings.ReplaceAll(err.Error(), " ", "_"))
				res.stats["setup-failed"]++
				return res
			}
			res.stats["step:"+strings.TrimRight(st, "0123456789")]++
		}
	}
	// ---- the election of term 2: every node is fenced, the answers are collected
	type hd struct{ term, off int64 }
	reported := map[string]hd{}
	var parts []string
	for _, n := range nodes {
		h, err := n.newTerm(2)
		if err != nil {
			parts = append(parts, n.name+"=err")
			continue
		}
		reported[n.name] = hd{h.Term, h.Offset}
	}
	truth := map[string]hd{}
	for ni, n := range nodes {
		if _, ok := reported[n.name]; !ok {
			continue
		}
		t, o, ok := n.trueHead()
		if !ok {
			res.summary = "log-unreadable:n" + n.name
			res.stats["log-unreadable"]++
			return res
		}
		truth[n.name] = hd{t, o}
		rp := reported[n.name]
		parts = append(parts, fmt.Sprintf("%s=%d:%d/%d:%d", n.name, rp.term, rp.off, t, o))
		if rp != truth[n.name] {
			viol("newterm:reported-head-differs-from-log", "node %s (%s) answered NewTerm(2) with head (%d,%d) but its log ends at (%d,%d)",
				n.name, specs[ni], rp.term, rp.off, t, o)
		}
	}
	if len(reported) == 0 {
		res.summary = strings.Join(parts, ",") + " no-responder"
		return res
	}
	// ---- the real selectNewLeader on what the nodes reported
	m := map[model.Server]*proto.EntryId{}
	for k, v := range reported {
		m[model.Server{Public: k, Internal: k}] = &proto.EntryId{Term: v.term, Offset: v.off}
	}
	leader, followers := controllers.VerifSelectNewLeader(m)
	lt := truth[leader.Internal]
	for k, v := range truth {
		if v.term > lt.term || (v.term == lt.term && v.off > lt.off) {
			viol("election:elected-head-below-true-head-of-a-fenced-ensemble-responder",
				"selectNewLeader elected node %s whose log ends at (%d,%d); fenced responder %s has a log ending at (%d,%d) (it reported (%d,%d))",
				leader.Internal, lt.term, lt.off, k, v.term, v.off, reported[k].term, reported[k].off)
		}
	}
	var keys, fk []string
	for k := range truth {
		keys = append(keys, k)
	}
	sort.Strings(keys)
	var ti []string
	for _, k := range keys {
		ti = append(ti, fmt.Sprintf("%s=%d:%d", k, truth[k].term, truth[k].off))
	}
	res.selInput = strings.Join(ti, ",")
	for k := range followers {
		fk = append(fk, k.Internal)
	}
	sort.Strings(fk)
	var fi []string
	for _, k := range fk {
		e := followers[model.Server{Public: k, Internal: k}]
		fi = append(fi, fmt.Sprintf("%s=%d:%d", k, e.Term, e.Offset))
	}
	fs := "-"
	if len(fi) > 0 {
		fs = strings.Join(fi, ",")
	}
	res.selImpl = leader.Internal + " " + fs
	res.summary = strings.Join(parts, ",") + " leader=" + leader.Internal
	return res
}

var quorumFixed = []string{
	"e2;e2;e2",
	"e2,u,b;e2;e2", // appended, not synced, leader's stream gone, then fenced
	"e1,u,b;e1;e1",
	"u,b;-;-",
	"e2,u;e2;e2,u,b", // stream still attached on node 1
	"e3,b;e2;e3,u,b",
	"e2,rs;e2,u,b;e2",
	"L3;e2,u,b;e3",
	"L2;-;e2,u,b",
	"e2,u,b,rs;e2;e2",
}

func genQuorum(r *hx.Rng) string {
	k := 1 + r.Intn(3)
	var ns []string
	for i := 0; i < 3; i++ {
		switch r.Intn(8) {
		case 0:
			ns = append(ns, fmt.Sprintf("L%d", k))
		case 1:
			ns = append(ns, "-")
		case 2, 3:
			ns = append(ns, fmt.Sprintf("e%d,u,b", k-1+r.Intn(2)))
		case 4:
			ns = append(ns, fmt.Sprintf("e%d,u", k))
		case 5:
			ns = append(ns, fmt.Sprintf("e%d,b", k))
		case 6:
			ns = append(ns, fmt.Sprintf("e%d,rs", k))
		default:
			ns = append(ns, fmt.Sprintf("e%d", k))
		}
	}
	return strings.ReplaceAll(strings.Join(ns, ";"), "e0,", "")
}
