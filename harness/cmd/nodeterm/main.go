// harness nodeterm: node-side term persistence of C05 on the REAL controllers.  A real ShardsDirector (real
// LeaderController / FollowerController, real WAL, real Pebble on a temp dir) receives sequences of NewTerm /
// BecomeLeader / Truncate requests with lower / equal / higher terms, dispatched exactly as internal_rpc_server.go does,
// interleaved with clean restarts (close + reopen) and crashes (the data directory is copied as it is at that instant
// and the copy is opened: everything written to files survives, everything only in Pebble's memtable is lost — oxia
// runs Pebble with DisableWAL, so a term that was not flushed is lost).  After every request the durable term is read
// back from such a crash image.
//
// Case line:  node <id> <ops>     ops = nt:<t>,bl:<t>,fo:<t>,rs,cr   (comma separated)
// Result:     <res>:<durable term>:<status>@<term>|none ; ...  one item per op
package main

import (
	"context"
	"fmt"
	"io"
	"os"
	"path/filepath"
	"strconv"
	"strings"
	"sync"
	"time"

	"google.golang.org/grpc/status"

	"github.com/oxia-db/oxia/common/constant"
	oxiatime "github.com/oxia-db/oxia/common/time"
	"github.com/oxia-db/oxia/proto"
	"github.com/oxia-db/oxia/server"
	"github.com/oxia-db/oxia/server/kv"
	"github.com/oxia-db/oxia/server/wal"

	"verif/harness/internal/hx"
	"verif/harness/internal/kvsafe"
)

const (
	ns    = "default"
	shard = int64(7)
)

type noRepl struct{}

func (noRepl) Close() error { return nil }
func (noRepl) GetReplicateStream(context.Context, string, string, int64, int64) (proto.OxiaLogReplication_ReplicateClient, error) {
	return nil, fmt.Errorf("no replication in this harness")
}
func (noRepl) SendSnapshot(context.Context, string, string, int64, int64) (proto.OxiaLogReplication_SendSnapshotClient, error) {
	return nil, fmt.Errorf("no replication in this harness")
}
func (noRepl) Truncate(string, *proto.TruncateRequest) (*proto.TruncateResponse, error) {
	return nil, fmt.Errorf("no replication in this harness")
}

type nodeProc struct {
	dir string
	wf  wal.Factory
	kf  kv.Factory
	sd  server.ShardsDirector
}

func openNode(dir string) (*nodeProc, error) {
	kf, err := kvsafe.New(&kv.FactoryOptions{DataDir: filepath.Join(dir, "db"), CacheSizeMB: 1})
	if err != nil {
		return nil, err
	}
	wf := wal.NewWalFactory(&wal.FactoryOptions{BaseWalDir: filepath.Join(dir, "wal"), Retention: time.Hour, SegmentSize: 64 * 1024, SyncData: false})
	sd := server.NewShardsDirector(server.Config{NotificationsRetentionTime: time.Hour}, wf, kf, noRepl{})
	return &nodeProc{dir: dir, wf: wf, kf: kf, sd: sd}, nil
}

func (n *nodeProc) close() {
	done := make(chan struct{})
	go func() {
		defer close(done)
		defer func() { _ = recover() }()
		_ = n.sd.Close()
		_ = n.wf.Close()
		_ = n.kf.Close()
	}()
	select {
	case <-done:
	case <-time.After(10 * time.Second):
	}
}

func copyTree(src, dst string) error {
	return filepath.Walk(src, func(p string, info os.FileInfo, err error) error {
		if err != nil {
			if os.IsNotExist(err) {
				return nil // a file Pebble removed while we walk
			}
			return err
		}
		rel, _ := filepath.Rel(src, p)
		tgt := filepath.Join(dst, rel)
		if info.IsDir() {
			return os.MkdirAll(tgt, 0o755)
		}
		in, err := os.Open(p)
		if err != nil {
			if os.IsNotExist(err) {
				return nil
			}
			return err
		}
		defer in.Close()
		out, err := os.Create(tgt)
		if err != nil {
			return err
		}
		defer out.Close()
		_, err = io.Copy(out, in)
		return err
	})
}

// durableTerm reads the term back from a crash image of the node's directory (retries: Pebble may be compacting)
func durableTerm(n *nodeProc, scratch string) (int64, bool) {
	for try := 0; try < 6; try++ {
		img := fmt.Sprintf("%s-img%d", scratch, try)
		_ = os.RemoveAll(img)
		t, ok := func() (int64, bool) {
			defer os.RemoveAll(img)
			if err := copyTree(n.dir, img); err != nil {
				return 0, false
			}
			kf, err := kvsafe.New(&kv.FactoryOptions{DataDir: filepath.Join(img, "db"), CacheSizeMB: 1})
			if err != nil {
				return 0, false
			}
			defer kf.Close()
			if _, err := os.Stat(filepath.Join(img, "db", ns, fmt.Sprintf("shard-%d", shard))); err != nil {
				// the shard DB was never created: nothing durable
				return -1, true
			}
			db, err := kv.NewDB(ns, shard, kf, time.Hour, oxiatime.SystemClock)
			if err != nil {
				return 0, false
			}
			defer db.Close()
			t, _, err := db.ReadTerm()
			if err != nil {
				return 0, false
			}
			return t, true
		}()
		if ok {
			return t, true
		}
		time.Sleep(5 * time.Millisecond)
	}
	return 0, false
}

func resName(err error) string {
	if err == nil {
		return "ok"
	}
	switch status.Code(err) {
	case constant.CodeInvalidTerm:
		return "status:invalid-term"
	case constant.CodeInvalidStatus:
		return "status:invalid-status"
	}
	return "err:" + strings.ReplaceAll(err.Error(), " ", "_")
}

func statusName(s proto.ServingStatus) string {
	switch s {
	case proto.ServingStatus_NOT_MEMBER:
		return "notmember"
	case proto.ServingStatus_FENCED:
		return "fenced"
	case proto.ServingStatus_FOLLOWER:
		return "follower"
	case proto.ServingStatus_LEADER:
		return "leader"
	}
	return "?"
}

// getStatus as internalRpcServer.GetStatus: follower first, then leader
func getStatus(sd server.ShardsDirector) (st proto.ServingStatus, term int64, kind string, ok bool) {
	if f, err := sd.GetFollower(shard); err == nil {
		r, err := f.GetStatus(&proto.GetStatusRequest{Shard: shard})
		if err != nil {
			return 0, 0, "", false
		}
		return r.Status, r.Term, "follower", true
	}
	if l, err := sd.GetLeader(shard); err == nil {
		r, err := l.GetStatus(&proto.GetStatusRequest{Shard: shard})
		if err != nil {
			return 0, 0, "", false
		}
		return r.Status, r.Term, "leader", true
	}
	return 0, 0, "", false
}

// the three requests, dispatched as internal_rpc_server.go does
func doNewTerm(sd server.ShardsDirector, t int64) error {
	req := &proto.NewTermRequest{Namespace: ns, Shard: shard, Term: t, Options: &proto.NewTermOptions{EnableNotifications: false}}
	if f, err := sd.GetFollower(shard); err == nil {
		_, err2 := f.NewTerm(req)
		return err2
	} else if status.Code(err) != constant.CodeNodeIsNotFollower {
		return err
	}
	l, err := sd.GetOrCreateLeader(ns, shard)
	if err != nil {
		return err
	}
	_, err2 := l.NewTerm(req)
	return err2
}

func doBecomeLeader(sd server.ShardsDirector, t int64) error {
	l, err := sd.GetOrCreateLeader(ns, shard)
	if err != nil {
		return err
	}
	ctx, cancel := context.WithTimeout(context.Background(), 5*time.Second)
	defer cancel()
	_, err = l.BecomeLeader(ctx, &proto.BecomeLeaderRequest{Namespace: ns, Shard: shard, Term: t, ReplicationFactor: 1,
		FollowerMaps: map[string]*proto.EntryId{}})
	return err
}

func doTruncate(sd server.ShardsDirector, t int64) error {
	f, err := sd.GetOrCreateFollower(ns, shard, t)
	if err != nil {
		return err
	}
	_, err = f.Truncate(&proto.TruncateRequest{Namespace: ns, Shard: shard, Term: t, HeadEntryId: &proto.EntryId{Term: -1, Offset: -1}})
	return err
}

type result struct {
	line  string
	viols [][2]string
	stats map[string]int
}

func runCase(tmp string, id int, ops []string) (res result) {
	res.stats = map[string]int{}
	base := filepath.Join(tmp, fmt.Sprintf("node-%d", id))
	gen := 0
	dir := fmt.Sprintf("%s-g%d", base, gen)
	defer func() {
		ms, _ := filepath.Glob(base + "-*")
		for _, m := range ms {
			_ = os.RemoveAll(m)
		}
	}()
	hx.Must(os.MkdirAll(dir, 0o755))
	n, err := openNode(dir)
	hx.Must(err)
	var old []*nodeProc
	defer func() {
		n.close()
		for _, o := range old {
			o.close()
		}
	}()
	viol := func(sig, f string, a ...any) { res.viols = append(res.viols, [2]string{sig, fmt.Sprintf(f, a...)}) }
	var items []string
	lastDur := int64(-1)
	lastKnown := int64(-1)
	script := strings.Join(ops, ",")
	for i, op := range ops {
		f := strings.SplitN(op, ":", 2)
		var t int64
		if len(f) == 2 {
			t, _ = strconv.ParseInt(f[1], 10, 64)
		}
		preSt, preTerm, preKind, preOK := getStatus(n.sd)
		r := "ok"
		func() {
			defer func() {
				if rec := recover(); rec != nil {
					r = "panic"
				}
			}()
			switch f[0] {
			case "nt":
				r = resName(doNewTerm(n.sd, t))
			case "bl":
				r = resName(doBecomeLeader(n.sd, t))
			case "fo":
				r = resName(doTruncate(n.sd, t))
			case "rs":
				n.close()
				nn, err := openNode(n.dir)
				hx.Must(err)
				n = nn
			case "cr":
				gen++
				nd := fmt.Sprintf("%s-g%d", base, gen)
				hx.Must(copyTree(n.dir, nd))
				old = append(old, n) // the crashed process: its files are no longer ours; closed at the end
				nn, err := openNode(nd)
				hx.Must(err)
				n = nn
			}
		}()
		res.stats["op:"+f[0]+"="+strings.SplitN(r, ":", 2)[0]]++
		dur, durOK := durableTerm(n, fmt.Sprintf("%s-s%d", base, i))
		st, term, _, ok := getStatus(n.sd)
		sts := "none"
		if ok {
			sts = fmt.Sprintf("%s@%d", statusName(st), term)
		}
		ds := "?"
		if durOK {
			ds = strconv.FormatInt(dur, 10)
		} else {
			res.stats["crash-image-unreadable"]++
		}
		items = append(items, fmt.Sprintf("%s:%s:%s", r, ds, sts))

		// ---- specification, directly on what the node did
		if durOK {
			if dur < lastDur {
				viol("node:term-decreased", "durable term went from %d to %d at op %d (%s) of %s", lastDur, dur, i, op, script)
			}
			if f[0] == "nt" && r == "ok" && dur != t {
				viol("node:term-not-durable-before-response", "NewTerm(%d) answered ok but a crash image taken after the answer holds term %d (op %d of %s)",
					t, dur, i, script)
			}
			if ok && term > dur {
				viol("node:term-not-durable-before-response", "node reports term %d, a crash image holds %d (op %d (%s) of %s)", term, dur, i, op, script)
			}
			lastDur = dur
		}
		known := lastDur
		if ok {
			known = term
		}
		if known < lastKnown {
			viol("node:term-decreased", "term known to the node went from %d to %d at op %d (%s) of %s", lastKnown, known, i, op, script)
		}
		lastKnown = known
		if f[0] == "nt" && r == "ok" && (!ok || st != proto.ServingStatus_FENCED || term != t) {
			viol("node:newterm-ok-but-not-fenced", "NewTerm(%d) ok, status afterwards %s (op %d of %s)", t, sts, i, script)
		}
		if f[0] == "nt" && preOK && t < preTerm && r == "ok" {
			viol("node:term-decreased", "NewTerm(%d) accepted by a node in term %d (op %d of %s)", t, preTerm, i, script)
		}
		if f[0] == "bl" && r == "ok" {
			fencedBefore := false
			if preOK && preKind == "leader" {
				fencedBefore = preSt == proto.ServingStatus_FENCED && preTerm == t
			} else {
				// no leader controller: one is created from the durable state, FENCED in the durable term
				fencedBefore = lastDur == t && t != -1
			}
			if !fencedBefore {
				viol("node:became-leader-without-fence", "BecomeLeader(%d) ok on a node that was not fenced in that term (before: ok=%v %s %s@%d, durable %d) (op %d of %s)",
					t, preOK, preKind, statusName(preSt), preTerm, lastDur, i, script)
			}
			if !ok || st != proto.ServingStatus_LEADER || term != t {
				viol("node:became-leader-without-fence", "BecomeLeader(%d) ok, status afterwards %s (op %d of %s)", t, sts, i, script)
			}
		}
	}
	res.line = strings.Join(items, ";")
	return res
}

func genOps(r *hx.Rng) []string {
	n := 4 + r.Intn(12)
	cur := int64(-1)
	var ops []string
	for i := 0; i < n; i++ {
		pickTerm := func() int64 {
			switch r.Intn(10) {
			case 0, 1:
				return cur - 1 - int64(r.Intn(2)) // lower
			case 2, 3, 4:
				return cur // equal
			case 5:
				return cur + 2 + int64(r.Intn(3))
			default:
				return cur + 1
			}
		}
		switch r.Intn(12) {
		case 0, 1, 2, 3, 4:
			t := pickTerm()
			if t < -1 {
				t = -1
			}
			ops = append(ops, fmt.Sprintf("nt:%d", t))
			if t > cur {
				cur = t
			}
		case 5, 6, 7:
			t := pickTerm()
			if t < -1 {
				t = -1
			}
			ops = append(ops, fmt.Sprintf("bl:%d", t))
		case 8:
			t := pickTerm()
			if t < -1 {
				t = -1
			}
			ops = append(ops, fmt.Sprintf("fo:%d", t))
		case 9:
			ops = append(ops, "rs")
		default:
			ops = append(ops, "cr")
		}
	}
	return ops
}

func main() {
	f := hx.ParseFlags()
	o := hx.NewOut(f.OutDir)
	defer o.Close()
	r := hx.NewRng(f.Seed)
	tmpRoot := os.Getenv("VERIF_TMP")
	if tmpRoot == "" {
		tmpRoot = "/var/tmp"
	}
	tmp, err := os.MkdirTemp(tmpRoot, "nodeterm-")
	hx.Must(err)
	defer os.RemoveAll(tmp)

	var cases [][]string
	replay := hx.CorpusLines(f.Corpus)
	if f.Replay != "" {
		replay = hx.ReadLines(f.Replay)
	}
	var quorums []string
	for _, l := range replay {
		t := strings.Fields(l)
		if len(t) >= 3 && t[0] == "node" {
			cases = append(cases, strings.Split(t[2], ","))
		}
		if len(t) >= 3 && t[0] == "quorum" {
			quorums = append(quorums, t[2])
		}
	}
	if f.Replay == "" {
		for _, s := range []string{
			"bl:-1", "bl:0", "nt:-1", "nt:0,bl:0,bl:0", "nt:3,nt:2,nt:3,bl:3,nt:3,nt:4",
			"nt:5,cr,nt:4,bl:5,cr,bl:5", "nt:2,fo:2,nt:2,bl:2", "nt:2,fo:2,bl:2,fo:2", "nt:1,bl:1,fo:0,fo:1,rs,nt:1",
			"nt:1,rs,bl:1,rs,nt:1,bl:1", "fo:0,nt:0,fo:0,cr,fo:0",
		} {
			cases = append(cases, strings.Split(s, ","))
		}
		for i := 0; i < f.N; i++ {
			cases = append(cases, genOps(r))
		}
		quorums = append(quorums, quorumFixed...)
		for i := 0; i < 4+f.N/10; i++ {
			quorums = append(quorums, genQuorum(r))
		}
	}
	qres := make([]qResult, len(quorums))
	results := make([]result, len(cases))
	sem := make(chan struct{}, 12)
	var wg sync.WaitGroup
	for i, c := range cases {
		wg.Add(1)
		sem <- struct{}{}
		go func(i int, c []string) {
			defer wg.Done()
			defer func() { <-sem }()
			defer func() {
				if rec := recover(); rec != nil {
					results[i] = result{line: fmt.Sprintf("harness-panic:%v", rec), stats: map[string]int{"harness-panic": 1}}
				}
			}()
			results[i] = runCase(tmp, i, c)
		}(i, c)
	}
	for i, q := range quorums {
		wg.Add(1)
		sem <- struct{}{}
		go func(i int, q string) {
			defer wg.Done()
			defer func() { <-sem }()
			defer func() {
				if rec := recover(); rec != nil {
					qres[i] = qResult{summary: fmt.Sprintf("harness-panic:%v", rec), stats: map[string]int{"harness-panic": 1}}
				}
			}()
			qres[i] = runQuorum(tmp, i, q)
		}(i, q)
	}
	wg.Wait()
	for i, q := range quorums {
		o.Case("quorum", q, qres[i].summary, q)
		if qres[i].selImpl != "" {
			// the real selectNewLeader's decision on the reported heads, judged by the model on the true heads
			o.Case("sel", qres[i].selInput, qres[i].selImpl, q)
		}
		for _, v := range qres[i].viols {
			o.Violation(v[0], v[1])
		}
		for k, n := range qres[i].stats {
			o.CountN("quorum:"+k, n)
		}
	}
	for i, c := range cases {
		in := strings.Join(c, ",")
		o.Case("node", in, results[i].line, in)
		for _, v := range results[i].viols {
			o.Violation(v[0], v[1])
		}
		for k, n := range results[i].stats {
			o.CountN("node:"+k, n)
		}
		o.Count(fmt.Sprintf("node:ops=%d", len(c)))
	}
}
