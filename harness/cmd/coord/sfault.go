// sfault: metadata-store FAULTS during an election / a node swap / a cluster-config change, then a coordinator restart.
//
// The coordinator side runs in CHILD processes of this binary (-sf-child <spec>): a coordinator that dies during the
// outage (panic in one of its goroutines, os.Exit) is then simply a crash event the parent observes, and the restart
// is a new process on the same store (the real file metadata provider on a scratch path).  The child wraps the real
// provider in a flaky one whose failures are scheduled by the spec (fail Store calls number from..from+count-1 of the
// process, fail the first g Get calls), answers the coordination RPCs itself and writes one line per event:
//
//	SO <shard> <term> <status>      a Store reached the provider (shard entry of the primary shard)
//	SF <n>                           Store call number n failed (injected)
//	GF <n>                           Get call number n failed (injected)
//	NT <shard> <node> <term> <durable term|none>     NewTerm left the coordinator; durable = what the store holds then
//	BL <shard> <node> <term> <durable term|none>
//	END                              scenario finished, process exits 0
//
// Anything else ending the process is a CRASH.  The parent applies the monitors to the lines of both processes.
//
// Case line:  sfault <id> <mode> <t0> <failfrom> <failcount> <getfail> <exitat>
//
//	mode = elect | swap | config ; exitat = none | bl (the coordinator process is killed when the first BecomeLeader arrives)
package main

import (
	"bufio"
	"context"
	"errors"
	"fmt"
	"io"
	"os"
	"os/exec"
	"path/filepath"
	"strconv"
	"strings"
	"sync"
	"sync/atomic"
	"time"

	"google.golang.org/grpc/health/grpc_health_v1"

	"github.com/oxia-db/oxia/coordinator"
	"github.com/oxia-db/oxia/coordinator/controllers"
	"github.com/oxia-db/oxia/coordinator/metadata"
	"github.com/oxia-db/oxia/coordinator/model"
	"github.com/oxia-db/oxia/coordinator/resources"
	"github.com/oxia-db/oxia/proto"

	"verif/harness/internal/hx"
)

const sfShard = int64(0)

type sfSpec struct {
	mode      string // elect swap config restart
	path      string
	failFrom  int
	failCount int
	getFail   int
	down      string // node that does not answer (restart: the leader the dead coordinator installed)
	exitAt    string
}

func (s sfSpec) encode() string {
	return strings.Join([]string{s.mode, s.path, strconv.Itoa(s.failFrom), strconv.Itoa(s.failCount), strconv.Itoa(s.getFail), s.down, s.exitAt}, ",")
}

func decodeSfSpec(x string) sfSpec {
	f := strings.Split(x, ",")
	a, _ := strconv.Atoi(f[2])
	b, _ := strconv.Atoi(f[3])
	c, _ := strconv.Atoi(f[4])
	return sfSpec{mode: f[0], path: f[1], failFrom: a, failCount: b, getFail: c, down: f[5], exitAt: f[6]}
}

var sfOut sync.Mutex

func sfLog(f string, a ...any) {
	sfOut.Lock()
	defer sfOut.Unlock()
	fmt.Fprintf(os.Stdout, f+"\n", a...)
}

// ---- the flaky provider (child side)

type flakyMeta struct {
	under  metadata.Provider
	spec   sfSpec
	stores atomic.Int64
	gets   atomic.Int64
}

func (m *flakyMeta) Close() error { return nil }
func (m *flakyMeta) Get() (*model.ClusterStatus, metadata.Version, error) {
	n := int(m.gets.Add(1))
	if n <= m.spec.getFail {
		sfLog("GF %d", n)
		return nil, metadata.NotExists, errors.New("injected metadata Get failure")
	}
	return m.under.Get()
}
func (m *flakyMeta) Store(cs *model.ClusterStatus, v metadata.Version) (metadata.Version, error) {
	n := int(m.stores.Add(1))
	if m.spec.failCount > 0 && n >= m.spec.failFrom && n < m.spec.failFrom+m.spec.failCount {
		sfLog("SF %d", n)
		return "", errors.New("injected metadata Store failure")
	}
	nv, err := m.under.Store(cs, v)
	if err == nil {
		if s, ok := cs.Namespaces[ns].Shards[sfShard]; ok {
			sfLog("SO %d %d %s", sfShard, s.Term, statusName(s.Status))
		}
	}
	return nv, err
}

func sfDurable(under metadata.Provider, shard int64) string {
	cs, _, err := under.Get()
	if err != nil || cs == nil {
		return "none"
	}
	for _, nss := range cs.Namespaces {
		if s, ok := nss.Shards[shard]; ok {
			return strconv.FormatInt(s.Term, 10)
		}
	}
	return "none"
}

// ---- the storage nodes as the child's coordinator sees them

type sfRPC struct {
	under   metadata.Provider
	spec    sfSpec
	mu      sync.Mutex
	status  map[string]proto.ServingStatus
	term    map[string]int64
	elected chan struct{}
	once    sync.Once
}

func (r *sfRPC) PushShardAssignments(context.Context, model.Server) (proto.OxiaCoordination_PushShardAssignmentsClient, error) {
	return nil, errors.New("not available")
}
func (r *sfRPC) NewTerm(_ context.Context, node model.Server, req *proto.NewTermRequest) (*proto.NewTermResponse, error) {
	if node.Internal == r.spec.down {
		return nil, errors.New("node unreachable")
	}
	sfLog("NT %d %s %d %s", req.Shard, node.Internal, req.Term, sfDurable(r.under, req.Shard))
	r.mu.Lock()
	defer r.mu.Unlock()
	r.status[node.Internal], r.term[node.Internal] = proto.ServingStatus_FENCED, req.Term
	return &proto.NewTermResponse{HeadEntryId: &proto.EntryId{Term: 1, Offset: 10}}, nil
}
func (r *sfRPC) BecomeLeader(_ context.Context, node model.Server, req *proto.BecomeLeaderRequest) (*proto.BecomeLeaderResponse, error) {
	sfLog("BL %d %s %d %s", req.Shard, node.Internal, req.Term, sfDurable(r.under, req.Shard))
	if r.spec.exitAt == "bl" && req.Shard == sfShard {
		os.Exit(3) // the coordinator process is killed right after BecomeLeader left it
	}
	r.mu.Lock()
	defer r.mu.Unlock()
	r.status[node.Internal], r.term[node.Internal] = proto.ServingStatus_LEADER, req.Term
	for f := range req.FollowerMaps {
		r.status[f], r.term[f] = proto.ServingStatus_FOLLOWER, req.Term
	}
	return &proto.BecomeLeaderResponse{}, nil
}
func (r *sfRPC) AddFollower(_ context.Context, _ model.Server, req *proto.AddFollowerRequest) (*proto.AddFollowerResponse, error) {
	r.mu.Lock()
	defer r.mu.Unlock()
	r.status[req.FollowerName], r.term[req.FollowerName] = proto.ServingStatus_FOLLOWER, req.Term
	return &proto.AddFollowerResponse{}, nil
}
func (r *sfRPC) GetStatus(_ context.Context, node model.Server, _ *proto.GetStatusRequest) (*proto.GetStatusResponse, error) {
	r.mu.Lock()
	defer r.mu.Unlock()
	st, ok := r.status[node.Internal]
	if !ok || node.Internal == r.spec.down {
		return nil, errors.New("node does not host the shard")
	}
	return &proto.GetStatusResponse{Term: r.term[node.Internal], Status: st, HeadOffset: 10, CommitOffset: 10}, nil
}
func (r *sfRPC) DeleteShard(context.Context, model.Server, *proto.DeleteShardRequest) (*proto.DeleteShardResponse, error) {
	return &proto.DeleteShardResponse{}, nil
}
func (r *sfRPC) GetHealthClient(model.Server) (grpc_health_v1.HealthClient, io.Closer, error) {
	return okHealth{}, io.NopCloser(nil), nil
}
func (r *sfRPC) ClearPooledConnections(model.Server) {}

// sfListener: LeaderElected of the primary shard ends the scenario
type sfListener struct{ r *sfRPC }

func (l sfListener) LeaderElected(shard int64, _ model.Server, _ []model.Server) {
	if shard == sfShard {
		l.r.once.Do(func() { close(l.r.elected) })
	}
}
func (l sfListener) ShardDeleted(int64) {}

func sfChild(spec sfSpec) {
	under := metadata.NewMetadataProviderFile(spec.path)
	flaky := &flakyMeta{under: under, spec: spec}
	rp := &sfRPC{under: under, spec: spec, status: map[string]proto.ServingStatus{}, term: map[string]int64{}, elected: make(chan struct{})}
	// node states as the stored status says (a steady shard is really led by its leader)
	if cs, _, err := under.Get(); err == nil && cs != nil {
		if s, ok := cs.Namespaces[ns].Shards[sfShard]; ok && s.Leader != nil && s.Status == model.ShardStatusSteadyState && spec.mode != "restart" {
			for _, n := range s.Ensemble {
				rp.status[n.Internal], rp.term[n.Internal] = proto.ServingStatus_FOLLOWER, s.Term
			}
			rp.status[s.Leader.Internal] = proto.ServingStatus_LEADER
		}
	}
	deadline := time.After(22 * time.Second)
	finish := func() {
		sfLog("END")
		os.Exit(0)
	}
	switch spec.mode {
	case "elect", "restart", "swap":
		sr := resources.NewStatusResource(flaky)
		st := sr.Load()
		if st == nil || st.Namespaces == nil {
			finish()
		}
		md := st.Namespaces[ns].Shards[sfShard]
		ctl := controllers.NewShardController(ns, sfShard, &model.NamespaceConfig{Name: ns, ReplicationFactor: 3}, md, cfgStub{}, sr,
			sfListener{rp}, rp)
		if spec.mode == "swap" {
			done := make(chan struct{})
			go func() {
				defer close(done)
				time.Sleep(20 * time.Millisecond) // let run() verify the ensemble first
				_ = ctl.SwapNode(srv("3"), srv("4"))
			}()
			select {
			case <-done:
			case <-deadline:
			}
			finish()
		}
		select {
		case <-rp.elected:
			time.Sleep(30 * time.Millisecond) // the re-fencing of late followers, if any
		case <-deadline:
		}
		finish()
	case "config":
		cfg := model.ClusterConfig{
			Namespaces: []model.NamespaceConfig{{Name: ns, InitialShardCount: 1, ReplicationFactor: 3}},
			Servers:    srvs([]string{"1", "2", "3"}),
		}
		co, err := coordinator.NewCoordinator(flaky, func() (model.ClusterConfig, error) { return cfg, nil }, make(chan any), rp)
		if err != nil {
			finish()
		}
		time.Sleep(30 * time.Millisecond)
		newCfg := cfg
		newCfg.Namespaces = append(append([]model.NamespaceConfig{}, cfg.Namespaces...),
			model.NamespaceConfig{Name: "second", InitialShardCount: 1, ReplicationFactor: 3})
		done := make(chan struct{})
		go func() {
			defer close(done)
			co.ConfigChanged(&newCfg)
			time.Sleep(300 * time.Millisecond) // the election of the new shard
		}()
		select {
		case <-done:
		case <-deadline:
		}
		finish()
	}
	finish()
}

// ---- parent side

type sfJob struct {
	mode      string
	t0        int64
	failFrom  int
	failCount int
	getFail   int
	exitAt    string
}

func (j sfJob) String() string {
	return fmt.Sprintf("%s %d %d %d %d %s", j.mode, j.t0, j.failFrom, j.failCount, j.getFail, j.exitAt)
}

type sfEvent struct {
	proc  int
	kind  string
	shard int64
	node  string
	term  int64
	dur   string
}

func runSfChild(spec sfSpec, timeout time.Duration) (lines []string, crashed bool) {
	cmd := exec.Command(os.Args[0], "-sf-child", spec.encode(), "-out", filepath.Dir(spec.path))
	out, err := cmd.StdoutPipe()
	if err != nil {
		return nil, true
	}
	cmd.Stderr = nil
	if err := cmd.Start(); err != nil {
		return nil, true
	}
	timer := time.AfterFunc(timeout, func() { _ = cmd.Process.Kill() })
	defer timer.Stop()
	sc := bufio.NewScanner(out)
	ended := false
	for sc.Scan() {
		l := sc.Text()
		if l == "END" {
			ended = true
			continue
		}
		lines = append(lines, l)
	}
	_ = cmd.Wait()
	return lines, !ended
}

func parseSf(proc int, lines []string) []sfEvent {
	var res []sfEvent
	for _, l := range lines {
		f := strings.Fields(l)
		if len(f) < 2 {
			continue
		}
		e := sfEvent{proc: proc, kind: f[0]}
		switch f[0] {
		case "NT", "BL":
			if len(f) < 5 {
				continue
			}
			e.shard, _ = strconv.ParseInt(f[1], 10, 64)
			e.node = f[2]
			e.term, _ = strconv.ParseInt(f[3], 10, 64)
			e.dur = f[4]
		case "SO":
			if len(f) < 3 {
				continue
			}
			e.shard, _ = strconv.ParseInt(f[1], 10, 64)
			e.term, _ = strconv.ParseInt(f[2], 10, 64)
		case "SF", "GF":
		default:
			continue
		}
		res = append(res, e)
	}
	return res
}

type sfResult struct {
	summary string
	viols   [][2]string
	stats   map[string]int
}

// prepSfault writes the stored status of the case.  All cases are prepared before any child process is started: the
// file provider's lock (juju/fslock) opens its file without O_CLOEXEC, so a child forked while a Store is in flight
// inherits the descriptor and keeps the flock until it exits.
func prepSfault(tmp string, id int, j sfJob) (dir, path string, ok bool) {
	dir = filepath.Join(tmp, fmt.Sprintf("sfault-%d", id))
	hx.Must(os.MkdirAll(dir, 0o755))
	path = filepath.Join(dir, "status.json")
	// the stored status: elect = an election is due (no leader); swap / config = steady state, leader 1
	ens := []string{"1", "2", "3"}
	md := model.ShardMetadata{Status: model.ShardStatusElection, Term: j.t0, Ensemble: srvs(ens),
		Int32HashRange: model.Int32HashRange{Min: 0, Max: 0xFFFFFFFF}}
	if j.mode != "elect" {
		l := srv("1")
		md.Status, md.Leader = model.ShardStatusSteadyState, &l
	}
	cs := model.NewClusterStatus()
	cs.ShardIdGenerator = 1
	cs.Namespaces[ns] = model.NamespaceStatus{ReplicationFactor: 3, Shards: map[int64]model.ShardMetadata{sfShard: md}}
	_, err := metadata.NewMetadataProviderFile(path).Store(cs, metadata.NotExists)
	return dir, path, err == nil
}

func runSfault(dir, path string, prepared bool, j sfJob) (res sfResult) {
	res.stats = map[string]int{}
	defer os.RemoveAll(dir)
	if !prepared {
		res.summary = "setup-error"
		return res
	}
	script := j.String()
	viol := func(sig, f string, a ...any) {
		res.viols = append(res.viols, [2]string{sig, fmt.Sprintf(f, a...) + " (sfault " + script + ")"})
	}

	l1, crashed1 := runSfChild(sfSpec{mode: j.mode, path: path, failFrom: j.failFrom, failCount: j.failCount, getFail: j.getFail,
		down: "-", exitAt: j.exitAt}, 26*time.Second)
	ev := parseSf(0, l1)
	// the leader the first coordinator installed (or tried to) is unreachable for the second one
	down := "-"
	for _, e := range ev {
		if e.kind == "BL" && e.shard == sfShard {
			down = e.node
		}
	}
	l2, crashed2 := runSfChild(sfSpec{mode: "restart", path: path, down: down, exitAt: "none"}, 12*time.Second)
	ev = append(ev, parseSf(1, l2)...)

	// ---- monitors
	maxSent := map[int]int64{}
	anySent := map[int]bool{}
	blBy := map[string]string{}
	lastStored, anyStored := int64(0), false
	nNT, nBL, nSF := 0, 0, 0
	for _, e := range ev {
		switch e.kind {
		case "SF", "GF":
			nSF++
		case "SO":
			if e.shard == sfShard {
				if anyStored && e.term < lastStored {
					viol("store:shard-term-regressed", "process %d stores term %d, the store held %d", e.proc, e.term, lastStored)
				}
				lastStored, anyStored = e.term, true
			}
		case "NT", "BL":
			if e.kind == "NT" {
				nNT++
			} else {
				nBL++
			}
			d, err := strconv.ParseInt(e.dur, 10, 64)
			if err != nil || e.term > d {
				viol("election:term-issued-before-durable", "%s(shard %d, term %d) left coordinator process %d for node %s while the metadata store held term %s for that shard",
					map[string]string{"NT": "NewTerm", "BL": "BecomeLeader"}[e.kind], e.shard, e.term, e.proc, e.node, e.dur)
			}
			if e.shard != sfShard {
				continue
			}
			if e.proc == 1 && anySent[0] && e.term <= maxSent[0] {
				viol("election:term-reused-after-restart", "the restarted coordinator sent %s with term %d; terms up to %d were sent before the crash", e.kind, e.term, maxSent[0])
			}
			if !anySent[e.proc] || e.term > maxSent[e.proc] {
				maxSent[e.proc], anySent[e.proc] = e.term, true
			}
			if e.kind == "BL" {
				k := strconv.FormatInt(e.term, 10)
				if p, ok := blBy[k]; ok && p != e.node {
					viol("election:two-leaders-same-term", "BecomeLeader(term=%d) sent to %s and to %s", e.term, p, e.node)
				}
				blBy[k] = e.node
			}
		}
	}
	end := func(c bool) string {
		if c {
			return "crash"
		}
		return "end"
	}
	res.summary = fmt.Sprintf("p0:%s:sf=%d p1:%s rpcs=%d/%d", end(crashed1), nSF, end(crashed2), nNT, nBL)
	res.stats["p0:"+end(crashed1)]++
	res.stats["p1:"+end(crashed2)]++
	if crashed1 && nSF > 0 {
		res.stats["coordinator-died-during-store-outage"]++
	}
	if nNT == 0 {
		res.stats["no-election-rpc-at-all"]++
	}
	return res
}

func genSfJob(r *hx.Rng) sfJob {
	j := sfJob{mode: hx.Pick(r, []string{"elect", "elect", "swap", "config"}), t0: int64(r.Intn(6)), exitAt: "none"}
	switch r.Intn(6) {
	case 0:
		// no fault: plain crash/restart
	case 1:
		j.getFail = 1 + r.Intn(2)
	default:
		j.failFrom = 1 + r.Intn(2)
		j.failCount = 1 + r.Intn(6)
	}
	if j.mode == "elect" && r.Chance(50) {
		j.exitAt = "bl"
	}
	return j
}
