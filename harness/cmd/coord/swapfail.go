// swapf: one RPC of a node SWAP's election fails once, at each position, on the real shardController.
//
// Ensemble {1,2,3}, steady in term t0 with leader 1 (stored).  SwapNode(3 -> 4) runs; the first RPC of the chosen kind
// fails once (NewTerm of a member / of the removed node / of the new node, BecomeLeader, DeleteShard of the removed
// node, GetStatus of the catch-up wait, AddFollower), then everything succeeds.  Whatever the controller does next
// (error to the caller, retry, fallback election) is left to run, then a second swap (2 -> 5, or 1 -> 5) is the barrier.
// The storage nodes follow the server's rules: NewTerm below the node's term is refused (InvalidTerm), a LEADER
// refuses a NewTerm of its own term (InvalidStatus), BecomeLeader needs FENCED in exactly that term.
//
// Monitors on the RPC / Store log (model independent; the model line of these cases is "*"):
//
//	election:become-leader-term-not-increasing   BecomeLeader terms of a shard are strictly increasing
//	election:two-leaders-same-term               the same term to two different nodes
//	election:term-reused-by-a-later-election     an election's first Store / NewTerm fan-out uses a term that an earlier election already used
//	election:term-issued-before-durable, store:shard-term-regressed
//
// Case line:  swapf <id> <t0> <kind>      kind = none | nt-member | nt-removed | nt-new | bl | ds | gs | af
package main

import (
	"context"
	"errors"
	"fmt"
	"io"
	"strings"
	"sync"
	"time"

	"google.golang.org/grpc/health/grpc_health_v1"

	"github.com/oxia-db/oxia/common/constant"
	"github.com/oxia-db/oxia/coordinator/controllers"
	"github.com/oxia-db/oxia/coordinator/metadata"
	"github.com/oxia-db/oxia/coordinator/model"
	"github.com/oxia-db/oxia/coordinator/resources"
	"github.com/oxia-db/oxia/proto"
)

type swfNode struct {
	status proto.ServingStatus
	term   int64
	hosts  bool
}

type swfWorld struct {
	mu       sync.Mutex
	shard    int64
	under    metadata.Provider
	nodes    map[string]*swfNode
	failKind string
	failed   bool
	removed  string
	added    string
	log      []string
	viols    [][2]string
	script   string

	blTerms    []int64
	blBy       map[int64]string
	electTerms map[int64]bool // terms of the elections' first Store
	lastStored int64
	anyStored  bool
	ntRound    map[int64]int // term -> election round (first Store count) that fanned it out
	round      int
}

func (w *swfWorld) viol(sig, f string, a ...any) {
	w.viols = append(w.viols, [2]string{sig, fmt.Sprintf(f, a...) + " (swapf " + w.script + "; log " + strings.Join(w.log, " ") + ")"})
}

func (w *swfWorld) durable() (int64, bool) {
	cs, _, err := w.under.Get()
	if err != nil || cs == nil {
		return 0, false
	}
	s, ok := cs.Namespaces[ns].Shards[w.shard]
	return s.Term, ok
}

// shouldFail: the first RPC of the scripted kind fails, once
func (w *swfWorld) shouldFail(kind string) bool {
	if w.failed || w.failKind != kind {
		return false
	}
	w.failed = true
	return true
}

// ---- metadata provider wrapper: records the Store payloads

type swfMeta struct {
	w *swfWorld
}

func (m swfMeta) Close() error { return nil }
func (m swfMeta) Get() (*model.ClusterStatus, metadata.Version, error) {
	return m.w.under.Get()
}
func (m swfMeta) Store(cs *model.ClusterStatus, v metadata.Version) (metadata.Version, error) {
	w := m.w
	w.mu.Lock()
	if s, ok := cs.Namespaces[ns].Shards[w.shard]; ok {
		l := "-"
		if s.Leader != nil {
			l = s.Leader.Internal
		}
		w.log = append(w.log, fmt.Sprintf("S:%d:%s:%s:%s:%s", s.Term, statusName(s.Status), l, names(s.Ensemble), names(s.RemovedNodes)))
		if w.anyStored && s.Term < w.lastStored {
			w.viol("store:shard-term-regressed", "a Store writes term %d for the shard, the store held term %d", s.Term, w.lastStored)
		}
		w.lastStored, w.anyStored = s.Term, true
		if s.Status == model.ShardStatusElection {
			// the first Store of an election: its term must be new
			w.round++
			if w.electTerms[s.Term] || (len(w.blTerms) > 0 && s.Term <= w.blTerms[len(w.blTerms)-1]) {
				w.viol("election:term-reused-by-a-later-election", "an election starts (Store, status election) with term %d, which an earlier election already used", s.Term)
			}
			w.electTerms[s.Term] = true
		}
	}
	w.mu.Unlock()
	return w.under.Store(cs, v)
}

// ---- rpc.Provider: nodes that follow the server's rules

type swfRPC struct{ w *swfWorld }

func (swfRPC) PushShardAssignments(context.Context, model.Server) (proto.OxiaCoordination_PushShardAssignmentsClient, error) {
	return nil, errors.New("not available")
}

func (r swfRPC) NewTerm(_ context.Context, node model.Server, req *proto.NewTermRequest) (*proto.NewTermResponse, error) {
	w := r.w
	w.mu.Lock()
	defer w.mu.Unlock()
	id := node.Internal
	w.log = append(w.log, fmt.Sprintf("NT:%d:%s", req.Term, id))
	if d, ok := w.durable(); !ok || req.Term > d {
		w.viol("election:term-issued-before-durable", "NewTerm(term %d) left the coordinator for node %s while the store held term %d", req.Term, id, d)
	}
	if rd, ok := w.ntRound[req.Term]; ok && rd != w.round && len(w.blTerms) > 0 && w.blTerms[len(w.blTerms)-1] < req.Term {
		// same term fanned out by two different elections (no leader was installed with it yet: not a re-fencing)
		w.viol("election:term-reused-by-a-later-election", "NewTerm(term %d) is sent by election round %d, round %d already used that term", req.Term, w.round, rd)
	}
	if _, ok := w.ntRound[req.Term]; !ok {
		w.ntRound[req.Term] = w.round
	}
	kind := "nt-member"
	if id == w.removed {
		kind = "nt-removed"
	} else if id == w.added {
		kind = "nt-new"
	}
	if w.round >= 1 && w.shouldFail(kind) {
		return nil, errors.New("scripted transient failure")
	}
	n := w.nodes[id]
	if n == nil {
		n = &swfNode{term: -1, status: proto.ServingStatus_NOT_MEMBER}
		w.nodes[id] = n
	}
	if req.Term < n.term {
		return nil, constant.ErrInvalidTerm
	}
	if req.Term == n.term && n.status == proto.ServingStatus_LEADER {
		return nil, constant.ErrInvalidStatus
	}
	n.term, n.status, n.hosts = req.Term, proto.ServingStatus_FENCED, true
	return &proto.NewTermResponse{HeadEntryId: &proto.EntryId{Term: 1, Offset: 10}}, nil
}

func (r swfRPC) BecomeLeader(_ context.Context, node model.Server, req *proto.BecomeLeaderRequest) (*proto.BecomeLeaderResponse, error) {
	w := r.w
	w.mu.Lock()
	defer w.mu.Unlock()
	id := node.Internal
	w.log = append(w.log, fmt.Sprintf("BL:%d:%s", req.Term, id))
	if d, ok := w.durable(); !ok || req.Term > d {
		w.viol("election:term-issued-before-durable", "BecomeLeader(term %d) left the coordinator for node %s while the store held term %d", req.Term, id, d)
	}
	if k := len(w.blTerms); k > 0 && req.Term <= w.blTerms[k-1] {
		w.viol("election:become-leader-term-not-increasing", "BecomeLeader(term %d) to node %s after BecomeLeader(term %d) to node %s",
			req.Term, id, w.blTerms[k-1], w.blBy[w.blTerms[k-1]])
	}
	if p, ok := w.blBy[req.Term]; ok && p != id {
		w.viol("election:two-leaders-same-term", "BecomeLeader(term=%d) sent to %s and to %s", req.Term, p, id)
	}
	w.blTerms = append(w.blTerms, req.Term)
	w.blBy[req.Term] = id
	if w.shouldFail("bl") {
		// applied by the node, the answer is lost
		if n := w.nodes[id]; n != nil && n.status == proto.ServingStatus_FENCED && n.term == req.Term {
			n.status = proto.ServingStatus_LEADER
		}
		return nil, errors.New("scripted transient failure")
	}
	n := w.nodes[id]
	if n == nil || n.status != proto.ServingStatus_FENCED {
		return nil, constant.ErrInvalidStatus
	}
	if n.term != req.Term {
		return nil, constant.ErrInvalidTerm
	}
	n.status = proto.ServingStatus_LEADER
	for f := range req.FollowerMaps {
		if fn := w.nodes[f]; fn != nil && fn.term == req.Term {
			fn.status = proto.ServingStatus_FOLLOWER
		}
	}
	return &proto.BecomeLeaderResponse{}, nil
}

func (r swfRPC) AddFollower(_ context.Context, _ model.Server, req *proto.AddFollowerRequest) (*proto.AddFollowerResponse, error) {
	w := r.w
	w.mu.Lock()
	defer w.mu.Unlock()
	w.log = append(w.log, fmt.Sprintf("AF:%d:%s", req.Term, req.FollowerName))
	if w.shouldFail("af") {
		return nil, errors.New("scripted transient failure")
	}
	if fn := w.nodes[req.FollowerName]; fn != nil && fn.term == req.Term {
		fn.status = proto.ServingStatus_FOLLOWER
	}
	return &proto.AddFollowerResponse{}, nil
}

func (r swfRPC) GetStatus(_ context.Context, node model.Server, _ *proto.GetStatusRequest) (*proto.GetStatusResponse, error) {
	w := r.w
	w.mu.Lock()
	defer w.mu.Unlock()
	if w.round >= 1 && w.shouldFail("gs") {
		return nil, errors.New("scripted transient failure")
	}
	n := w.nodes[node.Internal]
	if n == nil || !n.hosts {
		return nil, errors.New("node does not host the shard")
	}
	return &proto.GetStatusResponse{Term: n.term, Status: n.status, HeadOffset: 10, CommitOffset: 10}, nil
}

func (r swfRPC) DeleteShard(_ context.Context, node model.Server, req *proto.DeleteShardRequest) (*proto.DeleteShardResponse, error) {
	w := r.w
	w.mu.Lock()
	defer w.mu.Unlock()
	w.log = append(w.log, fmt.Sprintf("DS:%d:%s", req.Term, node.Internal))
	if w.shouldFail("ds") {
		return nil, errors.New("scripted transient failure")
	}
	if n := w.nodes[node.Internal]; n != nil {
		n.hosts, n.status = false, proto.ServingStatus_NOT_MEMBER
	}
	return &proto.DeleteShardResponse{}, nil
}
func (swfRPC) GetHealthClient(model.Server) (grpc_health_v1.HealthClient, io.Closer, error) {
	return nil, nil, errors.New("not used")
}
func (swfRPC) ClearPooledConnections(model.Server) {}

type swfResult struct {
	summary string
	viols   [][2]string
}

func runSwapFail(shard int64, t0 int64, kind string) swfResult {
	w := &swfWorld{shard: shard, under: metadata.NewMetadataProviderMemory(), nodes: map[string]*swfNode{}, failKind: kind,
		removed: "3", added: "4", script: fmt.Sprintf("%d %s", t0, kind), blBy: map[int64]string{}, electTerms: map[int64]bool{},
		ntRound: map[int64]int{}}
	ens := []string{"1", "2", "3"}
	for i, n := range ens {
		st := proto.ServingStatus_FOLLOWER
		if i == 0 {
			st = proto.ServingStatus_LEADER
		}
		w.nodes[n] = &swfNode{status: st, term: t0, hosts: true}
	}
	l0 := srv("1")
	cs := model.NewClusterStatus()
	cs.Namespaces[ns] = model.NamespaceStatus{ReplicationFactor: 3, Shards: map[int64]model.ShardMetadata{
		shard: {Status: model.ShardStatusSteadyState, Term: t0, Leader: &l0, Ensemble: srvs(ens),
			Int32HashRange: model.Int32HashRange{Min: 0, Max: 0xFFFFFFFF}},
	}}
	if _, err := w.under.Store(cs, metadata.NotExists); err != nil {
		return swfResult{summary: "setup-error"}
	}
	w.lastStored, w.anyStored = t0, true
	sr := resources.NewStatusResource(swfMeta{w})
	md := sr.Load().Namespaces[ns].Shards[shard]
	ctl := controllers.NewShardController(ns, shard, &model.NamespaceConfig{Name: ns, ReplicationFactor: 3}, md, cfgStub{}, sr, nil, swfRPC{w})
	defer func() { go func() { _ = ctl.Close() }() }()
	time.Sleep(15 * time.Millisecond) // run(): verification of the stored leader

	swap := func(from, to string) string {
		done := make(chan error, 1)
		go func() { done <- ctl.SwapNode(srv(from), srv(to)) }()
		select {
		case err := <-done:
			if err != nil {
				return "err"
			}
			return "ok"
		case <-time.After(1200 * time.Millisecond):
			// eg. the new member missed NewTerm: its re-fencing is queued behind the swap's own catch-up wait (up to
			// catchupTimeout in the real code); a liveness matter, the monitors still see every RPC
			return "timeout"
		}
	}
	r1 := swap("3", "4")
	// whatever the controller does by itself after a failed swap (retry, fallback election): let it settle
	settle := func() {
		last := -1
		for i := 0; i < 40; i++ {
			time.Sleep(25 * time.Millisecond)
			w.mu.Lock()
			n := len(w.log)
			w.mu.Unlock()
			if n == last && i >= 6 {
				return
			}
			last = n
		}
	}
	settle()
	// the barrier: another swap of a current member
	w.mu.Lock()
	w.removed, w.added = "2", "5"
	w.mu.Unlock()
	r2 := swap("2", "5")
	settle()
	w.mu.Lock()
	defer w.mu.Unlock()
	// leaders per term as the nodes see it
	byTerm := map[int64][]string{}
	for id, n := range w.nodes {
		if n.status == proto.ServingStatus_LEADER {
			byTerm[n.term] = append(byTerm[n.term], id)
		}
	}
	for t, l := range byTerm {
		if len(l) > 1 {
			w.viol("election:two-leaders-same-term", "nodes %v are all LEADER in term %d", l, t)
		}
	}
	return swfResult{summary: fmt.Sprintf("swap1=%s swap2=%s bl=%v failed=%v", r1, r2, w.blTerms, w.failed), viols: w.viols}
}

var swfKinds = []string{"none", "nt-member", "nt-removed", "nt-new", "bl", "ds", "gs", "af"}
