// harness coord: drives the REAL coordinator shardController (controllers.NewShardController) through election
// scripts: a harness rpc.Provider answers NewTerm / BecomeLeader / AddFollower / GetStatus / DeleteShard from the
// script, a gating wrapper around the real in-memory / file metadata providers records every Store, the coordinator
// is killed at named points and re-created from the stored metadata exactly as coordinator.go does.  It writes the
// observable trace (Store payloads and RPCs) for the Coq model (Oxia.Coord.Model / Driver) to compare, and evaluates
// the C05 specification predicates directly on what the implementation did.
//
// Case lines (servers are small decimal numbers):
//
//	sel   <id> <resp>                                  resp = s=term:off,...  ("-" = empty map)
//	elect <id> <prov> <ens> <rem> <t0> <heads> <incs>  prov = mem|file; ens/rem = 1,2,3 ("-" = none); heads as resp
//	     incs = inc/inc/...      inc = round|round|...@gate
//	     round = arrivals;bl;refence   arrivals = 1+,2-,T,3+ ; bl = ok|err ; refence = 4+,5- or "-"
//	     gate = none|s1pre|s1post|nt<j>|blpre|blpost|s2pre|s2post|end   (where the coordinator process is killed)
//	fstore <id> <cut>                                  real file provider Store interrupted after <cut> bytes (RLIMIT_FSIZE)
package main

import (
	"bytes"
	"context"
	"encoding/json"
	"errors"
	"flag"
	"fmt"
	"io"
	"log/slog"
	"os"
	"os/exec"
	"path/filepath"
	"runtime/pprof"
	"sort"
	"strconv"
	"strings"
	"sync"
	"sync/atomic"
	"syscall"
	"time"

	"github.com/cenkalti/backoff/v4"
	"github.com/emirpasic/gods/v2/sets/linkedhashset"
	"google.golang.org/grpc"
	"google.golang.org/grpc/health/grpc_health_v1"
	grpcmd "google.golang.org/grpc/metadata"

	"github.com/oxia-db/oxia/common/constant"
	"github.com/oxia-db/oxia/coordinator"
	"github.com/oxia-db/oxia/coordinator/controllers"
	"github.com/oxia-db/oxia/coordinator/metadata"
	"github.com/oxia-db/oxia/coordinator/model"
	"github.com/oxia-db/oxia/coordinator/resources"
	"github.com/oxia-db/oxia/proto"

	"verif/harness/internal/hx"
)

const ns = "default"

var errDead = errors.New("verif: coordinator incarnation killed")

// ---------------------------------------------------------------------------------------------------------------
// script

type eid struct{ term, off int64 }

func (e eid) String() string { return fmt.Sprintf("%d:%d", e.term, e.off) }

type arrival struct {
	timer bool
	node  string
	ok    bool
}

type round struct {
	arrivals []arrival
	blOK     bool
	refence  map[string]bool
	refOrder []string
}

type incScript struct {
	rounds []round
	gate   string
}

type script struct {
	prov  string
	ens   []string
	rem   []string
	t0    int64
	heads map[string]eid
	hord  []string
	incs  []incScript
}

func splitList(s string) []string {
	if s == "-" || s == "" {
		return nil
	}
	return strings.Split(s, ",")
}

func parseEid(s string) eid {
	i := strings.LastIndex(s, ":")
	// term:off, both possibly negative
	t, err1 := strconv.ParseInt(s[:i], 10, 64)
	o, err2 := strconv.ParseInt(s[i+1:], 10, 64)
	if err1 != nil || err2 != nil {
		panic("bad eid " + s)
	}
	return eid{t, o}
}

func parseResp(s string) (map[string]eid, []string) {
	m := map[string]eid{}
	var ord []string
	for _, p := range splitList(s) {
		kv := strings.SplitN(p, "=", 2)
		m[kv[0]] = parseEid(kv[1])
		ord = append(ord, kv[0])
	}
	return m, ord
}

func fmtResp(m map[string]eid, ord []string) string {
	if len(ord) == 0 {
		return "-"
	}
	var ps []string
	for _, k := range ord {
		ps = append(ps, k+"="+m[k].String())
	}
	return strings.Join(ps, ",")
}

func parseScript(t []string) *script {
	// t = prov ens rem t0 heads incs
	sc := &script{prov: t[0], ens: splitList(t[1]), rem: splitList(t[2])}
	sc.t0, _ = strconv.ParseInt(t[3], 10, 64)
	sc.heads, sc.hord = parseResp(t[4])
	for _, is := range strings.Split(t[5], "/") {
		at := strings.LastIndex(is, "@")
		inc := incScript{gate: is[at+1:]}
		for _, rs := range strings.Split(is[:at], "|") {
			f := strings.Split(rs, ";")
			r := round{blOK: f[1] == "ok", refence: map[string]bool{}}
			for _, a := range splitList(f[0]) {
				if a == "T" {
					r.arrivals = append(r.arrivals, arrival{timer: true})
				} else {
					r.arrivals = append(r.arrivals, arrival{node: a[:len(a)-1], ok: a[len(a)-1] == '+'})
				}
			}
			for _, a := range splitList(f[2]) {
				r.refence[a[:len(a)-1]] = a[len(a)-1] == '+'
				r.refOrder = append(r.refOrder, a[:len(a)-1])
			}
			inc.rounds = append(inc.rounds, r)
		}
		sc.incs = append(sc.incs, inc)
	}
	return sc
}

func (sc *script) String() string {
	lst := func(l []string) string {
		if len(l) == 0 {
			return "-"
		}
		return strings.Join(l, ",")
	}
	var incs []string
	for _, inc := range sc.incs {
		var rs []string
		for _, r := range inc.rounds {
			var as []string
			for _, a := range r.arrivals {
				switch {
				case a.timer:
					as = append(as, "T")
				case a.ok:
					as = append(as, a.node+"+")
				default:
					as = append(as, a.node+"-")
				}
			}
			var rf []string
			for _, n := range r.refOrder {
				if r.refence[n] {
					rf = append(rf, n+"+")
				} else {
					rf = append(rf, n+"-")
				}
			}
			bl := "err"
			if r.blOK {
				bl = "ok"
			}
			rs = append(rs, lst(as)+";"+bl+";"+lst(rf))
		}
		incs = append(incs, strings.Join(rs, "|")+"@"+inc.gate)
	}
	return fmt.Sprintf("%s %s %s %d %s %s", sc.prov, lst(sc.ens), lst(sc.rem), sc.t0, fmtResp(sc.heads, sc.hord),
		strings.Join(incs, "/"))
}

func srv(n string) model.Server { return model.Server{Public: n, Internal: n} }

func srvs(l []string) []model.Server {
	res := make([]model.Server, 0, len(l))
	for _, n := range l {
		res = append(res, srv(n))
	}
	return res
}

func contains(l []string, s string) bool {
	for _, x := range l {
		if x == s {
			return true
		}
	}
	return false
}

// ---------------------------------------------------------------------------------------------------------------
// evidence that a newTermQuorum goroutine has put its answer on the channel: the goroutine carries pprof labels
// (process.DoWithLabels) and ends right after the send, so "no goroutine with labels (shard, node)" is causal
// evidence.  One shared poller serves all concurrently running cases.

type labelWatch struct {
	mu      sync.Mutex
	cond    *sync.Cond
	gen     uint64
	live    map[string]int
	waiters int
}

var watch = newLabelWatch()

func newLabelWatch() *labelWatch {
	w := &labelWatch{live: map[string]int{}}
	w.cond = sync.NewCond(&w.mu)
	go w.loop()
	return w
}

func (w *labelWatch) snapshot() map[string]int {
	var buf bytes.Buffer
	_ = pprof.Lookup("goroutine").WriteTo(&buf, 1)
	live := map[string]int{}
	for _, l := range strings.Split(buf.String(), "\n") {
		if !strings.HasPrefix(l, "# labels: ") {
			continue
		}
		var m map[string]string
		if json.Unmarshal([]byte(l[len("# labels: "):]), &m) != nil {
			continue
		}
		if m["oxia"] == "shard-controller-leader-election" {
			live[m["shard"]+"|"+m["node"]]++
		}
	}
	return live
}

func (w *labelWatch) loop() {
	for {
		w.mu.Lock()
		n := w.waiters
		w.mu.Unlock()
		if n == 0 {
			time.Sleep(200 * time.Microsecond)
			continue
		}
		live := w.snapshot()
		w.mu.Lock()
		w.live = live
		w.gen++
		w.cond.Broadcast()
		w.mu.Unlock()
		time.Sleep(300 * time.Microsecond)
	}
}

// fresh returns the live set of a snapshot that was started after the call.
func (w *labelWatch) fresh() map[string]int {
	w.mu.Lock()
	defer w.mu.Unlock()
	w.waiters++
	start := w.gen
	// a snapshot in progress when we arrived may predate our request: wait for two generation steps
	for w.gen < start+2 {
		w.cond.Wait()
	}
	w.waiters--
	return w.live
}

func (w *labelWatch) has(shard int64, node string) bool {
	return w.fresh()[fmt.Sprintf("%d|%s", shard, node)] > 0
}

// waitGone blocks until the goroutine (shard,node) is gone (or 2 s passed).
func (w *labelWatch) waitGone(shard int64, node string) bool {
	key := fmt.Sprintf("%d|%s", shard, node)
	dl := time.Now().Add(2 * time.Second)
	for time.Now().Before(dl) {
		if w.fresh()[key] == 0 {
			return true
		}
	}
	return false
}

// ---------------------------------------------------------------------------------------------------------------
// events from the controller under test to the conductor

type reply struct {
	err   error
	head  *eid
	apply bool          // store: perform the underlying Store
	done  chan struct{} // store: closed by the wrapper when the underlying Store has returned
	gs    *proto.GetStatusResponse
}

type event struct {
	kind  string // store nt bl af gs ds
	node  string
	term  int64
	md    *model.ShardMetadata
	bl    *proto.BecomeLeaderRequest
	af    *proto.AddFollowerRequest
	ctx   context.Context
	reply chan reply
}

type incarnation struct {
	ev     chan *event
	dead   atomic.Bool
	deadCh chan struct{}
	shard  int64
}

func newIncarnation(shard int64) *incarnation {
	return &incarnation{ev: make(chan *event, 64), deadCh: make(chan struct{}), shard: shard}
}

func (in *incarnation) kill() {
	if in.dead.CompareAndSwap(false, true) {
		close(in.deadCh)
	}
}

func (in *incarnation) call(ctx context.Context, e *event) (reply, error) {
	if in.dead.Load() {
		return reply{}, errDead
	}
	e.ctx = ctx
	e.reply = make(chan reply, 1)
	select {
	case in.ev <- e:
	case <-in.deadCh:
		return reply{}, errDead
	}
	select {
	case r := <-e.reply:
		if in.dead.Load() && r.err == nil && e.kind != "store" {
			return reply{}, errDead
		}
		return r, nil
	case <-ctx.Done():
		return reply{}, ctx.Err()
	case <-in.deadCh:
		return reply{}, errDead
	}
}

// rpc.Provider of one incarnation
type fakeRPC struct {
	in      *incarnation
	healthy bool // node controllers of a real coordinator: health checks answer SERVING
}

func (f *fakeRPC) PushShardAssignments(context.Context, model.Server) (proto.OxiaCoordination_PushShardAssignmentsClient, error) {
	return nil, errors.New("not used")
}
func (f *fakeRPC) NewTerm(ctx context.Context, node model.Server, req *proto.NewTermRequest) (*proto.NewTermResponse, error) {
	r, err := f.in.call(ctx, &event{kind: "nt", node: node.Internal, term: req.Term})
	if err != nil {
		return nil, err
	}
	if r.err != nil {
		return nil, r.err
	}
	return &proto.NewTermResponse{HeadEntryId: &proto.EntryId{Term: r.head.term, Offset: r.head.off}}, nil
}
func (f *fakeRPC) BecomeLeader(ctx context.Context, node model.Server, req *proto.BecomeLeaderRequest) (*proto.BecomeLeaderResponse, error) {
	r, err := f.in.call(ctx, &event{kind: "bl", node: node.Internal, term: req.Term, bl: req})
	if err != nil {
		return nil, err
	}
	if r.err != nil {
		return nil, r.err
	}
	return &proto.BecomeLeaderResponse{}, nil
}
func (f *fakeRPC) AddFollower(ctx context.Context, node model.Server, req *proto.AddFollowerRequest) (*proto.AddFollowerResponse, error) {
	r, err := f.in.call(ctx, &event{kind: "af", node: node.Internal, term: req.Term, af: req})
	if err != nil {
		return nil, err
	}
	if r.err != nil {
		return nil, r.err
	}
	return &proto.AddFollowerResponse{}, nil
}
func (f *fakeRPC) GetStatus(ctx context.Context, node model.Server, _ *proto.GetStatusRequest) (*proto.GetStatusResponse, error) {
	r, err := f.in.call(ctx, &event{kind: "gs", node: node.Internal})
	if err != nil {
		return nil, err
	}
	if r.err != nil {
		return nil, r.err
	}
	return r.gs, nil
}
func (f *fakeRPC) DeleteShard(ctx context.Context, node model.Server, req *proto.DeleteShardRequest) (*proto.DeleteShardResponse, error) {
	r, err := f.in.call(ctx, &event{kind: "ds", node: node.Internal, term: req.Term})
	if err != nil {
		return nil, err
	}
	if r.err != nil {
		return nil, r.err
	}
	return &proto.DeleteShardResponse{}, nil
}
func (f *fakeRPC) GetHealthClient(model.Server) (grpc_health_v1.HealthClient, io.Closer, error) {
	if !f.healthy {
		return nil, nil, errors.New("not used")
	}
	return okHealth{}, io.NopCloser(nil), nil
}

// okHealth: a storage node that is always SERVING
type okHealth struct{}

func (okHealth) Check(context.Context, *grpc_health_v1.HealthCheckRequest, ...grpc.CallOption) (*grpc_health_v1.HealthCheckResponse, error) {
	return &grpc_health_v1.HealthCheckResponse{Status: grpc_health_v1.HealthCheckResponse_SERVING}, nil
}
func (okHealth) List(context.Context, *grpc_health_v1.HealthListRequest, ...grpc.CallOption) (*grpc_health_v1.HealthListResponse, error) {
	return &grpc_health_v1.HealthListResponse{}, nil
}
func (okHealth) Watch(ctx context.Context, _ *grpc_health_v1.HealthCheckRequest, _ ...grpc.CallOption) (grpc_health_v1.Health_WatchClient, error) {
	return &okWatch{ctx: ctx}, nil
}

type okWatch struct {
	ctx  context.Context
	sent bool
}

func (w *okWatch) Recv() (*grpc_health_v1.HealthCheckResponse, error) {
	if !w.sent {
		w.sent = true
		return &grpc_health_v1.HealthCheckResponse{Status: grpc_health_v1.HealthCheckResponse_SERVING}, nil
	}
	<-w.ctx.Done()
	return nil, w.ctx.Err()
}
func (*okWatch) Header() (grpcmd.MD, error)            { return nil, nil }
func (*okWatch) Trailer() grpcmd.MD                    { return nil }
func (*okWatch) CloseSend() error                      { return nil }
func (w *okWatch) Context() context.Context            { return w.ctx }
func (*okWatch) SendMsg(any) error                     { return nil }
func (*okWatch) RecvMsg(any) error                     { return nil }
func (f *fakeRPC) ClearPooledConnections(model.Server) {}

// metadata.Provider wrapper of one incarnation: every Store is an event; the conductor decides whether it reaches the
// real provider underneath (crash before the write) and whether the controller sees it return (crash after).
type metaWrap struct {
	in    *incarnation
	under metadata.Provider
	shard int64
	quiet atomic.Bool // set while the harness itself initialises the status
}

func (m *metaWrap) Close() error { return nil }
func (m *metaWrap) Get() (*model.ClusterStatus, metadata.Version, error) {
	return m.under.Get()
}
func (m *metaWrap) Store(cs *model.ClusterStatus, v metadata.Version) (metadata.Version, error) {
	if m.quiet.Load() {
		return m.under.Store(cs, v)
	}
	var md *model.ShardMetadata
	if nss, ok := cs.Namespaces[ns]; ok {
		if s, ok := nss.Shards[m.shard]; ok {
			c := s.Clone()
			md = &c
		}
	}
	r, err := m.in.call(context.Background(), &event{kind: "store", md: md})
	if err != nil || !r.apply {
		return "", backoff.Permanent(errDead)
	}
	nv, err := m.under.Store(cs, v)
	close(r.done)
	if m.in.dead.Load() {
		return "", backoff.Permanent(errDead)
	}
	return nv, err
}

// resources.ClusterConfigResource stub: no server changed its address
type cfgStub struct{}

func (cfgStub) Close() error                      { return nil }
func (cfgStub) Load() *model.ClusterConfig        { return &model.ClusterConfig{} }
func (cfgStub) Nodes() *linkedhashset.Set[string] { return linkedhashset.New[string]() }
func (cfgStub) NodesWithMetadata() (*linkedhashset.Set[string], map[string]model.ServerMetadata) {
	return linkedhashset.New[string](), map[string]model.ServerMetadata{}
}
func (cfgStub) NamespaceConfig(string) (*model.NamespaceConfig, bool) { return nil, false }
func (cfgStub) Node(string) (*model.Server, bool)                     { return nil, false }

// ---------------------------------------------------------------------------------------------------------------
// running one election case

type nodeState struct {
	status proto.ServingStatus
	term   int64
	known  bool
}

type caseRun struct {
	sc         *script
	shard      int64
	tmp        string
	trace      []string
	viols      [][2]string
	nodes      map[string]*nodeState
	maxSent    int64 // highest term sent by previous incarnations
	anySent    bool
	lastStored int64 // term of the shard in the last Store that reached the provider
	anyStored  bool
	blBy       map[int64]string
	under      metadata.Provider // memory provider (shared by all incarnations); file: re-created per incarnation
	path       string
	useLbl     bool
	stats      map[string]int
	// set when two consecutive answers could not be handed over well inside the grace period (machine overloaded):
	// the schedule that was asked for may not be the one that ran; the case is re-run, and dropped if it never runs cleanly
	unreliable bool
	gateMissed bool // cfgrace: ConfigChanged never reached the parking place
}

func (c *caseRun) tok(f string, a ...any) { c.trace = append(c.trace, fmt.Sprintf(f, a...)) }
func (c *caseRun) viol(sig, f string, a ...any) {
	c.viols = append(c.viols, [2]string{sig, fmt.Sprintf(f, a...)})
}

func statusName(s model.ShardStatus) string {
	switch s {
	case model.ShardStatusUnknown:
		return "unknown"
	case model.ShardStatusSteadyState:
		return "steady"
	case model.ShardStatusElection:
		return "election"
	case model.ShardStatusDeleting:
		return "deleting"
	}
	return "?"
}

func names(l []model.Server) string {
	if len(l) == 0 {
		return "-"
	}
	var r []string
	for _, s := range l {
		r = append(r, s.Internal)
	}
	return strings.Join(r, ".")
}

// fmtStore prints a Store payload; the leader is printed as $L when it is the node the last BecomeLeader of this term went to.
func (c *caseRun) fmtStore(md *model.ShardMetadata) string {
	if md == nil {
		return "S:none"
	}
	l := "-"
	if md.Leader != nil {
		l = md.Leader.Internal
		if c.blBy[md.Term] == l {
			l = "$L"
		}
	}
	return fmt.Sprintf("S:%d:%s:%s:%s:%s", md.Term, statusName(md.Status), l, names(md.Ensemble), names(md.RemovedNodes))
}

func (c *caseRun) durableTerm() (int64, bool) {
	var p metadata.Provider = c.under
	if c.sc.prov == "file" {
		p = metadata.NewMetadataProviderFile(c.path)
	}
	cs, _, err := p.Get()
	if err != nil || cs == nil {
		return 0, false
	}
	nss, ok := cs.Namespaces[ns]
	if !ok {
		return 0, false
	}
	s, ok := nss.Shards[c.shard]
	return s.Term, ok
}

func (c *caseRun) provider() metadata.Provider {
	if c.sc.prov == "file" {
		return metadata.NewMetadataProviderFile(c.path)
	}
	return c.under
}

const evTimeout = 4 * time.Second

// two consecutive answers must reach newTermQuorum's channel within this time (the grace period is 100 ms)
const graceMargin = 55 * time.Millisecond

func next(in *incarnation, d time.Duration) *event {
	select {
	case e := <-in.ev:
		return e
	case <-time.After(d):
		return nil
	}
}

// runCase executes the script; returns the canonical trace.
func (c *caseRun) run() {
	sc := c.sc
	c.nodes = map[string]*nodeState{}
	c.blBy = map[int64]string{}
	for n := range sc.heads {
		c.nodes[n] = &nodeState{}
	}
	// initial durable status: the shard exists with term t0; a pending swap if rem is not empty
	cs := model.NewClusterStatus()
	st := model.ShardStatusUnknown
	if len(sc.rem) > 0 {
		st = model.ShardStatusElection
	}
	cs.Namespaces[ns] = model.NamespaceStatus{ReplicationFactor: uint32(len(sc.ens)), Shards: map[int64]model.ShardMetadata{
		c.shard: {Status: st, Term: sc.t0, Leader: nil, Ensemble: srvs(sc.ens), RemovedNodes: srvs(sc.rem),
			Int32HashRange: model.Int32HashRange{Min: 0, Max: 0xFFFFFFFF}},
	}}
	if sc.prov == "file" {
		c.path = filepath.Join(c.tmp, fmt.Sprintf("status-%d.json", c.shard))
	} else {
		c.under = metadata.NewMetadataProviderMemory()
	}
	if _, err := c.provider().Store(cs, metadata.NotExists); err != nil {
		c.tok("X:setup-error")
		return
	}
	for i, inc := range sc.incs {
		c.tok("I%d", i)
		if !c.runIncarnation(inc) {
			return
		}
	}
}

func (c *caseRun) runIncarnation(inc incScript) bool {
	sc := c.sc
	in := newIncarnation(c.shard)
	mw := &metaWrap{in: in, under: c.provider(), shard: c.shard}
	// --- exactly what NewCoordinator does with the metadata: load; "not exists" => initial assignment + Update
	mw.quiet.Store(true)
	cur, _, gerr := mw.under.Get()
	if gerr != nil {
		c.tok("X:get-error")
		c.viol("store:status-unreadable-after-interrupted-write", "Get() on the status file fails: %v", gerr)
		return false
	}
	sr := resources.NewStatusResource(mw)
	if cur == nil {
		c.tok("INIT")
		cs := model.NewClusterStatus()
		cs.Namespaces[ns] = model.NamespaceStatus{ReplicationFactor: uint32(len(sc.ens)), Shards: map[int64]model.ShardMetadata{
			c.shard: {Status: model.ShardStatusUnknown, Term: -1, Leader: nil, Ensemble: srvs(sc.ens),
				Int32HashRange: model.Int32HashRange{Min: 0, Max: 0xFFFFFFFF}},
		}}
		sr.Update(cs)
	}
	mw.quiet.Store(false)
	md := sr.Load().Namespaces[ns].Shards[c.shard]
	rpcp := &fakeRPC{in: in}
	ctl := controllers.NewShardController(ns, c.shard, &model.NamespaceConfig{Name: ns, ReplicationFactor: uint32(len(sc.ens))},
		md, cfgStub{}, sr, nil, rpcp)
	kill := func() {
		in.kill()
		go func() { _ = ctl.Close() }()
	}
	defer kill()

	return c.playIncarnation(in, md, inc)
}

// mkNoteSent returns the monitor of "a restarted coordinator never reuses or goes below a term already sent" for one incarnation.
func (c *caseRun) mkNoteSent() func(string, int64) {
	prevMax, prevAny := c.maxSent, c.anySent
	return func(kind string, t int64) {
		if prevAny && t <= prevMax {
			c.viol("election:term-reused-after-restart", "%s with term %d after a restart; terms up to %d were sent before (script %s)",
				kind, t, prevMax, c.sc.String())
		}
		if !c.anySent || t > c.maxSent {
			c.maxSent, c.anySent = t, true
		}
	}
}

// noteStore is the monitor on the sequence of Store payloads: the stored term of the shard never decreases.
func (c *caseRun) noteStore(md *model.ShardMetadata, who string) {
	if md == nil {
		return
	}
	if c.anyStored && md.Term < c.lastStored {
		c.viol("store:shard-term-regressed", "a Store by %s writes term %d for the shard, the store held term %d (status %s, leader %v) (script %s)",
			who, md.Term, c.lastStored, statusName(md.Status), md.Leader, c.sc.String())
	}
	c.lastStored, c.anyStored = md.Term, true
}

// playIncarnation follows one shard controller from its start (run(): verification of a stored leader, or election).
func (c *caseRun) playIncarnation(in *incarnation, md model.ShardMetadata, inc incScript) bool {
	sc := c.sc
	noteSent := c.mkNoteSent()
	startElection := md.Leader == nil || md.Status != model.ShardStatusSteadyState
	if !startElection {
		ok := true
		for _, n := range md.Ensemble {
			e := next(in, evTimeout)
			if e == nil || e.kind != "gs" || e.node != n.Internal {
				c.tok("X:stuck-verify")
				return false
			}
			c.tok("GS:%s", n.Internal)
			nsn := c.nodes[n.Internal]
			if nsn == nil || !nsn.known {
				e.reply <- reply{err: errors.New("node does not host the shard")}
				ok = false
				break
			}
			e.reply <- reply{gs: &proto.GetStatusResponse{Term: nsn.term, Status: nsn.status, HeadOffset: sc.heads[n.Internal].off}}
			wantLeader := n.Internal == md.Leader.Internal
			if (wantLeader && nsn.status != proto.ServingStatus_LEADER) || (!wantLeader && nsn.status != proto.ServingStatus_FOLLOWER) ||
				nsn.term != md.Term {
				ok = false
				break
			}
		}
		if ok {
			// the shard is fine: nothing triggers an election, the scripted rounds are not played
			c.tok("IDLE")
			return true
		}
	}

	for ri, r := range inc.rounds {
		last := ri == len(inc.rounds)-1
		gate := ""
		if last {
			gate = inc.gate
		}
		switch c.runRound(in, r, gate, noteSent) {
		case roundAbort:
			return false
		case roundKilled, roundElected:
			// the incarnation ends with the first round that elects (later rounds of the script are not played)
			return true
		case roundFailed:
		}
	}
	return true
}

type roundEnd int

const (
	roundFailed  roundEnd = iota // electLeader returned an error; the controller retries with the next term
	roundElected                 // election complete, controller idle
	roundKilled                  // the coordinator was killed at the gate
	roundAbort                   // the implementation did not do what the protocol prescribes (token X:stuck... written)
)

// runRound plays one electLeader attempt.
func (c *caseRun) runRound(in *incarnation, r round, gate string, noteSent func(string, int64)) roundEnd {
	sc := c.sc
	// ---- first Store
	e := next(in, evTimeout)
	if e == nil || e.kind != "store" {
		c.tok("X:stuck-store1")
		return roundAbort
	}
	c.tok("%s", c.fmtStore(e.md))
	if gate == "s1pre" {
		c.tok("X:s1pre")
		in.kill()
		e.reply <- reply{apply: false}
		return roundKilled
	}
	if gate == "s1post" {
		// the write happens, the process dies before Store returns
		c.tok("X:s1post")
		c.noteStore(e.md, "the shard controller")
		applyStore(e)
		in.kill()
		return roundKilled
	}
	c.noteStore(e.md, "the shard controller")
	applyStore(e)
	term := e.md.Term
	fq := append(append([]string{}, names2(e.md.Ensemble)...), names2(e.md.RemovedNodes)...)
	ensNow := names2(e.md.Ensemble)

	// ---- NewTerm to everybody
	pending := map[string]*event{}
	for len(pending) < len(fq) {
		e := next(in, evTimeout)
		if e == nil || e.kind != "nt" {
			c.tok("X:stuck-newterm")
			return roundAbort
		}
		if dt, ok := c.durableTerm(); !ok || dt < e.term {
			c.viol("election:term-not-stored-before-newterm", "NewTerm(term=%d) sent to %s while the stored term is %d (found=%v) (script %s)",
				e.term, e.node, dt, ok, sc.String())
		}
		noteSent("NewTerm", e.term)
		pending[e.node] = e
	}
	var tg []string
	for n := range pending {
		tg = append(tg, n)
	}
	sort.Strings(tg)
	c.tok("NT:%d:%s", term, strings.Join(tg, "."))
	if c.useLbl {
		// the label mechanism must see the blocked goroutines, otherwise fall back to spacing by time
		if len(tg) > 0 && !watch.has(c.shard, tg[0]) {
			c.useLbl = false
			c.stats["order-by-sleep"]++
		}
	}
	if gate == "nt0" {
		c.tok("X:nt0")
		in.kill()
		return roundKilled
	}

	// ---- answers in the scripted order
	okResp := map[string]bool{}
	released := 0
	var dec *event
	var lastRel time.Time
	for _, a := range r.arrivals {
		if a.timer {
			lastRel = time.Time{}
			// the grace timer fires before anything else arrives: wait for the decision (if the first loop is
			// still short of a majority there is no timer and nothing happens)
			if dec == nil {
				dec = next(in, controllers.VerifQuorumFencingGracePeriod+150*time.Millisecond)
			}
			continue
		}
		p := pending[a.node]
		if p == nil {
			continue
		}
		delete(pending, a.node)
		relStart := time.Now()
		if a.ok {
			h := sc.heads[a.node]
			c.nodes[a.node].status, c.nodes[a.node].term, c.nodes[a.node].known = proto.ServingStatus_FENCED, term, true
			okResp[a.node] = true
			p.reply <- reply{head: &h}
		} else {
			p.reply <- reply{err: errors.New("scripted failure")}
		}
		if c.useLbl {
			if !watch.waitGone(c.shard, a.node) {
				c.unreliable = true
			}
		} else {
			time.Sleep(8 * time.Millisecond)
		}
		// the grace timer (re-armed when the previous answer was taken, i.e. not before lastRel) must not be able to
		// fire before this answer is on the channel
		if !lastRel.IsZero() && time.Since(lastRel) > graceMargin {
			c.unreliable = true
		}
		lastRel = relStart
		released++
		if gate == fmt.Sprintf("nt%d", released) {
			c.tok("X:nt%d", released)
			in.kill()
			return roundKilled
		}
	}
	if dec == nil {
		dec = next(in, evTimeout)
	}
	if dec == nil {
		c.tok("X:stuck-decision")
		return roundAbort
	}
	if dec.kind == "store" {
		// electLeader failed and was retried: hand the event back for the next round
		c.tok("Q:fail")
		in.ev <- dec // channel is buffered; the controller is blocked in this Store, nothing else can be queued
		return roundFailed
	}
	if dec.kind != "bl" {
		c.tok("X:unexpected-%s", dec.kind)
		return roundAbort
	}

	// ---- BecomeLeader
	leader := dec.node
	fm := map[string]eid{}
	var fmk []string
	for k, v := range dec.bl.FollowerMaps {
		fm[k] = eid{v.Term, v.Offset}
		fmk = append(fmk, k)
	}
	sort.Strings(fmk)
	c.tok("BL:%d:%d:%s:%s", dec.term, dec.bl.ReplicationFactor, leader, fmtResp(fm, fmk))
	noteSent("BecomeLeader", dec.term)
	c.stats["elections-decided"]++
	// spec verdicts on the decision
	if !contains(ensNow, leader) {
		c.viol("election:leader-not-in-ensemble", "BecomeLeader(term=%d) sent to %s, ensemble being installed is %v, removed %v (script %s)",
			dec.term, leader, ensNow, names2raw(sc.rem), sc.String())
	}
	for _, k := range fmk {
		if !contains(ensNow, k) {
			c.viol("election:follower-not-in-ensemble", "BecomeLeader(term=%d) to %s lists follower %s, ensemble being installed is %v (script %s)",
				dec.term, leader, k, ensNow, sc.String())
		}
	}
	lh, lok := sc.heads[leader]
	if !lok || !okResp[leader] {
		c.viol("election:leader-not-a-responder", "BecomeLeader(term=%d) sent to %s which did not answer NewTerm in this term (script %s)",
			dec.term, leader, sc.String())
	}
	for _, k := range fmk {
		if !contains(ensNow, k) {
			continue
		}
		h := fm[k]
		if h.term > lh.term || (h.term == lh.term && h.off > lh.off) {
			c.viol("election:leader-not-max-head", "leader %s head %s < follower %s head %s in BecomeLeader(term=%d) (script %s)",
				leader, lh, k, h, dec.term, sc.String())
		}
	}
	// every ensemble member whose answer the coordinator had taken must be in the decision
	if len(okResp) < len(fq)/2+1 {
		c.viol("election:become-leader-before-majority", "BecomeLeader(term=%d) sent after %d successful NewTerm answers out of %d servers (script %s)",
			dec.term, len(okResp), len(fq), sc.String())
	}
	if prev, ok := c.blBy[dec.term]; ok && prev != leader {
		c.viol("election:two-leaders-same-term", "BecomeLeader(term=%d) sent to %s and to %s (script %s)", dec.term, prev, leader, sc.String())
	}
	c.blBy[dec.term] = leader
	if dt, ok := c.durableTerm(); !ok || dt < dec.term {
		c.viol("election:term-not-stored-before-newterm", "BecomeLeader(term=%d) sent while the stored term is %d (script %s)", dec.term, dt, sc.String())
	}

	if gate == "blpre" {
		c.tok("X:blpre")
		in.kill()
		return roundKilled
	}
	if r.blOK {
		c.nodes[leader].status, c.nodes[leader].term, c.nodes[leader].known = proto.ServingStatus_LEADER, dec.term, true
		for _, k := range fmk {
			if c.nodes[k] != nil {
				c.nodes[k].status, c.nodes[k].term, c.nodes[k].known = proto.ServingStatus_FOLLOWER, dec.term, true
			}
		}
	}
	if gate == "blpost" {
		c.tok("X:blpost")
		in.kill()
		return roundKilled
	}
	if !r.blOK {
		c.tok("BLR:err")
		dec.reply <- reply{err: errors.New("scripted BecomeLeader failure")}
		return roundFailed
	}
	c.tok("BLR:ok")
	dec.reply <- reply{}

	// ---- DeleteShard on removed nodes, then the second Store
	for {
		e := next(in, evTimeout)
		if e == nil {
			c.tok("X:stuck-store2")
			return roundAbort
		}
		if e.kind == "ds" {
			c.tok("DS:%d:%s", e.term, e.node)
			e.reply <- reply{}
			continue
		}
		if e.kind != "store" {
			c.tok("X:unexpected-%s", e.kind)
			return roundAbort
		}
		c.tok("%s", c.fmtStore(e.md))
		if gate == "s2pre" {
			c.tok("X:s2pre")
			in.kill()
			e.reply <- reply{apply: false}
			return roundKilled
		}
		if gate == "s2post" {
			c.tok("X:s2post")
			c.noteStore(e.md, "the shard controller")
			applyStore(e)
			in.kill()
			return roundKilled
		}
		c.noteStore(e.md, "the shard controller")
		applyStore(e)
		break
	}

	// ---- keepFencingFailedFollowers: one NewTerm + AddFollower attempt per member that is neither leader nor follower
	var failed []string
	if len(fmk) != len(ensNow)-1 {
		for _, n := range ensNow {
			if n != leader && !contains(fmk, n) {
				failed = append(failed, n)
			}
		}
	}
	var rf []string
	seen := map[string]bool{}
	for len(seen) < len(failed) {
		e := next(in, evTimeout)
		if e == nil {
			c.tok("X:stuck-refence")
			return roundAbort
		}
		switch e.kind {
		case "nt":
			if seen[e.node] {
				// a retry after the back-off: not part of the observable
				e.reply <- reply{err: errors.New("scripted failure")}
				continue
			}
			noteSent("NewTerm", e.term)
			okr, given := r.refence[e.node]
			if !given {
				okr = true
			}
			if !okr {
				rf = append(rf, fmt.Sprintf("RF:%d:%s:err", e.term, e.node))
				seen[e.node] = true
				e.reply <- reply{err: errors.New("scripted failure")}
				continue
			}
			h := sc.heads[e.node]
			c.nodes[e.node].status, c.nodes[e.node].term, c.nodes[e.node].known = proto.ServingStatus_FENCED, e.term, true
			e.reply <- reply{head: &h}
			// AddFollower follows in the same run-loop iteration
			a := next(in, evTimeout)
			if a == nil || a.kind != "af" {
				c.tok("X:stuck-addfollower")
				return roundAbort
			}
			tgt := a.node
			if tgt == leader {
				tgt = "$L"
			}
			rf = append(rf, fmt.Sprintf("RF:%d:%s:ok:AF:%s:%s:%d:%d", e.term, e.node, tgt, a.af.FollowerName,
				a.af.FollowerHeadEntryId.Term, a.af.FollowerHeadEntryId.Offset))
			c.nodes[e.node].status = proto.ServingStatus_FOLLOWER
			seen[e.node] = true
			a.reply <- reply{}
		default:
			c.tok("X:unexpected-%s", e.kind)
			return roundAbort
		}
	}
	sort.Strings(rf)
	for _, t := range rf {
		c.tok("%s", t)
	}
	c.stats["elections-completed"]++
	if gate == "end" {
		c.tok("X:end")
		in.kill()
		return roundKilled
	}
	return roundElected
}

// applyStore lets the gated Store reach the real provider and waits until it has returned.
func applyStore(e *event) {
	d := make(chan struct{})
	e.reply <- reply{apply: true, done: d}
	select {
	case <-d:
	case <-time.After(evTimeout):
	}
}

func (c *caseRun) waitDurable(term int64) {
	dl := time.Now().Add(2 * time.Second)
	for time.Now().Before(dl) {
		if t, ok := c.durableTerm(); ok && t >= term {
			return
		}
		time.Sleep(200 * time.Microsecond)
	}
}

func (c *caseRun) waitDurableSteady() {
	dl := time.Now().Add(2 * time.Second)
	for time.Now().Before(dl) {
		cs, _, err := c.provider().Get()
		if err == nil && cs != nil {
			if s, ok := cs.Namespaces[ns].Shards[c.shard]; ok && s.Status == model.ShardStatusSteadyState {
				return
			}
		}
		time.Sleep(200 * time.Microsecond)
	}
}

func names2(l []model.Server) []string {
	var r []string
	for _, s := range l {
		r = append(r, s.Internal)
	}
	return r
}
func names2raw(l []string) []string { return l }

// ---------------------------------------------------------------------------------------------------------------
// cfgrace: a REAL coordinator (coordinator.NewCoordinator).  Coordinator.ConfigChanged is parked between its
// LoadWithVersion and its Swap while the shard controller's election retry stores term+1 and sends it; then it is
// released, the coordinator is killed and a new one is started from the stored status.
//
// The parking place is inside utils.ApplyClusterChanges: the new config adds a namespace that cannot be placed
// (replication factor above the number of servers), the failed ensemble selection is reported with slog.Error, and
// the harness' slog handler blocks there.  If that report disappears the schedule cannot be realised and the case is
// not evaluated (counted as cfgrace:gate-not-reached), never an alarm.

type cfgGate struct {
	hit     chan struct{}
	release chan struct{}
	once    sync.Once
}

var cfgGates sync.Map // namespace name -> *cfgGate

type gateHandler struct{}

func (gateHandler) Enabled(_ context.Context, l slog.Level) bool { return l >= slog.LevelError }
func (gateHandler) WithAttrs([]slog.Attr) slog.Handler           { return gateHandler{} }
func (gateHandler) WithGroup(string) slog.Handler                { return gateHandler{} }
func (gateHandler) Handle(_ context.Context, r slog.Record) error {
	if !strings.HasPrefix(r.Message, "failed to select new ensembles") {
		return nil
	}
	r.Attrs(func(a slog.Attr) bool {
		if a.Key == "namespace" {
			if g, ok := cfgGates.Load(a.Value.String()); ok {
				gate := g.(*cfgGate)
				gate.once.Do(func() {
					close(gate.hit)
					select {
					case <-gate.release:
					case <-time.After(20 * time.Second):
					}
				})
			}
			return false
		}
		return true
	})
	return nil
}

func (c *caseRun) runCfgRace(full bool, t0 int64) {
	ens := []string{"1", "2", "3"}
	c.sc = &script{prov: "mem", ens: ens, t0: t0, heads: map[string]eid{}, hord: ens,
		incs: []incScript{{gate: "cfgrace"}}}
	c.nodes = map[string]*nodeState{}
	c.blBy = map[int64]string{}
	for i, n := range ens {
		c.sc.heads[n] = eid{t0, 10}
		st := proto.ServingStatus_FOLLOWER
		if i == 0 {
			st = proto.ServingStatus_LEADER
		}
		c.nodes[n] = &nodeState{status: st, term: t0, known: true}
	}
	l0 := srv("1")
	c.under = metadata.NewMetadataProviderMemory()
	cs := model.NewClusterStatus()
	cs.ShardIdGenerator = c.shard + 1
	cs.Namespaces[ns] = model.NamespaceStatus{ReplicationFactor: 3, Shards: map[int64]model.ShardMetadata{
		c.shard: {Status: model.ShardStatusSteadyState, Term: t0, Leader: &l0, Ensemble: srvs(ens),
			Int32HashRange: model.Int32HashRange{Min: 0, Max: 0xFFFFFFFF}},
	}}
	if _, err := c.under.Store(cs, metadata.NotExists); err != nil {
		c.tok("X:setup-error")
		return
	}
	c.lastStored, c.anyStored = t0, true
	cfg := model.ClusterConfig{
		Namespaces: []model.NamespaceConfig{{Name: ns, InitialShardCount: 1, ReplicationFactor: 3}},
		Servers:    srvs(ens),
	}
	start := func() (*incarnation, coordinator.Coordinator, model.ShardMetadata, bool) {
		in := newIncarnation(c.shard)
		mw := &metaWrap{in: in, under: c.under, shard: c.shard}
		cur, _, _ := c.under.Get()
		md := cur.Namespaces[ns].Shards[c.shard]
		co, err := coordinator.NewCoordinator(mw, func() (model.ClusterConfig, error) { return cfg, nil }, make(chan any),
			&fakeRPC{in: in, healthy: true})
		if err != nil {
			c.tok("X:coordinator-start-error")
			return nil, nil, md, false
		}
		return in, co, md, true
	}
	stop := func(in *incarnation, co coordinator.Coordinator) {
		in.kill()
		go func() { _ = co.Close() }()
	}

	// ---- incarnation 0
	c.tok("I0")
	in, co, md, ok := start()
	if !ok {
		return
	}
	stopped := false
	defer func() {
		if !stopped {
			stop(in, co)
		}
	}()
	if !c.playIncarnation(in, md, incScript{gate: "none"}) { // verification of the stored leader: GS x3, IDLE
		return
	}
	if c.trace[len(c.trace)-1] != "IDLE" {
		c.tok("X:not-idle")
		return
	}
	noteSent := c.mkNoteSent()
	expectStore := func(who string) *event {
		e := next(in, evTimeout)
		if e == nil || e.kind != "store" {
			c.tok("X:stuck-store")
			return nil
		}
		c.noteStore(e.md, who)
		return e
	}
	collectNT := func(term int64) map[string]*event {
		pending := map[string]*event{}
		for len(pending) < len(ens) {
			e := next(in, evTimeout)
			if e == nil || e.kind != "nt" {
				c.tok("X:stuck-newterm")
				return nil
			}
			if dt, ok := c.durableTerm(); !ok || dt < e.term {
				c.viol("election:term-not-stored-before-newterm", "NewTerm(term=%d) sent to %s while the stored term is %d (cfgrace)", e.term, e.node, dt)
			}
			noteSent("NewTerm", e.term)
			pending[e.node] = e
		}
		c.tok("NT:%d:%s", term, strings.Join(ens, "."))
		return pending
	}
	// the leader is reported unavailable: first attempt, NewTerm requests are held
	go co.NodeBecameUnavailable(l0)
	e := expectStore("the shard controller")
	if e == nil {
		return
	}
	c.tok("%s", c.fmtStore(e.md))
	applyStore(e)
	pend := collectNT(e.md.Term)
	if pend == nil {
		return
	}
	// ConfigChanged: a label on a server and a namespace that cannot be placed
	gname := fmt.Sprintf("unplaceable-%d", c.shard)
	gate := &cfgGate{hit: make(chan struct{}), release: make(chan struct{})}
	cfgGates.Store(gname, gate)
	defer cfgGates.Delete(gname)
	newCfg := cfg
	newCfg.Namespaces = append(append([]model.NamespaceConfig{}, cfg.Namespaces...),
		model.NamespaceConfig{Name: gname, InitialShardCount: 1, ReplicationFactor: 5})
	newCfg.ServerMetadata = map[string]model.ServerMetadata{"1": {Labels: map[string]string{"rack": "r1"}}}
	cfgDone := make(chan struct{})
	go func() {
		defer close(cfgDone)
		defer func() { _ = recover() }()
		co.ConfigChanged(&newCfg)
	}()
	select {
	case <-gate.hit:
	case <-time.After(3 * time.Second):
		c.gateMissed = true
		close(gate.release)
		return
	}
	// the attempt fails; the retry stores the next term while ConfigChanged holds its snapshot
	for _, n := range ens {
		pend[n].reply <- reply{err: errors.New("scripted failure")}
	}
	e = expectStore("the shard controller")
	if e == nil {
		close(gate.release)
		return
	}
	c.tok("Q:fail")
	c.tok("%s", c.fmtStore(e.md))
	applyStore(e)
	term := e.md.Term
	pend = collectNT(term)
	if pend == nil {
		close(gate.release)
		return
	}
	for _, n := range ens {
		h := c.sc.heads[n]
		c.nodes[n].status, c.nodes[n].term = proto.ServingStatus_FENCED, term
		pend[n].reply <- reply{head: &h}
	}
	bl := next(in, evTimeout)
	if bl == nil || bl.kind != "bl" {
		c.tok("X:stuck-becomeleader")
		close(gate.release)
		return
	}
	leader := bl.node
	fm := map[string]eid{}
	var fmk []string
	for k, v := range bl.bl.FollowerMaps {
		fm[k] = eid{v.Term, v.Offset}
		fmk = append(fmk, k)
	}
	sort.Strings(fmk)
	c.tok("BL:%d:%d:%s:%s", bl.term, bl.bl.ReplicationFactor, leader, fmtResp(fm, fmk))
	noteSent("BecomeLeader", bl.term)
	c.blBy[bl.term] = leader
	if dt, ok := c.durableTerm(); !ok || dt < bl.term {
		c.viol("election:term-not-stored-before-newterm", "BecomeLeader(term=%d) sent while the stored term is %d (cfgrace)", bl.term, dt)
	}
	if full {
		c.nodes[leader].status = proto.ServingStatus_LEADER
		for _, k := range fmk {
			c.nodes[k].status = proto.ServingStatus_FOLLOWER
		}
		c.tok("BLR:ok")
		bl.reply <- reply{}
		e = expectStore("the shard controller")
		if e == nil {
			close(gate.release)
			return
		}
		c.tok("%s", c.fmtStore(e.md))
		applyStore(e)
	}
	// ConfigChanged resumes: its Swap meets a newer version
	close(gate.release)
	e = expectStore("Coordinator.ConfigChanged")
	if e == nil {
		return
	}
	c.tok("C%s", c.fmtStore(e.md))
	applyStore(e)
	select {
	case <-cfgDone:
	case <-time.After(evTimeout):
		c.tok("X:configchanged-stuck")
		return
	}
	if dt, ok := c.durableTerm(); !ok || dt < c.maxSent {
		c.viol("store:shard-term-regressed", "after ConfigChanged the store holds term %d for the shard, term %d was already sent to the nodes (cfgrace full=%v t0=%d)",
			dt, c.maxSent, full, t0)
	}
	c.tok("X:cfg")
	stop(in, co)
	stopped = true

	// ---- incarnation 1: a new coordinator on the stored status
	c.tok("I1")
	in2, co2, md2, ok := start()
	if !ok {
		return
	}
	defer stop(in2, co2)
	r := round{blOK: true, refence: map[string]bool{}}
	for _, n := range ens {
		r.arrivals = append(r.arrivals, arrival{node: n, ok: true})
	}
	c.playIncarnation(in2, md2, incScript{rounds: []round{r}, gate: "none"})
}

// ---------------------------------------------------------------------------------------------------------------
// selectNewLeader as a pure function

func runSel(o *hx.Out, resp map[string]eid, ord []string) {
	m := map[model.Server]*proto.EntryId{}
	for k, v := range resp {
		m[srv(k)] = &proto.EntryId{Term: v.term, Offset: v.off}
	}
	res := func() (res string) {
		defer func() {
			if r := recover(); r != nil {
				res = "panic"
			}
		}()
		l, f := controllers.VerifSelectNewLeader(m)
		fm := map[string]eid{}
		var fk []string
		for k, v := range f {
			fm[k.Internal] = eid{v.Term, v.Offset}
			fk = append(fk, k.Internal)
		}
		sort.Strings(fk)
		// spec: the leader's head is maximal, followers = responses minus leader
		lh := resp[l.Internal]
		for k, v := range resp {
			if v.term > lh.term || (v.term == lh.term && v.off > lh.off) {
				o.Violation("election:leader-not-max-head", fmt.Sprintf("selectNewLeader(%s) = %s with head %s, but %s has %s",
					fmtResp(resp, ord), l.Internal, lh, k, v))
			}
			if _, isF := fm[k]; k != l.Internal && !isF {
				o.Violation("election:follower-dropped", fmt.Sprintf("selectNewLeader(%s): %s neither leader nor follower", fmtResp(resp, ord), k))
			}
		}
		if _, isF := fm[l.Internal]; isF || len(fm) != len(resp)-1 {
			o.Violation("election:follower-map-wrong", fmt.Sprintf("selectNewLeader(%s) = %s, followers %s", fmtResp(resp, ord), l.Internal, fmtResp(fm, fk)))
		}
		return l.Internal + " " + fmtResp(fm, fk)
	}()
	nt := ""
	if len(resp) >= 2 {
		nt = fmtResp(resp, ord)
	}
	o.Case("sel", fmtResp(resp, ord), res, nt)
	o.Count(fmt.Sprintf("sel:size=%d", len(resp)))
}

// ---------------------------------------------------------------------------------------------------------------
// the file provider's Store, interrupted: a child process runs the real Store under RLIMIT_FSIZE = cut bytes and is
// killed by SIGXFSZ (or gets EFBIG) in the middle of writing the status file.

func fstoreStatus(term int64) *model.ClusterStatus {
	cs := model.NewClusterStatus()
	cs.Namespaces[ns] = model.NamespaceStatus{ReplicationFactor: 3, Shards: map[int64]model.ShardMetadata{
		0: {Status: model.ShardStatusElection, Term: term, Ensemble: srvs([]string{"1", "2", "3"}),
			Int32HashRange: model.Int32HashRange{Min: 0, Max: 0xFFFFFFFF}},
	}}
	return cs
}

func fstoreChild(path string, cut uint64, term int64) {
	_ = syscall.Setrlimit(syscall.RLIMIT_FSIZE, &syscall.Rlimit{Cur: cut, Max: cut})
	p := metadata.NewMetadataProviderFile(path)
	_, v, err := p.Get()
	if err != nil {
		os.Exit(3)
	}
	_, err = p.Store(fstoreStatus(term), v)
	if err != nil {
		os.Exit(4)
	}
	os.Exit(0)
}

func runFstore(o *hx.Out, tmp string, id int, cut uint64) {
	dir := filepath.Join(tmp, fmt.Sprintf("fstore-%d-%d", os.Getpid(), id))
	hx.Must(os.MkdirAll(dir, 0o755))
	defer os.RemoveAll(dir)
	path := filepath.Join(dir, "status.json")
	p := metadata.NewMetadataProviderFile(path)
	v0, err := p.Store(fstoreStatus(7), metadata.NotExists)
	hx.Must(err)
	cmd := exec.Command(os.Args[0], "-fstore-child", path, "-fstore-cut", strconv.FormatUint(cut, 10), "-out", dir)
	_ = cmd.Run()
	cs, v, gerr := metadata.NewMetadataProviderFile(path).Get()
	res := ""
	switch {
	case gerr != nil:
		res = "unreadable"
	case cs == nil:
		res = "not-exists"
	default:
		t := cs.Namespaces[ns].Shards[0].Term
		switch {
		case t == 7 && v == v0:
			res = "old"
		case t == 8 && v != v0:
			res = "new"
		default:
			res = fmt.Sprintf("mixed(term=%d,version=%s)", t, v)
		}
	}
	o.Case("fstore", fmt.Sprintf("%d", cut), res, fmt.Sprintf("%d", cut))
	o.Count("fstore:" + res)
	if res != "old" && res != "new" {
		o.Violation("store:interrupted-write-loses-status", fmt.Sprintf(
			"file provider Store interrupted after %d bytes (RLIMIT_FSIZE): Get() afterwards reports %s instead of the old or the new status", cut, res))
	}
}

// ---------------------------------------------------------------------------------------------------------------
// generator

func genHeads(r *hx.Rng, all []string) (map[string]eid, []string) {
	m := map[string]eid{}
	baseT := int64(r.Intn(4))
	for _, n := range all {
		var e eid
		switch r.Intn(10) {
		case 0:
			e = eid{-1, -1}
		case 1, 2, 3:
			e = eid{baseT, int64(r.Intn(4))}
		case 4, 5:
			e = eid{baseT + int64(r.Intn(2)), int64(r.Intn(6))}
		case 6:
			e = eid{baseT - 1, int64(5 + r.Intn(20))} // older term, longer log
		default:
			e = eid{baseT, int64(2 + r.Intn(3))}
		}
		if e.term < 0 {
			e = eid{-1, -1}
		}
		m[n] = e
	}
	return m, all
}

func shuffle(r *hx.Rng, l []string) []string {
	res := append([]string{}, l...)
	for i := len(res) - 1; i > 0; i-- {
		j := r.Intn(i + 1)
		res[i], res[j] = res[j], res[i]
	}
	return res
}

// genRound: succeed=true forces a round that elects a leader (majority of ok answers, BecomeLeader ok)
func genRound(r *hx.Rng, ens, rem []string, succeed bool) round {
	all := append(append([]string{}, ens...), rem...)
	ord := shuffle(r, all)
	maj := len(all)/2 + 1
	nOK := maj + r.Intn(len(all)-maj+1)
	if !succeed && r.Chance(50) {
		nOK = r.Intn(maj)
	}
	okSet := map[string]bool{}
	for _, n := range shuffle(r, all)[:nOK] {
		okSet[n] = true
	}
	rd := round{blOK: succeed || r.Chance(40), refence: map[string]bool{}}
	// bias: removed nodes late and with an ok answer (the O-7 shape), errors sometimes early, sometimes late
	if len(rem) > 0 && r.Chance(50) {
		var front, back []string
		for _, n := range ord {
			if contains(rem, n) {
				back = append(back, n)
			} else {
				front = append(front, n)
			}
		}
		ord = append(front, back...)
		for _, n := range rem {
			if nOK > 0 {
				okSet[n] = true
			}
		}
		// keep a majority of ok if required
		cnt := 0
		for _, n := range all {
			if okSet[n] {
				cnt++
			}
		}
		for _, n := range ens {
			if succeed && cnt < maj && !okSet[n] {
				okSet[n] = true
				cnt++
			}
		}
	}
	timerAt := -1
	switch r.Intn(4) {
	case 0:
		timerAt = maj + r.Intn(len(all)-maj+1)
	case 1:
		timerAt = r.Intn(len(all) + 1)
	}
	for i, n := range ord {
		if i == timerAt {
			rd.arrivals = append(rd.arrivals, arrival{timer: true})
		}
		rd.arrivals = append(rd.arrivals, arrival{node: n, ok: okSet[n]})
	}
	if timerAt == len(ord) {
		rd.arrivals = append(rd.arrivals, arrival{timer: true})
	}
	for _, n := range ens {
		if r.Chance(25) {
			rd.refence[n] = false
			rd.refOrder = append(rd.refOrder, n)
		}
	}
	return rd
}

var gates = []string{"s1pre", "s1post", "nt0", "nt1", "nt2", "nt3", "blpre", "blpost", "s2pre", "s2post", "end"}

func genScript(r *hx.Rng) *script {
	sc := &script{prov: "mem"}
	if r.Chance(30) {
		sc.prov = "file"
	}
	nEns := 3 + r.Intn(3)
	nRem := 0
	if r.Chance(55) {
		nRem = 1 + r.Intn(2)
	}
	ids := shuffle(r, []string{"1", "2", "3", "4", "5", "6", "7", "8"})
	sc.ens = ids[:nEns]
	sc.rem = ids[nEns : nEns+nRem]
	sc.t0 = int64(r.Intn(6)) - 1
	all := append(append([]string{}, sc.ens...), sc.rem...)
	sc.heads, sc.hord = genHeads(r, all)
	nInc := 1
	if r.Chance(55) {
		nInc = 2 + r.Intn(2)
	}
	rem := sc.rem
	for i := 0; i < nInc; i++ {
		var inc incScript
		lastInc := i == nInc-1
		crash := !lastInc || r.Chance(20)
		nFail := 0
		if r.Chance(25) {
			nFail = 1
		}
		for k := 0; k < nFail; k++ {
			inc.rounds = append(inc.rounds, genRound(r, sc.ens, rem, false))
			// a failed round may still have succeeded by chance; the conductor follows what the controller does
		}
		inc.rounds = append(inc.rounds, genRound(r, sc.ens, rem, true))
		inc.gate = "none"
		if crash {
			inc.gate = hx.Pick(r, gates)
		}
		sc.incs = append(sc.incs, inc)
		if inc.gate == "none" || inc.gate == "end" || inc.gate == "s2post" {
			rem = nil // a completed election clears the removed nodes
		}
	}
	return sc
}

// ---------------------------------------------------------------------------------------------------------------

func main() {
	child := flag.String("fstore-child", "", "internal: run the file provider Store on this path under RLIMIT_FSIZE")
	cut := flag.Uint64("fstore-cut", 0, "internal: RLIMIT_FSIZE for -fstore-child")
	sfc := flag.String("sf-child", "", "internal: run one coordinator process of an sfault case (spec)")
	f := hx.ParseFlags()
	if *child != "" {
		fstoreChild(*child, *cut, 8)
		return
	}
	if *sfc != "" {
		sfChild(decodeSfSpec(*sfc))
		return
	}
	slog.SetDefault(slog.New(gateHandler{}))
	o := hx.NewOut(f.OutDir)
	defer o.Close()
	r := hx.NewRng(f.Seed)
	tmpRoot := os.Getenv("VERIF_TMP")
	if tmpRoot == "" {
		tmpRoot = "/var/tmp"
	}
	tmp, err := os.MkdirTemp(tmpRoot, "coord-")
	hx.Must(err)
	defer os.RemoveAll(tmp)

	type job struct {
		kind  string
		sc    *script
		resp  map[string]eid
		ord   []string
		cut   uint64
		full  bool
		t0    int64
		sf    sfJob
		kind2 string // swapf: which RPC fails
	}
	var jobs []job
	addLine := func(line string) {
		t := strings.Fields(line)
		if len(t) < 3 {
			return
		}
		switch t[0] {
		case "sel":
			m, ord := parseResp(t[2])
			jobs = append(jobs, job{kind: "sel", resp: m, ord: ord})
		case "elect":
			if len(t) >= 8 {
				jobs = append(jobs, job{kind: "elect", sc: parseScript(t[2:8])})
			}
		case "fstore":
			c, _ := strconv.ParseUint(t[2], 10, 64)
			jobs = append(jobs, job{kind: "fstore", cut: c})
		case "swapf":
			if len(t) >= 4 {
				t0, _ := strconv.ParseInt(t[2], 10, 64)
				jobs = append(jobs, job{kind: "swapf", t0: t0, kind2: t[3]})
			}
		case "sfault":
			if len(t) >= 8 {
				j := sfJob{mode: t[2], exitAt: t[7]}
				j.t0, _ = strconv.ParseInt(t[3], 10, 64)
				j.failFrom, _ = strconv.Atoi(t[4])
				j.failCount, _ = strconv.Atoi(t[5])
				j.getFail, _ = strconv.Atoi(t[6])
				jobs = append(jobs, job{kind: "sfault", sf: j})
			}
		case "cfgrace":
			if len(t) >= 4 {
				t0, _ := strconv.ParseInt(t[3], 10, 64)
				jobs = append(jobs, job{kind: "cfgrace", full: t[2] == "full", t0: t0})
			}
		}
	}
	replay := hx.CorpusLines(f.Corpus)
	if f.Replay != "" {
		replay = hx.ReadLines(f.Replay)
	}
	for _, l := range replay {
		addLine(l)
	}
	if f.Replay == "" {
		// selectNewLeader: boundary maps first
		for _, s := range []string{"-", "1=-1:-1", "1=-1:-1,2=-1:-1", "1=0:0,2=0:0,3=0:0", "1=1:5,2=2:0", "1=2:0,2=1:5", "1=1:5,2=1:5,3=1:4",
			"1=3:7,2=3:8,3=3:8", "1=-2:9", "1=-1:-2"} {
			m, ord := parseResp(s)
			jobs = append(jobs, job{kind: "sel", resp: m, ord: ord})
		}
		for i := 0; i < f.N; i++ {
			k := 1 + r.Intn(7)
			ids := shuffle(r, []string{"1", "2", "3", "4", "5", "6", "7", "8"})[:k]
			m, ord := genHeads(r, ids)
			jobs = append(jobs, job{kind: "sel", resp: m, ord: ord})
		}
		for _, c := range []uint64{0, 1, 10, 60, 150, 100000} {
			jobs = append(jobs, job{kind: "fstore", cut: c})
		}
		for i := 0; i < f.N; i++ {
			jobs = append(jobs, job{kind: "elect", sc: genScript(r.Fork())})
		}
		for i := 0; i < 2+f.N/60; i++ {
			jobs = append(jobs, job{kind: "cfgrace", full: r.Bool(), t0: int64(r.Intn(9))})
		}
		for i := 0; i < 6+f.N/40; i++ {
			jobs = append(jobs, job{kind: "sfault", sf: genSfJob(r)})
		}
		for _, k := range swfKinds {
			jobs = append(jobs, job{kind: "swapf", t0: int64(r.Intn(7)), kind2: k})
		}
	}

	// election cases run concurrently (each is dominated by the 100 ms grace timer); results are recorded in job order
	type result struct {
		trace   []string
		viols   [][2]string
		stats   map[string]int
		skipped bool
	}
	results := make([]*result, len(jobs))
	sem := make(chan struct{}, 16)
	var wg sync.WaitGroup
	// sfault cases first, on their own: they fork child processes, and nothing else may have a file-provider Store in
	// flight meanwhile (see prepSfault)
	sfResults := make([]*sfResult, len(jobs))
	{
		type prep struct {
			dir, path string
			ok        bool
		}
		preps := map[int]prep{}
		for i, j := range jobs {
			if j.kind == "sfault" {
				d, p, ok := prepSfault(tmp, i, j.sf)
				preps[i] = prep{d, p, ok}
			}
		}
		var swg sync.WaitGroup
		for i, j := range jobs {
			if j.kind != "sfault" {
				continue
			}
			swg.Add(1)
			go func(i int, j job) {
				defer swg.Done()
				r := runSfault(preps[i].dir, preps[i].path, preps[i].ok, j.sf)
				sfResults[i] = &r
			}(i, j)
		}
		swg.Wait()
	}
	swfResults := make([]*swfResult, len(jobs))
	for i, j := range jobs {
		if j.kind == "sfault" {
			continue
		}
		if j.kind == "swapf" {
			wg.Add(1)
			sem <- struct{}{}
			go func(i int, j job) {
				defer wg.Done()
				defer func() { <-sem }()
				defer func() {
					if rec := recover(); rec != nil {
						swfResults[i] = &swfResult{summary: fmt.Sprintf("harness-panic:%v", rec)}
					}
				}()
				r := runSwapFail(int64(7000000+i), j.t0, j.kind2)
				swfResults[i] = &r
			}(i, j)
			continue
		}
		if j.kind == "cfgrace" {
			wg.Add(1)
			sem <- struct{}{}
			go func(i int, j job) {
				defer wg.Done()
				defer func() { <-sem }()
				c := &caseRun{shard: int64(5000000 + i), tmp: tmp, useLbl: true, stats: map[string]int{}}
				func() {
					defer func() {
						if rec := recover(); rec != nil {
							c.tok("X:harness-panic:%v", rec)
						}
					}()
					c.runCfgRace(j.full, j.t0)
				}()
				results[i] = &result{trace: c.trace, viols: c.viols, stats: c.stats, skipped: c.gateMissed}
			}(i, j)
			continue
		}
		if j.kind != "elect" {
			continue
		}
		wg.Add(1)
		sem <- struct{}{}
		go func(i int, j job) {
			defer wg.Done()
			defer func() { <-sem }()
			var c *caseRun
			retries := 0
			for attempt := 0; attempt < 4; attempt++ {
				c = &caseRun{sc: j.sc, shard: int64(1000 + i + attempt*1000000), tmp: tmp, useLbl: true, stats: map[string]int{}}
				func() {
					defer func() {
						if rec := recover(); rec != nil {
							c.tok("X:harness-panic:%v", rec)
						}
					}()
					c.run()
				}()
				if !c.unreliable {
					break
				}
				retries++
				time.Sleep(time.Duration(20*(attempt+1)) * time.Millisecond)
			}
			c.stats["schedule-retries"] += retries
			if c.unreliable {
				results[i] = &result{skipped: true, stats: c.stats}
				return
			}
			results[i] = &result{trace: c.trace, viols: c.viols, stats: c.stats}
		}(i, j)
	}
	wg.Wait()
	for i, j := range jobs {
		switch j.kind {
		case "sel":
			runSel(o, j.resp, j.ord)
		case "fstore":
			runFstore(o, tmp, i, j.cut)
		case "swapf":
			res := swfResults[i]
			in := fmt.Sprintf("%d %s", j.t0, j.kind2)
			o.Case("swapf", in, res.summary, in)
			for _, v := range res.viols {
				o.Violation(v[0], v[1])
			}
			o.Count("swapf:fail=" + j.kind2)
		case "sfault":
			res := sfResults[i]
			in := j.sf.String()
			o.Case("sfault", in, res.summary, in)
			for _, v := range res.viols {
				o.Violation(v[0], v[1])
			}
			o.Count("sfault:mode=" + j.sf.mode)
			o.Count(fmt.Sprintf("sfault:failed-stores=%d", j.sf.failCount))
			for k, n := range res.stats {
				o.CountN("sfault:"+k, n)
			}
		case "cfgrace":
			res := results[i]
			if res.skipped {
				o.Count("cfgrace:gate-not-reached")
				continue
			}
			mode := "bl"
			if j.full {
				mode = "full"
			}
			in := fmt.Sprintf("%s %d", mode, j.t0)
			o.Case("cfgrace", in, strings.Join(res.trace, " "), in)
			for _, v := range res.viols {
				o.Violation(v[0], v[1])
			}
			o.Count("cfgrace:" + mode)
			for _, t := range res.trace {
				if strings.HasPrefix(t, "X:stuck") || strings.HasPrefix(t, "X:unexpected") || strings.HasPrefix(t, "X:harness") {
					o.Count("cfgrace:" + t)
				}
			}
		case "elect":
			res := results[i]
			if res.skipped {
				// never ran with reliable timing (overloaded machine): not evaluated rather than evaluated wrongly
				o.Count("elect:skipped-unreliable-timing")
				continue
			}
			key := j.sc.String()
			o.Case("elect", j.sc.String(), strings.Join(res.trace, " "), key)
			for _, v := range res.viols {
				o.Violation(v[0], v[1])
			}
			for k, n := range res.stats {
				o.CountN("elect:"+k, n)
			}
			o.Count("elect:prov=" + j.sc.prov)
			o.Count(fmt.Sprintf("elect:ens=%d,rem=%d", len(j.sc.ens), len(j.sc.rem)))
			o.Count(fmt.Sprintf("elect:incarnations=%d", len(j.sc.incs)))
			for _, inc := range j.sc.incs {
				o.Count("elect:gate=" + inc.gate)
			}
			for _, t := range res.trace {
				if strings.HasPrefix(t, "X:stuck") || strings.HasPrefix(t, "X:unexpected") || strings.HasPrefix(t, "X:harness") {
					o.Count("elect:" + t)
				}
			}
		}
	}
	_ = constant.CodeInvalidTerm
}
