package main

// Scenario "lagging-leader": leader changes in which the elected node's DB is behind its log.
//
// A real FOLLOWER controller receives the entries 0..n of a generated log through Replicate, with advertised commit
// offsets that never exceed c (-1 <= c <= n-2): it has appended and acked everything but applied at most 0..c to its DB
// (the normal state of a follower: the commit offset travels with the NEXT append). The log holds plain puts, session
// creations (the put of the session key, id = offset), ephemeral puts, takeovers and session closes (the cleanup
// request). The follower is closed and a LEADER controller is started over the same WAL and DB: NewTerm + BecomeLeader,
// rf 1, or rf 2 with an in-process follower that acks every entry it is sent. Then, against the fold of the WHOLE log:
//
//	session:lost-after-leader-change          a session that exists per the log: its key or one of its records is missing,
//	                                          the new leader's session manager does not know it, or KeepAlive fails
//	session:resurrected-after-leader-change   a session closed in the log is known to the session manager / KeepAlive
//	                                          succeeds / its key or a record of it is back
//	session:never-expires-after-leader-change a session alive per the log (timeout 150-300 ms, no further heartbeat) is still
//	                                          there timeout + 5 s after the leader change
//	session:expired-before-full-timeout, session:shadow-mirror-broken, session-cleanup:* as everywhere else

import (
	"context"
	"fmt"
	"io"
	"sort"
	"strconv"
	"sync"
	"time"

	"google.golang.org/grpc/metadata"

	"github.com/oxia-db/oxia/proto"
	"github.com/oxia-db/oxia/server"

	"verif/harness/internal/hx"
)

// ---------------------------------------------------------------- in-process replicate streams

// srvStream is the server side of a Replicate stream, fed by the scenario.
type srvStream struct {
	ctx  context.Context
	reqs chan *proto.Append
	acks chan *proto.Ack
}

func newSrvStream(term int64) *srvStream {
	md := metadata.Pairs("shard-id", strconv.FormatInt(shard, 10), "namespace", "default", "term", strconv.FormatInt(term, 10))
	return &srvStream{ctx: metadata.NewIncomingContext(context.Background(), md), reqs: make(chan *proto.Append, 1024), acks: make(chan *proto.Ack, 1024)}
}
func (s *srvStream) Send(a *proto.Ack) error { s.acks <- a; return nil }
func (s *srvStream) Recv() (*proto.Append, error) {
	r, ok := <-s.reqs
	if !ok {
		return nil, io.EOF
	}
	return r, nil
}
func (s *srvStream) SetHeader(metadata.MD) error  { return nil }
func (s *srvStream) SendHeader(metadata.MD) error { return nil }
func (s *srvStream) SetTrailer(metadata.MD)       {}
func (s *srvStream) Context() context.Context     { return s.ctx }
func (s *srvStream) SendMsg(any) error            { return nil }
func (s *srvStream) RecvMsg(any) error            { return nil }

// ackingFollower is the client side of the stream a leader opens towards a follower: every entry is acked at once.
type ackingFollower struct {
	ctx  context.Context
	acks chan *proto.Ack
}

func (f *ackingFollower) Send(a *proto.Append) error {
	f.acks <- &proto.Ack{Offset: a.Entry.Offset}
	return nil
}
func (f *ackingFollower) Recv() (*proto.Ack, error) {
	select {
	case a := <-f.acks:
		return a, nil
	case <-f.ctx.Done():
		return nil, f.ctx.Err()
	}
}
func (f *ackingFollower) Header() (metadata.MD, error) { return nil, nil }
func (f *ackingFollower) Trailer() metadata.MD         { return nil }
func (f *ackingFollower) CloseSend() error             { return nil }
func (f *ackingFollower) Context() context.Context     { return f.ctx }
func (f *ackingFollower) SendMsg(any) error            { return nil }
func (f *ackingFollower) RecvMsg(any) error            { return nil }

type ackingProvider struct{ noFollowers }

func (ackingProvider) GetReplicateStream(ctx context.Context, _ string, _ string, _ int64, _ int64) (proto.OxiaLogReplication_ReplicateClient, error) {
	return &ackingFollower{ctx: ctx, acks: make(chan *proto.Ack, 4096)}, nil
}

// ---------------------------------------------------------------- the log and its fold

type lagLog struct {
	reqs    []*proto.WriteRequest
	owner   map[string]int64 // fold: key -> owning session (-1 = plain record)
	alive   map[int64]bool   // fold: sessions existing at the end of the log
	closed  map[int64]bool   // sessions created and closed in the log
	timeout time.Duration
}

func genLagLog(rng *hx.Rng, timeout time.Duration) *lagLog {
	l := &lagLog{owner: map[string]int64{}, alive: map[int64]bool{}, closed: map[int64]bool{}, timeout: timeout}
	sh := shard
	md, err := (&proto.SessionMetadata{TimeoutMs: uint32(timeout.Milliseconds()), Identity: "c"}).MarshalVT()
	hx.Must(err)
	add := func(w *proto.WriteRequest) { w.Shard = &sh; l.reqs = append(l.reqs, w) }
	keys := []string{"a", "b", "a/b", "x y", "k%2F", "z/", "q?r"}
	aliveIds := func() []int64 {
		var ids []int64
		for id := range l.alive {
			ids = append(ids, id)
		}
		sort.Slice(ids, func(i, j int) bool { return ids[i] < ids[j] })
		return ids
	}
	create := func() {
		id := int64(len(l.reqs))
		add(&proto.WriteRequest{Puts: []*proto.PutRequest{{Key: server.SessionKey(server.SessionId(id)), Value: md}}})
		l.alive[id] = true
	}
	add(&proto.WriteRequest{Puts: []*proto.PutRequest{{Key: "plain", Value: []byte("p")}}})
	l.owner["plain"] = -1
	for i, n := 0, 5+rng.Intn(8); i < n; i++ {
		ids := aliveIds()
		switch x := rng.Intn(10); {
		case x < 3 || len(ids) == 0:
			create()
		case x < 7: // ephemeral put (possibly a takeover)
			id := hx.Pick(rng, ids)
			k := hx.Pick(rng, keys)
			add(&proto.WriteRequest{Puts: []*proto.PutRequest{{Key: k, Value: []byte("e"), SessionId: &id}}})
			l.owner[k] = id
		case x < 8: // plain put (possibly a takeover)
			k := hx.Pick(rng, keys)
			add(&proto.WriteRequest{Puts: []*proto.PutRequest{{Key: k, Value: []byte("p")}}})
			l.owner[k] = -1
		default: // the session ends: session.delete()'s request
			id := hx.Pick(rng, ids)
			sk := server.SessionKey(server.SessionId(id))
			w := &proto.WriteRequest{}
			var ks []string
			for k, o := range l.owner {
				if o == id {
					ks = append(ks, k)
				}
			}
			sort.Strings(ks)
			for _, k := range ks {
				w.Deletes = append(w.Deletes, &proto.DeleteRequest{Key: k})
				delete(l.owner, k)
			}
			w.Deletes = append(w.Deletes, &proto.DeleteRequest{Key: sk})
			w.DeleteRanges = []*proto.DeleteRangeRequest{{StartInclusive: sk + "/", EndExclusive: sk + "//"}}
			add(w)
			delete(l.alive, id)
			l.closed[id] = true
		}
	}
	// the tail always holds a creation followed by an ephemeral put, and (when possible) a close
	create()
	last := int64(len(l.reqs) - 1)
	add(&proto.WriteRequest{Puts: []*proto.PutRequest{{Key: "tail", Value: []byte("e"), SessionId: &last}}})
	l.owner["tail"] = last
	return l
}

// feedAndElect: a real follower controller over the node's WAL and DB receives reqs as entries 0..n-1 of term 1 through
// Replicate, with advertised commit offsets min(i-1, c); it is closed and the node is elected leader of term 2 (NewTerm +
// BecomeLeader; rf 2: an in-process follower that was at (1, c) and acks everything). Returns the time BecomeLeader started.
func feedAndElect(n *node, reqs []*proto.WriteRequest, c int64, rf uint32) time.Time {
	// --- term 1: follower
	fc, err := server.NewFollowerController(server.Config{NotificationsRetentionTime: time.Hour}, "default", shard, n.wf, n.kvf)
	hx.Must(err)
	_, err = fc.NewTerm(&proto.NewTermRequest{Shard: shard, Term: 1})
	hx.Must(err)
	_, err = fc.Truncate(&proto.TruncateRequest{Shard: shard, Term: 1, HeadEntryId: &proto.EntryId{Term: 1, Offset: 0}})
	hx.Must(err)
	stream := newSrvStream(1)
	done := make(chan error, 1)
	go func() { done <- fc.Replicate(stream) }()
	for i, w := range reqs {
		value, err := (&proto.LogEntryValue{Value: &proto.LogEntryValue_Requests{Requests: &proto.WriteRequests{Writes: []*proto.WriteRequest{w}}}}).MarshalVT()
		hx.Must(err)
		co := int64(i) - 1
		if co > c {
			co = c
		}
		stream.reqs <- &proto.Append{Term: 1, Entry: &proto.LogEntry{Term: 1, Offset: int64(i), Value: value, Timestamp: uint64(time.Now().UnixMilli())}, CommitOffset: co}
		select {
		case a := <-stream.acks:
			if a.Offset != int64(i) {
				panic(fmt.Sprintf("follower acked %d for entry %d", a.Offset, i))
			}
		case err := <-done:
			panic(fmt.Sprintf("Replicate ended: %v", err))
		case <-time.After(10 * time.Second):
			panic("follower did not ack")
		}
	}
	hx.Must(fc.Close())
	close(stream.reqs)

	// --- term 2: the same node is elected
	n.term = 1
	var prov server.ReplicationRpcProvider = noFollowers{}
	fmap := map[string]*proto.EntryId{}
	if rf == 2 {
		prov = ackingProvider{}
		fmap["f1"] = &proto.EntryId{Term: 1, Offset: c} // the other replica is no further than the commit offset
		if c < 0 {
			fmap["f1"] = server.InvalidEntryId
		}
	}
	n.term++
	lc, err := server.NewLeaderController(server.Config{NotificationsRetentionTime: time.Hour}, "default", shard, prov, n.wf, n.kvf)
	hx.Must(err)
	_, err = lc.NewTerm(&proto.NewTermRequest{Shard: shard, Term: n.term})
	hx.Must(err)
	b0 := time.Now()
	bl := make(chan error, 1)
	go func() {
		_, err := lc.BecomeLeader(context.Background(), &proto.BecomeLeaderRequest{Shard: shard, Term: n.term, ReplicationFactor: rf, FollowerMaps: fmap})
		bl <- err
	}()
	select {
	case err := <-bl:
		hx.Must(err)
	case <-time.After(15 * time.Second):
		panic("BecomeLeader did not return")
	}
	n.lc = lc
	return b0

}

// ---------------------------------------------------------------- the scenario

// variant = 1000 * (seed of the log) + selector 0..11 of the commit offset known to the follower (-1 .. n-2) and of rf (1, 2)
func runLagging(s scen, o *hx.Out, mu *sync.Mutex) {
	var sigs []string
	viol := func(sig, det string) {
		mu.Lock()
		defer mu.Unlock()
		o.Violation(sig, "scenario "+s.String()+": "+det)
		sigs = append(sigs, sig)
	}
	sel := s.variant % 1000 // 0..11: which commit offset the follower knew, and the replication factor
	rng := hx.NewRng(uint64(s.variant/1000) + 0x1a9)
	T := s.timeout
	l := genLagLog(rng, T)
	nEntries := int64(len(l.reqs))
	c := int64(sel)*(nEntries-1)/11 - 1 // -1 (empty DB) .. n-2 (one entry behind): the commit offset sent with entry i is at most i-1
	rf := uint32(1 + sel%2)

	n := newNodeDirs()
	defer n.close()

	b0 := feedAndElect(n, l.reqs, c, rf)
	lc := n.lc

	// --- against the fold of the whole log
	v := n.view()
	v.mirror(viol)
	known := server.VerifSessionIds(lc)
	var aliveIds, closedIds []int64
	for id := range l.alive {
		aliveIds = append(aliveIds, id)
	}
	for id := range l.closed {
		closedIds = append(closedIds, id)
	}
	sort.Slice(aliveIds, func(i, j int) bool { return aliveIds[i] < aliveIds[j] })
	sort.Slice(closedIds, func(i, j int) bool { return closedIds[i] < closedIds[j] })
	ctx := fmt.Sprintf("log of %d entries, follower knew commit offset %d, rf %d", nEntries, c, rf)
	armed := map[int64]time.Time{}
	for _, id := range aliveIds {
		var owned []string
		for k, ow := range l.owner {
			if ow == id {
				owned = append(owned, k)
			}
		}
		sort.Strings(owned)
		if _, ok := v.sessions[id]; !ok {
			viol("session:lost-after-leader-change", fmt.Sprintf("%s: session %d exists per the log, its key is not in the new leader's DB", ctx, id))
			continue
		}
		if got := v.owned(id); fmt.Sprint(got) != fmt.Sprint(owned) {
			viol("session:lost-after-leader-change", fmt.Sprintf("%s: session %d owns %q per the log, %q in the new leader's DB", ctx, id, owned, got))
		}
		if !inIds(known, id) {
			viol("session:lost-after-leader-change", fmt.Sprintf("%s: session %d (created at offset %d) is in the new leader's DB but its session manager does not know it: it can neither be kept alive nor expire", ctx, id, id))
		}
		if m, ok := server.VerifSessionInfo(lc)[id]; ok && (m.Timeout != T || m.Identity != "c") {
			viol("session:restored-with-foreign-metadata", fmt.Sprintf("%s: session %d was created with timeout %v identity %q, the new leader runs it with timeout %v identity %q", ctx, id, T, "c", m.Timeout, m.Identity))
		}
		hb := time.Now()
		if err := lc.KeepAlive(id); err != nil {
			if hb.Sub(b0) < T*6/10 {
				viol("session:lost-after-leader-change", fmt.Sprintf("%s: KeepAlive(%d) on the new leader %v after BecomeLeader started: %v", ctx, id, hb.Sub(b0), err))
			}
			armed[id] = b0
		} else {
			armed[id] = hb
		}
	}
	for _, id := range closedIds {
		if _, ok := v.sessions[id]; ok {
			viol("session:resurrected-after-leader-change", fmt.Sprintf("%s: session %d was closed in the log, its key is in the new leader's DB", ctx, id))
		}
		if got := v.owned(id); len(got) > 0 {
			viol("session:resurrected-after-leader-change", fmt.Sprintf("%s: session %d was closed in the log, records %q carry its id", ctx, id, got))
		}
		if inIds(known, id) {
			viol("session:resurrected-after-leader-change", fmt.Sprintf("%s: session %d was closed in the log (its close had not been applied when the node was elected) but the new leader's session manager has it", ctx, id))
		}
		if err := lc.KeepAlive(id); err == nil {
			viol("session:resurrected-after-leader-change", fmt.Sprintf("%s: KeepAlive(%d) succeeds for a session closed in the log", ctx, id))
		}
	}
	// --- no further heartbeats: every session of the log expires on the new leader, with its records
	for _, id := range aliveIds {
		if _, ok := v.sessions[id]; !ok {
			continue
		}
		gone, ok := n.waitGone(id, T+5*time.Second)
		if !ok {
			viol("session:never-expires-after-leader-change", fmt.Sprintf("%s: session %d (timeout %v, no heartbeat) is still there %v after the leader change; records carrying its id: %q", ctx, id, T, T+5*time.Second, n.view().owned(id)))
			continue
		}
		if gone.Sub(armed[id]) < T*6/10 {
			viol("session:expired-before-full-timeout", fmt.Sprintf("%s: session %d gone %v after it was armed last on the new leader, timeout %v", ctx, id, gone.Sub(armed[id]), T))
		}
	}
	after := n.view()
	after.mirror(viol)
	if r, ok := after.recs["plain"]; !ok || r.value != "p" {
		viol("session-cleanup:deleted-record-not-owned", fmt.Sprintf("%s: plain record is %s after the sessions expired", ctx, recS(r, ok)))
	}
	res := "ok"
	sort.Strings(sigs)
	if len(sigs) > 0 {
		res = "violations:" + fmt.Sprint(dedup(sigs))
	}
	mu.Lock()
	o.Case("sess", s.String(), res, s.String())
	o.Count("scenario:lagging-leader")
	o.Count(fmt.Sprintf("lagging-leader:rf=%d", rf))
	switch {
	case c < 0:
		o.Count("lagging-leader:db-empty")
	case c == nEntries-2:
		o.Count("lagging-leader:db-one-entry-behind")
	default:
		o.Count("lagging-leader:db-behind-log")
	}
	mu.Unlock()
}
