// harness sessions (property C14): the REAL leaderController + sessionManager + session goroutines of
// /repo/server, on a real WAL and a real Pebble DB, with session timeouts of 60-250 ms (verif export
// server.VerifCreateSession: createSession with a caller-chosen minimum timeout).
//
// There is no model leg (real timers): every scenario evaluates the specification directly on what the
// implementation did and reports stable signatures:
//
//	session:expired-before-full-timeout      a session disappeared less than 0.6 x timeout after the START of the
//	                                         last call that armed it (creation / accepted KeepAlive / BecomeLeader);
//	                                         the timer is armed no earlier than that start, so the real bound is 1.0
//	session:never-expired                    no expiry within timeout + 4 s without heartbeats
//	session:lost-across-leader-change        after NewTerm + BecomeLeader on a new controller over the same WAL/DB the
//	                                         session key, one of its records or its timer is missing / KeepAlive fails
//	session:dead-session-write-accepted      a put naming a closed / expired / never created session was not
//	                                         answered SESSION_DOES_NOT_EXIST
//	session:shadow-mirror-broken             a shadow key without matching ephemeral record, or an ephemeral record of a
//	                                         LIVE session without shadow key (full dump of the DB)
//	session-cleanup:deleted-record-not-owned the cleanup of a session deleted a record the session did not own when
//	                                         the cleanup's write was applied                                  (O-12)
//	session-cleanup:orphaned-record-of-dead-session   a record carrying the id of a session that no longer exists  (O-12)
//	session-cleanup:not-atomic-with-session  the end of a session (CloseSession or expiry) is not ONE log entry deleting
//	                                         every owned record, the session key and the shadow range (monitor on the
//	                                         leader's WAL), or a leader started from a log prefix that ends inside the
//	                                         cleanup finds the session alive without all its records / gone with some left
//	session-cleanup:other-record-touched / owned-record-survived (no interleaving involved) / session-key-survived
//	session:lost-after-leader-change / resurrected-after-leader-change / never-expires-after-leader-change   (lagging.go)
//	session:restored-with-foreign-metadata / expired-before-its-own-timeout-after-leader-change /
//	session:outlived-its-own-timeout-after-leader-change                                                   (multi.go)
//	session-cleanup:duplicate-cleanup-entry / session-cleanup:deleted-record-not-owned:after-session-removed   (dupclose.go)
//	session:leader-close-blocked-by-expiring-session   (watchdog of the leader-change scenario, see closeLeader)
//
// The O-12 schedules are forced, not raced: the kv.Factory handed to the controller is wrapped, and the key iterator
// that serves session.delete()'s ListBlock (range "__oxia/session/<id>/" .. "//") parks when it reaches its end
// until the scenario has applied other clients' writes; then the cleanup's WriteBlock runs.
//
// Case lines (cases.txt) are "<scenario> <parameters>", results the qualitative outcome (no measured times).
package main

import (
	"context"
	"errors"
	"fmt"
	"net/url"
	"os"
	"path/filepath"
	"sort"
	"strings"
	"sync"
	"time"

	"github.com/oxia-db/oxia/proto"
	"github.com/oxia-db/oxia/server"
	"github.com/oxia-db/oxia/server/kv"
	"github.com/oxia-db/oxia/server/wal"

	"verif/harness/internal/hx"
	"verif/harness/internal/kvsafe"
)

const sessionPrefix = "__oxia/session/"
const internalPrefix = "__oxia/"

// ---------------------------------------------------------------- gate on the end of the cleanup's List

type gate struct {
	mu      sync.Mutex
	armed   bool
	exclude map[string]bool // lower bounds that do not trigger the gate
	reached chan struct{}
	release chan struct{}
}

// armNext parks the next listing of a session's shadow range ("__oxia/session/<16 hex>/"), i.e. the next
// session.delete(), except those of the excluded sessions. Armed before the session is created, so that the gate
// cannot be missed however early the session expires.
func (g *gate) armNext(excluded ...int64) {
	g.mu.Lock()
	defer g.mu.Unlock()
	g.armed = true
	g.exclude = map[string]bool{}
	for _, id := range excluded {
		g.exclude[server.SessionKey(server.SessionId(id))+"/"] = true
	}
	g.reached = make(chan struct{})
	g.release = make(chan struct{})
}

// take returns the channels if the range scan [lower, ..) is a session's shadow range and the gate is armed (one shot).
func (g *gate) take(lower string) (reached, release chan struct{}) {
	g.mu.Lock()
	defer g.mu.Unlock()
	if !g.armed || g.exclude[lower] || len(lower) != len(sessionPrefix)+17 || !strings.HasPrefix(lower, sessionPrefix) || !strings.HasSuffix(lower, "/") {
		return nil, nil
	}
	g.armed = false
	return g.reached, g.release
}

type gateFactory struct {
	inner kv.Factory
	g     *gate
	mu    sync.Mutex
	cur   kv.KV
}

func (f *gateFactory) NewKV(ns string, shard int64) (kv.KV, error) {
	k, err := f.inner.NewKV(ns, shard)
	if err != nil {
		return nil, err
	}
	f.mu.Lock()
	f.cur = k
	f.mu.Unlock()
	return &gateKV{KV: k, g: f.g}, nil
}
func (f *gateFactory) NewSnapshotLoader(ns string, shard int64) (kv.SnapshotLoader, error) {
	return f.inner.NewSnapshotLoader(ns, shard)
}
func (f *gateFactory) Close() error { return f.inner.Close() }
func (f *gateFactory) raw() kv.KV {
	f.mu.Lock()
	defer f.mu.Unlock()
	return f.cur
}

type gateKV struct {
	kv.KV
	g *gate
}

func (k *gateKV) KeyRangeScan(lower, upper string) (kv.KeyIterator, error) {
	it, err := k.KV.KeyRangeScan(lower, upper)
	if err != nil {
		return nil, err
	}
	if reached, release := k.g.take(lower); reached != nil {
		return &gateIter{KeyIterator: it, reached: reached, release: release}, nil
	}
	return it, nil
}

type gateIter struct {
	kv.KeyIterator
	reached, release chan struct{}
	passed           bool
}

// Valid parks once, when the listing has seen every key of the range (its result is fixed at that point:
// the Pebble iterator is a snapshot taken when it was created).
func (it *gateIter) Valid() bool {
	v := it.KeyIterator.Valid()
	if !v && !it.passed {
		it.passed = true
		close(it.reached)
		<-it.release
	}
	return v
}

// ---------------------------------------------------------------- recording wrapper around the WAL factory

// recWalFactory records every entry the controller appends to its WAL (the replicated log: what a follower, or the
// next leader, will apply). It changes nothing.
type recWalFactory struct {
	inner   wal.Factory
	mu      sync.Mutex
	entries []*proto.LogEntry
}

func (f *recWalFactory) NewWal(ns string, sh int64, p wal.CommitOffsetProvider) (wal.Wal, error) {
	w, err := f.inner.NewWal(ns, sh, p)
	if err != nil {
		return nil, err
	}
	return &recWal{Wal: w, f: f}, nil
}
func (f *recWalFactory) Close() error { return f.inner.Close() }
func (f *recWalFactory) record(e *proto.LogEntry) {
	c := &proto.LogEntry{Term: e.Term, Offset: e.Offset, Timestamp: e.Timestamp, Value: append([]byte(nil), e.Value...)}
	f.mu.Lock()
	f.entries = append(f.entries, c)
	f.mu.Unlock()
}
func (f *recWalFactory) count() int {
	f.mu.Lock()
	defer f.mu.Unlock()
	return len(f.entries)
}
func (f *recWalFactory) upTo(n int) []*proto.LogEntry {
	f.mu.Lock()
	defer f.mu.Unlock()
	return append([]*proto.LogEntry(nil), f.entries[:n]...)
}

type recWal struct {
	wal.Wal
	f *recWalFactory
}

func (w *recWal) Append(e *proto.LogEntry) error      { w.f.record(e); return w.Wal.Append(e) }
func (w *recWal) AppendAsync(e *proto.LogEntry) error { w.f.record(e); return w.Wal.AppendAsync(e) }
func (w *recWal) AppendAndSync(e *proto.LogEntry, cb func(error)) {
	w.f.record(e)
	w.Wal.AppendAndSync(e, cb)
}

func writesOf(e *proto.LogEntry) []*proto.WriteRequest {
	v := &proto.LogEntryValue{}
	if err := v.UnmarshalVT(e.Value); err != nil {
		return nil
	}
	return v.GetRequests().GetWrites()
}

type noCommit struct{}

func (noCommit) CommitOffset() int64 { return -1 }

// ---------------------------------------------------------------- one node

type noFollowers struct{}

func (noFollowers) Close() error { return nil }
func (noFollowers) GetReplicateStream(context.Context, string, string, int64, int64) (proto.OxiaLogReplication_ReplicateClient, error) {
	return nil, errors.New("no followers in this harness")
}
func (noFollowers) SendSnapshot(context.Context, string, string, int64, int64) (proto.OxiaLogReplication_SendSnapshotClient, error) {
	return nil, errors.New("no followers in this harness")
}
func (noFollowers) Truncate(string, *proto.TruncateRequest) (*proto.TruncateResponse, error) {
	return nil, errors.New("no followers in this harness")
}

const shard int64 = 1

type node struct {
	dir  string
	g    *gate
	kvf  *gateFactory
	wf   *recWalFactory
	lc   server.LeaderController
	term int64
}

var nodeCounter int
var nodeMu sync.Mutex

func newNode() *node {
	n := newNodeDirs()
	n.lead()
	return n
}

// newNodeFromLog: a node whose WAL holds exactly the given entries and whose DB is empty, then NewTerm (a higher
// term) + BecomeLeader: what a replica that received this prefix of the log does when it is elected.
func newNodeFromLog(entries []*proto.LogEntry) *node {
	n := newNodeDirs()
	w, err := n.wf.inner.NewWal("default", shard, noCommit{})
	hx.Must(err)
	for _, e := range entries {
		hx.Must(w.Append(e))
		if e.Term > n.term {
			n.term = e.Term
		}
	}
	hx.Must(w.Close())
	n.lead()
	return n
}

func newNodeDirs() *node {
	base := os.Getenv("VERIF_TMP")
	if base == "" {
		base = "/var/tmp"
	}
	nodeMu.Lock()
	nodeCounter++
	dir := filepath.Join(base, fmt.Sprintf("h_sessions_%d_%d", os.Getpid(), nodeCounter))
	nodeMu.Unlock()
	hx.Must(os.MkdirAll(dir, 0o755))
	inner, err := kvsafe.New(&kv.FactoryOptions{DataDir: filepath.Join(dir, "db"), CacheSizeMB: 1})
	hx.Must(err)
	n := &node{dir: dir, g: &gate{}}
	n.kvf = &gateFactory{inner: inner, g: n.g}
	n.wf = &recWalFactory{inner: wal.NewWalFactory(&wal.FactoryOptions{BaseWalDir: filepath.Join(dir, "wal"), Retention: time.Hour, SegmentSize: 1 << 20, SyncData: false})}
	return n
}

// lead: a new leader controller over the node's WAL and DB, NewTerm + BecomeLeader (rf 1).
func (n *node) lead() {
	n.term++
	lc, err := server.NewLeaderController(server.Config{NotificationsRetentionTime: time.Hour}, "default", shard, noFollowers{}, n.wf, n.kvf)
	hx.Must(err)
	_, err = lc.NewTerm(&proto.NewTermRequest{Shard: shard, Term: n.term})
	hx.Must(err)
	_, err = lc.BecomeLeader(context.Background(), &proto.BecomeLeaderRequest{Shard: shard, Term: n.term, ReplicationFactor: 1})
	hx.Must(err)
	n.lc = lc
}

// closeLeader runs lc.Close() under a watchdog: leaderController.Close()/NewTerm() hold the controller's lock while
// sessionManager.Close() waits for every session goroutine, and a session goroutine that is in its expiry branch
// needs that lock (WriteBlock) and the session manager's lock: if the two meet, Close never returns.
func (n *node) closeLeader(limit time.Duration) bool {
	done := make(chan struct{})
	lc := n.lc
	go func() {
		_ = lc.Close()
		close(done)
	}()
	select {
	case <-done:
		return true
	case <-time.After(limit):
		return false
	}
}

func (n *node) close() {
	if n.kvf == nil { // abandoned (wedged controller)
		_ = os.RemoveAll(n.dir)
		return
	}
	if n.lc != nil && !n.closeLeader(5*time.Second) {
		_ = os.RemoveAll(n.dir) // the controller is wedged: leave it behind
		return
	}
	_ = n.kvf.Close()
	_ = n.wf.Close()
	_ = os.RemoveAll(n.dir)
}

func (n *node) create(timeout time.Duration) (int64, time.Time) {
	t0 := time.Now()
	r, err := server.VerifCreateSession(n.lc, &proto.CreateSessionRequest{Shard: shard, SessionTimeoutMs: uint32(timeout.Milliseconds()), ClientIdentity: "c"}, 10*time.Millisecond)
	hx.Must(err)
	return r.SessionId, t0
}

func (n *node) put(key, value string, sess *int64) proto.Status {
	sh := shard
	p := &proto.PutRequest{Key: key, Value: []byte(value)}
	if sess != nil {
		v := *sess
		p.SessionId = &v
	}
	r, err := n.lc.WriteBlock(context.Background(), &proto.WriteRequest{Shard: &sh, Puts: []*proto.PutRequest{p}})
	hx.Must(err)
	return r.Puts[0].Status
}

func (n *node) putMany(keys []string, value string, sess *int64) {
	sh := shard
	req := &proto.WriteRequest{Shard: &sh}
	for _, k := range keys {
		p := &proto.PutRequest{Key: k, Value: []byte(value)}
		if sess != nil {
			v := *sess
			p.SessionId = &v
		}
		req.Puts = append(req.Puts, p)
	}
	r, err := n.lc.WriteBlock(context.Background(), req)
	hx.Must(err)
	for i, p := range r.Puts {
		if p.Status != proto.Status_OK {
			panic(fmt.Sprintf("put %q answered %v", keys[i], p.Status))
		}
	}
}

func (n *node) del(key string) proto.Status {
	sh := shard
	r, err := n.lc.WriteBlock(context.Background(), &proto.WriteRequest{Shard: &sh, Deletes: []*proto.DeleteRequest{{Key: key}}})
	hx.Must(err)
	return r.Deletes[0].Status
}

// ---------------------------------------------------------------- the DB as the specification sees it

type rec struct {
	value string
	ver   int64
	sess  *int64
}

type view struct {
	recs     map[string]rec      // user records
	shadows  map[string]struct{} // "<session id>\x00<key>"
	sessions map[int64]struct{}  // session keys present
	badKeys  []string            // keys below a session key that are not well-formed shadow keys
}

func (n *node) view() *view {
	k := n.kvf.raw()
	it, err := k.KeyIterator()
	hx.Must(err)
	defer it.Close()
	kvit := it.(kv.KeyValueIterator)
	v := &view{recs: map[string]rec{}, shadows: map[string]struct{}{}, sessions: map[int64]struct{}{}}
	for ok := it.SeekGE(""); ok; ok = it.Next() {
		key := it.Key()
		switch {
		case strings.HasPrefix(key, sessionPrefix):
			rest := key[len(sessionPrefix):]
			if i := strings.IndexByte(rest, '/'); i >= 0 {
				id, err := server.KeyToId(key[:len(sessionPrefix)+i])
				k2, err2 := url.PathUnescape(rest[i+1:])
				if err != nil || err2 != nil {
					v.badKeys = append(v.badKeys, key)
					continue
				}
				v.shadows[fmt.Sprintf("%d\x00%s", int64(id), k2)] = struct{}{}
			} else if id, err := server.KeyToId(key); err == nil {
				v.sessions[int64(id)] = struct{}{}
			}
		case strings.HasPrefix(key, internalPrefix):
		default:
			raw, err := kvit.Value()
			hx.Must(err)
			se := &proto.StorageEntry{}
			hx.Must(se.UnmarshalVT(raw))
			r := rec{value: string(se.Value), ver: se.VersionId}
			if se.SessionId != nil {
				s := *se.SessionId
				r.sess = &s
			}
			v.recs[key] = r
		}
	}
	return v
}

func (v *view) owned(id int64) []string {
	var ks []string
	for k, r := range v.recs {
		if r.sess != nil && *r.sess == id {
			ks = append(ks, k)
		}
	}
	sort.Strings(ks)
	return ks
}

// mirror evaluates the shadow-mirror specification on a dump; signatures as documented on top.
func (v *view) mirror(viol func(sig, det string)) {
	for _, k := range v.badKeys {
		viol("session:shadow-mirror-broken", "malformed key below a session key: "+hx.Hex([]byte(k)))
	}
	for sk := range v.shadows {
		var id int64
		var key string
		i := strings.IndexByte(sk, 0)
		fmt.Sscanf(sk[:i], "%d", &id)
		key = sk[i+1:]
		r, ok := v.recs[key]
		if !ok || r.sess == nil || *r.sess != id {
			viol("session:shadow-mirror-broken", fmt.Sprintf("shadow key of session %d for key %q but the record is %s", id, key, recS(r, ok)))
		}
	}
	for k, r := range v.recs {
		if r.sess == nil {
			continue
		}
		if _, alive := v.sessions[*r.sess]; !alive {
			viol("session-cleanup:orphaned-record-of-dead-session", fmt.Sprintf("record %q carries session id %d, which does not exist", k, *r.sess))
			continue
		}
		if _, ok := v.shadows[fmt.Sprintf("%d\x00%s", *r.sess, k)]; !ok {
			viol("session:shadow-mirror-broken", fmt.Sprintf("record %q of live session %d has no shadow key", k, *r.sess))
		}
	}
}

func recS(r rec, ok bool) string {
	if !ok {
		return "absent"
	}
	if r.sess == nil {
		return fmt.Sprintf("{value %q, version %d, no session}", r.value, r.ver)
	}
	return fmt.Sprintf("{value %q, version %d, session %d}", r.value, r.ver, *r.sess)
}

// cleanupExact evaluates "exactly the records the session owned when its cleanup was applied are removed, with
// the session key, and nothing else is touched" on the dumps taken just before and after the cleanup's write.
func cleanupExact(before, after *view, id int64, viol func(sig, det string)) {
	for k, r := range before.recs {
		r2, still := after.recs[k]
		ownedThen := r.sess != nil && *r.sess == id
		switch {
		case ownedThen && still:
			// written under the session after its keys were listed: it outlives the session
			viol("session-cleanup:orphaned-record-of-dead-session", fmt.Sprintf("record %q owned by session %d when its cleanup was applied is still there: %s", k, id, recS(r2, true)))
		case !ownedThen && !still:
			viol("session-cleanup:deleted-record-not-owned", fmt.Sprintf("the cleanup of session %d deleted %q = %s, which it did not own when the cleanup was applied", id, k, recS(r, true)))
		case !ownedThen && (r2.value != r.value || r2.ver != r.ver):
			viol("session-cleanup:other-record-touched", fmt.Sprintf("record %q changed from %s to %s", k, recS(r, true), recS(r2, true)))
		}
	}
	for k := range after.recs {
		if _, was := before.recs[k]; !was {
			viol("session-cleanup:other-record-touched", fmt.Sprintf("record %q appeared during the cleanup", k))
		}
	}
	if _, alive := after.sessions[id]; alive {
		viol("session-cleanup:session-key-survived", fmt.Sprintf("session %d still exists after its cleanup", id))
	}
	for s := range before.sessions {
		if _, ok := after.sessions[s]; !ok && s != id {
			viol("session-cleanup:other-record-touched", fmt.Sprintf("session %d disappeared during the cleanup of %d", s, id))
		}
	}
}

// sessionEnd is the structural monitor on the leader's log: [from, now) are the entries appended while session id was
// ended (CloseSession or expiry) and no client wrote. The end of a session has to be ONE entry that deletes every record
// the session owned, the session key and the shadow range; if it is not, every log prefix that ends at one of those
// entries is given to a real new leader (fresh DB, NewTerm + BecomeLeader), which must find the session alive with ALL
// its records or gone with NONE.
func (n *node) sessionEnd(id int64, from int, owned []string, replayAlways bool, viol func(sig, det string)) int {
	to := n.wf.count()
	all := n.wf.upTo(to)
	ents := all[from:]
	sk := server.SessionKey(server.SessionId(id))
	if len(ents) == 0 {
		return 0 // the cleanup ran before the window was opened (or not at all: other verdicts)
	}
	ok := len(ents) == 1
	if ok {
		ws := writesOf(ents[0])
		ok = len(ws) == 1
		if ok {
			dels := map[string]bool{}
			for _, d := range ws[0].Deletes {
				dels[d.Key] = true
			}
			hasRange := false
			for _, r := range ws[0].DeleteRanges {
				if r.StartInclusive == sk+"/" && r.EndExclusive == sk+"//" {
					hasRange = true
				}
			}
			missing := 0
			for _, k := range owned {
				if !dels[k] {
					missing++
				}
			}
			if !dels[sk] || !hasRange || missing > 0 {
				ok = false
				viol("session-cleanup:not-atomic-with-session", fmt.Sprintf("the log entry that ends session %d (offset %d): deletes the session key: %v, deletes the shadow range: %v, owned records it does not delete: %d of %d",
					id, ents[0].Offset, dels[sk], hasRange, missing, len(owned)))
			}
		}
	}
	if len(ents) > 1 {
		var desc []string
		for _, e := range ents {
			nd, hasKey := 0, false
			for _, w := range writesOf(e) {
				nd += len(w.Deletes)
				for _, d := range w.Deletes {
					if d.Key == sk {
						hasKey = true
					}
				}
			}
			desc = append(desc, fmt.Sprintf("offset %d: %d deletes, session key: %v", e.Offset, nd, hasKey))
		}
		viol("session-cleanup:not-atomic-with-session", fmt.Sprintf("the end of session %d (owning %d records) was written as %d log entries instead of one [%s]", id, len(owned), len(ents), strings.Join(desc, "; ")))
	}
	if ok && !replayAlways {
		return len(ents)
	}
	for i := range ents {
		r := newNodeFromLog(all[:from+i+1])
		v := r.view()
		_, alive := v.sessions[id]
		armed := inIds(server.VerifSessionIds(r.lc), id)
		present := 0
		for _, k := range owned {
			if rc, ok := v.recs[k]; ok && rc.sess != nil && *rc.sess == id {
				present++
			}
		}
		if (alive && present != len(owned)) || (!alive && present != 0) || alive != armed {
			viol("session-cleanup:not-atomic-with-session", fmt.Sprintf("a leader elected on the log prefix ending at offset %d (entry %d of %d written by the end of session %d) finds the session key present: %v, the session armed in its session manager: %v, and %d of the %d records the session owned",
				ents[i].Offset, i+1, len(ents), id, alive, armed, present, len(owned)))
		}
		r.close()
	}
	return len(ents)
}

// waitGone polls until the session key has left the DB; returns the time it was first seen gone.
func (n *node) waitGone(id int64, limit time.Duration) (time.Time, bool) {
	deadline := time.Now().Add(limit)
	for time.Now().Before(deadline) {
		v := n.view()
		if _, ok := v.sessions[id]; !ok {
			return time.Now(), true
		}
		time.Sleep(2 * time.Millisecond)
	}
	return time.Time{}, false
}

func inIds(ids []int64, id int64) bool {
	for _, x := range ids {
		if x == id {
			return true
		}
	}
	return false
}

// ---------------------------------------------------------------- scenarios

type scen struct {
	name    string
	timeout time.Duration
	variant int
}

func (s scen) String() string { return fmt.Sprintf("%s timeout=%dms variant=%d", s.name, s.timeout.Milliseconds(), s.variant) }

var keysPool = []string{"a", "b", "a/b", "a/b/c", "x y", "k%2F", "\xc3\xa9", "z/", "-", "q?r"}

func runScen(s scen, o *hx.Out, mu *sync.Mutex) {
	var sigs []string
	viol := func(sig, det string) {
		mu.Lock()
		defer mu.Unlock()
		o.Violation(sig, "scenario "+s.String()+": "+det)
		sigs = append(sigs, sig)
	}
	n := newNode()
	defer n.close()
	T := s.timeout
	early := func(what string, gone time.Time, armStart time.Time) {
		if gone.Sub(armStart) < T*6/10 {
			viol("session:expired-before-full-timeout", fmt.Sprintf("%s: session gone %v after the start of the call that armed it last, timeout %v", what, gone.Sub(armStart), T))
		}
	}
	k1, k2, k3 := keysPool[s.variant%len(keysPool)], keysPool[(s.variant+3)%len(keysPool)], keysPool[(s.variant+5)%len(keysPool)]
	res := "ok"
	switch s.name {
	case "expiry":
		// no heartbeats at all: the session and exactly its records go, not before the timeout
		n.put(k3, "plain", nil)
		id, t0 := n.create(T)
		n.put(k1, "e1", &id)
		n.put(k2, "e2", &id)
		pre := n.view()
		pre.mirror(viol)
		from := n.wf.count()
		gone, ok := n.waitGone(id, T+4*time.Second)
		if !ok {
			viol("session:never-expired", fmt.Sprintf("session %d (timeout %v) still there after %v without heartbeats", id, T, T+4*time.Second))
			break
		}
		early("no heartbeats", gone, t0)
		n.sessionEnd(id, from, pre.owned(id), false, viol)
		v := n.view()
		v.mirror(viol)
		if len(v.owned(id)) > 0 {
			viol("session-cleanup:owned-record-survived", fmt.Sprintf("records %q of expired session %d", v.owned(id), id))
		}
		if r, ok := v.recs[k3]; !ok || r.value != "plain" {
			viol("session-cleanup:deleted-record-not-owned", fmt.Sprintf("plain record %q is %s after the expiry of session %d", k3, recS(r, ok), id))
		}
		if st := n.put(k1, "late", &id); st != proto.Status_SESSION_DOES_NOT_EXIST {
			viol("session:dead-session-write-accepted", fmt.Sprintf("put under expired session %d answered %v", id, st))
		}
	case "heartbeats":
		// heartbeats every T/5 for 3T keep the session; after the last one it lives at least a full timeout
		id, t0 := n.create(T)
		n.put(k1, "e1", &id)
		last := t0
		stop := time.Now().Add(3 * T)
		expiredEarly := false
		for time.Now().Before(stop) {
			time.Sleep(T / 5)
			hb := time.Now()
			if err := n.lc.KeepAlive(id); err != nil {
				// only legitimate if more than a timeout passed since the previous arming (a stalled machine)
				early("KeepAlive failed ("+err.Error()+")", hb, last)
				expiredEarly = true
				break
			}
			last = hb
		}
		if expiredEarly {
			res = "stalled"
			break
		}
		gone, ok := n.waitGone(id, T+4*time.Second)
		if !ok {
			viol("session:never-expired", fmt.Sprintf("session %d (timeout %v) still there %v after the last heartbeat", id, T, T+4*time.Second))
			break
		}
		early("after heartbeats", gone, last)
		n.view().mirror(viol)
	case "leader-change":
		// the session idles on the old leader, a new controller takes over the same WAL/DB: session and records
		// are there, KeepAlive works, and the timeout starts afresh at BecomeLeader
		id, _ := n.create(T)
		n.put(k1, "e1", &id)
		n.put(k2, "plain", nil)
		time.Sleep(T * time.Duration(2+s.variant%6) / 10) // 0.2T .. 0.7T idle
		if !n.closeLeader(5 * time.Second) {
			viol("session:leader-close-blocked-by-expiring-session", fmt.Sprintf("leaderController.Close() did not return within 5 s while session %d (timeout %v) was idle", id, T))
			n.lc = nil
			break
		}
		b0 := time.Now()
		n.lead()
		b1 := time.Now()
		v := n.view()
		_, alive := v.sessions[id]
		r, ok := v.recs[k1]
		switch {
		case !alive:
			viol("session:lost-across-leader-change", fmt.Sprintf("session key of %d missing after the leader change", id))
		case !ok || r.sess == nil || *r.sess != id:
			viol("session:lost-across-leader-change", fmt.Sprintf("ephemeral record %q is %s after the leader change", k1, recS(r, ok)))
		case !inIds(server.VerifSessionIds(n.lc), id):
			viol("session:lost-across-leader-change", fmt.Sprintf("session %d is in the DB but the new leader's session manager does not know it (it would never expire)", id))
		}
		if m, ok := server.VerifSessionInfo(n.lc)[id]; ok && (m.Timeout != T || m.Identity != "c") {
			viol("session:restored-with-foreign-metadata", fmt.Sprintf("session %d was created with timeout %v identity %q, the new leader runs it with timeout %v identity %q", id, T, "c", m.Timeout, m.Identity))
		}
		v.mirror(viol)
		arm := b0
		if s.variant%2 == 0 {
			hb := time.Now()
			if err := n.lc.KeepAlive(id); err != nil {
				if hb.Sub(b0) < T*6/10 {
					viol("session:lost-across-leader-change", fmt.Sprintf("KeepAlive(%d) on the new leader: %v (%v after BecomeLeader started)", id, err, hb.Sub(b0)))
				}
			} else {
				arm = hb
			}
		}
		if st := n.put(k3, "e3", &id); st != proto.Status_OK && time.Since(b0) < T*6/10 {
			viol("session:lost-across-leader-change", fmt.Sprintf("put under session %d on the new leader answered %v", id, st))
		}
		gone, ok2 := n.waitGone(id, T+4*time.Second)
		if !ok2 {
			viol("session:never-expired", fmt.Sprintf("session %d (timeout %v) never expired on the new leader", id, T))
			break
		}
		early(fmt.Sprintf("after leader change (BecomeLeader took %v)", b1.Sub(b0)), gone, arm)
		v = n.view()
		v.mirror(viol)
		if r, ok := v.recs[k2]; !ok || r.value != "plain" {
			viol("session-cleanup:deleted-record-not-owned", fmt.Sprintf("plain record %q is %s after the expiry", k2, recS(r, ok)))
		}
	case "dead-write":
		id, _ := n.create(10 * time.Second)
		n.put(k1, "e1", &id)
		_, err := n.lc.CloseSession(&proto.CloseSessionRequest{Shard: shard, SessionId: id})
		hx.Must(err)
		never := id + 1000
		for _, sid := range []int64{id, never} {
			sid := sid
			if st := n.put(k2, "x", &sid); st != proto.Status_SESSION_DOES_NOT_EXIST {
				viol("session:dead-session-write-accepted", fmt.Sprintf("put under dead session %d answered %v", sid, st))
			}
		}
		v := n.view()
		v.mirror(viol)
		if _, ok := v.recs[k2]; ok {
			viol("session:dead-session-write-accepted", fmt.Sprintf("record %q exists after rejected puts", k2))
		}
		if _, ok := v.recs[k1]; ok {
			viol("session-cleanup:owned-record-survived", fmt.Sprintf("record %q of closed session %d", k1, id))
		}
	case "takeover":
		a, _ := n.create(10 * time.Second)
		b, _ := n.create(10 * time.Second)
		steps := []*int64{&a, &b, nil, &b, &a, nil}
		for i := 0; i < 4; i++ {
			n.put(k1, fmt.Sprintf("v%d", i), steps[(s.variant+i)%len(steps)])
			n.view().mirror(viol)
		}
		n.put(k2, "w", &a)
		n.del(k1)
		n.view().mirror(viol)
		before := n.view()
		from := n.wf.count()
		_, err := n.lc.CloseSession(&proto.CloseSessionRequest{Shard: shard, SessionId: a})
		hx.Must(err)
		after := n.view()
		cleanupExact(before, after, a, viol)
		n.sessionEnd(a, from, before.owned(a), false, viol)
		after.mirror(viol)
	case "o12-close", "o12-expiry":
		// session.delete() parked between its List and its Write; variant: 0 a plain put takes over an owned key,
		// 1 the dying session's client writes a new key, 2 another session takes an owned key over,
		// 3 an owned key is deleted and re-created plain, 4 (control) unrelated writes only
		longT := 10 * time.Second
		if s.name == "o12-expiry" {
			longT = T
		}
		other, _ := n.create(10 * time.Second)
		n.put(k3, "bystander", &other)
		n.g.armNext(other)
		reached := n.g.reached
		release := n.g.release
		id, _ := n.create(longT)
		n.put(k1, "e1", &id)
		closed := make(chan error, 1)
		if s.name == "o12-close" {
			go func() {
				_, err := n.lc.CloseSession(&proto.CloseSessionRequest{Shard: shard, SessionId: id})
				closed <- err
			}()
		}
		select {
		case <-reached:
		case <-time.After(longT + 5*time.Second):
			panic("the cleanup's List never reached the gate")
		}
		switch s.variant % 5 {
		case 0:
			n.put(k1, "taken-over-plain", nil)
		case 1:
			if st := n.put(k2, "written-while-dying", &id); st != proto.Status_OK {
				res = "put-under-dying-session:" + st.String()
			}
		case 2:
			n.put(k1, "taken-over-by-other", &other)
		case 3:
			n.del(k1)
			n.put(k1, "recreated-plain", nil)
		case 4:
			n.put("unrelated", "u", nil)
			n.put("unrelated2", "u", &other)
		}
		before := n.view()
		from := n.wf.count()
		close(release)
		if s.name == "o12-close" {
			if err := <-closed; err != nil {
				panic(err)
			}
		} else if _, ok := n.waitGone(id, 3*time.Second); !ok {
			viol("session-cleanup:session-key-survived", fmt.Sprintf("session %d expired and its cleanup ran, but its key is still stored 3 s later", id))
		}
		after := n.view()
		cleanupExact(before, after, id, viol)
		after.mirror(viol)
		// the keys were listed before the interleaved writes: only "one entry, with session key and range" is checked here
		n.sessionEnd(id, from, nil, false, viol)
	case "big":
		// a session owning `variant` records ends (even sizes and every size >= 999 by CloseSession, the others and the
		// dedicated long-timeout case by expiry): one log entry, and the prefix replay on it
		size := s.variant
		byExpiry := T > 0
		timeout := 30 * time.Second
		if byExpiry {
			timeout = T
		}
		n.putMany([]string{"big/plain-0", "zz-plain"}, "plain", nil)
		id, _ := n.create(timeout)
		for i := 0; i < size; i += 100 {
			var ks []string
			for j := i; j < size && j < i+100; j++ {
				ks = append(ks, fmt.Sprintf("big/%04d", j))
			}
			n.putMany(ks, "e", &id)
		}
		before := n.view()
		if len(before.owned(id)) != size {
			if byExpiry {
				res = "expired-while-filling" // a stalled machine: nothing to check
				break
			}
			panic(fmt.Sprintf("session owns %d records, %d expected", len(before.owned(id)), size))
		}
		from := n.wf.count()
		if byExpiry {
			if _, ok := n.waitGone(id, timeout+5*time.Second); !ok {
				viol("session:never-expired", fmt.Sprintf("session %d (timeout %v, %d records) never expired", id, timeout, size))
				break
			}
		} else {
			_, err := n.lc.CloseSession(&proto.CloseSessionRequest{Shard: shard, SessionId: id})
			hx.Must(err)
		}
		after := n.view()
		cleanupExact(before, after, id, viol)
		after.mirror(viol)
		nent := n.sessionEnd(id, from, before.owned(id), true, viol)
		mu.Lock()
		o.Count(fmt.Sprintf("big:records=%d:entries=%d", size, nent))
		mu.Unlock()
	case "close-during-expiry":
		// DIAGNOSTIC (liveness, not part of C14's claim, no verdict): the expiring session's goroutine is parked in
		// delete(); Close() is called; the goroutine is released. Recorded in the case result and the statistics.
		n.g.armNext()
		reached, release := n.g.reached, n.g.release
		id, _ := n.create(T)
		n.put(k1, "e1", &id)
		select {
		case <-reached:
		case <-time.After(T + 5*time.Second):
			panic("the cleanup's List never reached the gate")
		}
		done := make(chan struct{})
		lc := n.lc
		go func() {
			_ = lc.Close()
			close(done)
		}()
		time.Sleep(30 * time.Millisecond)
		close(release)
		select {
		case <-done:
			res = "close-returned"
			mu.Lock()
			o.Count("diagnostic:close-during-expiry:returned")
			mu.Unlock()
			n.lc = nil
		case <-time.After(2 * time.Second):
			res = "close-blocked-forever"
			mu.Lock()
			o.Count("diagnostic:close-during-expiry:deadlock")
			mu.Unlock()
			n.lc = nil
			n.kvf = nil
		}
	default:
		panic("unknown scenario " + s.name)
	}
	sort.Strings(sigs)
	if len(sigs) > 0 {
		res = "violations:" + strings.Join(dedup(sigs), ",")
	}
	mu.Lock()
	o.Case("sess", s.String(), res, s.String())
	o.Count("scenario:" + s.name)
	if strings.HasPrefix(s.name, "o12") {
		o.Count(fmt.Sprintf("o12-interleaving:%d", s.variant%5))
	}
	mu.Unlock()
}

func dedup(xs []string) []string {
	var r []string
	for i, x := range xs {
		if i == 0 || x != xs[i-1] {
			r = append(r, x)
		}
	}
	return r
}

func main() {
	f := hx.ParseFlags()
	o := hx.NewOut(f.OutDir)
	defer o.Close()
	rng := hx.NewRng(f.Seed)
	timeouts := []time.Duration{60, 90, 120, 160, 200, 250}
	var scens []scen
	// the forced O-12 schedules first (every interleaving on both paths), then the seeded mix
	for v := 0; v < 5; v++ {
		scens = append(scens, scen{"o12-close", 0, v + 5*rng.Intn(2)}, scen{"o12-expiry", 150 * time.Millisecond, v + 5*rng.Intn(2)})
	}
	scens = append(scens, scen{"close-during-expiry", 100 * time.Millisecond, 0})
	// a second end of a session (duplicate CloseSession / expiry) while its clean-up entry is in flight (dupclose.go)
	for v := 0; v < 4; v++ {
		scens = append(scens, scen{"dup-close", 0, v})
	}
	// leader changes with four live sessions of different timeouts / identities (multi.go): both paths, with the last
	// created (highest id) session being the longest (order 0) and the shortest (order 1), plus two seeded picks
	for _, v := range []int{0, 1, 2, 3} { // path = v%2, order = v/2
		scens = append(scens, scen{"multi-timeout", 0, v + 12*rng.Intn(8)})
	}
	scens = append(scens, scen{"multi-timeout", 0, rng.Intn(96)}, scen{"multi-timeout", 0, rng.Intn(96)})
	// leader changes on a node whose DB is behind its log (see lagging.go): commit offset and rf from the variant
	for i := 0; i < 12; i++ {
		scens = append(scens, scen{"lagging-leader", hx.Pick(rng, []time.Duration{150, 200, 300}) * time.Millisecond, rng.Intn(100000)*1000 + i})
	}
	for _, size := range []int{0, 1, 999, 1000, 1001, 1500} {
		scens = append(scens, scen{"big", 0, size})
	}
	scens = append(scens, scen{"big", 200 * time.Millisecond, rng.Intn(2)}, scen{"big", 1500 * time.Millisecond, 1001 + rng.Intn(2)*499})
	for i := 0; i < f.N; i++ {
		T := hx.Pick(rng, timeouts) * time.Millisecond
		for _, name := range []string{"expiry", "heartbeats", "leader-change", "dead-write", "takeover"} {
			scens = append(scens, scen{name, T, rng.Intn(1000)})
		}
	}
	t0 := time.Now()
	var mu sync.Mutex
	var wg sync.WaitGroup
	sem := make(chan struct{}, 6)
	for _, s := range scens {
		wg.Add(1)
		sem <- struct{}{}
		go func(s scen) {
			defer wg.Done()
			defer func() { <-sem }()
			if s.name == "lagging-leader" {
				runLagging(s, o, &mu)
			} else if s.name == "dup-close" {
				runDupClose(s, o, &mu)
			} else if s.name == "multi-timeout" {
				runMulti(s, o, &mu)
			} else {
				runScen(s, o, &mu)
			}
		}(s)
	}
	wg.Wait()
	o.Extra["go_seconds"] = time.Since(t0).Seconds()
}
