package main

// Scenario "dup-close": a second end of the SAME session while the first one's clean-up entry is still in flight.
//
// rf 2 leader whose only follower is an in-process stream whose acks the scenario holds. Session A owns "lock".
//   1. CloseSession(A): its clean-up entry E1 is appended, not committed (acks held)
//   2. session B (variant: a plain put) writes "lock": entry E_B appended after E1, so it is applied after A is completely
//      gone; it has to be answered OK and B's record has to stay
//   3. variant 0/1: CloseSession(A) again (a retried / duplicated RPC); variant 2/3: A's own expiry timer (400 ms) fires
//      - with the session manager as it is, the session left the in-memory table and its timer was stopped BEFORE step 1's
//        delete(): the second close is answered "session not found" and nothing expires; no further entry is appended
//   4. all acks are released; everything commits and is applied in log order
//
//	session-cleanup:duplicate-cleanup-entry                          more than one log entry deletes SessionKey(A)
//	session-cleanup:deleted-record-not-owned:after-session-removed   "lock", written (OK) after A's complete removal, is gone
//
// (Not the O-12 window inside one session.delete(): the victim's write is ordered after the committed first clean-up.)

import (
	"context"
	"fmt"
	"sync"
	"time"

	"github.com/oxia-db/oxia/proto"
	"github.com/oxia-db/oxia/server"

	"verif/harness/internal/hx"
)

type heldFollower struct {
	mu      sync.Mutex
	ctx     context.Context
	hold    bool
	pending []int64
	acks    chan *proto.Ack
}

func (f *heldFollower) Send(a *proto.Append) error {
	f.mu.Lock()
	defer f.mu.Unlock()
	if f.hold {
		f.pending = append(f.pending, a.Entry.Offset)
	} else {
		f.acks <- &proto.Ack{Offset: a.Entry.Offset}
	}
	return nil
}
func (f *heldFollower) setHold(h bool) {
	f.mu.Lock()
	defer f.mu.Unlock()
	f.hold = h
	if !h {
		for _, off := range f.pending {
			f.acks <- &proto.Ack{Offset: off}
		}
		f.pending = nil
	}
}
func (f *heldFollower) Recv() (*proto.Ack, error) {
	f.mu.Lock()
	ctx := f.ctx
	f.mu.Unlock()
	select {
	case a := <-f.acks:
		return a, nil
	case <-ctx.Done():
		return nil, ctx.Err()
	}
}
type heldProvider struct {
	noFollowers
	f *heldFollower
}

func (p heldProvider) GetReplicateStream(ctx context.Context, _ string, _ string, _ int64, _ int64) (proto.OxiaLogReplication_ReplicateClient, error) {
	p.f.mu.Lock()
	p.f.ctx = ctx
	p.f.mu.Unlock()
	return &ackingFollowerAdapter{f: p.f, ctx: ctx}, nil
}

// ackingFollowerAdapter gives heldFollower the grpc.ClientStream methods (shared with ackingFollower's shape).
type ackingFollowerAdapter struct {
	ackingFollower
	f   *heldFollower
	ctx context.Context
}

func (a *ackingFollowerAdapter) Send(m *proto.Append) error { return a.f.Send(m) }
func (a *ackingFollowerAdapter) Recv() (*proto.Ack, error)  { return a.f.Recv() }
func (a *ackingFollowerAdapter) Context() context.Context   { return a.ctx }

func waitCount(wf *recWalFactory, n int, limit time.Duration) bool {
	deadline := time.Now().Add(limit)
	for time.Now().Before(deadline) {
		if wf.count() >= n {
			return true
		}
		time.Sleep(time.Millisecond)
	}
	return wf.count() >= n
}

func runDupClose(s scen, o *hx.Out, mu *sync.Mutex) {
	var sigs []string
	viol := func(sig, det string) {
		mu.Lock()
		defer mu.Unlock()
		o.Violation(sig, "scenario "+s.String()+": "+det)
		sigs = append(sigs, sig)
	}
	byExpiry := s.variant >= 2
	plainVictim := s.variant%2 == 1
	n := newNodeDirs()
	defer n.close()
	f := &heldFollower{ctx: context.Background(), acks: make(chan *proto.Ack, 4096)}
	n.term = 1
	lc, err := server.NewLeaderController(server.Config{NotificationsRetentionTime: time.Hour}, "default", shard, heldProvider{f: f}, n.wf, n.kvf)
	hx.Must(err)
	_, err = lc.NewTerm(&proto.NewTermRequest{Shard: shard, Term: 1})
	hx.Must(err)
	_, err = lc.BecomeLeader(context.Background(), &proto.BecomeLeaderRequest{Shard: shard, Term: 1, ReplicationFactor: 2,
		FollowerMaps: map[string]*proto.EntryId{"f1": server.InvalidEntryId}})
	hx.Must(err)
	n.lc = lc

	TA := 10 * time.Second
	if byExpiry {
		TA = 400 * time.Millisecond
	}
	a, _ := n.create(TA)
	b, _ := n.create(10 * time.Second)
	n.put("lock", "held-by-A", &a)
	n.put("bystander", "p", nil)
	hx.Must(lc.KeepAlive(a))
	t0 := time.Now()

	f.setHold(true)
	from := n.wf.count()
	close1 := make(chan error, 1)
	go func() {
		_, err := lc.CloseSession(&proto.CloseSessionRequest{Shard: shard, SessionId: a})
		close1 <- err
	}()
	if !waitCount(n.wf, from+1, 5*time.Second) {
		panic("the clean-up entry of the first CloseSession was never appended")
	}
	// the third party: ordered after the first clean-up entry
	victim := make(chan proto.Status, 1)
	go func() {
		if plainVictim {
			victim <- n.put("lock", "new-owner", nil)
		} else {
			victim <- n.put("lock", "new-owner", &b)
		}
	}()
	if !waitCount(n.wf, from+2, 5*time.Second) {
		panic("the third party's put was never appended")
	}
	// the second end of A while the first is pending
	close2 := make(chan error, 1)
	if byExpiry {
		if d := time.Until(t0.Add(TA + 250*time.Millisecond)); d > 0 {
			time.Sleep(d)
		}
		close2 <- nil
	} else {
		go func() {
			_, err := lc.CloseSession(&proto.CloseSessionRequest{Shard: shard, SessionId: a})
			close2 <- err
		}()
		waitCount(n.wf, from+3, 300*time.Millisecond) // appended only if the session is still tracked
	}
	f.setHold(false)
	wait := func(ch chan error, what string) {
		select {
		case <-ch:
		case <-time.After(5 * time.Second):
			panic(what + " did not return after the acks were released")
		}
	}
	wait(close1, "the first CloseSession")
	wait(close2, "the second CloseSession")
	var st proto.Status
	select {
	case st = <-victim:
	case <-time.After(5 * time.Second):
		panic("the third party's put did not return")
	}
	time.Sleep(150 * time.Millisecond) // a second clean-up entry, if any, is applied by now (acks are immediate again)

	// --- verdicts
	ents := n.wf.upTo(n.wf.count())[from:]
	sk := server.SessionKey(server.SessionId(a))
	var cleanupOffsets []int64
	for _, e := range ents {
		for _, w := range writesOf(e) {
			for _, d := range w.Deletes {
				if d.Key == sk {
					cleanupOffsets = append(cleanupOffsets, e.Offset)
				}
			}
		}
	}
	how := "a second CloseSession"
	if byExpiry {
		how = "the session's own expiry timer (400 ms)"
	}
	if len(cleanupOffsets) > 1 {
		viol("session-cleanup:duplicate-cleanup-entry", fmt.Sprintf("the end of session %d was logged %d times (offsets %v): CloseSession in flight (entry appended, follower ack held) and %s ran session.delete() again", a, len(cleanupOffsets), cleanupOffsets, how))
	}
	v := n.view()
	v.mirror(viol)
	if st != proto.Status_OK {
		viol("session:dead-session-write-accepted", fmt.Sprintf("the put of \"lock\" ordered after the clean-up entry of session %d was answered %v", a, st))
	} else {
		r, ok := v.recs["lock"]
		okOwner := ok && r.value == "new-owner" && ((plainVictim && r.sess == nil) || (!plainVictim && r.sess != nil && *r.sess == b))
		if !okOwner {
			viol("session-cleanup:deleted-record-not-owned:after-session-removed", fmt.Sprintf("\"lock\" was put (answered OK, log offset after the committed clean-up entry of session %d, i.e. after the session was completely removed) and is now %s; clean-up entries of session %d at offsets %v; second end by %s",
				a, recS(r, ok), a, cleanupOffsets, how))
		}
	}
	if _, alive := v.sessions[a]; alive {
		viol("session-cleanup:session-key-survived", fmt.Sprintf("session %d still exists after CloseSession", a))
	}
	if r, ok := v.recs["bystander"]; !ok || r.value != "p" {
		viol("session-cleanup:other-record-touched", fmt.Sprintf("bystander record is %s", recS(r, ok)))
	}
	res := "ok"
	if len(sigs) > 0 {
		res = "violations:" + fmt.Sprint(sigs)
	}
	mu.Lock()
	o.Case("sess", s.String(), res, s.String())
	o.Count("scenario:dup-close")
	mu.Unlock()
}
