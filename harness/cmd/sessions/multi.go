package main

// Scenario "multi-timeout": a leader change with several LIVE sessions whose timeouts and identities differ
// (200 ms, 600 ms, 3 s, 30 s), created in an order taken from the variant (the highest session id is sometimes the
// shortest, sometimes the longest), over both leader-change paths of this harness:
//
//	path 0  the leader controller is closed and a new one takes over the same, up-to-date WAL and DB
//	path 1  a follower that holds the whole log but applied only a prefix of it is elected (lagging.go), rf 1 or 2
//
// After the change every session must run with ITS OWN metadata:
//
//	session:restored-with-foreign-metadata                         the session manager of the new leader holds the session
//	                                                               with another timeout / identity (server.VerifSessionInfo)
//	session:expired-before-its-own-timeout-after-leader-change     gone earlier than 0.6 x its own timeout after it was armed
//	                                                               last (the long sessions must still be there when the short
//	                                                               ones are gone)
//	session:outlived-its-own-timeout-after-leader-change           a 200 / 600 ms session still there its own timeout + 0.7 s
//	                                                               (+ the lateness of the machine) after it was armed last
//	session:lost-after-leader-change                               KeepAlive fails / unknown to the session manager
//
// Lateness: a calibration goroutine sleeps 5 ms at a time during the observation window and records the largest overshoot;
// if the machine was visibly late (> 250 ms) the upper bound is not evaluated (counted as multi-timeout:machine-late).

import (
	"fmt"
	"sort"
	"sync"
	"sync/atomic"
	"time"

	"github.com/oxia-db/oxia/proto"
	"github.com/oxia-db/oxia/server"

	"verif/harness/internal/hx"
)

var multiTimeouts = []time.Duration{200 * time.Millisecond, 600 * time.Millisecond, 3 * time.Second, 30 * time.Second}

var multiOrders = [][]int{{0, 1, 2, 3}, {3, 2, 1, 0}, {2, 0, 3, 1}, {1, 3, 0, 2}, {3, 0, 1, 2}, {0, 3, 2, 1}}

type multiSess struct {
	id       int64
	timeout  time.Duration
	identity string
	armed    time.Time
	gone     time.Time
	isGone   bool
}

func runMulti(s scen, o *hx.Out, mu *sync.Mutex) {
	var sigs []string
	viol := func(sig, det string) {
		mu.Lock()
		defer mu.Unlock()
		o.Violation(sig, "scenario "+s.String()+": "+det)
		sigs = append(sigs, sig)
	}
	path := s.variant % 2
	order := multiOrders[(s.variant/2)%len(multiOrders)]
	sel := s.variant / (2 * len(multiOrders)) // lagging path: commit offset / rf selector
	var n *node
	var sess []*multiSess
	var b0 time.Time
	what := ""
	if path == 0 {
		n = newNode()
		for _, i := range order {
			T := multiTimeouts[i]
			ident := fmt.Sprintf("client-%v", T)
			r, err := server.VerifCreateSession(n.lc, &proto.CreateSessionRequest{Shard: shard, SessionTimeoutMs: uint32(T.Milliseconds()), ClientIdentity: ident}, 10*time.Millisecond)
			hx.Must(err)
			id := r.SessionId
			n.put(fmt.Sprintf("e/%d", i), "e", &id)
			sess = append(sess, &multiSess{id: id, timeout: T, identity: ident})
		}
		if !n.closeLeader(5 * time.Second) {
			viol("session:leader-close-blocked-by-expiring-session", "leaderController.Close() did not return within 5 s")
			n.lc = nil
			n.kvf = nil
			n.close()
			return
		}
		b0 = time.Now()
		n.lead()
		what = "re-election over an up-to-date DB"
	} else {
		n = newNodeDirs()
		sh := shard
		var reqs []*proto.WriteRequest
		reqs = append(reqs, &proto.WriteRequest{Shard: &sh, Puts: []*proto.PutRequest{{Key: "plain", Value: []byte("p")}}})
		for _, i := range order {
			T := multiTimeouts[i]
			ident := fmt.Sprintf("client-%v", T)
			md, err := (&proto.SessionMetadata{TimeoutMs: uint32(T.Milliseconds()), Identity: ident}).MarshalVT()
			hx.Must(err)
			id := int64(len(reqs))
			reqs = append(reqs, &proto.WriteRequest{Shard: &sh, Puts: []*proto.PutRequest{{Key: server.SessionKey(server.SessionId(id)), Value: md}}})
			reqs = append(reqs, &proto.WriteRequest{Shard: &sh, Puts: []*proto.PutRequest{{Key: fmt.Sprintf("e/%d", i), Value: []byte("e"), SessionId: &id}}})
			sess = append(sess, &multiSess{id: id, timeout: T, identity: ident})
		}
		nE := int64(len(reqs))
		c := []int64{-1, 2, nE / 2, nE - 2}[sel%4]
		rf := uint32(1 + (sel/4)%2)
		b0 = feedAndElect(n, reqs, c, rf)
		what = fmt.Sprintf("election of a follower that knew commit offset %d of a log of %d entries, rf %d", c, nE, rf)
	}
	defer n.close()
	lc := n.lc
	var orderDesc []string
	for _, m := range sess {
		orderDesc = append(orderDesc, fmt.Sprintf("%d:%v", m.id, m.timeout))
	}
	ctx := fmt.Sprintf("%s; sessions (id:timeout) %v", what, orderDesc)

	// --- the metadata each restored session runs with, and a heartbeat for each
	info := server.VerifSessionInfo(lc)
	for _, m := range sess {
		got, ok := info[m.id]
		switch {
		case !ok:
			viol("session:lost-after-leader-change", fmt.Sprintf("%s: session %d is not in the new leader's session manager", ctx, m.id))
		case got.Timeout != m.timeout || got.Identity != m.identity:
			viol("session:restored-with-foreign-metadata", fmt.Sprintf("%s: session %d was created with timeout %v identity %q, the new leader runs it with timeout %v identity %q",
				ctx, m.id, m.timeout, m.identity, got.Timeout, got.Identity))
		}
		hb := time.Now()
		if err := lc.KeepAlive(m.id); err != nil {
			m.armed = b0
			if hb.Sub(b0) < m.timeout*6/10 {
				viol("session:lost-after-leader-change", fmt.Sprintf("%s: KeepAlive(%d) %v after BecomeLeader started: %v", ctx, m.id, hb.Sub(b0), err))
			}
		} else {
			m.armed = hb
		}
	}

	// --- observe for 1.45 s (< 0.6 x 3 s): the 200 / 600 ms sessions go, the 3 s / 30 s sessions stay
	var maxLate atomic.Int64
	stop := make(chan struct{})
	go func() {
		for {
			select {
			case <-stop:
				return
			default:
			}
			t := time.Now()
			time.Sleep(5 * time.Millisecond)
			if late := time.Since(t) - 5*time.Millisecond; int64(late) > maxLate.Load() {
				maxLate.Store(int64(late))
			}
		}
	}()
	start := time.Now()
	for time.Since(start) < 1450*time.Millisecond {
		v := n.view()
		now := time.Now()
		for _, m := range sess {
			if _, ok := v.sessions[m.id]; !ok && !m.isGone {
				m.isGone, m.gone = true, now
			}
		}
		time.Sleep(4 * time.Millisecond)
	}
	end := time.Now()
	close(stop)
	late := time.Duration(maxLate.Load())
	final := n.view()
	final.mirror(viol)
	sort.Slice(sess, func(i, j int) bool { return sess[i].timeout < sess[j].timeout })
	for _, m := range sess {
		if m.isGone && m.gone.Sub(m.armed) < m.timeout*6/10 {
			viol("session:expired-before-its-own-timeout-after-leader-change", fmt.Sprintf("%s: session %d (its own timeout: %v) was gone %v after it was armed last on the new leader",
				ctx, m.id, m.timeout, m.gone.Sub(m.armed)))
		}
		if !m.isGone && m.timeout <= 600*time.Millisecond {
			if late > 250*time.Millisecond {
				mu.Lock()
				o.Count("multi-timeout:machine-late")
				mu.Unlock()
			} else if end.Sub(m.armed) > m.timeout+700*time.Millisecond+late {
				viol("session:outlived-its-own-timeout-after-leader-change", fmt.Sprintf("%s: session %d (its own timeout: %v, no heartbeat) is still there %v after it was armed last on the new leader (machine lateness %v)",
					ctx, m.id, m.timeout, end.Sub(m.armed), late))
			}
		}
		if m.isGone {
			if ks := final.owned(m.id); len(ks) > 0 {
				viol("session-cleanup:owned-record-survived", fmt.Sprintf("%s: records %q of expired session %d", ctx, ks, m.id))
			}
		} else if ks := final.owned(m.id); len(ks) != 1 {
			viol("session:lost-after-leader-change", fmt.Sprintf("%s: live session %d owns %q, one record expected", ctx, m.id, ks))
		}
	}
	res := "ok"
	sort.Strings(sigs)
	if len(sigs) > 0 {
		res = "violations:" + fmt.Sprint(dedup(sigs))
	}
	mu.Lock()
	o.Case("sess", s.String(), res, s.String())
	o.Count("scenario:multi-timeout")
	o.Count(fmt.Sprintf("multi-timeout:path=%d:last-created=%v", path, multiTimeouts[order[len(order)-1]]))
	mu.Unlock()
}
