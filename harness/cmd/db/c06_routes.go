package main

// C06 (-mode c06): replicas are deterministic state machines over the committed log.
//
// One case = one committed log (a prelude UpdateTerm + EnableNotifications as NewTerm does, then write
// requests of the C12 valid stream: plain / conditional / session / indexed / sequence puts, deletes,
// delete-ranges, session create / close batches, bulk ranges around DeleteRangeThreshold).
// Route A applies it live on a fresh in-memory kv.DB: its responses and dumps are the `seq` case the
// extracted model is compared with (same grammar as C12). The other routes take the SAME entries to the
// same offset on other real kv.DB instances and must end with the identical dump (all keys incl. __oxia/...,
// wall-clock fields of the term keys masked) and must answer every (re)applied entry identically:
//
//	B  restart    on disk; Close + kv.NewDB + ReadTerm + EnableNotifications(options) at random points
//	Bc crash      Pebble on vfs.NewStrictMem (kv.VerifSetFS); random Flush points; at random points everything
//	              not synced is dropped (ResetToSyncedState), NewDB, ReadCommitOffset = c, replay from c+1
//	C  snapshot   a sender applies a prefix, real Snapshot() is shipped with MaxSnapshotChunkSize in
//	              {3, 7, 64, 1000, 4096, default} through SnapshotLoader.AddChunk/Complete into another
//	              factory (directories compared byte for byte), NewDB + UpdateTerm + EnableNotifications as
//	              handleSnapshot does, then the rest is replayed
//
//	R  reads      c06_reads.go: the replica also answers reads of every kind between the entries (and registers
//	              sequence waiters, takes snapshots); compared after EVERY entry with a replica that applied the log alone
//
// SPEC VERDICTS  determinism:routes-differ:live-vs-restart | live-vs-crash-replay | live-vs-snapshot-replay
//
//	determinism:routes-differ:reads-interleaved
//	determinism:routes-differ:busy-node | pool:same-object-handed-out-twice   (route P, c06_busy.go: other activity of
//	              the process - another shard's applies, gets, lists - runs from inside applyPut/applyDelete)
//
//	snapshot:chunk-reassembly-differs
//
// The kv.DB-level witness of c06_refuted_after_failed_batch (a batch failing after one of its puts took a
// version id) is run as a `seq` case too (live vs Close/NewDB: version 2 vs 1); it is a finding only where
// such a batch still reaches ProcessWrite through the leader (checked by -mode c06ctl).

import (
	"fmt"
	"os"
	"path/filepath"
	"strings"
	"time"

	"github.com/cockroachdb/pebble/vfs"

	oxtime "github.com/oxia-db/oxia/common/time"
	"github.com/oxia-db/oxia/proto"
	"github.com/oxia-db/oxia/server"
	"github.com/oxia-db/oxia/server/kv"

	"verif/harness/internal/hx"
)

func init() {
	modes["c06"] = c06Main
	modes["c06ctl"] = c06CtlMain
	replayKinds["snapsend"] = c06ReplaySnap
	replayKinds["snapload"] = c06ReplaySnap
	replayKinds["c06log"] = c06ReplayLog
	replayKinds["c06ctllog"] = c06ReplayCtlLog
}

type c06Entry struct {
	op  string // the W op text
	w   *wreq
	res string // route A's response
}

type c06Log struct {
	shard   int64
	term    int64
	en      bool
	entries []c06Entry
	final   string // route A's final dump
	failed  bool   // some entry failed on route A (outside the positive theorem)
	pivot   int    // index of the first entry whose timestamp is below the maximum so far, preceded by that maximum (-1: timestamps never go back); a replica re-created right before it has lost every in-memory trace of the higher timestamp
}

// c06RespText is the canonical response of execWrite (non-hostile), without the reference model.
func c06RespText(resp *proto.WriteResponse, err error) string {
	if err != nil {
		return "err:" + errKind(err)
	}
	var ps []string
	for _, p := range resp.Puts {
		if p.Status == proto.Status_OK && p.Version != nil {
			ps = append(ps, "OK/"+versionS(p.Version)+"/"+optS(p.Key))
		} else {
			ps = append(ps, p.Status.String())
		}
	}
	return "ok:" + join(ps, ",") + ":" + statusesOf(resp.Deletes, func(d *proto.DeleteResponse) proto.Status { return d.Status }) +
		":" + statusesOf(resp.DeleteRanges, func(d *proto.DeleteRangeResponse) proto.Status { return d.Status })
}

func c06Apply(db kv.DB, w *wreq) (res string) {
	defer func() {
		if x := recover(); x != nil {
			res = "panic"
		}
	}()
	resp, err := db.ProcessWrite(w.toProto(), w.offset, w.ts, server.WrapperUpdateOperationCallback)
	return c06RespText(resp, err)
}

func b2i(b bool) int {
	if b {
		return 1
	}
	return 0
}

// c06GenLog runs route A (a `seq` case, compared with the model) and returns the log it applied.
func c06GenLog(o *hx.Out, crng *hx.Rng, tag string, flavour int) *c06Log {
	lg := &c06Log{shard: int64(1 + crng.Intn(9)), term: int64(1 + crng.Intn(5)), en: crng.Chance(70)}
	// pass 1 (scratch output): the generator of the C12 stream drives a real DB together with C12's sequential
	// reference (it needs it to pick live keys and expected versions); C12's verdicts are not this check's.
	scratchDir := c06TmpDir("gen")
	scratch := hx.NewOut(scratchDir)
	var ops, res []string
	runCase(scratch, "seq", lg.shard, false, tag, "", func(r *runner) {
		g := &gen{rng: crng, r: r, o: scratch, off: -1, ts: 1000 + uint64(crng.Intn(100000)), seqParts: map[string]int{}}
		r.do(fmt.Sprintf("T:%d:%d", lg.term, b2i(lg.en)))
		r.do(fmt.Sprintf("E:%d", b2i(lg.en)))
		nreq := 5 + crng.Intn(26)
		for i := 0; i < nreq; i++ {
			switch x := crng.Intn(100); {
			case x < 10:
				g.createSession()
			case x < 15 && len(g.sessions) > 0:
				g.closeSession(hx.Pick(crng, g.sessions))
			default:
				g.write(g.mixedRequest())
			}
			if flavour == 0 && i == 2 {
				g.bulk(hx.Pick(crng, []int{99, 100, 101, 130}))
			}
		}
		r.do("D")
		ops = append([]string(nil), r.ops...)
	})
	for k, v := range scratch.Stats {
		if !strings.HasPrefix(k, "kind:") && !strings.HasPrefix(k, "write:") {
			o.CountN(k, v)
		}
	}
	scratch.Close()
	_ = os.RemoveAll(scratchDir)
	// The entry timestamp is the wall clock of the leader that wrote the entry: after a leader change with clock
	// skew or a clock step the committed log is NOT monotone in it. In 65% of the logs the timestamps are made
	// adversarial: going back by 1 / by a lot, runs of equal values, 0, very large values.
	if crng.Chance(65) {
		ops = c06AdversarialTimestamps(o, crng, ops)
	}
	// pass 2: route A proper, the `seq` case of this check (no reference model)
	runCase(o, "seq", lg.shard, false, tag, fmt.Sprintf("c06|%d", crng.U64()), func(r *runner) {
		r.ref = nil
		for _, op := range ops {
			r.do(op)
		}
		res = append([]string(nil), r.res...)
	})
	for i, op := range ops {
		if strings.HasPrefix(op, "W:") {
			lg.entries = append(lg.entries, c06Entry{op: op, w: parseW(strings.Split(op, ":")), res: res[i]})
			if !strings.HasPrefix(res[i], "ok:") {
				lg.failed = true
			}
		}
	}
	lg.final = res[len(res)-1]
	lg.pivot = c06Pivot(lg.entries)
	if lg.pivot >= 0 {
		o.Count("log:timestamps-go-back")
	}
	return lg
}

// c06Pivot: the first i > 0 with ts[i] < ts[i-1] = max(ts[0..i-1]).
func c06Pivot(es []c06Entry) int {
	var max uint64
	for i, e := range es {
		if i > 0 && e.w.ts < es[i-1].w.ts && es[i-1].w.ts == max {
			return i
		}
		if e.w.ts > max {
			max = e.w.ts
		}
	}
	return -1
}

func c06AdversarialTimestamps(o *hx.Out, rng *hx.Rng, ops []string) []string {
	cur := uint64(1000 + rng.Intn(100000))
	if rng.Chance(30) {
		cur = 1700000000000 + uint64(rng.Intn(1000000))
	}
	res := make([]string, len(ops))
	for i, op := range ops {
		res[i] = op
		if !strings.HasPrefix(op, "W:") {
			continue
		}
		switch x := rng.Intn(100); {
		case x < 40:
			cur += uint64(1 + rng.Intn(20))
		case x < 55: // equal run
			o.Count("ts:equal")
		case x < 67:
			if cur > 0 {
				cur--
			}
			o.Count("ts:back-by-1")
		case x < 80:
			cur -= uint64(rng.Intn(int(cur%1000000) + 1))
			if rng.Chance(30) {
				cur /= 2
			}
			o.Count("ts:back-by-a-lot")
		case x < 85:
			cur = 0
			o.Count("ts:zero")
		case x < 91:
			cur = hx.Pick(rng, []uint64{1 << 63, 1<<64 - 1, 1<<63 - 1, 1<<64 - 2 - uint64(rng.Intn(100))})
			o.Count("ts:very-large")
		default:
			cur = cur/2 + uint64(rng.Intn(100000))
			o.Count("ts:jump")
		}
		f := strings.Split(op, ":")
		f[2] = fmt.Sprint(cur)
		res[i] = strings.Join(f, ":")
	}
	return res
}

func firstDiff(a, b string) string {
	xa, xb := strings.Split(a, ","), strings.Split(b, ",")
	for i := 0; i < len(xa) || i < len(xb); i++ {
		var ea, eb string
		if i < len(xa) {
			ea = xa[i]
		}
		if i < len(xb) {
			eb = xb[i]
		}
		if ea != eb {
			return fmt.Sprintf("first difference at dump position %d: live has [%s], the other route has [%s]", i, ea, eb)
		}
	}
	return "dumps equal"
}

func (lg *c06Log) text() string {
	var xs []string
	for _, e := range lg.entries {
		xs = append(xs, e.op)
	}
	return fmt.Sprintf("shard=%d term=%d notifications=%v log=[%s]", lg.shard, lg.term, lg.en, strings.Join(xs, ";"))
}

// route bookkeeping: compare a (re)applied entry and the final dump with route A
type c06Route struct {
	o    *hx.Out
	lg   *c06Log
	name string // restart | crash-replay | snapshot-replay
	how  string // the schedule, for the failing-input text
	bad  bool
	sig  string // full signature; default determinism:routes-differ:live-vs-<name>
}

func (rt *c06Route) signature() string {
	if rt.sig != "" {
		return rt.sig
	}
	return "determinism:routes-differ:live-vs-" + rt.name
}

func (rt *c06Route) entry(i int, got string) {
	if got != rt.lg.entries[i].res && !rt.bad {
		rt.bad = true
		rt.o.Violation(rt.signature(), fmt.Sprintf("entry #%d %s answered [%s] live and [%s] on route %s (%s); %s",
			i, rt.lg.entries[i].op, rt.lg.entries[i].res, got, rt.name, rt.how, rt.lg.text()))
	}
}

func (rt *c06Route) final(dump string) {
	if dump != rt.lg.final && !rt.bad {
		rt.bad = true
		rt.o.Violation(rt.signature(), fmt.Sprintf("%s (route %s: %s); %s",
			firstDiff(rt.lg.final, dump), rt.name, rt.how, rt.lg.text()))
	}
	rt.o.Count("route:" + rt.name)
}

// what NewFollowerController / NewLeaderController do after kv.NewDB
func c06RestoreSwitch(db kv.DB) {
	_, opts, err := db.ReadTerm()
	hx.Must(err)
	db.EnableNotifications(opts.NotificationsEnabled)
}

func c06Prelude(db kv.DB, lg *c06Log) {
	hx.Must(db.UpdateTerm(lg.term, kv.TermOptions{NotificationsEnabled: lg.en}))
	db.EnableNotifications(lg.en)
}

// ---------------------------------------------------------------- route B: graceful restarts
func c06RouteRestart(o *hx.Out, rng *hx.Rng, lg *c06Log) {
	e := newEnv(lg.shard, true)
	defer e.close()
	c06Prelude(e.db, lg)
	rt := &c06Route{o: o, lg: lg, name: "restart"}
	var pts []string
	restart := func(at int) {
		hx.Must(e.db.Close())
		e.open()
		c06RestoreSwitch(e.db)
		pts = append(pts, fmt.Sprint(at))
		o.Count("restart:graceful")
	}
	if rng.Chance(20) {
		restart(0)
	}
	for i, en := range lg.entries {
		rt.how = "Close+NewDB before entries " + strings.Join(pts, ",")
		rt.entry(i, c06Apply(e.db, en.w))
		if rng.Chance(20) || i+1 == lg.pivot {
			restart(i + 1)
		}
	}
	rt.how = "Close+NewDB before entries " + strings.Join(pts, ",")
	rt.final(dumpText(e.dump()))
}

// ---------------------------------------------------------------- route Bc: crash back to the last flush
type capFactory struct {
	kv.Factory
	last kv.KV
}

func (c *capFactory) NewKV(ns string, shard int64) (kv.KV, error) {
	k, err := c.Factory.NewKV(ns, shard)
	c.last = k
	return k, err
}

func syncDirChain(fs vfs.FS, dir string) {
	hx.Must(fs.MkdirAll(dir, 0o755))
	for d := dir; ; d = fs.PathDir(d) {
		f, err := fs.OpenDir(d)
		hx.Must(err)
		hx.Must(f.Sync())
		hx.Must(f.Close())
		if d == "/" || d == "." || d == "" || fs.PathDir(d) == d {
			break
		}
	}
}

func c06RouteCrash(o *hx.Out, rng *hx.Rng, lg *c06Log) {
	mem := vfs.NewStrictMem()
	dir := c06TmpDir("crash")
	defer os.RemoveAll(dir)
	ns := "nsc"
	syncDirChain(mem, filepath.Join(dir, ns, fmt.Sprintf("shard-%d", lg.shard)))
	real, err := kv.NewPebbleKVFactory(&kv.FactoryOptions{DataDir: dir, CacheSizeMB: 1})
	hx.Must(err)
	f := &capFactory{Factory: real}
	defer f.Close()
	clock := &oxtime.MockedClock{}
	open := func() (kv.DB, error) {
		kv.VerifSetFS(mem)
		defer kv.VerifSetFS(nil)
		return kv.NewDB(ns, lg.shard, f, time.Hour, clock)
	}
	db, err := open()
	hx.Must(err)
	c06Prelude(db, lg) // UpdateTerm flushes: the term survives every crash, as on a real node
	rt := &c06Route{o: o, lg: lg, name: "crash-replay"}
	var sched []string
	index := map[int64]int{}
	for i, en := range lg.entries {
		index[en.w.offset] = i
	}
	crashes := 0
	pivotDone := false
	for i := 0; i < len(lg.entries); {
		rt.how = strings.Join(sched, " ")
		rt.entry(i, c06Apply(db, lg.entries[i].w))
		i++
		x := rng.Intn(100)
		if i == lg.pivot && !pivotDone {
			// everything up to the maximum timestamp is durable, then the process dies: the replay starts at the lower one
			pivotDone = true
			hx.Must(f.last.Flush())
			sched = append(sched, fmt.Sprintf("flush@%d", i))
			x = 25
		}
		switch {
		case x < 25:
			hx.Must(f.last.Flush())
			sched = append(sched, fmt.Sprintf("flush@%d", i))
			o.Count("crash:flush")
		case x < 40 && (crashes < 4 || i == lg.pivot):
			// power loss: nothing written from now on is durable; the process winds down; restart
			mem.SetIgnoreSyncs(true)
			_ = db.Close()
			mem.ResetToSyncedState()
			mem.SetIgnoreSyncs(false)
			// The image is cut when the harness says so, not at a boundary between two filesystem operations of
			// Pebble's background work (compactions and obsolete-file deletion after an explicit flush are not
			// gated here, unlike in harness/cmd/crash): an image that does not open or read is NOT judged.
			var c int64
			db, err = open()
			if err == nil {
				var opts kv.TermOptions
				if _, opts, err = db.ReadTerm(); err == nil {
					db.EnableNotifications(opts.NotificationsEnabled)
					c, err = db.ReadCommitOffset()
				}
				if err != nil {
					_ = db.Close()
				}
			}
			if err != nil {
				o.Count("crash:image-does-not-open(not-judged)")
				return
			}
			next := 0
			if c >= 0 {
				j, ok := index[c]
				if !ok {
					rt.bad = true
					o.Violation("determinism:routes-differ:live-vs-crash-replay", fmt.Sprintf("after a crash the stored commit offset is %d, which is no offset of the log; %s", c, lg.text()))
					_ = db.Close()
					return
				}
				next = j + 1
			}
			sched = append(sched, fmt.Sprintf("crash@%d(commit=%d,replay-from#%d)", i, c, next))
			o.Count("restart:crash")
			if next < i {
				o.Count("crash:entries-replayed")
			}
			i = next
			crashes++
		}
	}
	rt.how = strings.Join(sched, " ")
	e := &env{factory: f, db: db}
	rt.final(dumpText(e.dump()))
	_ = db.Close()
}

// ---------------------------------------------------------------- route C: snapshot + replay
func c06RouteSnapshot(o *hx.Out, rng *hx.Rng, lg *c06Log) {
	src := newEnv(lg.shard, true)
	defer src.close()
	c06Prelude(src.db, lg)
	cut := rng.Intn(len(lg.entries) + 1)
	if lg.pivot >= 0 && rng.Chance(60) {
		cut = lg.pivot
	}
	rt := &c06Route{o: o, lg: lg, name: "snapshot-replay"}
	for i := 0; i < cut; i++ {
		rt.how = "sender"
		rt.entry(i, c06Apply(src.db, lg.entries[i].w))
	}
	cs := int64(hx.Pick(rng, []int{3, 7, 64, 1000, 4096, 0}))
	dst := &env{ns: "nsd", shard: lg.shard, disk: true, clock: &oxtime.MockedClock{}, dir: c06TmpDir("snapdst")}
	var err error
	dst.factory, err = kv.NewPebbleKVFactory(&kv.FactoryOptions{DataDir: dst.dir, CacheSizeMB: 1})
	hx.Must(err)
	defer dst.close()
	nchunks, transferred := 0, false
	withChunkSize(cs, func() {
		snap, err := src.db.Snapshot()
		hx.Must(err)
		rt.how = fmt.Sprintf("snapshot after %d entries, chunk size %d", cut, kv.MaxSnapshotChunkSize)
		nchunks, transferred = c06Transfer(o, snap, dst.factory, dst.ns, lg.shard, filepath.Join(dst.dir, dst.ns, fmt.Sprintf("shard-%d", lg.shard)), rt.how+"; "+lg.text())
		hx.Must(snap.Close())
	})
	if !transferred {
		return
	}
	o.Count(fmt.Sprintf("snapshot:chunk-size-%d", cs))
	o.CountN("snapshot:chunks", nchunks)
	// followerController.handleSnapshot after loader.Complete()
	dst.open()
	hx.Must(dst.db.UpdateTerm(lg.term, kv.TermOptions{NotificationsEnabled: lg.en}))
	dst.db.EnableNotifications(lg.en)
	for i := cut; i < len(lg.entries); i++ {
		rt.entry(i, c06Apply(dst.db, lg.entries[i].w))
	}
	rt.final(dumpText(dst.dump()))
}

// ---------------------------------------------------------------- the kv.DB-level witness of the refutation
// [put x] ; [put a ; sequence put with first delta 0] (fails after `a` took version 1) ; [put b]
// live: b gets version 2; Close + NewDB after the failed batch: b gets version 1.
func c06Witness(o *hx.Out) {
	w0 := "W:0:10:" + hexs("x") + ",76,n,n,n,n,-,-:-:-"
	w1 := "W:1:20:" + hexs("a") + ",76,n,n,n,n,-,-|" + hexs("s") + ",76,n,n,n," + hexs("p") + ",0,-:-:-"
	w2 := "W:2:30:" + hexs("b") + ",76,n,n,n,n,-,-:-:-"
	var live, restarted string
	runCase(o, "seq", 7, false, "c06-witness-live", "c06-witness-live", func(r *runner) {
		r.ref = nil
		r.do(w0)
		r.do(w1)
		live = r.do(w2)
		r.do("D")
	})
	runCase(o, "seq", 7, true, "c06-witness-restart", "c06-witness-restart", func(r *runner) {
		r.ref = nil
		r.do(w0)
		r.do(w1)
		r.do("R")
		restarted = r.do(w2)
		r.do("D")
	})
	o.Extra["witness_failed_batch_live"] = live
	o.Extra["witness_failed_batch_after_restart"] = restarted
	if live != restarted {
		o.Count("witness:kvdb-level-version-ahead-after-failed-batch")
	} else {
		o.Count("witness:kvdb-level-no-divergence")
	}
}

// c06log <id> <shard> <term> <0|1> <W;W;...>   replay of a log through all routes (no model line: the `seq`
// case of route A is emitted next to it)
func c06ReplayLog(o *hx.Out, t []string) {
	var shard, term int64
	fmt.Sscan(t[2], &shard)
	fmt.Sscan(t[3], &term)
	lg := &c06Log{shard: shard, term: term, en: t[4] == "1"}
	runCase(o, "seq", shard, false, "c06log-replay", "", func(r *runner) {
		r.ref = nil // C12's sequential reference is not this check's
		r.do(fmt.Sprintf("T:%d:%d", term, b2i(lg.en)))
		r.do(fmt.Sprintf("E:%d", b2i(lg.en)))
		for _, op := range strings.Split(t[5], ";") {
			res := r.do(op)
			lg.entries = append(lg.entries, c06Entry{op: op, w: parseW(strings.Split(op, ":")), res: res})
		}
		lg.final = r.do("D")
	})
	lg.pivot = c06Pivot(lg.entries)
	rng := hx.NewRng(uint64(len(t[5])))
	for k := 0; k < 4; k++ {
		c06RouteRestart(o, rng.Fork(), lg)
		c06RouteCrash(o, rng.Fork(), lg)
		c06RouteSnapshot(o, rng.Fork(), lg)
		c06RouteReads(o, rng.Fork(), lg)
		c06RouteBusy(o, rng.Fork(), lg)
	}
}

func c06Main(o *hx.Out, f hx.Flags) {
	t0 := time.Now()
	rng := hx.NewRng(f.Seed ^ 0xc06)
	c06GenSnapCases(o, rng.Fork(), 4*f.N)
	c06Witness(o)
	for c := 0; c < f.N; c++ {
		crng := rng.Fork()
		lg := c06GenLog(o, crng, fmt.Sprintf("c06case#%d", c), crng.Intn(12))
		if lg.failed {
			o.Count("case:has-failed-entry(routes skipped)")
			continue
		}
		if len(lg.entries) == 0 {
			continue
		}
		o.CountN("log-entries", len(lg.entries))
		c06RouteRestart(o, crng.Fork(), lg)
		c06RouteCrash(o, crng.Fork(), lg)
		c06RouteSnapshot(o, crng.Fork(), lg)
		c06RouteReads(o, crng.Fork(), lg)
		c06RouteBusy(o, crng.Fork(), lg)
	}
	o.Extra["go_seconds"] = time.Since(t0).Seconds()
}
