package main

// C12, "busy" cases: the responses and the stored state of a request must not depend on what ELSE the process does
// while the request is applied (object pools are process-global: the read path and the other shards' apply
// routines draw StorageEntry objects from the same pool as applyPut / applyDelete).
//
// Op  B:<seed>  (first op of a case; the model ignores it: result "ok") switches the case to a busy process: from then
// on ProcessWrite gets an UpdateOperationCallback that wraps server.WrapperUpdateOperationCallback and, before and
// after delegating OnPut / OnDelete / OnDeleteWithEntry (i.e. INSIDE applyPut / applyDelete / applyDeleteRange, between
// reading the existing record and storing the new one), runs seeded activity that does not change the DB under test:
// gets with and without value of OTHER keys of the same DB and of the key itself, and puts / overwrites / gets /
// a list on a SECOND kv.DB of the same process. Everything else is as in a quiet case: every response, the dump
// digests and the sequential reference must still agree (verdicts as for any seq case).

import (
	"sort"
	"strings"

	"github.com/oxia-db/oxia/proto"
	"github.com/oxia-db/oxia/server"
	"github.com/oxia-db/oxia/server/kv"

	"verif/harness/internal/hx"
)

type c12Busy struct {
	rng   *hx.Rng
	r     *runner
	other *env
	off   int64
	okeys []string
	keys  []string // user keys of the DB under test (refreshed before every request)
}

func newC12Busy(r *runner, seed uint64) *c12Busy {
	b := &c12Busy{rng: hx.NewRng(seed), r: r, off: -1, okeys: []string{"o1", "o2", "o3", "o4"}}
	b.other = newEnv(r.e.shard+100, false)
	for i, k := range b.okeys {
		b.otherWrite(&proto.WriteRequest{Puts: []*proto.PutRequest{{Key: k, Value: []byte(c06OtherValues[i%len(c06OtherValues)])}}})
	}
	return b
}

func (b *c12Busy) close() { b.other.close() }

func (b *c12Busy) otherWrite(req *proto.WriteRequest) {
	b.off++
	_, err := b.other.db.ProcessWrite(req, b.off, uint64(5000+b.off), server.WrapperUpdateOperationCallback)
	hx.Must(err)
}

func (b *c12Busy) refresh() {
	b.keys = b.keys[:0]
	if b.r.ref != nil {
		for k := range b.r.ref.recs {
			if !strings.HasPrefix(k, internalPrefix) {
				b.keys = append(b.keys, k)
			}
		}
		sort.Strings(b.keys)
	}
}

func (b *c12Busy) act(key string) {
	db := b.r.e.db
	for i, n := 0, 1+b.rng.Intn(2); i < n; i++ {
		ok := hx.Pick(b.rng, b.okeys)
		target := key
		if len(b.keys) > 0 && b.rng.Chance(70) {
			target = hx.Pick(b.rng, b.keys)
		}
		switch b.rng.Intn(8) {
		case 0:
			b.otherWrite(&proto.WriteRequest{Puts: []*proto.PutRequest{{Key: ok, Value: []byte(hx.Pick(b.rng, c06OtherValues))}}})
			b.r.o.Count("busy:other-shard-put")
		case 1, 2:
			_, err := b.other.db.Get(&proto.GetRequest{Key: ok, IncludeValue: false})
			hx.Must(err)
			b.r.o.Count("busy:other-shard-get-novalue")
		case 3:
			_, err := b.other.db.Get(&proto.GetRequest{Key: ok, IncludeValue: true})
			hx.Must(err)
			b.r.o.Count("busy:other-shard-get")
		case 4, 5:
			if target != "" {
				_, _ = db.Get(&proto.GetRequest{Key: target, IncludeValue: false})
				b.r.o.Count("busy:same-shard-get-novalue")
			}
		case 6:
			if target != "" {
				_, _ = db.Get(&proto.GetRequest{Key: target, IncludeValue: true})
				b.r.o.Count("busy:same-shard-get")
			}
		default:
			it, err := b.other.db.List(&proto.ListRequest{StartInclusive: "o", EndExclusive: "p"})
			hx.Must(err)
			for ; it.Valid(); it.Next() {
			}
			_ = it.Close()
			b.r.o.Count("busy:other-shard-list")
		}
	}
}

func (b *c12Busy) OnPut(batch kv.WriteBatch, req *proto.PutRequest, se *proto.StorageEntry) (proto.Status, error) {
	b.act(req.Key)
	st, err := server.WrapperUpdateOperationCallback.OnPut(batch, req, se)
	b.act(req.Key)
	return st, err
}

func (b *c12Busy) OnDelete(batch kv.WriteBatch, key string) error {
	b.act(key)
	err := server.WrapperUpdateOperationCallback.OnDelete(batch, key)
	b.act(key)
	return err
}

func (b *c12Busy) OnDeleteWithEntry(batch kv.WriteBatch, key string, value *proto.StorageEntry) error {
	b.act(key)
	err := server.WrapperUpdateOperationCallback.OnDeleteWithEntry(batch, key, value)
	b.act(key)
	return err
}

func (b *c12Busy) OnDeleteRange(batch kv.WriteBatch, start string, end string) error {
	return server.WrapperUpdateOperationCallback.OnDeleteRange(batch, start, end)
}
