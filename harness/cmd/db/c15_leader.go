package main

// C15, leader leg (-mode c15leader): index declarations on their way INTO the log.
//
// A real rf=1 LeaderController (leaderEnv of c13_leader.go) receives puts whose secondary-index declarations are
// drawn from the representable alphabet (all the name families of c15_gen.go: printf verbs, url-escape
// look-alikes, layout words, long names, control bytes, secondary keys with '/', '%', 0x02, 0xff ...) and from what
// the index key layout cannot represent (empty index name, '/' in the name, empty secondary key, a byte <= 0x01 in
// the secondary key, indexes on a record with an empty key).  Since the repair O-45 the leader's validation
// (server/write_validation.go) must refuse exactly the second kind, before anything is logged.
//
// Every request is also recorded as a `val` case (accept | reject, grammar of c13_hostile.go), so that the model's
// transcription of the validation (Db/Validate.v) is compared on the same inputs.  Spec verdicts:
//
//	index:unrepresentable-declaration-accepted   a put carrying such a declaration was not answered InvalidArgument
//	                                              (or the log grew although it was)
//	index:representable-declaration-refused      a request with user keys only, no sequence deltas, no ranges and
//	                                              only representable declarations was refused
//
// After the writes the accepted declarations are read back through the leader's DB (List on every index used):
// index:list-differs-from-reference as in c15_gen.go.

import (
	"context"
	"fmt"
	"sort"
	"strings"

	"google.golang.org/grpc/codes"
	"google.golang.org/grpc/status"

	"github.com/oxia-db/oxia/proto"
	"github.com/oxia-db/oxia/server"
	"github.com/oxia-db/oxia/server/kv"

	"verif/harness/internal/hx"
)

func init() {
	modes["c15leader"] = func(o *hx.Out, f hx.Flags) { c15LeaderGen(o, hx.NewRng(f.Seed^0xc15e), f.N) }
}

// the representability of a declaration, stated independently of the code: the entry key
// "__oxia/idx/<name>/<skey>\x01<escaped pkey>" must split back into the same three parts and sort by skey
func c15Representable(name, skey string) bool {
	if name == "" || strings.Contains(name, "/") || skey == "" {
		return false
	}
	for i := 0; i < len(skey); i++ {
		if skey[i] <= 1 {
			return false
		}
	}
	return true
}

func c15PutRepresentable(p putOp) bool {
	for _, d := range p.idx {
		if !c15Representable(d[0], d[1]) {
			return false
		}
	}
	return !(len(p.idx) > 0 && p.key == "" && len(p.deltas) == 0)
}

var c15BadNames = []string{"", "a/b", "a/", "/", "/a", "__oxia/idx", "%/%", "a%2F/"}
var c15BadSkeys = []string{"", "k\x01x", "\x01", "\x00", "k\x00", "ab\x00", "\x01\x01", "%s\x01"}

func c15LeaderGen(o *hx.Out, rng *hx.Rng, n int) {
	leaderEnvInMemory = true
	defer func() { leaderEnvInMemory = false }()
	for cs := 0; cs < n; cs++ {
		crng := rng.Fork()
		shard := int64(1 + crng.Intn(9))
		tag := fmt.Sprintf("c15leader#%d", cs)
		l := newLeaderEnv(o, shard, tag)
		if err := l.start(1); err != nil {
			hx.Must(err)
		}
		ref := &c15Ref{decl: map[string][][2]string{}}
		names := map[string]bool{}
		var allNames []string
		for _, f := range c15Families {
			allNames = append(allNames, f...)
		}
		ts := uint64(1000)
		for i, nreq := 0, 15+crng.Intn(20); i < nreq; i++ {
			w := &wreq{}
			for j, np := 0, 1+crng.Intn(3); j < np; j++ {
				p := putOp{key: hx.Pick(crng, c15Pks), value: []byte("v")}
				if crng.Chance(6) {
					p.key = ""
				}
				for k, nd := 0, crng.Intn(4); k < nd; k++ {
					name, skey := hx.Pick(crng, allNames), hx.Pick(crng, c15Skeys)
					switch crng.Intn(24) {
					case 0:
						name = hx.Pick(crng, c15BadNames)
					case 1:
						skey = hx.Pick(crng, c15BadSkeys)
					}
					p.idx = append(p.idx, [2]string{name, skey})
				}
				w.puts = append(w.puts, p)
			}
			if crng.Chance(20) {
				w.dels = append(w.dels, delOp{key: hx.Pick(crng, c15Pks)})
			}
			ts += 5
			w.offset, w.ts = 0, ts
			op := w.String()
			representable := true
			for _, p := range w.puts {
				representable = representable && c15PutRepresentable(p)
			}
			before := l.head()
			ctx, cancel := context.WithTimeout(context.Background(), c13Step)
			resp, err := l.lc.WriteBlock(ctx, w.toProto())
			cancel()
			after := l.head()
			refused := err != nil && status.Code(err) == codes.InvalidArgument
			switch {
			case err != nil && !refused:
				hx.Must(err)
			case !representable && (!refused || after != before):
				o.Violation("index:unrepresentable-declaration-accepted",
					fmt.Sprintf("%s: %s carries an index declaration the key layout cannot represent; answer: %v, head offset %d -> %d", tag, op, err, before, after))
			case representable && refused:
				o.Violation("index:representable-declaration-refused", fmt.Sprintf("%s: %s refused: %v", tag, op, err))
			}
			res := "accept"
			if refused {
				res = "reject"
				o.Count("c15leader:refused")
			} else {
				o.Count("c15leader:logged")
				var prs []string
				for _, pr := range resp.Puts {
					if pr.Status == proto.Status_OK {
						prs = append(prs, "OK/n")
					} else {
						prs = append(prs, pr.Status.String())
					}
				}
				ref.apply(w, "ok:"+join(prs, ",")+":"+statusesOf(resp.Deletes, delStatus)+":-")
				for _, p := range w.puts {
					for _, d := range p.idx {
						names[d[0]] = true
					}
				}
			}
			if !representable {
				o.Count("c15leader:unrepresentable-request")
			}
			o.Case("val", op, res, op)
		}
		// what was logged is read back through the leader's DB, index by index
		var used []string
		for nm := range names {
			used = append(used, nm)
		}
		sort.Strings(used)
		var db kv.DB
		server.VerifWrapLeaderDB(l.lc, func(d kv.DB) kv.DB { db = d; return d })
		for _, nm := range used {
			nm := nm
			got := guard(func() string {
				it, err := server.VerifSecondaryIndexList(&proto.ListRequest{StartInclusive: "", EndExclusive: "\xff\xff", SecondaryIndexName: &nm}, db)
				if err != nil {
					return "err:" + errKind(err)
				}
				defer it.Close()
				var ks []string
				for ; it.Valid(); it.Next() {
					ks = append(ks, hexs(it.Key()))
				}
				return join(ks, ",")
			})
			var ks []string
			for _, e := range c15InRange(ref.entries(nm), "", "\xff\xff") {
				ks = append(ks, hexs(e.pk))
			}
			if want := join(ks, ","); got != want {
				o.Violation("index:list-differs-from-reference", fmt.Sprintf("%s: List(index %q) on the leader's DB = %s, reference %s", tag, nm, got, want))
			}
			o.Count("c15leader:list")
		}
		l.close()
	}
}
