package main

// C17 (notifications), DB level: generator (-mode c17), independent reference and spec verdicts.
//
// CASE KIND  nseq <id> <shard> <threshold> <op>;<op>;...   the grammar of "seq" plus
//
//	X:<now>:<retention>   ONE round of notificationsTrimmer.trimNotifications with the clock at <now> ms and the given
//	                      retention in ms (kv.VerifTrimNotifications)      -> trimmed | nothing | err
//	                      ("trimmed" = the set of stored batches changed; the next D/H op compares the exact set)
//	XW:<now>:<retention>:<offset>:<ts>:<puts>:<dels>:<ranges>
//	                      the same round, but the request (fields of a W op) is applied WHILE the round runs: exactly when the
//	                      trimmer, having taken first/last and read its timestamps, creates its write batch (a kv.KV wrapper
//	                      handed to kv.VerifTrimNotifications fires on NewWriteBatch); if the round ends without writing, the
//	                      request is applied right after it              -> <trimmed|nothing|err>|<result of the W op>
//	Q:<from>              the leader's dispatch loop run against the quiescent DB: offset := from;
//	                      { ReadNextNotifications(offset+1); deliver; offset = last delivered } until it would wait
//	                      -> <batch>,<batch>,...|wait:<offset>   ("-" for no batch; spin:<offset> / err:<kind> otherwise)
//
// (ocaml/db_main.ml, block C17, interprets the same lines with Db/NotifStream.v: trim, dispatch.)
//
// What is generated: request histories as in the C12 stream (plain / conditional / session / indexed / sequence puts,
// deletes, delete-ranges incl. > DeleteRangeThreshold matches, several operations on one key in one request,
// session create / close requests, failing requests), notifications switched off and on the way the controllers do it
// (UpdateTerm(term, {NotificationsEnabled}) followed by EnableNotifications), trimming rounds with cut-offs at, just
// below and just above stored timestamps, the dispatch loop from every kind of start offset, re-opens (disk cases).
// 12 % of the cases use timestamps that are NOT monotone in the offset (the retention verdict is then not applied:
// documented hypothesis of c17_trim_whole_prefix_only_expired).
//
// SPEC VERDICTS (independent of the model; evaluated on the real DB's dumps and read results)
//
//	notif:batch-missing               notifications enabled, request applied, no batch under its offset
//	notif:batch-content-differs       the stored batch is not (shard, offset, timestamp, CHANGES(request)): CHANGES is computed
//	                                  here from the request, the per-operation statuses/versions of the response and which keys
//	                                  held a record before (CREATED iff none did); also: a batch where none is expected
//	notif:internal-key-exposed        a key under "__oxia/" in a batch
//	notif:change-not-covered          a user record that changed (appeared / new version / disappeared) is neither named by the
//	                                  batch with its resulting version nor inside a RANGE_DELETED range of the batch
//	notif:gap-or-duplicate-on-resume  the dispatch loop did not deliver exactly the stored batches above its start, in order
//	notif:delivered-above-commit      a delivered batch lies above the DB's commit offset
//	notif:trimmed-within-retention    a trimming round removed a batch younger than now-retention (monotone timestamps), or
//	                                  removed something that is not a prefix of the stored batches
//	notif:unexpired-batch-trimmed     a request committed while a trimming round was running (timestamp = the round's clock
//	                                  reading, i.e. younger than now-retention) has no batch afterwards: a subscriber starting
//	                                  at or below its offset never receives it. The detail carries the whole schedule as a
//	                                  replayable nseq line.

import (
	"fmt"
	"net/url"
	"os"
	"sort"
	"strconv"
	"strings"
	"time"

	"github.com/oxia-db/oxia/common/compare"
	oxtime "github.com/oxia-db/oxia/common/time"
	"github.com/oxia-db/oxia/proto"
	"github.com/oxia-db/oxia/server"
	"github.com/oxia-db/oxia/server/kv"

	"verif/harness/internal/hx"
)

func init() {
	modes["c17"] = func(o *hx.Out, f hx.Flags) {
		scale := 4
		if f.Tier == "thorough" {
			scale = 60
		}
		c17GenScale(o, hx.NewRng(f.Seed^0x5ca1e), scale)
		c17Gen(o, hx.NewRng(f.Seed^0xc17), f.N)
	}
	replayKinds["nseq"] = c17Replay
}

// ---------------------------------------------------------------- views of a dump

type c17Batch struct {
	shard  int64
	offset int64
	ts     uint64
	notifs string // canonical text (sorted)
}

type c17View struct {
	recs    map[string]int64   // user key -> version id
	batches map[int64]c17Batch // stored batches by offset
	offsets []int64            // sorted
}

func c17ViewOf(d []dumpEntry) *c17View {
	v := &c17View{recs: map[string]int64{}, batches: map[int64]c17Batch{}}
	for _, x := range d {
		switch {
		case strings.HasPrefix(x.key, notifPrefix) && strings.HasPrefix(x.txt, "B/"):
			f := strings.SplitN(x.txt, "/", 5)
			sh, _ := strconv.ParseInt(f[1], 10, 64)
			off, _ := strconv.ParseInt(f[2], 10, 64)
			ts, _ := strconv.ParseUint(f[3], 10, 64)
			v.batches[off] = c17Batch{sh, off, ts, f[4]}
			v.offsets = append(v.offsets, off)
		case strings.HasPrefix(x.key, internalPrefix):
		default:
			if x.se != nil {
				v.recs[x.key] = x.se.VersionId
			}
		}
	}
	sort.Slice(v.offsets, func(i, j int) bool { return v.offsets[i] < v.offsets[j] })
	return v
}

type c17Notif struct {
	key  string
	kind byte // c m d r
	ver  int64
	last string
}

func c17ParseNotifs(s string) []c17Notif {
	var res []c17Notif
	for _, x := range splitList(s, "&") {
		i := strings.IndexByte(x, '~')
		n := c17Notif{key: unhexs(x[:i]), kind: x[i+1]}
		switch n.kind {
		case 'c', 'm':
			n.ver, _ = strconv.ParseInt(x[i+2:], 10, 64)
		case 'r':
			n.last = unhexs(x[i+2:])
		}
		res = append(res, n)
	}
	return res
}

func c17InRange(start, end, k string) bool {
	return compare.CompareWithSlash([]byte(start), []byte(k)) <= 0 && compare.CompareWithSlash([]byte(k), []byte(end)) < 0
}

// ---------------------------------------------------------------- the reference: CHANGES(request)

type c17PutResp struct {
	status string
	ver    int64
	key    *string
}

// c17ParseWrite splits the canonical result of a W op.
func c17ParseWrite(res string) (ok bool, puts []c17PutResp, dels, ranges []string) {
	if !strings.HasPrefix(res, "ok:") {
		return false, nil, nil, nil
	}
	f := strings.Split(res[3:], ":")
	for _, p := range splitList(f[0], ",") {
		t := strings.Split(p, "/")
		pr := c17PutResp{status: t[0]}
		if len(t) >= 8 {
			pr.ver, _ = strconv.ParseInt(t[1], 10, 64)
			pr.key = parseOptS(t[7])
		}
		puts = append(puts, pr)
	}
	return true, puts, splitList(f[1], ","), splitList(f[2], ",")
}

// c17Changes: the user keys the request created / modified / deleted / range-deleted with their resulting versions,
// the last operation on a key being the one reported. [exists] = the user keys holding a record before the request.
func c17Changes(exists map[string]bool, w *wreq, puts []c17PutResp, dels, ranges []string) string {
	ev := map[string]string{}
	ex := map[string]bool{}
	for k := range exists {
		ex[k] = true
	}
	set := func(k, v string) {
		if !strings.HasPrefix(k, internalPrefix) {
			ev[k] = v
		}
	}
	for i, p := range w.puts {
		if i >= len(puts) || puts[i].status != "OK" {
			continue
		}
		k, created := p.key, false
		if len(p.deltas) > 0 {
			if puts[i].key == nil {
				continue
			}
			k, created = *puts[i].key, true // a sequence put creates a fresh record
		} else {
			created = !ex[k]
		}
		ex[k] = true
		if created {
			set(k, "c"+strconv.FormatInt(puts[i].ver, 10))
		} else {
			set(k, "m"+strconv.FormatInt(puts[i].ver, 10))
		}
	}
	for i, d := range w.dels {
		if i < len(dels) && dels[i] == "OK" {
			delete(ex, d.key)
			set(d.key, "d")
		}
	}
	for i, r := range w.ranges {
		if i < len(ranges) && ranges[i] == "OK" {
			for k := range ex {
				if c17InRange(r.start, r.end, k) {
					delete(ex, k)
				}
			}
			// reported under the start key; an empty range (start >= end) deletes nothing and is not reported;
			// of two ranges with the same start the one that covers both is the one reported
			if compare.CompareWithSlash([]byte(r.start), []byte(r.end)) >= 0 {
				continue
			}
			if prev, ok := ev[r.start]; ok && prev[0] == 'r' && compare.CompareWithSlash([]byte(unhexs(prev[1:])), []byte(r.end)) >= 0 {
				continue
			}
			set(r.start, "r"+hexs(r.end))
		}
	}
	var xs []string
	for k, v := range ev {
		xs = append(xs, hexs(k)+"~"+v)
	}
	sort.Strings(xs)
	return join(xs, "&")
}

// ---------------------------------------------------------------- executing the C17 ops and judging

type c17Run struct {
	r        *runner
	o        *hx.Out
	enabled  bool
	monotone bool
	lastTs   uint64
	maxTs    uint64
	offOf    map[int64]uint64 // timestamp per applied offset
}

func (c *c17Run) viol(sig, format string, a ...any) {
	c.o.Violation(sig, c.r.caseTag+": "+fmt.Sprintf(format, a...))
}

func (c *c17Run) existsBefore(v *c17View) map[string]bool {
	ex := map[string]bool{}
	for k := range v.recs {
		ex[k] = true
	}
	return ex
}

// write executes one W op and evaluates the batch verdicts.
func (c *c17Run) write(w *wreq) string {
	pre := c17ViewOf(c.r.e.dump())
	op := w.String()
	res := c.r.do(op)
	post := c17ViewOf(c.r.e.dump())
	c.judgeWrite(w, op, res, pre, post, "notif:batch-missing")
	return res
}

// judgeWrite evaluates the batch verdicts for one applied W op; [missingSig] is the signature used when the batch
// of an applied request is not stored.
func (c *c17Run) judgeWrite(w *wreq, op, res string, pre, post *c17View, missingSig string) string {
	ctx := fmt.Sprintf("request %s -> %s", op, res)
	ok, puts, dels, ranges := c17ParseWrite(res)
	b, stored := post.batches[w.offset]
	_, storedBefore := pre.batches[w.offset]
	if !ok {
		if stored && !storedBefore {
			c.viol("notif:batch-content-differs", "%s: the request failed but a batch is stored under its offset: %s", ctx, b.notifs)
		}
		return res
	}
	c.offOf[w.offset] = w.ts
	if !c.enabled {
		if stored && !storedBefore {
			c.viol("notif:batch-content-differs", "%s: notifications are disabled but a batch is stored under offset %d", ctx, w.offset)
		}
		return res
	}
	if !stored {
		if missingSig == "notif:batch-missing" {
			c.viol(missingSig, "%s: no batch under offset %d", ctx, w.offset)
		} else {
			c.viol(missingSig, "%s: no batch under offset %d after the round; stored offsets before %v, after %v; schedule: nseq 0 %d %d %s",
				ctx, w.offset, pre.offsets, post.offsets, c.r.e.shard, kv.DeleteRangeThreshold, strings.Join(c.r.ops, ";"))
		}
		return res
	}
	c.o.Count("c17:batch-checked")
	want := c17Changes(c.existsBefore(pre), w, puts, dels, ranges)
	if b.shard != c.r.e.shard || b.ts != w.ts || b.notifs != want {
		c.viol("notif:batch-content-differs", "%s: stored batch %d/%d/%d/%s, expected %d/%d/%d/%s", ctx, b.shard, b.offset, b.ts, b.notifs,
			c.r.e.shard, w.offset, w.ts, want)
	}
	ns := c17ParseNotifs(b.notifs)
	for _, n := range ns {
		if strings.HasPrefix(n.key, internalPrefix) {
			c.viol("notif:internal-key-exposed", "%s: batch names the internal key %s", ctx, hexs(n.key))
		}
	}
	if want == "-" {
		c.o.Count("c17:empty-batch")
	}
	// coverage: every user record that changed is described by the batch
	point := map[string]c17Notif{}
	var rngs []c17Notif
	for _, n := range ns {
		if n.kind == 'r' {
			rngs = append(rngs, n)
		} else {
			point[n.key] = n
		}
	}
	keys := map[string]bool{}
	for k := range pre.recs {
		keys[k] = true
	}
	for k := range post.recs {
		keys[k] = true
	}
	var sorted []string
	for k := range keys {
		sorted = append(sorted, k)
	}
	sort.Strings(sorted)
	for _, k := range sorted {
		v0, in0 := pre.recs[k]
		v1, in1 := post.recs[k]
		if in0 == in1 && v0 == v1 {
			continue
		}
		covered := false
		if !in1 {
			for _, rg := range rngs {
				if c17InRange(rg.key, rg.last, k) {
					covered = true
				}
			}
			if n, ok := point[k]; ok && n.kind == 'd' {
				covered = true
			}
		} else if n, ok := point[k]; ok && (n.kind == 'c' || n.kind == 'm') && n.ver == v1 {
			covered = true
		}
		if !covered {
			c.viol("notif:change-not-covered", "%s: record %s changed (version %s -> %s) but the batch %s does not describe it", ctx, hexs(k),
				c17VerS(v0, in0), c17VerS(v1, in1), b.notifs)
			break
		}
	}
	// the read side sees the same batch first
	if rd := c.r.do(fmt.Sprintf("N:%d", w.offset)); !strings.HasPrefix(rd, batchText(b)) {
		c.viol("notif:batch-missing", "%s: ReadNextNotifications(%d) = %s", ctx, w.offset, rd)
	}
	return res
}

func c17VerS(v int64, in bool) string {
	if !in {
		return "absent"
	}
	return strconv.FormatInt(v, 10)
}

func batchText(b c17Batch) string {
	return fmt.Sprintf("%d/%d/%d/%s", b.shard, b.offset, b.ts, b.notifs)
}

// c17Exec executes the two ops this file adds (everything else is runner.exec).
func c17Exec(r *runner, op string) (string, bool) {
	f := strings.Split(op, ":")
	switch f[0] {
	case "X":
		now, err := strconv.ParseInt(f[1], 10, 64)
		hx.Must(err)
		ret, err := strconv.ParseInt(f[2], 10, 64)
		hx.Must(err)
		before := c17ViewOf(r.e.dump())
		clk := &oxtime.MockedClock{}
		clk.Set(now)
		err = kv.VerifTrimNotifications(kv.VerifDBStore(r.e.db), time.Duration(ret)*time.Millisecond, clk)
		if err != nil {
			if os.Getenv("C17_DEBUG") != "" {
				fmt.Fprintln(os.Stderr, "trim error:", err)
			}
			return "err", true
		}
		after := c17ViewOf(r.e.dump())
		if len(after.offsets) != len(before.offsets) {
			return "trimmed", true
		}
		return "nothing", true
	case "Q":
		from, err := strconv.ParseInt(f[1], 10, 64)
		hx.Must(err)
		return guard(func() string {
			var xs []string
			offset := from
			for iter := 0; iter < 1000; iter++ {
				rd := r.exec(fmt.Sprintf("N:%d", offset+1))
				switch {
				case rd == "err:blocked":
					return join(xs, ",") + "|wait:" + strconv.FormatInt(offset, 10)
				case strings.HasPrefix(rd, "err:"):
					return join(xs, ",") + "|" + rd
				case rd == "-":
					return join(xs, ",") + "|spin:" + strconv.FormatInt(offset, 10)
				}
				bs := strings.Split(rd, ",")
				xs = append(xs, bs...)
				last := strings.Split(bs[len(bs)-1], "/")
				offset, err = strconv.ParseInt(last[1], 10, 64)
				hx.Must(err)
			}
			return join(xs, ",") + "|fuel"
		}), true
	}
	return "", false
}

func (c *c17Run) do(op string) string {
	if res, mine := c17Exec(c.r, op); mine {
		c.r.ops = append(c.r.ops, op)
		c.r.res = append(c.r.res, res)
		return res
	}
	return c.r.do(op)
}

// trim runs one trimming round and judges it.
func (c *c17Run) trim(now, ret int64) {
	before := c17ViewOf(c.r.e.dump())
	res := c.do(fmt.Sprintf("X:%d:%d", now, ret))
	after := c17ViewOf(c.r.e.dump())
	c.o.Count("c17:trim:" + res)
	c.judgeTrim(before, after, now, ret, res, -1)
}

// c17GateKV is the store handed to the trimmer for an XW op: the first NewWriteBatch (the trimmer has finished reading by
// then and is about to write its range tombstone) fires the concurrent request.
type c17GateKV struct {
	kv.KV
	fire  func()
	fired bool
}

func (g *c17GateKV) NewWriteBatch() kv.WriteBatch {
	if !g.fired {
		g.fired = true
		g.fire()
	}
	return g.KV.NewWriteBatch()
}

// trimWithWrite: one trimming round during which the request [w] commits (op XW), judged for both.
func (c *c17Run) trimWithWrite(now, ret int64, w *wreq) {
	before := c17ViewOf(c.r.e.dump())
	wop := w.String()
	var wres string
	inside := false
	gate := &c17GateKV{KV: kv.VerifDBStore(c.r.e.db), fire: func() { wres = c.r.exec(wop); inside = true }}
	clk := &oxtime.MockedClock{}
	clk.Set(now)
	err := kv.VerifTrimNotifications(gate, time.Duration(ret)*time.Millisecond, clk)
	if !gate.fired {
		wres = c.r.exec(wop) // the round ended without writing anything: the request follows it
	}
	after := c17ViewOf(c.r.e.dump())
	xres := "nothing"
	if err != nil {
		xres = "err"
	} else {
		for _, off := range before.offsets {
			if _, kept := after.batches[off]; !kept {
				xres = "trimmed"
			}
		}
	}
	c.r.ops = append(c.r.ops, fmt.Sprintf("XW:%d:%d:%s", now, ret, wop[2:]))
	c.r.res = append(c.r.res, xres+"|"+wres)
	c.o.Count("c17:trim-with-write:" + xres)
	if inside {
		c.o.Count("c17:write-landed-inside-round")
		if len(before.offsets) > 0 && int64(before.batches[before.offsets[len(before.offsets)-1]].ts) <= now-ret {
			c.o.Count("c17:write-inside-round-everything-expired")
		}
	}
	c.judgeTrim(before, after, now, ret, xres, w.offset)
	sig := "notif:batch-missing"
	if inside && int64(w.ts) > now-ret {
		sig = "notif:unexpired-batch-trimmed"
	}
	c.judgeWrite(w, wop, wres, before, after, sig)
	if c.enabled && strings.HasPrefix(wres, "ok:") {
		// a subscriber that saw everything below the request's offset must now receive its batch
		if rd := c.do(fmt.Sprintf("Q:%d", w.offset-1)); !strings.HasPrefix(rd, fmt.Sprintf("%d/%d/", c.r.e.shard, w.offset)) {
			c.viol(sig, "a subscriber resuming at %d after the round receives %s, not the batch of offset %d (timestamp %d, round at now=%d retention=%d); schedule: nseq 0 %d %d %s",
				w.offset-1, rd, w.offset, w.ts, now, ret, c.r.e.shard, kv.DeleteRangeThreshold, strings.Join(c.r.ops, ";"))
		}
	}
}

// judgeTrim: what a round may remove. [written] = offset of a request applied during the round (-1: none).
func (c *c17Run) judgeTrim(before, after *c17View, now, ret int64, res string, written int64) {
	ctx := fmt.Sprintf("trim now=%d retention=%d (%s), stored before %v after %v", now, ret, res, before.offsets, after.offsets)
	cutoff := now - ret
	minKept := int64(-1)
	for _, off := range after.offsets {
		if off != written {
			minKept = off
			break
		}
	}
	for _, off := range before.offsets {
		if _, kept := after.batches[off]; kept {
			continue
		}
		if minKept >= 0 && off > minKept {
			c.viol("notif:trimmed-within-retention", "%s: offset %d was removed although the lower offset %d was kept (not a prefix)", ctx, off, minKept)
			return
		}
		if c.monotone && int64(before.batches[off].ts) > cutoff {
			c.viol("notif:trimmed-within-retention", "%s: offset %d (timestamp %d) is younger than the cut-off %d", ctx, off, before.batches[off].ts, cutoff)
			return
		}
	}
	for _, off := range after.offsets {
		if _, was := before.batches[off]; !was && off != written {
			c.viol("notif:batch-content-differs", "%s: offset %d appeared during a trimming round", ctx, off)
		}
	}
}

// stream runs the dispatch loop from [from] and judges what it delivers.
func (c *c17Run) stream(from int64) {
	view := c17ViewOf(c.r.e.dump())
	res := c.do(fmt.Sprintf("Q:%d", from))
	c.o.Count("c17:stream")
	ctx := fmt.Sprintf("dispatch from %d -> %s (stored offsets %v)", from, res, view.offsets)
	parts := strings.SplitN(res, "|", 2)
	if len(parts) != 2 {
		return
	}
	if strings.HasPrefix(parts[1], "err:notifications_disabled") {
		return
	}
	commit := c.r.exec("C")
	co, _ := strconv.ParseInt(commit, 10, 64)
	var want []string
	for _, off := range view.offsets {
		if off > from {
			want = append(want, batchText(view.batches[off]))
		}
	}
	got := splitList(parts[0], ",")
	prev := from
	for _, g := range got {
		f := strings.Split(g, "/")
		off, _ := strconv.ParseInt(f[1], 10, 64)
		if off > co {
			c.viol("notif:delivered-above-commit", "%s: batch %d is above the commit offset %d", ctx, off, co)
			return
		}
		if off <= prev {
			c.viol("notif:gap-or-duplicate-on-resume", "%s: batch %d after %d", ctx, off, prev)
			return
		}
		prev = off
	}
	if strings.HasPrefix(parts[1], "spin:") && len(got) < len(want) && join(got, ",") == join(want[:len(got)], ",") {
		// the loop asks for the same window again and again although retained batches lie above its offset
		at := strings.TrimPrefix(parts[1], "spin:")
		o, _ := strconv.ParseInt(at, 10, 64)
		same := 0
		for i := 0; i < 50; i++ {
			if c.r.exec(fmt.Sprintf("N:%d", o+1)) == "-" {
				same++
			}
		}
		short := ctx
		if len(short) > 300 {
			short = short[:300] + "..."
		}
		c.viol("notif:committed-batch-not-delivered", "%s: after %d delivered batches the loop sits at offset %d: ReadNextNotifications(%d) returned no batch in %d of 50 further rounds "+
			"although %d retained batches lie above (next: offset %s); schedule: nseq 0 %d %d %s", short, len(got), o, o+1, same, len(want)-len(got),
			strings.SplitN(want[len(got)], "/", 3)[1], c.r.e.shard, kv.DeleteRangeThreshold, c17Abbrev(c.r.ops))
		return
	}
	if join(got, ",") != join(want, ",") {
		if len(ctx) > 600 {
			ctx = ctx[:600] + "..."
		}
		w := join(want, ",")
		if len(w) > 300 {
			w = w[:300] + "..."
		}
		c.viol("notif:gap-or-duplicate-on-resume", "%s: expected exactly %s", ctx, w)
	}
}

// c17Abbrev keeps a long schedule printable: runs of plain writes are summarised.
func c17Abbrev(ops []string) string {
	if len(ops) < 60 {
		return strings.Join(ops, ";")
	}
	var out []string
	run := 0
	flush := func() {
		if run > 0 {
			out = append(out, fmt.Sprintf("<%d writes>", run))
			run = 0
		}
	}
	for _, op := range ops {
		if strings.HasPrefix(op, "W:") {
			run++
			continue
		}
		flush()
		out = append(out, op)
	}
	flush()
	return strings.Join(out, ";")
}

// ---------------------------------------------------------------- scale: hundreds of offsets
//
// 150-400 (once: 1100) small writes, one millisecond apart; a trimming round that removes a long prefix; a stretch of
// >= 100 writes with notifications disabled; then the dispatch loop from every interesting offset: so that the run of
// offsets WITHOUT a stored batch right after the subscriber's position is 99 / 100 / 101 / much longer, in front of
// retained batches; backlogs of more than 100 and more than 1000 batches.
func c17GenScale(o *hx.Out, rng *hx.Rng, cases int) {
	for cno := 0; cno < cases; cno++ {
		crng := rng.Fork()
		shard := int64(1 + crng.Intn(9))
		tag := fmt.Sprintf("c17scale#%d", cno)
		runCase(o, "nseq", shard, false, tag, fmt.Sprintf("%d", crng.U64()), func(r *runner) {
			c := &c17Run{r: r, o: o, enabled: true, monotone: true, offOf: map[int64]uint64{}}
			n := 150 + crng.Intn(250)
			if cno == 0 {
				n = 1100
			}
			// a disabled stretch [d, d+m) somewhere in the second half, in every other case
			d, m := int64(-1), int64(0)
			if cno%2 == 1 {
				m = int64(hx.Pick(crng, []int{99, 100, 101, 130}))
				d = int64(n/2) + int64(crng.Intn(n/2-int(m)-5))
			}
			ts := uint64(1000)
			term := int64(1)
			keys := []string{"a", "b", "c", "a/b", "k\x01x", "zz"}
			for off := int64(0); off < int64(n); off++ {
				if off == d {
					c.do(fmt.Sprintf("T:%d:0", term))
					c.do("E:0")
					c.enabled = false
					term++
				}
				if off == d+m && d >= 0 {
					c.do(fmt.Sprintf("T:%d:1", term))
					c.do("E:1")
					c.enabled = true
					term++
				}
				ts++
				w := &wreq{offset: off, ts: ts, puts: []putOp{{key: hx.Pick(crng, keys), value: []byte{byte('0' + off%10)}}}}
				if crng.Chance(10) {
					w.dels = append(w.dels, delOp{key: hx.Pick(crng, keys)})
				}
				c.r.do(w.String())
			}
			o.CountN("scale:writes", n)
			last := int64(n - 1)
			streams := func(froms []int64) {
				seen := map[int64]bool{}
				for _, f := range froms {
					if f >= -1 && f <= last+1 && !seen[f] {
						seen[f] = true
						c.stream(f)
					}
				}
			}
			// backlog of everything (> 100, once > 1000)
			streams([]int64{-1, last - 100, last - 101, last - 99})
			if d >= 0 {
				// the disabled stretch is a hole inside the log: before it, at its edges, inside
				streams([]int64{d - 1, d - 2, d, d + m/2, d + m - 1, d + m, d - 50})
				o.Count("scale:disabled-stretch")
			}
			// a trimming round removes the prefix 0..t (clock mocked; one batch per millisecond)
			t := int64(100 + crng.Intn(n/3))
			if d >= 0 && t >= d {
				t = d - 3
			}
			tsT := uint64(1001) + uint64(t)
			c.trim(int64(tsT)+1000, 1000)
			o.Count("scale:trim-long-prefix")
			streams([]int64{-1, 0, t - 100, t - 99, t - 98, t - 101, t - 1, t, t + 1, t / 2, 10})
			// something commits afterwards: every one of these subscribers must get it as well
			ts++
			c.r.do((&wreq{offset: last + 1, ts: ts, puts: []putOp{{key: "late", value: []byte("v")}}}).String())
			last++
			streams([]int64{10, t - 100, t, last - 1})
			c.do("H")
		})
	}
}

// ---------------------------------------------------------------- generator

func (c *c17Run) nextOffTs(g *gen) (int64, uint64) {
	g.off++
	step := uint64(1 + g.rng.Intn(20))
	if g.rng.Chance(15) {
		step = 0 // equal timestamps on neighbouring offsets
	}
	if !c.monotone && g.rng.Chance(25) && c.lastTs > 30 {
		c.lastTs -= uint64(1 + g.rng.Intn(30))
	} else {
		c.lastTs += step
	}
	if c.lastTs > c.maxTs {
		c.maxTs = c.lastTs
	}
	return g.off, c.lastTs
}

func (c *c17Run) genWrite(g *gen, w *wreq) string {
	w.offset, w.ts = c.nextOffTs(g)
	g.o.CountN("put", len(w.puts))
	g.o.CountN("delete", len(w.dels))
	g.o.CountN("delete-range", len(w.ranges))
	return c.write(w)
}

func (c *c17Run) createSession(g *gen) {
	md := &proto.SessionMetadata{TimeoutMs: uint32(5000 + g.rng.Intn(1000)), Identity: "client-" + fmt.Sprint(g.rng.Intn(3))}
	val, err := md.MarshalVT()
	hx.Must(err)
	id := g.off + 1
	c.genWrite(g, &wreq{puts: []putOp{{key: server.SessionKey(server.SessionId(id)), value: val}}})
	g.sessions = append(g.sessions, id)
	g.o.Count("request:create-session")
}

func (c *c17Run) closeSession(g *gen, id int64) {
	sk := server.SessionKey(server.SessionId(id))
	it, err := c.r.e.db.List(&proto.ListRequest{StartInclusive: sk + "/", EndExclusive: sk + "//"})
	hx.Must(err)
	w := &wreq{}
	for ; it.Valid(); it.Next() {
		if k, err := url.PathUnescape(it.Key()[len(sk)+1:]); err == nil && k != "" {
			w.dels = append(w.dels, delOp{key: k})
		}
	}
	it.Close()
	w.dels = append(w.dels, delOp{key: sk})
	w.ranges = append(w.ranges, rangeOp{sk + "/", sk + "//"})
	c.genWrite(g, w)
	g.o.Count("request:close-session")
}

// requests whose operations collide on one key of the notification map
func (c *c17Run) collidingRequest(g *gen) *wreq {
	w := &wreq{}
	k := g.someKey()
	switch g.rng.Intn(4) {
	case 0: // put, delete, put again on one key
		w.puts = append(w.puts, putOp{key: k, value: []byte("1")}, putOp{key: k, value: []byte("2")})
		w.dels = append(w.dels, delOp{key: k})
	case 1: // put then a range that starts at the same key and covers it
		w.puts = append(w.puts, putOp{key: k, value: []byte("1")})
		if r, ok := g.userRange(); ok && !sweepsInternal(k, r.end) {
			w.ranges = append(w.ranges, rangeOp{k, r.end})
		}
	case 2: // put and delete of different keys plus a range over both
		k2 := g.someKey()
		w.puts = append(w.puts, putOp{key: k, value: []byte("1")})
		w.dels = append(w.dels, delOp{key: k2})
		if r, ok := g.userRange(); ok {
			w.ranges = append(w.ranges, r)
		}
	default: // two ranges, nested or overlapping, different start keys
		if r1, ok := g.userRange(); ok {
			w.ranges = append(w.ranges, r1)
			if r2, ok := g.userRange(); ok && r2.start != r1.start {
				w.ranges = append(w.ranges, r2)
			}
		}
	}
	if len(w.puts)+len(w.dels)+len(w.ranges) == 0 {
		w.puts = append(w.puts, putOp{key: k, value: []byte("x")})
	}
	g.o.Count("request:colliding")
	return w
}

func c17Gen(o *hx.Out, rng *hx.Rng, n int) {
	for cno := 0; cno < n; cno++ {
		crng := rng.Fork()
		shard := int64(1 + crng.Intn(9))
		disk := crng.Chance(6)
		tag := fmt.Sprintf("c17case#%d", cno)
		runCase(o, "nseq", shard, disk, tag, fmt.Sprintf("%d", crng.U64()), func(r *runner) {
			r.ref = newRef()
			g := &gen{rng: crng, r: r, o: o, off: -1, seqParts: map[string]int{}}
			c := &c17Run{r: r, o: o, enabled: true, monotone: !crng.Chance(12), lastTs: 1000 + uint64(crng.Intn(100000)), offOf: map[int64]uint64{}}
			if !c.monotone {
				o.Count("case:non-monotone-timestamps")
			}
			if disk {
				o.Count("case:on-disk")
			}
			term := int64(1)
			toggle := func(en bool) {
				// what NewTerm does on both controllers: UpdateTerm(term, options), then EnableNotifications(options)
				c.do(fmt.Sprintf("T:%d:%d", term, c17b2i(en)))
				c.do(fmt.Sprintf("E:%d", c17b2i(en)))
				c.enabled = en
				term++
				o.Count(fmt.Sprintf("toggle:%v", en))
			}
			if crng.Chance(20) {
				toggle(crng.Chance(70))
			}
			nreq := 12 + crng.Intn(30)
			for i := 0; i < nreq; i++ {
				switch x := crng.Intn(100); {
				case x < 6:
					c.createSession(g)
				case x < 10 && len(g.sessions) > 0:
					c.closeSession(g, hx.Pick(crng, g.sessions))
				case x < 13:
					c.genWrite(g, g.failingRequest())
				case x < 17:
					toggle(!c.enabled || crng.Chance(30))
				case x < 19 && disk:
					c.do("R")
					// NewDB enables notifications; the controllers then call EnableNotifications(term options)
					c.do(fmt.Sprintf("E:%d", c17b2i(c.enabled)))
					o.Count("reopen")
				case x < 27:
					c.genWrite(g, c.collidingRequest(g))
				case x < 29 && i > 2:
					g.off++ // an offset that is never applied to this DB (a failed application elsewhere in the log)
					o.Count("offset-skipped")
				default:
					c.genWrite(g, g.mixedRequest())
				}
				if crng.Chance(30) {
					from := hx.Pick(crng, []int64{-1, 0, g.off, g.off - 1, g.off / 2, g.off + 1, g.off - 2, 1})
					c.stream(from)
				}
				if crng.Chance(12) {
					// cut-offs around stored timestamps
					ret := int64(hx.Pick(crng, []int{0, 1, 50, 1000, 100000}))
					var cut int64
					switch crng.Intn(4) {
					case 0:
						cut = int64(c.lastTs)
					case 1:
						cut = int64(c.lastTs) - int64(crng.Intn(40))
					case 2:
						cut = int64(c.maxTs) + 5
					default:
						cut = int64(c.lastTs) - int64(crng.Intn(400))
					}
					c.trim(cut+ret, ret)
					if crng.Chance(50) {
						c.stream(hx.Pick(crng, []int64{-1, 0, g.off / 2, g.off - 1}))
					}
				}
				if crng.Chance(10) {
					// the shard was idle for longer than the retention (everything stored has expired) - or only partly -
					// and a request commits while the trimming round runs
					ret := int64(hx.Pick(crng, []int{1, 50, 1000}))
					now := int64(c.maxTs) + ret + int64(crng.Intn(3))
					if crng.Chance(25) {
						now = int64(c.lastTs) - int64(crng.Intn(30)) + ret
					}
					w := g.mixedRequest()
					g.off++
					w.offset = g.off
					if uint64(now) > c.lastTs || !c.monotone {
						c.lastTs = uint64(now)
					}
					w.ts = c.lastTs
					if c.lastTs > c.maxTs {
						c.maxTs = c.lastTs
					}
					c.trimWithWrite(now, ret, w)
				}
				if crng.Chance(25) {
					c.do("H")
				}
			}
			c.stream(-1)
			c.do("D")
		})
	}
}

func c17b2i(b bool) int {
	if b {
		return 1
	}
	return 0
}

// ---------------------------------------------------------------- replay of nseq lines (corpus, -replay)

func c17Replay(o *hx.Out, t []string) {
	// nseq <id> <shard> <thr> <ops>
	shard, err := strconv.ParseInt(t[2], 10, 64)
	hx.Must(err)
	ops := strings.Split(t[4], ";")
	disk := false
	for _, op := range ops {
		if op == "R" {
			disk = true
		}
	}
	runCase(o, "nseq", shard, disk, "replay", "", func(r *runner) {
		r.ref = newRef()
		c := &c17Run{r: r, o: o, enabled: true, monotone: true, offOf: map[int64]uint64{}}
		var prevTs uint64
		skipQ := ""
		for _, op := range ops {
			if op != skipQ && !strings.HasPrefix(op, "N:") {
				skipQ = ""
			}
			f := strings.Split(op, ":")
			switch f[0] {
			case "W":
				w := parseW(f)
				if w.ts < prevTs {
					c.monotone = false
				}
				prevTs = w.ts
				c.write(w)
			case "X":
				now, _ := strconv.ParseInt(f[1], 10, 64)
				ret, _ := strconv.ParseInt(f[2], 10, 64)
				c.trim(now, ret)
			case "XW":
				now, _ := strconv.ParseInt(f[1], 10, 64)
				ret, _ := strconv.ParseInt(f[2], 10, 64)
				w := parseW(append([]string{"W"}, f[3:]...))
				if w.ts < prevTs {
					c.monotone = false
				}
				prevTs = w.ts
				c.trimWithWrite(now, ret, w)
				skipQ = fmt.Sprintf("Q:%d", w.offset-1)
			case "Q":
				if op == skipQ {
					skipQ = ""
					continue
				}
				from, _ := strconv.ParseInt(f[1], 10, 64)
				c.stream(from)
			case "E":
				c.enabled = f[1] == "1"
				c.do(op)
			case "N":
				// the reads issued by write() are re-issued there; skip the recorded copy that follows a W
				if len(r.ops) > 0 && r.ops[len(r.ops)-1] == op {
					continue
				}
				c.do(op)
			default:
				c.do(op)
			}
		}
	})
}
