package main

// C06, snapshot transfer: the chunking state machine of the sender (server/kv/kv_pebble_snapshot.go:
// pebbleSnapshot.Valid/Chunk/Next) and the reassembly of the receiver (server/kv/kv_pebble.go:
// pebbleSnapshotLoader.AddChunk/Complete), against the model Db/Snapshot.v.
//
// CASE LINES (model: ocaml/db_main.ml, block C06)
//
//	snapsend <id> <chunksize> <file>|<file>|...      file = <namehex>=<contenthex>   ("-" = empty), sorted by name
//	    -> <namehex>/<index>/<count>/<contenthex>,...   the chunk stream | panic
//	snapload <id> <msg>;<msg>;...                    msg = <namehex>/<index>/<count>/<contenthex>
//	    -> ok:<namehex>=<contenthex>,...  (the directory afterwards, sorted by name; "-" = empty directory)
//	     | err@<i>:prev_unfinished | err@<i>:invalid_file | err@<i>:other
//
// SPEC VERDICT (independent of the model): snapshot:chunk-reassembly-differs
//   - the chunks of a file do not concatenate to the file / a chunk exceeds the chunk size / the labels are
//     not (name, 0..count-1, count);
//   - the directory rebuilt by the loader from the sender's stream differs from the sender's directory.

import (
	"bytes"
	"errors"
	"fmt"
	"os"
	"path/filepath"
	"sort"
	"strconv"
	"strings"

	"github.com/oxia-db/oxia/server/kv"

	"verif/harness/internal/hx"
)

type c06File struct {
	name    string
	content []byte
}

type c06Msg struct {
	name         string
	index, count int32
	content      []byte
}

func (m c06Msg) String() string {
	return fmt.Sprintf("%s/%d/%d/%s", hexs(m.name), m.index, m.count, hx.Hex(m.content))
}

func c06TmpDir(tag string) string {
	base := os.Getenv("VERIF_TMP")
	if base == "" {
		base = "/var/tmp"
	}
	envCounter++
	d := filepath.Join(base, fmt.Sprintf("h_db06_%s_%d_%d", tag, os.Getpid(), envCounter))
	hx.Must(os.MkdirAll(d, 0o755))
	return d
}

// withChunkSize runs f with kv.MaxSnapshotChunkSize = n (0: the code's default, 1 MiB).
func withChunkSize(n int64, f func()) {
	old := kv.MaxSnapshotChunkSize
	if n > 0 {
		kv.MaxSnapshotChunkSize = n
	}
	defer func() { kv.MaxSnapshotChunkSize = old }()
	f()
}

// drain walks a snapshot exactly as followerCursor.sendSnapshot does.
func c06Drain(snap kv.Snapshot) (msgs []c06Msg, panicked bool) {
	defer func() {
		if x := recover(); x != nil {
			panicked = true
		}
	}()
	for ; snap.Valid(); snap.Next() {
		ch, err := snap.Chunk()
		hx.Must(err)
		msgs = append(msgs, c06Msg{ch.Name(), ch.Index(), ch.TotalCount(), append([]byte(nil), ch.Content()...)})
	}
	return msgs, false
}

func c06ReadDir(dir string) []c06File {
	des, err := os.ReadDir(dir)
	if err != nil {
		return nil
	}
	var fs []c06File
	for _, de := range des {
		if de.IsDir() {
			continue
		}
		b, err := os.ReadFile(filepath.Join(dir, de.Name()))
		hx.Must(err)
		fs = append(fs, c06File{de.Name(), b})
	}
	sort.Slice(fs, func(i, j int) bool { return fs[i].name < fs[j].name })
	return fs
}

func c06FilesText(fs []c06File) string {
	var xs []string
	for _, f := range fs {
		xs = append(xs, hexs(f.name)+"="+hx.Hex(f.content))
	}
	return join(xs, ",")
}

// checkStream evaluates the specification directly on a chunk stream of the sender.
func c06CheckStream(o *hx.Out, n int64, files []c06File, msgs []c06Msg, ctx string) {
	viol := func(format string, a ...any) {
		o.Violation("snapshot:chunk-reassembly-differs", ctx+": "+fmt.Sprintf(format, a...))
	}
	i := 0
	for _, f := range files {
		var acc []byte
		if i >= len(msgs) {
			viol("no chunk for file %q", f.name)
			return
		}
		count := msgs[i].count
		for k := int32(0); k < count; k++ {
			if i >= len(msgs) {
				viol("stream ends inside file %q (chunk %d of %d)", f.name, k, count)
				return
			}
			m := msgs[i]
			i++
			if m.name != f.name || m.index != k || m.count != count {
				viol("chunk labelled (%q, %d, %d), expected (%q, %d, %d)", m.name, m.index, m.count, f.name, k, count)
				return
			}
			if int64(len(m.content)) > n {
				viol("chunk %d of %q has %d bytes, chunk size is %d", k, f.name, len(m.content), n)
				return
			}
			acc = append(acc, m.content...)
		}
		if !bytes.Equal(acc, f.content) {
			viol("the %d chunks of %q concatenate to %d bytes, the file has %d (chunk size %d)", count, f.name, len(acc), len(f.content), n)
			return
		}
	}
	if i != len(msgs) {
		viol("%d chunks after the last file", len(msgs)-i)
	}
}

func c06LoadErrKind(err error) string {
	switch {
	case strings.Contains(err.Error(), "previous file not finished"):
		return "prev_unfinished"
	case errors.Is(err, os.ErrInvalid):
		return "invalid_file"
	}
	return "other"
}

// c06Load feeds a chunk stream to a real loader and returns the canonical result and the directory.
func c06Load(msgs []c06Msg) (string, []c06File) {
	dir := c06TmpDir("load")
	defer os.RemoveAll(dir)
	factory, err := kv.NewPebbleKVFactory(&kv.FactoryOptions{DataDir: dir, CacheSizeMB: 1})
	hx.Must(err)
	defer factory.Close()
	loader, err := factory.NewSnapshotLoader("ns", 1)
	hx.Must(err)
	for i, m := range msgs {
		if err := loader.AddChunk(m.name, m.index, m.count, m.content); err != nil {
			_ = loader.Close()
			return fmt.Sprintf("err@%d:%s", i, c06LoadErrKind(err)), nil
		}
	}
	loader.Complete()
	_ = loader.Close()
	fs := c06ReadDir(filepath.Join(dir, "ns", "shard-1"))
	return "ok:" + c06FilesText(fs), fs
}

func c06RunSnapSend(o *hx.Out, n int64, files []c06File) []c06Msg {
	dir := c06TmpDir("send")
	for _, f := range files {
		hx.Must(os.WriteFile(filepath.Join(dir, f.name), f.content, 0o644))
	}
	var msgs []c06Msg
	var panicked bool
	withChunkSize(n, func() {
		snap, err := kv.VerifSnapshotOfDir(dir)
		hx.Must(err)
		msgs, panicked = c06Drain(snap)
		_ = snap.Close()
	})
	_ = os.RemoveAll(dir)
	var xs []string
	for _, m := range msgs {
		xs = append(xs, m.String())
	}
	res := join(xs, ",")
	if panicked {
		res = "panic"
	} else {
		c06CheckStream(o, n, files, msgs, fmt.Sprintf("snapsend chunk-size=%d files=%s", n, c06FilesText(files)))
	}
	var fl []string
	for _, f := range files {
		fl = append(fl, hexs(f.name)+"="+hx.Hex(f.content))
	}
	input := fmt.Sprintf("%d %s", n, join(fl, "|"))
	o.Case("snapsend", input, res, input)
	o.Count("snapshot:send")
	return msgs
}

func c06RunSnapLoad(o *hx.Out, msgs []c06Msg, expect []c06File, tag string) {
	var xs []string
	for _, m := range msgs {
		xs = append(xs, m.String())
	}
	res, fs := c06Load(msgs)
	if expect != nil {
		if res != "ok:"+c06FilesText(expect) {
			o.Violation("snapshot:chunk-reassembly-differs", fmt.Sprintf("snapload of the sender's own stream [%s]: loader left %s, the sender's directory is %s",
				strings.Join(xs, ";"), res, c06FilesText(expect)))
		}
	}
	_ = fs
	input := join(xs, ";")
	o.Case("snapload", input, res, input)
	o.Count("snapshot:load:" + tag)
}

func c06ParseMsg(s string) c06Msg {
	t := strings.Split(s, "/")
	i, err := strconv.ParseInt(t[1], 10, 32)
	hx.Must(err)
	c, err := strconv.ParseInt(t[2], 10, 32)
	hx.Must(err)
	return c06Msg{unhexs(t[0]), int32(i), int32(c), hx.UnHex(t[3])}
}

func c06ReplaySnap(o *hx.Out, t []string) {
	switch t[0] {
	case "snapsend":
		n, err := strconv.ParseInt(t[2], 10, 64)
		hx.Must(err)
		var files []c06File
		for _, s := range splitList(t[3], "|") {
			nv := strings.SplitN(s, "=", 2)
			files = append(files, c06File{unhexs(nv[0]), hx.UnHex(nv[1])})
		}
		c06RunSnapSend(o, n, files)
	case "snapload":
		var msgs []c06Msg
		for _, s := range splitList(t[2], ";") {
			msgs = append(msgs, c06ParseMsg(s))
		}
		c06RunSnapLoad(o, msgs, nil, "replay")
	}
}

var c06FileNames = []string{"000004.sst", "CURRENT", "MANIFEST-000001", "OPTIONS-000003", "a", "b.log", "marker.format-version.000001.002", "z-9"}

func c06GenFiles(rng *hx.Rng, n int64) []c06File {
	names := append([]string(nil), c06FileNames...)
	for i := len(names) - 1; i > 0; i-- {
		j := rng.Intn(i + 1)
		names[i], names[j] = names[j], names[i]
	}
	k := rng.Intn(5)
	if rng.Chance(5) {
		k = 0
	}
	names = names[:k]
	sort.Strings(names)
	var files []c06File
	for _, nm := range names {
		var size int
		switch rng.Intn(6) {
		case 0:
			size = 0
		case 1:
			size = int(n) * rng.Intn(4) // exact multiple of the chunk size (incl. 0)
		case 2:
			size = int(n)*(1+rng.Intn(3)) + 1
		case 3:
			size = int(n) - 1
		default:
			size = rng.Intn(40)
		}
		if size < 0 {
			size = 0
		}
		if size > 64 {
			size = 64
		}
		b := make([]byte, size)
		for i := range b {
			b[i] = byte(rng.Intn(256))
		}
		files = append(files, c06File{nm, b})
	}
	return files
}

// genSnapCases: sender cases over generated directories; loader cases over the sender's own stream and
// over damaged streams (dropped / duplicated / swapped / relabelled chunks).
func c06GenSnapCases(o *hx.Out, rng *hx.Rng, n int) {
	for c := 0; c < n; c++ {
		cs := int64(hx.Pick(rng, []int{1, 2, 3, 5, 7, 8, 16, 64}))
		files := c06GenFiles(rng, cs)
		msgs := c06RunSnapSend(o, cs, files)
		c06RunSnapLoad(o, msgs, files, "intact")
		if len(msgs) == 0 {
			continue
		}
		dm := append([]c06Msg(nil), msgs...)
		i := rng.Intn(len(dm))
		tag := ""
		switch rng.Intn(7) {
		case 0:
			dm = append(dm[:i], dm[i+1:]...)
			tag = "dropped"
		case 1:
			dm = dm[:len(dm)-1]
			tag = "last-dropped"
		case 2:
			dm = append(dm[:i+1], dm[i:]...)
			tag = "duplicated"
		case 3:
			j := rng.Intn(len(dm))
			dm[i], dm[j] = dm[j], dm[i]
			tag = "swapped"
		case 4:
			dm[i].count = int32(rng.Intn(4))
			tag = "count-changed"
		case 5:
			dm[i].index = int32(rng.Intn(3))
			tag = "index-changed"
		default:
			dm[i].name = hx.Pick(rng, c06FileNames)
			tag = "renamed"
		}
		c06RunSnapLoad(o, dm, nil, tag)
	}
}

// c06Transfer ships a real snapshot into a loader of dst (chunk by chunk, as sendSnapshot / readSnapshotStream
// do) and compares the two directories byte for byte. Returns the number of chunks.
func c06Transfer(o *hx.Out, snap kv.Snapshot, dstFactory kv.Factory, dstNs string, shard int64, dstPath string, ctx string) (nchunks int, ok bool) {
	viol := func(format string, a ...any) (int, bool) {
		o.Violation("snapshot:chunk-reassembly-differs", ctx+": "+fmt.Sprintf(format, a...))
		return nchunks, false
	}
	loader, err := dstFactory.NewSnapshotLoader(dstNs, shard)
	hx.Must(err)
	src := c06ReadDir(snap.BasePath())
	for ; snap.Valid(); snap.Next() {
		ch, err := snap.Chunk()
		if err != nil {
			_ = loader.Close()
			return viol("the sender failed on chunk #%d: %v", nchunks, err)
		}
		if err := loader.AddChunk(ch.Name(), ch.Index(), ch.TotalCount(), ch.Content()); err != nil {
			_ = loader.Close()
			return viol("the loader refused chunk #%d (%q, %d of %d, %d bytes) of the sender's own stream: %v", nchunks, ch.Name(), ch.Index(), ch.TotalCount(), len(ch.Content()), err)
		}
		nchunks++
	}
	loader.Complete()
	hx.Must(loader.Close())
	dst := c06ReadDir(dstPath)
	if len(src) != len(dst) {
		return viol("snapshot has %d files, the loader wrote %d", len(src), len(dst))
	}
	for i := range src {
		if src[i].name != dst[i].name || !bytes.Equal(src[i].content, dst[i].content) {
			return viol("file %q (%d bytes) arrived as %q (%d bytes), chunk size %d", src[i].name, len(src[i].content), dst[i].name, len(dst[i].content), kv.MaxSnapshotChunkSize)
		}
	}
	return nchunks, true
}
