package main

// C16 — an independent reference for sequence puts (kept apart from the implementation and from the Coq
// model on purpose: math/big arithmetic, a regular expression for what Sscanf("%020d") accepts, and a linear
// search for the current last key with compare.CompareWithSlash).

import (
	"math/big"
	"regexp"
	"strings"

	"github.com/oxia-db/oxia/common/compare"
)

const maxSeqText = "18446744073709551615" // 2^64-1, 20 digits

var (
	bigTwo64  = new(big.Int).Lsh(big.NewInt(1), 64)
	bigMaxSeq = new(big.Int).Sub(bigTwo64, big.NewInt(1))
	// Sscanf("%020d", &uint64): white space (but no newline) is skipped, then 1..20 decimal digits are read
	scan20Re = regexp.MustCompile(`^[ \t\v\f\r]*([0-9]{1,20})`)
)

type seqOutcome int

const (
	seqKey      seqOutcome = iota // the put must create exactly this key
	seqRefuse                     // the sequence cannot be continued: status UNEXPECTED_VERSION_ID
	seqFewer                      // fewer deltas than the current last key has suffixes (kv.ErrMissingSequenceDeltas)
	seqZeroHead                   // first delta is zero (kv.ErrSequenceDeltaIsZero)
)

// lastKeyBelow returns the greatest of keys that is below limit in the key order ("" if none).
func lastKeyBelow(keys func(yield func(string)), limit string) string {
	best, have := "", false
	keys(func(k string) {
		if compare.CompareWithSlash([]byte(k), []byte(limit)) >= 0 {
			return
		}
		if !have || compare.CompareWithSlash([]byte(k), []byte(best)) > 0 {
			best, have = k, true
		}
	})
	return best
}

// seqExpect says what a sequence put of `deltas` on `prefix` has to do when the stored keys are `keys`:
// the new key is the prefix followed by the suffixes of the current last key of the prefix (zero where there
// is none) plus the deltas, each printed with 20 digits. cur are the current suffixes (as numbers).
func seqExpect(keys func(yield func(string)), prefix string, deltas []uint64) (out seqOutcome, key string, cur []*big.Int) {
	last := lastKeyBelow(keys, prefix+"-"+maxSeqText)
	var parts []string
	if last != "" && strings.HasPrefix(last, prefix) {
		parts = strings.Split(strings.TrimPrefix(last, prefix), "-")[1:]
	}
	if len(parts) > len(deltas) {
		return seqFewer, "", nil
	}
	key = prefix
	for i, d := range deltas {
		if i == 0 && d == 0 {
			return seqZeroHead, "", nil
		}
		c := new(big.Int)
		if i < len(parts) {
			m := scan20Re.FindStringSubmatch(parts[i])
			if m == nil {
				return seqRefuse, "", nil
			}
			c.SetString(m[1], 10)
			if c.Cmp(bigTwo64) >= 0 {
				return seqRefuse, "", nil
			}
		}
		cur = append(cur, c)
		sum := new(big.Int).Add(c, new(big.Int).SetUint64(d))
		if sum.Cmp(bigTwo64) >= 0 || (i == 0 && sum.Cmp(bigMaxSeq) == 0) {
			return seqRefuse, "", nil
		}
		txt := sum.String()
		key += "-" + strings.Repeat("0", 20-len(txt)) + txt
	}
	if len(parts) > 0 || (last != "" && strings.HasPrefix(last, prefix)) {
		// the new key has to come after the current last key of the prefix
		if compare.CompareWithSlash([]byte(key), []byte(last)) <= 0 {
			return seqRefuse, "", nil
		}
	}
	return seqKey, key, cur
}

// keysOfRef iterates the keys the sequential reference of C12 tracks (every key written through requests).
func keysOfRef(r *refModel) func(yield func(string)) {
	return func(yield func(string)) {
		for k := range r.recs {
			yield(k)
		}
	}
}
