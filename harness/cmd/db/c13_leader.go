package main

// C13, the consequence: the hostile stream through a REAL server.LeaderController with replication factor 1
// (real WAL and real Pebble DB on a scratch directory), restarts of the controller, and a real
// FollowerController that is fed the leader's log.
//
//	lseq <id> <shard> <thr> <op>;<op>;...
//	    W:<offset>:<ts>:<puts>:<dels>:<ranges>   LeaderController.WriteBlock(request)       (grammar of main.go; the
//	                                             leader assigns offset and timestamp itself: the two fields are
//	                                             what the model uses as timestamp / ignores)
//	        -> rejected            InvalidArgument, and the head offset of the log did not move
//	         | ok:<put statuses>:<delete statuses>:<range statuses>
//	         | err                 WriteBlock failed AFTER the entry was appended to the log
//	         | not-leader          the last BecomeLeader failed
//	    E:<0|1>                    (first op only) the shard runs with NewTermOptions{EnableNotifications: 0|1}: every NewTerm
//	                               of the case (start, restarts, the follower's) carries it                     -> ok
//	    B:<term>                   Close, NewLeaderController on the same WAL + DB, NewTerm(term), BecomeLeader(rf=1)
//	        -> ok | blocked        blocked = BecomeLeader failed (applyAllEntriesIntoDB)
//	    F:<term>                   (last op) Close; a fresh FollowerController receives the whole log of the leader
//	                               with every entry advertised as committed
//	        -> ok | blocked        blocked = its apply loop ended before the last entry
//
// spec verdicts:
//	apply:infrastructure-error-on-logged-request:<class>   WriteBlock returned a non-status error although the entry is in the log
//	replay:blocked-by-logged-request:<class>               BecomeLeader of the restarted controller / the follower's apply loop
//	                                                       failed on an entry of the log (<class> = errKind of the failure)
//	validate:rejected-but-logged                           an InvalidArgument answer although the log grew
//	validate:rejects-plain-user-request                    (see c13_hostile.go)

import (
	"context"
	"errors"
	"fmt"
	"io"
	"os"
	"path/filepath"
	"strconv"
	"strings"
	"sync"
	"time"

	"google.golang.org/grpc/codes"
	"google.golang.org/grpc/metadata"
	"google.golang.org/grpc/status"

	"github.com/oxia-db/oxia/proto"
	"github.com/oxia-db/oxia/server"
	"github.com/oxia-db/oxia/server/kv"
	"github.com/oxia-db/oxia/server/wal"

	"verif/harness/internal/hx"
	"verif/harness/internal/kvsafe"
)

func init() {
	modes["c13leader"] = c13LeaderMain
	replayKinds["lseq"] = func(o *hx.Out, t []string) {
		shard, err := strconv.ParseInt(t[2], 10, 64)
		hx.Must(err)
		ops := strings.Split(t[4], ";")
		c13LeaderCase(o, shard, "replay", "", func(l *leaderEnv) {
			for _, op := range ops {
				l.do(op)
			}
		})
	}
}

func putStatus(p *proto.PutResponse) proto.Status           { return p.Status }
func delStatus(d *proto.DeleteResponse) proto.Status        { return d.Status }
func rangeStatus(d *proto.DeleteRangeResponse) proto.Status { return d.Status }

const c13Ns = "c13"
const c13Step = 5 * time.Second

var c13SrvConfig = server.Config{NotificationsRetentionTime: time.Hour}

// ---- stubs for the two stream directions

type c13Rpc struct{}

func (c13Rpc) GetReplicateStream(context.Context, string, string, int64, int64) (proto.OxiaLogReplication_ReplicateClient, error) {
	return nil, errors.New("harness: rf=1 leader has no followers")
}
func (c13Rpc) SendSnapshot(context.Context, string, string, int64, int64) (proto.OxiaLogReplication_SendSnapshotClient, error) {
	return nil, errors.New("harness: rf=1 leader has no followers")
}
func (c13Rpc) Truncate(string, *proto.TruncateRequest) (*proto.TruncateResponse, error) {
	return nil, errors.New("harness: rf=1 leader has no followers")
}
func (c13Rpc) Close() error { return nil }

// the leader side of a Replicate stream, played by the harness
type c13Stream struct {
	ctx    context.Context
	cancel context.CancelFunc
	in     chan *proto.Append
	mu     sync.Mutex
	acks   int
}

func (*c13Stream) SendHeader(metadata.MD) error { return nil }
func (*c13Stream) SetHeader(metadata.MD) error  { return nil }
func (*c13Stream) SetTrailer(metadata.MD)       {}
func (*c13Stream) RecvMsg(any) error            { return nil }
func (*c13Stream) SendMsg(any) error            { return nil }
func (s *c13Stream) Context() context.Context   { return s.ctx }
func (s *c13Stream) Send(*proto.Ack) error      { s.mu.Lock(); s.acks++; s.mu.Unlock(); return nil }
func (s *c13Stream) Recv() (*proto.Append, error) {
	select {
	case a := <-s.in:
		return a, nil
	case <-s.ctx.Done():
		return nil, io.EOF
	}
}

// ---- the leader under test

type leaderEnv struct {
	o       *hx.Out
	tag     string
	shard   int64
	dir     string
	kvf     kv.Factory
	walf    wal.Factory
	lc      server.LeaderController
	leading bool
	nreq    int
	ops     []string
	res     []string
	failed  map[string]bool // classes of the failures seen by WriteBlock so far
	stuck   bool            // a Close did not return: the case is abandoned
	noNotif bool            // the shard runs with NewTermOptions{EnableNotifications:false} (op E:0, first op of a case)
	started bool
}

var c13EnvCounter int

// the DB of the next leaderEnv lives in memory (legs that never restart the controller: no fsync in UpdateTerm)
var leaderEnvInMemory bool

func newLeaderEnv(o *hx.Out, shard int64, tag string) *leaderEnv {
	c13EnvCounter++
	base := os.Getenv("VERIF_TMP")
	if base == "" {
		base = "/var/tmp"
	}
	l := &leaderEnv{o: o, tag: tag, shard: shard, failed: map[string]bool{}}
	l.dir = filepath.Join(base, fmt.Sprintf("h_db13_%d_%d", os.Getpid(), c13EnvCounter))
	var err error
	l.kvf, err = kvsafe.New(&kv.FactoryOptions{DataDir: filepath.Join(l.dir, "db"), CacheSizeMB: 1, InMemory: leaderEnvInMemory})
	hx.Must(err)
	l.walf = wal.NewWalFactory(&wal.FactoryOptions{BaseWalDir: filepath.Join(l.dir, "wal"), Retention: time.Hour, SegmentSize: 1 << 20, SyncData: false})
	return l
}

func (l *leaderEnv) close() {
	if l.closeLeader() && !l.stuck {
		_ = l.kvf.Close()
		_ = l.walf.Close()
	}
	_ = os.RemoveAll(l.dir)
}

// start: NewLeaderController + NewTerm + BecomeLeader; the error of BecomeLeader is returned
func (l *leaderEnv) start(term int64) error {
	var err error
	l.leading = false
	l.lc, err = server.NewLeaderController(c13SrvConfig, c13Ns, l.shard, c13Rpc{}, l.walf, l.kvf)
	if err != nil {
		l.lc = nil
		return err // the stored state cannot even be opened (only possible if a request damaged the internal keys)
	}
	if _, err = l.lc.NewTerm(&proto.NewTermRequest{Namespace: c13Ns, Shard: l.shard, Term: term, Options: l.termOptions()}); err != nil {
		return err
	}
	ctx, cancel := context.WithTimeout(context.Background(), c13Step)
	defer cancel()
	_, err = l.lc.BecomeLeader(ctx, &proto.BecomeLeaderRequest{Namespace: c13Ns, Shard: l.shard, Term: term, ReplicationFactor: 1,
		FollowerMaps: map[string]*proto.EntryId{}})
	l.leading = err == nil
	return err
}

// termOptions: nil (= notifications enabled) unless the case runs on a shard with notifications disabled
func (l *leaderEnv) termOptions() *proto.NewTermOptions {
	if l.noNotif {
		return &proto.NewTermOptions{EnableNotifications: false}
	}
	return nil
}

func (l *leaderEnv) head() int64 {
	st, err := l.lc.GetStatus(&proto.GetStatusRequest{Shard: l.shard})
	hx.Must(err)
	return st.HeadOffset
}

func (l *leaderEnv) write(w *wreq) string {
	l.nreq++
	ctxt := fmt.Sprintf("%s request#%d %s", l.tag, l.nreq, w.String())
	if !l.leading || l.lc == nil {
		return "not-leader"
	}
	before := l.head()
	ctx, cancel := context.WithTimeout(context.Background(), c13Step)
	defer cancel()
	var resp *proto.WriteResponse
	var err error
	panicked := false
	func() {
		defer func() {
			if x := recover(); x != nil {
				panicked = true
			}
		}()
		resp, err = l.lc.WriteBlock(ctx, w.toProto())
	}()
	after := l.head()
	switch {
	case panicked:
		l.o.Violation("apply:panic", ctxt+": WriteBlock panicked")
		return "panic"
	case err != nil && status.Code(err) == codes.InvalidArgument:
		l.o.Count("leader:rejected")
		if after != before {
			l.o.Violation("validate:rejected-but-logged", fmt.Sprintf("%s: InvalidArgument (%v) but the head offset moved %d -> %d", ctxt, err, before, after))
		}
		if plainUser(w) {
			l.o.Violation("validate:rejects-plain-user-request", ctxt+": refused: "+err.Error())
		}
		return "rejected"
	case err != nil:
		k := errKind(err)
		l.o.Count("leader:err:" + k)
		l.failed[k] = true
		if after > before {
			l.o.Violation("apply:infrastructure-error-on-logged-request:"+k,
				fmt.Sprintf("%s: WriteBlock failed (%v) after the entry was appended at offset %d", ctxt, err, after))
		} else {
			l.o.Violation("apply:write-failed-without-logging", fmt.Sprintf("%s: WriteBlock failed (%v), head offset still %d", ctxt, err, after))
		}
		return "err"
	}
	l.o.Count("leader:ok")
	return "ok:" + statusesOf(resp.Puts, putStatus) + ":" + statusesOf(resp.Deletes, delStatus) + ":" + statusesOf(resp.DeleteRanges, rangeStatus)
}

// closeLeader: LeaderController.Close can wait for ever on a session that was loaded from a session key written by
// a client (it expires at once and its cleanup needs the controller's lock, which Close holds): only reachable when
// the validation lets '__oxia/session/...' through. The harness does not wait for it.
func (l *leaderEnv) closeLeader() bool {
	if l.lc == nil {
		return true
	}
	lc := l.lc
	l.lc = nil
	done := make(chan struct{})
	go func() { _ = lc.Close(); close(done) }()
	select {
	case <-done:
		return true
	case <-time.After(c13Step):
		l.stuck = true
		l.o.Violation("replay:close-hangs-after-logged-request", fmt.Sprintf("%s: LeaderController.Close does not return (ops: %s)", l.tag, strings.Join(l.ops, ";")))
		return false
	}
}

func (l *leaderEnv) restart(term int64) string {
	if !l.closeLeader() {
		return "stuck"
	}
	err := l.start(term)
	if err != nil {
		l.o.Count("leader:restart-blocked")
		l.o.Violation("replay:blocked-by-logged-request:"+errKind(err),
			fmt.Sprintf("%s: after %d requests the restarted controller cannot become leader: %v (ops: %s)", l.tag, l.nreq, err, strings.Join(l.ops, ";")))
		return "blocked"
	}
	l.o.Count("leader:restart-ok")
	return "ok"
}

func (l *leaderEnv) readLog() []*proto.LogEntry {
	w, err := l.walf.NewWal(c13Ns, l.shard, nil)
	hx.Must(err)
	defer w.Close()
	var res []*proto.LogEntry
	if w.FirstOffset() < 0 {
		return nil
	}
	r, err := w.NewReader(w.FirstOffset() - 1)
	hx.Must(err)
	defer r.Close()
	for r.HasNext() {
		e, err := r.ReadNext()
		hx.Must(err)
		res = append(res, e)
	}
	return res
}

// follower: a fresh follower controller gets the whole log; does its apply loop reach the end?
func (l *leaderEnv) follower(term int64) string {
	if !l.closeLeader() {
		return "stuck"
	}
	l.leading = false
	entries := l.readLog()
	fdir := filepath.Join(l.dir, "follower")
	kvf, err := kvsafe.New(&kv.FactoryOptions{DataDir: filepath.Join(fdir, "db"), CacheSizeMB: 1, InMemory: true})
	hx.Must(err)
	walf := wal.NewWalFactory(&wal.FactoryOptions{BaseWalDir: filepath.Join(fdir, "wal"), Retention: time.Hour, SegmentSize: 1 << 20, SyncData: false})
	fc, err := server.NewFollowerController(c13SrvConfig, c13Ns, l.shard, walf, kvf)
	hx.Must(err)
	_, err = fc.NewTerm(&proto.NewTermRequest{Namespace: c13Ns, Shard: l.shard, Term: term, Options: l.termOptions()})
	hx.Must(err)
	ctx, cancel := context.WithCancel(context.Background())
	st := &c13Stream{ctx: ctx, cancel: cancel, in: make(chan *proto.Append, len(entries)+1)}
	done := make(chan error, 1)
	go func() { done <- fc.Replicate(st) }()
	head := int64(-1)
	for _, e := range entries {
		st.in <- &proto.Append{Term: term, Entry: e, CommitOffset: e.Offset}
		head = e.Offset
	}
	res := "ok"
	var streamErr error
	deadline := time.Now().Add(c13Step)
	for fc.CommitOffset() < head {
		select {
		case streamErr = <-done:
			done <- streamErr
		default:
		}
		if streamErr != nil || time.Now().After(deadline) {
			break
		}
		time.Sleep(50 * time.Microsecond)
	}
	if fc.CommitOffset() < head {
		res = "blocked"
		cls := "timeout"
		if streamErr != nil {
			cls = errKind(streamErr)
		}
		l.o.Count("follower:blocked")
		l.o.Violation("replay:blocked-by-logged-request:"+cls,
			fmt.Sprintf("%s: a follower that receives the leader's log (%d entries, all committed) stops applying at offset %d: %v (ops: %s)",
				l.tag, len(entries), fc.CommitOffset()+1, streamErr, strings.Join(l.ops, ";")))
	} else {
		l.o.Count("follower:ok")
	}
	cancel()
	select {
	case <-done:
	case <-time.After(c13Step):
	}
	time.Sleep(2 * time.Millisecond) // the stream goroutines dereference fc.wal: let them end before Close
	_ = fc.Close()
	_ = kvf.Close()
	_ = walf.Close()
	return res
}

func (l *leaderEnv) do(op string) string {
	f := strings.Split(op, ":")
	var res string
	if !l.started {
		// the controller is started by the first op: E:<0|1> chooses the term options of the whole case
		l.started = true
		if f[0] == "E" {
			l.noNotif = f[1] == "0"
		}
		hx.Must(l.start(1))
	}
	switch f[0] {
	case "E":
		res = "ok"
	case "W":
		res = l.write(parseW(f))
	case "B":
		term, err := strconv.ParseInt(f[1], 10, 64)
		hx.Must(err)
		res = l.restart(term)
	case "F":
		term, err := strconv.ParseInt(f[1], 10, 64)
		hx.Must(err)
		res = l.follower(term)
	default:
		panic("lseq: unknown op " + op)
	}
	l.ops = append(l.ops, op)
	l.res = append(l.res, res)
	return res
}

func c13LeaderCase(o *hx.Out, shard int64, tag string, ntKey string, body func(l *leaderEnv)) {
	l := newLeaderEnv(o, shard, tag)
	defer l.close()
	body(l)
	o.Case("lseq", fmt.Sprintf("%d %d %s", shard, kv.DeleteRangeThreshold, strings.Join(l.ops, ";")), strings.Join(l.res, ";"), ntKey)
}

func c13LeaderMain(o *hx.Out, f hx.Flags) {
	rng := hx.NewRng(f.Seed ^ 0x13)
	// every combination of absent / present-zero optional fields through WriteBlock, then a restart and a follower
	c13LeaderCase(o, 3, "c13leader-optional", "optional", func(l *leaderEnv) {
		if f.Seed%2 == 0 {
			l.do("E:0")
		}
		for i, w := range c13OptionalSweep() {
			w.offset, w.ts = 0, uint64(1000+i)
			if l.do(w.String()) == "err" {
				if l.do("B:2") != "ok" {
					return
				}
				break
			}
		}
		l.do("F:3")
	})
	for c := 0; c < f.N; c++ {
		crng := rng.Fork()
		shard := int64(1 + crng.Intn(9))
		flavour := crng.Intn(3)
		c13LeaderCase(o, shard, fmt.Sprintf("c13leader#%d", c), fmt.Sprintf("%d", crng.U64()), func(l *leaderEnv) {
			term := int64(1)
			ts := uint64(1000)
			if crng.Chance(30) {
				l.do("E:0")
				o.Count("leader:notifications-disabled")
			}
			nreq := 10 + crng.Intn(20)
			for i := 0; i < nreq; i++ {
				level := 0
				if crng.Chance(30 + 25*flavour) {
					level = 1 + crng.Intn(2)
				}
				w := c13Request(crng, level, true)
				ts += 5
				w.offset, w.ts = 0, ts
				res := l.do(w.String())
				o.Count("leader-write:" + strings.SplitN(res, ":", 2)[0])
				// a restart right after a failed write is the interesting instant (the entry is the last of the log)
				if (res == "err" && crng.Chance(60)) || crng.Chance(6) {
					term++
					if l.do(fmt.Sprintf("B:%d", term)) != "ok" {
						return
					}
				}
			}
			term++
			if crng.Bool() {
				l.do(fmt.Sprintf("F:%d", term))
			} else {
				l.do(fmt.Sprintf("B:%d", term))
			}
		})
	}
}
