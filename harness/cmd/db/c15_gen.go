package main

// C15 (secondary indexes): generator (-mode c15), independent reference and spec verdicts.
//
// Cases are ordinary "seq" cases (same grammar, same model driver): request sequences that declare, move and
// drop secondary indexes in 1-4 indexes whose names are neighbours in the key order (a, a-, a0, b), with
// repeated secondary keys, records in several indexes, overwrites, conditional puts, deletes, delete-ranges
// (both strategies), sessions with ephemeral indexed records and their closing request, sequence puts with
// indexes; after every write the index queries Get x5 / List / RangeScan at and beyond both edges of every
// index (also of empty and unused ones).
//
// The reference (c15Ref) is independent of the key layout's READ side: per index a slice of (skey, pkey),
// sorted by (CompareWithSlash(skey), bytes.Compare(PathEscape(pkey))), built from the requests and the
// per-operation statuses of the responses.  Spec verdicts (stable signatures):
//
//	index:mirror-broken                 the keys under "__oxia/idx/" are not exactly the declared pairs
//	index:get-left-the-index            a Get returned a record that does not declare (index, returned skey)
//	index:get-differs-from-reference    any other difference of a Get
//	index:list-differs-from-reference   List / RangeScan differ
//	index:reference-out-of-sync         the records in the DB declare other indexes than the reference
//	                                    (a defect of the write path itself or of this harness)
//	index:mirror-broken:sequence-put-overwrote-live-record
//	                                    the mirror broke right after a sequence put whose generated key already held
//	                                    a record (applyPut hands no existing entry to the callbacks: C16's freshness);
//	                                    the rest of that case is not judged any more
//
//	index:list-left-the-index           List / RangeScan returned a primary key that has no entry in the index asked
//
// Index names come from FAMILIES of names that collide under any plausible mangling on the path from the request
// to the Pebble key (printf verbs: "%" "%%" "cpu%" "a%sb"/"ab" "%s" "%!s(MISSING)"; url-escape look-alikes; the
// words of the layout itself "__oxia" "idx"; names that are prefixes of each other; a 300-byte name; control
// bytes), several of one family in the same DB; secondary keys, primary keys and query bounds carry the same
// characters.  All of these are inside the alphabet of the theorems (name without '/', secondary key bytes > 1):
// the byte-level key construction is what this leg covers.
// "wild" cases add what the layout cannot represent (name with '/', empty name, secondary key with \x01 / \x00 /
// empty).  Since the repair O-45 the leader's validation refuses such declarations (c15_leader.go drives that);
// here they reach the DB directly, as data written before the repair would: compared with the model only (which
// transcribes the ambiguity); what the reference would say is counted under c15:wild:* (Properties/C15.v, *_refuted).
//
// BACKGROUND activity of the DB: 35% of the cases run real rounds of the notifications trimmer between the writes
// and the index reads (op X:<now>:<retention> of c17_notif.go = kv.VerifTrimNotifications with a mocked clock,
// notifications enabled, cut-offs that really delete batches), a third of them on disk with close + reopen (R)
// before and after a round.  A trimming round may only touch notification batches: the mirror is checked on the
// full dump right after it and the queries that follow are judged as usual.  These cases are of kind "nseq"
// (grammar of "seq" plus X; the model's trim is Db/NotifStream.v).
//
// Corpus / replay lines of kind "iseq" have the grammar of "seq"; they are executed with these verdicts and
// recorded as "seq" cases for the model ("wseq": same, not judged by the reference; "xseq": recorded as "nseq").

import (
	"bytes"
	"fmt"
	"net/url"
	"sort"
	"strconv"
	"strings"

	"github.com/oxia-db/oxia/common/compare"
	"github.com/oxia-db/oxia/proto"
	"github.com/oxia-db/oxia/server"
	"github.com/oxia-db/oxia/server/kv"

	"verif/harness/internal/hx"
)

func init() {
	modes["c15"] = func(o *hx.Out, f hx.Flags) { c15Gen(o, hx.NewRng(f.Seed^0xc15), f.N) }
	replayKinds["iseq"] = c15Replay
	replayKinds["wseq"] = c15Replay
	replayKinds["xseq"] = c15Replay
}

const c15IdxPrefix = "__oxia/idx/"

var c15Names = []string{"a", "a-", "a0", "b"}

var c15LongName = strings.Repeat("n", 300)

// families of index names; every name is non-empty and free of '/'
var c15Families = [][]string{
	c15Names,
	{"%", "%%", "%%%", "%25"},
	{"cpu%", "cpu", "cpu%!", "cpu%s"},
	{"a%sb", "ab", "a%db", "a%!s(MISSING)b"},
	{"%s", "%d", "%v", "%!s(MISSING)"},
	{"__oxia", "idx", "__oxia\x01", "_"},
	{"a b", "a+b", "a%20b", "a%2Fb"},
	{"n", "nn", c15LongName, c15LongName + "n"},
	{"a\x01", "a\x01b", "a\nb", "\xff"},
	{"%[1]s", "%[2]s", "%*d", "%%s"},
}

// what the server accepts although the key layout cannot represent it (wild cases only)
var c15WildNames = []string{"a/b", "a", "a/", "", "/", "__oxia/idx"}
var c15WildSkeys = []string{"k\x01x", "", "\x00", "k\x00", "\x01", "b/c", "k"}

var c15Skeys = []string{"k", "k/1", "k/2", "m", "a", "a/b", "z", "0", "k-", "k0", "\xffx", "m n", "\x02", "~", "k/", "a-", "b",
	"%", "%%", "%s", "a%sb", "ab", "%!s(MISSING)", "k%2F", "__oxia", "idx", "%d"}
var c15LongSkey = strings.Repeat("s", 200)
var c15Pks = []string{"a", "b", "c", "p1", "p2", "a/b", "a/c", "a/b/c", "a%2F", "k\x01x", "\xffz", "a b", "\xc3\xa9", "0", "-", ".", "%",
	"x?y", "/", "//", "_", "zz", "zz/y", "m/n/o/p", "a-", "a0", "%s", "%%", "%25", "a%sb", "ab", "a+b", "__oxia", "idx/x", "%zz"}
var c15PksFlat = []string{"a", "b", "c", "p1", "p2", "a%2F", "k\x01x", "\xffz", "a b", "0", "-", ".", "%", "_", "zz", "%s", "%%", "a%sb", "ab"}
var c15SeqPrefixes = []string{"sq", "sq/x"}

// ---------------------------------------------------------------- reference

type c15Entry struct{ skey, pk string }

type c15Ref struct {
	decl       map[string][][2]string // primary key -> declared (index name, secondary key), for every record that exists
	seqOverKey string                 // set by apply: a sequence put of the last request landed on this existing record
}

func c15EntryLess(a, b c15Entry) bool {
	if c := compare.CompareWithSlash([]byte(a.skey), []byte(b.skey)); c != 0 {
		return c < 0
	}
	return bytes.Compare([]byte(url.PathEscape(a.pk)), []byte(url.PathEscape(b.pk))) < 0
}

// entries of one index: distinct (skey, pk) pairs, sorted
func (c *c15Ref) entries(name string) []c15Entry {
	seen := map[c15Entry]bool{}
	var es []c15Entry
	for pk, ds := range c.decl {
		for _, d := range ds {
			e := c15Entry{d[1], pk}
			if d[0] == name && !seen[e] {
				seen[e] = true
				es = append(es, e)
			}
		}
	}
	sort.Slice(es, func(i, j int) bool { return c15EntryLess(es[i], es[j]) })
	return es
}

func (c *c15Ref) declares(pk, name, skey string) bool {
	for _, d := range c.decl[pk] {
		if d[0] == name && d[1] == skey {
			return true
		}
	}
	return false
}

func cws(a, b string) int { return compare.CompareWithSlash([]byte(a), []byte(b)) }

// the entry a Get designates, nil if none
func c15RefGet(es []c15Entry, key string, cmp int) *c15Entry {
	firstGE, firstGT, lastLT := -1, -1, -1
	for i, e := range es {
		c := cws(e.skey, key)
		if c < 0 {
			lastLT = i
		}
		if c >= 0 && firstGE < 0 {
			firstGE = i
		}
		if c > 0 && firstGT < 0 {
			firstGT = i
		}
	}
	pick := func(i int) *c15Entry {
		if i < 0 {
			return nil
		}
		return &es[i]
	}
	equal := -1
	if firstGE >= 0 && es[firstGE].skey == key {
		equal = firstGE
	}
	switch proto.KeyComparisonType(cmp) {
	case proto.KeyComparisonType_EQUAL:
		return pick(equal)
	case proto.KeyComparisonType_FLOOR:
		if equal >= 0 {
			return pick(equal)
		}
		return pick(lastLT)
	case proto.KeyComparisonType_CEILING:
		return pick(firstGE)
	case proto.KeyComparisonType_LOWER:
		return pick(lastLT)
	case proto.KeyComparisonType_HIGHER:
		return pick(firstGT)
	}
	return nil
}

func c15InRange(es []c15Entry, start, end string) []c15Entry {
	var res []c15Entry
	for _, e := range es {
		if cws(start, e.skey) <= 0 && cws(e.skey, end) < 0 {
			res = append(res, e)
		}
	}
	return res
}

// update from a request and the implementation's per-operation statuses
func (c *c15Ref) apply(w *wreq, res string) {
	c.seqOverKey = ""
	if !strings.HasPrefix(res, "ok:") {
		return // failed request: nothing may change (checked by the mirror verdict)
	}
	f := strings.Split(res, ":")
	prs, dss := splitList(f[1], ","), splitList(f[2], ",")
	for i, p := range w.puts {
		if i >= len(prs) || !strings.HasPrefix(prs[i], "OK/") {
			continue
		}
		key := p.key
		t := strings.Split(prs[i], "/")
		if k := t[len(t)-1]; k != "n" {
			key = unhexs(k)
			if _, exists := c.decl[key]; exists {
				c.seqOverKey = key
			}
		}
		c.decl[key] = append([][2]string(nil), p.idx...)
	}
	for i, d := range w.dels {
		if i < len(dss) && dss[i] == "OK" {
			delete(c.decl, d.key)
		}
	}
	for _, rg := range w.ranges {
		for k := range c.decl {
			if cws(rg.start, k) <= 0 && cws(k, rg.end) < 0 {
				delete(c.decl, k)
			}
		}
	}
}

// ---------------------------------------------------------------- execution with verdicts

type c15Run struct {
	r       *runner
	o       *hx.Out
	ref     *c15Ref
	tag     string
	tainted bool // a sequence put overwrote a live record (known finding): no further verdicts in this case
	wild    bool // the case uses names / secondary keys the layout cannot represent: counted, not judged
}

func c15Key(name, skey, pk string) string {
	return c15IdxPrefix + name + "/" + skey + "\x01" + url.PathEscape(pk)
}

func (c *c15Run) viol(sig, format string, a ...any) {
	if c.tainted {
		return
	}
	if c.wild {
		c.o.Count("c15:wild:reference-would-say:" + sig)
		return
	}
	if sig == "index:mirror-broken" && c.ref.seqOverKey != "" {
		sig = "index:mirror-broken:sequence-put-overwrote-live-record"
		format = "sequence put generated the existing key " + hexs(c.ref.seqOverKey) + "; " + format
		defer func() { c.tainted = true }()
	}
	c.o.Violation(sig, fmt.Sprintf(format, a...)+fmt.Sprintf(" | %s ops=%s", c.tag, strings.Join(c.r.ops, ";")))
}

func (c *c15Run) checkMirror(ctx string) {
	d := c.r.e.dump()
	have := map[string]bool{}
	for _, x := range d {
		if strings.HasPrefix(x.key, c15IdxPrefix) {
			have[x.key] = true
			continue
		}
		if x.se == nil {
			continue
		}
		// the records as stored must declare what the reference thinks they declare
		want := c.ref.decl[x.key]
		same := len(want) == len(x.se.SecondaryIndexes)
		for i := 0; same && i < len(want); i++ {
			same = want[i][0] == x.se.SecondaryIndexes[i].IndexName && want[i][1] == x.se.SecondaryIndexes[i].SecondaryKey
		}
		if !same && (len(want) > 0 || len(x.se.SecondaryIndexes) > 0) {
			c.viol("index:reference-out-of-sync", "%s: record %s stores indexes %s, the reference has %v", ctx, hexs(x.key), x.txt, want)
			return
		}
	}
	want := map[string][3]string{}
	for pk, ds := range c.ref.decl {
		for _, dd := range ds {
			want[c15Key(dd[0], dd[1], pk)] = [3]string{dd[0], dd[1], pk}
		}
	}
	for k, t := range want {
		if !have[k] {
			c.viol("index:mirror-broken", "%s: record %s declares (%q,%q) but the index entry %s is missing", ctx, hexs(t[2]), t[0], t[1], hexs(k))
			return
		}
	}
	var extra []string
	for k := range have {
		if _, ok := want[k]; !ok {
			extra = append(extra, k)
		}
	}
	if len(extra) > 0 {
		sort.Strings(extra)
		c.viol("index:mirror-broken", "%s: index entry %s (%q) exists but no record declares it", ctx, hexs(extra[0]), extra[0])
	}
}

// the response of a Get that designates entry e, in the canonical text of getRespS
func (c *c15Run) respText(e c15Entry, incl bool, withSkey bool) string {
	rec := c.r.ref.recs[e.pk]
	if rec == nil {
		return "?no-record-for-" + hexs(e.pk)
	}
	val := "-"
	if incl {
		val = hx.Hex(rec.value)
	}
	sk := "n"
	if withSkey {
		sk = hexs(e.skey)
	}
	return strings.Join([]string{"OK", hexs(e.pk), val, strconv.FormatInt(rec.ver, 10), strconv.FormatInt(rec.mod, 10),
		strconv.FormatUint(rec.ct, 10), strconv.FormatUint(rec.mt, 10), optI(rec.sess), optS(rec.ident), sk}, "/")
}

func (c *c15Run) checkRead(op, res string) {
	f := strings.Split(op, ":")
	switch f[0] {
	case "IG":
		name, cmp, key, incl := unhexs(f[1]), int(cmpType(f[2])), unhexs(f[3]), f[4] == "1"
		es := c.ref.entries(name)
		want := "KEY_NOT_FOUND"
		if e := c15RefGet(es, key, cmp); e != nil {
			want = c.respText(*e, incl, true)
		}
		if res == want {
			return
		}
		if t := strings.Split(res, "/"); t[0] == "OK" && len(t) >= 10 && t[1] != "n" && t[9] != "n" {
			if pk, sk := unhexs(t[1]), unhexs(t[9]); !c.ref.declares(pk, name, sk) {
				c.viol("index:get-left-the-index", "Get(index %q, key %q, cmp %d) returned record %q with secondary key %q, which is not an entry of index %q; reference: %s",
					name, key, cmp, pk, sk, name, want)
				return
			}
		}
		c.viol("index:get-differs-from-reference", "Get(index %q, key %q, cmp %d, incl %v) = %s, reference %s (entries %v)", name, key, cmp, incl, res, want, es)
	case "IL":
		name, a, b := unhexs(f[1]), unhexs(f[2]), unhexs(f[3])
		var ks []string
		all := c.ref.entries(name)
		for _, e := range c15InRange(all, a, b) {
			ks = append(ks, hexs(e.pk))
		}
		if want := join(ks, ","); res != want {
			if res != "-" && res != "panic" && !strings.HasPrefix(res, "err:") {
				for _, h := range strings.Split(res, ",") {
					in := false
					for _, e := range all {
						in = in || hexs(e.pk) == h
					}
					if !in {
						c.viol("index:list-left-the-index", "List(index %q, [%q,%q)) returned %q, which has no entry in index %q; result %s, reference %s", name, a, b, unhexs(h), name, res, want)
						return
					}
				}
			}
			c.viol("index:list-differs-from-reference", "List(index %q, [%q,%q)) = %s, reference %s", name, a, b, res, want)
		}
	case "IS":
		name, a, b := unhexs(f[1]), unhexs(f[2]), unhexs(f[3])
		var xs []string
		for _, e := range c15InRange(c.ref.entries(name), a, b) {
			xs = append(xs, c.respText(e, true, false))
		}
		if want := join(xs, ","); res != want {
			c.viol("index:list-differs-from-reference", "RangeScan(index %q, [%q,%q)) = %s, reference %s", name, a, b, res, want)
		}
	}
}

// do executes one op through the shared runner and evaluates the C15 verdicts on its result
func (c *c15Run) do(op string) string {
	if strings.HasPrefix(op, "X:") {
		res, _ := c17Exec(c.r, op) // one real trimming round
		c.r.ops = append(c.r.ops, op)
		c.r.res = append(c.r.res, res)
		c.o.Count("c15:trim:" + res)
		c.checkMirror("after the trimming round " + op + " => " + res)
		return res
	}
	res := c.r.do(op)
	switch {
	case strings.HasPrefix(op, "W:"):
		c.ref.apply(parseW(strings.Split(op, ":")), res)
		c.checkMirror("after " + op + " => " + res)
	case strings.HasPrefix(op, "I"):
		c.checkRead(op, res)
	}
	return res
}

func c15Replay(o *hx.Out, t []string) {
	// iseq <id> <shard> <thr> <ops>
	shard, err := strconv.ParseInt(t[2], 10, 64)
	hx.Must(err)
	ops := strings.Split(t[4], ";")
	kind, disk := "seq", false
	if t[0] == "xseq" {
		kind = "nseq"
	}
	for _, op := range ops {
		disk = disk || op == "R"
	}
	runCase(o, kind, shard, disk, "replay", "", func(r *runner) {
		r.ref = newRef()
		c := &c15Run{r: r, o: o, ref: &c15Ref{decl: map[string][][2]string{}}, tag: "replay", wild: t[0] == "wseq"}
		for _, op := range ops {
			c.do(op)
		}
	})
	o.Count("c15:replayed")
}

// ---------------------------------------------------------------- generator

type c15G struct {
	*gen
	c      *c15Run
	names  []string // the indexes this case writes to
	family []string // the names the queries are drawn from (the written ones and their look-alikes)
	skeys  []string
	pks    []string
	closed map[int64]bool
	bare   bool
}

func (g *c15G) write(w *wreq) string {
	w.offset, w.ts = g.nextOffTs()
	g.o.CountN("c15:put", len(w.puts))
	g.o.CountN("c15:delete", len(w.dels))
	g.o.CountN("c15:delete-range", len(w.ranges))
	for _, p := range w.puts {
		g.o.CountN("c15:declared-pairs", len(p.idx))
		if len(p.idx) > 1 {
			g.o.Count("c15:put-with-several-indexes")
		}
	}
	return g.c.do(w.String())
}

func (g *c15G) livePks() []string {
	var ks []string
	for k := range g.c.ref.decl {
		if !strings.HasPrefix(k, internalPrefix) {
			ks = append(ks, k)
		}
	}
	sort.Strings(ks)
	return ks
}

func (g *c15G) pk() string {
	if lk := g.livePks(); len(lk) > 0 && g.rng.Chance(50) {
		return hx.Pick(g.rng, lk)
	}
	return hx.Pick(g.rng, g.pks)
}

func (g *c15G) idx() [][2]string {
	var ix [][2]string
	n := hx.Pick(g.rng, []int{0, 1, 1, 1, 2, 2, 3, 4})
	for i := 0; i < n; i++ {
		ix = append(ix, [2]string{hx.Pick(g.rng, g.names), hx.Pick(g.rng, g.skeys)})
	}
	if len(ix) > 0 && g.rng.Chance(8) {
		ix = append(ix, ix[0]) // the same pair twice in one record
	}
	return ix
}

func (g *c15G) put() putOp {
	p := putOp{key: g.pk(), value: []byte(hx.Pick(g.rng, values)), idx: g.idx()}
	switch x := g.rng.Intn(100); {
	case x < 15:
		p.exp = g.expFor(p.key)
	case x < 27 && len(g.sessions) > 0:
		p.sess = p64(hx.Pick(g.rng, g.sessions))
	case x < 30:
		p.sess = p64(900) // never created: SESSION_DOES_NOT_EXIST, nothing may change
	case x < 38:
		p.key = hx.Pick(g.rng, c15SeqPrefixes)
		if g.bare {
			p.key = "sq"
		}
		n := g.seqParts[p.key]
		if n == 0 {
			n = 1 + g.rng.Intn(2)
			g.seqParts[p.key] = n
		}
		for i := 0; i < n; i++ {
			p.deltas = append(p.deltas, uint64(1+g.rng.Intn(3)))
		}
		p.part = pstr("pk")
		g.o.Count("c15:sequence-put-with-indexes")
	}
	return p
}

func (g *c15G) request() *wreq {
	w := &wreq{}
	switch x := g.rng.Intn(100); {
	case x < 12: // the same record rewritten inside one request, then possibly deleted
		k := g.pk()
		for i, n := 0, 2+g.rng.Intn(2); i < n; i++ {
			w.puts = append(w.puts, putOp{key: k, value: []byte(fmt.Sprintf("b%d", i)), idx: g.idx()})
		}
		if g.rng.Chance(40) {
			w.dels = append(w.dels, delOp{key: k})
		}
		g.o.Count("c15:same-key-batch")
	default:
		for i, n := 0, hx.Pick(g.rng, []int{0, 1, 1, 2, 3}); i < n; i++ {
			w.puts = append(w.puts, g.put())
		}
		for i, n := 0, hx.Pick(g.rng, []int{0, 0, 1, 2}); i < n; i++ {
			d := delOp{key: g.pk()}
			if g.rng.Chance(25) {
				d.exp = g.expFor(d.key)
			}
			w.dels = append(w.dels, d)
		}
		if g.rng.Chance(18) {
			for try := 0; try < 20; try++ {
				a, b := g.pk(), g.pk()
				if b != "" && !sweepsInternal(a, b) {
					w.ranges = append(w.ranges, rangeOp{a, b})
					break
				}
			}
		}
	}
	if len(w.puts)+len(w.dels)+len(w.ranges) == 0 {
		w.puts = append(w.puts, g.put())
	}
	return w
}

func (g *c15G) createSession() {
	md := &proto.SessionMetadata{TimeoutMs: 5000, Identity: "client"}
	val, err := md.MarshalVT()
	hx.Must(err)
	id := g.off + 1
	g.write(&wreq{puts: []putOp{{key: server.SessionKey(server.SessionId(id)), value: val}}})
	g.sessions = append(g.sessions, id)
	g.o.Count("c15:create-session")
}

// session.delete() / expiry: list the shadow keys, one request deleting the records, the session key and the shadow range
func (g *c15G) closeSession(id int64) {
	sk := server.SessionKey(server.SessionId(id))
	it, err := g.r.e.db.List(&proto.ListRequest{StartInclusive: sk + "/", EndExclusive: sk + "//"})
	hx.Must(err)
	w := &wreq{}
	for ; it.Valid(); it.Next() {
		if k, err := url.PathUnescape(it.Key()[len(sk)+1:]); err == nil && k != "" {
			w.dels = append(w.dels, delOp{key: k})
		}
	}
	it.Close()
	w.dels = append(w.dels, delOp{key: sk})
	w.ranges = append(w.ranges, rangeOp{sk + "/", sk + "//"})
	g.write(w)
	g.o.Count("c15:close-session")
}

// bulk: n indexed records under "r/", then one range delete (below / at / above DeleteRangeThreshold)
func (g *c15G) bulk(n int) {
	for i := 0; i < n; {
		w := &wreq{}
		for j := 0; j < 40 && i < n; j, i = j+1, i+1 {
			p := putOp{key: fmt.Sprintf("r/%03d", i), value: []byte("v")}
			p.idx = [][2]string{{g.names[i%len(g.names)], fmt.Sprintf("k/%d", i%5)}}
			if i%3 == 0 {
				p.idx = append(p.idx, [2]string{g.names[0], "m"})
			}
			w.puts = append(w.puts, p)
		}
		g.write(w)
	}
	g.queries(6)
	w := &wreq{ranges: []rangeOp{{"r/", "r//"}}}
	if g.rng.Chance(40) {
		w.ranges = []rangeOp{{"r/", fmt.Sprintf("r/%03d", n-1)}}
	}
	g.write(w)
	g.o.Count(fmt.Sprintf("c15:bulk-range-%d", n))
}

// index queries: every comparison type / List / RangeScan, keys at and beyond both edges of the index
func (g *c15G) queries(n int) {
	edge := []string{"", "\x02", "\xff\xff", "0", "~~"}
	qkey := func(es []c15Entry) string {
		switch x := g.rng.Intn(10); {
		case x < 3 && len(es) > 0:
			return es[0].skey // first entry
		case x < 6 && len(es) > 0:
			return es[len(es)-1].skey // last entry
		case x < 8:
			return hx.Pick(g.rng, edge)
		}
		return hx.Pick(g.rng, g.skeys)
	}
	for i := 0; i < n; i++ {
		name := hx.Pick(g.rng, g.family) // also indexes this case never writes to
		es := g.c.ref.entries(name)
		switch g.rng.Intn(10) {
		case 0, 1:
			g.c.do(fmt.Sprintf("IL:%s:%s:%s", hexs(name), hexs(qkey(es)), hexs(qkey(es))))
			g.o.Count("c15:query:list")
		case 2:
			g.c.do(fmt.Sprintf("IS:%s:%s:%s", hexs(name), hexs(qkey(es)), hexs(qkey(es))))
			g.o.Count("c15:query:range-scan")
		case 3:
			g.c.do(fmt.Sprintf("IL:%s:%s:%s", hexs(name), hexs(""), hexs("\xff\xff")))
			g.o.Count("c15:query:list-all")
		default:
			cmp := g.rng.Intn(5)
			key := qkey(es)
			g.c.do(fmt.Sprintf("IG:%s:%d:%s:%d", hexs(name), cmp, hexs(key), g.rng.Intn(2)))
			g.o.Count("c15:query:get:" + proto.KeyComparisonType(cmp).String())
			if len(es) == 0 {
				g.o.Count("c15:query:get-on-empty-index")
			} else if cws(key, es[0].skey) < 0 || cws(key, es[len(es)-1].skey) > 0 {
				g.o.Count("c15:query:get-beyond-an-edge")
			} else if key == es[0].skey || key == es[len(es)-1].skey {
				g.o.Count("c15:query:get-at-an-edge")
			}
		}
	}
}

func c15Gen(o *hx.Out, rng *hx.Rng, n int) {
	for cs := 0; cs < n; cs++ {
		crng := rng.Fork()
		shard := int64(1 + crng.Intn(9))
		flavour := crng.Intn(10)
		tag := fmt.Sprintf("c15case#%d", cs)
		// background activity: trimming rounds (flavours 3..9 only: the trimmer needs notifications), some on disk with reopen
		trims := flavour >= 3 && crng.Chance(50)
		disk := trims && crng.Chance(10)
		kind := "seq"
		if trims {
			kind = "nseq"
		}
		runCase(o, kind, shard, disk, tag, fmt.Sprintf("%d", crng.U64()), func(r *runner) {
			r.ref = newRef()
			c := &c15Run{r: r, o: o, ref: &c15Ref{decl: map[string][][2]string{}}, tag: tag}
			g := &c15G{gen: &gen{rng: crng, r: r, o: o, off: -1, ts: 1000 + uint64(crng.Intn(100000)), seqParts: map[string]int{}},
				c: c, pks: c15Pks, closed: map[int64]bool{}}
			// 1-4 indexes of one family (neighbours in the key order / look-alikes under mangling); queries go to the
			// whole family
			g.skeys = c15Skeys
			fam := c15Families[0]
			if crng.Chance(60) {
				fam = c15Families[1+crng.Intn(len(c15Families)-1)]
			}
			k := 1 + crng.Intn(4)
			start := crng.Intn(len(fam))
			for i := 0; i < k; i++ {
				g.names = append(g.names, fam[(start+i)%len(fam)])
			}
			g.family = append([]string(nil), fam...)
			if crng.Chance(12) { // indexes of two families side by side
				other := c15Families[crng.Intn(len(c15Families))]
				g.names = append(g.names, hx.Pick(crng, other))
				g.family = append(g.family, other...)
				o.Count("c15:case:two-families")
			}
			if crng.Chance(15) {
				g.skeys = append(append([]string(nil), c15Skeys...), c15LongSkey, c15LongSkey+"/"+c15LongSkey)
			}
			if flavour == 8 && crng.Chance(50) {
				// what the server accepts but the layout cannot represent: model comparison only
				c.wild = true
				g.names = append(g.names, hx.Pick(crng, c15WildNames), hx.Pick(crng, c15WildNames))
				g.family = append(g.family, c15WildNames...)
				g.skeys = append(append([]string(nil), g.skeys...), c15WildSkeys...)
				o.Count("c15:case:wild")
			}
			for _, nm := range g.names {
				if strings.ContainsAny(nm, "%") {
					o.Count("c15:case:printf-verb-in-an-index-name")
					break
				}
			}
			o.Count(fmt.Sprintf("c15:case:%d-indexes", k))
			bare := flavour < 3
			g.bare = bare
			if trims {
				o.Count("c15:case:trimming-rounds")
			}
			if disk {
				o.Count("c15:case:on-disk-with-reopen")
			}
			if bare {
				// no notifications, no sessions, no '/' in primary keys: index entries are the LAST keys of the DB
				r.do("E:0")
				g.pks = c15PksFlat
				o.Count("c15:case:index-entries-last-in-db")
			}
			nreq := 12 + crng.Intn(25)
			for i := 0; i < nreq; i++ {
				switch x := crng.Intn(100); {
				case x < 7 && !bare:
					g.createSession()
				case x < 11 && !bare && len(g.sessions) > 0:
					id := hx.Pick(crng, g.sessions)
					if !g.closed[id] {
						g.closed[id] = true
						g.closeSession(id)
					}
				default:
					g.write(g.request())
				}
				if trims && i >= 3 && crng.Chance(22) {
					o.Count("c15:case-step:trim")
					if disk && crng.Chance(40) {
						r.do("R")
					}
					// cut-off somewhere inside the history: the older batches go
					ts0 := g.ts - uint64(5*i)
					g.c.do(fmt.Sprintf("X:%d:%d", g.ts, crng.Intn(int(g.ts-ts0)+1)))
					if disk && crng.Chance(40) {
						r.do("R")
					}
				}
				g.queries(2 + crng.Intn(5))
				if flavour == 9 && i == 4 {
					g.bulk(hx.Pick(crng, []int{60, 100, 101, 130}))
				}
			}
			r.do("D")
		})
	}
	_ = kv.DeleteRangeThreshold
}
