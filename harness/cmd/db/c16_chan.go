package main

// C16 — the override channel under a CONCURRENT reader (the steps of WriteLast interleaved with receives): the one part
// of the property that lives in the Go scheduler.  The model (Db/SeqWait.v ch_step; theorems c16_write_last_never_blocks,
// c16_write_last_leaves_latest) says no step of the writer ever waits; here the REAL code runs against a polling reader,
// every dispatch under a watchdog.  No model leg (a stress test: what is compared is "returns / does not return").
//
// -mode c16chan
//	chan <id> cell <writes> <burst>       channel.NewOverrideChannel[string]: a reader goroutine polls Ch() (non-blocking
//	                                      receive + Gosched), the writer issues <writes> WriteLast calls in bursts of <burst>
//	chan <id> db <batches> <puts>         kv.DB: a reader polls the SequenceWaiter of one prefix while <batches> requests of
//	                                      <puts> sequence puts of that prefix are applied with ProcessWrite
//	    -> ok | blocked
//	spec verdicts:
//	  seq:dispatch-blocked                 a WriteLast did not return within the watchdog (2 s; a call takes < 1 us)
//	  seq:apply-blocked-in-dispatch        a ProcessWrite did not return within the watchdog (it sits in SequenceUpdated)
//	  seq:subscriber-did-not-observe-latest-key   after the last write the reader's last value is not the last value written
//	  seq:subscriber-saw-key-never-generated      the reader got a value that was never written / values going backwards
//	The window of the seeded variant (reader takes the value between the failed send and the drain) is a race: the case
//	sizes are chosen so that the broken variant is hit within the first few thousand dispatches (measured, see C16.py).

import (
	"fmt"
	"runtime"
	"strconv"
	"sync/atomic"
	"time"

	"github.com/oxia-db/oxia/common/channel"
	"github.com/oxia-db/oxia/proto"
	"github.com/oxia-db/oxia/server"

	"verif/harness/internal/hx"
)

func init() {
	modes["c16chan"] = c16ChanMain
	replayKinds["chan"] = func(o *hx.Out, t []string) {
		a, err := strconv.Atoi(t[3])
		hx.Must(err)
		b, err := strconv.Atoi(t[4])
		hx.Must(err)
		switch t[2] {
		case "cell":
			c16ChanCell(o, a, b)
		case "db":
			c16ChanDB(o, a, b)
		}
	}
}

const c16Watchdog = 2 * time.Second

var c16ChanBlocked int

// watch waits until done is closed; it gives up when `progress` has not moved for the watchdog time
func watch(done chan struct{}, progress *atomic.Int64) bool {
	last := progress.Load()
	timer := time.NewTimer(c16Watchdog)
	defer timer.Stop()
	tick := time.NewTicker(20 * time.Millisecond)
	defer tick.Stop()
	for {
		select {
		case <-done:
			return true
		case <-tick.C:
			if p := progress.Load(); p != last {
				last = p
				timer.Reset(c16Watchdog)
			}
		case <-timer.C:
			if progress.Load() == last {
				return false
			}
			timer.Reset(c16Watchdog)
		}
	}
}

func c16ChanCell(o *hx.Out, writes, burst int) {
	if c16ChanBlocked >= 2 {
		return
	}
	och := channel.NewOverrideChannel[string]()
	var progress atomic.Int64
	var stop atomic.Bool
	var lastSeen atomic.Int64 // index of the last value the reader took (values are their index)
	lastSeen.Store(-1)
	var backwards atomic.Bool
	readerDone := make(chan struct{})
	go func() {
		defer close(readerDone)
		prev := int64(-1)
		for !stop.Load() {
			select {
			case v := <-och.Ch():
				n, _ := strconv.ParseInt(v, 10, 64)
				if n <= prev {
					backwards.Store(true)
				}
				prev = n
				lastSeen.Store(n)
			default:
				runtime.Gosched()
			}
		}
	}()
	done := make(chan struct{})
	go func() {
		defer close(done)
		for i := 0; i < writes; i++ {
			och.WriteLast(strconv.Itoa(i))
			progress.Add(1)
			if burst > 0 && i%burst == burst-1 {
				runtime.Gosched() // the end of a burst: let the reader run
			}
		}
	}()
	res := "ok"
	if !watch(done, &progress) {
		res = "blocked"
		c16ChanBlocked++
		o.Violation("seq:dispatch-blocked", fmt.Sprintf("channel.OverrideChannel: WriteLast #%d (of %d, bursts of %d, polling reader) did not return within %v",
			progress.Load(), writes, burst, c16Watchdog))
	} else {
		// the reader keeps receiving: it must end with the last value written
		deadline := time.Now().Add(c16Watchdog)
		for lastSeen.Load() != int64(writes-1) && time.Now().Before(deadline) {
			runtime.Gosched()
		}
		if lastSeen.Load() != int64(writes-1) {
			o.Violation("seq:subscriber-did-not-observe-latest-key", fmt.Sprintf("channel.OverrideChannel: after %d writes the reader's last value is %d", writes, lastSeen.Load()))
		}
		if backwards.Load() {
			o.Violation("seq:subscriber-saw-key-never-generated", "channel.OverrideChannel: the reader received values out of order")
		}
	}
	stop.Store(true)
	if res == "ok" {
		<-readerDone
	}
	o.Count("c16chan:cell-writes:" + res)
	o.Case("chan", fmt.Sprintf("cell %d %d", writes, burst), res, fmt.Sprintf("cell %d %d", writes, burst))
}

func c16ChanDB(o *hx.Out, batches, puts int) {
	if c16ChanBlocked >= 2 {
		return
	}
	e := newEnv(1, false)
	const prefix = "seq"
	sw, err := e.db.GetSequenceUpdates(prefix)
	hx.Must(err)
	var progress atomic.Int64
	var stop atomic.Bool
	var lastSeen atomic.Value
	lastSeen.Store("")
	var backwards atomic.Bool
	readerDone := make(chan struct{})
	go func() {
		defer close(readerDone)
		prev := ""
		for !stop.Load() {
			select {
			case v, ok := <-sw.Ch():
				if !ok {
					return
				}
				if v <= prev { // 20-digit suffixes of one prefix: string order = numeric order
					backwards.Store(true)
				}
				prev = v
				lastSeen.Store(v)
			default:
				runtime.Gosched()
			}
		}
	}()
	var lastKey atomic.Value
	lastKey.Store("")
	done := make(chan struct{})
	go func() {
		defer close(done)
		for b := 0; b < batches; b++ {
			req := &proto.WriteRequest{}
			for i := 0; i < puts; i++ {
				pk := "p"
				req.Puts = append(req.Puts, &proto.PutRequest{Key: prefix, Value: []byte("v"), PartitionKey: &pk, SequenceKeyDelta: []uint64{1}})
			}
			resp, err := e.db.ProcessWrite(req, int64(b), uint64(1000+b), server.WrapperUpdateOperationCallback)
			hx.Must(err)
			lastKey.Store(resp.Puts[len(resp.Puts)-1].GetKey())
			progress.Add(1)
		}
	}()
	res := "ok"
	if !watch(done, &progress) {
		res = "blocked"
		c16ChanBlocked++
		o.Violation("seq:apply-blocked-in-dispatch", fmt.Sprintf("kv.DB: ProcessWrite #%d (of %d requests of %d sequence puts on one prefix, polling subscriber) did not return within %v",
			progress.Load(), batches, puts, c16Watchdog))
	} else {
		want := lastKey.Load().(string)
		deadline := time.Now().Add(c16Watchdog)
		for lastSeen.Load().(string) != want && time.Now().Before(deadline) {
			runtime.Gosched()
		}
		if got := lastSeen.Load().(string); got != want {
			o.Violation("seq:subscriber-did-not-observe-latest-key", fmt.Sprintf("kv.DB: after %d requests of %d sequence puts the polling subscriber's last value is %q, the last generated key is %q", batches, puts, got, want))
		}
		if backwards.Load() {
			o.Violation("seq:subscriber-saw-key-never-generated", "kv.DB: the polling subscriber received keys out of order")
		}
	}
	stop.Store(true)
	if res == "ok" {
		<-readerDone
		_ = sw.Close()
		e.close()
	} // a blocked DB cannot be closed (Close needs the tracker's lock): it is abandoned
	o.Count("c16chan:db-batches:" + res)
	o.Case("chan", fmt.Sprintf("db %d %d", batches, puts), res, fmt.Sprintf("db %d %d", batches, puts))
}

func c16ChanMain(o *hx.Out, f hx.Flags) {
	// -n scales the volume; the quick tier (n = 100) stays around 2-3 s
	rounds := f.N/50 + 1
	for r := 0; r < rounds && c16ChanBlocked < 2; r++ { // (a blocked dispatch costs the watchdog time: two are enough)
		c16ChanCell(o, 150000, 64)
		c16ChanDB(o, 150, 64)
		c16ChanCell(o, 150000, 1)
		c16ChanCell(o, 150000, 2)
		c16ChanDB(o, 400, 2)
	}
}
