package main

// C02, leg c02scan: ONE read operation over many records is ONE atomic observation, even while writes commit
// during it ("every completed operation takes effect atomically at one point").
//
// A real rf=1 server.LeaderController (wiring of c13_leader.go: real WAL, real Pebble DB through kvsafe) is loaded
// with N keys  key-00000 .. key-<N-1>  (value v0, secondary index "i" with key s-<nnnnn>).  Then one
// RangeScan / List / index List / index RangeScan over the whole key range is started with a stream callback owned
// by the harness.  Inside the callback, at chosen record numbers (0, 999, 1000, 1001, N/2, N-1: around the 1000-record
// batches of the public stream), the harness issues and AWAITS one WriteBlock that atomically rewrites keys spread
// over the range (first, last, middle, around the 1000-record boundaries: puts of new values, deletes, new keys).
// When the scan has completed, what it returned must equal the range in the state after some PREFIX of the writes
// acknowledged during it - the same prefix for every key.
//
//	case   scan <id> <kind> <N> <trigger>,<trigger>,...        kind = scan | list | ilist | iscan
//	result atomic:<prefix>/<writes>  |  torn  |  write-blocked (a write did not return within the bound while the scan
//	       was open: counted, not a verdict)  |  err:<text>
//
// SPEC VERDICTS
//	scan:not-atomic-snapshot          RangeScan / List / index List returned a mixture of two states
//	scan:index-range-scan-not-atomic  the same for the secondary-index RangeScan (its values are read by one Get per
//	                                  record, see newSecondaryIndexRangeScanIterator)
//	scan:failed                       the scan ended with an error

import (
	"context"
	"fmt"
	"sort"
	"strconv"
	"strings"
	"sync"
	"time"

	"github.com/oxia-db/oxia/proto"

	"verif/harness/internal/hx"
)

func init() {
	modes["c02scan"] = c02ScanMain
	replayKinds["scan"] = func(o *hx.Out, t []string) {
		n, err := strconv.Atoi(t[3])
		hx.Must(err)
		var trig []int
		for _, s := range strings.Split(t[4], ",") {
			v, err := strconv.Atoi(s)
			hx.Must(err)
			trig = append(trig, v)
		}
		leaderEnvInMemory = true
		c02ScanCase(o, t[2], n, trig, "replay")
	}
}

type c02Rec struct{ key, value string }

// the state the harness expects: key -> value (the index key of key-<x> is s-<x>)
type c02State map[string]string

func (s c02State) clone() c02State {
	c := make(c02State, len(s))
	for k, v := range s {
		c[k] = v
	}
	return c
}

func c02Skey(key string) string { return "s-" + strings.TrimPrefix(key, "key-") }

// what a scan of [kind] over the whole range returns in state s
func (s c02State) render(kind string) string {
	keys := make([]string, 0, len(s))
	for k := range s {
		keys = append(keys, k)
	}
	sort.Strings(keys) // no '/' in these keys: the key order is bytewise; s-<x> sorts like key-<x>
	var sb strings.Builder
	for _, k := range keys {
		sb.WriteString(k)
		if kind == "scan" || kind == "iscan" {
			sb.WriteString("=" + s[k])
		}
		sb.WriteByte(',')
	}
	return sb.String()
}

type c02Scan struct {
	o        *hx.Out
	l        *leaderEnv
	kind     string
	n        int
	triggers map[int]bool
	states   []c02State // states[j] = after j writes acknowledged during the scan
	writes   []string
	got      []c02Rec
	seen     int
	blocked  bool
	werr     error
	done     chan error
	counts   map[string]int // hx.Out is not goroutine-safe: the callback (scan goroutine) counts here, the main goroutine flushes
	pending  sync.WaitGroup // WriteBlock calls issued from the callback: all awaited before the controller is closed
}

func c02Key(i int) string { return fmt.Sprintf("key-%05d", i) }

// one atomic write spread over the range
func (sc *c02Scan) nextWrite() *wreq {
	j := len(sc.states)
	cur := sc.states[j-1]
	next := cur.clone()
	w := &wreq{}
	val := fmt.Sprintf("v%d", j)
	put := func(k string) {
		if _, dup := next[k+"\x00put"]; dup {
			return
		}
		w.puts = append(w.puts, putOp{key: k, value: []byte(val), idx: [][2]string{{"i", c02Skey(k)}}})
		next[k] = val
	}
	del := func(k string) {
		if _, ok := cur[k]; !ok {
			return
		}
		for _, p := range w.puts {
			if p.key == k {
				return
			}
		}
		w.dels = append(w.dels, delOp{key: k})
		delete(next, k)
	}
	n := sc.n
	put(c02Key(0))
	put(c02Key(n - 1))
	for _, i := range []int{n / 2, 998, 1000, 1001, 1999, 2000, 2001, 3000} {
		if i > 0 && i < n-1 {
			switch (i + j) % 4 {
			case 0:
				del(c02Key(i))
			case 1:
				put(c02Key(i) + "x") // a new key between two existing ones
			default:
				put(c02Key(i))
			}
		}
	}
	if j%2 == 0 {
		del(c02Key(1))
		put(c02Key(n-2) + "y")
	}
	sc.states = append(sc.states, next)
	return w
}

func (sc *c02Scan) maybeWrite() {
	i := sc.seen
	sc.seen++
	if !sc.triggers[i] || sc.blocked {
		return
	}
	w := sc.nextWrite()
	ack := make(chan error, 1)
	sc.pending.Add(1)
	req := w.toProto()
	go func() {
		defer sc.pending.Done()
		_, err := sc.l.lc.WriteBlock(context.Background(), req)
		ack <- err
	}()
	select {
	case err := <-ack:
		if err != nil {
			// reported by the main goroutine as scan:failed; no further writes
			sc.werr = err
			sc.blocked = true
			sc.states = sc.states[:len(sc.states)-1]
			return
		}
		sc.writes = append(sc.writes, fmt.Sprintf("after record #%d: %d puts %d deletes", i, len(w.puts), len(w.dels)))
		sc.counts["scan:write-during-scan"]++
	case <-time.After(c13Step):
		// the implementation does not let a write complete while the scan is open: not this leg's subject
		sc.blocked = true
		sc.states = sc.states[:len(sc.states)-1]
		sc.counts["scan:write-blocked-during-scan"]++
	}
}

type c02GetCb struct{ sc *c02Scan }

func (c c02GetCb) OnNext(g *proto.GetResponse) error {
	c.sc.got = append(c.sc.got, c02Rec{g.GetKey(), string(g.Value)})
	c.sc.maybeWrite()
	return nil
}
func (c c02GetCb) OnComplete(err error) { c.sc.done <- err }

type c02KeyCb struct{ sc *c02Scan }

func (c c02KeyCb) OnNext(k string) error {
	c.sc.got = append(c.sc.got, c02Rec{key: k})
	c.sc.maybeWrite()
	return nil
}
func (c c02KeyCb) OnComplete(err error) { c.sc.done <- err }

func c02ScanCase(o *hx.Out, kind string, n int, triggers []int, tag string) {
	l := newLeaderEnv(o, 1, tag)
	defer l.close()
	hx.Must(l.start(1))
	st := c02State{}
	for i := 0; i < n; {
		w := &wreq{}
		for j := 0; j < 500 && i < n; j, i = j+1, i+1 {
			k := c02Key(i)
			w.puts = append(w.puts, putOp{key: k, value: []byte("v0"), idx: [][2]string{{"i", c02Skey(k)}}})
			st[k] = "v0"
		}
		ctx, cancel := context.WithTimeout(context.Background(), 4*c13Step)
		_, err := l.lc.WriteBlock(ctx, w.toProto())
		cancel()
		hx.Must(err)
	}
	sc := &c02Scan{o: o, l: l, kind: kind, n: n, triggers: map[int]bool{}, states: []c02State{st}, done: make(chan error, 1), counts: map[string]int{}}
	var ts []string
	for _, t := range triggers {
		sc.triggers[t] = true
		ts = append(ts, strconv.Itoa(t))
	}
	o.Count("scan:" + kind)
	o.Count(fmt.Sprintf("scan:N=%d", n))
	ctx, cancel := context.WithCancel(context.Background())
	defer cancel()
	idx := "i"
	shard := int64(1)
	switch kind {
	case "scan":
		l.lc.RangeScan(ctx, &proto.RangeScanRequest{Shard: &shard, StartInclusive: "key-", EndExclusive: "key-~"}, c02GetCb{sc})
	case "list":
		l.lc.List(ctx, &proto.ListRequest{Shard: &shard, StartInclusive: "key-", EndExclusive: "key-~"}, c02KeyCb{sc})
	case "ilist":
		l.lc.List(ctx, &proto.ListRequest{Shard: &shard, StartInclusive: "s-", EndExclusive: "s-~", SecondaryIndexName: &idx}, c02KeyCb{sc})
	case "iscan":
		l.lc.RangeScan(ctx, &proto.RangeScanRequest{Shard: &shard, StartInclusive: "s-", EndExclusive: "s-~", SecondaryIndexName: &idx}, c02GetCb{sc})
	default:
		panic("c02scan: unknown kind " + kind)
	}
	input := fmt.Sprintf("%s %d %s", kind, n, strings.Join(ts, ","))
	ctxt := fmt.Sprintf("%s: %s over %d keys, writes awaited inside the stream callback: [%s]", tag, kind, n, "%s")
	var res string
	// No bound here: the controller is never closed with a scan or a write of this case in flight (the leg's own
	// timeout is the bound). From here on the scan goroutine has ended: its fields are read by this goroutine only.
	err := <-sc.done
	sc.pending.Wait()
	for k, v := range sc.counts {
		o.CountN(k, v)
	}
	if err == nil && sc.werr != nil {
		err = fmt.Errorf("a WriteBlock issued during the scan failed: %w", sc.werr)
	}
	if err != nil {
		res = "err:" + errKind(err)
		o.Violation("scan:failed", fmt.Sprintf(ctxt, strings.Join(sc.writes, "; "))+": the scan ended with "+err.Error())
	}
	if res == "" {
		got := c02State{}
		var order strings.Builder
		for _, r := range sc.got {
			got[r.key] = r.value
			order.WriteString(r.key)
			if kind == "scan" || kind == "iscan" {
				order.WriteString("=" + r.value)
			}
			order.WriteByte(',')
		}
		match := -1
		for j := range sc.states {
			if sc.states[j].render(kind) == order.String() {
				match = j
				break
			}
		}
		switch {
		case match >= 0:
			res = fmt.Sprintf("atomic:%d/%d", match, len(sc.states)-1)
			o.Count(fmt.Sprintf("scan:observed-prefix-%d-of-%d", match, len(sc.states)-1))
		default:
			res = "torn"
			sig := "scan:not-atomic-snapshot"
			if kind == "iscan" {
				sig = "scan:index-range-scan-not-atomic"
			}
			o.Violation(sig, fmt.Sprintf(ctxt, strings.Join(sc.writes, "; "))+": "+c02Explain(sc, got, kind))
		}
		if sc.blocked {
			res += " write-blocked"
		}
	}
	o.Case("scan", input, res, input)
}

// c02Explain names two keys of the result that cannot come from the same state
func c02Explain(sc *c02Scan, got c02State, kind string) string {
	touched := map[string]bool{}
	for j := 1; j < len(sc.states); j++ {
		for k, v := range sc.states[j] {
			if pv, ok := sc.states[j-1][k]; !ok || pv != v {
				touched[k] = true
			}
		}
		for k := range sc.states[j-1] {
			if _, ok := sc.states[j][k]; !ok {
				touched[k] = true
			}
		}
	}
	keys := make([]string, 0, len(touched))
	for k := range touched {
		keys = append(keys, k)
	}
	sort.Strings(keys)
	show := func(s c02State, k string) string {
		v, ok := s[k]
		if !ok {
			return "absent"
		}
		if kind == "list" || kind == "ilist" {
			return "present"
		}
		return v
	}
	agree := func(k string) []int {
		var js []int
		for j, s := range sc.states {
			if show(s, k) == show(got, k) {
				js = append(js, j)
			}
		}
		return js
	}
	var firstK string
	var firstJ []int
	for _, k := range keys {
		js := agree(k)
		if len(js) == 0 {
			return fmt.Sprintf("%s is %s in the result, which it never was", k, show(got, k))
		}
		if firstK == "" {
			firstK, firstJ = k, js
			continue
		}
		common := false
		for _, a := range js {
			for _, b := range firstJ {
				if a == b {
					common = true
				}
			}
		}
		if !common {
			return fmt.Sprintf("%s is %s (the state after %v of the %d writes) but %s is %s (the state after %v writes): one scan returned two states",
				firstK, show(got, firstK), firstJ, len(sc.states)-1, k, show(got, k), js)
		}
	}
	return fmt.Sprintf("the %d records returned are not the range in any of the %d states (order or untouched keys differ)", len(sc.got), len(sc.states))
}

func c02ScanMain(o *hx.Out, f hx.Flags) {
	leaderEnvInMemory = true
	rng := hx.NewRng(f.Seed ^ 0xc02)
	trig := func(n int) []int {
		cands := []int{0, 999, 1000, 1001, n / 2, n - 1}
		var t []int
		for _, c := range cands {
			if c < n && rng.Chance(50) {
				t = append(t, c)
			}
		}
		if len(t) == 0 {
			t = []int{hx.Pick(rng, []int{0, n / 2})}
		}
		return t
	}
	fixed := []struct {
		kind string
		n    int
		t    []int
	}{
		{"scan", 2500, []int{0}}, {"scan", 1001, []int{999}}, {"list", 2500, []int{0, 1000}}, {"ilist", 1001, []int{0, 1000}},
		{"iscan", 1001, []int{0, 500}}, {"scan", 4000, []int{1001, 3999}},
	}
	c := 0
	for _, x := range fixed {
		c02ScanCase(o, x.kind, x.n, x.t, fmt.Sprintf("c02scan#%d", c))
		c++
	}
	for ; c < f.N; c++ {
		kind := hx.Pick(rng, []string{"scan", "scan", "list", "ilist", "iscan"})
		n := hx.Pick(rng, []int{500, 1000, 1001, 500, 1001, 1000, 2500})
		if rng.Chance(6) {
			n = 4000
		}
		c02ScanCase(o, kind, n, trig(n), fmt.Sprintf("c02scan#%d", c))
	}
}
