package main

// C06, route R (reads-interleaved): operations that are NOT log entries must not change a replica.
//
// Replica R (a real kv.DB; on disk for about a third of the logs) applies the committed log of the case and,
// between any two entries, answers a random batch of reads: Get with the five comparison types with and
// WITHOUT the value, secondary-index Get / List / RangeScan, List, RangeScan, notification reads,
// ReadCommitOffset; on keys the next entry writes, on other live keys (user and internal), on absent keys;
// it also registers and closes sequence waiters (GetSequenceUpdates) and, on disk, takes and drops snapshots
// (which flush). Replica B (a real in-memory kv.DB) applies the same log alone, in lockstep.
// After EVERY entry the full dumps of R and B (all keys incl. __oxia/..., values, versions, metadata) must be
// identical; at the end R's dump must be route A's final dump, also after Close + NewDB (on disk).
// R's op list is a `seq` case: every read's answer is compared with the model's read on the current state.
//
// SPEC VERDICT  determinism:routes-differ:reads-interleaved

import (
	"context"
	"fmt"
	"strings"

	"verif/harness/internal/hx"
)

func c06ReadKeys(d []dumpEntry) (user, internal []string) {
	for _, x := range d {
		if strings.HasPrefix(x.key, internalPrefix) {
			internal = append(internal, x.key)
		} else {
			user = append(user, x.key)
		}
	}
	return
}

// c06ReadBatch returns the read ops served before entry `next` (nil after the last entry).
func c06ReadBatch(rng *hx.Rng, state []dumpEntry, next *wreq, lastOff int64) []string {
	user, internal := c06ReadKeys(state)
	var nextKeys []string
	if next != nil {
		for _, p := range next.puts {
			nextKeys = append(nextKeys, p.key)
		}
		for _, d := range next.dels {
			nextKeys = append(nextKeys, d.key)
		}
		for _, r := range next.ranges {
			nextKeys = append(nextKeys, r.start)
		}
	}
	key := func() string {
		for try := 0; try < 8; try++ {
			var k string
			switch x := rng.Intn(100); {
			case x < 30 && len(nextKeys) > 0:
				k = hx.Pick(rng, nextKeys)
			case x < 75 && len(user) > 0:
				k = hx.Pick(rng, user)
			case x < 85 && len(internal) > 0:
				k = hx.Pick(rng, internal)
			default:
				k = hx.Pick(rng, userKeys)
			}
			if k != "" {
				return k
			}
		}
		return "a"
	}
	var ops []string
	for i, n := 0, rng.Intn(6); i < n; i++ {
		switch x := rng.Intn(100); {
		case x < 50:
			incl := 1
			if rng.Chance(65) {
				incl = 0 // metadata only
			}
			cmp := 0
			if rng.Chance(35) {
				cmp = rng.Intn(5)
			}
			ops = append(ops, fmt.Sprintf("G:%d:%s:%d", cmp, hexs(key()), incl))
		case x < 62:
			ops = append(ops, fmt.Sprintf("IG:%s:%d:%s:%d", hexs(hx.Pick(rng, idxNames)), rng.Intn(5), hexs(hx.Pick(rng, idxKeys)), rng.Intn(2)))
		case x < 70:
			a, b := key(), key()
			if rng.Chance(30) {
				a = ""
			}
			if rng.Chance(30) {
				b = ""
			}
			ops = append(ops, fmt.Sprintf("L:%s:%s", hexs(a), hexs(b)))
		case x < 78:
			a, b := key(), key()
			if rng.Chance(20) {
				a = ""
			}
			// (a range scan returns records with their timestamps: the wall-clock term keys are kept out of it)
			if !sweepsInternal(a, b) {
				ops = append(ops, fmt.Sprintf("S:%s:%s", hexs(a), hexs(b)))
			}
		case x < 84:
			ops = append(ops, fmt.Sprintf("N:%d", hx.Pick(rng, []int64{0, -1, lastOff, lastOff + 1, lastOff / 2, lastOff - 1})))
		case x < 88:
			ops = append(ops, "C")
		case x < 94:
			ops = append(ops, fmt.Sprintf("IL:%s:%s:%s", hexs(hx.Pick(rng, idxNames)), hexs(hx.Pick(rng, idxKeys)), hexs(hx.Pick(rng, idxKeys))))
		default:
			ops = append(ops, fmt.Sprintf("IS:%s:%s:%s", hexs(hx.Pick(rng, idxNames)), hexs(hx.Pick(rng, idxKeys)), hexs(hx.Pick(rng, idxKeys))))
		}
	}
	return ops
}

func c06RouteReads(o *hx.Out, rng *hx.Rng, lg *c06Log) {
	disk := rng.Chance(35) || (lg.pivot >= 0 && rng.Chance(50))
	b := newEnv(lg.shard, false) // applies the log alone
	defer b.close()
	c06Prelude(b.db, lg)
	rt := &c06Route{o: o, lg: lg, name: "reads-interleaved", sig: "determinism:routes-differ:reads-interleaved"}
	var sched []string
	nreads := 0
	runCase(o, "seq", lg.shard, disk, "c06reads", fmt.Sprintf("c06reads|%d", rng.U64()), func(r *runner) {
		r.ref = nil
		r.do(fmt.Sprintf("T:%d:%d", lg.term, b2i(lg.en)))
		r.do(fmt.Sprintf("E:%d", b2i(lg.en)))
		state := b.dump()
		lastOff := int64(-1)
		serve := func(i int, next *wreq) {
			batch := c06ReadBatch(rng, state, next, lastOff)
			for _, op := range batch {
				r.do(op)
			}
			nreads += len(batch)
			if len(batch) > 0 {
				sched = append(sched, fmt.Sprintf("before#%d[%s]", i, strings.Join(batch, " ")))
			}
			// not in the op grammar (nothing to answer): a sequence waiter comes and goes; a snapshot is taken and dropped
			if rng.Chance(10) {
				if sw, err := r.e.db.GetSequenceUpdates(hx.Pick(rng, seqPrefixes)); err == nil {
					ctx, cancel := context.WithCancel(context.Background())
					cancel()
					_, _ = sw.Receive(ctx)
					_ = sw.Close()
				}
				sched = append(sched, fmt.Sprintf("before#%d[sequence-waiter]", i))
				o.Count("reads:sequence-waiter")
			}
			if disk && rng.Chance(8) {
				snap, err := r.e.db.Snapshot()
				hx.Must(err)
				for k := 0; snap.Valid() && k < 3; k++ {
					_, err := snap.Chunk()
					hx.Must(err)
					snap.Next()
				}
				hx.Must(snap.Close())
				sched = append(sched, fmt.Sprintf("before#%d[snapshot+flush]", i))
				o.Count("reads:snapshot-taken")
			}
		}
		for i, en := range lg.entries {
			if disk && i == lg.pivot {
				// the instance is re-created right after the highest timestamp so far (B keeps its instance)
				r.do("R")
				r.do(fmt.Sprintf("E:%d", b2i(lg.en)))
				sched = append(sched, fmt.Sprintf("before#%d[Close+NewDB]", i))
				o.Count("reads:reopen-at-pivot")
			}
			serve(i, en.w)
			rt.how = strings.Join(sched, " ")
			rt.entry(i, r.do(en.op))
			_ = c06Apply(b.db, en.w)
			lastOff = en.w.offset
			state = b.dump()
			if rt.bad {
				continue
			}
			if got, want := dumpText(r.e.dump()), dumpText(state); got != want {
				rt.bad = true
				o.Violation("determinism:routes-differ:reads-interleaved", fmt.Sprintf("after entry #%d %s: %s (live = a replica that applied the log alone, other = the replica that also served reads: %s); %s",
					i, en.op, firstDiff(want, got), rt.how, lg.text()))
			}
		}
		serve(len(lg.entries), nil)
		rt.how = strings.Join(sched, " ")
		final := r.do("D")
		if disk && !rt.bad { // (a replica that already differs may not even reopen)
			r.do("R")
			r.do(fmt.Sprintf("E:%d", b2i(lg.en)))
			if again := r.do("D"); again != final && !rt.bad {
				rt.bad = true
				o.Violation("determinism:routes-differ:reads-interleaved", fmt.Sprintf("the replica that served reads changes over Close + NewDB: %s (%s); %s", firstDiff(final, again), rt.how, lg.text()))
			}
			o.Count("reads:reopen-at-end")
		}
		rt.final(final)
	})
	o.CountN("reads:served", nreads)
}
